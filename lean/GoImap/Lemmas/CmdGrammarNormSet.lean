/-
  C02 helper lemmas: the spec's interval normal form of a number set (`normSet`: sort by lower bound, merge
  overlapping or adjacent intervals, `*` = 2^32 above every number) is the set the server's `ParseSet` builds from
  the printed ranges (`delivSet`: `AddRange` one by one).

  Route: (1) ascending non-adjacent interval lists are determined by their members (`iv_ext`); (2) `mergeIv ∘ sortIv`
  yields such a list with the members of the input (`mergeIv_spec`); (3) a canonical set, read as intervals, is such
  a list unless it ends in `n:4294967295,*` (`ivFrom_of_canon`) — the one shape where the two normal forms differ
  (`normSet` writes `n:*`); `TopOK` excludes exactly it (`topOK_of_eq` is the converse); (4) `insert` preserves "some range is `n:*`" (`insert_anyW`, the
  denotation at 2^32 that C15's `insert_any` leaves out).
-/
import GoImap.Lemmas.CmdGrammarLitCmds
namespace GoImap.CmdLemmas
open GoImap.CmdGrammar GoImap.CmdSpec
open GoImap.NumSet (Range normRange CanonFrom Canon)
open GoImap.NumSetSpec (Op)

/-! ### ascending, non-adjacent interval lists -/

/-- `q` lies in the interval `x` -/
def ivIn (x : Nat × Nat) (q : Nat) : Bool := x.1 ≤ q && q ≤ x.2

theorem ivIn_iff (x : Nat × Nat) (q : Nat) : ivIn x q = true ↔ x.1 ≤ q ∧ q ≤ x.2 := by
  simp [ivIn]

def ivMem (l : List (Nat × Nat)) (q : Nat) : Bool := l.any fun x => ivIn x q

theorem ivMem_cons (x : Nat × Nat) (l : List (Nat × Nat)) (q : Nat) :
    ivMem (x :: l) q = (ivIn x q || ivMem l q) := rfl

/-- non-empty intervals, each starting at least two above the end of the one before (`b` is one above that end) -/
def IvFrom (b : Nat) : List (Nat × Nat) → Prop
  | [] => True
  | x :: r => b < x.1 ∧ x.1 ≤ x.2 ∧ IvFrom (x.2 + 1) r

theorem IvFrom.anti {l : List (Nat × Nat)} {b b' : Nat} (h : IvFrom b l) (hle : b' ≤ b) : IvFrom b' l := by
  cases l with
  | nil => trivial
  | cons x r => exact ⟨by have := h.1; omega, h.2.1, h.2.2⟩

theorem IvFrom.starts : ∀ {l : List (Nat × Nat)} {b : Nat}, IvFrom b l → ∀ y ∈ l, b < y.1
  | [], _, _, y, hy => by cases hy
  | x :: r, b, h, y, hy => by
    rcases List.mem_cons.1 hy with rfl | hy'
    · exact h.1
    · have := IvFrom.starts h.2.2 y hy'
      have := h.1; have := h.2.1
      omega

theorem ivMem_below : ∀ (l : List (Nat × Nat)) (b q : Nat), IvFrom b l → q ≤ b → ivMem l q = false
  | [], _, _, _, _ => rfl
  | x :: r, b, q, h, hq => by
    have h1 := h.1; have h2 := h.2.1
    rw [ivMem_cons, ivMem_below r (x.2 + 1) q h.2.2 (by omega)]
    have : ivIn x q = false := by
      rw [Bool.eq_false_iff, Ne, ivIn_iff]; omega
    rw [this]; rfl

/-- two such lists with the same members are equal -/
theorem iv_ext : ∀ (l l' : List (Nat × Nat)) (b : Nat), IvFrom b l → IvFrom b l' →
    (∀ q, ivMem l q = ivMem l' q) → l = l'
  | [], [], _, _, _, _ => rfl
  | [], y :: r', b, _, h', hq => by
    have := hq y.1
    have hy : ivIn y y.1 = true := by rw [ivIn_iff]; exact ⟨Nat.le_refl _, h'.2.1⟩
    rw [ivMem_cons, hy] at this
    cases this
  | x :: r, [], b, h, _, hq => by
    have := hq x.1
    have hx : ivIn x x.1 = true := by rw [ivIn_iff]; exact ⟨Nat.le_refl _, h.2.1⟩
    rw [ivMem_cons, hx] at this
    cases this
  | x :: r, y :: r', b, h, h', hq => by
    obtain ⟨x1, x2⟩ := x
    obtain ⟨y1, y2⟩ := y
    obtain ⟨hx1, hx2, hr⟩ := h
    obtain ⟨hy1, hy2, hr'⟩ := h'
    simp only at hx1 hx2 hr hy1 hy2 hr'
    -- membership of a point, unfolded
    have key : ∀ q, ((x1 ≤ q ∧ q ≤ x2) ∨ ivMem r q = true) ↔ ((y1 ≤ q ∧ q ≤ y2) ∨ ivMem r' q = true) := by
      intro q
      have := hq q
      rw [ivMem_cons, ivMem_cons, Bool.eq_iff_iff, Bool.or_eq_true, Bool.or_eq_true, ivIn_iff, ivIn_iff] at this
      exact this
    have lowr : ∀ q, q ≤ x2 + 1 → ivMem r q = false := fun q h => ivMem_below r _ q hr h
    have lowr' : ∀ q, q ≤ y2 + 1 → ivMem r' q = false := fun q h => ivMem_below r' _ q hr' h
    have e1 : x1 = y1 := by
      rcases Nat.lt_trichotomy x1 y1 with hlt | heq | hgt
      · have k := key x1
        have := lowr' x1 (by omega)
        rw [this] at k
        have := k.1 (Or.inl ⟨Nat.le_refl _, hx2⟩)
        rcases this with h | h
        · omega
        · cases h
      · exact heq
      · have k := key y1
        have := lowr y1 (by omega)
        rw [this] at k
        have := k.2 (Or.inl ⟨Nat.le_refl _, hy2⟩)
        rcases this with h | h
        · omega
        · cases h
    subst e1
    have e2 : x2 = y2 := by
      rcases Nat.lt_trichotomy x2 y2 with hlt | heq | hgt
      · have k := key (x2 + 1)
        rw [lowr (x2 + 1) (Nat.le_refl _)] at k
        have := k.2 (Or.inl ⟨by omega, by omega⟩)
        rcases this with h | h
        · omega
        · cases h
      · exact heq
      · have k := key (y2 + 1)
        rw [lowr' (y2 + 1) (Nat.le_refl _)] at k
        have := k.1 (Or.inl ⟨by omega, by omega⟩)
        rcases this with h | h
        · omega
        · cases h
    subst e2
    have : r = r' := by
      apply iv_ext r r' (x2 + 1) hr hr'
      intro q
      by_cases hle : q ≤ x2 + 1
      · rw [lowr q hle, lowr' q hle]
      · have k := key q
        rw [Bool.eq_iff_iff]
        constructor
        · intro h
          rcases k.1 (Or.inr h) with h | h
          · omega
          · exact h
        · intro h
          rcases k.2 (Or.inr h) with h | h
          · omega
          · exact h
    rw [this]

/-! ### sorting by lower bound -/

theorem mem_insertIv (iv : Nat × Nat) : ∀ (l : List (Nat × Nat)) (y : Nat × Nat), y ∈ insertIv iv l ↔ y = iv ∨ y ∈ l
  | [], y => by simp [insertIv]
  | x :: xs, y => by
    unfold insertIv
    split_ifs
    · simp
    · rw [List.mem_cons, mem_insertIv iv xs y, List.mem_cons]
      constructor
      · rintro (h | h | h)
        · exact Or.inr (Or.inl h)
        · exact Or.inl h
        · exact Or.inr (Or.inr h)
      · rintro (h | h | h)
        · exact Or.inr (Or.inl h)
        · exact Or.inl h
        · exact Or.inr (Or.inr h)

theorem ivMem_insertIv (iv : Nat × Nat) (q : Nat) : ∀ l : List (Nat × Nat), ivMem (insertIv iv l) q = (ivIn iv q || ivMem l q)
  | [] => rfl
  | x :: xs => by
    unfold insertIv
    split_ifs
    · rfl
    · rw [ivMem_cons, ivMem_insertIv iv q xs, ivMem_cons, Bool.or_left_comm]

/-- sorted by lower bound -/
def SortedLo : List (Nat × Nat) → Prop
  | [] => True
  | x :: r => (∀ y ∈ r, x.1 ≤ y.1) ∧ SortedLo r

theorem sortedLo_insertIv (iv : Nat × Nat) : ∀ l : List (Nat × Nat), SortedLo l → SortedLo (insertIv iv l)
  | [], _ => by
    refine ⟨?_, trivial⟩
    intro y hy; cases hy
  | x :: xs, h => by
    unfold insertIv
    split_ifs with hle
    · refine ⟨?_, h⟩
      intro y hy
      rcases List.mem_cons.1 hy with rfl | hy'
      · exact hle
      · exact Nat.le_trans hle (h.1 y hy')
    · refine ⟨?_, sortedLo_insertIv iv xs h.2⟩
      intro y hy
      rcases (mem_insertIv iv xs y).1 hy with rfl | hy'
      · omega
      · exact h.1 y hy'

def sortIv (l : List (Nat × Nat)) : List (Nat × Nat) := l.foldr insertIv []

theorem sortIv_cons (x : Nat × Nat) (l : List (Nat × Nat)) : sortIv (x :: l) = insertIv x (sortIv l) := rfl

theorem sortIv_sorted : ∀ l : List (Nat × Nat), SortedLo (sortIv l)
  | [] => trivial
  | x :: l => sortedLo_insertIv x _ (sortIv_sorted l)

theorem mem_sortIv : ∀ (l : List (Nat × Nat)) (y : Nat × Nat), y ∈ sortIv l ↔ y ∈ l
  | [], y => by simp [sortIv]
  | x :: l, y => by rw [sortIv_cons, mem_insertIv, mem_sortIv l y, List.mem_cons]

theorem ivMem_sortIv (q : Nat) : ∀ l : List (Nat × Nat), ivMem (sortIv l) q = ivMem l q
  | [] => rfl
  | x :: l => by rw [sortIv_cons, ivMem_insertIv, ivMem_sortIv q l, ivMem_cons]

/-! ### merging -/

theorem absorb_cons (x y : Nat × Nat) (r : List (Nat × Nat)) :
    absorb x (y :: r) = if y.1 ≤ x.2 + 1 then absorb (x.1, max x.2 y.2) r else x :: y :: r := rfl

/-- `absorb` in front of an ascending non-adjacent list that starts at or after `x` -/
theorem absorb_spec : ∀ (l : List (Nat × Nat)) (x : Nat × Nat) (lo b : Nat), lo < x.1 → x.1 ≤ x.2 → IvFrom b l →
    (∀ y ∈ l, x.1 ≤ y.1) →
    IvFrom lo (absorb x l) ∧ (∀ q, ivMem (absorb x l) q = (ivIn x q || ivMem l q)) ∧ ∀ y ∈ absorb x l, x.1 ≤ y.1
  | [], x, lo, b, hlo, hx, _, _ => by
    refine ⟨⟨hlo, hx, trivial⟩, fun q => rfl, ?_⟩
    intro y hy
    simp only [absorb, List.mem_singleton] at hy
    subst hy; exact Nat.le_refl _
  | y :: r, x, lo, b, hlo, hx, hl, hge => by
    have hy1 := hge y (by simp)
    obtain ⟨hb, hy, hr⟩ := hl
    rw [absorb_cons]
    split_ifs with hc
    · have hst := IvFrom.starts hr
      obtain ⟨i1, i2, i3⟩ := absorb_spec r (x.1, max x.2 y.2) lo (y.2 + 1) hlo (by simp only; omega) hr
        (by intro z hz; have := hst z hz; simp only; omega)
      refine ⟨i1, ?_, i3⟩
      intro q
      rw [i2 q, ivMem_cons, ← Bool.or_assoc]
      congr 1
      rw [Bool.eq_iff_iff, Bool.or_eq_true, ivIn_iff, ivIn_iff, ivIn_iff]
      simp only
      omega
    · refine ⟨⟨hlo, hx, by omega, hy, hr⟩, fun q => rfl, ?_⟩
      intro z hz
      rcases List.mem_cons.1 hz with rfl | hz'
      · exact Nat.le_refl _
      · exact hge z hz'

theorem mergeIv_cons (x : Nat × Nat) (l : List (Nat × Nat)) : mergeIv (x :: l) = absorb x (mergeIv l) := rfl

theorem mergeIv_spec : ∀ l : List (Nat × Nat), SortedLo l → (∀ x ∈ l, 0 < x.1 ∧ x.1 ≤ x.2) →
    IvFrom 0 (mergeIv l) ∧ (∀ q, ivMem (mergeIv l) q = ivMem l q) ∧ ∀ m, (∀ x ∈ l, m ≤ x.1) → ∀ y ∈ mergeIv l, m ≤ y.1
  | [], _, _ => by
    refine ⟨trivial, fun _ => rfl, ?_⟩
    intro m _ y hy; cases hy
  | x :: l, hs, hok => by
    obtain ⟨j1, j2, j3⟩ := mergeIv_spec l hs.2 (fun z hz => hok z (by simp [hz]))
    have hx := hok x (by simp)
    obtain ⟨i1, i2, i3⟩ := absorb_spec (mergeIv l) x 0 0 hx.1 hx.2 j1 (j3 x.1 hs.1)
    rw [mergeIv_cons]
    refine ⟨i1, ?_, ?_⟩
    · intro q; rw [i2 q, j2 q, ivMem_cons]
    · intro m hm y hy
      exact Nat.le_trans (hm x (by simp)) (i3 y hy)

/-! ### the denotation at 2^32 through `insert`

  C15's `insert_any` speaks about `q < 2^32`; membership of `2^32` itself ("some range is `n:*` with a number `n`")
  is what tells `n:*` from `n:4294967295,*`. -/

theorem mergeCore_containsW (s t o : Range) (hs : s.WF) (ht : t.WF)
    (h1 : s.start ≠ 0) (h2 : t.start ≠ 0) (h3 : s.start ≤ t.start)
    (h : (NumSet.mergeCore s t o).2 = true) :
    (NumSet.mergeCore s t o).1.contains NumSet.W = true ↔ (s.contains NumSet.W = true ∨ t.contains NumSet.W = true) := by
  obtain ⟨a, b⟩ := s
  obtain ⟨c, d⟩ := t
  rw [NumSet.mergeCore_snd_iff] at h
  rw [NumSet.mergeCore_fst]
  unfold NumSet.Range.WF at hs ht
  simp only [NumSet.W] at *
  by_cases c1 : (d ≤ b ∧ d ≠ 0 ∨ b = 0)
  · simp only [c1, if_true, NumSet.Range.contains_iff]; omega
  · by_cases c2 : c ≤ (b + 1) % 4294967296 ∨ b = 4294967296 - 1
    · simp only [c1, c2, if_true, if_false, NumSet.Range.contains_iff]; omega
    · omega

theorem merge_containsW (s t : Range) (hs : s.WF) (ht : t.WF) (h : (s.merge t).2 = true) :
    (s.merge t).1.contains NumSet.W = (s.contains NumSet.W || t.contains NumSet.W) := by
  rw [Bool.eq_iff_iff, Bool.or_eq_true]
  rw [NumSet.Range.merge_eq] at h ⊢
  simp only [ne_eq, Bool.and_eq_true, decide_eq_true_eq, gt_iff_lt] at h ⊢
  split_ifs at h ⊢ with e1 e2 e3 e4 e5 e6
  · subst e1; simp
  · rw [mergeCore_containsW t s s ht hs e2.2 e2.1 (by omega) h]; exact or_comm
  · exact mergeCore_containsW s t s hs ht e2.1 e2.2 (by omega) h
  · have := hs.2.2.1 e4
    simp only [NumSet.Range.contains_iff, NumSet.W]; omega
  · have : t.start = 0 := by
      by_cases h0 : t.start = 0
      · exact h0
      · exact absurd ⟨e4, h0⟩ e2
    have := ht.2.2.1 this
    simp only [NumSet.Range.contains_iff, NumSet.W]; omega

theorem mergeFwd_anyW (rest : NumSet.Set) : ∀ cur : Range, cur.WF → (∀ r ∈ rest, r.WF) →
    (NumSet.mergeFwd cur rest).any (fun r => r.contains NumSet.W) =
      (cur.contains NumSet.W || rest.any (fun r => r.contains NumSet.W)) := by
  induction rest with
  | nil => intro cur _ _; simp [NumSet.mergeFwd_nil]
  | cons r rest ih =>
    intro cur hc hr
    have hrw : r.WF := hr r (by simp)
    rw [NumSet.mergeFwd_cons]
    by_cases h : (cur.merge r).2 = true
    · simp only [h, if_true]
      rw [ih _ (NumSet.Range.merge_wf cur r hc hrw h) (fun x hx => hr x (by simp [hx]))]
      rw [merge_containsW cur r hc hrw h]
      simp [Bool.or_assoc]
    · simp [h]

theorem insert_anyW (s : NumSet.Set) (v : Range) (h : Canon s) (hv : v.WF) :
    (NumSet.insert s v).any (fun r => r.contains NumSet.W) =
      (s.any (fun r => r.contains NumSet.W) || v.contains NumSet.W) := by
  obtain ⟨pre, post, rfl, _, _, sh⟩ := NumSet.insert_split s 0 h v
  have hwf := NumSet.CanonFrom.wf h
  cases sh with
  | plain hp hc e =>
    rw [e]
    simp only [List.any_append, List.any_cons]
    simp only [Bool.or_comm, Bool.or_left_comm]
  | mprev pre' p e0 hm e =>
    subst e0
    have hpw : p.WF := hwf p (by simp)
    have hpost : ∀ r ∈ post, r.WF := fun r hr => hwf r (by simp [hr])
    rw [e, List.any_append, mergeFwd_anyW post _ (NumSet.Range.merge_wf p v hpw hv hm) hpost,
      merge_containsW p v hpw hv hm]
    simp only [List.any_append, List.any_cons, List.any_nil, Bool.or_false]
    simp only [Bool.or_assoc, Bool.or_comm, Bool.or_left_comm]
  | mcur c rest e0 hp hm e =>
    subst e0
    have hcw : c.WF := hwf c (by simp)
    have hrest : ∀ r ∈ rest, r.WF := fun r hr => hwf r (by simp [hr])
    rw [e, List.any_append, mergeFwd_anyW rest _ (NumSet.Range.merge_wf c v hcw hv hm) hrest,
      merge_containsW c v hcw hv hm]
    simp only [List.any_append, List.any_cons]
    simp only [Bool.or_assoc, Bool.or_comm, Bool.or_left_comm]

/-- the range is `n:*` with a number `n` -/
def nstar (r : Range) : Bool := r.start ≠ 0 && r.stop = 0

theorem nstar_iff (r : Range) : nstar r = true ↔ r.start ≠ 0 ∧ r.stop = 0 := by
  simp [nstar]

theorem normRange_containsW (r : Range) (h : RangeLit r) :
    (normRange r.start r.stop).contains NumSet.W = nstar r := by
  rw [Bool.eq_iff_iff, NumSet.Range.contains_iff, nstar_iff]
  obtain ⟨h1, h2, h3⟩ := h
  simp only [NumSet.W] at *
  rcases NumSet.normRange_cases r.start r.stop with ⟨h, e⟩ | ⟨h, e⟩ <;> rw [e] <;> simp only <;> omega

theorem litFold_anyW : ∀ (rs : NumSet.Set) (s : NumSet.Set), Canon s → (∀ r ∈ rs, RangeLit r) →
    ((rs.map fun r => Op.range r.start r.stop).foldl NumSet.applyOp s).any (fun r => r.contains NumSet.W) =
      (s.any (fun r => r.contains NumSet.W) || rs.any nstar)
  | [], s, _, _ => by simp
  | r :: rs, s, hs, h => by
    have hr := h r (by simp)
    have hc : Canon (NumSet.applyOp s (Op.range r.start r.stop)) := NumSet.applyOp_canon s _ hs ⟨hr.1, hr.2.1⟩
    rw [List.map_cons, List.foldl_cons, litFold_anyW rs _ hc (fun x hx => h x (by simp [hx]))]
    simp only [NumSet.applyOp, NumSet.addRange_eq]
    rw [insert_anyW s _ hs (NumSet.normRange_wf _ _ hr.1 hr.2.1), normRange_containsW r hr, List.any_cons, Bool.or_assoc]

/-! ### a canonical set as a list of intervals -/

/-- the members of a set: `q = 0` asks for `*`, `q = 2^32` for "some range is `n:*`" -/
def den (s : NumSet.Set) (q : Nat) : Bool := s.any fun r => r.contains q

theorem den_cons (r : Range) (s : NumSet.Set) (q : Nat) : den (r :: s) q = (r.contains q || den s q) := rfl

theorem interval_star (r : Range) (hw : r.WF) (h : r.start = 0) : interval r = (W, W) := by
  have := hw.2.2.1 h
  simp [interval, h, this]

theorem interval_nstar (r : Range) (hw : r.WF) (h : r.start ≠ 0) (h0 : r.stop = 0) : interval r = (r.start, W) := by
  have := hw.1
  simp only [NumSet.W] at this
  simp only [interval, h, h0, if_true, if_false, W]
  rw [Nat.min_eq_left (by omega), Nat.max_eq_right (by omega)]

theorem interval_static (r : Range) (hw : r.WF) (h0 : r.stop ≠ 0) : interval r = (r.start, r.stop) := by
  unfold NumSet.Range.WF at hw
  have h : r.start ≠ 0 := by omega
  simp only [interval, h, h0, if_false]
  rw [Nat.min_eq_left (by omega), Nat.max_eq_right (by omega)]

theorem ivFrom_of_canon : ∀ (d : NumSet.Set) (lo : Nat), CanonFrom lo d → lo < W →
    ¬ (den d 0 = true ∧ den d (W - 1) = true ∧ den d W = false) → IvFrom lo (d.map interval)
  | [], _, _, _, _ => trivial
  | r :: rest, lo, h, hlo, hn => by
    obtain ⟨hw, hst, hne, htl⟩ := h
    have hw' := hw
    unfold NumSet.Range.WF at hw'
    simp only [NumSet.W] at hw'
    simp only [W] at hlo
    by_cases h0 : r.stop = 0
    · have hrest : rest = [] := by
        cases rest with
        | nil => rfl
        | cons r' rest' => exact absurd h0 (hne (by simp))
      subst hrest
      by_cases hs : r.start = 0
      · rw [List.map_cons, interval_star r hw hs]
        exact ⟨by simp only [W]; omega, Nat.le_refl _, trivial⟩
      · rw [List.map_cons, interval_nstar r hw hs h0]
        exact ⟨by simp only; omega, by simp only [W]; omega, trivial⟩
    · rw [List.map_cons, interval_static r hw h0]
      refine ⟨by simp only; omega, by simp only; omega, ?_⟩
      simp only
      cases rest with
      | nil => trivial
      | cons r' rest' =>
        have hr0 : r.contains 0 = false := by simp [NumSet.Range.contains, h0]
        have hrW : r.contains W = false := by
          rw [Bool.eq_false_iff, Ne, NumSet.Range.contains_iff]; simp only [W]; omega
        by_cases htop : r.stop + 1 < 4294967296
        · apply ivFrom_of_canon (r' :: rest') (r.stop + 1) htl (by simp only [W]; exact htop)
          rintro ⟨a, b, c⟩
          apply hn
          refine ⟨by rw [den_cons, a, Bool.or_true], by rw [den_cons, b, Bool.or_true], by rw [den_cons, c, hrW]; rfl⟩
        · exfalso
          obtain ⟨hw1, hst1, hne1, _⟩ := htl
          have hw1' := hw1
          unfold NumSet.Range.WF at hw1'
          simp only [NumSet.W] at hw1'
          have hs1 : r'.start = 0 := by omega
          have hp1 : r'.stop = 0 := hw1'.2.2.1 hs1
          have hrest : rest' = [] := by
            cases rest' with
            | nil => rfl
            | cons r'' rest'' => exact absurd hp1 (hne1 (by simp))
          subst hrest
          apply hn
          refine ⟨?_, ?_, ?_⟩
          · simp [den, NumSet.Range.contains, hp1]
          · have : r.contains (W - 1) = true := by
              rw [NumSet.Range.contains_iff]; simp only [W]; omega
            rw [den_cons, this]; rfl
          · have : r'.contains W = false := by
              rw [Bool.eq_false_iff, Ne, NumSet.Range.contains_iff]; simp only [W]; omega
            rw [den_cons, den_cons, hrW, this]; rfl

theorem interval_of (r : Range) (hw : r.WF) : ofInterval (interval r) = r := by
  obtain ⟨a, b⟩ := r
  have hw' := hw
  unfold NumSet.Range.WF at hw'
  simp only [NumSet.W] at hw'
  by_cases h0 : b = 0
  · by_cases hs : a = 0
    · rw [interval_star _ hw hs]; subst hs; subst h0; simp [ofInterval]
    · rw [interval_nstar _ hw hs h0]
      have : a ≠ W := by simp only [W]; omega
      simp [ofInterval, this, h0]
  · rw [interval_static _ hw h0]
    have h1 : a ≠ W := by simp only [W]; omega
    have h2 : b ≠ W := by simp only [W]; omega
    simp [ofInterval, h1, h2]

theorem map_interval_of : ∀ d : NumSet.Set, (∀ r ∈ d, r.WF) → (d.map interval).map ofInterval = d
  | [], _ => rfl
  | r :: d, h => by
    rw [List.map_cons, List.map_cons, interval_of r (h r (by simp)), map_interval_of d (fun x hx => h x (by simp [hx]))]

/-! ### the members of `interval r` -/

theorem ivIn_interval_out (r : Range) (h : RangeLit r) (q : Nat) (hq : q = 0 ∨ W < q) : ivIn (interval r) q = false := by
  rw [Bool.eq_false_iff, Ne, ivIn_iff]
  obtain ⟨h1, h2, h3⟩ := h
  simp only [NumSet.W] at h1 h2
  simp only [W] at hq
  simp only [interval, W]
  split_ifs <;> omega

theorem ivIn_interval_mem (r : Range) (h : RangeLit r) (q : Nat) (hq : 0 < q) (hqW : q < W) :
    ivIn (interval r) q = NumSetSpec.memRange r.start r.stop q := by
  rw [Bool.eq_iff_iff, ivIn_iff, NumSet.memRange_iff]
  obtain ⟨h1, h2, h3⟩ := h
  simp only [NumSet.W] at h1 h2
  simp only [W] at hqW
  simp only [interval, W]
  split_ifs <;> omega

theorem ivIn_interval_star (r : Range) (h : RangeLit r) : ivIn (interval r) W = NumSetSpec.starRange r.start r.stop := by
  rw [Bool.eq_iff_iff, ivIn_iff]
  obtain ⟨h1, h2, h3⟩ := h
  simp only [NumSet.W] at h1 h2
  simp only [NumSetSpec.starRange, Bool.or_eq_true, decide_eq_true_eq, interval, W]
  split_ifs <;> omega

theorem rangeLit_of_wf (r : Range) (hw : r.WF) : RangeLit r := ⟨hw.1, hw.2.1, hw.2.2.1⟩

theorem any_false {α : Type} (l : List α) (f : α → Bool) (h : ∀ x ∈ l, f x = false) : l.any f = false := by
  induction l with
  | nil => rfl
  | cons x l ih => rw [List.any_cons, h x (by simp), ih (fun y hy => h y (by simp [hy]))]; rfl

theorem ivMem_map_interval (l : NumSet.Set) (q : Nat) : ivMem (l.map interval) q = l.any fun r => ivIn (interval r) q := by
  simp [ivMem, List.any_map, Function.comp_def]

/-! ### the side condition and the theorem -/

/-- the one shape where the two normal forms differ is `n:4294967295` next to a lone `*` (the parser keeps
    `n:4294967295,*`; the interval normal form, with `*` = 2^32, writes `n:*`): some range is `n:*`, or no range is the
    lone `*`, or no bound is 2^32 - 1 -/
def TopOK (rs : NumSet.Set) : Bool :=
  rs.any nstar || rs.all (fun r => r.start ≠ 0) || rs.all (fun r => r.start ≠ 4294967295 && r.stop ≠ 4294967295)

theorem delivSet_den (rs : NumSet.Set) (h : LitOK rs) :
    NumSet.Canon (delivSet rs) ∧
    (∀ q, 0 < q → q < W → den (delivSet rs) q = rs.any fun r => NumSetSpec.memRange r.start r.stop q) ∧
    den (delivSet rs) 0 = (rs.any fun r => NumSetSpec.starRange r.start r.stop) ∧
    den (delivSet rs) W = rs.any nstar := by
  obtain ⟨d1, d2, d3⟩ := delivSet_denotes rs h
  have hc := (NumSet.canonical_iff _).1 d1
  refine ⟨hc, ?_, ?_, ?_⟩
  · intro q hq hqW
    rw [← d2 q hq hqW, NumSet.contains_eq_any _ 0 hc q (by omega)]; rfl
  · rw [← d3, NumSet.dynamic_eq_any _ 0 hc]; rfl
  · have := litFold_anyW rs [] trivial h.2
    rw [List.any_nil, Bool.false_or] at this
    exact this

theorem topOK_den (rs : NumSet.Set) (h : LitOK rs) (ht : TopOK rs = true) :
    ¬ (den (delivSet rs) 0 = true ∧ den (delivSet rs) (W - 1) = true ∧ den (delivSet rs) W = false) := by
  obtain ⟨_, e1, e2, e3⟩ := delivSet_den rs h
  rw [e1 (W - 1) (by decide) (by decide), e2, e3]
  rintro ⟨a, b, c⟩
  obtain ⟨r0, hr0, hs0⟩ := List.any_eq_true.1 a
  obtain ⟨r1, hr1, hs1⟩ := List.any_eq_true.1 b
  have hno : ∀ r ∈ rs, ¬ (r.start ≠ 0 ∧ r.stop = 0) := by
    intro r hr hh
    have : rs.any nstar = true := List.any_eq_true.2 ⟨r, hr, (nstar_iff r).2 hh⟩
    rw [c] at this; cases this
  unfold TopOK at ht
  rw [c, Bool.false_or, Bool.or_eq_true, List.all_eq_true, List.all_eq_true] at ht
  rcases ht with ht | ht
  · have := ht r0 hr0
    have hn := hno r0 hr0
    simp only [NumSetSpec.starRange, Bool.or_eq_true, decide_eq_true_eq] at hs0 this
    omega
  · have := ht r1 hr1
    have hn := hno r1 hr1
    obtain ⟨l1, l2, l3⟩ := h.2 r1 hr1
    rw [NumSet.memRange_iff] at hs1
    simp only [NumSet.W] at l1 l2
    simp only [W, Bool.and_eq_true, decide_eq_true_eq] at hs1 this
    omega

theorem normSet_eq_sortMerge (rs : NumSet.Set) : normSet rs = (mergeIv (sortIv (rs.map interval))).map ofInterval := rfl

theorem interval_ok (r : Range) (h : RangeLit r) : 0 < (interval r).1 ∧ (interval r).1 ≤ (interval r).2 := by
  obtain ⟨h1, h2, h3⟩ := h
  simp only [interval, W]
  split_ifs <;> omega

/-- the interval normal form is the set the parser builds -/
theorem normSet_eq_delivSet_of (rs : NumSet.Set) (h : LitOK rs) (ht : TopOK rs = true) : normSet rs = delivSet rs := by
  obtain ⟨hc, e1, e2, e3⟩ := delivSet_den rs h
  have hwf := NumSet.CanonFrom.wf hc
  obtain ⟨m1, m2, _⟩ := mergeIv_spec (sortIv (rs.map interval)) (sortIv_sorted _) (by
    intro x hx
    rw [mem_sortIv] at hx
    obtain ⟨r, hr, rfl⟩ := List.mem_map.1 hx
    exact interval_ok r (h.2 r hr))
  have hiv := ivFrom_of_canon (delivSet rs) 0 hc (by decide) (topOK_den rs h ht)
  have : mergeIv (sortIv (rs.map interval)) = (delivSet rs).map interval := by
    apply iv_ext _ _ 0 m1 hiv
    intro q
    rw [m2 q, ivMem_sortIv, ivMem_map_interval, ivMem_map_interval]
    by_cases hq : q = 0 ∨ W < q
    · rw [any_false _ _ (fun r hr => ivIn_interval_out r (h.2 r hr) q hq),
        any_false _ _ (fun r hr => ivIn_interval_out r (rangeLit_of_wf r (hwf r hr)) q hq)]
    · by_cases hqW : q = W
      · subst hqW
        rw [NumSet.any_congr_mem rs _ _ (fun r hr => ivIn_interval_star r (h.2 r hr)),
          NumSet.any_congr_mem (delivSet rs) _ _ (fun r hr => ivIn_interval_star r (rangeLit_of_wf r (hwf r hr))),
          ← e2]
        exact (NumSet.any_congr_mem (delivSet rs) _ _ (fun r hr => NumSet.Range.contains_zero_eq_star r (hwf r hr)))
      · have hq0 : 0 < q := by omega
        have hqW' : q < W := by omega
        rw [NumSet.any_congr_mem rs _ _ (fun r hr => ivIn_interval_mem r (h.2 r hr) q hq0 hqW'),
          NumSet.any_congr_mem (delivSet rs) _ _ (fun r hr => ivIn_interval_mem r (rangeLit_of_wf r (hwf r hr)) q hq0 hqW'),
          ← e1 q hq0 hqW']
        exact (NumSet.any_congr_mem (delivSet rs) _ _ (fun r hr => NumSet.Range.contains_eq_memRange r (hwf r hr) q (by omega)))
  rw [normSet_eq_sortMerge, this, map_interval_of _ hwf]

/-! ### the side condition is necessary -/

theorem IvFrom.apart : ∀ {l : List (Nat × Nat)} {b : Nat}, IvFrom b l → ∀ x ∈ l, ∀ y ∈ l,
    x = y ∨ x.2 + 1 < y.1 ∨ y.2 + 1 < x.1
  | [], _, _, x, hx, _, _ => by cases hx
  | z :: r, b, h, x, hx, y, hy => by
    have hst := IvFrom.starts h.2.2
    rcases List.mem_cons.1 hx with rfl | hx'
    · rcases List.mem_cons.1 hy with rfl | hy'
      · exact Or.inl rfl
      · exact Or.inr (Or.inl (hst y hy'))
    · rcases List.mem_cons.1 hy with rfl | hy'
      · exact Or.inr (Or.inr (hst x hx'))
      · exact IvFrom.apart h.2.2 x hx' y hy'

theorem ivMem_of_mem (l : List (Nat × Nat)) (x : Nat × Nat) (hx : x ∈ l) (q : Nat) (h : ivIn x q = true) : ivMem l q = true :=
  List.any_eq_true.2 ⟨x, hx, h⟩

theorem IvFrom.le : ∀ {l : List (Nat × Nat)} {b : Nat}, IvFrom b l → ∀ x ∈ l, x.1 ≤ x.2
  | [], _, _, x, hx => by cases hx
  | z :: r, b, h, x, hx => by
    rcases List.mem_cons.1 hx with rfl | hx'
    · exact h.2.1
    · exact IvFrom.le h.2.2 x hx'

theorem ofInterval_contains_iff (x : Nat × Nat) (q : Nat) (hx : 0 < x.1) (hle : x.1 ≤ x.2) :
    (ofInterval x).contains q = true ↔
      (q = 0 ∧ (x.1 = W ∨ x.2 = W)) ∨ (q ≠ 0 ∧ x.1 ≠ W ∧ x.1 ≤ q ∧ (q ≤ x.2 ∨ x.2 = W)) := by
  unfold ofInterval
  by_cases h1 : x.1 = W
  · rw [if_pos h1, NumSet.Range.contains_iff]; dsimp only; omega
  · by_cases h2 : x.2 = W
    · rw [if_neg h1, if_pos h2, NumSet.Range.contains_iff]; dsimp only; omega
    · rw [if_neg h1, if_neg h2, NumSet.Range.contains_iff]; dsimp only; omega

/-- in the interval normal form, a set with `*` and 2^32 - 1 has a range `n:*` -/
theorem normForm_top (l : List (Nat × Nat)) (b : Nat) (h : IvFrom b l) (hW : ∀ x ∈ l, x.2 ≤ W)
    (h0 : den (l.map ofInterval) 0 = true) (h1 : den (l.map ofInterval) (W - 1) = true) : den (l.map ofInterval) W = true := by
  unfold den at h0 h1 ⊢
  rw [List.any_map] at h0 h1 ⊢
  obtain ⟨x, hx, cx⟩ := List.any_eq_true.1 h0
  obtain ⟨y, hy, cy⟩ := List.any_eq_true.1 h1
  have sx := IvFrom.starts h x hx
  have sy := IvFrom.starts h y hy
  have lx := IvFrom.le h x hx
  have ly := IvFrom.le h y hy
  have wx := hW x hx
  have wy := hW y hy
  have ap := IvFrom.apart h x hx y hy
  have hWv : W = 4294967296 := rfl
  rw [Function.comp_apply, ofInterval_contains_iff x _ (by omega) lx] at cx
  rw [Function.comp_apply, ofInterval_contains_iff y _ (by omega) ly] at cy
  refine List.any_eq_true.2 ⟨y, hy, ?_⟩
  rw [Function.comp_apply, ofInterval_contains_iff y _ (by omega) ly]
  rcases ap with rfl | ap | ap <;> omega

theorem topOK_of_eq (rs : NumSet.Set) (h : LitOK rs) (he : normSet rs = delivSet rs) : TopOK rs = true := by
  obtain ⟨hc, e1, e2, e3⟩ := delivSet_den rs h
  obtain ⟨m1, m2, _⟩ := mergeIv_spec (sortIv (rs.map interval)) (sortIv_sorted _) (by
    intro x hx
    rw [mem_sortIv] at hx
    obtain ⟨r, hr, rfl⟩ := List.mem_map.1 hx
    exact interval_ok r (h.2 r hr))
  have hW : ∀ x ∈ mergeIv (sortIv (rs.map interval)), x.2 ≤ W := by
    intro x hx
    by_cases hgt : W < x.2
    · exfalso
      have hm : ivMem (mergeIv (sortIv (rs.map interval))) x.2 = true := by
        apply ivMem_of_mem _ x hx
        rw [ivIn_iff]
        exact ⟨IvFrom.le m1 x hx, Nat.le_refl _⟩
      rw [m2, ivMem_sortIv, ivMem_map_interval,
        any_false _ _ (fun r hr => ivIn_interval_out r (h.2 r hr) x.2 (Or.inr hgt))] at hm
      cases hm
    · omega
  cases ht : TopOK rs with
  | true => rfl
  | false =>
    exfalso
    unfold TopOK at ht
    rw [Bool.or_eq_false_iff, Bool.or_eq_false_iff] at ht
    obtain ⟨⟨c, a⟩, b⟩ := ht
    have hne : den (delivSet rs) W = false := by rw [e3, c]
    have h0 : den (delivSet rs) 0 = true := by
      rw [e2]
      rw [← Bool.not_eq_true, List.all_eq_true] at a
      have : ∃ r ∈ rs, r.start = 0 := by
        apply Classical.byContradiction
        intro hn
        apply a
        intro r hr
        simp only [ne_eq, decide_eq_true_eq]
        intro hz
        exact hn ⟨r, hr, hz⟩
      obtain ⟨r, hr, hz⟩ := this
      exact List.any_eq_true.2 ⟨r, hr, by simp [NumSetSpec.starRange, hz]⟩
    have h1 : den (delivSet rs) (W - 1) = true := by
      rw [e1 (W - 1) (by decide) (by decide)]
      rw [← Bool.not_eq_true, List.all_eq_true] at b
      have : ∃ r ∈ rs, r.start = 4294967295 ∨ r.stop = 4294967295 := by
        apply Classical.byContradiction
        intro hn
        apply b
        intro r hr
        simp only [ne_eq, Bool.and_eq_true, decide_eq_true_eq]
        constructor
        · intro hz; exact hn ⟨r, hr, Or.inl hz⟩
        · intro hz; exact hn ⟨r, hr, Or.inr hz⟩
      obtain ⟨r, hr, hz⟩ := this
      refine List.any_eq_true.2 ⟨r, hr, ?_⟩
      have hns : ¬ (r.start ≠ 0 ∧ r.stop = 0) := by
        intro hh
        have : rs.any nstar = true := List.any_eq_true.2 ⟨r, hr, (nstar_iff r).2 hh⟩
        rw [c] at this; cases this
      obtain ⟨l1, l2, l3⟩ := h.2 r hr
      rw [NumSet.memRange_iff]
      simp only [NumSet.W] at l1 l2
      simp only [W]
      omega
    rw [← he, normSet_eq_sortMerge] at h0 h1 hne
    have := normForm_top _ 0 m1 hW h0 h1
    rw [hne] at this
    cases this

/-! ### set arguments of commands -/

/-- the side condition for a set argument -/
def SetTop : NSet → Prop
  | .searchRes => True
  | .set rs => TopOK rs = true

/-- what the session receives for a literal set is `sem`'s normal form of it -/
theorem delivN_eq_canonNSet (s : NSet) (h : SetLit s) (ht : SetTop s) : delivN s = canonNSet s := by
  cases s with
  | searchRes => rfl
  | set rs => simp only [delivN, canonNSet]; rw [normSet_eq_delivSet_of rs h ht]

/-- a canonical set is in the specification's normal form -/
theorem setNF_of_ok (s : NSet) (h : SetOK s) (ht : SetTop s) : SetNF s := by
  cases s with
  | searchRes => trivial
  | set rs =>
    have := delivN_canon (.set rs) h
    simp only [delivN, NSet.set.injEq] at this
    show normSet rs = rs
    rw [normSet_eq_delivSet_of rs (setLit_of_ok _ h) ht, this]

end GoImap.CmdLemmas
