/-
  Canonical form of an append: the prefix is canonical and static, the suffix is canonical
  above the end of the prefix.
-/
import GoImap.Lemmas.NumSetCanon
namespace GoImap.NumSet

/-- the bound after a (static) prefix: one above its last stop -/
def hiOf (lo : Nat) : Set → Nat
  | [] => lo
  | r :: rest => hiOf (r.stop + 1) rest

theorem hiOf_snoc (pre : Set) (p : Range) : ∀ lo, hiOf lo (pre ++ [p]) = p.stop + 1 := by
  induction pre with
  | nil => intro lo; rfl
  | cons r pre ih => intro lo; exact ih _

theorem canonFrom_append (pre post : Set) : ∀ lo,
    CanonFrom lo (pre ++ post) ↔
      CanonFrom lo pre ∧ (post ≠ [] → ∀ r ∈ pre, r.stop ≠ 0) ∧ CanonFrom (hiOf lo pre) post := by
  induction pre with
  | nil => intro lo; simp [CanonFrom, hiOf]
  | cons r pre ih =>
    intro lo
    simp only [List.cons_append, CanonFrom, hiOf, ih (r.stop + 1)]
    constructor
    · rintro ⟨h1, h2, h3, h4, h5, h6⟩
      refine ⟨⟨h1, h2, ?_, h4⟩, ?_, h6⟩
      · intro hne; apply h3; simp [hne]
      · intro hne x hx
        rcases List.mem_cons.1 hx with rfl | hx'
        · apply h3; simp [hne]
        · exact h5 hne x hx'
    · rintro ⟨⟨h1, h2, h3, h4⟩, h5, h6⟩
      refine ⟨h1, h2, ?_, h4, ?_, h6⟩
      · intro hne
        by_cases hp : pre = []
        · subst hp
          have : post ≠ [] := by simpa using hne
          exact h5 this r (by simp)
        · exact h3 hp
      · intro hne x hx
        exact h5 hne x (by simp [hx])

end GoImap.NumSet
