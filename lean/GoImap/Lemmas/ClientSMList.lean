/-
  Helper lemmas for C12: first-match update (the client's findPendingCmd*) against
  unique-match delivery (the specification), and tag removal.
-/
import GoImap.Model.ClientSM
import GoImap.Spec.ClientSM
namespace GoImap.ClientLemmas
open GoImap.ClientSM GoImap.ClientSpec

theorem count_nil (p : Cmd → Bool) : count p [] = 0 := rfl

theorem count_cons (p : Cmd → Bool) (c : Cmd) (l : List Cmd) :
    count p (c :: l) = (if p c then 1 else 0) + count p l := by
  unfold count
  by_cases h : p c <;> simp [List.filter, h, Nat.add_comm]

theorem deliver_cons (p : Cmd → Bool) (f : Cmd → Cmd) (c : Cmd) (l : List Cmd) :
    deliver p f (c :: l) = (if p c then f c else c) :: deliver p f l := rfl

theorem updFirst_none (p : Cmd → Bool) (f : Cmd → Cmd) :
    (l : List Cmd) → count p l = 0 → updFirst p f l = none
  | [], _ => rfl
  | c :: l, h => by
    rw [count_cons] at h
    by_cases hp : p c
    · simp [hp] at h
    · simp [hp] at h
      simp [updFirst, hp, updFirst_none p f l h]

theorem deliver_none (p : Cmd → Bool) (f : Cmd → Cmd) :
    (l : List Cmd) → count p l = 0 → deliver p f l = l
  | [], _ => rfl
  | c :: l, h => by
    rw [count_cons] at h
    by_cases hp : p c
    · simp [hp] at h
    · simp [hp] at h
      rw [deliver_cons, deliver_none p f l h]
      simp [hp]

theorem updFirst_unique (p : Cmd → Bool) (f : Cmd → Cmd) :
    (l : List Cmd) → count p l = 1 → updFirst p f l = some (deliver p f l)
  | [], h => by simp [count] at h
  | c :: l, h => by
    rw [count_cons] at h
    by_cases hp : p c
    · simp [hp] at h
      rw [deliver_cons, deliver_none p f l h]
      simp [updFirst, hp]
    · simp [hp] at h
      rw [deliver_cons]
      simp [updFirst, hp, updFirst_unique p f l h]

theorem any_eq_false_of_count (p : Cmd → Bool) :
    (l : List Cmd) → count p l = 0 → l.any p = false
  | [], _ => rfl
  | c :: l, h => by
    rw [count_cons] at h
    by_cases hp : p c
    · simp [hp] at h
    · simp [hp] at h
      simp [hp, any_eq_false_of_count p l h]

theorem count_pos_of_any (p : Cmd → Bool) :
    (l : List Cmd) → l.any p = true → 0 < count p l
  | [], h => by simp at h
  | c :: l, h => by
    rw [count_cons]
    by_cases hp : p c
    · simp [hp]; omega
    · simp [hp] at h ⊢
      obtain ⟨x, hx, hpx⟩ := h
      apply count_pos_of_any p l
      simp
      exact ⟨x, hx, hpx⟩

theorem count_zero_of_any_false (p : Cmd → Bool) :
    (l : List Cmd) → l.any p = false → count p l = 0
  | [], _ => rfl
  | c :: l, h => by
    rw [List.any_cons, Bool.or_eq_false_iff] at h
    rw [count_cons, h.1, count_zero_of_any_false p l h.2]
    rfl

/-- two predicates, one implying the other, each with exactly one match: same delivery -/
theorem deliver_congr_unique (p q : Cmd → Bool) (f : Cmd → Cmd) (hqp : ∀ c, q c = true → p c = true) :
    (l : List Cmd) → count p l = 1 → count q l = 1 → deliver p f l = deliver q f l
  | [], h, _ => by simp [count] at h
  | c :: l, hp1, hq1 => by
    rw [count_cons] at hp1 hq1
    by_cases hq : q c
    · have hp := hqp c hq
      simp [hp] at hp1
      simp [hq] at hq1
      rw [deliver_cons, deliver_cons, deliver_none p f l hp1, deliver_none q f l hq1, hp, hq]
    · simp [hq] at hq1
      by_cases hp : p c
      · simp [hp] at hp1
        -- q has a match in l, which is a p-match: contradiction with count p l = 0
        exfalso
        have : ∀ l : List Cmd, count p l = 0 → count q l = 0 := by
          intro l
          induction l with
          | nil => intro _; rfl
          | cons d l ih =>
            intro h
            rw [count_cons] at h ⊢
            by_cases hpd : p d
            · simp [hpd] at h
            · simp [hpd] at h
              have : q d = false := by
                cases hqd : q d with
                | false => rfl
                | true => exact absurd (hqp d hqd) hpd
              simp [this, ih h]
        rw [this l hp1] at hq1
        cases hq1
      · simp [hp] at hp1
        rw [deliver_cons, deliver_cons, deliver_congr_unique p q f hqp l hp1 hq1]
        simp [hp, hq]

/-- deletePendingCmdByTag against find?/filter when the tag occurs once -/
theorem removeTag_unique (t : Nat) :
    (l : List Cmd) → count (fun c => c.tag == t) l = 1 →
      ∃ c, l.find? (fun c => c.tag == t) = some c ∧ removeTag t l = some (c, l.filter (fun c => c.tag != t))
  | [], h => by simp [count] at h
  | c :: l, h => by
    rw [count_cons] at h
    by_cases hc : c.tag = t
    · simp [hc] at h
      refine ⟨c, by simp [hc], ?_⟩
      simp [removeTag, hc]
      -- no other element has the tag
      have : ∀ l : List Cmd, count (fun c => c.tag == t) l = 0 → l.filter (fun c => c.tag != t) = l := by
        intro l
        induction l with
        | nil => intro _; rfl
        | cons d l ih =>
          intro h
          rw [count_cons] at h
          by_cases hd : d.tag = t
          · simp [hd] at h
          · simp [hd] at h
            simp [hd, ih h]
      exact (this l h).symm
    · simp [hc] at h
      obtain ⟨d, hf, hr⟩ := removeTag_unique t l h
      refine ⟨d, by simp [hc, hf], ?_⟩
      simp [removeTag, hc, hr]

end GoImap.ClientLemmas
