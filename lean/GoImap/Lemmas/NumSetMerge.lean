/-
  Lemmas about `Range.merge`, `Range.contains`, `Range.less` (C15, item 1).
-/
import GoImap.Model.NumSet
import Mathlib.Tactic.SplitIfs
namespace GoImap.NumSet

/-- a range as the API can produce it (identical to `GoImap.C15.Range.Valid`) -/
def Range.WF (r : Range) : Prop :=
  r.start < W ∧ r.stop < W ∧ (r.start = 0 → r.stop = 0) ∧ (r.stop ≠ 0 → r.start ≤ r.stop)

theorem Range.merge_fail (s t : Range) (h : (s.merge t).2 = false) : (s.merge t).1 = s := by
  unfold Range.merge at h ⊢
  split_ifs at h ⊢ <;> simp_all

theorem Range.contains_iff (r : Range) (q : Nat) :
    r.contains q = true ↔
      (q = 0 ∧ r.stop = 0) ∨ (q ≠ 0 ∧ r.start ≠ 0 ∧ r.start ≤ q ∧ (q ≤ r.stop ∨ r.stop = 0)) := by
  unfold Range.contains
  by_cases hq : q = 0 <;> simp [hq]

theorem Range.less_iff (r : Range) (q : Nat) :
    r.less q = true ↔ (r.stop < q ∨ q = 0) ∧ r.stop ≠ 0 := by
  simp [Range.less]

theorem Range.merge_contains (s t : Range) (hs : s.WF) (ht : t.WF)
    (h : (s.merge t).2 = true) (q : Nat) (hq : q < W) :
    (s.merge t).1.contains q = (s.contains q || t.contains q) := by
  obtain ⟨a, b⟩ := s
  obtain ⟨c, d⟩ := t
  rw [Bool.eq_iff_iff, Bool.or_eq_true]
  simp only [Range.contains_iff]
  unfold Range.WF at hs ht
  unfold Range.merge at h ⊢
  simp only [W] at *
  split_ifs at h ⊢ <;> simp_all <;> omega

end GoImap.NumSet
