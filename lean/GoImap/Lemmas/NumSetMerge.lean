/-
  Lemmas about `Range.merge`, `Range.contains`, `Range.less` (C15, item 1).
-/
import GoImap.Model.NumSet
import Mathlib.Tactic.SplitIfs
namespace GoImap.NumSet

/-- a range as the API can produce it (identical to `GoImap.C15.Range.Valid`) -/
def Range.WF (r : Range) : Prop :=
  r.start < W ∧ r.stop < W ∧ (r.start = 0 → r.stop = 0) ∧ (r.stop ≠ 0 → r.start ≤ r.stop)

/-- the ordered part of `merge`: `s'` starts at or before `t'` -/
def mergeCore (s' t' orig : Range) : Range × Bool :=
  if (s'.stop ≥ t'.stop && t'.stop ≠ 0) || s'.stop = 0 then (s', true)
  else if (s'.stop + 1) % W ≥ t'.start || s'.stop = W - 1 then (⟨s'.start, t'.stop⟩, true)
  else (orig, false)

theorem Range.merge_eq (s t : Range) :
    s.merge t =
      if s = t then (s, true)
      else if s.start ≠ 0 && t.start ≠ 0 then
        (if s.start > t.start then mergeCore t s s else mergeCore s t s)
      else if s.start = 0 then
        if t.stop = 0 then (t, true) else (s, false)
      else if s.stop = 0 then (s, true)
      else (s, false) := by
  unfold Range.merge mergeCore
  by_cases h : s.start > t.start <;> simp only [h, if_true, if_false]

theorem Range.merge_fail (s t : Range) (h : (s.merge t).2 = false) : (s.merge t).1 = s := by
  rw [Range.merge_eq] at h ⊢
  unfold mergeCore at h ⊢
  split_ifs at h ⊢ <;> simp_all

theorem Range.contains_iff (r : Range) (q : Nat) :
    r.contains q = true ↔
      (q = 0 ∧ r.stop = 0) ∨ (q ≠ 0 ∧ r.start ≠ 0 ∧ r.start ≤ q ∧ (q ≤ r.stop ∨ r.stop = 0)) := by
  unfold Range.contains
  by_cases hq : q = 0 <;> simp [hq, and_assoc]

theorem Range.less_iff (r : Range) (q : Nat) :
    r.less q = true ↔ (r.stop < q ∨ q = 0) ∧ r.stop ≠ 0 := by
  simp [Range.less]

theorem mergeCore_snd_iff (s t o : Range) :
    (mergeCore s t o).2 = true ↔
      ((t.stop ≤ s.stop ∧ t.stop ≠ 0) ∨ s.stop = 0) ∨
        (t.start ≤ (s.stop + 1) % W ∨ s.stop = W - 1) := by
  unfold mergeCore
  simp only [ge_iff_le, ne_eq, Bool.or_eq_true, Bool.and_eq_true, decide_eq_true_eq]
  split_ifs with h1 h2
  · simp only [h1, true_or]
  · simp only [h2, or_true]
  · simp only [h1, h2, or_self]

theorem mergeCore_fst (s t o : Range) :
    (mergeCore s t o).1 =
      if (t.stop ≤ s.stop ∧ t.stop ≠ 0) ∨ s.stop = 0 then s
      else if t.start ≤ (s.stop + 1) % W ∨ s.stop = W - 1 then ⟨s.start, t.stop⟩ else o := by
  unfold mergeCore
  simp only [ge_iff_le, ne_eq, Bool.or_eq_true, Bool.and_eq_true, decide_eq_true_eq]
  split_ifs <;> rfl

theorem mergeCore_contains (s t o : Range) (hs : s.WF) (ht : t.WF)
    (h1 : s.start ≠ 0) (h2 : t.start ≠ 0) (h3 : s.start ≤ t.start)
    (h : (mergeCore s t o).2 = true) (q : Nat) (hq : q < W) :
    (mergeCore s t o).1.contains q = true ↔ (s.contains q = true ∨ t.contains q = true) := by
  obtain ⟨a, b⟩ := s
  obtain ⟨c, d⟩ := t
  rw [mergeCore_snd_iff] at h
  rw [mergeCore_fst]
  unfold Range.WF at hs ht
  simp only [W] at *
  by_cases c1 : (d ≤ b ∧ d ≠ 0 ∨ b = 0)
  · simp only [c1, if_true, Range.contains_iff]; omega
  · by_cases c2 : c ≤ (b + 1) % 4294967296 ∨ b = 4294967296 - 1
    · simp only [c1, c2, if_true, if_false, Range.contains_iff]; omega
    · omega

theorem mergeCore_wf (s t o : Range) (hs : s.WF) (ht : t.WF)
    (h1 : s.start ≠ 0) (h2 : t.start ≠ 0) (h3 : s.start ≤ t.start)
    (h : (mergeCore s t o).2 = true) : (mergeCore s t o).1.WF := by
  obtain ⟨a, b⟩ := s
  obtain ⟨c, d⟩ := t
  rw [mergeCore_snd_iff] at h
  rw [mergeCore_fst]
  unfold Range.WF at hs ht ⊢
  simp only [W] at *
  by_cases c1 : (d ≤ b ∧ d ≠ 0 ∨ b = 0)
  · simp only [c1, if_true]; exact hs
  · by_cases c2 : c ≤ (b + 1) % 4294967296 ∨ b = 4294967296 - 1
    · simp only [c1, c2, if_true, if_false]; omega
    · omega

theorem Range.merge_contains (s t : Range) (hs : s.WF) (ht : t.WF)
    (h : (s.merge t).2 = true) (q : Nat) (hq : q < W) :
    (s.merge t).1.contains q = (s.contains q || t.contains q) := by
  rw [Bool.eq_iff_iff, Bool.or_eq_true]
  rw [Range.merge_eq] at h ⊢
  simp only [ne_eq, Bool.and_eq_true, decide_eq_true_eq, gt_iff_lt] at h ⊢
  split_ifs at h ⊢ with e1 e2 e3 e4 e5 e6
  · subst e1; simp
  · rw [mergeCore_contains t s s ht hs e2.2 e2.1 (by omega) h q hq]; exact or_comm
  · exact mergeCore_contains s t s hs ht e2.1 e2.2 (by omega) h q hq
  · have := hs.2.2.1 e4
    simp only [Range.contains_iff]; omega
  · have : t.start = 0 := by
      by_cases h0 : t.start = 0
      · exact h0
      · exact absurd ⟨e4, h0⟩ e2
    have := ht.2.2.1 this
    simp only [Range.contains_iff]; omega

theorem Range.merge_wf (s t : Range) (hs : s.WF) (ht : t.WF)
    (h : (s.merge t).2 = true) : (s.merge t).1.WF := by
  rw [Range.merge_eq] at h ⊢
  simp only [ne_eq, Bool.and_eq_true, decide_eq_true_eq, gt_iff_lt] at h ⊢
  split_ifs at h ⊢ with e1 e2 e3 e4 e5 e6
  · exact hs
  · exact mergeCore_wf t s s ht hs e2.2 e2.1 (by omega) h
  · exact mergeCore_wf s t s hs ht e2.1 e2.2 (by omega) h
  · exact ht
  · exact hs

end GoImap.NumSet
