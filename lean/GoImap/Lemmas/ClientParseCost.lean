/-
  Ghost cost (number of byte reads) of the number-list readers of Model/ClientParse.lean:
  potential argument with Φ(d) = d.cost + 4·|d.inp|.  Every read that consumes a byte lowers Φ by
  3, every read that is put back raises it by 1; an iteration of the SORT / SEARCH loops consumes
  at least a space and a digit and puts back at most three bytes, so Φ never grows inside the
  loop and grows by a constant at its end.
-/
import GoImap.Model.ClientParse
namespace GoImap.ClientParse
open GoImap

def Phi (d : Dec) : Nat := d.cost + 4 * d.inp.length

theorem bind_eq' {α β} (p : P α) (f : α → P β) (d : Dec) : (p >>= f) d = P.bind p f d := rfl
theorem pure_eq' {α} (a : α) (d : Dec) : (pure a : P α) d = .ok a d := rfl

/-- what `acceptByte` does, in one step -/
theorem acceptByte_eval (w : UInt8) (d : Dec) :
    acceptByte w d =
      match d.inp with
      | [] => .ok false { d with cost := d.cost + 1, errSet := true }
      | b :: r =>
        if b == w then .ok true { d with inp := r, canUnread := true, prev := b, cost := d.cost + 1 }
        else .ok false { d with inp := b :: r, canUnread := false, prev := b, cost := d.cost + 1 } := by
  unfold acceptByte
  rw [bind_eq']
  unfold P.bind readByte
  cases h : d.inp with
  | nil => rfl
  | cons b r =>
    simp only []
    by_cases hb : (b == w) = true
    · simp only [hb, if_true]; rfl
    · have hb' : (b == w) = false := by simpa using hb
      simp only [hb', Bool.false_eq_true, if_false]
      rw [bind_eq']
      unfold P.bind unreadByte
      simp only [if_true]
      rfl

theorem peekByte_eval (d : Dec) :
    peekByte d =
      match d.inp with
      | [] => .ok none { d with cost := d.cost + 1, errSet := true }
      | b :: r => .ok (some b) { d with inp := b :: r, canUnread := false, prev := b, cost := d.cost + 1 } := by
  unfold peekByte
  rw [bind_eq']
  unfold P.bind readByte
  cases h : d.inp with
  | nil => rfl
  | cons b r =>
    simp only []
    rw [bind_eq']
    unfold P.bind unreadByte
    simp only [if_true]
    rfl

/-- `acceptByte`: a hit lowers Φ by 3; a miss raises it by 1 and the next byte is not `w` -/
theorem acceptByte_cost (w : UInt8) (d : Dec) :
    ∃ b d', acceptByte w d = .ok b d' ∧
      (b = true → Phi d' + 3 ≤ Phi d) ∧
      (b = false → Phi d' ≤ Phi d + 1 ∧ d'.inp = d.inp ∧ ∀ r, d.inp ≠ w :: r) := by
  rw [acceptByte_eval]
  cases h : d.inp with
  | nil =>
    refine ⟨false, _, rfl, (by intro h; cases h), fun _ => ⟨?_, ?_, ?_⟩⟩
    · simp [Phi, h]
    · simp
    · intro r hr; cases hr
  | cons b r =>
    by_cases hb : (b == w) = true
    · simp only [hb, if_true]
      refine ⟨true, _, rfl, fun _ => ?_, (by intro h; cases h)⟩
      simp [Phi, h]; omega
    · have hb' : (b == w) = false := by simpa using hb
      simp only [hb', Bool.false_eq_true, if_false]
      refine ⟨false, _, rfl, (by intro h; cases h), fun _ => ⟨?_, ?_, ?_⟩⟩
      · simp [Phi, h]; omega
      · simp
      · intro r' hr
        simp only [List.cons.injEq] at hr
        apply hb
        rw [hr.1]
        exact beq_self_eq_true w

/-- `SP`: always succeeds; `true` either after consuming a space (Φ drops by at least 2) or, with
    nothing consumed, in front of an opening parenthesis -/
theorem sp_cost (d : Dec) :
    ∃ b d', sp d = .ok b d' ∧ Phi d' ≤ Phi d + 2 ∧
      (b = true → Phi d' + 2 ≤ Phi d ∨ ∃ r, d'.inp = 40 :: r) := by
  unfold sp
  rw [bind_eq']
  unfold P.bind
  rw [acceptByte_eval]
  cases h : d.inp with
  | nil =>
    simp only [Bool.false_eq_true, if_false]
    rw [bind_eq']
    unfold P.bind
    rw [peekByte_eval]
    simp only [h]
    refine ⟨false, _, rfl, ?_, (by intro h; cases h)⟩
    simp [Phi, h]
  | cons b r =>
    by_cases hb : (b == 32) = true
    · simp only [hb, if_true]
      rw [bind_eq']
      unfold P.bind
      rw [peekByte_eval]
      cases r with
      | nil =>
        simp only []
        refine ⟨false, _, rfl, ?_, (by intro h; cases h)⟩
        simp [Phi, h]
      | cons c r' =>
        simp only []
        refine ⟨_, _, rfl, ?_, fun _ => Or.inl ?_⟩
        · simp [Phi, h]; omega
        · simp [Phi, h]; omega
    · have hb' : (b == 32) = false := by simpa using hb
      simp only [hb', Bool.false_eq_true, if_false]
      rw [bind_eq']
      unfold P.bind
      rw [peekByte_eval]
      simp only []
      refine ⟨_, _, rfl, ?_, ?_⟩
      · simp [Phi, h]; omega
      · intro hb40
        refine Or.inr ⟨r, ?_⟩
        have : b = 40 := by simpa using hb40
        simp [this]

theorem spanB_length (p : UInt8 → Bool) : ∀ (l acc : Bytes),
    (spanB p l acc).1.length + (spanB p l acc).2.length = acc.length + l.length := by
  intro l
  induction l with
  | nil => intro acc; simp [spanB]
  | cons b r ih =>
    intro acc
    unfold spanB
    by_cases hb : p b = true
    · simp only [hb, if_true]
      rw [ih]
      simp; omega
    · simp only [hb]
      simp

/-- `Func` (atoms, digit strings, …): a token lowers Φ by at least 2, no token raises it by 1 -/
theorem func_cost (v : UInt8 → Bool) (d : Dec) :
    ∃ o d', func v d = .ok o d' ∧ Phi d' ≤ Phi d + 1 ∧ (o.isSome = true → Phi d' + 2 ≤ Phi d) := by
  unfold func
  have hl := spanB_length v d.inp []
  cases hs : spanB v d.inp [] with
  | mk tk rest =>
    rw [hs] at hl
    simp only [List.length_nil, Nat.zero_add] at hl
    cases rest with
    | nil =>
      simp only []
      refine ⟨none, _, rfl, ?_, (by intro h; cases h)⟩
      simp only [Phi, List.length_nil] at hl ⊢
      omega
    | cons b r =>
      simp only []
      refine ⟨_, _, rfl, ?_, ?_⟩
      · simp only [Phi, List.length_cons] at hl ⊢
        omega
      · intro hsome
        have hne : tk.length ≥ 1 := by
          cases tk with
          | nil => simp at hsome
          | cons _ _ => simp
        simp only [Phi, List.length_cons] at hl ⊢
        omega

/-- a result whose state has not moved Φ up by more than `c`, whether it succeeded or failed -/
def CostPost {α} (c : Nat) (d : Dec) : Res α → Prop
  | .ok _ d' => Phi d' ≤ Phi d + c
  | .err d' => Phi d' ≤ Phi d + c
  | _ => True

/-- `ExpectNumber` & co.: success lowers Φ by at least 2, failure raises it by at most 1 -/
theorem expectNumberBelow_cost (bound : Nat) (d : Dec) :
    (∃ n d', expectOpt (numberBelow bound) d = .ok n d' ∧ Phi d' + 2 ≤ Phi d) ∨
    (∃ d', expectOpt (numberBelow bound) d = .err d' ∧ Phi d' ≤ Phi d + 1) := by
  unfold expectOpt numberBelow numberStr
  rw [bind_eq']
  unfold P.bind
  rw [bind_eq']
  unfold P.bind
  obtain ⟨o, d1, hf, h1, h2⟩ := func_cost isDigitB d
  rw [hf]
  cases o with
  | none => exact Or.inr ⟨d1, rfl, h1⟩
  | some s =>
    simp only []
    rw [pure_eq']
    by_cases c : valOfB s < bound
    · simp only [c, if_true]
      exact Or.inl ⟨_, d1, rfl, h2 rfl⟩
    · simp only [c, if_false]
      refine Or.inr ⟨d1, rfl, ?_⟩
      have := h2 rfl
      omega

theorem expectAtom_cost (d : Dec) :
    (∃ a d', expectAtom d = .ok a d' ∧ Phi d' + 2 ≤ Phi d) ∨
    (∃ d', expectAtom d = .err d' ∧ Phi d' ≤ Phi d + 1) := by
  unfold expectAtom atom
  rw [bind_eq']
  unfold P.bind
  obtain ⟨o, d1, hf, h1, h2⟩ := func_cost isAtomChar d
  rw [hf]
  cases o with
  | none => exact Or.inr ⟨d1, rfl, h1⟩
  | some s => exact Or.inl ⟨s, d1, rfl, h2 rfl⟩

theorem expectSP_cost (d : Dec) :
    (∃ d', expectSP d = .ok () d' ∧ Phi d' ≤ Phi d + 2) ∨
    (∃ d', expectSP d = .err d' ∧ Phi d' ≤ Phi d + 2) := by
  unfold expectSP
  rw [bind_eq']
  unfold P.bind
  obtain ⟨b, d1, hs, h1, _⟩ := sp_cost d
  rw [hs]
  cases b with
  | true => exact Or.inl ⟨d1, rfl, h1⟩
  | false => exact Or.inr ⟨d1, rfl, h1⟩

theorem expectSpecial_cost (w : UInt8) (d : Dec) :
    (∃ d', expectSpecial w d = .ok () d' ∧ Phi d' ≤ Phi d + 1) ∨
    (∃ d', expectSpecial w d = .err d' ∧ Phi d' ≤ Phi d + 1) := by
  unfold expectSpecial special
  rw [bind_eq']
  unfold P.bind
  obtain ⟨b, d1, hs, h1, h2⟩ := acceptByte_cost w d
  rw [hs]
  cases b with
  | true => exact Or.inl ⟨d1, rfl, by have := h1 rfl; omega⟩
  | false => exact Or.inr ⟨d1, rfl, (h2 rfl).1⟩

theorem modifyCS_phi (f : CS → CS) (d : Dec) : ∃ d', modifyCS f d = .ok () d' ∧ Phi d' = Phi d :=
  ⟨_, rfl, rfl⟩

/-- SORT: Φ grows by at most 3 over the whole loop -/
theorem sortLoop_phi : ∀ fuel d, CostPost 3 d (sortLoop true fuel d) := by
  intro fuel
  induction fuel with
  | zero => intro d; unfold sortLoop; trivial
  | succ n ih =>
    intro d
    unfold sortLoop
    rw [bind_eq']
    unfold P.bind
    obtain ⟨b, d1, hs, h1, _⟩ := sp_cost d
    rw [hs]
    cases b with
    | false =>
      simp only [Bool.not_false, if_true]
      show Phi d1 ≤ Phi d + 3
      omega
    | true =>
      simp only [Bool.not_true, Bool.false_eq_true, if_false]
      rw [bind_eq']
      unfold P.bind
      rcases expectNumberBelow_cost 4294967296 d1 with ⟨num, d2, hn, h2⟩ | ⟨d2, hn, h2⟩
      · have hn' : expectNumber d1 = .ok num d2 := hn
        rw [hn']
        simp only []
        by_cases hz : (true && num == 0) = true
        · simp only [hz, if_true]
          show Phi d2 ≤ Phi d + 3
          omega
        · have hz' : (true && num == 0) = false := by simpa using hz
          simp only [hz', Bool.false_eq_true, if_false]
          rw [bind_eq']
          unfold P.bind
          obtain ⟨d3, hm, h3⟩ := modifyCS_phi (fun cs => if pendingIs cs (· == .sort) then
            { cs with nums := cs.nums ++ [num], delivered := cs.delivered ++ [num] } else cs) d2
          rw [hm]
          simp only []
          have := ih d3
          cases hr : sortLoop true n d3 with
          | ok u d4 => rw [hr] at this; show Phi d4 ≤ Phi d + 3; have : Phi d4 ≤ Phi d3 + 3 := this; omega
          | err d4 => rw [hr] at this; show Phi d4 ≤ Phi d + 3; have : Phi d4 ≤ Phi d3 + 3 := this; omega
          | panic => trivial
          | unmod => trivial
          | nofuel => trivial
      · have hn' : expectNumber d1 = .err d2 := hn
        rw [hn']
        show Phi d2 ≤ Phi d + 3
        omega

theorem sortLoop_cost (fuel : Nat) (d d' : Dec)
    (h : sortLoop true fuel d = .ok () d' ∨ sortLoop true fuel d = .err d') :
    d'.cost ≤ d.cost + 4 * d.inp.length + 3 := by
  have := sortLoop_phi fuel d
  rcases h with h | h <;> rw [h] at this <;> simp only [CostPost, Phi] at this <;> omega

/-- SEARCH: Φ grows by at most 8 over the whole loop (the constant pays for the final
    `(MODSEQ n)` group) -/
theorem searchLoop_phi : ∀ fuel d, CostPost 8 d (searchLoop true fuel d) := by
  intro fuel
  induction fuel with
  | zero => intro d; unfold searchLoop; trivial
  | succ n ih =>
    intro d
    unfold searchLoop
    rw [bind_eq']
    unfold P.bind
    obtain ⟨b, d1, hs, h1, hsp⟩ := sp_cost d
    rw [hs]
    cases b with
    | false =>
      simp only [Bool.not_false, if_true]
      show Phi d1 ≤ Phi d + 8
      omega
    | true =>
      simp only [Bool.not_true, Bool.false_eq_true, if_false]
      rw [bind_eq']
      unfold P.bind
      obtain ⟨b2, d2, ha, ha1, ha2⟩ := acceptByte_cost 40 d1
      have ha' : special 40 d1 = .ok b2 d2 := ha
      rw [ha']
      cases b2 with
      | true =>
        -- "(" MODSEQ SP n ")" : every step moves Φ up by a constant at most
        have g2 : Phi d2 + 1 ≤ Phi d := by have := ha1 rfl; omega
        simp only [if_true]
        rw [bind_eq']
        unfold P.bind
        rcases expectAtom_cost d2 with ⟨name, d3, hA, h3⟩ | ⟨d3, hA, h3⟩
        · rw [hA]
          simp only []
          rw [bind_eq']
          unfold P.bind
          rcases expectSP_cost d3 with ⟨d4, hS, h4⟩ | ⟨d4, hS, h4⟩
          · rw [hS]
            simp only []
            cases hu : upper? name with
            | none => trivial
            | some u =>
              simp only []
              by_cases hm : (u != modseqB) = true
              · simp only [hm, if_true]
                show Phi d4 ≤ Phi d + 8
                omega
              · have hm' : (u != modseqB) = false := by simpa using hm
                simp only [hm', Bool.false_eq_true, if_false]
                rw [bind_eq']
                unfold P.bind
                rcases expectNumberBelow_cost 18446744073709551616 d4 with ⟨m, d5, hM, h5⟩ | ⟨d5, hM, h5⟩
                · have hM' : expectModSeq d4 = .ok m d5 := hM
                  rw [hM']
                  simp only []
                  rw [bind_eq']
                  unfold P.bind
                  rcases expectSpecial_cost 41 d5 with ⟨d6, hP, h6⟩ | ⟨d6, hP, h6⟩
                  · rw [hP]
                    simp only []
                    show Phi d6 ≤ Phi d + 8
                    omega
                  · rw [hP]
                    show Phi d6 ≤ Phi d + 8
                    omega
                · have hM' : expectModSeq d4 = .err d5 := hM
                  rw [hM']
                  show Phi d5 ≤ Phi d + 8
                  omega
          · rw [hS]
            show Phi d4 ≤ Phi d + 8
            omega
        · rw [hA]
          show Phi d3 ≤ Phi d + 8
          omega
      | false =>
        -- a number: `SP` must have consumed a space (the next byte is not "(")
        have hb := ha2 rfl
        have g1 : Phi d1 + 2 ≤ Phi d := by
          rcases hsp rfl with h | ⟨r, hr⟩
          · exact h
          · exact absurd hr (hb.2.2 r)
        simp only [Bool.false_eq_true, if_false]
        rw [bind_eq']
        unfold P.bind
        rcases expectNumberBelow_cost 4294967296 d2 with ⟨num, d3, hn, h3⟩ | ⟨d3, hn, h3⟩
        · have hn' : expectNumber d2 = .ok num d3 := hn
          rw [hn']
          simp only []
          by_cases hz : (true && num == 0) = true
          · simp only [hz, if_true]
            show Phi d3 ≤ Phi d + 8
            omega
          · have hz' : (true && num == 0) = false := by simpa using hz
            simp only [hz', Bool.false_eq_true, if_false]
            rw [bind_eq']
            unfold P.bind
            obtain ⟨d4, hm, h4⟩ := modifyCS_phi (fun cs => if pendingIs cs isSearch then addToAll cs num else cs) d3
            rw [hm]
            simp only []
            have := ih d4
            cases hr : searchLoop true n d4 with
            | ok u d5 => rw [hr] at this; show Phi d5 ≤ Phi d + 8; have : Phi d5 ≤ Phi d4 + 8 := this; omega
            | err d5 => rw [hr] at this; show Phi d5 ≤ Phi d + 8; have : Phi d5 ≤ Phi d4 + 8 := this; omega
            | panic => trivial
            | unmod => trivial
            | nofuel => trivial
        · have hn' : expectNumber d2 = .err d3 := hn
          rw [hn']
          show Phi d3 ≤ Phi d + 8
          omega

theorem searchLoop_cost (fuel : Nat) (d d' : Dec)
    (h : searchLoop true fuel d = .ok () d' ∨ searchLoop true fuel d = .err d') :
    d'.cost ≤ d.cost + 4 * d.inp.length + 8 := by
  have := searchLoop_phi fuel d
  rcases h with h | h <;> rw [h] at this <;> simp only [CostPost, Phi] at this <;> omega

end GoImap.ClientParse
