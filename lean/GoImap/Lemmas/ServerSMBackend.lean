/-
  C05, the backend's own view: the session calls of the model, marked with which of them the outcome
  makes the backend refuse, never ask a backend without an open mailbox for a selected-state operation.
  One-step fact by kernel evaluation per command kind, lifted over histories with the invariant
  "connection selected ⇒ the backend has a mailbox open".
-/
import GoImap.Lemmas.ServerSM
namespace GoImap.ServerLemmas
open GoImap.ServerSM GoImap.ServerSpec

/-- the session method an outcome makes the backend refuse (what the harness arms in the stub) -/
def principal : CmdKind → Option SessionCall
  | .authenticate | .authCont | .login => some .login
  | .unauthenticate => some .unauthenticate
  | .create => some .create | .delete => some .delete | .rename => some .rename
  | .subscribe => some .subscribe | .unsubscribe => some .unsubscribe | .status => some .status
  | .list | .lsub => some .list | .namespace => some .namespace | .idle => some .idle
  | .select | .examine => some .select
  | .close | .unselect => some .unselect
  | .append => some .append
  | .fetch | .uidFetch => some .fetch | .expunge | .uidExpunge => some .expunge
  | .store | .uidStore => some .store | .copy | .uidCopy => some .copy | .move | .uidMove => some .move
  | .search | .uidSearch => some .search
  | _ => none

def auxCall : CmdKind → Option SessionCall
  | .select | .examine => some .unselect
  | .close => some .expunge
  | _ => none

def armed (k : CmdKind) : Outcome → Option SessionCall
  | .backendErr => principal k
  | .auxErr => auxCall k
  | .pollErr => some .poll
  | _ => none

def SessionCall.same : SessionCall → SessionCall → Bool
  | .login, .login | .unauthenticate, .unauthenticate | .select, .select | .create, .create | .delete, .delete | .rename, .rename | .subscribe, .subscribe | .unsubscribe, .unsubscribe
  | .list, .list | .status, .status | .append, .append | .poll, .poll | .idle, .idle | .namespace, .namespace | .unselect, .unselect | .expunge, .expunge
  | .search, .search | .fetch, .fetch | .store, .store | .copy, .copy | .move, .move | .close, .close => true
  | _, _ => false

def refused (k : CmdKind) (o : Outcome) (c : SessionCall) : Bool :=
  match armed k o with
  | some a => SessionCall.same a c
  | none => false

/-- the calls of a step as the backend experiences them: (method, refused?) -/
def flagged (k : CmdKind) (o : Outcome) (calls : List Call) : List (SessionCall × Bool) :=
  calls.map fun call => (call.1, refused k o call.1)

def optNone : Option SessionCall → Bool
  | none => true
  | some _ => false

/-- one step: started with "selected ⇒ mailbox open", no call needs a mailbox the backend lacks, and
    the invariant holds again afterwards -/
def bviewOK (cfg : Cfg) (c : Conn) (k : CmdKind) (o : Outcome) (b : Bool) : Bool :=
  (c.st.isSelected && !b) ||
    (optNone (bviewCheck b (flagged k o (step cfg c k o).calls)).2
     && (!(step cfg c k o).conn.st.isSelected || (bviewCheck b (flagged k o (step cfg c k o).calls)).1))

def kindBV (k : CmdKind) : Bool :=
  allBool.all fun i => allBool.all fun f => allBool.all fun s => openConn.all fun c =>
    allOutcome.all fun o => allBool.all fun b => bviewOK (knobs i f s) c k o b

theorem kindBV_noop : kindBV .noop = true := by decide +kernel
theorem kindBV_check : kindBV .check = true := by decide +kernel
theorem kindBV_logout : kindBV .logout = true := by decide +kernel
theorem kindBV_capability : kindBV .capability = true := by decide +kernel
theorem kindBV_starttls : kindBV .starttls = true := by decide +kernel
theorem kindBV_authenticate : kindBV .authenticate = true := by decide +kernel
theorem kindBV_authCont : kindBV .authCont = true := by decide +kernel
theorem kindBV_authCancel : kindBV .authCancel = true := by decide +kernel
theorem kindBV_authMech : kindBV .authMech = true := by decide +kernel
theorem kindBV_unauthenticate : kindBV .unauthenticate = true := by decide +kernel
theorem kindBV_login : kindBV .login = true := by decide +kernel
theorem kindBV_enable : kindBV .enable = true := by decide +kernel
theorem kindBV_create : kindBV .create = true := by decide +kernel
theorem kindBV_delete : kindBV .delete = true := by decide +kernel
theorem kindBV_rename : kindBV .rename = true := by decide +kernel
theorem kindBV_subscribe : kindBV .subscribe = true := by decide +kernel
theorem kindBV_unsubscribe : kindBV .unsubscribe = true := by decide +kernel
theorem kindBV_status : kindBV .status = true := by decide +kernel
theorem kindBV_list : kindBV .list = true := by decide +kernel
theorem kindBV_lsub : kindBV .lsub = true := by decide +kernel
theorem kindBV_namespace : kindBV .namespace = true := by decide +kernel
theorem kindBV_idle : kindBV .idle = true := by decide +kernel
theorem kindBV_select : kindBV .select = true := by decide +kernel
theorem kindBV_examine : kindBV .examine = true := by decide +kernel
theorem kindBV_close : kindBV .close = true := by decide +kernel
theorem kindBV_unselect : kindBV .unselect = true := by decide +kernel
theorem kindBV_append : kindBV .append = true := by decide +kernel
theorem kindBV_fetch : kindBV .fetch = true := by decide +kernel
theorem kindBV_uidFetch : kindBV .uidFetch = true := by decide +kernel
theorem kindBV_expunge : kindBV .expunge = true := by decide +kernel
theorem kindBV_uidExpunge : kindBV .uidExpunge = true := by decide +kernel
theorem kindBV_store : kindBV .store = true := by decide +kernel
theorem kindBV_uidStore : kindBV .uidStore = true := by decide +kernel
theorem kindBV_copy : kindBV .copy = true := by decide +kernel
theorem kindBV_uidCopy : kindBV .uidCopy = true := by decide +kernel
theorem kindBV_move : kindBV .move = true := by decide +kernel
theorem kindBV_uidMove : kindBV .uidMove = true := by decide +kernel
theorem kindBV_search : kindBV .search = true := by decide +kernel
theorem kindBV_uidSearch : kindBV .uidSearch = true := by decide +kernel
theorem kindBV_unknown : kindBV .unknown = true := by decide +kernel
theorem kindBV_uidUnknown : kindBV .uidUnknown = true := by decide +kernel

theorem kindBV_all (k : CmdKind) : kindBV k = true := by
  cases k
  · exact kindBV_noop
  · exact kindBV_check
  · exact kindBV_logout
  · exact kindBV_capability
  · exact kindBV_starttls
  · exact kindBV_authenticate
  · exact kindBV_authCont
  · exact kindBV_authCancel
  · exact kindBV_authMech
  · exact kindBV_unauthenticate
  · exact kindBV_login
  · exact kindBV_enable
  · exact kindBV_create
  · exact kindBV_delete
  · exact kindBV_rename
  · exact kindBV_subscribe
  · exact kindBV_unsubscribe
  · exact kindBV_status
  · exact kindBV_list
  · exact kindBV_lsub
  · exact kindBV_namespace
  · exact kindBV_idle
  · exact kindBV_select
  · exact kindBV_examine
  · exact kindBV_close
  · exact kindBV_unselect
  · exact kindBV_append
  · exact kindBV_fetch
  · exact kindBV_uidFetch
  · exact kindBV_expunge
  · exact kindBV_uidExpunge
  · exact kindBV_store
  · exact kindBV_uidStore
  · exact kindBV_copy
  · exact kindBV_uidCopy
  · exact kindBV_move
  · exact kindBV_uidMove
  · exact kindBV_search
  · exact kindBV_uidSearch
  · exact kindBV_unknown
  · exact kindBV_uidUnknown

theorem bviewOK_norm (cfg : Cfg) (c : Conn) (k : CmdKind) (o : Outcome) (b : Bool) :
    bviewOK cfg c k o b = bviewOK (norm cfg) c k o b := by
  simp only [bviewOK, ← step_norm]

theorem bviewOK_all (cfg : Cfg) (c : Conn) (k : CmdKind) (o : Outcome) (b : Bool) : bviewOK cfg c k o b = true := by
  cases hc : c.closed
  · rw [bviewOK_norm]
    have h := kindBV_all k
    have h1 := forall_of_all _ mem_allBool _ h cfg.ins
    have h2 := forall_of_all _ mem_allBool _ h1 cfg.full
    have h3 := forall_of_all _ mem_allBool _ h2 cfg.stls
    have h4 := List.all_eq_true.mp h3 c (mem_openConn c hc)
    have h5 := forall_of_all _ mem_allOutcome _ h4 o
    exact forall_of_all _ mem_allBool _ h5 b
  · simp only [bviewOK, step_closed cfg c k o hc, flagged, List.map_nil, bviewCheck, optNone, Bool.true_and]
    cases c.st.isSelected <;> cases b <;> rfl

/-- the first selected-state call of a history that reaches a backend without a mailbox, if any -/
def bviewTrace (cfg : Cfg) : Conn → Bool → Hist → Option SessionCall
  | _, _, [] => none
  | c, b, (k, o) :: h =>
    match bviewCheck b (flagged k o (step cfg c k o).calls) with
    | (_, some x) => some x
    | (b', none) => bviewTrace cfg (step cfg c k o).conn b' h

theorem bviewTrace_none (cfg : Cfg) (c : Conn) (b : Bool) (hinv : (c.st.isSelected && !b) = false) (h : Hist) :
    bviewTrace cfg c b h = none := by
  induction h generalizing c b with
  | nil => rfl
  | cons x h ih =>
    obtain ⟨k, o⟩ := x
    have hs := bviewOK_all cfg c k o b
    simp only [bviewOK, hinv, Bool.false_or, Bool.and_eq_true] at hs
    obtain ⟨h1, h2⟩ := hs
    simp only [bviewTrace]
    generalize hr : bviewCheck b (flagged k o (step cfg c k o).calls) = r at h1 h2
    obtain ⟨b', m⟩ := r
    cases m with
    | some x => simp [optNone] at h1
    | none =>
      simp only
      apply ih
      simp only at h2
      cases hsel : (step cfg c k o).conn.st.isSelected <;> simp_all

end GoImap.ServerLemmas
