/-
  C12: the mirrored client refines the reference interpretation on conformant steps.
-/
import GoImap.Lemmas.ClientSMList
namespace GoImap.ClientLemmas
open GoImap.ClientSM GoImap.ClientSpec

/-- what the specification can see of the client's state -/
def view (m : St) : RSt :=
  { state := m.state, mbox := m.mbox, next := m.tagCtr, pend := m.pending, waiting := m.blocked,
    alive := !m.closed, greeted := m.greeted, done := m.done, uni := m.uni }

@[simp] theorem view_state (m : St) : (view m).state = m.state := rfl
@[simp] theorem view_mbox (m : St) : (view m).mbox = m.mbox := rfl
@[simp] theorem view_pend (m : St) : (view m).pend = m.pending := rfl
@[simp] theorem view_next (m : St) : (view m).next = m.tagCtr := rfl
@[simp] theorem view_waiting (m : St) : (view m).waiting = m.blocked := rfl
@[simp] theorem view_alive (m : St) : (view m).alive = !m.closed := rfl
@[simp] theorem view_greeted (m : St) : (view m).greeted = m.greeted := rfl
@[simp] theorem view_done (m : St) : (view m).done = m.done := rfl
@[simp] theorem view_uni (m : St) : (view m).uni = m.uni := rfl

theorem view_setPending (m : St) (p : List Cmd) : view (setPending m p) = { view m with pend := p } := rfl
theorem view_addUni (m : St) (u : Uni) : view (addUni m u) = { view m with uni := m.uni ++ [u] } := rfl
theorem view_updMbox_sel (m : St) (f : Mbox → Mbox) (h : m.state = .selected) :
    view (updMbox m f) = { view m with mbox := m.mbox.map f } := by
  simp [updMbox, h, view]
theorem view_updMbox_not (m : St) (f : Mbox → Mbox) (h : m.state ≠ .selected) :
    view (updMbox m f) = view m := by
  simp [updMbox, h]
@[simp] theorem updMbox_pending (m : St) (f : Mbox → Mbox) : (updMbox m f).pending = m.pending := by
  unfold updMbox; split <;> rfl
@[simp] theorem updMbox_uni (m : St) (f : Mbox → Mbox) : (updMbox m f).uni = m.uni := by
  unfold updMbox; split <;> rfl

theorem sel_cases (m : St) :
    (selPending (view m) = true ∧ 0 < count isSel m.pending) ∨
    (selPending (view m) = false ∧ count isSel m.pending = 0) := by
  cases h : selPending (view m) with
  | true => left; exact ⟨rfl, count_pos_of_any _ _ h⟩
  | false => right; exact ⟨rfl, count_zero_of_any_false _ _ h⟩

theorem isSelect_eq : isSelect = isSel := rfl
theorem isExpunge_eq : isExpunge = isExp := rfl
theorem isCapability_eq : isCapability = isCap := rfl
theorem isSearch_eq : isSearch = isSrch := rfl
theorem wantsFetch_eq : wantsFetch = fetchAnswers := rfl
theorem wantsList_eq : wantsList = listAnswers := rfl
theorem isStatusOf_eq : isStatusOf = statusAnswers := rfl
theorem esearchFor_eq : esearchFor = esearchAnswers := rfl
theorem recvFetch_eq : recvFetch = giveFetch := rfl
theorem recvList_eq (m : Nat) : (fun c => recvList c m) = giveList m := rfl
theorem setData_eq : setData = addData := rfl
theorem addNum_eq : addNum = insertNum := by
  funext n l
  induction l with
  | nil => rfl
  | cons x xs ih => simp [addNum, insertNum, ih]

theorem view_closeAll (m : St) : view (closeAll {} m) = abortAll (view m) := by
  simp [view, closeAll, abortAll, finish]

theorem sim_submit (m : St) (k : Kind) (b : Bool) :
    view (stepSubmit {} m k b) = submitR (view m) k b := by
  unfold stepSubmit submitR
  by_cases hc : m.closed
  · simp [hc, view, closeAll, abortAll, finish]
  · simp [hc, view]
    cases b <;> simp


theorem updMbox_not (m : St) (f : Mbox → Mbox) (h : m.state ≠ .selected) : updMbox m f = m := by
  simp [updMbox, h]

/-! ### one lemma per kind of step -/

theorem sim_exists (m : St) (n : Nat) (h : okEv (view m) (.exists_ n) = true) :
    view (stepOpen {} m (.exists_ n)) = rstep (view m) (.exists_ n) := by
  simp only [okEv] at h
  simp only [stepOpen, rstep, mailboxData]
  rcases sel_cases m with ⟨hs, hpos⟩ | ⟨hs, hz⟩
  · simp [hs] at h ⊢
    have h1 : count isSel m.pending = 1 := by have := of_decide_eq_true h.2.2; omega
    rw [isSelect_eq, setData_eq, updFirst_unique _ _ _ h1]
    rfl
  · simp [hs] at h ⊢
    have hsel : m.state = .selected := of_decide_eq_true h.2
    rw [isSelect_eq, updFirst_none _ _ _ hz]
    simp only [view_addUni, view_updMbox_sel _ _ hsel, updMbox_uni]
    rfl

theorem sim_flags (m : St) (fs : List Nat) (h : okEv (view m) (.flags fs) = true) :
    view (stepOpen {} m (.flags fs)) = rstep (view m) (.flags fs) := by
  simp only [okEv] at h
  simp only [stepOpen, rstep, mailboxData]
  rcases sel_cases m with ⟨hs, hpos⟩ | ⟨hs, hz⟩
  · simp [hs] at h ⊢
    have h1 : count isSel m.pending = 1 := by have := of_decide_eq_true h.2.2; omega
    rw [updMbox_not _ _ h.2.1, isSelect_eq, setData_eq, updFirst_unique _ _ _ h1]
    rfl
  · simp [hs] at h ⊢
    have hsel : m.state = .selected := of_decide_eq_true h.2
    rw [isSelect_eq, updFirst_none _ _ _ hz]
    simp only [view_addUni, view_updMbox_sel _ _ hsel, updMbox_uni]
    rfl

theorem sim_permFlags (m : St) (fs : List Nat) (h : okEv (view m) (.permFlags fs) = true) :
    view (stepOpen {} m (.permFlags fs)) = rstep (view m) (.permFlags fs) := by
  simp only [okEv] at h
  simp only [stepOpen, rstep, mailboxData]
  rcases sel_cases m with ⟨hs, hpos⟩ | ⟨hs, hz⟩
  · simp [hs] at h ⊢
    have h1 : count isSel m.pending = 1 := by have := of_decide_eq_true h.2.2; omega
    rw [updMbox_not _ _ h.2.1, isSelect_eq, setData_eq, updFirst_unique _ _ _ h1]
    rfl
  · simp [hs] at h ⊢
    have hsel : m.state = .selected := of_decide_eq_true h.2
    rw [isSelect_eq, updFirst_none _ _ _ hz]
    simp only [view_addUni, view_updMbox_sel _ _ hsel, updMbox_uni]
    rfl

theorem sim_uidNext (m : St) (n : Nat) (h : okEv (view m) (.uidNext n) = true) :
    view (stepOpen {} m (.uidNext n)) = rstep (view m) (.uidNext n) := by
  simp only [okEv] at h
  simp only [stepOpen, rstep, mailboxData]
  rcases sel_cases m with ⟨hs, hpos⟩ | ⟨hs, hz⟩
  · simp [hs] at h ⊢
    have h1 : count isSel m.pending = 1 := by have := of_decide_eq_true h.2.2; omega
    rw [isSelect_eq, setData_eq, updFirst_unique _ _ _ h1]
    rfl
  · simp [hs] at h ⊢
    rw [isSelect_eq, updFirst_none _ _ _ hz]
    simp [view]

theorem sim_uidValidity (m : St) (n : Nat) (h : okEv (view m) (.uidValidity n) = true) :
    view (stepOpen {} m (.uidValidity n)) = rstep (view m) (.uidValidity n) := by
  simp only [okEv] at h
  simp only [stepOpen, rstep, mailboxData]
  rcases sel_cases m with ⟨hs, hpos⟩ | ⟨hs, hz⟩
  · simp [hs] at h ⊢
    have h1 : count isSel m.pending = 1 := by have := of_decide_eq_true h.2.2; omega
    rw [isSelect_eq, setData_eq, updFirst_unique _ _ _ h1]
    rfl
  · simp [hs] at h ⊢
    rw [isSelect_eq, updFirst_none _ _ _ hz]
    simp [view]


theorem count_le_one_cases {p : Cmd → Bool} {l : List Cmd} (h : count p l ≤ 1) :
    count p l = 0 ∨ count p l = 1 := by omega

theorem sim_expunge (m : St) (n : Nat) (h : okEv (view m) (.expunge n) = true) :
    view (stepOpen {} m (.expunge n)) = rstep (view m) (.expunge n) := by
  simp only [okEv] at h
  simp at h
  have hsel : m.state = .selected := of_decide_eq_true h.2.1.1.1.1.1
  have hcnt : count isExp m.pending ≤ 1 := of_decide_eq_true h.2.1.2
  simp only [stepOpen, rstep]
  simp only [view_pend, updMbox_pending]
  rcases count_le_one_cases hcnt with h0 | h1
  · rw [isExpunge_eq, updFirst_none _ _ _ h0]
    simp only [h0, if_true, view_addUni, view_updMbox_sel _ _ hsel, updMbox_uni]
    rfl
  · rw [isExpunge_eq, setData_eq, updFirst_unique _ _ _ h1]
    simp only [h1, view_setPending, view_updMbox_sel _ _ hsel]
    rfl


theorem sim_fetch (m : St) (x : Msg) (h : okEv (view m) (.fetch x) = true) :
    view (stepOpen {} m (.fetch x)) = rstep (view m) (.fetch x) := by
  simp only [okEv] at h
  simp at h
  have hcnt : count (fetchAnswers x) m.pending ≤ 1 := of_decide_eq_true h.2.2
  simp only [stepOpen, rstep, view_pend]
  rcases count_le_one_cases hcnt with h0 | h1
  · rw [wantsFetch_eq, updFirst_none _ _ _ h0]
    simp only [h0, if_true, view_addUni]
    rfl
  · rw [wantsFetch_eq, recvFetch_eq, updFirst_unique _ _ _ h1]
    simp only [h1, view_setPending]
    rfl

theorem sim_list (m : St) (x : Nat) (h : okEv (view m) (.list x) = true) :
    view (stepOpen {} m (.list x)) = rstep (view m) (.list x) := by
  simp only [okEv] at h
  simp at h
  have h1 : count (listAnswers x) m.pending = 1 := of_decide_eq_true h.2
  simp only [stepOpen, rstep, view_pend]
  rw [wantsList_eq, recvList_eq, updFirst_unique _ _ _ h1]
  rfl

theorem sim_status (m : St) (x n : Nat) (h : okEv (view m) (.status x n) = true) :
    view (stepOpen {} m (.status x n)) = rstep (view m) (.status x n) := by
  simp only [okEv] at h
  simp at h
  have h1 : count (statusAnswers x) m.pending = 1 := of_decide_eq_true h.2
  simp only [stepOpen, rstep, view_pend]
  rw [isStatusOf_eq, setData_eq, updFirst_unique _ _ _ h1]
  rfl

theorem searchAnswers_isSrch (c : Cmd) (h : searchAnswers c = true) : isSrch c = true := by
  unfold searchAnswers at h
  unfold isSrch
  split at h <;> simp_all

theorem sim_search (m : St) (ns : List Nat) (h : okEv (view m) (.search ns) = true) :
    view (stepOpen {} m (.search ns)) = rstep (view m) (.search ns) := by
  simp only [okEv] at h
  simp at h
  have h1 : count searchAnswers m.pending = 1 := of_decide_eq_true h.2.1
  have h2 : count isSrch m.pending = 1 := of_decide_eq_true h.2.2
  simp only [stepOpen, rstep, view_pend]
  rw [isSearch_eq, setData_eq, addNum_eq, updFirst_unique _ _ _ h2,
    deliver_congr_unique isSrch searchAnswers _ searchAnswers_isSrch _ h2 h1]
  rfl

theorem sim_esearch (m : St) (t : Nat) (u : Bool) (ns : List Nat) (h : okEv (view m) (.esearch t u ns) = true) :
    view (stepOpen {} m (.esearch t u ns)) = rstep (view m) (.esearch t u ns) := by
  simp only [okEv] at h
  simp at h
  have h1 : count (esearchAnswers t) m.pending = 1 := of_decide_eq_true h.2.1
  simp only [stepOpen, rstep, view_pend]
  rw [esearchFor_eq, setData_eq, updFirst_unique _ _ _ h1]
  rfl

theorem sim_capability (m : St) (cs : List Nat) (h : okEv (view m) (.capability cs) = true) :
    view (stepOpen {} m (.capability cs)) = rstep (view m) (.capability cs) := by
  simp only [okEv] at h
  simp at h
  have hcnt : count isCap m.pending ≤ 1 := of_decide_eq_true h.2
  simp only [stepOpen, rstep, view_pend]
  rcases count_le_one_cases hcnt with h0 | h1
  · rw [isCapability_eq, updFirst_none _ _ _ h0, deliver_none _ _ _ h0]
    rfl
  · rw [isCapability_eq, setData_eq, updFirst_unique _ _ _ h1]
    rfl

theorem sim_cont (m : St) (h : okEv (view m) .cont = true) :
    view (stepOpen {} m .cont) = rstep (view m) .cont := by
  simp only [okEv] at h
  simp at h
  simp only [stepOpen, rstep]
  cases hb : m.blocked with
  | none => simp [hb] at h
  | some t => rfl

theorem sim_greet (m : St) (g : Greeting) (c : Bool) (h : okEv (view m) (.greet g c) = true) :
    view (stepOpen {} m (.greet g c)) = rstep (view m) (.greet g c) := by
  simp only [okEv] at h
  simp at h
  simp only [stepOpen, rstep, h.2]
  cases g <;> simp [view, closeAll, abortAll, finish]

theorem sim_closedCode (m : St) : view (stepOpen {} m .closedCode) = rstep (view m) .closedCode := rfl
theorem sim_info (m : St) : view (stepOpen {} m .info) = rstep (view m) .info := rfl
theorem sim_recent (m : St) (n : Nat) : view (stepOpen {} m (.recent n)) = rstep (view m) (.recent n) := rfl
theorem sim_byeClose (m : St) : view (stepOpen {} m .byeClose) = rstep (view m) .byeClose :=
  view_closeAll m

theorem view_completeState (st : St) (c : Cmd) (s : Status) :
    view (completeState {} st c s) = afterReply (view st) c s := by
  unfold completeState afterReply
  cases hk : c.kind <;> cases s <;> simp [view]
  by_cases hsel : st.state = .selected <;> simp [hsel]

theorem applyCode_tag (code : Code) (c : Cmd) : (applyCode code c).tag = c.tag := by
  unfold applyCode; split <;> rfl
theorem applyCode_kind (code : Code) (c : Cmd) : (applyCode code c).kind = c.kind := by
  unfold applyCode; split <;> rfl

theorem view_noteCaps (st : St) (s : Status) (code : Code) (k : Kind) :
    view (noteCaps st s code k) = view st := by
  unfold noteCaps; split <;> rfl

/-- the specification's treatment of the reply's code, for comparison -/
def specCode (code : Code) (c : Cmd) : Cmd :=
  match code, c.kind with
  | .appendUid v u, .append => addData (fun d => { d with appendUid := some (v, u) }) c
  | _, _ => c

theorem applyCode_eq : applyCode = specCode := rfl

theorem sim_tagged (m : St) (t : Nat) (s : Status) (code : Code) (h : okEv (view m) (.tagged t s code) = true) :
    view (stepOpen {} m (.tagged t s code)) = rstep (view m) (.tagged t s code) := by
  simp only [okEv] at h
  simp at h
  have hcnt : count (fun x => x.tag == t) m.pending = 1 := of_decide_eq_true h.2.1.1.2
  obtain ⟨c, hf, hr⟩ := removeTag_unique t m.pending hcnt
  have htag : c.tag = t := by
    have := List.find?_some hf
    simpa using this
  have hcond : (decide (m.blocked = some t) && (decide (s = .ok) || ({} : Cfg).legacyFlush)) = false := by
    rcases h.2.1.2 with h' | h' <;> simp [h']
  simp only [stepOpen, stepTagged, rstep, view_pend, hf, hr, hcond, Bool.false_eq_true, if_false]
  rw [view_noteCaps, view_completeState]
  have e : finish (applyCode code c) s code.id =
      ⟨t, s, code.id, (applyCode code c).kind, (applyCode code c).data⟩ := by
    simp [finish, applyCode_tag, htag]
  rw [e]
  rfl

/-- server responses are only ok on a live connection -/
theorem okEv_open (m : St) (ev : Ev) (h : okEv (view m) ev = true)
    (hs : ∀ k, ev ≠ .submit k) (hb : ∀ k, ev ≠ .begin k) : m.closed = false := by
  cases ev with
  | submit k => exact absurd rfl (hs k)
  | «begin» k => exact absurd rfl (hb k)
  | _ => simp only [okEv] at h; simp at h; first | exact h.1.1 | exact h.1 | exact h.1.1.1

/-- one conformant step: the client's new state is the reference interpretation's new state -/
theorem sim_step (m : St) (ev : Ev) (h : okEv (view m) ev = true) :
    view (step m ev) = rstep (view m) ev := by
  unfold step stepWith
  cases ev with
  | submit k => by_cases hc : m.closed <;> simp only [hc, if_true, if_false, Bool.false_eq_true, stepOpen, rstep, sim_submit]
  | «begin» k => by_cases hc : m.closed <;> simp only [hc, if_true, if_false, Bool.false_eq_true, stepOpen, rstep, sim_submit]
  | greet g c => rw [okEv_open m _ h (by simp) (by simp)]; exact sim_greet m g c h
  | cont => rw [okEv_open m _ h (by simp) (by simp)]; exact sim_cont m h
  | tagged t s c => rw [okEv_open m _ h (by simp) (by simp)]; exact sim_tagged m t s c h
  | exists_ n => rw [okEv_open m _ h (by simp) (by simp)]; exact sim_exists m n h
  | recent n => rw [okEv_open m _ h (by simp) (by simp)]; exact sim_recent m n
  | expunge n => rw [okEv_open m _ h (by simp) (by simp)]; exact sim_expunge m n h
  | flags fs => rw [okEv_open m _ h (by simp) (by simp)]; exact sim_flags m fs h
  | permFlags fs => rw [okEv_open m _ h (by simp) (by simp)]; exact sim_permFlags m fs h
  | uidNext n => rw [okEv_open m _ h (by simp) (by simp)]; exact sim_uidNext m n h
  | uidValidity n => rw [okEv_open m _ h (by simp) (by simp)]; exact sim_uidValidity m n h
  | fetch x => rw [okEv_open m _ h (by simp) (by simp)]; exact sim_fetch m x h
  | closedCode => rw [okEv_open m _ h (by simp) (by simp)]; exact sim_closedCode m
  | info => rw [okEv_open m _ h (by simp) (by simp)]; exact sim_info m
  | byeClose => rw [okEv_open m _ h (by simp) (by simp)]; exact sim_byeClose m
  | list x => rw [okEv_open m _ h (by simp) (by simp)]; exact sim_list m x h
  | status x n => rw [okEv_open m _ h (by simp) (by simp)]; exact sim_status m x n h
  | search ns => rw [okEv_open m _ h (by simp) (by simp)]; exact sim_search m ns h
  | esearch t u ns => rw [okEv_open m _ h (by simp) (by simp)]; exact sim_esearch m t u ns h
  | capability cs => rw [okEv_open m _ h (by simp) (by simp)]; exact sim_capability m cs h

/-- a conformant transcript from any client state -/
theorem sim_from (tr : List Ev) : ∀ (m : St), conformantFrom (view m) tr = true →
    view (tr.foldl step m) = tr.foldl rstep (view m) := by
  induction tr with
  | nil => intro m _; rfl
  | cons ev rest ih =>
    intro m h
    simp only [conformantFrom, Bool.and_eq_true] at h
    simp only [List.foldl_cons]
    rw [← sim_step m ev h.1]
    apply ih
    rw [sim_step m ev h.1]
    exact h.2

theorem view_init : view init = rinit := rfl

/-- on a conformant transcript the mirrored client computes the reference interpretation -/
theorem sim (tr : List Ev) (h : Conformant tr) : view (run tr) = ref tr := by
  unfold run ref
  rw [← view_init]
  exact sim_from tr init (by rw [view_init]; exact h)

end GoImap.ClientLemmas
