/-
  `Set.nums` against `NumSetSpec.enumerate` (C15, item 5).
-/
import GoImap.Lemmas.NumSetContains
namespace GoImap.NumSet
open GoImap.NumSetSpec

/-- all elements static (no "*" anywhere) -/
def AllStatic (s : Set) : Prop := ∀ r ∈ s, r.start ≠ 0 ∧ r.stop ≠ 0

theorem canon_allStatic (s : Set) : ∀ lo, CanonFrom lo s → dynamic s = false → AllStatic s := by
  induction s with
  | nil => intro lo _ _ r hr; cases hr
  | cons a rest ih =>
    intro lo h hd r hr
    have hw := h.1
    cases rest with
    | nil =>
      rw [dynamic_single] at hd
      have : a.stop ≠ 0 := by simpa using hd
      rcases List.mem_cons.1 hr with rfl | hr'
      · unfold Range.WF at hw; omega
      · cases hr'
    | cons r' rest' =>
      rw [dynamic_cons_cons] at hd
      rcases List.mem_cons.1 hr with rfl | hr'
      · have := h.2.2.1 (by simp)
        unfold Range.WF at hw; omega
      · exact ih _ h.tail hd r hr'

theorem enumerate_cons (r : Range) (rest : Set) :
    enumerate (r :: rest) = List.range' r.start (r.stop + 1 - r.start) ++ enumerate rest := by
  simp [enumerate]

theorem nums_eq_enumerate (s : Set) (h : AllStatic s) : nums s = some (enumerate s) := by
  induction s with
  | nil => rfl
  | cons r rest ih =>
    have hr := h r (by simp)
    have ih' := ih (fun x hx => h x (by simp [hx]))
    rw [enumerate_cons]
    simp only [nums, Range.nums, hr.1, hr.2, decide_false, Bool.or_self, Bool.false_eq_true,
      if_false, ih']

theorem nums_none_of_dynamic (s : Set) (h : dynamic s = true) : nums s = none := by
  induction s with
  | nil => cases h
  | cons r rest ih =>
    cases rest with
    | nil =>
      rw [dynamic_single] at h
      have : r.stop = 0 := by simpa using h
      simp [nums, Range.nums, this]
    | cons r' rest' =>
      rw [dynamic_cons_cons] at h
      have := ih h
      simp only [nums] at this ⊢
      rw [this]
      cases r.nums <;> rfl

theorem mem_enumerate (s : Set) (q : Nat) :
    q ∈ enumerate s ↔ ∃ r ∈ s, r.start ≤ q ∧ q < r.start + (r.stop + 1 - r.start) := by
  simp [enumerate, List.mem_flatMap, List.mem_range'_1]

theorem enumerate_lb (s : Set) : ∀ lo, CanonFrom lo s → AllStatic s →
    ∀ x ∈ enumerate s, lo < x := by
  intro lo h hs x hx
  rw [mem_enumerate] at hx
  obtain ⟨r, hr, h1, _⟩ := hx
  have := h.starts r hr
  have := (hs r hr).1
  omega

theorem enumerate_pairwise (s : Set) : ∀ lo, CanonFrom lo s → AllStatic s →
    List.Pairwise (· < ·) (enumerate s) := by
  induction s with
  | nil => intro lo _ _; simp [enumerate]
  | cons r rest ih =>
    intro lo h hs
    have hs' : AllStatic rest := fun x hx => hs x (by simp [hx])
    rw [enumerate_cons, List.pairwise_append]
    refine ⟨List.pairwise_lt_range', ih _ h.tail hs', ?_⟩
    intro a ha b hb
    have := enumerate_lb rest _ h.tail hs' b hb
    rw [List.mem_range'_1] at ha
    have hw := h.1
    have := hs r (by simp)
    unfold Range.WF at hw
    omega

theorem mem_enumerate_iff_any (s : Set) (lo : Nat) (h : CanonFrom lo s) (hs : AllStatic s)
    (q : Nat) (_hq : q ≠ 0) :
    q ∈ enumerate s ↔ s.any (fun r => r.contains q) = true := by
  rw [mem_enumerate, List.any_eq_true]
  constructor
  · rintro ⟨r, hr, h1, h2⟩
    refine ⟨r, hr, ?_⟩
    have hw := h.wf r hr
    have := hs r hr
    rw [Range.contains_iff]
    unfold Range.WF at hw
    omega
  · rintro ⟨r, hr, hc⟩
    refine ⟨r, hr, ?_⟩
    have hw := h.wf r hr
    have := hs r hr
    rw [Range.contains_iff] at hc
    unfold Range.WF at hw
    omega

end GoImap.NumSet
