/-
  Helper lemmas for C03: the SELECT / EXAMINE response. What select.go handleSelect writes (`printSelect`: the
  untagged lines `[CLOSED]`, EXISTS, RECENT, `[UIDVALIDITY]`, `[UIDNEXT]`, FLAGS, `[PERMANENTFLAGS]` and the optional
  LIST) followed by the tagged completion with the `[READ-WRITE]` / `[READ-ONLY]` code is read back by the client
  line by line, and the routing (`deliverSelect`) hands the canonical form of the supplied data to the command.
-/
import GoImap.Lemmas.RespCodes
import GoImap.Lemmas.RespFlags
import GoImap.Lemmas.RespList
import GoImap.Lemmas.RespStatus
namespace GoImap.Resp

/-! ### response codes of a status response -/

theorem select_decSP_rbracket (r : Str) : decSP (93 :: r) = (false, 93 :: r) := by
  simp [decSP]

/-- `[CODE] text` where the code is an atom the client does not interpret: the atom stops at `]` -/
theorem select_readRespText_other (tagged : Bool) (code text rest : Str) (hne : code ≠ [])
    (ha : ∀ x ∈ code, isAtomChar x = true)
    (n1 : ¬ code = asc "CAPABILITY") (n2 : ¬ code = asc "APPENDUID") (n3 : ¬ code = asc "COPYUID")
    (n4 : ¬ code = asc "PERMANENTFLAGS") (n5 : ¬ code = asc "UIDNEXT") (n6 : ¬ code = asc "UIDVALIDITY")
    (hx : IsText text) :
    readRespText tagged (32 :: 91 :: (code ++ 93 :: 32 :: (text ++ 13 :: 10 :: rest))) =
      some (Code.other code, 13 :: 10 :: rest) := by
  have hta : tryAtom (code ++ 93 :: 32 :: (text ++ 13 :: 10 :: rest)) = some (code, 93 :: 32 :: (text ++ 13 :: 10 :: rest)) :=
    tryAtom_append _ _ hne ha (StopsAt.cons _ (by decide))
  have hds := codes_decSP_text text (10 :: rest) hx
  have htx := decText_text text (10 :: rest) hx
  have hrb := select_decSP_rbracket (32 :: (text ++ 13 :: 10 :: rest))
  have hd0 : decSP (32 :: 91 :: (code ++ 93 :: 32 :: (text ++ 13 :: 10 :: rest))) =
      (true, 91 :: (code ++ 93 :: 32 :: (text ++ 13 :: 10 :: rest))) := by
    simp [decSP]
  unfold readRespText
  rw [hd0]
  simp only [hta]
  simp [n1, n2, n3, n4, n5, n6, hrb, hds, htx]

/-- `[UIDNEXT n] text` in an untagged status response -/
theorem select_readRespText_uidnext (n : Nat) (hn : n < 4294967296) (text rest : Str) (hx : IsText text) :
    readRespText false (32 :: 91 :: (asc "UIDNEXT" ++ 32 :: (encNumber n ++ 93 :: 32 :: (text ++ 13 :: 10 :: rest)))) =
      some (Code.uidNext n, 13 :: 10 :: rest) := by
  have hta : tryAtom (asc "UIDNEXT" ++ 32 :: (encNumber n ++ 93 :: 32 :: (text ++ 13 :: 10 :: rest))) =
      some (asc "UIDNEXT", 32 :: (encNumber n ++ 93 :: 32 :: (text ++ 13 :: 10 :: rest))) :=
    tryAtom_append _ _ (by decide) (by decide) (StopsAt.cons _ (by decide))
  have hds := codes_decSP_text text (10 :: rest) hx
  have htx := decText_text text (10 :: rest) hx
  have n1 : ¬ asc "UIDNEXT" = asc "CAPABILITY" := by decide
  have n3 : ¬ asc "UIDNEXT" = asc "COPYUID" := by decide
  have n4 : ¬ asc "UIDNEXT" = asc "PERMANENTFLAGS" := by decide
  have hs1 := codes_expectSP_num n (93 :: 32 :: (text ++ 13 :: 10 :: rest))
  have hn1 := decNumber_encNumber n hn (93 :: 32 :: (text ++ 13 :: 10 :: rest)) (StopsAt.cons _ (by decide))
  have hd0 : decSP (32 :: 91 :: (asc "UIDNEXT" ++ 32 :: (encNumber n ++ 93 :: 32 :: (text ++ 13 :: 10 :: rest)))) =
      (true, 91 :: (asc "UIDNEXT" ++ 32 :: (encNumber n ++ 93 :: 32 :: (text ++ 13 :: 10 :: rest)))) := by
    simp [decSP]
  unfold readRespText
  rw [hd0]
  simp only [hta]
  simp [n1, n3, n4, hs1, hn1, hds, htx]

/-- `[UIDVALIDITY n] text` in an untagged status response -/
theorem select_readRespText_uidvalidity (n : Nat) (hn : n < 4294967296) (text rest : Str) (hx : IsText text) :
    readRespText false (32 :: 91 :: (asc "UIDVALIDITY" ++ 32 :: (encNumber n ++ 93 :: 32 :: (text ++ 13 :: 10 :: rest)))) =
      some (Code.uidValidity n, 13 :: 10 :: rest) := by
  have hta : tryAtom (asc "UIDVALIDITY" ++ 32 :: (encNumber n ++ 93 :: 32 :: (text ++ 13 :: 10 :: rest))) =
      some (asc "UIDVALIDITY", 32 :: (encNumber n ++ 93 :: 32 :: (text ++ 13 :: 10 :: rest))) :=
    tryAtom_append _ _ (by decide) (by decide) (StopsAt.cons _ (by decide))
  have hds := codes_decSP_text text (10 :: rest) hx
  have htx := decText_text text (10 :: rest) hx
  have n1 : ¬ asc "UIDVALIDITY" = asc "CAPABILITY" := by decide
  have n3 : ¬ asc "UIDVALIDITY" = asc "COPYUID" := by decide
  have n4 : ¬ asc "UIDVALIDITY" = asc "PERMANENTFLAGS" := by decide
  have n5 : ¬ asc "UIDVALIDITY" = asc "UIDNEXT" := by decide
  have hs1 := codes_expectSP_num n (93 :: 32 :: (text ++ 13 :: 10 :: rest))
  have hn1 := decNumber_encNumber n hn (93 :: 32 :: (text ++ 13 :: 10 :: rest)) (StopsAt.cons _ (by decide))
  have hd0 : decSP (32 :: 91 :: (asc "UIDVALIDITY" ++ 32 :: (encNumber n ++ 93 :: 32 :: (text ++ 13 :: 10 :: rest)))) =
      (true, 91 :: (asc "UIDVALIDITY" ++ 32 :: (encNumber n ++ 93 :: 32 :: (text ++ 13 :: 10 :: rest)))) := by
    simp [decSP]
  unfold readRespText
  rw [hd0]
  simp only [hta]
  simp [n1, n3, n4, n5, hs1, hn1, hds, htx]

/-- `[PERMANENTFLAGS (flags)] text` in an untagged status response -/
theorem select_readRespText_permflags (pf : Str) (l : List Str) (text rest : Str) (hx : IsText text) (hh : list_Head pf)
    (hd : decList decFlag (pf ++ 93 :: 32 :: (text ++ 13 :: 10 :: rest)) = some (l, 93 :: 32 :: (text ++ 13 :: 10 :: rest))) :
    readRespText false (32 :: 91 :: (asc "PERMANENTFLAGS" ++ 32 :: (pf ++ 93 :: 32 :: (text ++ 13 :: 10 :: rest)))) =
      some (Code.permFlags l, 13 :: 10 :: rest) := by
  have hta : tryAtom (asc "PERMANENTFLAGS" ++ 32 :: (pf ++ 93 :: 32 :: (text ++ 13 :: 10 :: rest))) =
      some (asc "PERMANENTFLAGS", 32 :: (pf ++ 93 :: 32 :: (text ++ 13 :: 10 :: rest))) :=
    tryAtom_append _ _ (by decide) (by decide) (StopsAt.cons _ (by decide))
  have hds := codes_decSP_text text (10 :: rest) hx
  have htx := decText_text text (10 :: rest) hx
  have n1 : ¬ asc "PERMANENTFLAGS" = asc "CAPABILITY" := by decide
  have n3 : ¬ asc "PERMANENTFLAGS" = asc "COPYUID" := by decide
  have hs1 : expectSP (32 :: (pf ++ 93 :: 32 :: (text ++ 13 :: 10 :: rest))) = some (pf ++ 93 :: 32 :: (text ++ 13 :: 10 :: rest)) :=
    list_expectSP _ (hh.append _)
  have hd0 : decSP (32 :: 91 :: (asc "PERMANENTFLAGS" ++ 32 :: (pf ++ 93 :: 32 :: (text ++ 13 :: 10 :: rest)))) =
      (true, 91 :: (asc "PERMANENTFLAGS" ++ 32 :: (pf ++ 93 :: 32 :: (text ++ 13 :: 10 :: rest)))) := by
    simp [decSP]
  unfold readRespText
  rw [hd0]
  simp only [hta]
  simp [n1, n3, hs1, hd, hds, htx]

/-! ### the lines -/

/-- `* OK [CLOSED] Previous mailbox is now closed` -/
theorem select_closed_line :
    ReadsAs (asc "* OK [CLOSED] Previous mailbox is now closed\r\n") (Event.cond (asc "OK") (Code.other (asc "CLOSED"))) := by
  have e : asc "* OK [CLOSED] Previous mailbox is now closed\r\n" =
      asc "* OK " ++ (91 :: (asc "CLOSED" ++ 93 :: 32 :: asc "Previous mailbox is now closed")) ++ CRLFb := by decide
  rw [e]
  apply codes_cond_of_respText
  intro rest
  have h := select_readRespText_other false (asc "CLOSED") (asc "Previous mailbox is now closed") rest (by decide) (by decide)
    (by decide) (by decide) (by decide) (by decide) (by decide) (by decide) (codes_isText_of _ (by decide))
  simpa [List.append_assoc] using h

/-- `* n NAME CRLF` for a response name whose dispatch takes no payload -/
theorem select_num_line (n : Nat) (hn : n < 4294967296) (name : Str) (hname : IsName name) (ev : Event)
    (hd : ∀ r, dispatchData n name r = some (ev, r)) :
    ReadsAs (star ++ [32] ++ encNumber n ++ [32] ++ name ++ CRLFb) ev := by
  constructor
  · simp [star]
  · intro rest
    obtain ⟨_, h2, h3⟩ := encNumber_spec n
    cases hdg : encNumber n with
    | nil => exact absurd hdg h3
    | cons a l =>
      have ha : isDigitB a = true := h2 a (by rw [hdg]; simp)
      have h13 : a ≠ 13 := by intro e; rw [e] at ha; exact absurd ha (by decide)
      have h10 : a ≠ 10 := by intro e; rw [e] at ha; exact absurd ha (by decide)
      have e : star ++ [32] ++ (a :: l) ++ [32] ++ name ++ CRLFb ++ rest = 42 :: 32 :: a :: (l ++ 32 :: (name ++ (13 :: 10 :: rest))) := by
        simp [star, CRLFb, List.append_assoc]
      rw [e, readResponse_star a _ h13 h10]
      have e2 : a :: (l ++ 32 :: (name ++ 13 :: 10 :: rest)) = encNumber n ++ 32 :: (name ++ 13 :: 10 :: rest) := by
        rw [hdg]; rfl
      rw [e2, readUntagged_num n hn name (13 :: 10 :: rest) hname (StopsAt.cons _ (by decide)), hd, finishLine_crlf]

/-- `* n EXISTS` -/
theorem select_exists_line (n : Nat) (hn : n < 4294967296) :
    ReadsAs (star ++ [32] ++ encNumber n ++ asc " EXISTS\r\n") (Event.exists_ n) := by
  have e : star ++ [32] ++ encNumber n ++ asc " EXISTS\r\n" = star ++ [32] ++ encNumber n ++ [32] ++ asc "EXISTS" ++ CRLFb := by
    simp [asc, CRLFb, List.append_assoc]
  rw [e]
  exact select_num_line n hn _ (isName_of _ (by decide)) _ (fun r => by simp [dispatchData, asc])

/-- `* 0 RECENT` -/
theorem select_recent_line : ReadsAs (asc "* 0 RECENT\r\n") (Event.recent 0) := by
  have e : asc "* 0 RECENT\r\n" = star ++ [32] ++ encNumber 0 ++ [32] ++ asc "RECENT" ++ CRLFb := by decide
  rw [e]
  exact select_num_line 0 (by decide) _ (isName_of _ (by decide)) _ (fun r => by simp [dispatchData, asc])

/-- `* OK [UIDVALIDITY n] UIDs valid` -/
theorem select_uidvalidity_line (n : Nat) (hn : n < 4294967296) :
    ReadsAs (asc "* OK [UIDVALIDITY " ++ encNumber n ++ asc "] UIDs valid\r\n") (Event.cond (asc "OK") (Code.uidValidity n)) := by
  have e : asc "* OK [UIDVALIDITY " ++ encNumber n ++ asc "] UIDs valid\r\n" =
      asc "* OK " ++ (91 :: (asc "UIDVALIDITY" ++ 32 :: (encNumber n ++ 93 :: 32 :: asc "UIDs valid"))) ++ CRLFb := by
    simp [asc, CRLFb, List.append_assoc]
  rw [e]
  apply codes_cond_of_respText
  intro rest
  have h := select_readRespText_uidvalidity n hn (asc "UIDs valid") rest (codes_isText_of _ (by decide))
  simpa [List.append_assoc] using h

/-- `* OK [UIDNEXT n] Predicted next UID` -/
theorem select_uidnext_line (n : Nat) (hn : n < 4294967296) :
    ReadsAs (asc "* OK [UIDNEXT " ++ encNumber n ++ asc "] Predicted next UID\r\n") (Event.cond (asc "OK") (Code.uidNext n)) := by
  have e : asc "* OK [UIDNEXT " ++ encNumber n ++ asc "] Predicted next UID\r\n" =
      asc "* OK " ++ (91 :: (asc "UIDNEXT" ++ 32 :: (encNumber n ++ 93 :: 32 :: asc "Predicted next UID"))) ++ CRLFb := by
    simp [asc, CRLFb, List.append_assoc]
  rw [e]
  apply codes_cond_of_respText
  intro rest
  have h := select_readRespText_uidnext n hn (asc "Predicted next UID") rest (codes_isText_of _ (by decide))
  simpa [List.append_assoc] using h

/-- a printed flag list starts with its opening parenthesis -/
theorem select_flagList_head (l : List Str) (fl : Str) (h : flagListText l = some fl) : list_Head fl := by
  unfold flagListText at h
  cases ho : optAll (l.map encFlag) with
  | none => rw [ho] at h; cases h
  | some x =>
    rw [ho] at h
    simp only [Option.map_some, Option.some.injEq] at h
    rw [← h]
    exact list_head_encList x

theorem select_dispatch_flags (r r1 r2 : Str) (l : List Str) (h1 : expectSP r = some r1)
    (h2 : decList decFlag r1 = some (l, r2)) :
    dispatchData 0 (asc "FLAGS") r = some (Event.flags l, r2) := by
  simp [dispatchData, asc, h1, h2]

/-- `* FLAGS (flags)` -/
theorem select_flags_line (l : List Str) (fl : Str) (hv : ∀ f ∈ l, RespSpec.validFlag false f = true)
    (hfl : flagListText l = some fl) :
    ReadsAs (asc "* FLAGS " ++ fl ++ CRLFb) (Event.flags (l.map RespSpec.canonFlag)) := by
  constructor
  · simp [asc]
  · intro rest
    obtain ⟨t, h1, h2⟩ := flagList_fidelity false l hv (13 :: 10 :: rest)
    have ht : t = fl := by rw [hfl] at h1; injection h1 with h1; exact h1.symm
    rw [ht] at h2
    have hh : list_Head fl := select_flagList_head l fl hfl
    have e : asc "* FLAGS " ++ fl ++ CRLFb ++ rest = 42 :: 32 :: (asc "FLAGS" ++ 32 :: (fl ++ 13 :: 10 :: rest)) := by
      simp [asc, CRLFb, List.append_assoc]
    rw [e, list_star_name (asc "FLAGS") _ (isName_of _ (by decide)) (StopsAt.cons _ (by decide)),
      select_dispatch_flags _ _ _ _ (list_expectSP _ (hh.append _)) h2, finishLine_crlf]

/-- `* OK [PERMANENTFLAGS (flags)] Permanent flags` (`\*` allowed) -/
theorem select_permflags_line (l : List Str) (pf : Str) (hv : ∀ f ∈ l, RespSpec.validFlag true f = true)
    (hpf : flagListText l = some pf) :
    ReadsAs (asc "* OK [PERMANENTFLAGS " ++ pf ++ asc "] Permanent flags\r\n")
      (Event.cond (asc "OK") (Code.permFlags (l.map RespSpec.canonFlag))) := by
  have e : asc "* OK [PERMANENTFLAGS " ++ pf ++ asc "] Permanent flags\r\n" =
      asc "* OK " ++ (91 :: (asc "PERMANENTFLAGS" ++ 32 :: (pf ++ 93 :: 32 :: asc "Permanent flags"))) ++ CRLFb := by
    simp [asc, CRLFb, List.append_assoc]
  rw [e]
  apply codes_cond_of_respText
  intro rest
  obtain ⟨t, h1, h2⟩ := flagList_fidelity true l hv (93 :: 32 :: (asc "Permanent flags" ++ 13 :: 10 :: rest))
  have ht : t = pf := by rw [hpf] at h1; injection h1 with h1; exact h1.symm
  rw [ht] at h2
  have h := select_readRespText_permflags pf _ (asc "Permanent flags") rest (codes_isText_of _ (by decide))
    (select_flagList_head l pf hpf) h2
  simpa [List.append_assoc] using h

/-- the code of the tagged completion: SELECT opens the mailbox read-write, EXAMINE read-only -/
def select_doneCode (ro : Bool) : Str := asc (if ro then "READ-ONLY" else "READ-WRITE")

/-- `tag OK [READ-WRITE] SELECT completed` / `tag OK [READ-ONLY] EXAMINE completed` -/
theorem select_done_line (tag : Str) (ht : IsTag tag) (ro : Bool) :
    ReadsAs (tag ++ asc " OK " ++ asc (if ro then "[READ-ONLY] EXAMINE completed" else "[READ-WRITE] SELECT completed") ++ CRLFb)
      (Event.done tag (asc "OK") (Code.other (select_doneCode ro))) := by
  cases ro with
  | false =>
    have e : asc (if false = true then "[READ-ONLY] EXAMINE completed" else "[READ-WRITE] SELECT completed") =
        91 :: (asc "READ-WRITE" ++ 93 :: 32 :: asc "SELECT completed") := by decide
    have e2 : select_doneCode false = asc "READ-WRITE" := by decide
    rw [e, e2]
    apply codes_done_of_respText tag _ ht
    intro rest
    have h := select_readRespText_other true (asc "READ-WRITE") (asc "SELECT completed") rest (by decide) (by decide)
      (by decide) (by decide) (by decide) (by decide) (by decide) (by decide) (codes_isText_of _ (by decide))
    simpa [List.append_assoc] using h
  | true =>
    have e : asc (if true = true then "[READ-ONLY] EXAMINE completed" else "[READ-WRITE] SELECT completed") =
        91 :: (asc "READ-ONLY" ++ 93 :: 32 :: asc "EXAMINE completed") := by decide
    have e2 : select_doneCode true = asc "READ-ONLY" := by decide
    rw [e, e2]
    apply codes_done_of_respText tag _ ht
    intro rest
    have h := select_readRespText_other true (asc "READ-ONLY") (asc "EXAMINE completed") rest (by decide) (by decide)
      (by decide) (by decide) (by decide) (by decide) (by decide) (by decide) (codes_isText_of _ (by decide))
    simpa [List.append_assoc] using h

/-! ### the whole response -/

/-- the RECENT line is not written once IMAP4rev2 is enabled -/
def select_recentLines : Bool → List Str
  | true => []
  | false => [asc "* 0 RECENT\r\n"]

def select_recentEvents : Bool → List Event
  | true => []
  | false => [Event.recent 0]

/-- the response as a list of lines; `ll` is the optional LIST line, `dl` the tagged completion -/
def select_lines (rev2 : Bool) (num uv un : Nat) (fl pf : Str) (ll : List Str) (dl : Str) : List Str :=
  [asc "* OK [CLOSED] Previous mailbox is now closed\r\n", star ++ [32] ++ encNumber num ++ asc " EXISTS\r\n"] ++
  select_recentLines rev2 ++
  [asc "* OK [UIDVALIDITY " ++ encNumber uv ++ asc "] UIDs valid\r\n",
   asc "* OK [UIDNEXT " ++ encNumber un ++ asc "] Predicted next UID\r\n",
   asc "* FLAGS " ++ fl ++ CRLFb,
   asc "* OK [PERMANENTFLAGS " ++ pf ++ asc "] Permanent flags\r\n"] ++
  ll ++ [dl]

/-- the events these lines are read as -/
def select_events (rev2 : Bool) (num uv un : Nat) (F P : List Str) (le : List Event) (dn : Event) : List Event :=
  [Event.cond (asc "OK") (Code.other (asc "CLOSED")), Event.exists_ num] ++
  select_recentEvents rev2 ++
  [Event.cond (asc "OK") (Code.uidValidity uv), Event.cond (asc "OK") (Code.uidNext un), Event.flags F,
   Event.cond (asc "OK") (Code.permFlags P)] ++
  le ++ [dn]

theorem select_allRead (rev2 : Bool) (num uv un : Nat) (F P : List Str) (fl pf : Str) (ll : List Str) (le : List Event)
    (dl : Str) (dn : Event) (hnum : num < 4294967296) (huv : uv < 4294967296) (hun : un < 4294967296)
    (hvf : ∀ f ∈ F, RespSpec.validFlag false f = true) (hvp : ∀ f ∈ P, RespSpec.validFlag true f = true)
    (hfl : flagListText F = some fl) (hpf : flagListText P = some pf) (hl : AllRead ll le) (hd : ReadsAs dl dn) :
    AllRead (select_lines rev2 num uv un fl pf ll dl)
      (select_events rev2 num uv un (F.map RespSpec.canonFlag) (P.map RespSpec.canonFlag) le dn) := by
  have h1 : AllRead [asc "* OK [CLOSED] Previous mailbox is now closed\r\n", star ++ [32] ++ encNumber num ++ asc " EXISTS\r\n"]
      [Event.cond (asc "OK") (Code.other (asc "CLOSED")), Event.exists_ num] :=
    AllRead.cons select_closed_line (AllRead.single (select_exists_line num hnum))
  have h2 : AllRead (select_recentLines rev2) (select_recentEvents rev2) := by
    cases rev2
    · exact AllRead.single select_recent_line
    · exact AllRead.nil
  have h3 : AllRead [asc "* OK [UIDVALIDITY " ++ encNumber uv ++ asc "] UIDs valid\r\n",
        asc "* OK [UIDNEXT " ++ encNumber un ++ asc "] Predicted next UID\r\n",
        asc "* FLAGS " ++ fl ++ CRLFb,
        asc "* OK [PERMANENTFLAGS " ++ pf ++ asc "] Permanent flags\r\n"]
      [Event.cond (asc "OK") (Code.uidValidity uv), Event.cond (asc "OK") (Code.uidNext un),
        Event.flags (F.map RespSpec.canonFlag), Event.cond (asc "OK") (Code.permFlags (P.map RespSpec.canonFlag))] :=
    AllRead.cons (select_uidvalidity_line uv huv) (AllRead.cons (select_uidnext_line un hun)
      (AllRead.cons (select_flags_line F fl hvf hfl) (AllRead.single (select_permflags_line P pf hvp hpf))))
  exact AllRead.append (AllRead.append (AllRead.append (AllRead.append h1 h2) h3) hl) (AllRead.single hd)

theorem select_recent_flat (cfg : Cfg) :
    (select_recentLines (decide (cfg = .rev2))).flatten = if cfg = .rev2 then [] else asc "* 0 RECENT\r\n" := by
  by_cases h : cfg = .rev2 <;> simp [h, select_recentLines]

/-- the bytes `printSelect` writes, given the texts of its parts -/
def select_body (cfg : Cfg) (num uv un : Nat) (fl pf li : Str) : Str :=
  asc "* OK [CLOSED] Previous mailbox is now closed\r\n" ++
    star ++ [32] ++ encNumber num ++ asc " EXISTS\r\n" ++
    (if cfg = .rev2 then [] else asc "* 0 RECENT\r\n") ++
    asc "* OK [UIDVALIDITY " ++ encNumber uv ++ asc "] UIDs valid\r\n" ++
    asc "* OK [UIDNEXT " ++ encNumber un ++ asc "] Predicted next UID\r\n" ++
    asc "* FLAGS " ++ fl ++ CRLFb ++
    asc "* OK [PERMANENTFLAGS " ++ pf ++ asc "] Permanent flags\r\n" ++ li

/-- the bytes `printSelect` wrote, then the completion line, are these lines one after the other -/
theorem select_flat (cfg : Cfg) (num uv un : Nat) (fl pf : Str) (ll : List Str) (dl : Str) :
    (select_lines (decide (cfg = .rev2)) num uv un fl pf ll dl).flatten =
      select_body cfg num uv un fl pf ll.flatten ++ dl := by
  unfold select_body
  rw [← select_recent_flat]
  simp [select_lines, List.append_assoc]

/-- routing: every field of the select data comes from its line; the LIST entry is taken when it names the
    requested mailbox -/
theorem select_deliver (mailbox : Str) (rev2 : Bool) (num uv un : Nat) (F P : List Str) (lo : Option ListData)
    (tag typ : Str) (code : Code) (h : ∀ l, lo = some l → sameMailbox mailbox l.mailbox = true) :
    deliverSelect sameMailbox mailbox
      (select_events rev2 num uv un F P (lo.toList.map Event.list) (Event.done tag typ code)) =
      { flags := F, permFlags := P, num := num, uidNext := un, uidValidity := uv, list := lo } := by
  cases lo with
  | none => cases rev2 <;> simp [select_events, select_recentEvents, deliverSelect]
  | some l =>
    have hs := h l rfl
    cases rev2 <;> simp [select_events, select_recentEvents, deliverSelect, hs]

/-- SELECT / EXAMINE fidelity: the data the backend supplied (flags and LIST entry in canonical spelling) is
    what `SelectCommand.Wait` returns -/
theorem select_fidelity (cfg : Cfg) (mailbox : Str) (d : SelectData) (bytes tag : Str) (ro : Bool) (ht : IsTag tag)
    (hwf : RespSpec.wfSelect mailbox d = true)
    (hrange : d.num < 4294967296 ∧ d.uidNext < 4294967296 ∧ d.uidValidity < 4294967296 ∧
      (∀ l, d.list = some l → l.mailbox.length < 4294967296 ∧ l.oldName.length < 4294967296))
    (hp : printSelect cfg d = some bytes) :
    (parseAll (bytes ++ (tag ++ asc " OK " ++ asc (if ro then "[READ-ONLY] EXAMINE completed" else "[READ-WRITE] SELECT completed") ++ CRLFb))).map
      (deliverSelect sameMailbox mailbox) = some (RespSpec.canonSelect d) := by
  unfold printSelect at hp
  simp only [Option.bind_eq_bind, Option.bind_eq_some_iff, Option.pure_def] at hp
  obtain ⟨fl, hfl, pf, hpf, hrest⟩ := hp
  simp only [RespSpec.wfSelect, Bool.and_eq_true, List.all_eq_true] at hwf
  obtain ⟨⟨hvf, hvp⟩, hwl⟩ := hwf
  obtain ⟨hnum, hun, huv, hll⟩ := hrange
  have hlist : ∃ ll, AllRead ll ((d.list.map (RespSpec.canonList none)).toList.map Event.list) ∧
      (∀ l', d.list.map (RespSpec.canonList none) = some l' → sameMailbox mailbox l'.mailbox = true) ∧
      bytes = select_body cfg d.num d.uidValidity d.uidNext fl pf ll.flatten := by
    cases hdl : d.list with
    | none =>
      rw [hdl] at hrest
      simp only [Option.bind_some, Option.some.injEq] at hrest
      exact ⟨[], AllRead.nil, (by intro l' h; cases h), hrest.symm⟩
    | some l =>
      rw [hdl] at hrest hwl
      simp only [Option.bind_eq_some_iff, Option.some.injEq] at hrest
      obtain ⟨li, hli, hb⟩ := hrest
      simp only [Bool.and_eq_true, beq_iff_eq] at hwl
      refine ⟨[li], AllRead.single (list_line _ l li hwl.1 (hll l hdl) hli), ?_, ?_⟩
      · intro l' h
        simp only [Option.map_some, Option.some.injEq] at h
        subst h
        have hm : (RespSpec.canonList none l).mailbox = RespSpec.canonMailbox mailbox := hwl.2
        rw [hm]
        exact status_sameMailbox_canon mailbox
      · rw [← hb]; simp [select_body]
  obtain ⟨ll, hall, hsame, hb⟩ := hlist
  have hlines := select_allRead (decide (cfg = .rev2)) d.num d.uidValidity d.uidNext d.flags d.permFlags fl pf ll _ _ _
    hnum huv hun hvf hvp hfl hpf hall (select_done_line tag ht ro)
  rw [hb, ← select_flat, parseAll_lines _ _ hlines]
  simp only [Option.map_some]
  rw [select_deliver mailbox _ _ _ _ _ _ _ _ _ _ hsame]
  rfl

/-! ### a concrete response -/

/-- three messages, a system flag in a non-canonical spelling and a keyword; `\*` among the permanent flags -/
def select_sample : SelectData :=
  { flags := [asc "\\seen", asc "custom"], permFlags := [asc "\\Deleted", asc "\\*"], num := 3, uidNext := 10, uidValidity := 1,
    list := none }

example : RespSpec.canonSelect select_sample =
    { flags := [asc "\\Seen", asc "custom"], permFlags := [asc "\\Deleted", asc "\\*"], num := 3, uidNext := 10, uidValidity := 1,
      list := none } := by decide +kernel

example : ∃ bytes, printSelect .plain select_sample = some bytes ∧
    (parseAll (bytes ++ (asc "A1" ++ asc " OK " ++ asc (if false then "[READ-ONLY] EXAMINE completed" else "[READ-WRITE] SELECT completed") ++ CRLFb))).map
      (deliverSelect sameMailbox (asc "INBOX")) = some (RespSpec.canonSelect select_sample) :=
  ⟨_, rfl, select_fidelity .plain (asc "INBOX") select_sample _ (asc "A1") false (codes_isTag_of _ (by decide)) (by decide +kernel)
    ⟨by decide, by decide, by decide, by intro l h; simp [select_sample] at h⟩ rfl⟩

end GoImap.Resp
