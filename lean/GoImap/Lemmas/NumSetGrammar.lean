/-
  The Go parser (`parseNum`, `parseNumRange`) against the RFC grammar (`seqNumber`, `seqItem`).
-/
import GoImap.Spec.NumSet
import GoImap.Lemmas.NumSetSplit
import GoImap.Lemmas.NumSetOps
namespace GoImap.NumSet
open GoImap.NumSetSpec

theorem char_nz (c : Char) : (('0' ≤ c ∧ c ≤ '9') ∧ c ≠ '0') ↔ ('1' ≤ c ∧ c ≤ '9') := by
  have h0 : c = '0' ↔ c.toNat = 48 := by
    constructor
    · intro h; subst h; rfl
    · intro h; apply Char.ext; apply UInt32.toNat_inj.1; exact h
  simp only [ne_eq, h0, Char.le_def, UInt32.le_iff_toNat_le]
  show ((48 ≤ c.toNat ∧ c.toNat ≤ 57) ∧ ¬ c.toNat = 48) ↔ (49 ≤ c.toNat ∧ c.toNat ≤ 57)
  omega

theorem nzNumber_cons (c : Char) (rest : List Char) :
    nzNumber (c :: rest) =
      if ('1' ≤ c ∧ c ≤ '9') ∧ rest.all isDigit = true then
        (if valOf (c :: rest) < W then some (valOf (c :: rest)) else none)
      else none := by
  unfold nzNumber
  simp only [Bool.and_eq_true, decide_eq_true_eq]
  rfl

theorem parseNum_cons (c : Char) (rest : List Char) (hs : c :: rest ≠ ['*']) :
    parseNum (c :: rest) =
      if ((('0' ≤ c ∧ c ≤ '9') ∧ c ≠ '0') ∧ rest.all isDigit = true) ∧ valOf (c :: rest) < W then
        some (valOf (c :: rest)) else none := by
  unfold parseNum
  simp only [List.isEmpty_cons, Bool.not_false, Bool.true_and, List.all_cons, List.head?_cons,
    ne_eq, Option.some.injEq, Bool.and_eq_true, decide_eq_true_eq, hs, if_false, isDigit]
  by_cases h1 : ('0' ≤ c ∧ c ≤ '9') <;> by_cases h2 : c = '0' <;>
    by_cases h3 : (rest.all fun c => decide ('0' ≤ c) && decide (c ≤ '9')) = true <;>
    by_cases h4 : valOf (c :: rest) < W <;> simp [h1, h2, h4]

theorem parseNum_eq_seqNumber (v : List Char) : parseNum v = seqNumber v := by
  cases v with
  | nil => rfl
  | cons c rest =>
    by_cases hs : c :: rest = ['*']
    · rw [hs]; decide
    · unfold seqNumber
      rw [if_neg hs, nzNumber_cons, parseNum_cons c rest hs]
      by_cases h1 : ('1' ≤ c ∧ c ≤ '9')
      · have h1' := (char_nz c).2 h1
        by_cases h3 : rest.all isDigit = true
        · by_cases h4 : valOf (c :: rest) < W
          · rw [if_pos ⟨⟨h1', h3⟩, h4⟩, if_pos ⟨h1, h3⟩, if_pos h4]
          · rw [if_neg (fun h => h4 h.2), if_pos ⟨h1, h3⟩, if_neg h4]
        · rw [if_neg (fun h => h3 h.1.2), if_neg (fun h => h3 h.2)]
      · have h1' : ¬ (('0' ≤ c ∧ c ≤ '9') ∧ c ≠ '0') := fun h => h1 ((char_nz c).1 h)
        rw [if_neg (fun h => h1' h.1.1), if_neg (fun h => h1 h.1)]

theorem cutColon_none (l : List Char) (h : cutColon l = none) : ':' ∉ l := by
  induction l with
  | nil => simp
  | cons x xs ih =>
    simp only [cutColon] at h
    by_cases hx : x = ':'
    · simp [hx] at h
    · simp only [hx, if_false] at h
      cases hc : cutColon xs with
      | none =>
        intro hm
        rcases List.mem_cons.1 hm with e | e
        · exact hx e.symm
        · exact ih hc e
      | some p => rw [hc] at h; simp at h

theorem cutColon_some (l a b : List Char) (h : cutColon l = some (a, b)) :
    l = a ++ ':' :: b ∧ ':' ∉ a := by
  induction l generalizing a with
  | nil => simp [cutColon] at h
  | cons x xs ih =>
    simp only [cutColon] at h
    by_cases hx : x = ':'
    · simp only [hx, if_true, Option.some.injEq, Prod.mk.injEq] at h
      obtain ⟨rfl, rfl⟩ := h
      simp [hx]
    · simp only [hx, if_false] at h
      cases hc : cutColon xs with
      | none => rw [hc] at h; simp at h
      | some p =>
        obtain ⟨a', b'⟩ := p
        rw [hc] at h
        simp only [Option.some.injEq, Prod.mk.injEq] at h
        obtain ⟨rfl, rfl⟩ := h
        obtain ⟨e1, e2⟩ := ih a' hc
        refine ⟨by rw [e1]; rfl, ?_⟩
        intro hm
        rcases List.mem_cons.1 hm with e | e
        · exact hx e.symm
        · exact e2 e

theorem parseNum_colon (b : List Char) (h : ':' ∈ b) : parseNum b = none := by
  unfold parseNum
  have h1 : b.all isDigit = false := by
    rw [List.all_eq_false]
    exact ⟨':', h, by decide⟩
  have h2 : b ≠ ['*'] := by
    intro e; rw [e] at h; revert h; decide
  simp [h1, h2]

theorem parseNum_lt (v : List Char) (x : Nat) (h : parseNum v = some x) : x < W := by
  unfold parseNum at h
  split at h
  · rename_i hc
    simp only [Bool.and_eq_true, decide_eq_true_eq] at hc
    cases h
    exact hc.1.2
  · split at h
    · cases h; decide
    · cases h

theorem normRange_self (n : Nat) : normRange n n = ⟨n, n⟩ := by
  rcases normRange_cases n n with ⟨_, e⟩ | ⟨_, e⟩ <;> exact e

theorem parseNumRange_pair (cs a b : List Char) (hc : cutColon cs = some (a, b)) :
    parseNumRange cs =
      match parseNum a, parseNum b with
      | some x, some y => some (normRange x y)
      | _, _ => none := by
  unfold parseNumRange normRange
  rw [hc]
  simp only []
  cases parseNum a with
  | none => rfl
  | some x =>
    cases parseNum b with
    | none => rfl
    | some y => simp only []; split <;> rfl

theorem seqItem_spec (cs : List Char) :
    (seqItem cs = none → parseNumRange cs = none) ∧
    (∀ x y, seqItem cs = some (x, y) →
      parseNumRange cs = some (normRange x y) ∧ x < W ∧ y < W) := by
  cases hc : cutColon cs with
  | none =>
    have hs := splitOn_not_mem ':' cs (cutColon_none cs hc)
    have e1 : seqItem cs = (seqNumber cs).map fun n => (n, n) := by
      unfold seqItem; rw [hs]
    have e2 : parseNumRange cs = (parseNum cs).map fun n => ⟨n, n⟩ := by
      unfold parseNumRange; rw [hc]
    rw [e1, e2, parseNum_eq_seqNumber]
    cases hn : seqNumber cs with
    | none => simp
    | some n =>
      have hlt := parseNum_lt cs n (by rw [parseNum_eq_seqNumber]; exact hn)
      refine ⟨by simp, ?_⟩
      intro x y h
      simp only [Option.map_some, Option.some.injEq, Prod.mk.injEq] at h
      obtain ⟨rfl, rfl⟩ := h
      exact ⟨by simp [normRange_self], hlt, hlt⟩
  | some p =>
    obtain ⟨a, b⟩ := p
    obtain ⟨ecs, ha⟩ := cutColon_some cs a b hc
    have hs : splitOn ':' cs = a :: splitOn ':' b := by rw [ecs]; exact splitOn_append ':' a b ha
    rw [parseNumRange_pair cs a b hc]
    cases hb : cutColon b with
    | none =>
      have hsb := splitOn_not_mem ':' b (cutColon_none b hb)
      have e1 : seqItem cs = match seqNumber a, seqNumber b with
          | some x, some y => some (x, y)
          | _, _ => none := by
        unfold seqItem; rw [hs, hsb]
        rfl
      rw [e1, parseNum_eq_seqNumber a, parseNum_eq_seqNumber b]
      cases hx : seqNumber a with
      | none => simp
      | some x =>
        cases hy : seqNumber b with
        | none => simp
        | some y =>
          have hxl := parseNum_lt a x (by rw [parseNum_eq_seqNumber]; exact hx)
          have hyl := parseNum_lt b y (by rw [parseNum_eq_seqNumber]; exact hy)
          refine ⟨by simp, ?_⟩
          intro x' y' h
          simp only [Option.some.injEq, Prod.mk.injEq] at h
          obtain ⟨rfl, rfl⟩ := h
          exact ⟨rfl, hxl, hyl⟩
    | some p2 =>
      obtain ⟨b1, b2⟩ := p2
      obtain ⟨eb, hb1⟩ := cutColon_some b b1 b2 hb
      have hsb : splitOn ':' b = b1 :: splitOn ':' b2 := by
        rw [eb]; exact splitOn_append ':' b1 b2 hb1
      have e1 : seqItem cs = none := by
        unfold seqItem; rw [hs, hsb]
        cases h2 : splitOn ':' b2 with
        | nil => exact absurd h2 (splitOn_ne_nil _ _)
        | cons u us => rfl
      have e2 : parseNum b = none := parseNum_colon b (by rw [eb]; simp)
      rw [e1, e2]
      refine ⟨?_, by intro x y h; cases h⟩
      intro _
      cases parseNum a <;> rfl

end GoImap.NumSet
