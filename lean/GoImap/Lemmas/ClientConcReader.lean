import GoImap.Lemmas.ClientConcSend
/-!
  C13: the reader goroutine. Its program only ever contains reader and completion instructions,
  it ends with the loop marker (`connRead` / `rdNext`) or, once the connection is closed, with
  `rdExit`; when it is empty `decCh` has been closed. In the repaired model none of its
  instructions can block once the connection is closed: the reader always reaches `close(decCh)`.
-/
namespace GoImap.ClientConc

def rdInstr : Instr → Bool
  | .connRead | .rdNext | .delByTag .. | .popCont | .contDone _ | .enabledW | .findByType | .rdExit => true
  | .encUnlock => false
  | i => cls i

/-- connection closed / decCh closed never revert -/
def monoView (s : St) : Bool × Bool := (s.connClosed, s.decClosed)

structure RdInv (s : St) : Prop where
  rs : ∀ i, i ∈ s.prog tReader → rdInstr i = true
  last : match (s.prog tReader).getLast? with
    | none => s.decClosed = true ∧ s.connClosed = true
    | some i => i = .connRead ∨ i = .rdNext ∨ (i = .rdExit ∧ s.connClosed = true)

theorem getLast?_append_ne_nil (p q : List Instr) (h : q ≠ []) : (p ++ q).getLast? = q.getLast? := by
  induction p with
  | nil => rfl
  | cons i p ih =>
    rw [List.cons_append, List.getLast?_cons_of_ne_nil]
    · exact ih
    · intro e; exact h (List.append_eq_nil_iff.mp e).2

theorem rdInstr_complete (k : Kind) (c : Nat) (r : Res) : ∀ i, i ∈ complete k c r → rdInstr i = true := by
  intro i hi
  unfold complete at hi
  cases k <;> cases r <;> simp at hi <;> (rcases hi with h | h | h | h <;> (try subst h) <;> rfl)

theorem rdInstr_handler (l : Line) : ∀ i, i ∈ handler l ++ [Instr.rdNext] → rdInstr i = true := by
  intro i hi
  cases l <;> simp [handler] at hi <;> (rcases hi with h | h | h <;> (try subst h) <;> rfl)

theorem rdInv_of_push {s s' : St} (h : RdInv s) (i : Instr) (rest P : List Instr)
    (hs : s.prog tReader = i :: rest) (hne : rest ≠ [])
    (hp : s'.prog tReader = P ++ rest) (hP : ∀ j, j ∈ P → rdInstr j = true)
    (hc : s.connClosed = true → s'.connClosed = true) : RdInv s' := by
  constructor
  · intro j hj
    rw [hp, List.mem_append] at hj
    rcases hj with hj | hj
    · exact hP j hj
    · exact h.rs j (by rw [hs]; exact List.mem_cons_of_mem _ hj)
  · have hl := h.last
    rw [hs, List.getLast?_cons_of_ne_nil hne] at hl
    rw [hp, getLast?_append_ne_nil P rest hne]
    split
    · rename_i e; rw [e] at hl; exact absurd (List.getLast?_eq_none_iff.mp e) hne
    · rename_i j e
      rw [e] at hl
      rcases hl with a | a | ⟨a, b⟩
      · exact Or.inl a
      · exact Or.inr (Or.inl a)
      · exact Or.inr (Or.inr ⟨a, hc b⟩)

/-- the rest of the reader's program is not empty unless the head is a loop marker or `rdExit` -/
theorem rd_rest_ne_nil {s : St} (h : RdInv s) (i : Instr) (rest : List Instr)
    (hs : s.prog tReader = i :: rest) (h1 : i ≠ .connRead) (h2 : i ≠ .rdNext) (h3 : i ≠ .rdExit) : rest ≠ [] := by
  intro e
  have hl := h.last
  rw [hs, e] at hl
  simp only [List.getLast?_singleton] at hl
  rcases hl with a | a | ⟨a, _⟩
  · exact h1 a
  · exact h2 a
  · exact h3 a

theorem rdInv_same {s s' : St} (h : RdInv s) (hp : s'.prog tReader = s.prog tReader)
    (hc : s.connClosed = true → s'.connClosed = true) (hd : s.decClosed = true → s'.decClosed = true) : RdInv s' := by
  constructor
  · rw [hp]; exact h.rs
  · have hl := h.last
    rw [hp]
    split
    · rename_i e; rw [e] at hl; exact ⟨hd hl.1, hc hl.2⟩
    · rename_i j e; rw [e] at hl
      rcases hl with a | a | ⟨a, b⟩
      · exact Or.inl a
      · exact Or.inr (Or.inl a)
      · exact Or.inr (Or.inr ⟨a, hc b⟩)

theorem foldl_setCont2_conn (ks : List (Nat × Nat)) (x : ContSt) (s : St) :
    (ks.foldl (fun acc kc => acc.setCont kc.1 x) s).connClosed = s.connClosed ∧
    (ks.foldl (fun acc kc => acc.setCont kc.1 x) s).decClosed = s.decClosed := by
  induction ks generalizing s with
  | nil => exact ⟨rfl, rfl⟩
  | cons k ks ih => simp only [List.foldl]; exact ih _

theorem foldl_setCont_conn (ks : List Nat) (s : St) :
    (ks.foldl (fun acc k => acc.setCont k .cancelled) s).connClosed = s.connClosed ∧
    (ks.foldl (fun acc k => acc.setCont k .cancelled) s).decClosed = s.decClosed := by
  induction ks generalizing s with
  | nil => exact ⟨rfl, rfl⟩
  | cons k ks ih => simp only [List.foldl]; exact ih _

/-- the reader's program has just been replaced by `readerExit` and the connection closed -/
theorem rdInv_exit (s' : St) (hp : s'.prog tReader = readerExit) (hc : s'.connClosed = true) : RdInv s' := by
  constructor
  · intro j hj
    rw [hp] at hj
    simp only [readerExit, List.mem_cons, List.mem_nil_iff, or_false] at hj
    rcases hj with e | e <;> rw [e] <;> rfl
  · rw [hp]
    show (match [Instr.closeSwap, Instr.rdExit].getLast? with
      | none => s'.decClosed = true ∧ s'.connClosed = true
      | some i => i = .connRead ∨ i = .rdNext ∨ (i = .rdExit ∧ s'.connClosed = true))
    simp [hc]

theorem rdInv_single (s' : St) (i : Instr) (hp : s'.prog tReader = [i]) (hi : i = .connRead ∨ i = .rdNext) :
    RdInv s' := by
  constructor
  · intro j hj
    rw [hp, List.mem_singleton] at hj
    rcases hi with e | e <;> rw [hj, e] <;> rfl
  · rw [hp, List.getLast?_singleton]
    rcases hi with e | e
    · exact Or.inl e
    · exact Or.inr (Or.inl e)

/-- a step of the reader thread itself -/
theorem rdInv_exec_self (v : Variant) (s : St) (i : Instr) (rest : List Instr)
    (hs : s.prog tReader = i :: rest) (h : RdInv s) : RdInv (exec v s tReader i rest) := by
  have hi : rdInstr i = true := h.rs i (by rw [hs]; exact List.mem_cons_self)
  cases i <;> simp [rdInstr, cls] at hi
  case connRead =>
    simp only [exec, flushBody]
    split
    · exact rdInv_single _ _ (by rw [setProg_prog, if_pos rfl]) (Or.inr rfl)
    · split
      · exact rdInv_exit _ (by rw [setProg_prog, if_pos rfl]) rfl
      · split
        · exact rdInv_exit _ (by rw [setProg_prog, if_pos rfl]) rfl
        · exact h
  case rdNext =>
    simp only [exec, flushBody]
    split
    · exact rdInv_single _ _ (by rw [setProg_prog, if_pos rfl]) (Or.inl rfl)
    · rename_i l more _
      constructor
      · intro j hj
        rw [setProg_prog, if_pos rfl] at hj
        exact rdInstr_handler l j hj
      · rw [setProg_prog, if_pos rfl, getLast?_append_ne_nil _ _ (by simp), List.getLast?_singleton]
        exact Or.inr (Or.inl rfl)
  case rdExit =>
    simp only [exec, flushBody]
    by_cases hr : rest = []
    · subst hr
      have hl := h.last
      rw [hs] at hl
      simp only [List.getLast?_singleton] at hl
      have hc : s.connClosed = true := by
        rcases hl with a | a | ⟨_, b⟩
        · cases a
        · cases a
        · exact b
      constructor
      · intro j hj
        rw [setProg_prog, if_pos rfl] at hj
        cases hj
      · rw [setProg_prog, if_pos rfl]
        exact ⟨rfl, hc⟩
    · exact rdInv_of_push h _ rest [] hs hr (by rw [setProg_prog, if_pos rfl]; rfl)
        (fun j hj => by cases hj) (fun x => x)
  case delByTag tag rep caps =>
    have hne := rd_rest_ne_nil h _ rest hs (by simp) (by simp) (by simp)
    simp only [exec, flushBody]
    split
    · exact rdInv_exit _ (by rw [setProg_prog, if_pos rfl]) rfl
    · refine rdInv_of_push h _ rest _ hs hne (by rw [setProg_prog, if_pos rfl]) ?_ (fun x => x)
      intro j hj
      rw [List.mem_append] at hj
      rcases hj with hj | hj
      · split at hj
        · rw [List.mem_singleton] at hj; rw [hj]; rfl
        · cases hj
      · exact rdInstr_complete _ _ _ j hj
  case popCont =>
    have hne := rd_rest_ne_nil h _ rest hs (by simp) (by simp) (by simp)
    simp only [exec, flushBody]
    split
    · exact rdInv_exit _ (by rw [setProg_prog, if_pos rfl]) rfl
    · rename_i k c more _
      exact rdInv_of_push h _ rest [Instr.contDone k] hs hne (by rw [setProg_prog, if_pos rfl]; rfl)
        (fun j hj => by rw [List.mem_singleton] at hj; rw [hj]; rfl) (fun x => x)
  case closeSwap =>
    have hne := rd_rest_ne_nil h _ rest hs (by simp) (by simp) (by simp)
    simp only [exec, flushBody]
    split
    · refine rdInv_of_push h _ rest
        (s.pending.flatMap (fun c => complete (s.cmd c).kind c .err) ++ [Instr.cancelOrphans (s.contReqs.map Prod.fst)])
        hs hne (by rw [setProg_prog, if_pos rfl, List.append_assoc]; rfl) ?_ (fun x => x)
      intro j hj
      rw [List.mem_append] at hj
      rcases hj with hj | hj
      · rw [List.mem_flatMap] at hj
        obtain ⟨c, _, hc⟩ := hj
        exact rdInstr_complete _ _ _ j hc
      · rw [List.mem_singleton] at hj; rw [hj]; rfl
    · refine rdInv_of_push h _ rest (s.pending.flatMap (fun c => complete (s.cmd c).kind c .err))
        hs hne (by rw [setProg_prog, if_pos rfl]) ?_ (fun x => x)
      intro j hj
      rw [List.mem_flatMap] at hj
      obtain ⟨c, _, hc⟩ := hj
      exact rdInstr_complete _ _ _ j hc
  case loadDone c r =>
    have hne := rd_rest_ne_nil h _ rest hs (by simp) (by simp) (by simp)
    simp only [exec, flushBody]
    exact rdInv_of_push h _ rest [Instr.send c r (s.cmd c).chanInit] hs hne (by rw [setProg_prog, if_pos rfl]; rfl)
      (fun j hj => by rw [List.mem_singleton] at hj; rw [hj]; rfl) (fun x => x)
  case cancelConts c r =>
    have hne := rd_rest_ne_nil h _ rest hs (by simp) (by simp) (by simp)
    simp only [exec, flushBody]
    refine rdInv_of_push h _ rest [] hs hne (by rw [setProg_prog, if_pos rfl]; rfl)
      (fun j hj => by cases hj) (fun x => ?_)
    have e : ∀ (z : St) f, ((z.updCmd c f).setProg tReader rest).connClosed = z.connClosed := fun _ _ => rfl
    rw [e, (foldl_setCont2_conn _ _ _).1]; exact x
  case cancelOrphans ks =>
    have hne := rd_rest_ne_nil h _ rest hs (by simp) (by simp) (by simp)
    simp only [exec, flushBody]
    refine rdInv_of_push h _ rest [] hs hne (by rw [setProg_prog, if_pos rfl]; rfl)
      (fun j hj => by cases hj) (fun x => ?_)
    have e : ∀ (z : St), (z.setProg tReader rest).connClosed = z.connClosed := fun _ => rfl
    rw [e, (foldl_setCont_conn _ _).1]; exact x
  all_goals
    have hne := rd_rest_ne_nil h _ rest hs (by simp) (by simp) (by simp)
    simp only [exec, flushBody]
    repeat' split
    all_goals
      first
        | exact h
        | exact rdInv_same h rfl (fun x => x) (fun x => x)
        | exact rdInv_of_push h _ rest [] hs hne (by rw [setProg_prog, if_pos rfl]; rfl)
            (fun j hj => by cases hj) (fun x => x)

theorem exec_connClosed (v : Variant) (s : St) (t : Nat) (i : Instr) (rest : List Instr)
    (h : s.connClosed = true) : (exec v s t i rest).connClosed = true := by
  cases i
  case srv a =>
    simp only [exec, flushBody]
    split
    · exact h
    · cases a <;> simp only [execSrv]
      case reply rep oldest =>
        split
        · exact h
        · show (deliver s _).connClosed = true; unfold deliver; split <;> exact h
      case cont =>
        split
        · exact h
        · show (deliver s _).connClosed = true; unfold deliver; split <;> exact h
      case enabled => show (deliver s _).connClosed = true; unfold deliver; split <;> exact h
      case close => exact h
      case rerr => exact h
  case cancelConts c r =>
    simp only [exec, flushBody]
    have e : ∀ (z : St) f, ((z.updCmd c f).setProg t rest).connClosed = z.connClosed := fun _ _ => rfl
    rw [e, (foldl_setCont2_conn _ _ _).1]; exact h
  case cancelOrphans ks =>
    simp only [exec, flushBody]
    have e : ∀ (z : St), (z.setProg t rest).connClosed = z.connClosed := fun _ => rfl
    rw [e, (foldl_setCont_conn _ _).1]; exact h
  all_goals
    simp only [exec, flushBody]
    repeat' split
    all_goals first | exact h | rfl

theorem exec_decClosed (v : Variant) (s : St) (t : Nat) (i : Instr) (rest : List Instr)
    (h : s.decClosed = true) : (exec v s t i rest).decClosed = true := by
  cases i
  case srv a =>
    simp only [exec, flushBody]
    split
    · exact h
    · cases a <;> simp only [execSrv]
      case reply rep oldest =>
        split
        · exact h
        · show (deliver s _).decClosed = true; unfold deliver; split <;> exact h
      case cont =>
        split
        · exact h
        · show (deliver s _).decClosed = true; unfold deliver; split <;> exact h
      case enabled => show (deliver s _).decClosed = true; unfold deliver; split <;> exact h
      case close => exact h
      case rerr => exact h
  case cancelConts c r =>
    simp only [exec, flushBody]
    have e : ∀ (z : St) f, ((z.updCmd c f).setProg t rest).decClosed = z.decClosed := fun _ _ => rfl
    rw [e, (foldl_setCont2_conn _ _ _).2]; exact h
  case cancelOrphans ks =>
    simp only [exec, flushBody]
    have e : ∀ (z : St), (z.setProg t rest).decClosed = z.decClosed := fun _ => rfl
    rw [e, (foldl_setCont_conn _ _).2]; exact h
  all_goals
    simp only [exec, flushBody]
    repeat' split
    all_goals first | exact h | rfl

/-- the program of a thread other than `t` and other than the supervisor spawned by `t` is untouched -/
theorem exec_prog_other' (v : Variant) (s : St) (t u : Nat) (i : Instr) (rest : List Instr)
    (hu : u ≠ t) (hu2 : u ≠ idleTid t) : (exec v s t i rest).prog u = s.prog u := by
  by_cases hi : ∃ c, i = .idleGo c
  · obtain ⟨c, rfl⟩ := hi
    simp only [exec, flushBody]
    split
    · rfl
    · rw [setProg_prog, if_neg hu2, setProg_prog, if_neg hu]
  · exact exec_prog_other v s t u i rest hu (fun c e => hi ⟨c, e⟩)

theorem rdInv_step (v : Variant) (s : St) (t : Nat) (h : RdInv s) : RdInv (step v s t) := by
  unfold step
  split
  · exact h
  · split
    · split
      · -- the select of Caps(): not an instruction of the reader
        unfold skipCaps
        split
        · rename_i record rest hs
          split
          · by_cases ht : t - 100 = tReader
            · rw [ht] at hs
              have := h.rs Instr.capsSel (by rw [hs]; exact List.mem_cons_self)
              simp [rdInstr, cls] at this
            · refine rdInv_same h ?_ (fun x => ?_) (fun x => ?_)
              · rw [setProg_prog, if_neg (fun e => ht e.symm)]; split <;> rfl
              · show (St.setProg _ _ _).connClosed = true; rw [show ∀ (z : St) a b, (z.setProg a b).connClosed = z.connClosed from fun _ _ _ => rfl]; split <;> exact x
              · show (St.setProg _ _ _).decClosed = true; rw [show ∀ (z : St) a b, (z.setProg a b).decClosed = z.decClosed from fun _ _ _ => rfl]; split <;> exact x
          · exact h
        · exact h
      · exact h
    · split
      · exact h
      · split
        · exact h
        · rename_i i rest hs
          by_cases ht : t = tReader
          · subst ht; exact rdInv_exec_self v s i rest hs h
          · refine rdInv_same h (exec_prog_other' v s t tReader i rest (fun e => ht e.symm) ?_)
              (exec_connClosed v s t i rest) (exec_decClosed v s t i rest)
            simp [tReader, idleTid]

theorem rdInv_run (v : Variant) (sched : List Nat) (s : St) (h : RdInv s) : RdInv (run v s sched) := by
  induction sched generalizing s with
  | nil => exact h
  | cons t ts ih => exact ih (step v s t) (rdInv_step v s t h)

theorem rdInv_init (v : Variant) (sc : Scenario) : RdInv (init v sc) := by
  have hp : (init v sc).prog tReader = [Instr.connRead] := by simp [init]
  exact rdInv_single _ _ hp (Or.inl rfl)

/-! ### the closer thread -/

structure CloserInv (s : St) : Prop where
  instrs : ∀ i, i ∈ s.prog tCloser → i = .closeBegin ∨ i = .closeJoin
  begun : s.closedFlag = true ∨ (s.prog tCloser).head? ≠ some .closeJoin
  closed : s.closedFlag = true → s.connClosed = true

theorem foldl_setCont2_flag (ks : List (Nat × Nat)) (x : ContSt) (s : St) :
    (ks.foldl (fun acc kc => acc.setCont kc.1 x) s).closedFlag = s.closedFlag := by
  induction ks generalizing s with
  | nil => rfl
  | cons k ks ih => simp only [List.foldl]; exact ih _

theorem foldl_setCont_flag (ks : List Nat) (s : St) :
    (ks.foldl (fun acc k => acc.setCont k .cancelled) s).closedFlag = s.closedFlag := by
  induction ks generalizing s with
  | nil => rfl
  | cons k ks ih => simp only [List.foldl]; exact ih _

/-- `closedFlag` is only ever set, and only by `closeBegin` -/
theorem exec_closedFlag (v : Variant) (s : St) (t : Nat) (i : Instr) (rest : List Instr)
    (hi : i ≠ .closeBegin) : (exec v s t i rest).closedFlag = s.closedFlag := by
  cases i
  case closeBegin => exact absurd rfl hi
  case srv a =>
    simp only [exec, flushBody]
    split
    · rfl
    · cases a <;> simp only [execSrv]
      case reply rep oldest =>
        split
        · rfl
        · show (deliver s _).closedFlag = _; unfold deliver; split <;> rfl
      case cont =>
        split
        · rfl
        · show (deliver s _).closedFlag = _; unfold deliver; split <;> rfl
      case enabled => show (deliver s _).closedFlag = _; unfold deliver; split <;> rfl
      case close => rfl
      case rerr => rfl
  case cancelConts c r =>
    simp only [exec, flushBody]
    have e : ∀ (z : St) f, ((z.updCmd c f).setProg t rest).closedFlag = z.closedFlag := fun _ _ => rfl
    rw [e, foldl_setCont2_flag]
  case cancelOrphans ks =>
    simp only [exec, flushBody]
    have e : ∀ (z : St), (z.setProg t rest).closedFlag = z.closedFlag := fun _ => rfl
    rw [e, foldl_setCont_flag]
  all_goals
    simp only [exec, flushBody]
    repeat' split
    all_goals rfl

theorem closerInv_exec (v : Variant) (s : St) (t : Nat) (i : Instr) (rest : List Instr)
    (hs : s.prog t = i :: rest) (h : CloserInv s) : CloserInv (exec v s t i rest) := by
  by_cases ht : t = tCloser
  · subst ht
    have hi := h.instrs i (by rw [hs]; exact List.mem_cons_self)
    have hrest : ∀ j, j ∈ rest → j = .closeBegin ∨ j = .closeJoin :=
      fun j hj => h.instrs j (by rw [hs]; exact List.mem_cons_of_mem _ hj)
    rcases hi with e | e
    · subst e
      simp only [exec, flushBody]
      exact ⟨fun j hj => by rw [setProg_prog, if_pos rfl] at hj; exact hrest j hj, Or.inl rfl, fun _ => rfl⟩
    · subst e
      simp only [exec, flushBody]
      split
      · have hb : s.closedFlag = true := by
          rcases h.begun with b | b
          · exact b
          · rw [hs] at b; exact absurd rfl b
        exact ⟨fun j hj => by rw [setProg_prog, if_pos rfl] at hj; exact hrest j hj, Or.inl hb, fun _ => h.closed hb⟩
      · exact h
  · have hprog : (exec v s t i rest).prog tCloser = s.prog tCloser :=
      exec_prog_other' v s t tCloser i rest (fun e => ht e.symm) (by simp [tCloser, idleTid])
    by_cases hcb : i = .closeBegin
    · subst hcb
      simp only [exec, flushBody]
      exact ⟨fun j hj => by rw [setProg_prog, if_neg (fun e => ht e.symm)] at hj; exact h.instrs j hj,
        Or.inl rfl, fun _ => rfl⟩
    · have hf := exec_closedFlag v s t i rest hcb
      refine ⟨fun j hj => by rw [hprog] at hj; exact h.instrs j hj, ?_, fun hx => ?_⟩
      · rw [hf, hprog]; exact h.begun
      · rw [hf] at hx; exact exec_connClosed v s t i rest (h.closed hx)

theorem closerInv_step (v : Variant) (s : St) (t : Nat) (h : CloserInv s) : CloserInv (step v s t) := by
  unfold step
  split
  · exact h
  · split
    · split
      · unfold skipCaps
        split
        · rename_i record rest hs
          split
          · by_cases ht : t - 100 = tCloser
            · rw [ht] at hs
              have := h.instrs Instr.capsSel (by rw [hs]; exact List.mem_cons_self)
              simp at this
            · have hp : ∀ z : St, (z.setProg (t - 100) rest).prog tCloser = z.prog tCloser :=
                fun z => by rw [setProg_prog, if_neg (fun e => ht e.symm)]
              refine ⟨fun j hj => ?_, ?_, fun hx => ?_⟩
              · rw [hp] at hj; exact h.instrs j (by split at hj <;> exact hj)
              · rw [hp]
                have := h.begun
                split <;> exact this
              · have hc := h.closed
                split at hx <;> (split <;> exact hc hx)
          · exact h
        · exact h
      · exact h
    · split
      · exact h
      · split
        · exact h
        · rename_i i rest hs
          exact closerInv_exec v s t i rest hs h

theorem closerInv_run (v : Variant) (sched : List Nat) (s : St) (h : CloserInv s) : CloserInv (run v s sched) := by
  induction sched generalizing s with
  | nil => exact h
  | cons t ts ih => exact ih (step v s t) (closerInv_step v s t h)

theorem closerProg_instrs (n : Nat) : ∀ i, i ∈ closerProg n → i = .closeBegin ∨ i = .closeJoin := by
  induction n with
  | zero => intro i hi; cases hi
  | succ n ih =>
    intro i hi
    simp only [closerProg, List.mem_cons] at hi
    rcases hi with e | e | e
    · exact Or.inl e
    · exact Or.inr e
    · exact ih i e

theorem closerInv_init (v : Variant) (sc : Scenario) : CloserInv (init v sc) := by
  have hp : (init v sc).prog tCloser = closerProg sc.closes := by simp [init, tCloser, tReader, tServer]
  refine ⟨fun i hi => closerProg_instrs sc.closes i (by rw [hp] at hi; exact hi), Or.inr ?_, fun hx => ?_⟩
  · rw [hp]; cases sc.closes <;> simp [closerProg]
  · simp [init] at hx

/-! ### progress: after the connection has been closed the reader is never blocked -/

theorem reader_enabled (v : Variant) (s : St) (hr : RdInv s) (hsend : SendInv s) (ho : Once s)
    (hcr : s.crashed = false) (hc : s.connClosed = true) (hne : s.prog tReader ≠ []) :
    enabled v s tReader = true := by
  match hp : s.prog tReader with
  | [] => exact absurd hp hne
  | i :: rest =>
    have hi : rdInstr i = true := hr.rs i (by rw [hp]; exact List.mem_cons_self)
    unfold enabled
    simp only [hcr, Bool.false_eq_true, if_false, tReader, maxThreads]
    have hp' : s.prog 0 = i :: rest := hp
    rw [hp']
    cases i <;> simp [rdInstr, cls] at hi <;> (try (simp; done))
    case connRead => simp [hc]
    case send c r b =>
      have hok := hsend.ok tReader
      rw [hp] at hok
      simp only [sendOK, List.all_cons, Bool.and_eq_true] at hok
      have ht : 1 ≤ toks c (s.prog tReader) := by rw [hp, toks_cons]; simp [isTok]
      have h0 := (ho.tok c tReader ht).1
      simp [hok.1, h0]

theorem closer_enabled (v : Variant) (s : St) (hcl : CloserInv s) (hcr : s.crashed = false)
    (hne : s.prog tCloser ≠ []) (hd : s.decClosed = true ∨ (s.prog tCloser).head? = some .closeBegin) :
    enabled v s tCloser = true := by
  match hp : s.prog tCloser with
  | [] => exact absurd hp hne
  | i :: rest =>
    have hi := hcl.instrs i (by rw [hp]; exact List.mem_cons_self)
    unfold enabled
    simp only [hcr, Bool.false_eq_true, if_false, tCloser, maxThreads]
    have hp' : s.prog 2 = i :: rest := hp
    rw [hp']
    rcases hi with e | e
    · subst e; simp
    · subst e
      rcases hd with d | d
      · simp [d]
      · rw [hp] at d; simp at d

end GoImap.ClientConc
