/- C16: the RFC-style bit-stream segment decoder `specSeg` agrees with the Go-mirroring
   `decodeSeg` (base64 by 4-character groups, then UTF-16BE). -/
import GoImap.Lemmas.Utf7Basic
import GoImap.Spec.Utf7
import Mathlib.Tactic.SplitIfs
namespace GoImap.Utf7Lemmas
open GoImap.Utf7 GoImap.Utf7Spec

/-! ### alphabet: `sextet?` is `b64val` -/

theorem sextet_eq_fin : ∀ c : Fin 128, sextet? c.val = b64val c.val := by decide +kernel

theorem sextet_eq (c : Nat) : sextet? c = b64val c := by
  by_cases h : c < 128
  · exact sextet_eq_fin ⟨c, h⟩
  · have h1 : sextet? c = none := by
      unfold sextet?
      split_ifs <;> first | rfl | omega
    have h2 : b64val c = none := by
      apply b64val_nonprintable
      simp only [printable, Bool.and_eq_false_imp, decide_eq_true_eq, decide_eq_false_iff_not]
      omega
    rw [h1, h2]

/-! ### `mapM` on `Option` -/

theorem mapM_none {f : Nat → Option Nat} : ∀ (l : List Nat), l.mapM f = none → ∃ c ∈ l, f c = none
  | [], h => by simp at h
  | c :: l, h => by
    cases hc : f c with
    | none => exact ⟨c, by simp, hc⟩
    | some s =>
      cases hl : l.mapM f with
      | none =>
        obtain ⟨d, hd, hf⟩ := mapM_none l hl
        exact ⟨d, by simp [hd], hf⟩
      | some sx => simp [List.mapM_cons, hc, hl] at h

theorem mapM_some {f : Nat → Option Nat} : ∀ (l sx : List Nat), l.mapM f = some sx →
    (∀ c ∈ l, f c ≠ none) ∧ (∀ s ∈ sx, ∃ c, f c = some s)
  | [], sx, h => by
    simp at h
    subst h
    simp
  | c :: l, sx, h => by
    cases hc : f c with
    | none => simp [List.mapM_cons, hc] at h
    | some s =>
      cases hl : l.mapM f with
      | none => simp [List.mapM_cons, hc, hl] at h
      | some sx' =>
        have ih := mapM_some l sx' hl
        simp [List.mapM_cons, hc, hl] at h
        subst h
        constructor
        · intro d hd
          simp only [List.mem_cons] at hd
          rcases hd with rfl | hd
          · rw [hc]; simp
          · exact ih.1 d hd
        · intro t ht
          simp only [List.mem_cons] at ht
          rcases ht with rfl | ht
          · exact ⟨c, hc⟩
          · exact ih.2 t ht

/-! ### base64 groups on sextets -/

/-- `b64dec` after the alphabet lookup -/
def grp : List Nat → Option BytesN
  | s0 :: s1 :: s2 :: s3 :: r => do
    let t ← grp r
    pure ((s0 * 4 + s1 / 16) :: ((s1 % 16) * 16 + s2 / 4) :: ((s2 % 4) * 64 + s3) :: t)
  | [s0, s1, s2] => some [s0 * 4 + s1 / 16, (s1 % 16) * 16 + s2 / 4]
  | [s0, s1] => some [s0 * 4 + s1 / 16]
  | [_] => none
  | [] => some []

theorem b64dec_eq_grp : ∀ seg : BytesN, b64dec seg = (seg.mapM b64val).bind grp
  | [] => by simp [b64dec, grp]
  | [c0] => by cases h0 : b64val c0 <;> simp [b64dec, grp, h0]
  | [c0, c1] => by
    cases h0 : b64val c0 <;> cases h1 : b64val c1 <;> simp [b64dec, grp, h0, h1]
  | [c0, c1, c2] => by
    cases h0 : b64val c0 <;> cases h1 : b64val c1 <;> cases h2 : b64val c2 <;>
      simp [b64dec, grp, h0, h1, h2]
  | c0 :: c1 :: c2 :: c3 :: r => by
    have ih := b64dec_eq_grp r
    cases h0 : b64val c0 <;> cases h1 : b64val c1 <;> cases h2 : b64val c2 <;>
      cases h3 : b64val c3 <;> cases hr : r.mapM b64val <;>
      simp [b64dec, grp, h0, h1, h2, h3, hr, ih]

theorem grp_none : ∀ sx : List Nat, grp sx = none → sx.length % 4 = 1
  | [], h => by simp [grp] at h
  | [_], _ => by simp
  | [_, _], h => by simp [grp] at h
  | [_, _, _], h => by simp [grp] at h
  | _ :: _ :: _ :: _ :: r, h => by
    cases hr : grp r with
    | none =>
      have := grp_none r hr
      simp only [List.length_cons]; omega
    | some t => simp [grp, hr] at h

/-! ### bits -/

theorem bitsOf_length : ∀ (n v : Nat), (bitsOf n v).length = n
  | 0, _ => rfl
  | n+1, v => by simp [bitsOf, bitsOf_length n v]

theorem flatMap6_length : ∀ sx : List Nat, (sx.flatMap (bitsOf 6)).length = 6 * sx.length
  | [] => rfl
  | s :: sx => by
    simp only [List.flatMap_cons, List.length_append, bitsOf_length, flatMap6_length sx,
      List.length_cons]
    omega

theorem flatMap8_length : ∀ bs : List Nat, (bs.flatMap (bitsOf 8)).length = 8 * bs.length
  | [] => rfl
  | s :: sx => by
    simp only [List.flatMap_cons, List.length_append, bitsOf_length, flatMap8_length sx,
      List.length_cons]
    omega

set_option maxRecDepth 4000 in
theorem bits_group4 (s0 s1 s2 s3 : Nat) (_h0 : s0 < 64) (h1 : s1 < 64) (h2 : s2 < 64) (h3 : s3 < 64) :
    bitsOf 6 s0 ++ (bitsOf 6 s1 ++ (bitsOf 6 s2 ++ bitsOf 6 s3)) =
      bitsOf 8 (s0 * 4 + s1 / 16) ++ (bitsOf 8 ((s1 % 16) * 16 + s2 / 4) ++
        bitsOf 8 ((s2 % 4) * 64 + s3)) := by
  simp only [bitsOf, Nat.reducePow, List.cons_append, List.nil_append, List.cons.injEq,
    decide_eq_decide, Nat.div_one, and_true]
  refine ⟨?_, ?_, ?_, ?_, ?_, ?_, ?_, ?_, ?_, ?_, ?_, ?_, ?_, ?_, ?_, ?_, ?_, ?_, ?_, ?_, ?_, ?_, ?_, ?_⟩ <;> omega

set_option maxRecDepth 4000 in
theorem bits_group3 (s0 s1 s2 : Nat) (_h0 : s0 < 64) (h1 : s1 < 64) (h2 : s2 < 64) :
    bitsOf 6 s0 ++ (bitsOf 6 s1 ++ bitsOf 6 s2) =
      bitsOf 8 (s0 * 4 + s1 / 16) ++ (bitsOf 8 ((s1 % 16) * 16 + s2 / 4) ++ bitsOf 2 s2) := by
  simp only [bitsOf, Nat.reducePow, List.cons_append, List.nil_append, List.cons.injEq,
    decide_eq_decide, Nat.div_one, and_true]
  refine ⟨?_, ?_, ?_, ?_, ?_, ?_, ?_, ?_, ?_, ?_, ?_, ?_, ?_, ?_, ?_, ?_⟩ <;> omega

set_option maxRecDepth 4000 in
theorem bits_group2 (s0 s1 : Nat) (_h0 : s0 < 64) (h1 : s1 < 64) :
    bitsOf 6 s0 ++ bitsOf 6 s1 = bitsOf 8 (s0 * 4 + s1 / 16) ++ bitsOf 4 s1 := by
  simp only [bitsOf, Nat.reducePow, List.cons_append, List.nil_append, List.cons.injEq,
    decide_eq_decide, Nat.div_one, and_true]
  refine ⟨?_, ?_, ?_, ?_, ?_, ?_, ?_, ?_⟩ <;> omega

/-- the bits of the sextets are the bits of the decoded bytes plus at most 4 left-over bits -/
theorem grp_some : ∀ (sx : List Nat) (bs : BytesN), (∀ s ∈ sx, s < 64) → grp sx = some bs →
    (∀ b ∈ bs, b < 256) ∧
      ∃ left, left.length ≤ 4 ∧ sx.flatMap (bitsOf 6) = bs.flatMap (bitsOf 8) ++ left
  | [], bs, _, h => by
    simp only [grp, Option.some.injEq] at h
    subst h
    exact ⟨by simp, [], by simp, by simp⟩
  | [_], _, _, h => by simp [grp] at h
  | [s0, s1], bs, hs, h => by
    simp only [grp, Option.some.injEq] at h
    subst h
    have h0 : s0 < 64 := hs s0 (by simp)
    have h1 : s1 < 64 := hs s1 (by simp)
    refine ⟨?_, bitsOf 4 s1, by simp [bitsOf_length], ?_⟩
    · intro b hb
      simp only [List.mem_cons, List.not_mem_nil, or_false] at hb
      subst hb; omega
    · simp only [List.flatMap_cons, List.flatMap_nil, List.append_nil]
      exact bits_group2 s0 s1 h0 h1
  | [s0, s1, s2], bs, hs, h => by
    simp only [grp, Option.some.injEq] at h
    subst h
    have h0 : s0 < 64 := hs s0 (by simp)
    have h1 : s1 < 64 := hs s1 (by simp)
    have h2 : s2 < 64 := hs s2 (by simp)
    refine ⟨?_, bitsOf 2 s2, by simp [bitsOf_length], ?_⟩
    · intro b hb
      simp only [List.mem_cons, List.not_mem_nil, or_false] at hb
      rcases hb with rfl | rfl <;> omega
    · simp only [List.flatMap_cons, List.flatMap_nil, List.append_nil, List.append_assoc]
      exact bits_group3 s0 s1 s2 h0 h1 h2
  | s0 :: s1 :: s2 :: s3 :: r, bs, hs, h => by
    have h0 : s0 < 64 := hs s0 (by simp)
    have h1 : s1 < 64 := hs s1 (by simp)
    have h2 : s2 < 64 := hs s2 (by simp)
    have h3 : s3 < 64 := hs s3 (by simp)
    cases hr : grp r with
    | none => simp [grp, hr] at h
    | some t =>
      obtain ⟨ihb, left, hl, ihe⟩ := grp_some r t (fun s hm => hs s (by simp [hm])) hr
      simp [grp, hr] at h
      subst h
      refine ⟨?_, left, hl, ?_⟩
      · intro b hb
        simp only [List.mem_cons] at hb
        rcases hb with rfl | rfl | rfl | hb
        · omega
        · omega
        · omega
        · exact ihb b hb
      · simp only [List.flatMap_cons, ihe, List.append_assoc]
        rw [← List.append_assoc (bitsOf 6 s2), ← List.append_assoc (bitsOf 6 s1),
          ← List.append_assoc (bitsOf 6 s0), bits_group4 s0 s1 s2 s3 h0 h1 h2 h3]
        simp only [List.append_assoc]

/-! ### values of bit strings -/

theorem foldl_bitsOf : ∀ (n a v : Nat),
    (bitsOf n v).foldl (fun a b => 2 * a + (if b then 1 else 0)) a = a * 2 ^ n + v % 2 ^ n
  | 0, a, v => by simp [bitsOf, Nat.mod_one]
  | n+1, a, v => by
    simp only [bitsOf, List.foldl_cons]
    rw [foldl_bitsOf n, Nat.mod_pow_succ, Nat.pow_succ]
    generalize 2 ^ n = p
    have hb : (if decide (v / p % 2 = 1) = true then 1 else 0) = v / p % 2 := by
      rcases Nat.mod_two_eq_zero_or_one (v / p) with h | h <;> simp [h]
    rw [hb]
    generalize v / p % 2 = t
    rw [Nat.add_mul, Nat.mul_comm 2 a, Nat.mul_assoc a 2 p, Nat.mul_comm 2 p, Nat.mul_comm t p]
    omega

theorem valOfBits_pair (h l : Nat) (hh : h < 256) (hl : l < 256) :
    valOfBits (bitsOf 8 h ++ bitsOf 8 l) = h * 256 + l := by
  unfold valOfBits
  rw [List.foldl_append, foldl_bitsOf, foldl_bitsOf]
  simp only [Nat.reducePow]
  omega

/-! ### cutting into 16-bit units -/

/-- big-endian 16-bit units of a byte string (a trailing odd byte is dropped) -/
def pairs : BytesN → List Nat
  | h :: l :: r => (h * 256 + l) :: pairs r
  | _ => []

theorem unitsOf_short (fuel : Nat) (bs : List Bool) (h : bs.length < 16) :
    unitsOf fuel bs = ([], bs) := by
  cases fuel <;> simp [unitsOf, h]

theorem unitsOf_step (fuel h l : Nat) (tail : List Bool) (hh : h < 256) (hl : l < 256) :
    unitsOf (fuel + 1) (bitsOf 8 h ++ (bitsOf 8 l ++ tail)) =
      ((h * 256 + l) :: (unitsOf fuel tail).1, (unitsOf fuel tail).2) := by
  have hlen : (bitsOf 8 h ++ bitsOf 8 l).length = 16 := by simp [bitsOf_length]
  rw [← List.append_assoc]
  have h1 : ¬ (bitsOf 8 h ++ bitsOf 8 l ++ tail).length < 16 := by
    rw [List.length_append, hlen]; omega
  rw [unitsOf, if_neg h1, List.take_left' hlen, List.drop_left' hlen, valOfBits_pair h l hh hl]

theorem unitsOf_rest_length : ∀ (fuel : Nat) (bs : List Bool), bs.length ≤ fuel →
    (unitsOf fuel bs).2.length = bs.length % 16
  | 0, bs, h => by
    have : bs.length = 0 := by omega
    simp [unitsOf, this]
  | fuel+1, bs, h => by
    by_cases hlt : bs.length < 16
    · rw [unitsOf_short _ _ hlt]; simp only; omega
    · have ih := unitsOf_rest_length fuel (bs.drop 16) (by simp only [List.length_drop]; omega)
      rw [unitsOf, if_neg hlt]
      simp only [List.length_drop] at ih
      simp only [ih]
      omega

theorem unitsOf_bytes : ∀ (fuel : Nat) (bs : BytesN) (left : List Bool), (∀ b ∈ bs, b < 256) →
    left.length < 8 → bs.length ≤ fuel →
    ∃ rest, unitsOf fuel (bs.flatMap (bitsOf 8) ++ left) = (pairs bs, rest) ∧
      rest.length = (bs.length % 2) * 8 + left.length
  | fuel, [], left, _, hl, _ => by
    refine ⟨left, ?_, by simp⟩
    simp only [List.flatMap_nil, List.nil_append, pairs]
    exact unitsOf_short _ _ (by omega)
  | fuel, [b], left, _, hl, _ => by
    refine ⟨bitsOf 8 b ++ left, ?_, by simp [bitsOf_length]⟩
    simp only [List.flatMap_cons, List.flatMap_nil, List.append_nil, pairs]
    exact unitsOf_short _ _ (by simp only [List.length_append, bitsOf_length]; omega)
  | 0, _ :: _ :: _, _, _, _, hf => by simp at hf
  | fuel+1, h :: l :: r, left, hb, hl, hf => by
    obtain ⟨rest, he, hr⟩ := unitsOf_bytes fuel r left (fun b hm => hb b (by simp [hm])) hl
      (by simp only [List.length_cons] at hf; omega)
    refine ⟨rest, ?_, by simp only [List.length_cons]; omega⟩
    simp only [List.flatMap_cons, List.append_assoc, pairs]
    rw [unitsOf_step fuel h l _ (hb h (by simp)) (hb l (by simp)), he]


/-! ### UTF-16 -/

/-- the final "no printable US-ASCII character" test of `specSeg` -/
def chk (o : Option (List Nat)) : Option (List Nat) :=
  o.bind fun cs => if cs.any printable then none else some cs

theorem chk_none : chk none = none := rfl

theorem chk_map_cons (c : Nat) (o : Option (List Nat)) :
    chk (o.map (c :: ·)) = if printable c then none else (chk o).map (c :: ·) := by
  cases o with
  | none => simp [chk]
  | some cs =>
    simp only [chk, Option.map_some, Option.bind_some, List.any_cons, Bool.or_eq_true]
    by_cases hc : printable c = true
    · simp [hc]
    · by_cases ha : cs.any printable = true
      · simp [hc, ha]
      · simp [hc, ha]

theorem utf16dec_plain (h l : Nat) (r : BytesN)
    (hns : ¬ (55296 ≤ h * 256 + l ∧ h * 256 + l < 57344)) :
    utf16dec (h :: l :: r) =
      if printable (h * 256 + l) then none else (utf16dec r).map ((h * 256 + l) :: ·) := by
  rw [utf16dec.eq_def]
  simp only [hns, if_false]

theorem utf16dec_sur (h l h2 l2 : Nat) (r : BytesN)
    (hs : 55296 ≤ h * 256 + l ∧ h * 256 + l < 57344) :
    utf16dec (h :: l :: h2 :: l2 :: r) =
      if h * 256 + l < 56320 ∧ 56320 ≤ h2 * 256 + l2 ∧ h2 * 256 + l2 < 57344 then
        (utf16dec r).map (((h * 256 + l - 55296) * 1024 + (h2 * 256 + l2 - 56320) + 65536) :: ·)
      else none := by
  rw [utf16dec.eq_def]
  simp only [hs, and_self, if_true]

theorem utf16dec_sur_nil (h l : Nat) (hs : 55296 ≤ h * 256 + l ∧ h * 256 + l < 57344) :
    utf16dec [h, l] = none := by
  rw [utf16dec.eq_def]
  simp only [hs, and_self, if_true]

theorem scalarsOf_plain (u : Nat) (rest : List Nat) (hns : ¬ (55296 ≤ u ∧ u < 57344)) :
    scalarsOf (u :: rest) = (scalarsOf rest).map (u :: ·) := by
  rw [scalarsOf.eq_def]
  have h1 : ¬ (55296 ≤ u ∧ u ≤ 56319) := by omega
  have h2 : ¬ (56320 ≤ u ∧ u ≤ 57343) := by omega
  simp only [h1, h2, if_false]

theorem scalarsOf_sur (u l : Nat) (rest : List Nat) (hs : 55296 ≤ u ∧ u < 57344) :
    scalarsOf (u :: l :: rest) =
      if u < 56320 ∧ 56320 ≤ l ∧ l < 57344 then
        (scalarsOf rest).map (((u - 55296) * 1024 + (l - 56320) + 65536) :: ·)
      else none := by
  rw [scalarsOf.eq_def]
  by_cases hh : u < 56320
  · have h1 : 55296 ≤ u ∧ u ≤ 56319 := by omega
    simp only [h1, and_self, if_true, hh, true_and]
    by_cases hl : 56320 ≤ l ∧ l < 57344
    · have hl' : 56320 ≤ l ∧ l ≤ 57343 := by omega
      have he : 65536 + (u - 55296) * 1024 + (l - 56320) = (u - 55296) * 1024 + (l - 56320) + 65536 := by
        omega
      simp only [hl, hl', and_self, if_true, he]
    · have hl' : ¬ (56320 ≤ l ∧ l ≤ 57343) := by omega
      simp only [hl, hl', if_false]
  · have h1 : ¬ (55296 ≤ u ∧ u ≤ 56319) := by omega
    have h2 : 56320 ≤ u ∧ u ≤ 57343 := by omega
    simp only [h1, h2, hh, and_self, false_and, if_true, if_false]

theorem scalarsOf_sur_nil (u : Nat) (hs : 55296 ≤ u ∧ u < 57344) : scalarsOf [u] = none := by
  rw [scalarsOf.eq_def]
  by_cases hh : u < 56320
  · have h1 : 55296 ≤ u ∧ u ≤ 56319 := by omega
    simp only [h1, and_self, if_true]
  · have h1 : ¬ (55296 ≤ u ∧ u ≤ 56319) := by omega
    have h2 : 56320 ≤ u ∧ u ≤ 57343 := by omega
    simp only [h1, h2, and_self, if_true, if_false]

theorem utf16dec_oddlen : ∀ bs : BytesN, bs.length % 2 = 1 → utf16dec bs = none
  | [], h => by simp at h
  | [_], _ => by simp [utf16dec]
  | [_, _], h => by simp at h
  | [h, l, x], _ => by
    by_cases hs : 55296 ≤ h * 256 + l ∧ h * 256 + l < 57344
    · rw [utf16dec.eq_def]; simp only [hs, and_self, if_true]
    · rw [utf16dec_plain h l _ hs]
      split_ifs
      · rfl
      · simp [utf16dec]
  | h :: l :: h2 :: l2 :: r, hlen => by
    have hr : r.length % 2 = 1 := by simp only [List.length_cons] at hlen; omega
    have hr2 : (h2 :: l2 :: r).length % 2 = 1 := by simp only [List.length_cons]; omega
    by_cases hs : 55296 ≤ h * 256 + l ∧ h * 256 + l < 57344
    · rw [utf16dec_sur h l h2 l2 r hs, utf16dec_oddlen r hr]
      split_ifs <;> rfl
    · rw [utf16dec_plain h l _ hs, utf16dec_oddlen _ hr2]
      split_ifs <;> rfl

theorem utf16dec_even : ∀ bs : BytesN, bs.length % 2 = 0 →
    utf16dec bs = chk (scalarsOf (pairs bs))
  | [], _ => by simp [utf16dec, pairs, scalarsOf, chk]
  | [_], h => by simp at h
  | [h, l], _ => by
    by_cases hs : 55296 ≤ h * 256 + l ∧ h * 256 + l < 57344
    · rw [utf16dec_sur_nil h l hs]
      simp only [pairs]
      rw [scalarsOf_sur_nil _ hs, chk_none]
    · rw [utf16dec_plain h l _ hs]
      simp only [pairs]
      rw [scalarsOf_plain _ _ hs, chk_map_cons]
      simp [utf16dec, scalarsOf, chk]
  | [_, _, _], h => by simp at h
  | h :: l :: h2 :: l2 :: r, hlen => by
    have hr : r.length % 2 = 0 := by simp only [List.length_cons] at hlen; omega
    have hr2 : (h2 :: l2 :: r).length % 2 = 0 := by simp only [List.length_cons]; omega
    by_cases hs : 55296 ≤ h * 256 + l ∧ h * 256 + l < 57344
    · rw [utf16dec_sur h l h2 l2 r hs, utf16dec_even r hr]
      simp only [pairs]
      rw [scalarsOf_sur _ _ _ hs]
      split_ifs
      · rw [chk_map_cons]
        have : printable ((h * 256 + l - 55296) * 1024 + (h2 * 256 + l2 - 56320) + 65536) = false := by
          simp only [printable, Bool.and_eq_false_imp, decide_eq_true_eq, decide_eq_false_iff_not]
          omega
        simp only [this, Bool.false_eq_true, if_false]
      · rfl
    · rw [utf16dec_plain h l _ hs, utf16dec_even _ hr2]
      have hp : pairs (h :: l :: h2 :: l2 :: r) = (h * 256 + l) :: pairs (h2 :: l2 :: r) := by
        simp only [pairs]
      rw [hp, scalarsOf_plain _ _ hs, chk_map_cons]

theorem scalarsOf_cons_ne (u : Nat) (r cs : List Nat) (h : scalarsOf (u :: r) = some cs) :
    cs.isEmpty = false := by
  by_cases hs : 55296 ≤ u ∧ u < 57344
  · cases r with
    | nil => rw [scalarsOf_sur_nil u hs] at h; cases h
    | cons l r =>
      rw [scalarsOf_sur u l r hs] at h
      split_ifs at h
      cases hr : scalarsOf r with
      | none => rw [hr] at h; cases h
      | some t => rw [hr] at h; simp at h; subst h; rfl
  · rw [scalarsOf_plain u r hs] at h
    cases hr : scalarsOf r with
    | none => rw [hr] at h; cases h
    | some t => rw [hr] at h; simp at h; subst h; rfl

/-- the "at least one unit" tests of the two sides agree -/
theorem empty_tests (us : List Nat) :
    (if us.isEmpty then none else chk (scalarsOf us)) =
      (chk (scalarsOf us)).bind (fun cs => if cs.isEmpty then none else some cs) := by
  cases us with
  | nil => simp [scalarsOf, chk]
  | cons u r =>
    simp only [List.isEmpty_cons, Bool.false_eq_true, if_false]
    cases hsc : scalarsOf (u :: r) with
    | none => simp [chk]
    | some cs =>
      have hne := scalarsOf_cons_ne u r cs hsc
      simp only [chk, Option.bind_some]
      split_ifs
      · rfl
      · have : cs ≠ [] := by intro h; rw [h] at hne; cases hne
        simp [this]

/-! ### the two segment decoders agree -/

theorem specSeg_some (seg : BytesN) (sx units : List Nat) (rest : List Bool)
    (h : seg.mapM sextet? = some sx)
    (hu : unitsOf (sx.flatMap (bitsOf 6)).length (sx.flatMap (bitsOf 6)) = (units, rest)) :
    specSeg seg =
      if rest.length ≥ 6 then none else if units.isEmpty then none else chk (scalarsOf units) := by
  unfold specSeg
  rw [h]
  simp only [Option.bind_eq_bind, Option.bind_some]
  rw [hu]
  rfl

theorem b64val_61 : b64val 61 = none := by decide

theorem specSeg_eq_decodeSeg (seg : BytesN) : specSeg seg = decodeSeg seg := by
  have hf : sextet? = b64val := funext sextet_eq
  cases hm : seg.mapM b64val with
  | none =>
    obtain ⟨c, hc, hv⟩ := mapM_none seg hm
    rw [decodeSeg_bad hc hv]
    unfold specSeg
    rw [hf, hm]
    rfl
  | some sx =>
    obtain ⟨hall, hsx⟩ := mapM_some seg sx hm
    have hlt : ∀ s ∈ sx, s < 64 := fun s hs => by
      obtain ⟨c, hc⟩ := hsx s hs
      exact b64val_some_lt hc
    have hlast : ¬ seg.getLast? = some 61 := fun h =>
      hall 61 (List.mem_of_getLast? h) b64val_61
    have hd : decodeSeg seg = (grp sx).bind (fun b => (utf16dec b).bind
        (fun us => if us.isEmpty then none else some us)) := by
      unfold decodeSeg
      rw [if_neg hlast, b64dec_eq_grp, hm]
      rfl
    rw [hd]
    cases hu : unitsOf (sx.flatMap (bitsOf 6)).length (sx.flatMap (bitsOf 6)) with
    | mk units rest =>
      rw [specSeg_some seg sx units rest (by rw [hf]; exact hm) hu]
      have hrl := unitsOf_rest_length _ (sx.flatMap (bitsOf 6)) (Nat.le_refl _)
      rw [hu] at hrl
      simp only [flatMap6_length] at hrl
      cases hg : grp sx with
      | none =>
        have h4 := grp_none sx hg
        have : rest.length ≥ 6 := by omega
        simp only [this, if_true, Option.bind_none]
      | some bs =>
        obtain ⟨hb, left, hl, he⟩ := grp_some sx bs hlt hg
        obtain ⟨rest', hu', hrl'⟩ := unitsOf_bytes (sx.flatMap (bitsOf 6)).length bs left hb
          (by omega) (by rw [he, List.length_append, flatMap8_length]; omega)
        rw [← he, hu] at hu'
        simp only [Prod.mk.injEq] at hu'
        obtain ⟨hunits, hrest⟩ := hu'
        subst hunits hrest
        simp only [Option.bind_some]
        by_cases hpar : bs.length % 2 = 1
        · have : rest.length ≥ 6 := by omega
          simp only [this, if_true, utf16dec_oddlen bs hpar, Option.bind_none]
        · have hpar' : bs.length % 2 = 0 := by omega
          have : ¬ rest.length ≥ 6 := by omega
          rw [if_neg this, utf16dec_even bs hpar', empty_tests]

end GoImap.Utf7Lemmas
