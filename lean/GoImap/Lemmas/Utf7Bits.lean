/- C16: the RFC-style bit-stream segment decoder `specSeg` agrees with the Go-mirroring
   `decodeSeg` (base64 by 4-character groups, then UTF-16BE). -/
import GoImap.Lemmas.Utf7Basic
import GoImap.Spec.Utf7
import Mathlib.Tactic.SplitIfs
namespace GoImap.Utf7Lemmas
open GoImap.Utf7 GoImap.Utf7Spec

/-! ### alphabet: `sextet?` is `b64val` -/

theorem sextet_eq_fin : ∀ c : Fin 128, sextet? c.val = b64val c.val := by decide +kernel

theorem sextet_eq (c : Nat) : sextet? c = b64val c := by
  by_cases h : c < 128
  · exact sextet_eq_fin ⟨c, h⟩
  · have h1 : sextet? c = none := by
      unfold sextet?
      split_ifs <;> first | rfl | omega
    have h2 : b64val c = none := by
      apply b64val_nonprintable
      simp only [printable, Bool.and_eq_false_imp, decide_eq_true_eq, decide_eq_false_iff_not]
      omega
    rw [h1, h2]

/-! ### `mapM` on `Option` -/

theorem mapM_none {f : Nat → Option Nat} : ∀ (l : List Nat), l.mapM f = none → ∃ c ∈ l, f c = none
  | [], h => by simp at h
  | c :: l, h => by
    cases hc : f c with
    | none => exact ⟨c, by simp, hc⟩
    | some s =>
      cases hl : l.mapM f with
      | none =>
        obtain ⟨d, hd, hf⟩ := mapM_none l hl
        exact ⟨d, by simp [hd], hf⟩
      | some sx => simp [List.mapM_cons, hc, hl] at h

theorem mapM_some {f : Nat → Option Nat} : ∀ (l sx : List Nat), l.mapM f = some sx →
    (∀ c ∈ l, f c ≠ none) ∧ (∀ s ∈ sx, ∃ c, f c = some s)
  | [], sx, h => by
    simp at h
    subst h
    simp
  | c :: l, sx, h => by
    cases hc : f c with
    | none => simp [List.mapM_cons, hc] at h
    | some s =>
      cases hl : l.mapM f with
      | none => simp [List.mapM_cons, hc, hl] at h
      | some sx' =>
        have ih := mapM_some l sx' hl
        simp [List.mapM_cons, hc, hl] at h
        subst h
        constructor
        · intro d hd
          simp only [List.mem_cons] at hd
          rcases hd with rfl | hd
          · rw [hc]; simp
          · exact ih.1 d hd
        · intro t ht
          simp only [List.mem_cons] at ht
          rcases ht with rfl | ht
          · exact ⟨c, hc⟩
          · exact ih.2 t ht

/-! ### base64 groups on sextets -/

/-- `b64dec` after the alphabet lookup -/
def grp : List Nat → Option BytesN
  | s0 :: s1 :: s2 :: s3 :: r => do
    let t ← grp r
    pure ((s0 * 4 + s1 / 16) :: ((s1 % 16) * 16 + s2 / 4) :: ((s2 % 4) * 64 + s3) :: t)
  | [s0, s1, s2] => some [s0 * 4 + s1 / 16, (s1 % 16) * 16 + s2 / 4]
  | [s0, s1] => some [s0 * 4 + s1 / 16]
  | [_] => none
  | [] => some []

theorem b64dec_eq_grp : ∀ seg : BytesN, b64dec seg = (seg.mapM b64val).bind grp
  | [] => by simp [b64dec, grp]
  | [c0] => by cases h0 : b64val c0 <;> simp [b64dec, grp, h0]
  | [c0, c1] => by
    cases h0 : b64val c0 <;> cases h1 : b64val c1 <;> simp [b64dec, grp, h0, h1]
  | [c0, c1, c2] => by
    cases h0 : b64val c0 <;> cases h1 : b64val c1 <;> cases h2 : b64val c2 <;>
      simp [b64dec, grp, h0, h1, h2]
  | c0 :: c1 :: c2 :: c3 :: r => by
    have ih := b64dec_eq_grp r
    cases h0 : b64val c0 <;> cases h1 : b64val c1 <;> cases h2 : b64val c2 <;>
      cases h3 : b64val c3 <;> cases hr : r.mapM b64val <;>
      simp [b64dec, grp, h0, h1, h2, h3, hr, ih]

theorem grp_none : ∀ sx : List Nat, grp sx = none → sx.length % 4 = 1
  | [], h => by simp [grp] at h
  | [_], _ => by simp
  | [_, _], h => by simp [grp] at h
  | [_, _, _], h => by simp [grp] at h
  | _ :: _ :: _ :: _ :: r, h => by
    cases hr : grp r with
    | none =>
      have := grp_none r hr
      simp only [List.length_cons]; omega
    | some t => simp [grp, hr] at h

/-! ### bits -/

theorem bitsOf_length : ∀ (n v : Nat), (bitsOf n v).length = n
  | 0, _ => rfl
  | n+1, v => by simp [bitsOf, bitsOf_length n v]

theorem flatMap6_length : ∀ sx : List Nat, (sx.flatMap (bitsOf 6)).length = 6 * sx.length
  | [] => rfl
  | s :: sx => by
    simp only [List.flatMap_cons, List.length_append, bitsOf_length, flatMap6_length sx,
      List.length_cons]
    omega

theorem flatMap8_length : ∀ bs : List Nat, (bs.flatMap (bitsOf 8)).length = 8 * bs.length
  | [] => rfl
  | s :: sx => by
    simp only [List.flatMap_cons, List.length_append, bitsOf_length, flatMap8_length sx,
      List.length_cons]
    omega

set_option maxRecDepth 4000 in
theorem bits_group4 (s0 s1 s2 s3 : Nat) (h0 : s0 < 64) (h1 : s1 < 64) (h2 : s2 < 64) (h3 : s3 < 64) :
    bitsOf 6 s0 ++ (bitsOf 6 s1 ++ (bitsOf 6 s2 ++ bitsOf 6 s3)) =
      bitsOf 8 (s0 * 4 + s1 / 16) ++ (bitsOf 8 ((s1 % 16) * 16 + s2 / 4) ++
        bitsOf 8 ((s2 % 4) * 64 + s3)) := by
  simp only [bitsOf, Nat.reducePow, List.cons_append, List.nil_append, List.cons.injEq,
    decide_eq_decide, Nat.div_one, and_true]
  refine ⟨?_, ?_, ?_, ?_, ?_, ?_, ?_, ?_, ?_, ?_, ?_, ?_, ?_, ?_, ?_, ?_, ?_, ?_, ?_, ?_, ?_, ?_, ?_, ?_⟩ <;> omega

set_option maxRecDepth 4000 in
theorem bits_group3 (s0 s1 s2 : Nat) (h0 : s0 < 64) (h1 : s1 < 64) (h2 : s2 < 64) :
    bitsOf 6 s0 ++ (bitsOf 6 s1 ++ bitsOf 6 s2) =
      bitsOf 8 (s0 * 4 + s1 / 16) ++ (bitsOf 8 ((s1 % 16) * 16 + s2 / 4) ++ bitsOf 2 s2) := by
  simp only [bitsOf, Nat.reducePow, List.cons_append, List.nil_append, List.cons.injEq,
    decide_eq_decide, Nat.div_one, and_true]
  refine ⟨?_, ?_, ?_, ?_, ?_, ?_, ?_, ?_, ?_, ?_, ?_, ?_, ?_, ?_, ?_, ?_, ?_, ?_⟩ <;> omega

set_option maxRecDepth 4000 in
theorem bits_group2 (s0 s1 : Nat) (h0 : s0 < 64) (h1 : s1 < 64) :
    bitsOf 6 s0 ++ bitsOf 6 s1 = bitsOf 8 (s0 * 4 + s1 / 16) ++ bitsOf 4 s1 := by
  simp only [bitsOf, Nat.reducePow, List.cons_append, List.nil_append, List.cons.injEq,
    decide_eq_decide, Nat.div_one, and_true]
  refine ⟨?_, ?_, ?_, ?_, ?_, ?_, ?_, ?_, ?_, ?_, ?_, ?_⟩ <;> omega

end GoImap.Utf7Lemmas
