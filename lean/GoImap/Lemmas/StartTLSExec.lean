/-
  C17: lexing of the lines the switch theorems speak about, and what the server / client handlers do on them.
-/
import GoImap.Lemmas.StartTLS
import Mathlib.Tactic.SplitIfs
namespace GoImap.StartTLSLemmas
open GoImap GoImap.StartTLS

/-- a word: non-empty, no SP / CR / LF -/
def Word (w : Bytes) : Prop := w ≠ [] ∧ ∀ b ∈ w, b ≠ 32 ∧ b ≠ 13 ∧ b ≠ 10

theorem splitSpAux_word (w : Bytes) (cur rest : Bytes) (hw : ∀ b ∈ w, b ≠ 32) :
    splitSpAux cur (w ++ rest) = splitSpAux (cur ++ w) rest := by
  induction w generalizing cur with
  | nil => simp
  | cons b bs ih =>
    have hb : b ≠ 32 := hw b (by simp)
    simp only [List.cons_append, splitSpAux, hb, if_false]
    rw [ih _ (fun x hx => hw x (by simp [hx]))]
    simp

theorem splitSpAux_sp (cur rest : Bytes) : splitSpAux cur (32 :: rest) = cur :: splitSpAux [] rest := by
  simp [splitSpAux]

theorem splitSp_two (a b : Bytes) (ha : ∀ x ∈ a, x ≠ 32) (hb : ∀ x ∈ b, x ≠ 32) :
    splitSp (a ++ 32 :: b) = [a, b] := by
  unfold splitSp
  rw [splitSpAux_word a [] _ ha, splitSpAux_sp]
  have := splitSpAux_word b [] [] hb
  simp at this
  simp [this, splitSpAux]

theorem splitSp_three (a b c : Bytes) (ha : ∀ x ∈ a, x ≠ 32) (hb : ∀ x ∈ b, x ≠ 32) (hc : ∀ x ∈ c, x ≠ 32) :
    splitSp (a ++ 32 :: (b ++ 32 :: c)) = [a, b, c] := by
  unfold splitSp
  rw [splitSpAux_word a [] _ ha, splitSpAux_sp, splitSpAux_word b [] _ hb, splitSpAux_sp]
  have := splitSpAux_word c [] [] hc
  simp at this
  simp [this, splitSpAux]

theorem stripEOL_crlf (x : Bytes) : stripEOL (x ++ [13, 10]) = x := by
  simp [stripEOL, List.reverse_append]


/-! ### the server handler on a STARTTLS line -/

def startTLSLine (tag kw : Bytes) : Bytes := tag ++ 32 :: (kw ++ [13, 10])

theorem word_no_sp {w : Bytes} (h : Word w) : ∀ x ∈ w, x ≠ 32 := fun x hx => (h.2 x hx).1
theorem word_no_lf {w : Bytes} (h : Word w) : ∀ x ∈ w, x ≠ 10 := fun x hx => (h.2 x hx).2.2
theorem word_no_cr {w : Bytes} (h : Word w) : ∀ x ∈ w, x ≠ 13 := fun x hx => (h.2 x hx).2.1

theorem isEmpty_word {w : Bytes} (h : Word w) : w.isEmpty = false := by
  cases w with
  | nil => exact absurd rfl h.1
  | cons _ _ => rfl

theorem serverExec_starttls (c : Cfg) (s : SrvSt) (tag kw : Bytes) (htag : Word tag) (hkw : Word kw)
    (hup : kw.map upper = kSTARTTLS) (hcan : canStartTLS c s = true) :
    serverExec c s (startTLSLine tag kw) = ({ s with tls := true }, [.reply tag .ok none], .switch) := by
  have hline : startTLSLine tag kw = (tag ++ 32 :: kw) ++ [13, 10] := by simp [startTLSLine]
  have htls : c.tlsCfg = true := by
    simp only [canStartTLS, Bool.and_eq_true] at hcan; exact hcan.1.1
  unfold serverExec
  rw [hline, stripEOL_crlf, splitSp_two tag kw (word_no_sp htag) (word_no_sp hkw)]
  simp only [isEmpty_word htag, isEmpty_word hkw, hup, Bool.or_self, Bool.false_eq_true, if_false]
  have h1 : (kSTARTTLS = kNOOP) = False := by decide
  have h2 : (kSTARTTLS = kCAPABILITY) = False := by decide
  simp [execCmd, execStartTLS, h1, h2, htls, hcan]

/-! ### the client handler on the tagged OK of STARTTLS and on a PREAUTH greeting -/

def okLine (tag w : Bytes) : Bytes := tag ++ 32 :: (kOK ++ 32 :: (w ++ [13, 10]))

theorem kOK_no_sp : ∀ x ∈ kOK, x ≠ 32 := by decide
theorem kPREAUTH_no_sp : ∀ x ∈ kPREAUTH, x ≠ 32 := by decide
theorem kStar_no_sp : ∀ x ∈ kStar, x ≠ 32 := by decide

theorem clientExec_ok (s : CliSt) (tag w : Bytes) (htag : Word tag) (hstar : tag ≠ kStar) (hw : Word w)
    (hcode : w.head? ≠ some 91) (hp : s.pending = true) (ht : s.startTag = tag) :
    clientExec s (okLine tag w) =
      ({ s with pending := false, result := some .ok, tls := true }, [.done .ok, .capsReset], .switch) := by
  have hline : okLine tag w = (tag ++ 32 :: (kOK ++ 32 :: w)) ++ [13, 10] := by simp [okLine]
  unfold clientExec
  rw [hline, stripEOL_crlf, splitSp_three tag kOK w (word_no_sp htag) kOK_no_sp (word_no_sp hw)]
  have h1 : kOK.isEmpty = false := rfl
  simp [hstar, isEmpty_word htag, h1, hp, ht, hcode]

def preauthLine (w : Bytes) : Bytes := kStar ++ 32 :: (kPREAUTH ++ 32 :: (w ++ [13, 10]))

theorem clientExec_preauth (s : CliSt) (w : Bytes) (hw : Word w) (hcode : w.head? ≠ some 91)
    (hg : s.greeted = false) :
    clientExec s (preauthLine w) =
      ({ s with greeted := true, state := .auth }, [.greeting .preauth, .capsReset], .cont) := by
  have hline : preauthLine w = (kStar ++ 32 :: (kPREAUTH ++ 32 :: w)) ++ [13, 10] := by simp [preauthLine]
  unfold clientExec
  rw [hline, stripEOL_crlf, splitSp_three kStar kPREAUTH w kStar_no_sp kPREAUTH_no_sp (word_no_sp hw)]
  have h1 : (kPREAUTH = kOK) = False := by decide
  simp [h1, hg, hcode]

/-- once a greeting other than OK was taken, no response line brings the client to "not authenticated" -/
def Refusing (s : CliSt) : Prop := s.greeted = true ∧ s.state ≠ .notAuth

theorem clientExec_refusing (s : CliSt) (line : Bytes) (h : Refusing s) : Refusing (clientExec s line).1 := by
  obtain ⟨hg, hs⟩ := h
  unfold clientExec
  repeat' split
  all_goals (first | exact ⟨hg, hs⟩ | simp_all)

theorem newStartTLS_refusing (s : CliSt) (h : Refusing s) : newStartTLS s = .error := by
  unfold newStartTLS
  split
  · simp [h.2]
  · rfl

theorem stepByte_refusing (h : Handover) (r : RSt CliSt CEv) (b : UInt8) (hr : Refusing r.st) :
    Refusing (stepByte h clientExec r b).st := by
  unfold stepByte
  split
  · exact hr
  · exact hr
  · split
    · exact clientExec_refusing _ _ hr
    · exact hr
  · split
    · exact clientExec_refusing _ _ hr
    · exact hr

theorem scan_refusing (h : Handover) (bs : Bytes) (r : RSt CliSt CEv) (hr : Refusing r.st) :
    Refusing (scan h clientExec r bs).st := by
  induction bs generalizing r with
  | nil => simpa [scan_nil] using hr
  | cons b bs ih => rw [scan_cons]; exact ih _ (stepByte_refusing h r b hr)

/-! ### credentials on the server -/

def isCred : Call → Bool
  | .login _ _ => true
  | .auth _ => true
  | _ => false

/-- a credentials event: the session is handed a user name / password or a SASL response -/
def credEv : SEv → Bool
  | .call cl _ => isCred cl
  | _ => false

/-- what a handler must satisfy: credentials reach the session only when `canAuth` holds, and they are
    flagged with the connection's TLS status; the TLS status changes only together with `switch` -/
def CredOK (c : Cfg) (s : SrvSt) (o : SrvOut) : Prop :=
  (∀ ev ∈ o.2.1, credEv ev = true → canAuth c s = true) ∧ (o.1.tls = s.tls ∨ o.2.2 = .switch)

theorem pollEv_cred (s : SrvSt) : ∀ ev ∈ pollEv s, credEv ev = false := by
  intro ev hev; unfold pollEv at hev; split at hev <;> simp_all [credEv, isCred]

theorem execNoop_ok (c : Cfg) (s : SrvSt) (tag : Bytes) (args : List Bytes) : CredOK c s (execNoop s tag args) := by
  unfold execNoop CredOK
  split <;> refine ⟨?_, Or.inl rfl⟩ <;> intro ev hev hc <;> simp at hev
  · subst hev; simp [credEv] at hc
  · rcases hev with h | rfl
    · rw [pollEv_cred s ev h] at hc; cases hc
    · simp [credEv] at hc

theorem execCapability_ok (c : Cfg) (s : SrvSt) (tag : Bytes) (args : List Bytes) :
    CredOK c s (execCapability c s tag args) := by
  unfold execCapability CredOK
  split <;> refine ⟨?_, Or.inl rfl⟩ <;> intro ev hev hc <;> simp at hev
  · subst hev; simp [credEv] at hc
  · rcases hev with rfl | h | rfl
    · simp [credEv] at hc
    · rw [pollEv_cred s ev h] at hc; cases hc
    · simp [credEv] at hc

theorem execStartTLS_ok (c : Cfg) (s : SrvSt) (tag : Bytes) (args : List Bytes) :
    CredOK c s (execStartTLS c s tag args) := by
  unfold execStartTLS CredOK
  split_ifs <;> refine ⟨?_, ?_⟩ <;> (try exact Or.inl rfl) <;> (try exact Or.inr rfl) <;>
    (intro ev hev hc; simp at hev; subst hev; simp [credEv] at hc)

theorem execLogin_ok (c : Cfg) (s : SrvSt) (tag : Bytes) (args : List Bytes) :
    CredOK c s (execLogin c s tag args) := by
  unfold execLogin CredOK
  split
  · split_ifs with h1 h2 h3 <;> refine ⟨?_, Or.inl rfl⟩ <;> intro ev hev hc <;> simp at hev
    · subst hev; simp [credEv] at hc
    · subst hev; simp [credEv] at hc
    · subst hev; simp [credEv] at hc
    · simpa using h3
  · refine ⟨?_, Or.inl rfl⟩; intro ev hev hc; simp at hev; subst hev; simp [credEv] at hc

theorem execAuthenticate_ok (c : Cfg) (s : SrvSt) (tag : Bytes) (args : List Bytes) :
    CredOK c s (execAuthenticate c s tag args) := by
  unfold execAuthenticate CredOK
  split
  · split_ifs with h1 h2 h3 <;> refine ⟨?_, Or.inl rfl⟩ <;> intro ev hev hc <;> simp at hev
    · subst hev; simp [credEv] at hc
    · subst hev; simp [credEv] at hc
    · subst hev; simp [credEv] at hc
    · simpa using h3
  · refine ⟨?_, Or.inl rfl⟩; intro ev hev hc; simp at hev; subst hev; simp [credEv] at hc

theorem execDelete_ok (c : Cfg) (s : SrvSt) (tag : Bytes) (args : List Bytes) : CredOK c s (execDelete s tag args) := by
  unfold execDelete CredOK
  split
  · split_ifs <;> refine ⟨?_, Or.inl rfl⟩ <;> intro ev hev hc <;> simp at hev
    · subst hev; simp [credEv] at hc
    · subst hev; simp [credEv] at hc
    · rcases hev with rfl | h | rfl
      · simp [credEv, isCred] at hc
      · rw [pollEv_cred s ev h] at hc; cases hc
      · simp [credEv] at hc
  · refine ⟨?_, Or.inl rfl⟩; intro ev hev hc; simp at hev; subst hev; simp [credEv] at hc

theorem execLogout_ok (c : Cfg) (s : SrvSt) (tag : Bytes) (args : List Bytes) : CredOK c s (execLogout s tag args) := by
  unfold execLogout CredOK
  split <;> refine ⟨?_, Or.inl rfl⟩ <;> intro ev hev hc <;> simp at hev
  · subst hev; simp [credEv] at hc
  · rcases hev with rfl | rfl <;> simp [credEv] at hc

theorem execUnknown_ok (c : Cfg) (s : SrvSt) (tag : Bytes) : CredOK c s (execUnknown s tag) := by
  unfold execUnknown CredOK
  split <;> refine ⟨?_, Or.inl rfl⟩ <;> intro ev hev hc <;> simp at hev
  · rcases hev with rfl | rfl <;> simp [credEv] at hc
  · subst hev; simp [credEv] at hc

theorem execCmd_ok (c : Cfg) (s : SrvSt) (tag nm : Bytes) (args : List Bytes) : CredOK c s (execCmd c s tag nm args) := by
  unfold execCmd
  split_ifs
  · exact execNoop_ok c s tag args
  · exact execCapability_ok c s tag args
  · exact execStartTLS_ok c s tag args
  · exact execLogin_ok c s tag args
  · exact execAuthenticate_ok c s tag args
  · exact execDelete_ok c s tag args
  · exact execLogout_ok c s tag args
  · exact execUnknown_ok c s tag

theorem serverExec_ok (c : Cfg) (s : SrvSt) (line : Bytes) : CredOK c s (serverExec c s line) := by
  unfold serverExec
  split
  · split_ifs
    · refine ⟨?_, Or.inl rfl⟩; intro ev hev hc; simp at hev; subst hev; simp [credEv] at hc
    · exact execCmd_ok c s _ _ _
  · refine ⟨?_, Or.inl rfl⟩; intro ev hev hc; simp at hev; subst hev; simp [credEv] at hc

/-! ### credentials along a whole plaintext run -/

theorem canAuth_plain {c : Cfg} {s : SrvSt} (h : canAuth c s = true) (ht : s.tls = false) : c.insecure = true := by
  unfold canAuth at h
  split at h
  · cases h
  · simpa [ht] using h

/-- invariant of the raw-socket run with a drained reader: while the parser reads plaintext the
    connection is not TLS, and every credentials event so far required InsecureAuth -/
def CredInv (c : Cfg) (r : RSt SrvSt SEv) : Prop :=
  r.mode ≠ .held ∧ (r.mode = .plain → r.st.tls = false) ∧ ∀ e ∈ r.evs, credEv e.2 = true → c.insecure = true

theorem credInv_init (c : Cfg) : CredInv c (RSt.init (srvInit c)) := by
  refine ⟨by simp [RSt.init], fun _ => by simp [RSt.init, srvInit], ?_⟩
  intro e he; simp [RSt.init] at he

theorem stepByte_credInv (c : Cfg) (r : RSt SrvSt SEv) (b : UInt8) (h : CredInv c r) :
    CredInv c (stepByte .drain (serverExec c) r b) := by
  obtain ⟨h1, h2, h3⟩ := h
  have hne := stepByte_drain_ne_held (serverExec c) r b h1
  refine ⟨hne, ?_, ?_⟩
  · intro hm
    have hp := stepByte_plain_inv .drain (serverExec c) r b hm
    have ht := h2 hp
    by_cases hb : b = 10
    · subst hb
      rw [stepByte_LF .drain (serverExec c) r hp] at hm ⊢
      simp only at hm ⊢
      rcases (serverExec_ok c r.st (r.cur ++ [10])).2 with h | h
      · rw [h, ht]
      · rw [h] at hm; simp [nextMode] at hm
    · have : stepByte .drain (serverExec c) r b = { r with cur := r.cur ++ [b], off := r.off + 1, plain := r.plain ++ [b] } := by
        unfold stepByte; rw [hp]; simp [hb]
      rw [this]; exact ht
  · intro e he hc
    unfold stepByte at he
    split at he
    · exact h3 e he hc
    · exact h3 e he hc
    · rename_i hp
      split at he
      · simp only [List.mem_append, List.mem_map] at he
        rcases he with he | ⟨x, hx, rfl⟩
        · exact h3 e he hc
        · exact canAuth_plain ((serverExec_ok c r.st _).1 x hx hc) (h2 hp)
      · exact h3 e he hc
    · rename_i hh; exact absurd hh h1

theorem scan_credInv (c : Cfg) (bs : Bytes) (r : RSt SrvSt SEv) (h : CredInv c r) :
    CredInv c (scan .drain (serverExec c) r bs) := by
  induction bs generalizing r with
  | nil => simpa [scan_nil] using h
  | cons b bs ih => rw [scan_cons]; exact ih _ (stepByte_credInv c r b h)

end GoImap.StartTLSLemmas
