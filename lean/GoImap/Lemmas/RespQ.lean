/-
  C03, ENVELOPE / BODYSTRUCTURE proofs: the assumptions about the two functions that are below the
  modelled interface (`mime.QEncoding.Encode`, `mime.WordDecoder.DecodeHeader`), which enter the model
  as tables (Model/RespBody.lean `qenc`, `qdec`).
-/
import GoImap.Model.RespBody
import GoImap.Spec.RespGrammar
namespace GoImap.Resp

/-- header text that the server Q-encodes (subject, address name): the tables answer, and decoding the
    encoded form gives the text back. This is `qdec (qenc s) = s` of DESIGN §5.3; it fails exactly for
    the encoded-word look-alikes of known finding F22. -/
def QOK (enc dec : QTab) (s : Str) : Prop := ∃ w, qenc enc s = some w ∧ qdec dec w = some s

/-- header text that the server sends as is but the client decodes (body description, parameter value) -/
def QRaw (dec : QTab) (s : Str) : Prop := qdec dec s = some s

/-- plain printable text without "=?" satisfies both, whatever the tables -/
theorem qok_plain (enc dec : QTab) (s : Str) (h1 : needsEncoding s = false) (h2 : hasEqQ s = false) : QOK enc dec s :=
  ⟨s, by simp [qenc, h1], by simp [qdec, h2]⟩

theorem qraw_plain (dec : QTab) (s : Str) (h2 : hasEqQ s = false) : QRaw dec s := by simp [QRaw, qdec, h2]

/-- the bound under which a string can travel as a literal (`decLiteral` reads an int64 length) -/
def Fits (s : Str) : Prop := s.length < 9223372036854775808

end GoImap.Resp
