/-
  C01: the string layer — `Encoder.String` against `Decoder.String / ExpectString / ExpectAString`
  of the peer side, for all eight mode combinations and both directions.
-/
import GoImap.Lemmas.Wire
namespace GoImap.Wire

/-- the bytes `Encoder.String` writes for `s` under `cfg` -/
def strBytes (cfg : Cfg) (s : Bytes) : Bytes :=
  if validQuoted cfg s then encQuoted s
  else litHeader cfg s.length (needSync cfg s.length) ++ s

/-- what the peer's literal hook is told for `s` under `cfg` -/
def strLits (cfg : Cfg) (s : Bytes) : List (Nat × Bool) :=
  if validQuoted cfg s then []
  else [(s.length, decide (cfg.side = .client) && !needSync cfg s.length)]

/-- `Encoder.String` on an error-free encoder: appends `strBytes`, stays error-free, and waits
    exactly when a synchronising literal is required — right after the literal header -/
theorem encString_ok (cfg : Cfg) (s : Bytes) (e : Enc) (he : e.err = false) :
    (encString cfg s e).err = false ∧
    (encString cfg s e).out = e.out ++ strBytes cfg s ∧
    (encString cfg s e).waits =
      e.waits ++ (if !validQuoted cfg s && needSync cfg s.length
        then [(e.out ++ litHeader cfg s.length true).length] else []) := by
  unfold encString strBytes
  by_cases hv : validQuoted cfg s = true
  · simp [hv, Enc.write, he]
  · have hv' : validQuoted cfg s = false := by simpa using hv
    simp only [hv', Bool.not_false, if_true, Bool.true_and]
    unfold encLiteral
    by_cases hs : needSync cfg s.length = true
    · simp [he, hs]
    · have hs' : needSync cfg s.length = false := by simpa using hs
      simp [he, hs', Enc.write]

/-- a sticky encoder error is preserved by `Encoder.String` -/
theorem encString_err (cfg : Cfg) (s : Bytes) (e : Enc) (he : e.err = true) :
    encString cfg s e = e := by
  unfold encString encLiteral Enc.write
  simp [he]

theorem decCRLF_crlf (rest : Bytes) (e : Option Err) (l : List (Nat × Bool)) :
    decCRLF ⟨13 :: 10 :: rest, e, l⟩ = (true, ⟨rest, e, l⟩) := by
  simp [decCRLF, acceptByte]

/-- the peer reads a literal written by `Encoder.Literal` (either side, sync or not) -/
theorem decLiteral_header (cfg : Cfg) (sync : Bool) (s rest : Bytes) (hlen : s.length < lim63)
    (hsrv : cfg.side = .server → sync = false)
    (e : Option Err) (l : List (Nat × Bool)) :
    decLiteral cfg.side.peer ⟨litHeader cfg s.length sync ++ s ++ rest, e, l⟩ =
      (true, s, ⟨rest, e, l ++ [(s.length, decide (cfg.side = .client) && !sync)]⟩) := by
  unfold decLiteral litHeader
  cases hside : cfg.side with
  | client =>
    cases sync with
    | true =>
      have h1 : expectNumber64 ⟨digits s.length ++ 125 :: (13 :: 10 :: (s ++ rest)), e, l⟩ =
          (true, s.length, ⟨125 :: (13 :: 10 :: (s ++ rest)), e, l⟩) :=
        expectNumberLim_digits lim63 s.length hlen 125 _ (by decide) e l
      simp [acceptByte, Side.peer, h1, expectSpecial, expect, expectCRLF, decCRLF]
    | false =>
      have h1 : expectNumber64 ⟨digits s.length ++ 43 :: (125 :: 13 :: 10 :: (s ++ rest)), e, l⟩ =
          (true, s.length, ⟨43 :: (125 :: 13 :: 10 :: (s ++ rest)), e, l⟩) :=
        expectNumberLim_digits lim63 s.length hlen 43 _ (by decide) e l
      simp [acceptByte, Side.peer, h1, expectSpecial, expect, expectCRLF, decCRLF]
  | server =>
    have hs := hsrv hside
    subst hs
    have h1 : expectNumber64 ⟨digits s.length ++ 125 :: (13 :: 10 :: (s ++ rest)), e, l⟩ =
        (true, s.length, ⟨125 :: (13 :: 10 :: (s ++ rest)), e, l⟩) :=
      expectNumberLim_digits lim63 s.length hlen 125 _ (by decide) e l
    simp [acceptByte, Side.peer, h1, expectSpecial, expect, expectCRLF, decCRLF]

theorem needSync_server (cfg : Cfg) (n : Nat) (h : cfg.side = .server) : needSync cfg n = false := by
  simp [needSync, h]

theorem litHeader_head (cfg : Cfg) (n : Nat) (sync : Bool) (t : Bytes) :
    ∃ u, litHeader cfg n sync ++ t = 123 :: u := by
  simp [litHeader]

/-- `Decoder.String` of the peer over what `Encoder.String` wrote -/
theorem decString_strBytes (cfg : Cfg) (s rest : Bytes) (hlen : s.length < lim63)
    (e : Option Err) (l : List (Nat × Bool)) :
    decString cfg.side.peer ⟨strBytes cfg s ++ rest, e, l⟩ =
      (true, s, ⟨rest, e, l ++ strLits cfg s⟩) := by
  unfold strBytes strLits decString
  by_cases hv : validQuoted cfg s = true
  · simp only [hv, if_true]
    rw [encQuoted_append]
    simp [decQuoted, acceptByte, unq_quoteBody]
  · have hv' : validQuoted cfg s = false := by simpa using hv
    simp only [hv', Bool.false_eq_true, if_false]
    obtain ⟨u, hu⟩ := litHeader_head cfg s.length (needSync cfg s.length) (s ++ rest)
    have hq : decQuoted ⟨litHeader cfg s.length (needSync cfg s.length) ++ s ++ rest, e, l⟩ =
        (false, [], ⟨litHeader cfg s.length (needSync cfg s.length) ++ s ++ rest, e, l⟩) := by
      rw [List.append_assoc, hu]
      simp [decQuoted, acceptByte]
    rw [hq]
    simp only [Bool.false_eq_true, if_false]
    exact decLiteral_header cfg (needSync cfg s.length) s rest hlen
      (fun h => needSync_server cfg _ h) e l

/-- `Decoder.ExpectString` -/
theorem expectString_strBytes (cfg : Cfg) (s rest : Bytes) (hlen : s.length < lim63)
    (e : Option Err) (l : List (Nat × Bool)) :
    expectString cfg.side.peer ⟨strBytes cfg s ++ rest, e, l⟩ =
      (true, s, ⟨rest, e, l ++ strLits cfg s⟩) := by
  unfold expectString
  rw [decString_strBytes cfg s rest hlen e l]
  simp [expect]

/-- `Decoder.ExpectAString` -/
theorem expectAString_strBytes (cfg : Cfg) (s rest : Bytes) (hlen : s.length < lim63)
    (e : Option Err) (l : List (Nat × Bool)) :
    expectAString cfg.side.peer ⟨strBytes cfg s ++ rest, e, l⟩ =
      (true, s, ⟨rest, e, l ++ strLits cfg s⟩) := by
  have h := decString_strBytes cfg s rest hlen e l
  unfold decString at h
  unfold expectAString
  cases hq : decQuoted ⟨strBytes cfg s ++ rest, e, l⟩ with
  | mk ok p =>
    cases p with
    | mk v s1 =>
      rw [hq] at h
      cases ok with
      | true => simpa using h
      | false =>
        simp only [Bool.false_eq_true, if_false] at h ⊢
        rw [h]
        simp

end GoImap.Wire
