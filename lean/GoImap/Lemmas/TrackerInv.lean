/-
  C07 helper lemmas, part 3: the correspondence invariant between the concrete tracker state
  (`St`: a count and per-session queues of numeric updates) and the ghost state (`GSt`: a mailbox of
  message identities, per-session views and pending identity updates), and its preservation by
  every API call.
-/
import GoImap.Lemmas.TrackerBasic
namespace GoImap.TrackerLemmas
open GoImap.Tracker GoImap.TrackerSpec

/-- one concrete session against its ghost twin, relative to the ghost mailbox and id supply -/
def SessInv (mbox : List Id) (next : Nat) (s : Sess) (gs : GSess) : Prop :=
  s.id = gs.id ∧
  -- the concrete queue is exactly what the pending ghost updates deliver from the view, and
  -- applying them to the view yields the mailbox
  deliverAll gs.view gs.pending = some (s.queue, mbox) ∧
  -- all identities ever in play for this session are distinct
  (gs.view ++ appended gs.pending).Nodup ∧
  -- and were handed out already
  ∀ x : Nat, x ∈ gs.view ++ appended gs.pending → x < next

/-- same sessions in the same order, pointwise related -/
def SessRel (R : Sess → GSess → Prop) : List Sess → List GSess → Prop
  | [], [] => True
  | s :: ss, g :: gs => R s g ∧ SessRel R ss gs
  | [], _ :: _ => False
  | _ :: _, [] => False

/-- the correspondence invariant -/
structure Inv (st : St) (g : GSt) : Prop where
  count : st.n = g.mbox.length
  nodup : g.mbox.Nodup
  fresh : ∀ x : Nat, x ∈ g.mbox → x < g.next
  sess : SessRel (SessInv g.mbox g.next) st.sess g.sess

/-! ### SessRel -/

theorem SessRel.map {R R' : Sess → GSess → Prop} {f : Sess → Sess} {f' : GSess → GSess}
    (hf : ∀ s g, R s g → R' (f s) (f' g)) :
    ∀ {ss : List Sess} {gs : List GSess}, SessRel R ss gs → SessRel R' (ss.map f) (gs.map f')
  | [], [], _ => trivial
  | _ :: _, _ :: _, h => ⟨hf _ _ h.1, SessRel.map hf h.2⟩
  | [], _ :: _, h => h.elim
  | _ :: _, [], h => h.elim

theorem SessRel.mono {R R' : Sess → GSess → Prop} (hf : ∀ s g, R s g → R' s g)
    {ss : List Sess} {gs : List GSess} (h : SessRel R ss gs) : SessRel R' ss gs := by
  simpa using SessRel.map (f := id) (f' := id) hf h

theorem SessRel.filter {R : Sess → GSess → Prop} {p : Sess → Bool} {p' : GSess → Bool}
    (hp : ∀ s g, R s g → p s = p' g) :
    ∀ {ss : List Sess} {gs : List GSess}, SessRel R ss gs → SessRel R (ss.filter p) (gs.filter p')
  | [], [], _ => trivial
  | s :: ss, g :: gs, h => by
    have ih := SessRel.filter hp h.2
    have := hp _ _ h.1
    simp only [List.filter_cons, ← this]
    cases p s
    · simpa using ih
    · exact ⟨h.1, ih⟩
  | [], _ :: _, h => h.elim
  | _ :: _, [], h => h.elim

theorem SessRel.append {R : Sess → GSess → Prop} {ss2 : List Sess} {gs2 : List GSess}
    (h2 : SessRel R ss2 gs2) :
    ∀ {ss : List Sess} {gs : List GSess}, SessRel R ss gs → SessRel R (ss ++ ss2) (gs ++ gs2)
  | [], [], _ => h2
  | _ :: _, _ :: _, h => ⟨h.1, SessRel.append h2 h.2⟩
  | [], _ :: _, h => h.elim
  | _ :: _, [], h => h.elim

theorem SessRel.find? {R : Sess → GSess → Prop} {p : Sess → Bool} {p' : GSess → Bool}
    (hp : ∀ s g, R s g → p s = p' g) :
    ∀ {ss : List Sess} {gs : List GSess}, SessRel R ss gs →
      (ss.find? p = none ∧ gs.find? p' = none) ∨
      ∃ s g, ss.find? p = some s ∧ gs.find? p' = some g ∧ R s g
  | [], [], _ => Or.inl ⟨rfl, rfl⟩
  | s :: ss, g :: gs, h => by
    have := hp _ _ h.1
    simp only [List.find?_cons, ← this]
    cases p s
    · exact SessRel.find? hp h.2
    · exact Or.inr ⟨s, g, rfl, rfl, h.1⟩
  | [], _ :: _, h => h.elim
  | _ :: _, [], h => h.elim

theorem SessRel.getElem? {R : Sess → GSess → Prop} :
    ∀ {ss : List Sess} {gs : List GSess}, SessRel R ss gs → ∀ (i : Nat) {s : Sess} {g : GSess},
      ss[i]? = some s → gs[i]? = some g → R s g
  | [], [], _, i, s, g, hs, _ => by simp at hs
  | s0 :: ss, g0 :: gs, h, 0, s, g, hs, hg => by
    simp only [List.getElem?_cons_zero, Option.some.injEq] at hs hg
    subst hs; subst hg; exact h.1
  | s0 :: ss, g0 :: gs, h, i + 1, s, g, hs, hg => by
    simp only [List.getElem?_cons_succ] at hs hg
    exact SessRel.getElem? h.2 i hs hg
  | [], _ :: _, h, _, _, _, _, _ => h.elim
  | _ :: _, [], h, _, _, _, _, _ => h.elim

theorem SessRel.length {R : Sess → GSess → Prop} :
    ∀ {ss : List Sess} {gs : List GSess}, SessRel R ss gs → ss.length = gs.length
  | [], [], _ => rfl
  | s :: ss, g :: gs, h => by simp [SessRel.length h.2]
  | [], _ :: _, h => h.elim
  | _ :: _, [], h => h.elim

/-! ### one more pending update for a session -/

theorem sessInv_push {mbox mbox' : List Id} {next next' : Nat} {x : Upd} {u : GUpd} {s : Sess}
    {gs : GSess} (h : SessInv mbox next s gs) (hd : deliver mbox u = some (x, mbox'))
    (hle : next ≤ next') (hnd : (appended [u]).Nodup)
    (hnew : ∀ y : Nat, y ∈ appended [u] → next ≤ y ∧ y < next') :
    SessInv mbox' next' { s with queue := s.queue ++ [x] } { gs with pending := gs.pending ++ [u] } := by
  obtain ⟨hid, hdel, hnod, hlt⟩ := h
  refine ⟨hid, ?_, ?_, ?_⟩
  · exact deliverAll_append_of gs.pending hdel (deliverAll_singleton_of hd)
  · show (gs.view ++ appended (gs.pending ++ [u])).Nodup
    rw [appended_append, ← List.append_assoc]
    refine List.nodup_append.mpr ⟨hnod, hnd, ?_⟩
    intro a ha b hb hab
    have h1 : (a : Nat) < next := hlt a ha
    have h2 : (next : Nat) ≤ b := (hnew b hb).1
    subst hab
    exact Nat.lt_irrefl _ (Nat.lt_of_lt_of_le h1 h2)
  · show ∀ y ∈ gs.view ++ appended (gs.pending ++ [u]), y < next'
    rw [appended_append, ← List.append_assoc]
    intro y hy
    rcases List.mem_append.mp hy with hy | hy
    · have h1 : (y : Nat) < next := hlt y hy
      exact Nat.lt_of_lt_of_le h1 hle
    · exact (hnew y hy).2

theorem sessRel_dispatch {mbox mbox' : List Id} {next next' : Nat} {x : Upd} {u : GUpd}
    {src : Option Nat} {ss : List Sess} {gss : List GSess}
    (hpush : ∀ s gs, SessInv mbox next s gs →
      SessInv mbox' next' { s with queue := s.queue ++ [x] } { gs with pending := gs.pending ++ [u] })
    (hskip : src ≠ none → ∀ s gs, SessInv mbox next s gs → SessInv mbox' next' s gs)
    (h : SessRel (SessInv mbox next) ss gss) :
    SessRel (SessInv mbox' next')
      (ss.map fun s => if src = some s.id then s else { s with queue := s.queue ++ [x] })
      (gss.map fun s => if src = some s.id then s else { s with pending := s.pending ++ [u] }) := by
  refine SessRel.map ?_ h
  intro s gs hs
  have hid : s.id = gs.id := hs.1
  by_cases hc : src = some s.id
  · have hc' : src = some gs.id := hid ▸ hc
    rw [if_pos hc, if_pos hc']
    exact hskip (by rw [hc]; simp) s gs hs
  · have hc' : ¬ src = some gs.id := hid ▸ hc
    rw [if_neg hc, if_neg hc']
    exact hpush s gs hs

/-! ### poll -/

theorem pollSplit_false_cons_expunge (k : Nat) (q : List Upd) :
    pollSplit (.expunge k :: q) false = ([], .expunge k :: q) := by
  simp [pollSplit]

theorem pollSplit_false_cons_other {x : Upd} (hx : ∀ k, x ≠ .expunge k) (q : List Upd) :
    pollSplit (x :: q) false = (x :: (pollSplit q false).1, (pollSplit q false).2) := by
  cases x with
  | expunge k => exact absurd rfl (hx k)
  | exists_ a b => simp [pollSplit]
  | mflags => simp [pollSplit]
  | fetch k => simp [pollSplit]

/-- the ghost's "due" prefix and the concrete `pollSplit` cut the queue at the same place -/
theorem poll_false_split : ∀ (pend : List GUpd) {v : List Id} {q : List Upd} {m : List Id},
    deliverAll v pend = some (q, m) →
    ∃ q1 v1 q2,
      deliverAll v (pend.takeWhile fun u => !isExpunge u) = some (q1, v1) ∧
      deliverAll v1 (pend.drop (pend.takeWhile fun u => !isExpunge u).length) = some (q2, m) ∧
      pollSplit q false = (q1, q2)
  | [], v, q, m, h => by
    simp only [deliverAll_nil, Option.some.injEq, Prod.mk.injEq] at h
    obtain ⟨rfl, rfl⟩ := h
    exact ⟨[], v, [], rfl, rfl, by simp [pollSplit]⟩
  | u :: us, v, q, m, h => by
    obtain ⟨x, v', xs, hd, hr, rfl⟩ := deliverAll_cons_some h
    obtain ⟨q1, v1, q2, h1, h2, h3⟩ := poll_false_split us hr
    cases u with
    | expunge id =>
      obtain ⟨_, rfl, rfl⟩ := deliver_expunge hd
      refine ⟨[], v, _, ?_, ?_, pollSplit_false_cons_expunge _ _⟩
      · simp [isExpunge, deliverAll_nil]
      · simpa [isExpunge] using h
    | exists_ ids =>
      obtain ⟨rfl, rfl⟩ := deliver_exists hd
      refine ⟨.exists_ v.length (v.length + ids.length) :: q1, v1, q2, ?_, ?_, ?_⟩
      · simp only [isExpunge, Bool.not_false, List.takeWhile_cons_of_pos]
        exact deliverAll_cons_of hd h1
      · simpa [isExpunge] using h2
      · rw [pollSplit_false_cons_other (by intro k hk; cases hk), h3]
    | mflags =>
      obtain ⟨rfl, rfl⟩ := deliver_mflags hd
      refine ⟨.mflags :: q1, v1, q2, ?_, ?_, ?_⟩
      · simp only [isExpunge, Bool.not_false, List.takeWhile_cons_of_pos]
        exact deliverAll_cons_of hd h1
      · simpa [isExpunge] using h2
      · rw [pollSplit_false_cons_other (by intro k hk; cases hk), h3]
    | fetch id =>
      obtain ⟨_, rfl, rfl⟩ := deliver_fetch hd
      refine ⟨.fetch (posOf id v') :: q1, v1, q2, ?_, ?_, ?_⟩
      · simp only [isExpunge, Bool.not_false, List.takeWhile_cons_of_pos]
        exact deliverAll_cons_of hd h1
      · simpa [isExpunge] using h2
      · rw [pollSplit_false_cons_other (by intro k hk; cases hk), h3]

/-- the updates due at a poll -/
def dueOf (pend : List GUpd) (allow : Bool) : List GUpd :=
  if allow then pend else pend.takeWhile (fun u => !isExpunge u)

theorem dueOf_append_drop (pend : List GUpd) (allow : Bool) :
    dueOf pend allow ++ pend.drop (dueOf pend allow).length = pend := by
  cases allow
  · exact takeWhile_drop _ pend
  · simp [dueOf]

theorem poll_split (allow : Bool) {pend : List GUpd} {v : List Id} {q : List Upd} {m : List Id}
    (h : deliverAll v pend = some (q, m)) :
    ∃ q1 v1 q2,
      deliverAll v (dueOf pend allow) = some (q1, v1) ∧
      deliverAll v1 (pend.drop (dueOf pend allow).length) = some (q2, m) ∧
      pollSplit q allow = (q1, q2) := by
  cases allow
  · exact poll_false_split pend h
  · exact ⟨q, m, [], by simpa [dueOf] using h, by simp [dueOf, deliverAll_nil], by simp [pollSplit]⟩

/-- after a poll the session is again in the invariant, with the advanced view -/
theorem sessInv_poll {mbox : List Id} {next : Nat} {s : Sess} {gs : GSess} (allow : Bool)
    (h : SessInv mbox next s gs) {q1 q2 : List Upd} {v1 : List Id}
    (h1 : deliverAll gs.view (dueOf gs.pending allow) = some (q1, v1))
    (h2 : deliverAll v1 (gs.pending.drop (dueOf gs.pending allow).length) = some (q2, mbox))
    (s' : Sess) (gs' : GSess) (hid : s'.id = gs'.id) :
    SessInv mbox next { s' with queue := q2 }
      { gs' with view := v1, pending := gs.pending.drop (dueOf gs.pending allow).length } := by
  obtain ⟨_, _, hnod, hlt⟩ := h
  have hsub : (v1 ++ appended (gs.pending.drop (dueOf gs.pending allow).length)).Sublist
      (gs.view ++ appended gs.pending) := by
    have := deliverAll_sublist _ h1
    have h3 := List.Sublist.append this
      (List.Sublist.refl (appended (gs.pending.drop (dueOf gs.pending allow).length)))
    rw [List.append_assoc, ← appended_append, dueOf_append_drop] at h3
    exact h3
  exact ⟨hid, h2, List.Nodup.sublist hsub hnod, fun x hx => hlt x (hsub.subset hx)⟩

end GoImap.TrackerLemmas
