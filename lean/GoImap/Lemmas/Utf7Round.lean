/- C16 helper lemmas: the encoder output decodes back (round trip), encoder output is printable. -/
import GoImap.Lemmas.Utf7Basic
namespace GoImap.Utf7Lemmas
open GoImap.Utf7

/-! ### UTF-16 -/

theorem utf16_one_bmp (c : Nat) (rest : BytesN) (_h1 : c < 65536) (h2 : ¬ (55296 ≤ c ∧ c < 57344))
    (h3 : printable c = false) :
    utf16dec (c / 256 :: c % 256 :: rest) = (utf16dec rest).map (c :: ·) := by
  rw [utf16dec.eq_def]
  have e1 : c / 256 * 256 + c % 256 = c := by omega
  simp only [e1]
  rw [if_neg h2, h3]
  simp

theorem scalarNP_iff (c : Nat) : ScalarNP c ↔ Scalar c ∧ printable c = false := by
  unfold ScalarNP Scalar; rfl

theorem utf16dec_utf16be (c : Nat) (rest : BytesN) (h : ScalarNP c) :
    utf16dec (utf16be c ++ rest) = (utf16dec rest).map (c :: ·) := by
  obtain ⟨hs, hp⟩ := h
  unfold utf16be
  by_cases hc : c < 65536
  · simp only [hc, if_true, List.cons_append, List.nil_append]
    exact utf16_one_bmp c rest hc (by omega) hp
  · simp only [hc, if_false, List.cons_append, List.nil_append]
    exact utf16_one_astral c rest (by omega) (by omega)

theorem utf16dec_flatMap : ∀ (cs : List Nat), (∀ c ∈ cs, ScalarNP c) →
    utf16dec (cs.flatMap utf16be) = some cs
  | [], _ => by simp [utf16dec]
  | c :: cs, h => by
    rw [List.flatMap_cons, utf16dec_utf16be c _ (h c (by simp)),
      utf16dec_flatMap cs (fun x hx => h x (by simp [hx]))]
    rfl

set_option maxRecDepth 4000 in
theorem utf16be_lt (c : Nat) (h : c < 1114112) : ∀ b ∈ utf16be c, b < 256 := by
  unfold utf16be
  intro b hb
  split_ifs at hb with hc
  · simp only [List.mem_cons, List.not_mem_nil, or_false] at hb
    omega
  · simp only [List.mem_cons, List.not_mem_nil, or_false] at hb
    omega

theorem utf16be_ne_nil (c : Nat) : utf16be c ≠ [] := by
  unfold utf16be; split_ifs <;> simp

theorem scalar_lt {c : Nat} (h : Scalar c) : c < 1114112 := by unfold Scalar at h; omega

theorem flatMap_utf16be_lt (cs : List Nat) (h : ∀ c ∈ cs, Scalar c) :
    ∀ b ∈ cs.flatMap utf16be, b < 256 := by
  intro b hb
  obtain ⟨c, hc, hbc⟩ := List.mem_flatMap.mp hb
  exact utf16be_lt c (scalar_lt (h c hc)) b hbc

theorem flatMap_utf16be_ne_nil : ∀ (cs : List Nat), cs ≠ [] → cs.flatMap utf16be ≠ []
  | [], h => absurd rfl h
  | c :: cs, _ => by
    rw [List.flatMap_cons]
    intro h
    exact utf16be_ne_nil c (List.append_eq_nil_iff.mp h).1

/-! ### base64 output characters -/

theorem b64enc_mem : ∀ (bs : BytesN), (∀ b ∈ bs, b < 256) → ∀ x ∈ b64enc bs, x ∈ alphabet
  | [], _, x, hx => by simp [b64enc] at hx
  | [b0], h, x, hx => by
    have h0 : b0 < 256 := h b0 (by simp)
    simp only [b64enc, List.mem_cons, List.not_mem_nil, or_false] at hx
    rcases hx with rfl | rfl <;> exact b64char_mem _ (by omega)
  | [b0, b1], h, x, hx => by
    have h0 : b0 < 256 := h b0 (by simp)
    have h1 : b1 < 256 := h b1 (by simp)
    simp only [b64enc, List.mem_cons, List.not_mem_nil, or_false] at hx
    rcases hx with rfl | rfl | rfl <;> exact b64char_mem _ (by omega)
  | b0 :: b1 :: b2 :: r, h, x, hx => by
    have h0 : b0 < 256 := h b0 (by simp)
    have h1 : b1 < 256 := h b1 (by simp)
    have h2 : b2 < 256 := h b2 (by simp)
    simp only [b64enc, List.mem_cons] at hx
    rcases hx with rfl | rfl | rfl | rfl | hx
    · exact b64char_mem _ (by omega)
    · exact b64char_mem _ (by omega)
    · exact b64char_mem _ (by omega)
    · exact b64char_mem _ (by omega)
    · exact b64enc_mem r (fun b hb => h b (by simp [hb])) x hx

theorem b64enc_ne_nil : ∀ (bs : BytesN), bs ≠ [] → b64enc bs ≠ []
  | [], h => absurd rfl h
  | [_], _ => by simp [b64enc]
  | [_, _], _ => by simp [b64enc]
  | _ :: _ :: _ :: _, _ => by simp [b64enc]

/-! ### one shifted run -/

theorem decodeSeg_run (run : List Nat) (hne : run ≠ []) (h : ∀ c ∈ run, ScalarNP c) :
    decodeSeg (b64enc (run.flatMap utf16be)) = some run := by
  have hs : ∀ c ∈ run, Scalar c := fun c hc => ((scalarNP_iff c).mp (h c hc)).1
  have hlt := flatMap_utf16be_lt run hs
  unfold decodeSeg
  have hlast : ¬ (b64enc (run.flatMap utf16be)).getLast? = some 61 := by
    intro hl
    have hm := b64enc_mem _ hlt 61 (List.mem_of_getLast? hl)
    exact (alphabet_props 61 hm).2.2.2.1 rfl
  rw [if_neg hlast, b64_rt _ hlt]
  simp only [Option.bind_eq_bind, Option.bind_some, utf16dec_flatMap run h]
  cases run with
  | nil => exact absurd rfl hne
  | cons c cs => rfl

theorem dec_encRun (run : List Nat) (tail : BytesN) (hne : run ≠ []) (h : ∀ c ∈ run, ScalarNP c) :
    dec true none (encRun run ++ tail) = (dec false none tail).map (run ++ ·) := by
  have hs : ∀ c ∈ run, Scalar c := fun c hc => ((scalarNP_iff c).mp (h c hc)).1
  have hlt := flatMap_utf16be_lt run hs
  have hno : ∀ c ∈ b64enc (run.flatMap utf16be), c ≠ 45 :=
    fun c hc => (alphabet_props c (b64enc_mem _ hlt c hc)).1
  have hne2 : b64enc (run.flatMap utf16be) ≠ [] := b64enc_ne_nil _ (flatMap_utf16be_ne_nil run hne)
  have hemp : (b64enc (run.flatMap utf16be)).isEmpty = false := by
    cases hb : b64enc (run.flatMap utf16be) with
    | nil => exact absurd hb hne2
    | cons _ _ => rfl
  have e : encRun run ++ tail = 38 :: b64enc (run.flatMap utf16be) ++ 45 :: tail := by
    simp [encRun]
  rw [e, dec_shift true _ tail hno]
  simp only [decSeg, hemp, Bool.false_eq_true, if_false, Bool.not_true, decodeSeg_run run hne h,
    Option.bind_some]

/-- a printable character (with '&' escaped as "&-") -/
theorem dec_esc (a : Bool) (c : Nat) (tail : BytesN) (hp : printable c = true) :
    dec a none ((if c = 38 then [38, 45] else [c]) ++ tail) = (dec true none tail).map (c :: ·) := by
  by_cases hc : c = 38
  · subst hc
    simp only [if_true, List.cons_append, List.nil_append]
    have := dec_shift a [] tail (by simp)
    simpa [decSeg] using this
  · simp only [hc, if_false, List.cons_append, List.nil_append, dec, hp, Bool.not_true,
      Bool.false_eq_true, ne_eq, not_false_eq_true, if_true]

/-- the encoder state machine against the decoder state machine -/
theorem dec_enc : ∀ (s acc : List Nat), (∀ c ∈ acc, ScalarNP c) → (∀ c ∈ s, Scalar c) →
    dec true none (enc acc s) = some (acc ++ s)
  | [], acc, hacc, _ => by
    unfold enc flush
    cases acc with
    | nil => simp [dec]
    | cons a as =>
      have := dec_encRun (a :: as) [] (by simp) hacc
      simp only [List.append_nil] at this
      simp only [List.isEmpty_cons, Bool.false_eq_true, if_false, this, dec, Option.map_some,
        List.append_nil]
  | c :: cs, acc, hacc, hs => by
    have hcs : ∀ x ∈ cs, Scalar x := fun x hx => hs x (by simp [hx])
    unfold enc
    by_cases hp : printable c = true
    · have ih := dec_enc cs [] (by simp) hcs
      simp only [hp, if_true, flush]
      cases acc with
      | nil =>
        simp only [List.isEmpty_nil, if_true, List.nil_append]
        rw [dec_esc true c _ hp, ih]; rfl
      | cons a as =>
        simp only [List.isEmpty_cons, Bool.false_eq_true, if_false, List.append_assoc]
        rw [dec_encRun (a :: as) _ (by simp) hacc, dec_esc false c _ hp, ih]
        simp
    · have hp' : printable c = false := by simpa using hp
      have hnp : ScalarNP c := (scalarNP_iff c).mpr ⟨hs c (by simp), hp'⟩
      have ih := dec_enc cs (acc ++ [c]) (by
        intro x hx
        rcases List.mem_append.mp hx with hx | hx
        · exact hacc x hx
        · simp only [List.mem_singleton] at hx; subst hx; exact hnp) hcs
      simp only [hp, if_false, Bool.false_eq_true]
      rw [ih]; simp

/-! ### encoder output is printable -/

theorem encRun_printable (run : List Nat) (h : ∀ c ∈ run, Scalar c) :
    ∀ b ∈ encRun run, printable b = true := by
  intro b hb
  unfold encRun at hb
  simp only [List.cons_append, List.mem_cons, List.mem_append, List.not_mem_nil, or_false] at hb
  rcases hb with rfl | hb | rfl
  · decide
  · exact (alphabet_props b (b64enc_mem _ (flatMap_utf16be_lt run h) b hb)).2.2.2.2.2
  · decide

theorem enc_printable : ∀ (s acc : List Nat), (∀ c ∈ acc, Scalar c) → (∀ c ∈ s, Scalar c) →
    ∀ b ∈ enc acc s, printable b = true
  | [], acc, hacc, _, b, hb => by
    unfold enc flush at hb
    split_ifs at hb
    · simp at hb
    · exact encRun_printable acc hacc b hb
  | c :: cs, acc, hacc, hs, b, hb => by
    have hcs : ∀ x ∈ cs, Scalar x := fun x hx => hs x (by simp [hx])
    unfold enc at hb
    by_cases hp : printable c = true
    · simp only [hp, if_true, List.mem_append] at hb
      rcases hb with (hb | hb) | hb
      · unfold flush at hb
        split_ifs at hb
        · simp at hb
        · exact encRun_printable acc hacc b hb
      · split_ifs at hb with h38
        · simp only [List.mem_cons, List.not_mem_nil, or_false] at hb
          rcases hb with rfl | rfl <;> decide
        · simp only [List.mem_singleton] at hb; subst hb; exact hp
      · exact enc_printable cs [] (by simp) hcs b hb
    · simp only [hp, if_false, Bool.false_eq_true] at hb
      exact enc_printable cs (acc ++ [c]) (by
        intro x hx
        rcases List.mem_append.mp hx with hx | hx
        · exact hacc x hx
        · simp only [List.mem_singleton] at hx; subst hx; exact hs x (by simp)) hcs b hb

end GoImap.Utf7Lemmas
