/- Helper lemmas for C16 (base64 sextets, UTF-16 surrogates). -/
import GoImap.Model.Utf7
namespace GoImap.Utf7Lemmas
open GoImap.Utf7

theorem val_char_fin : ∀ s : Fin 64, b64val (b64char s.val) = some s.val := by decide +kernel

theorem val_char (s : Nat) (h : s < 64) : b64val (b64char s) = some s := val_char_fin ⟨s, h⟩

theorem b64_rt : ∀ (bs : BytesN), (∀ b ∈ bs, b < 256) → b64dec (b64enc bs) = some bs
  | [], _ => by simp [b64enc, b64dec]
  | [b0], h => by
    have h0 : b0 < 256 := h b0 (by simp)
    simp only [b64enc, b64dec]
    rw [val_char _ (by omega), val_char _ (by omega)]
    simp; omega
  | [b0, b1], h => by
    have h0 : b0 < 256 := h b0 (by simp)
    have h1 : b1 < 256 := h b1 (by simp)
    simp only [b64enc, b64dec]
    rw [val_char _ (by omega), val_char _ (by omega), val_char _ (by omega)]
    simp; omega
  | b0 :: b1 :: b2 :: r, h => by
    have h0 : b0 < 256 := h b0 (by simp)
    have h1 : b1 < 256 := h b1 (by simp)
    have h2 : b2 < 256 := h b2 (by simp)
    have ih := b64_rt r (fun b hb => h b (by simp [hb]))
    simp only [b64enc, b64dec]
    rw [val_char _ (by omega), val_char _ (by omega), val_char _ (by omega), val_char _ (by omega), ih]
    simp; omega

/-- scalar values the encoder puts into a shifted run -/
def ScalarNP (c : Nat) : Prop := (c < 0xD800 ∨ (0xDFFF < c ∧ c < 0x110000)) ∧ printable c = false

set_option maxRecDepth 4000 in
theorem utf16_one_astral (c : Nat) (rest : BytesN) (h1 : 65536 ≤ c) (h2 : c < 1114112) :
    utf16dec ((55296 + (c - 65536) / 1024) / 256 :: (55296 + (c - 65536) / 1024) % 256 ::
              (56320 + (c - 65536) % 1024) / 256 :: (56320 + (c - 65536) % 1024) % 256 :: rest)
      = (utf16dec rest).map (c :: ·) := by
  rw [utf16dec]
  have e1 : (55296 + (c - 65536) / 1024) / 256 * 256 + (55296 + (c - 65536) / 1024) % 256
              = 55296 + (c - 65536) / 1024 := by omega
  have e2 : (56320 + (c - 65536) % 1024) / 256 * 256 + (56320 + (c - 65536) % 1024) % 256
              = 56320 + (c - 65536) % 1024 := by omega
  simp only [e1, e2]
  have g1 : 55296 ≤ 55296 + (c - 65536) / 1024 ∧ 55296 + (c - 65536) / 1024 < 57344 := by omega
  have g2 : 55296 + (c - 65536) / 1024 < 56320 ∧ 56320 ≤ 56320 + (c - 65536) % 1024 ∧
            56320 + (c - 65536) % 1024 < 57344 := by omega
  have e3 : (55296 + (c - 65536) / 1024 - 55296) * 1024 + (56320 + (c - 65536) % 1024 - 56320) + 65536 = c := by omega
  simp only [g1, g2, and_self, if_true, e3]

end GoImap.Utf7Lemmas
