/-
  C02 helper lemmas: number sets and flags through writer and reader (the textual round trip of a
  canonical set is `parseSet_toChars` of C15).
-/
import GoImap.Lemmas.CmdGrammarList
import GoImap.Lemmas.NumSetPrint
namespace GoImap.CmdLemmas
open GoImap.CmdGrammar GoImap.CmdSpec

/-! ### number sets -/

def NumCharOK (c : Char) : Prop := isNumSetChar c.toNat = true ∧ c.toNat ≠ 36

theorem dchar_ok : ∀ k, k < 10 → NumCharOK (NumSet.dchar k) := by
  unfold NumCharOK
  decide

theorem isDig_ok {c : Char} (h : NumSet.IsDig c) : NumCharOK c := by
  obtain ⟨k, hk, rfl⟩ := h
  exact dchar_ok k hk

theorem digits_ok (n : Nat) : ∀ c ∈ NumSet.digits n, NumCharOK c :=
  fun c hc => isDig_ok ((NumSet.digits_spec n).2.1 c hc)

theorem range_ok (r : NumSet.Range) : ∀ c ∈ r.toChars, NumCharOK c := by
  intro c hc
  have hstar : NumCharOK '*' := by unfold NumCharOK; decide
  have hcolon : NumCharOK ':' := by unfold NumCharOK; decide
  rcases NumSet.toChars_cases r with ⟨_, h⟩ | ⟨_, _, h⟩ | ⟨_, _, _, h⟩ | ⟨_, _, _, h⟩ <;> rw [h] at hc
  · simp at hc; subst hc; exact hstar
  · exact digits_ok _ c hc
  · simp only [List.mem_append, List.mem_cons, List.not_mem_nil, or_false] at hc
    rcases hc with hc | rfl | rfl
    · exact digits_ok _ c hc
    · exact hcolon
    · exact hstar
  · simp only [List.mem_append, List.mem_cons] at hc
    rcases hc with hc | rfl | hc
    · exact digits_ok _ c hc
    · exact hcolon
    · exact digits_ok _ c hc

theorem set_ok : ∀ (s : NumSet.Set), ∀ c ∈ NumSet.toChars s, NumCharOK c
  | [], c, hc => by simp [NumSet.toChars] at hc
  | [r], c, hc => by simpa [NumSet.toChars] using range_ok r c (by simpa [NumSet.toChars] using hc)
  | r :: r2 :: rest, c, hc => by
    have hcomma : NumCharOK ',' := by unfold NumCharOK; decide
    simp only [NumSet.toChars, List.mem_append, List.mem_cons] at hc
    rcases hc with hc | rfl | hc
    · exact range_ok r c hc
    · exact hcomma
    · exact set_ok (r2 :: rest) c hc

theorem range_toChars_ne_nil (r : NumSet.Range) : r.toChars ≠ [] := by
  rcases NumSet.toChars_cases r with ⟨_, h⟩ | ⟨_, _, h⟩ | ⟨_, _, _, h⟩ | ⟨_, _, _, h⟩ <;> rw [h]
  · simp
  · exact (NumSet.digits_spec _).2.2.1
  · simp
  · simp

theorem set_toChars_ne_nil : ∀ (s : NumSet.Set), s ≠ [] → NumSet.toChars s ≠ []
  | [], h => absurd rfl h
  | [r], _ => by simpa [NumSet.toChars] using range_toChars_ne_nil r
  | r :: r2 :: rest, _ => by simp [NumSet.toChars]

/-- a number set the round trip is proved for: the SEARCHRES marker, or a non-empty set in the canonical
    form that `AddNum`/`AddRange`/`ParseSet` build -/
def SetOK : NSet → Prop
  | .searchRes => True
  | .set rs => NumSet.Canon rs ∧ rs ≠ []

theorem map_ofNat_toNat (l : List Char) : (l.map Char.toNat).map Char.ofNat = l := by
  induction l with
  | nil => rfl
  | cons c t ih => simp [ih]

theorem wNumSet_ok (s : NSet) (h : SetOK s) : wNumSet s = .ok (atom s.text) := by
  unfold wNumSet
  cases s with
  | searchRes => simp [NSet.text]
  | set rs =>
    have : (NSet.set rs).text ≠ [] := by
      simp only [NSet.text, ne_eq, List.map_eq_nil_iff]
      exact set_toChars_ne_nil rs h.2
    simp [this]

/-- Encoder.NumSet then Decoder.ExpectNumSet -/
theorem pNumSet_text (s : NSet) (rest : Wire) (h : SetOK s) (hs : Stops isNumSetChar rest) :
    pNumSet (atom s.text ++ rest) = .ok (s, rest) := by
  cases s with
  | searchRes => simp [pNumSet, NSet.text, atom, special]
  | set rs =>
    have hne := set_toChars_ne_nil rs h.2
    have hall : ∀ c ∈ (NSet.set rs).text, isNumSetChar c = true := by
      intro c hc
      simp only [NSet.text, List.mem_map] at hc
      obtain ⟨ch, hch, rfl⟩ := hc
      exact (set_ok rs ch hch).1
    have hd : special 36 (atom (NSet.set rs).text ++ rest) = none := by
      simp only [NSet.text]
      cases hc : NumSet.toChars rs with
      | nil => exact absurd hc hne
      | cons ch t =>
        have := (set_ok rs ch (by simp [hc])).2
        simp only [List.map_cons, atom, List.cons_append, special]
        simp [this]
    unfold pNumSet
    rw [hd]
    simp only
    rw [span_atom isNumSetChar _ rest hall hs]
    have hne' : (NSet.set rs).text ≠ [] := by simpa [NSet.text] using hne
    simp only [hne', if_false]
    simp only [NSet.text, map_ofNat_toNat, NumSet.parseSet_toChars rs h.1 h.2]

theorem stops_sp_numset (r : Wire) : Stops isNumSetChar (sp ++ r) := stops_sp _ (by decide) _
theorem stops_crlf_numset (r : Wire) : Stops isNumSetChar (crlf ++ r) := stops_crlf _ (by decide) _

theorem notEol_text (s : NSet) (rest : Wire) (h : SetOK s) : NotEol (atom s.text ++ rest) := by
  cases s with
  | searchRes => simp [NSet.text, atom, NotEol]
  | set rs =>
    cases hc : NumSet.toChars rs with
    | nil => exact absurd hc (set_toChars_ne_nil rs h.2)
    | cons ch t =>
      have := (set_ok rs ch (by simp [hc])).1
      simp only [NSet.text, hc, List.map_cons, atom, List.cons_append, NotEol]
      constructor <;> (intro he; rw [he] at this; revert this; decide)

/-! ### flags -/

theorem flagChars_false : ∀ (r : Str), flagCharsOk false r = true → ∀ c ∈ r, isAtomChar c = true
  | [], _, c, hc => by simp at hc
  | ch :: r, h, c, hc => by
    unfold flagCharsOk at h
    by_cases h92 : ch = 92
    · simp [h92] at h
    · simp only [h92, if_false] at h
      by_cases ha : isAtomChar ch = true
      · simp only [ha, if_true] at h
        rcases List.mem_cons.mp hc with rfl | hc
        · exact ha
        · exact flagChars_false r h c hc
      · simp [ha] at h

/-- a flag the client's encoder accepts, other than `\*` -/
def FlagOK (f : Str) : Prop := isValidFlag f = true

theorem flagOK_cases (f : Str) (h : FlagOK f) :
    (∃ name, f = 92 :: name ∧ name ≠ [] ∧ ∀ c ∈ name, isAtomChar c = true) ∨
    (f ≠ [] ∧ ∀ c ∈ f, isAtomChar c = true) := by
  unfold FlagOK isValidFlag at h
  simp only [Bool.and_eq_true, decide_eq_true_eq] at h
  obtain ⟨⟨h1, h2⟩, h3⟩ := h
  cases f with
  | nil => simp at h2
  | cons c r =>
    unfold flagCharsOk at h1
    by_cases h92 : c = 92
    · subst h92
      simp only [if_true] at h1
      left
      refine ⟨r, rfl, ?_, flagChars_false r h1⟩
      intro hr; subst hr; exact h3 rfl
    · simp only [h92, if_false] at h1
      right
      by_cases ha : isAtomChar c = true
      · simp only [ha, if_true] at h1
        refine ⟨by simp, ?_⟩
        intro x hx
        rcases List.mem_cons.mp hx with rfl | hx
        · exact ha
        · exact flagChars_false r h1 x hx
      · simp [ha] at h1

theorem wFlag_ok (f : Str) (h : FlagOK f) : wFlag f = .ok (atom f) := by
  unfold wFlag
  have : isValidFlag f = true := h
  simp [this]

/-- Encoder.Flag then internal.ExpectFlag -/
theorem pFlag_atom (f : Str) (tail : Wire) (h : FlagOK f) (hs : Stops isAtomChar tail) :
    pFlag (atom f ++ tail) = .ok (canonFlag f, tail) := by
  rcases flagOK_cases f h with ⟨name, rfl, hne, hall⟩ | ⟨hne, hall⟩
  · have h42 : special 42 (atom name ++ tail) = none := by
      cases name with
      | nil => exact absurd rfl hne
      | cons c t =>
        have := hall c (by simp)
        simp only [atom, List.map_cons, List.cons_append, special]
        have hc : c ≠ 42 := by intro he; subst he; revert this; decide
        simp [hc]
    have e : atom (92 :: name) ++ tail = Item.b 92 :: (atom name ++ tail) := by simp [atom]
    rw [e]
    unfold pFlag
    simp only [special_b, h42]
    rw [pAtom_atom name tail hne hall hs]
    simp [bind, Except.bind, pure, Except.pure]
  · have h92 : special 92 (atom f ++ tail) = none := by
      cases f with
      | nil => exact absurd rfl hne
      | cons c t =>
        have := hall c (by simp)
        simp only [atom, List.map_cons, List.cons_append, special]
        have hc : c ≠ 92 := by intro he; subst he; revert this; decide
        simp [hc]
    simp only [pFlag, h92]
    rw [pAtom_atom f tail hne hall hs]
    simp [bind, Except.bind, pure, Except.pure]

theorem flag_first_atomOrBackslash (f : Str) (h : FlagOK f) :
    ∃ c t, f = c :: t ∧ (c = 92 ∨ isAtomChar c = true) := by
  rcases flagOK_cases f h with ⟨name, rfl, _, _⟩ | ⟨hne, hall⟩
  · exact ⟨92, name, rfl, Or.inl rfl⟩
  · cases f with
    | nil => exact absurd rfl hne
    | cons c t => exact ⟨c, t, rfl, Or.inr (hall c (by simp))⟩

/-- the flag items of STORE / APPEND: `Encoder.List` of `Encoder.Flag` against `ExpectFlag` in `Decoder.List` -/
theorem flagItemSpec : ItemSpec pFlagItem (fun f => atom f) (fun acc f => acc ++ [canonFlag f]) FlagOK (Stops isAtomChar) where
  parse := by
    intro st a tail hv hok
    simp only [pFlagItem, pFlag_atom a tail hv hok, bind, Except.bind, pure, Except.pure]
  okClose := fun rest => stops_b _ 41 (by decide) rest
  okSp := fun rest => stops_sp_atom rest
  notEol := by
    intro a tail hv
    obtain ⟨c, t, rfl, hc⟩ := flag_first_atomOrBackslash a hv
    simp only [atom, List.map_cons, List.cons_append, NotEol]
    rcases hc with rfl | hc
    · decide
    · constructor <;> (intro he; subst he; revert hc; decide)
  notClose := by
    intro a tail hv
    obtain ⟨c, t, rfl, hc⟩ := flag_first_atomOrBackslash a hv
    simp only [atom, List.map_cons, List.cons_append, special]
    have : c ≠ 41 := by
      rcases hc with rfl | hc
      · decide
      · intro he; subst he; revert hc; decide
    simp [this]
  nonEmpty := by
    intro a hv
    obtain ⟨c, t, rfl, _⟩ := flag_first_atomOrBackslash a hv
    simp [atom]

theorem mapM_wFlag (fs : List Str) (h : ∀ f ∈ fs, FlagOK f) : fs.mapM wFlag = .ok (fs.map fun f => atom f) := by
  induction fs with
  | nil => rfl
  | cons f t ih =>
    have hf := wFlag_ok f (h f (by simp))
    have := ih (fun x hx => h x (by simp [hx]))
    simp [List.mapM_cons, hf, this, bind, Except.bind, pure, Except.pure]

theorem wFlagList_ok (fs : List Str) (h : ∀ f ∈ fs, FlagOK f) : wFlagList fs = .ok (wList (fs.map fun f => atom f)) := by
  simp [wFlagList, mapM_wFlag fs h, bind, Except.bind, pure, Except.pure]

theorem foldl_canonFlag (fs : List Str) (acc : List Str) :
    fs.foldl (fun acc f => acc ++ [canonFlag f]) acc = acc ++ fs.map canonFlag := by
  induction fs generalizing acc with
  | nil => simp
  | cons f t ih => simp [ih]

end GoImap.CmdLemmas
