/-
  C02 helper lemmas: a whole criteria tree — the keys `writeSearchKey` writes, in its order, and the
  criteria `readSearchKey` accumulates from them.
-/
import GoImap.Lemmas.CmdGrammarSearchNest
namespace GoImap.CmdLemmas
open GoImap.CmdGrammar GoImap.CmdSpec

/-! ### the keys of a criteria value, with their effects -/

def seqItem (s : NSet) : KI := (atom s.text, addF fun f => { f with seqSets := f.seqSets ++ [delivN s] })
def uidItem (s : NSet) : KI := (kw "UID" ++ sp ++ atom s.text, addF fun f => { f with uidSets := f.uidSets ++ [delivN s] })

def recvDateItems (s b : Date) : List KI :=
  if s.day ≠ 0 && b.day ≠ 0 && onRule s b then
    [(kw "ON" ++ sp ++ [.date s.day], addF fun f =>
      { f with since := dateOnly (interSince f.since.day s.day), before := dateOnly (interBefore f.before.day (s.day + day1)) })]
  else
    (if s.day ≠ 0 then [(kw "SINCE" ++ sp ++ [.date s.day], addF fun f => { f with since := dateOnly (interSince f.since.day s.day) })] else []) ++
    (if b.day ≠ 0 then [(kw "BEFORE" ++ sp ++ [.date b.day], addF fun f => { f with before := dateOnly (interBefore f.before.day b.day) })] else [])

def sentDateItems (s b : Date) : List KI :=
  if s.day ≠ 0 && b.day ≠ 0 && onRule s b then
    [(kw "SENTON" ++ sp ++ [.date s.day], addF fun f =>
      { f with sentSince := dateOnly (interSince f.sentSince.day s.day), sentBefore := dateOnly (interBefore f.sentBefore.day (s.day + day1)) })]
  else
    (if s.day ≠ 0 then [(kw "SENTSINCE" ++ sp ++ [.date s.day], addF fun f => { f with sentSince := dateOnly (interSince f.sentSince.day s.day) })] else []) ++
    (if b.day ≠ 0 then [(kw "SENTBEFORE" ++ sp ++ [.date b.day], addF fun f => { f with sentBefore := dateOnly (interBefore f.sentBefore.day b.day) })] else [])

def headerItem (kv : Str × Str) : KI :=
  if addrKeys.contains (upper kv.1) then
    (atom (upper kv.1) ++ sp ++ [.s kv.2], addF fun f => { f with header := f.header ++ [(titleCase (upper kv.1), kv.2)] })
  else (kw "HEADER" ++ sp ++ [.s kv.1] ++ sp ++ [.s kv.2], addF fun f => { f with header := f.header ++ [(kv.1, kv.2)] })

def bodyItem (v : Str) : KI := (kw "BODY" ++ sp ++ [.s v], addF fun f => { f with body := f.body ++ [v] })
def textItem (v : Str) : KI := (kw "TEXT" ++ sp ++ [.s v], addF fun f => { f with text := f.text ++ [v] })

def flagItem (fl : Str) : KI :=
  match flagSearchKey fl with
  | some k => (atom k, addF fun x => { x with flags := x.flags ++ [fl] })
  | none => (kw "KEYWORD" ++ sp ++ atom fl, addF fun x => { x with flags := x.flags ++ [canonFlag fl] })

def notFlagItem (fl : Str) : KI :=
  match flagSearchKey fl with
  | some k => (kw "UN" ++ atom k, addF fun x => { x with notFlags := x.notFlags ++ [fl] })
  | none => (kw "UNKEYWORD" ++ sp ++ atom fl, addF fun x => { x with notFlags := x.notFlags ++ [canonFlag fl] })

def largerItems (n : Int) : List KI :=
  if n > 0 then [(kw "LARGER" ++ sp ++ atom (digits n.toNat), addF fun x => { x with larger := andLarger x.larger n.toNat })] else []
def smallerItems (n : Int) : List KI :=
  if n > 0 then [(kw "SMALLER" ++ sp ++ atom (digits n.toNat), addF fun x => { x with smaller := andSmaller x.smaller n.toNat })] else []

def flatItems (f : Flat) : List KI :=
  f.seqSets.map seqItem ++ f.uidSets.map uidItem ++ recvDateItems f.since f.before ++ sentDateItems f.sentSince f.sentBefore ++
  f.header.map headerItem ++ f.body.map bodyItem ++ f.text.map textItem ++ f.flags.map flagItem ++ f.notFlags.map notFlagItem ++
  largerItems f.larger ++ smallerItems f.smaller

/-- what the session receives for a criteria value: the canonical form, with every number set as `ParseSet`
    builds it from the written ranges (for a canonical set: the set itself) -/
def delivFlat (f : Flat) : Flat :=
  { canonFlat f with seqSets := f.seqSets.map delivN, uidSets := f.uidSets.map delivN }

mutual
  def delivCrit : Crit → Crit
    | .mk f nots ors => .mk (delivFlat f) (delivNots nots) (delivOrs ors)
  def delivNots : CritList → CritList
    | .nil => .nil
    | .cons c t => .cons (delivCrit c) (delivNots t)
  def delivOrs : OrList → OrList
    | .nil => .nil
    | .cons a b t => .cons (delivCrit a) (delivCrit b) (delivOrs t)
end

/-- the keys of the group: `ALL` when there is nothing to say -/
def orAll (items : List KI) : List KI := if items.isEmpty then [(kw "ALL", id)] else items

mutual
  /-- what `writeSearchKey` writes for a criteria value -/
  def critWire : Crit → Wire
    | .mk f nots ors => wList ((orAll (flatItems f ++ notItems nots ++ orItems ors)).map (·.1))
  def notItems : CritList → List KI
    | .nil => []
    | .cons c t => (kw "NOT" ++ sp ++ critWire c, fun x => .mk x.flat (x.nots.snoc (delivCrit c)) x.ors) :: notItems t
  def orItems : OrList → List KI
    | .nil => []
    | .cons a b t =>
      (kw "OR" ++ sp ++ critWire a ++ sp ++ critWire b, fun x => .mk x.flat x.nots (x.ors.snoc (delivCrit a) (delivCrit b))) :: orItems t
end

def critItems : Crit → List KI
  | .mk f nots ors => orAll (flatItems f ++ notItems nots ++ orItems ors)

/-! ### what the theorem assumes of a criteria value -/

structure FlatOK (f : Flat) : Prop where
  seq : ∀ s ∈ f.seqSets, SetLit s ∧ s ≠ .searchRes
  uid : ∀ s ∈ f.uidSets, SetLit s
  header : ∀ kv ∈ f.header, strOk kv.1 = true ∧ strOk kv.2 = true
  body : ∀ v ∈ f.body, strOk v = true
  text : ∀ v ∈ f.text, strOk v = true
  flags : ∀ fl ∈ f.flags, FlagOK fl
  notFlags : ∀ fl ∈ f.notFlags, FlagOK fl
  larger : 0 ≤ f.larger ∧ f.larger < 9223372036854775808
  smaller : 0 ≤ f.smaller ∧ f.smaller < 9223372036854775808

mutual
  def CritOK : Crit → Prop
    | .mk f nots ors => FlatOK f ∧ NotsOK nots ∧ OrsOK ors
  def NotsOK : CritList → Prop
    | .nil => True
    | .cons c t => CritOK c ∧ NotsOK t
  def OrsOK : OrList → Prop
    | .nil => True
    | .cons a b t => CritOK a ∧ CritOK b ∧ OrsOK t
end

/-! ### every key of a flat part is `Good` -/

theorem good_flatItems (fuel ld kd : Nat) (f : Flat) (hf : FlatOK f) : ∀ a ∈ flatItems f, Good (fuel + 1) ld kd a := by
  intro a ha
  simp only [flatItems, List.mem_append, List.mem_map] at ha
  rcases ha with ((((((((((⟨s, hs, rfl⟩ | ⟨s, hs, rfl⟩) | ha) | ha) | ⟨kv, hkv, rfl⟩) | ⟨v, hv, rfl⟩) | ⟨v, hv, rfl⟩) | ⟨fl, hfl, rfl⟩) | ⟨fl, hfl, rfl⟩) | ha) | ha)
  · obtain ⟨h1, h3⟩ := hf.seq s hs
    cases s with
    | searchRes => exact absurd rfl h3
    | set rs => exact good_seq fuel ld kd rs h1
  · exact good_uid fuel ld kd s (delivN s) (setReads_lit s (hf.uid s hs))
  · unfold recvDateItems at ha
    split_ifs at ha <;> simp only [List.mem_append, List.mem_singleton, List.mem_cons, List.not_mem_nil, or_false, false_or] at ha
    · subst ha; exact good_on fuel ld kd _
    · rcases ha with rfl | rfl
      · exact good_since fuel ld kd _
      · exact good_before fuel ld kd _
    · subst ha; exact good_since fuel ld kd _
    · subst ha; exact good_before fuel ld kd _
  · unfold sentDateItems at ha
    split_ifs at ha <;> simp only [List.mem_append, List.mem_singleton, List.mem_cons, List.not_mem_nil, or_false, false_or] at ha
    · subst ha; exact good_senton fuel ld kd _
    · rcases ha with rfl | rfl
      · exact good_sentsince fuel ld kd _
      · exact good_sentbefore fuel ld kd _
    · subst ha; exact good_sentsince fuel ld kd _
    · subst ha; exact good_sentbefore fuel ld kd _
  · obtain ⟨h1, h2⟩ := hf.header kv hkv
    unfold headerItem
    split_ifs with hc
    · exact good_addr fuel ld kd _ _ hc h2
    · exact good_header fuel ld kd _ _ h1 h2
  · exact good_body fuel ld kd v (hf.body v hv)
  · exact good_text fuel ld kd v (hf.text v hv)
  · unfold flagItem
    cases hk : flagSearchKey fl with
    | some k => exact (good_sysflag fuel ld kd fl k hk).1
    | none => exact (good_keyword fuel ld kd fl (hf.flags fl hfl)).1
  · unfold notFlagItem
    cases hk : flagSearchKey fl with
    | some k => exact (good_sysflag fuel ld kd fl k hk).2
    | none => exact (good_keyword fuel ld kd fl (hf.notFlags fl hfl)).2
  · unfold largerItems at ha
    split_ifs at ha with hp
    · simp only [List.mem_singleton] at ha
      subst ha
      exact good_larger fuel ld kd _ (by have := hf.larger; unfold lim63; omega)
    · simp at ha
  · unfold smallerItems at ha
    split_ifs at ha with hp
    · simp only [List.mem_singleton] at ha
      subst ha
      exact good_smaller fuel ld kd _ (by have := hf.smaller; unfold lim63; omega)
    · simp at ha

end GoImap.CmdLemmas
