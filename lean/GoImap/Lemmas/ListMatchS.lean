/- Helper lemmas for C20: the repaired matcher (delimiter strings of any length). -/
import GoImap.Lemmas.ListMatch
namespace GoImap.ListMatchLemmas
open GoImap.ListMatch GoImap.ListMatchSpec

theorem expandS_iff (delim : List B) (pct : Bool) (k : List B → Bool) (name : List B) :
    expandS delim pct k name = true ↔
      ∃ pre suf, name = pre ++ suf ∧ k suf = true ∧
        (pct = true → delim ≠ [] → noStart delim pre suf = true) := by
  induction name with
  | nil =>
    simp only [expandS]
    constructor
    · intro h; exact ⟨[], [], rfl, h, by intro _ _; rfl⟩
    · rintro ⟨pre, suf, h, hk, _⟩
      have : suf = [] := by
        have := congrArg List.length h; simp at this; exact List.eq_nil_of_length_eq_zero (by omega)
      rw [this] at hk; exact hk
  | cons n ns ih =>
    simp only [expandS]
    split
    · rename_i hstop
      simp only [Bool.and_eq_true, Bool.not_eq_true', List.isEmpty_eq_false_iff] at hstop
      constructor
      · intro h; exact ⟨[], n :: ns, rfl, h, by intro _ _; rfl⟩
      · rintro ⟨pre, suf, h, hk, hp⟩
        cases pre with
        | nil => simp at h; rw [← h] at hk; exact hk
        | cons p pre' =>
          have hns := hp hstop.1.1 hstop.1.2
          simp only [noStart, Bool.and_eq_true, Bool.not_eq_true'] at hns
          have h' : p :: pre' ++ suf = n :: ns := h.symm
          rw [h', hstop.2] at hns
          exact absurd hns.1 (by simp)
    · rename_i hstop
      simp only [Bool.or_eq_true, ih]
      constructor
      · rintro (h | ⟨pre, suf, h, hk, hp⟩)
        · exact ⟨[], n :: ns, rfl, h, by intro _ _; rfl⟩
        · refine ⟨n :: pre, suf, by simp [h], hk, ?_⟩
          intro hpct hd
          simp only [noStart, Bool.and_eq_true, Bool.not_eq_true']
          refine ⟨?_, hp hpct hd⟩
          have h' : n :: pre ++ suf = n :: ns := by simp [h]
          rw [h']
          cases hpre : hasPrefix delim (n :: ns) with
          | false => rfl
          | true =>
            exfalso; apply hstop
            simp [hpct, hd, hpre]
      · rintro ⟨pre, suf, h, hk, hp⟩
        cases pre with
        | nil => left; simp at h; rw [← h] at hk; exact hk
        | cons p pre' =>
          right
          simp at h
          refine ⟨pre', suf, h.2, hk, ?_⟩
          intro hpct hd
          have := hp hpct hd
          simp only [noStart, Bool.and_eq_true] at this
          exact this.2

/-! ### a one-byte delimiter string: the repaired matcher is the byte-comparing one -/

theorem hasPrefix_single (d n : B) (ns : List B) : hasPrefix [d] (n :: ns) = decide (d = n) := by
  simp only [hasPrefix, stripPrefix?]
  by_cases h : d = n <;> simp [h]

theorem expandS_single (d : B) (pct : Bool) (k : List B → Bool) (name : List B) :
    expandS [d] pct k name = expand (some d) pct k name := by
  induction name with
  | nil => rfl
  | cons n ns ih =>
    simp only [expandS, expand, hasPrefix_single, ih]
    by_cases hdn : d = n
    · subst hdn; simp
    · have : ¬ (some d = some n) := by simpa using hdn
      simp [hdn, this]

theorem expandS_nil (pct : Bool) (k : List B → Bool) (name : List B) :
    expandS [] pct k name = expand none pct k name := by
  induction name with
  | nil => rfl
  | cons n ns ih => simp [expandS, expand, ih]

theorem matchListS_single (d : B) (pat name : List B) :
    matchListS [d] pat name = matchList (some d) pat name := by
  induction pat generalizing name with
  | nil => rfl
  | cons c ps ih =>
    simp only [matchListS, matchList]
    have hk : matchListS [d] ps = matchList (some d) ps := funext ih
    rw [hk, expandS_single]

theorem matchListS_nil (pat name : List B) :
    matchListS [] pat name = matchList none pat name := by
  induction pat generalizing name with
  | nil => rfl
  | cons c ps ih =>
    simp only [matchListS, matchList]
    have hk : matchListS [] ps = matchList none ps := funext ih
    rw [hk, expandS_nil]

theorem matchListTopS_single (name : List B) (d : B) (reference pattern : List B) :
    matchListTopS name [d] reference pattern = matchListTop name [d] (some d) reference pattern := by
  simp only [matchListTopS, matchListTop, matchListS_single]

theorem matchListTopS_nil (name : List B) (reference pattern : List B) :
    matchListTopS name [] reference pattern = matchListTop name [] none reference pattern := by
  simp only [matchListTopS, matchListTop, matchListS_nil]

/-! ### `noStart`, read as "no occurrence starts inside" and, for `%` alone, "not a substring" -/

theorem hasPrefix_iff (p s : List B) : hasPrefix p s = true ↔ ∃ t, s = p ++ t := by
  induction p generalizing s with
  | nil => simp [hasPrefix, stripPrefix?]
  | cons a p ih =>
    cases s with
    | nil => simp [hasPrefix, stripPrefix?]
    | cons b s =>
      simp only [hasPrefix, stripPrefix?]
      by_cases hab : a = b
      · subst hab
        simp only [if_true]
        have := ih s
        simp only [hasPrefix] at this
        rw [this]
        simp
      · simp only [hab, if_false, Option.isSome_none, Bool.false_eq_true, false_iff]
        rintro ⟨t, h⟩
        simp at h
        exact hab h.1.symm

theorem noStart_single (d : B) (pre ns : List B) : noStart [d] pre ns = true ↔ d ∉ pre := by
  induction pre with
  | nil => simp [noStart]
  | cons p pre ih =>
    simp only [noStart, List.cons_append, hasPrefix_single, Bool.and_eq_true, Bool.not_eq_true',
      decide_eq_false_iff_not, ih, List.mem_cons, not_or]

/-- a whole name inside which no delimiter starts = a name of which the delimiter is not a
    contiguous part -/
theorem noStart_all_iff (delim name : List B) (hd : delim ≠ []) :
    noStart delim name [] = true ↔ ¬ delim <:+: name := by
  induction name with
  | nil =>
    simp only [noStart, true_iff]
    intro h
    exact hd (List.eq_nil_of_infix_nil h)
  | cons n ns ih =>
    simp only [noStart, Bool.and_eq_true, Bool.not_eq_true', ih, List.append_nil]
    rw [List.infix_cons_iff]
    constructor
    · rintro ⟨h1, h2⟩ (h | h)
      · have : hasPrefix delim (n :: ns) = true := (hasPrefix_iff _ _).mpr (by
          obtain ⟨t, ht⟩ := h; exact ⟨t, ht.symm⟩)
        rw [h1] at this; exact absurd this (by simp)
      · exact h2 h
    · intro h
      refine ⟨?_, fun h2 => h (Or.inr h2)⟩
      cases hp : hasPrefix delim (n :: ns) with
      | false => rfl
      | true =>
        exfalso; apply h; left
        obtain ⟨t, ht⟩ := (hasPrefix_iff _ _).mp hp
        exact ⟨t, ht.symm⟩

end GoImap.ListMatchLemmas
