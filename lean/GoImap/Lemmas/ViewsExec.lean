/-
  C08 helper lemmas, part 9: every command keeps the global invariant, and the specification accepts
  everything the command puts on the wire of the issuing connection.
-/
import GoImap.Lemmas.ViewsEmit
namespace GoImap.ViewsLemmas
open GoImap.Tracker GoImap.TrackerSpec GoImap.TrackerLemmas GoImap.Views GoImap.ViewsSpec

/-- the outcome of a command is fine: the specification accepts the response on the connection's
    announced view, and the invariant holds afterwards with the new view -/
def Good (A : List View) (c : Nat) (k : Kind) (r : Views.St × Resp) : Prop :=
  r.2.status ≠ .skip ∧ r.2.status ≠ .crash ∧
  ∃ G' Ac', afterResp k (decide (r.2.status = .ok)) (A.getD c []) r.2.evs = .ok Ac' ∧ GInv r.1 G' (A.set c Ac')

theorem good_same {st : Views.St} {G : List GSt} {A : List View} (h : GInv st G A) (c : Nat) {k : Kind}
    (hk : k ≠ .select) (s : Status) (hs : s ≠ .ok) (hs1 : s ≠ .skip) (hs2 : s ≠ .crash) :
    Good A c k (st, ⟨[], s, none, none⟩) := by
  refine ⟨hs1, hs2, G, A.getD c [], ?_, by rw [set_getD_self]; exact h⟩
  have : decide (s = Status.ok) = false := by simp [hs]
  cases k <;> simp [afterResp, applyEvs, this] at hk ⊢

theorem ginv_setIdle {st : Views.St} {G : List GSt} {A : List View} (h : GInv st G A) {c : Nat} {cn : Conn}
    (hc : st.conns[c]? = some cn) (x : Bool) : GInv (setConn st c { cn with idle := x }) G A := by
  have hclt : c < st.conns.length := (List.getElem?_eq_some_iff.mp hc).1
  refine ⟨h.mlen, h.mb, by simp [setConn, h.clen], ?_, ?_⟩
  · intro c1 cn1 hc1
    change (st.conns.set c _)[c1]? = some cn1 at hc1
    by_cases hcc : c = c1
    · subst hcc
      have e := getElem?_set_eq' hc1
      subst e
      exact h.conn c cn hc
    · rw [List.getElem?_set_ne hcc] at hc1
      exact h.conn c1 cn1 hc1
  · intro m g gs hg hgs
    obtain ⟨cn0, hcn0, hs0⟩ := h.sess m g gs hg hgs
    change ∃ cn1, (st.conns.set c _)[gs.id]? = some cn1 ∧ cn1.sel = some m
    by_cases hcc : c = gs.id
    · rw [← hcc] at hcn0 ⊢
      rw [hc] at hcn0
      cases hcn0
      exact ⟨{ cn with idle := x }, by rw [List.getElem?_set_self hclt], hs0⟩
    · exact ⟨cn0, by rw [List.getElem?_set_ne hcc]; exact hcn0, hs0⟩

/-- a poll never panics in a state of the invariant -/
theorem pollConn_some_of_ginv {st : Views.St} {G : List GSt} {A : List View} (h : GInv st G A) (c : Nat)
    (allow : Bool) : ∃ r, pollConn st c allow = some r := by
  unfold pollConn
  cases hc : getConn st c with
  | none => exact ⟨_, rfl⟩
  | some cn =>
    simp only
    cases hs : cn.sel with
    | none => exact ⟨_, rfl⟩
    | some m =>
      simp only
      have hci := h.conn c cn hc
      unfold ConnInv at hci
      rw [hs] at hci
      obtain ⟨g, gs, hg, hgs, hid, _, _⟩ := hci
      have hmlt : m < st.mb.length := by rw [h.mlen]; exact (List.getElem?_eq_some_iff.mp hg).1
      have hb : getMb st m = some st.mb[m] := List.getElem?_eq_getElem hmlt
      obtain ⟨q1, v1, t, _, hst, _, _⟩ := gstep_poll (h.mb m _ g hb hg) hgs allow
      rw [hid] at hst
      simp only [hb, MBox.tstep, hst]
      exact ⟨_, rfl⟩

/-- the poll that ends a command -/
theorem good_of_poll {stX : Views.St} {GX : List GSt} {A : List View} {c : Nat} (hcA : c < A.length)
    {Ac1 : View} (hX : GInv stX GX (A.set c Ac1)) {q sr : Bool} {evs : List Ev}
    (hev : applyEvs q sr (A.getD c []) evs = .ok Ac1) {allow : Bool} (hq : q = true → allow = false) :
    ∃ r, pollConn stX c allow = some r ∧ ∃ G' Ac2, applyEvs q sr (A.getD c []) (evs ++ r.2) = .ok Ac2 ∧
      GInv r.1 G' (A.set c Ac2) := by
  obtain ⟨r, hr⟩ := pollConn_some_of_ginv hX c allow
  obtain ⟨st', pevs⟩ := r
  obtain ⟨G', Ac2, ha, h', _⟩ := ginv_poll hX hr q sr hq
  rw [getD_set_self A hcA] at ha
  rw [List.set_set] at h'
  exact ⟨_, hr, G', Ac2, applyEvs_append hev ha, h'⟩

theorem afterResp_other {b : Bool} {v : View} {evs : List Ev} : afterResp .other b v evs = applyEvs false true v evs := rfl
theorem afterResp_quiet {b : Bool} {v : View} {evs : List Ev} : afterResp .quiet b v evs = applyEvs true true v evs := rfl
theorem afterResp_uidSearch {b : Bool} {v : View} {evs : List Ev} :
    afterResp .uidSearch b v evs = applyEvs false false v evs := rfl

/-- the kinds for which the response is simply folded into the view, with the oracle's parameters -/
def kindParams : Kind → Option (Bool × Bool)
  | .quiet => some (true, true)
  | .uidSearch => some (false, false)
  | .other => some (false, true)
  | _ => none

theorem afterResp_params {k : Kind} {q sr : Bool} (hk : kindParams k = some (q, sr)) (b : Bool) (v : View)
    (evs : List Ev) : afterResp k b v evs = applyEvs q sr v evs := by
  cases k <;> simp [kindParams] at hk <;> obtain ⟨rfl, rfl⟩ := hk <;> rfl

/-- a command that ends with a poll: what it sent itself was accepted (`hev`), the state before the
    poll is in the invariant -/
theorem good_poll_tail {stX : Views.St} {GX : List GSt} {A : List View} {c : Nat} (hcA : c < A.length)
    {Ac1 : View} (hX : GInv stX GX (A.set c Ac1)) {k : Kind} {q sr : Bool} (hk : kindParams k = some (q, sr))
    {evs : List Ev} (hev : applyEvs q sr (A.getD c []) evs = .ok Ac1) {allow : Bool} (hq : q = true → allow = false)
    (au : Option Nat) (cu : Option (List Nat × List Nat)) :
    ∃ r, pollConn stX c allow = some r ∧ Good A c k (r.1, ⟨evs ++ r.2, .ok, au, cu⟩) := by
  obtain ⟨r, hr, G', Ac2, ha, h'⟩ := good_of_poll hcA hX hev hq
  refine ⟨r, hr, by simp, by simp, G', Ac2, ?_, h'⟩
  rw [afterResp_params hk]; exact ha

theorem exec?_noop {st : Views.St} {G : List GSt} {A : List View} (h : GInv st G A) {c : Nat} (hcA : c < A.length) :
    ∃ r, pollConn st c true = some r ∧ Good A c .other (r.1, ⟨r.2, .ok, none, none⟩) := by
  have hX : GInv st G (A.set c (A.getD c [])) := by rw [set_getD_self]; exact h
  obtain ⟨r, hr, hg⟩ := good_poll_tail (k := .other) (evs := []) hcA hX rfl rfl (allow := true)
    (by intro hh; cases hh) none none
  exact ⟨r, hr, by simpa using hg⟩

theorem exec?_append {st : Views.St} {G : List GSt} {A : List View} (h : GInv st G A) {c : Nat} (hcA : c < A.length)
    {m : Nat} {b : MBox} (hb : st.mb[m]? = some b) (fl : Nat) :
    ∃ b' r, b.append fl = some (b', b.uidNext) ∧ pollConn (setMb st m b') c true = some r ∧
      Good A c .other (r.1, ⟨r.2, .ok, some b.uidNext, none⟩) := by
  have hmlt : m < G.length := by rw [← h.mlen]; exact (List.getElem?_eq_some_iff.mp hb).1
  obtain ⟨b', g', ha, h1⟩ := ginv_append h hb (List.getElem?_eq_getElem hmlt) fl
  have hX : GInv (setMb st m b') (G.set m g') (A.set c (A.getD c [])) := by rw [set_getD_self]; exact h1
  obtain ⟨r, hr, hg⟩ := good_poll_tail (k := .other) (evs := []) hcA hX rfl rfl (allow := true)
    (by intro hh; cases hh) (some b.uidNext) none
  exact ⟨b', r, ha, hr, by simpa using hg⟩

/-- handleSelect's first half / handleUnselect -/
theorem unselectConn_good {st : Views.St} {G : List GSt} {A : List View} (h : GInv st G A) {c : Nat} {cn : Conn}
    (hc : st.conns[c]? = some cn) :
    ∃ st1 G1 cn1, unselectConn st c cn = some st1 ∧ GInv st1 G1 (A.set c []) ∧
      st1.conns[c]? = some cn1 ∧ cn1.sel = none := by
  cases hs : cn.sel with
  | none =>
    have hci := h.conn c cn hc
    unfold ConnInv at hci
    rw [hs] at hci
    refine ⟨st, G, cn, by simp only [unselectConn, hs], ?_, hc, hs⟩
    rw [← hci.1, set_getD_self]; exact h
  | some m =>
    have hci := h.conn c cn hc
    unfold ConnInv at hci
    rw [hs] at hci
    obtain ⟨g, gs, hg, _, _, _, _⟩ := hci
    have hmlt : m < st.mb.length := by rw [h.mlen]; exact (List.getElem?_eq_some_iff.mp hg).1
    have hb : st.mb[m]? = some st.mb[m] := List.getElem?_eq_getElem hmlt
    obtain ⟨t, hst, h1⟩ := ginv_close h hb hg hc hs
    have hclt : c < st.conns.length := (List.getElem?_eq_some_iff.mp hc).1
    refine ⟨_, _, _, ?_, h1, List.getElem?_set_self hclt, rfl⟩
    simp only [unselectConn, hs, getMb, hb, MBox.tstep, hst, setConn, setMb]

theorem exec?_select {st : Views.St} {G : List GSt} {A : List View} (h : GInv st G A) {c : Nat} {cn : Conn}
    (hc : st.conns[c]? = some cn) (m : Nat) :
    ∃ st1, unselectConn st c cn = some st1 ∧
      match getMb st1 m with
      | none => Good A c .select (st1, Views.no)
      | some b => ∃ b', b.tstep (.newSession c) = some (b', []) ∧
          Good A c .select (setConn (setMb st1 m b') c ⟨some m, false, []⟩,
            Views.ok [Ev.exists_ b.msgs.length, Ev.uidnext b.uidNext]) := by
  obtain ⟨st1, G1, cn1, hu, h1, hc1, hs1⟩ := unselectConn_good h hc
  refine ⟨st1, hu, ?_⟩
  cases hb : getMb st1 m with
  | none =>
    simp only
    exact ⟨by simp [Views.no], by simp [Views.no], G1, [], rfl, h1⟩
  | some b =>
    simp only
    have hmlt : m < G1.length := by rw [← h1.mlen]; exact (List.getElem?_eq_some_iff.mp hb).1
    obtain ⟨t, hst, h2⟩ := ginv_newSession h1 hb (List.getElem?_eq_getElem hmlt) hc1 hs1
    rw [List.set_set] at h2
    refine ⟨{ b with tr := t }, by simp only [MBox.tstep, hst], ?_⟩
    refine ⟨by simp [Views.ok], by simp [Views.ok], _, List.replicate b.msgs.length none, ?_, h2⟩
    simp [Views.ok, afterResp, applyEvs, applyEv]

end GoImap.ViewsLemmas
