/-
  Helper lemmas for C03: a mailbox name written by `encMailbox` (Encoder.Mailbox) is read back by
  `decMailbox` (Decoder.ExpectMailbox) as the canonical name.
-/
import GoImap.Model.RespWire
import GoImap.Spec.RespGrammar
import GoImap.Lemmas.RespWire
import GoImap.Lemmas.Utf7Round
import GoImap.Lemmas.Utf7Trans
import Mathlib.Tactic.SplitIfs

/-! ### general facts about the UTF-8 / modified UTF-7 model -/

namespace GoImap.Utf7
open GoImap.Utf7Lemmas

theorem utf8enc_ne_nil (c : Nat) : 1 ≤ (utf8enc c).length := by
  unfold utf8enc; split_ifs <;> simp

theorem utf8enc_one (b0 : Nat) (h : b0 < 128) : utf8enc b0 = [b0] ∧ Scalar b0 := by
  refine ⟨?_, ?_⟩
  · unfold utf8enc; rw [if_pos h]
  · unfold Scalar; omega

theorem utf8enc_two (b0 b1 : Nat) (h0 : 194 ≤ b0 ∧ b0 < 224) (h1 : isCont b1 = true) :
    utf8enc ((b0 - 192) * 64 + (b1 - 128)) = [b0, b1] ∧ Scalar ((b0 - 192) * 64 + (b1 - 128)) := by
  simp only [isCont, Bool.and_eq_true, decide_eq_true_eq] at h1
  refine ⟨?_, ?_⟩
  · unfold utf8enc
    rw [if_neg (by omega), if_pos (by omega)]
    simp only [List.cons.injEq, and_true]
    constructor <;> omega
  · unfold Scalar; omega

theorem utf8enc_three (b0 b1 b2 : Nat) (h0 : 224 ≤ b0 ∧ b0 < 240) (h1 : isCont b1 = true) (h2 : isCont b2 = true)
    (hlo : 2048 ≤ (b0 - 224) * 4096 + (b1 - 128) * 64 + (b2 - 128))
    (hsur : ¬ (55296 ≤ (b0 - 224) * 4096 + (b1 - 128) * 64 + (b2 - 128) ∧
      (b0 - 224) * 4096 + (b1 - 128) * 64 + (b2 - 128) < 57344)) :
    utf8enc ((b0 - 224) * 4096 + (b1 - 128) * 64 + (b2 - 128)) = [b0, b1, b2] ∧
      Scalar ((b0 - 224) * 4096 + (b1 - 128) * 64 + (b2 - 128)) := by
  simp only [isCont, Bool.and_eq_true, decide_eq_true_eq] at h1 h2
  refine ⟨?_, ?_⟩
  · unfold utf8enc
    rw [if_neg (by omega), if_neg (by omega), if_pos (by omega)]
    simp only [List.cons.injEq, and_true]
    refine ⟨?_, ?_, ?_⟩ <;> omega
  · unfold Scalar; omega

theorem utf8enc_four (b0 b1 b2 b3 : Nat) (h0 : 240 ≤ b0 ∧ b0 < 245) (h1 : isCont b1 = true) (h2 : isCont b2 = true)
    (h3 : isCont b3 = true)
    (hlo : 65536 ≤ (b0 - 240) * 262144 + (b1 - 128) * 4096 + (b2 - 128) * 64 + (b3 - 128))
    (hhi : (b0 - 240) * 262144 + (b1 - 128) * 4096 + (b2 - 128) * 64 + (b3 - 128) < 1114112) :
    utf8enc ((b0 - 240) * 262144 + (b1 - 128) * 4096 + (b2 - 128) * 64 + (b3 - 128)) = [b0, b1, b2, b3] ∧
      Scalar ((b0 - 240) * 262144 + (b1 - 128) * 4096 + (b2 - 128) * 64 + (b3 - 128)) := by
  simp only [isCont, Bool.and_eq_true, decide_eq_true_eq] at h1 h2 h3
  refine ⟨?_, ?_⟩
  · unfold utf8enc
    rw [if_neg (by omega), if_neg (by omega), if_neg (by omega)]
    simp only [List.cons.injEq, and_true]
    refine ⟨?_, ?_, ?_, ?_⟩ <;> omega
  · unfold Scalar; omega

/-- what `utf8dec` guarantees about its output -/
def Utf8Spec (s : BytesN) (cps : List Nat) : Prop :=
  cps.flatMap utf8enc = s ∧ (∀ c ∈ cps, Scalar c) ∧ cps.length ≤ s.length

theorem utf8dec_step (c : Nat) (pre r' : BytesN) (cps : List Nat) (hc : utf8enc c = pre ∧ Scalar c)
    (ih : ∀ t, utf8dec r' = some t → Utf8Spec r' t)
    (h : (utf8dec r').map (c :: ·) = some cps) : Utf8Spec (pre ++ r') cps := by
  cases hr : utf8dec r' with
  | none => rw [hr] at h; simp at h
  | some t =>
    rw [hr] at h
    simp only [Option.map_some, Option.some.injEq] at h
    subst h
    obtain ⟨e, hs, hl⟩ := ih t hr
    have hne := utf8enc_ne_nil c
    rw [hc.1] at hne
    refine ⟨?_, ?_, ?_⟩
    · rw [List.flatMap_cons, hc.1, e]
    · intro x hx
      rcases List.mem_cons.mp hx with rfl | hx
      · exact hc.2
      · exact hs x hx
    · simp only [List.length_cons, List.length_append]; omega

theorem utf8dec_spec_aux : ∀ (n : Nat) (s : BytesN) (cps : List Nat), s.length ≤ n → utf8dec s = some cps →
    Utf8Spec s cps := by
  intro n
  induction n with
  | zero =>
    intro s cps hn h
    cases s with
    | nil =>
      simp only [utf8dec, Option.some.injEq] at h; subst h
      exact ⟨rfl, by simp, by simp⟩
    | cons b0 r => simp at hn
  | succ n ih =>
    intro s cps hn h
    cases s with
    | nil =>
      simp only [utf8dec, Option.some.injEq] at h; subst h
      exact ⟨rfl, by simp, by simp⟩
    | cons b0 r =>
      simp only [List.length_cons] at hn
      rw [utf8dec.eq_def] at h
      simp only at h
      by_cases h1 : b0 < 128
      · rw [if_pos h1] at h
        exact utf8dec_step b0 [b0] r cps (utf8enc_one b0 h1) (fun t ht => ih r t (by omega) ht) h
      rw [if_neg h1] at h
      by_cases h2 : 194 ≤ b0 ∧ b0 < 224
      · rw [if_pos h2] at h
        cases r with
        | nil => simp at h
        | cons b1 r' =>
          simp only at h
          by_cases hc1 : isCont b1 = true
          · rw [if_pos hc1] at h
            simp only [List.length_cons] at hn
            exact utf8dec_step _ [b0, b1] r' cps (utf8enc_two b0 b1 h2 hc1) (fun t ht => ih r' t (by omega) ht) h
          · rw [if_neg hc1] at h; simp at h
      rw [if_neg h2] at h
      by_cases h3 : 224 ≤ b0 ∧ b0 < 240
      · rw [if_pos h3] at h
        match r, h, hn with
        | [], h, _ => simp at h
        | [_], h, _ => simp at h
        | b1 :: b2 :: r', h, hn =>
          simp only at h
          split_ifs at h with hc
          simp only [List.length_cons] at hn
          exact utf8dec_step _ [b0, b1, b2] r' cps (utf8enc_three b0 b1 b2 h3 hc.1 hc.2.1 hc.2.2.1 hc.2.2.2)
            (fun t ht => ih r' t (by omega) ht) h
      rw [if_neg h3] at h
      by_cases h4 : 240 ≤ b0 ∧ b0 < 245
      · rw [if_pos h4] at h
        match r, h, hn with
        | [], h, _ => simp at h
        | [_], h, _ => simp at h
        | [_, _], h, _ => simp at h
        | b1 :: b2 :: b3 :: r', h, hn =>
          simp only at h
          split_ifs at h with hc
          simp only [List.length_cons] at hn
          exact utf8dec_step _ [b0, b1, b2, b3] r' cps
            (utf8enc_four b0 b1 b2 b3 h4 hc.1 hc.2.1 hc.2.2.1 hc.2.2.2.1 hc.2.2.2.2)
            (fun t ht => ih r' t (by omega) ht) h
      rw [if_neg h4] at h
      simp at h

/-- strict UTF-8 decoding is injective (re-encoding gives the input back) and yields scalar values -/
theorem utf8enc_utf8dec (s : BytesN) (cps : List Nat) (h : utf8dec s = some cps) :
    cps.flatMap utf8enc = s ∧ (∀ c ∈ cps, Scalar c) ∧ cps.length ≤ s.length :=
  utf8dec_spec_aux s.length s cps (Nat.le_refl _) h

/-! #### a crude bound on the length of the modified UTF-7 form -/

theorem b64enc_length_le : ∀ (bs : BytesN), (b64enc bs).length ≤ 2 * bs.length
  | [] => by simp [b64enc]
  | [_] => by simp [b64enc]
  | [_, _] => by simp [b64enc]
  | _ :: _ :: _ :: r => by
    have := b64enc_length_le r
    simp only [b64enc, List.length_cons]
    omega

theorem utf16be_length_le (c : Nat) : (utf16be c).length ≤ 4 := by
  unfold utf16be; split_ifs <;> simp

theorem flatMap_utf16be_length_le : ∀ (cs : List Nat), (cs.flatMap utf16be).length ≤ 4 * cs.length
  | [] => by simp
  | c :: cs => by
    have := utf16be_length_le c
    have := flatMap_utf16be_length_le cs
    simp only [List.flatMap_cons, List.length_append, List.length_cons]
    omega

theorem flush_length_le (acc : List Nat) : (flush acc).length ≤ 10 * acc.length := by
  unfold flush
  cases acc with
  | nil => simp
  | cons a as =>
    have h1 := b64enc_length_le ((a :: as).flatMap utf16be)
    have h2 := flatMap_utf16be_length_le (a :: as)
    simp only [List.isEmpty_cons, Bool.false_eq_true, if_false, encRun, List.cons_append, List.length_cons,
      List.length_append, List.length_nil] at h1 h2 ⊢
    omega

theorem enc_length_le : ∀ (s acc : List Nat), (enc acc s).length ≤ 10 * (acc.length + s.length)
  | [], acc => by
    have := flush_length_le acc
    simp only [enc, List.length_nil]; omega
  | c :: cs, acc => by
    unfold enc
    by_cases hp : printable c = true
    · have h1 := flush_length_le acc
      have h2 := enc_length_le cs []
      have h3 : (if c = 38 then [38, 45] else [c]).length ≤ 2 := by split_ifs <;> simp
      simp only [hp, if_true, List.length_append, List.length_cons, List.length_nil] at h2 ⊢
      omega
    · have h2 := enc_length_le cs (acc ++ [c])
      simp only [hp, Bool.false_eq_true, if_false, List.length_append, List.length_cons, List.length_nil] at h2 ⊢
      omega

theorem encode_length_le (s : List Nat) : (encode s).length ≤ 10 * s.length := by
  have := enc_length_le s []
  simpa [encode] using this

/-! #### output without `&` -/

theorem encRun_amp (run : List Nat) : 38 ∈ encRun run := by simp [encRun]

/-- when the encoder never shifts, it copied its input -/
theorem enc_no_amp : ∀ (s acc : List Nat), 38 ∉ enc acc s →
    acc = [] ∧ enc acc s = s ∧ ∀ c ∈ s, printable c = true
  | [], acc, h => by
    cases acc with
    | nil => simp [enc, flush]
    | cons a as =>
      exfalso; apply h
      simp only [enc, flush, List.isEmpty_cons, Bool.false_eq_true, if_false]
      exact encRun_amp _
  | c :: cs, acc, h => by
    unfold enc at h ⊢
    by_cases hp : printable c = true
    · simp only [hp, if_true, List.mem_append, not_or] at h
      obtain ⟨⟨hf, hc⟩, hrest⟩ := h
      have hacc : acc = [] := by
        cases acc with
        | nil => rfl
        | cons a as =>
          exfalso; apply hf
          simp only [flush, List.isEmpty_cons, Bool.false_eq_true, if_false]
          exact encRun_amp _
      subst hacc
      have hc38 : c ≠ 38 := by
        intro e; apply hc; rw [if_pos e]; simp
      obtain ⟨_, e, hall⟩ := enc_no_amp cs [] hrest
      refine ⟨rfl, ?_, ?_⟩
      · simp only [hp, if_true, flush, List.isEmpty_nil, hc38, if_false, List.nil_append, List.cons_append, e]
      · intro x hx
        rcases List.mem_cons.mp hx with rfl | hx
        · exact hp
        · exact hall x hx
    · simp only [hp, Bool.false_eq_true, if_false] at h
      obtain ⟨e, _, _⟩ := enc_no_amp cs (acc ++ [c]) h
      simp at e

theorem flatMap_utf8enc_printable : ∀ (s : List Nat), (∀ c ∈ s, printable c = true) → s.flatMap utf8enc = s
  | [], _ => rfl
  | c :: cs, h => by
    rw [List.flatMap_cons, utf8enc_printable (h c (by simp)),
      flatMap_utf8enc_printable cs (fun x hx => h x (by simp [hx]))]
    rfl

/-- an encoded name without `&` is the UTF-8 name itself -/
theorem encode_no_amp (s : List Nat) (h : 38 ∉ encode s) : encode s = s.flatMap utf8enc := by
  obtain ⟨_, e, hall⟩ := enc_no_amp s [] h
  rw [flatMap_utf8enc_printable s hall]
  exact e

end GoImap.Utf7

/-! ### mailbox names on the wire -/

namespace GoImap.Resp
open GoImap.Utf7Lemmas

theorem mailbox_lower_eq (s : Str) : RespSpec.lower s = s.map lowerB := rfl

theorem mailbox_inbox_lower : (asc "INBOX").map lowerB = RespSpec.str "inbox" := by decide +kernel

theorem mailbox_inbox_str : asc "INBOX" = RespSpec.str "INBOX" := by decide +kernel

/-- the specification's INBOX test is the wire layer's `eqFold` test -/
theorem mailbox_canon_eq (name : Str) :
    RespSpec.canonMailbox name = if eqFold name (asc "INBOX") then asc "INBOX" else name := by
  unfold RespSpec.canonMailbox eqFold
  rw [mailbox_lower_eq, mailbox_inbox_lower, mailbox_inbox_str]

theorem mailbox_eqFold_no_amp (e : Str) (h : eqFold e (asc "INBOX") = true) : 38 ∉ e := by
  intro hm
  unfold eqFold at h
  have h' : e.map lowerB = (asc "INBOX").map lowerB := by simpa using h
  have : lowerB 38 ∈ e.map lowerB := List.mem_map_of_mem hm
  rw [h'] at this
  revert this
  decide

/-- the INBOX test on the modified UTF-7 form agrees with the test on the name -/
theorem mailbox_eqFold_encode (name : Str) (cps : List Nat) (hd : Utf7.utf8dec name = some cps)
    (h : eqFold name (asc "INBOX") = false) : eqFold (Utf7.encode cps) (asc "INBOX") = false := by
  cases hf : eqFold (Utf7.encode cps) (asc "INBOX") with
  | false => rfl
  | true =>
    have e := Utf7.encode_no_amp cps (mailbox_eqFold_no_amp _ hf)
    rw [e, (Utf7.utf8enc_utf8dec name cps hd).1, h] at hf
    exact hf.symm

theorem mailbox_decAString_encString (utf8 : Bool) (s rest : Str) (hs : s.length < 9223372036854775808) :
    decAString (encString utf8 s ++ rest) = some (s, rest) := by
  have hd := decString_encString utf8 s rest hs
  unfold encString at hd ⊢
  by_cases h : validQuoted utf8 s = true
  · rw [if_pos h] at hd ⊢
    unfold encQuoted at hd ⊢
    simpa [decString, decAString] using hd
  · rw [if_neg h] at hd ⊢
    unfold encLiteral encLiteralHdr at hd ⊢
    simpa [decString, decAString] using hd

theorem mailbox_decAString_inbox (rest : Str) (hr : StopsAt isAtomChar rest) :
    decAString (asc "INBOX" ++ rest) = some (asc "INBOX", rest) := by
  have h := tryAtom_append (asc "INBOX") rest (by decide) (by decide) hr
  have e : asc "INBOX" = [73, 78, 66, 79, 88] := by decide
  rw [e] at h ⊢
  simpa [decAString] using h

/-- Decoder.ExpectMailbox reads what Encoder.Mailbox wrote as the canonical name -/
theorem decMailbox_encMailbox (utf8 : Bool) (name mb rest : Str)
    (h : encMailbox utf8 name = some mb) (hlen : name.length < 4294967296)
    (hr : StopsAt isAtomChar rest) :
    decMailbox (mb ++ rest) = some (RespSpec.canonMailbox name, rest) := by
  rw [mailbox_canon_eq]
  unfold encMailbox at h
  cases hf : eqFold name (asc "INBOX") with
  | true =>
    rw [hf] at h
    simp only [if_true, Option.some.injEq] at h
    subst h
    unfold decMailbox
    rw [mailbox_decAString_inbox rest hr]
    have : eqFold (asc "INBOX") (asc "INBOX") = true := by decide
    simp only [this, if_true]
  | false =>
    rw [hf] at h
    simp only [Bool.false_eq_true, if_false] at h
    cases hd : Utf7.utf8dec name with
    | none => rw [hd] at h; simp at h
    | some cps =>
      rw [hd] at h
      simp only [Option.map_some, Option.some.injEq] at h
      subst h
      obtain ⟨he, hsc, hl⟩ := Utf7.utf8enc_utf8dec name cps hd
      have hlen' : (Utf7.encode cps).length < 9223372036854775808 := by
        have := Utf7.encode_length_le cps
        omega
      unfold decMailbox
      rw [mailbox_decAString_encString utf8 _ rest hlen']
      have hdec : Utf7.decode (Utf7.encode cps) = some cps := by
        have := dec_enc cps [] (by simp) hsc
        simpa [Utf7.decode, Utf7.encode] using this
      simp only [mailbox_eqFold_encode name cps hd hf, Bool.false_eq_true, if_false, hdec, Option.map_some, he]

/-- "Entwürfe" without UTF8=ACCEPT: `"Entw&APw-rfe"` -/
example : decMailbox (encString false (Utf7.encode [69, 110, 116, 119, 252, 114, 102, 101]) ++ [13, 10]) =
    some ([69, 110, 116, 119, 195, 188, 114, 102, 101], [13, 10]) :=
  decMailbox_encMailbox false [69, 110, 116, 119, 195, 188, 114, 102, 101] _ [13, 10] (by decide) (by decide)
    (StopsAt.cons _ (by decide))

example : encMailbox false [69, 110, 116, 119, 195, 188, 114, 102, 101] =
    some (asc "\"Entw&APw-rfe\"") := by decide

/-- "inbox" is written as the atom INBOX and delivered as "INBOX" -/
example : decMailbox (asc "INBOX" ++ [32, 40]) = some (RespSpec.str "INBOX", [32, 40]) :=
  decMailbox_encMailbox true (asc "inbox") _ [32, 40] (by decide) (by decide) (StopsAt.cons _ (by decide))

end GoImap.Resp
