/-
  C02 helper lemmas: the effects of the keys of a criteria value compose to its canonical form.
-/
import GoImap.Lemmas.CmdGrammarSearchRead
namespace GoImap.CmdLemmas
open GoImap.CmdGrammar GoImap.CmdSpec

abbrev run (items : List KI) (c : Crit) : Crit := items.foldl (fun acc a => a.2 acc) c

theorem run_append (l1 l2 : List KI) (c : Crit) : run (l1 ++ l2) c = run l2 (run l1 c) := by
  simp [run, List.foldl_append]

/-- keys whose effect appends one value to a field of the flat part -/
theorem run_map_addF {α : Type} (l : List α) (mk : α → KI) (g : α → Flat → Flat)
    (h : ∀ a, (mk a).2 = addF (g a)) (x : Flat) (n : CritList) (o : OrList) :
    run (l.map mk) (.mk x n o) = .mk (l.foldl (fun x a => g a x) x) n o := by
  induction l generalizing x with
  | nil => rfl
  | cons a t ih =>
    simp only [run, List.map_cons, List.foldl_cons, h a, addF, Crit.withFlat, Crit.flat, Crit.nots, Crit.ors]
    exact ih (g a x)

theorem titleCase_upper (k : Str) : titleCase (upper k) = titleCase k := by
  have : lower (upper k) = lower k := by
    simp only [lower, upper, List.map_map]
    apply List.map_congr_left
    intro c _
    simp only [Function.comp, lowerByte, upperByte]
    split_ifs <;> omega
  simp [titleCase, this]

theorem headerItem_eff (kv : Str × Str) :
    (headerItem kv).2 = addF fun f => { f with header := f.header ++ [(canonHeaderKey kv.1, kv.2)] } := by
  unfold headerItem canonHeaderKey
  split_ifs with h
  · simp [titleCase_upper]
  · rfl

theorem sysflag_canon (fl k : Str) (h : flagSearchKey fl = some k) : canonFlag fl = fl := by
  unfold flagSearchKey at h
  split_ifs at h with h1 h2 h3 h4 h5 <;> first | (subst_vars; decide) | simp at h

theorem flagItem_eff (fl : Str) : (flagItem fl).2 = addF fun x => { x with flags := x.flags ++ [canonFlag fl] } := by
  unfold flagItem
  cases h : flagSearchKey fl with
  | some k => simp [sysflag_canon fl k h]
  | none => rfl

theorem notFlagItem_eff (fl : Str) : (notFlagItem fl).2 = addF fun x => { x with notFlags := x.notFlags ++ [canonFlag fl] } := by
  unfold notFlagItem
  cases h : flagSearchKey fl with
  | some k => simp [sysflag_canon fl k h]
  | none => rfl

theorem foldl_snoc_field {α β : Type} (l : List α) (v : α → β) (acc : List β) :
    l.foldl (fun acc a => acc ++ [v a]) acc = acc ++ l.map v := by
  induction l generalizing acc with
  | nil => simp
  | cons a t ih => simp [ih]

theorem interSince_zero (d : Int) : interSince 0 d = d := by simp [interSince]
theorem interBefore_zero (d : Int) : interBefore 0 d = d := by simp [interBefore]

theorem dayOnly_eq (d : Date) : dayOnly d = dateOnly d.day := rfl

/-- the received-date keys set the two bounds to the days of the caller's pair -/
theorem run_recvDates (s b : Date) (x : Flat) (n : CritList) (o : OrList) (hs : x.since = {}) (hb : x.before = {}) :
    run (recvDateItems s b) (.mk x n o) = .mk { x with since := dayOnly s, before := dayOnly b } n o := by
  have h0 : (dateOnly 0 : Date) = {} := rfl
  unfold recvDateItems
  by_cases h1 : s.day = 0 <;> by_cases h2 : b.day = 0 <;> by_cases h3 : onRule s b = true <;>
    simp [run, addF, Crit.withFlat, Crit.flat, Crit.nots, Crit.ors, h1, h2, h3, hs, hb, interSince_zero, interBefore_zero,
      dayOnly_eq, h0] <;>
    first
    | (cases x; simp_all; done)
    | (unfold onRule at h3; simp only [decide_eq_true_eq] at h3; cases x; simp_all)

theorem run_sentDates (s b : Date) (x : Flat) (n : CritList) (o : OrList) (hs : x.sentSince = {}) (hb : x.sentBefore = {}) :
    run (sentDateItems s b) (.mk x n o) = .mk { x with sentSince := dayOnly s, sentBefore := dayOnly b } n o := by
  have h0 : (dateOnly 0 : Date) = {} := rfl
  unfold sentDateItems
  by_cases h1 : s.day = 0 <;> by_cases h2 : b.day = 0 <;> by_cases h3 : onRule s b = true <;>
    simp [run, addF, Crit.withFlat, Crit.flat, Crit.nots, Crit.ors, h1, h2, h3, hs, hb, interSince_zero, interBefore_zero,
      dayOnly_eq, h0] <;>
    first
    | (cases x; simp_all; done)
    | (unfold onRule at h3; simp only [decide_eq_true_eq] at h3; cases x; simp_all)


theorem run_larger (v : Int) (x : Flat) (n : CritList) (o : OrList) (h0 : x.larger = 0) (hv : 0 ≤ v) :
    run (largerItems v) (.mk x n o) = .mk { x with larger := v } n o := by
  unfold largerItems
  split_ifs with hp
  · have : ((v.toNat : Nat) : Int) = v := Int.toNat_of_nonneg hv
    simp [run, addF, Crit.withFlat, Crit.flat, Crit.nots, Crit.ors, h0, andLarger, this]
  · have : v = 0 := by omega
    subst this
    cases x; simp_all [run]

theorem run_smaller (v : Int) (x : Flat) (n : CritList) (o : OrList) (h0 : x.smaller = 0) (hv : 0 ≤ v) :
    run (smallerItems v) (.mk x n o) = .mk { x with smaller := v } n o := by
  unfold smallerItems
  split_ifs with hp
  · have : ((v.toNat : Nat) : Int) = v := Int.toNat_of_nonneg hv
    have hne : v ≠ 0 := by omega
    simp [run, addF, Crit.withFlat, Crit.flat, Crit.nots, Crit.ors, h0, andSmaller, this, hne]
  · have : v = 0 := by omega
    subst this
    cases x; simp_all [run]

def napp : CritList → CritList → CritList
  | .nil, l => l
  | .cons c t, l => .cons c (napp t l)

def oapp : OrList → OrList → OrList
  | .nil, l => l
  | .cons a b t, l => .cons a b (oapp t l)

theorem snoc_app : ∀ (n : CritList) (c : Crit) (l : CritList), napp (n.snoc c) l = napp n (.cons c l)
  | .nil, _, _ => rfl
  | .cons x t, c, l => by simp [CritList.snoc, napp, snoc_app t c l]

theorem app_nil : ∀ (n : CritList), napp n .nil = n
  | .nil => rfl
  | .cons x t => by simp [napp, app_nil t]

theorem or_snoc_app : ∀ (n : OrList) (a b : Crit) (l : OrList), oapp (n.snoc a b) l = oapp n (.cons a b l)
  | .nil, _, _, _ => rfl
  | .cons x y t, a, b, l => by simp [OrList.snoc, oapp, or_snoc_app t a b l]

theorem or_app_nil : ∀ (n : OrList), oapp n .nil = n
  | .nil => rfl
  | .cons x y t => by simp [oapp, or_app_nil t]

theorem run_nots : ∀ (nots : CritList) (x : Flat) (n : CritList) (o : OrList),
    run (notItems nots) (.mk x n o) = .mk x (napp n (delivNots nots)) o
  | .nil, x, n, o => by simp [run, notItems, delivNots, app_nil]
  | .cons c t, x, n, o => by
    have ih := run_nots t x (n.snoc (delivCrit c)) o
    simp only [run, notItems, List.foldl_cons, Crit.flat, Crit.nots, Crit.ors] at ih ⊢
    rw [ih]
    simp [delivNots, snoc_app]

theorem run_ors : ∀ (ors : OrList) (x : Flat) (n : CritList) (o : OrList),
    run (orItems ors) (.mk x n o) = .mk x n (oapp o (delivOrs ors))
  | .nil, x, n, o => by simp [run, orItems, delivOrs, or_app_nil]
  | .cons a b t, x, n, o => by
    have ih := run_ors t x n (o.snoc (delivCrit a) (delivCrit b))
    simp only [run, orItems, List.foldl_cons, Crit.flat, Crit.nots, Crit.ors] at ih ⊢
    rw [ih]
    simp [delivOrs, or_snoc_app]

theorem map_canonNSet (l : List NSet) (h : ∀ s ∈ l, SetNF s) : l.map canonNSet = l := by
  induction l with
  | nil => rfl
  | cons a t ih =>
    simp only [List.map_cons, canonNSet_nf a (h a (by simp)), ih (fun s hs => h s (by simp [hs]))]

theorem fold_seq (l : List NSet) (x : Flat) :
    l.foldl (fun x a => ({ x with seqSets := x.seqSets ++ [delivN a] } : Flat)) x = { x with seqSets := x.seqSets ++ l.map delivN } := by
  induction l generalizing x with
  | nil => simp
  | cons a t ih => simp [ih]

theorem fold_uid (l : List NSet) (x : Flat) :
    l.foldl (fun x a => ({ x with uidSets := x.uidSets ++ [delivN a] } : Flat)) x = { x with uidSets := x.uidSets ++ l.map delivN } := by
  induction l generalizing x with
  | nil => simp
  | cons a t ih => simp [ih]

theorem fold_header (l : List (Str × Str)) (x : Flat) :
    l.foldl (fun x kv => ({ x with header := x.header ++ [(canonHeaderKey kv.1, kv.2)] } : Flat)) x =
      { x with header := x.header ++ l.map fun kv => (canonHeaderKey kv.1, kv.2) } := by
  induction l generalizing x with
  | nil => simp
  | cons a t ih => simp [ih]

theorem fold_body (l : List Str) (x : Flat) :
    l.foldl (fun x a => ({ x with body := x.body ++ [a] } : Flat)) x = { x with body := x.body ++ l } := by
  induction l generalizing x with
  | nil => simp
  | cons a t ih => simp [ih]

theorem fold_text (l : List Str) (x : Flat) :
    l.foldl (fun x a => ({ x with text := x.text ++ [a] } : Flat)) x = { x with text := x.text ++ l } := by
  induction l generalizing x with
  | nil => simp
  | cons a t ih => simp [ih]

theorem fold_flags (l : List Str) (x : Flat) :
    l.foldl (fun x a => ({ x with flags := x.flags ++ [canonFlag a] } : Flat)) x = { x with flags := x.flags ++ l.map canonFlag } := by
  induction l generalizing x with
  | nil => simp
  | cons a t ih => simp [ih]

theorem fold_notFlags (l : List Str) (x : Flat) :
    l.foldl (fun x a => ({ x with notFlags := x.notFlags ++ [canonFlag a] } : Flat)) x = { x with notFlags := x.notFlags ++ l.map canonFlag } := by
  induction l generalizing x with
  | nil => simp
  | cons a t ih => simp [ih]

/-- the keys of the flat part, of the NOTs and of the ORs, run from the empty criteria -/
theorem run_items (f : Flat) (nots : CritList) (ors : OrList) (hf : FlatOK f) :
    run (flatItems f ++ notItems nots ++ orItems ors) Crit.empty = delivCrit (.mk f nots ors) := by
  have hl := hf.larger.1
  have hs := hf.smaller.1
  obtain ⟨sq, uq, si, be, ss, sb, hd, bd, tx, fl, nf, lg, sm⟩ := f
  simp only at hl hs
  simp only [flatItems, run_append, Crit.empty]
  rw [run_map_addF sq seqItem (fun s x => { x with seqSets := x.seqSets ++ [delivN s] }) (fun _ => rfl), fold_seq]
  rw [run_map_addF uq uidItem (fun s x => { x with uidSets := x.uidSets ++ [delivN s] }) (fun _ => rfl), fold_uid]
  rw [run_recvDates _ _ _ _ _ rfl rfl]
  rw [run_sentDates _ _ _ _ _ rfl rfl]
  rw [run_map_addF hd headerItem (fun kv x => { x with header := x.header ++ [(canonHeaderKey kv.1, kv.2)] }) headerItem_eff, fold_header]
  rw [run_map_addF bd bodyItem (fun s x => { x with body := x.body ++ [s] }) (fun _ => rfl), fold_body]
  rw [run_map_addF tx textItem (fun s x => { x with text := x.text ++ [s] }) (fun _ => rfl), fold_text]
  rw [run_map_addF fl flagItem (fun s x => { x with flags := x.flags ++ [canonFlag s] }) flagItem_eff, fold_flags]
  rw [run_map_addF nf notFlagItem (fun s x => { x with notFlags := x.notFlags ++ [canonFlag s] }) notFlagItem_eff, fold_notFlags]
  rw [run_larger _ _ _ _ rfl hl, run_smaller _ _ _ _ rfl hs, run_nots, run_ors]
  simp [delivCrit, delivFlat, canonFlat, napp, oapp]

theorem composes (c : Crit) (h : CritOK c) : Composes c := by
  cases c with
  | mk f nots ors =>
    unfold CritOK at h
    have hr := run_items f nots ors h.1
    unfold Composes critItems orAll
    by_cases he : (flatItems f ++ notItems nots ++ orItems ors).isEmpty = true
    · have hnil : flatItems f ++ notItems nots ++ orItems ors = [] := List.isEmpty_iff.mp he
      rw [hnil] at hr
      simp only [he, if_true, List.foldl_cons, List.foldl_nil, id]
      exact hr
    · simp only [he, if_false]
      exact hr

end GoImap.CmdLemmas
