/-
  C10 helper lemmas, part 3: after the fault the system cannot get stuck short of the terminal
  state (given the caller's contract), hence — with the measure of part 1 — every run drains.
-/
import GoImap.Lemmas.ClientFaultInv
import Mathlib.Tactic.SplitIfs
namespace GoImap.ClientFaultLemmas
open GoImap.ClientFault

/-- the connection has failed, or the caller has asked for it to be closed -/
def PostFault (s : St) : Prop := s.tail ≠ .stall ∨ s.closer = .wanted

/-- what a rule may do to the connection's tail and to the closer -/
def TailOK (s s' : St) : Prop :=
  (s'.tail = s.tail ∨ s'.tail = .err) ∧ (s.closer = .wanted → s'.closer = .wanted ∨ s'.tail = .err)

theorem TailOK.same {s s' : St} (h1 : s'.tail = s.tail) (h2 : s'.closer = s.closer) : TailOK s s' :=
  ⟨Or.inl h1, fun h => Or.inl (by rw [h2]; exact h)⟩

theorem TailOK.record {s t : St} (c : Cls) (h : TailOK s t) : TailOK s (record t c) := by
  obtain ⟨_, _, f3, _, _, _, _, _, _, _, _, _, f12, _⟩ := record_fields t c
  exact ⟨by rw [f3]; exact h.1, fun hw => by rw [f12, f3]; exact h.2 hw⟩

theorem TailOK.closed {s s' : St} (h : s'.tail = .err) : TailOK s s' := ⟨Or.inr h, fun _ => Or.inr h⟩

theorem issueCmd_tail (s : St) (c : Nat) (x : Cmd) (wc : Bool) :
    (issueCmd s c x wc).tail = s.tail ∧ (issueCmd s c x wc).closer = s.closer := by
  rw [issueCmd_eq]; split_ifs <;> exact ⟨rfl, rfl⟩

theorem step_tailOK {s s' : St} (hs : Step s s') : TailOK s s' := by
  obtain ⟨r, hr, hs⟩ := hs
  simp only [rules, List.mem_cons, List.mem_nil_iff, or_false] at hr
  rcases hr with rfl | rfl | rfl | rfl | rfl | rfl | rfl | rfl | rfl | rfl | rfl | rfl | rfl | rfl | rfl
  · -- cStart
    simp only [cStart] at hs
    split_ifs at hs
    split at hs
    · simp at hs
    · rename_i ph rest hprog
      simp only [Option.some.injEq] at hs; subst hs
      have hrec : ∀ cl, TailOK s (ClientFault.record s cl) := fun cl => TailOK.record cl (TailOK.same rfl rfl)
      have hrecm : ∀ cl, TailOK s (ClientFault.record { s with mutex := false } cl) :=
        fun cl => TailOK.record cl (TailOK.same rfl rfl)
      cases ph <;> simp only [startPhase, consume, issueBlocking]
      · exact TailOK.same rfl rfl
      · split
        · split_ifs
          · exact hrec _
          · exact TailOK.record _ (TailOK.same (issueCmd_tail _ _ _ _).1 (issueCmd_tail _ _ _ _).2)
        · exact hrec _
      · split
        · split_ifs
          · exact hrec _
          · exact TailOK.same rfl rfl
        · exact hrec _
      · split
        · split_ifs
          · exact TailOK.same rfl rfl
          · exact hrec _
        · exact hrec _
      · split
        · split_ifs
          · exact TailOK.same rfl rfl
          · exact hrec _
        · exact hrec _
      · split
        · split_ifs
          · exact TailOK.same rfl rfl
          · exact hrec _
        · exact hrec _
      · split
        · split_ifs
          · exact TailOK.same (issueCmd_tail _ _ _ _).1 (issueCmd_tail _ _ _ _).2
          · exact hrec _
        · exact hrec _
      · split
        · split_ifs
          · exact TailOK.same (issueCmd_tail _ _ _ _).1 (issueCmd_tail _ _ _ _).2
          · exact hrec _
        · exact hrec _
      · split
        · split_ifs
          · exact hrecm _
          · exact hrec _
        · exact hrec _
      · exact hrecm _
      · split
        · split_ifs
          · exact TailOK.same (issueCmd_tail _ _ _ _).1 (issueCmd_tail _ _ _ _).2
          · exact hrec _
        · exact hrec _
      · split
        · split_ifs
          · exact TailOK.same (issueCmd_tail _ _ _ _).1 (issueCmd_tail _ _ _ _).2
          · exact hrec _
        · exact hrec _
  · -- cGreet
    simp only [cGreet] at hs
    split_ifs at hs
    simp only [Option.some.injEq] at hs; subst hs
    exact TailOK.record _ (TailOK.same rfl rfl)
  · -- cRes
    simp only [cRes] at hs
    split at hs
    · split at hs
      · split at hs
        · split_ifs at hs
          · simp only [Option.some.injEq] at hs; subst hs; exact TailOK.same rfl rfl
          · simp only [Option.some.injEq] at hs; subst hs; exact TailOK.record _ (TailOK.closed rfl)
          · simp only [Option.some.injEq] at hs; subst hs; exact TailOK.record _ (TailOK.same rfl rfl)
        · simp at hs
      · simp at hs
    · simp at hs
  · -- cTls
    simp only [cTls] at hs
    split at hs
    · split_ifs at hs
      simp only [Option.some.injEq] at hs; subst hs; exact TailOK.record _ (TailOK.same rfl rfl)
    · simp at hs
  · -- cMsgs
    simp only [cMsgs] at hs
    split at hs
    · split at hs
      · split_ifs at hs
        · simp only [Option.some.injEq] at hs; subst hs; exact TailOK.same rfl rfl
        · simp only [Option.some.injEq] at hs; subst hs; exact TailOK.same rfl rfl
        · simp only [Option.some.injEq] at hs; subst hs; exact TailOK.record _ (TailOK.same rfl rfl)
      · simp at hs
    · simp at hs
  · -- cItems
    simp only [cItems] at hs
    split at hs
    · split at hs
      · simp only [Option.some.injEq] at hs; subst hs; exact TailOK.same rfl rfl
      · simp only [Option.some.injEq] at hs; subst hs; exact TailOK.same rfl rfl
      · simp at hs
    · simp at hs
  · -- cLit
    simp only [cLit] at hs
    split at hs
    · split_ifs at hs
      · simp only [Option.some.injEq] at hs; subst hs; exact TailOK.same rfl rfl
      · split at hs
        · simp at hs
        · simp only [Option.some.injEq] at hs; subst hs; exact TailOK.same rfl rfl
        · simp only [Option.some.injEq] at hs; subst hs; exact TailOK.same rfl rfl
    · simp at hs
  · -- cCont
    simp only [cCont] at hs
    split at hs
    · split at hs
      · split at hs
        · simp only [Option.some.injEq] at hs; subst hs; exact TailOK.record _ (TailOK.same rfl rfl)
        · simp only [Option.some.injEq] at hs; subst hs; exact TailOK.record _ (TailOK.same rfl rfl)
        · simp only [Option.some.injEq] at hs; subst hs; exact TailOK.record _ (TailOK.same rfl rfl)
        · simp only [Option.some.injEq] at hs; subst hs; exact TailOK.record _ (TailOK.same rfl rfl)
        · simp only [Option.some.injEq] at hs; subst hs; exact TailOK.record _ (TailOK.same rfl rfl)
        · simp only [Option.some.injEq] at hs; subst hs; exact TailOK.record _ (TailOK.same rfl rfl)
        · split_ifs at hs
          · simp only [Option.some.injEq] at hs; subst hs; exact TailOK.record _ (TailOK.same rfl rfl)
          · simp only [Option.some.injEq] at hs; subst hs; exact TailOK.same rfl rfl
        · simp only [Option.some.injEq] at hs; subst hs; exact TailOK.same rfl rfl
        · simp at hs
      · simp at hs
    · simp at hs
  · -- rTok
    simp only [rTok] at hs
    split_ifs at hs
    split at hs
    · simp only [Option.some.injEq] at hs; subst hs; exact TailOK.same rfl rfl
    · simp only [Option.some.injEq] at hs; subst hs; exact TailOK.same rfl rfl
    · split at hs
      · split_ifs at hs
        simp only [Option.some.injEq] at hs; subst hs; exact TailOK.same rfl rfl
      · simp at hs
    · split at hs
      · split_ifs at hs
        simp only [Option.some.injEq] at hs; subst hs; exact TailOK.same rfl rfl
      · simp at hs
    · split at hs
      · split_ifs at hs
        simp only [Option.some.injEq] at hs; subst hs; exact TailOK.same rfl rfl
      · simp at hs
    · split at hs
      · split_ifs at hs
        simp only [Option.some.injEq] at hs; subst hs; exact TailOK.same rfl rfl
      · simp at hs
    · simp only [Option.some.injEq] at hs; subst hs; exact TailOK.same rfl rfl
    · simp at hs
    · simp at hs
  · -- rResume
    simp only [rResume] at hs
    split_ifs at hs
    simp only [Option.some.injEq] at hs; subst hs; exact TailOK.same rfl rfl
  · -- rFail
    simp only [rFail] at hs
    split_ifs at hs
    simp only [Option.some.injEq] at hs; subst hs; exact TailOK.closed rfl
  · -- kClose
    simp only [kClose] at hs
    split_ifs at hs
    simp only [Option.some.injEq] at hs; subst hs; exact TailOK.closed rfl
  · -- kRet
    simp only [kRet] at hs
    split_ifs at hs with hc
    simp only [Option.some.injEq] at hs; subst hs
    simp only [Bool.and_eq_true, decide_eq_true_eq] at hc
    exact ⟨Or.inl rfl, fun hw => by rw [hc.1] at hw; cases hw⟩
  · -- pFire
    simp only [pFire] at hs
    split_ifs at hs
    simp only [Option.some.injEq] at hs; subst hs; exact TailOK.closed rfl
  · -- kFinal
    simp only [kFinal] at hs
    split_ifs at hs with hc
    simp only [Option.some.injEq] at hs; subst hs
    simp only [Bool.and_eq_true, decide_eq_true_eq] at hc
    exact ⟨Or.inl rfl, fun hw => by rw [hc.1.1] at hw; cases hw⟩

theorem postFault_step {s s' : St} (h : PostFault s) (hs : Step s s') : PostFault s' := by
  have t := step_tailOK hs
  rcases h with h | h
  · rcases t.1 with e | e
    · exact Or.inl (by rw [e]; exact h)
    · exact Or.inl (by rw [e]; simp)
  · rcases t.2 h with e | e
    · exact Or.inr e
    · exact Or.inl (by rw [e]; simp)


/-! ### the caller's contract -/

/-- the caller is consuming the in-flight FETCH message, or about to make its next call -/
def Consuming (s : St) : Prop :=
  (s.pos = .ready ∧ s.prog ≠ []) ∨ (∃ c w, s.pos = .items c w) ∨ (∃ c w, s.pos = .lit c w) ∨
  (∃ c w x, s.pos = .msgs c w ∧ s.cmds[c]? = some x ∧ x.kind = .fetch)

/-- The documented contract of the API as a predicate on states: (1) streaming commands are
    consumed — while the reader holds a message with a literal for the caller, the caller is not
    blocked in some other call and has not walked away; (2) a caller that is through has released
    the encoder (IdleCommand.Close / AppendCommand.Close were called). -/
def Contract (s : St) : Prop :=
  (s.reader = .litWait → s.flight = some true → Consuming s) ∧
  (s.prog = [] → s.pos = .ready → s.mutex = false)

theorem stuck_rules {s : St} (h : next rules s = none) : ∀ r ∈ rules, r s = none := by
  simp only [next, List.findSome?_eq_none_iff] at h
  exact h

/-- after the fault, a state in which no rule is enabled is terminal -/
theorem stuck_is_terminal {s : St} (hI : Inv s) (hP : PostFault s) (hC : Contract s)
    (hstuck : next rules s = none) : terminal s = true := by
  have hr := stuck_rules hstuck
  have e_cStart : cStart s = none := hr _ (by simp [rules])
  have e_cGreet : cGreet s = none := hr _ (by simp [rules])
  have e_cRes : cRes s = none := hr _ (by simp [rules])
  have e_cTls : cTls s = none := hr _ (by simp [rules])
  have e_cMsgs : cMsgs s = none := hr _ (by simp [rules])
  have e_cItems : cItems s = none := hr _ (by simp [rules])
  have e_cLit : cLit s = none := hr _ (by simp [rules])
  have e_cCont : cCont s = none := hr _ (by simp [rules])
  have e_rTok : rTok s = none := hr _ (by simp [rules])
  have e_rResume : rResume s = none := hr _ (by simp [rules])
  have e_rFail : rFail s = none := hr _ (by simp [rules])
  have e_kClose : kClose s = none := hr _ (by simp [rules])
  have e_kRet : kRet s = none := hr _ (by simp [rules])
  have e_pFire : pFire s = none := hr _ (by simp [rules])
  have e_kFinal : kFinal s = none := hr _ (by simp [rules])
  -- Close is not pending, so the connection has failed
  have hcw : s.closer ≠ .wanted := by
    intro hw; simp [kClose, hw] at e_kClose
  have htail : s.tail ≠ .stall := by
    rcases hP with h | h
    · exact h
    · exact absurd h hcw
  -- a literal Read cannot be stuck
  have hlitpos : ∀ c w, s.pos ≠ .lit c w := by
    intro c w hp
    simp only [cLit, hp] at e_cLit
    split_ifs at e_cLit
    cases ht : s.tail with
    | stall => exact htail ht
    | eof => simp [ht] at e_cLit
    | err => simp [ht] at e_cLit
  -- the reader is gone
  have hrd : s.reader = .exited := by
    cases hrd : s.reader with
    | exited => rfl
    | reading =>
      simp [rFail, hrd, e_rTok, htail] at e_rFail
    | litWait =>
      have hld : s.litDone = false := by
        cases hl : s.litDone with
        | false => rfl
        | true => simp [rResume, hrd, hl] at e_rResume
      rcases hI.lit hrd with h | h | ⟨c, w, h⟩
      · rw [hld] at h; cases h
      · rcases hC.1 hrd h with ⟨hp, hne⟩ | ⟨c, w, hp⟩ | ⟨c, w, hp⟩ | ⟨c, w, x, hp, hx, hk⟩
        · simp only [cStart, hp] at e_cStart
          cases hpr : s.prog with
          | nil => exact absurd hpr hne
          | cons a b => simp [hpr] at e_cStart
        · simp [cItems, hp, h] at e_cItems
        · exact absurd hp (hlitpos c w)
        · simp [cMsgs, hp, cmdAt?, hx, hk, h] at e_cMsgs
      · exact absurd h (hlitpos c w)
  obtain ⟨hfailed, hflight⟩ := hI.exited hrd
  obtain ⟨hclosed, hall⟩ := hI.failed hfailed
  -- the caller is through
  have hpos : s.pos = .ready := by
    cases hp : s.pos with
    | ready => rfl
    | greet => simp [cGreet, hp, hrd] at e_cGreet
    | res c =>
      have := hI.pos; rw [hp] at this
      obtain ⟨x, hx, hi⟩ := this
      have hres := (hall x (List.mem_of_getElem? hx)).1 hi
      cases hxr : x.result with
      | none => rw [hxr] at hres; cases hres
      | some ok =>
        simp only [cRes, hp, cmdAt?, hx, hxr] at e_cRes
        split_ifs at e_cRes
    | tls c =>
      have := hI.pos; rw [hp] at this
      obtain ⟨x, hx, hk, hxr⟩ := this
      have hu := hI.tls x (List.mem_of_getElem? hx) hk hxr
      simp [cTls, hp, hu] at e_cTls
    | msgs c w =>
      have := hI.pos; rw [hp] at this
      obtain ⟨x, hx, hi⟩ := this
      have hres := (hall x (List.mem_of_getElem? hx)).1 hi
      have hcl := (hI.done x (List.mem_of_getElem? hx) hres).2
      simp only [cMsgs, hp, cmdAt?, hx, hflight, hcl] at e_cMsgs
      cases w <;> simp at e_cMsgs
    | items c w => simp [cItems, hp, hflight] at e_cItems
    | lit c w => exact absurd hp (hlitpos c w)
    | cont c =>
      have := hI.pos; rw [hp] at this
      obtain ⟨x, hx, hi, hcn, hk⟩ := this
      have hnw := (hall x (List.mem_of_getElem? hx)).2
      simp only [cCont, hp, cmdAt?, hx] at e_cCont
      cases hxc : x.cont with
      | none => exact absurd hxc hcn
      | waiting => exact absurd hxc hnw
      | granted =>
        rcases hk with hk | hk | hk | hk <;> simp only [hk, hxc] at e_cCont
        · cases e_cCont
        · cases e_cCont
        · cases e_cCont
        · split_ifs at e_cCont
      | cancelled =>
        rcases hk with hk | hk | hk | hk <;> simp only [hk, hxc] at e_cCont <;> cases e_cCont
  have hprog : s.prog = [] := by
    cases hpr : s.prog with
    | nil => rfl
    | cons a b => simp [cStart, hpos, hpr] at e_cStart
  have hcloser : s.closer = .returned := by
    cases hc : s.closer with
    | returned => rfl
    | none => simp [kFinal, hc, hprog, hpos] at e_kFinal
    | wanted => exact absurd hc hcw
    | waiting => simp [kRet, hc, hrd] at e_kRet
  have hprober : s.prober ≠ .wanting := by
    intro hw
    have hm := hC.2 hprog hpos
    simp [pFire, hw, hm] at e_pFire
  simp [terminal, hprog, hpos, hcloser, hrd, hprober]

/-! ### draining -/

/-- every run from s that respects the caller's contract is finite and ends in the terminal state,
    and it can always be continued until then -/
inductive Drains : St → Prop
  | done {s : St} : terminal s = true → Drains s
  | step {s : St} : (∃ s', Step s s') → (∀ s', Step s s' → Contract s' → Drains s') → Drains s

theorem next_some_step {s s' : St} (h : next rules s = some s') : Step s s' := by
  simp only [next] at h
  obtain ⟨r, hr, hs⟩ := List.exists_of_findSome?_eq_some h
  exact ⟨r, hr, hs⟩

theorem drains_of_inv : ∀ (n : Nat) (s : St), mu s ≤ n → Inv s → PostFault s → Contract s → Drains s := by
  intro n
  induction n with
  | zero =>
    intro s hn hI hP hC
    cases hnx : next rules s with
    | none => exact Drains.done (stuck_is_terminal hI hP hC hnx)
    | some s' =>
      have := step_decreases s s' (next_some_step hnx)
      omega
  | succ n ih =>
    intro s hn hI hP hC
    cases hnx : next rules s with
    | none => exact Drains.done (stuck_is_terminal hI hP hC hnx)
    | some s1 =>
      refine Drains.step ⟨s1, next_some_step hnx⟩ ?_
      intro s' hs hC'
      have := step_decreases s s' hs
      exact ih s' (by omega) (inv_step hI hs) (postFault_step hP hs) hC'

end GoImap.ClientFaultLemmas
