/-
  C02 helper lemmas: strings and mailbox names through the writer and the reader mirror
  (the modified UTF-7 round trip is `dec_enc` of C16).
-/
import GoImap.Lemmas.CmdGrammarBasic
import GoImap.Lemmas.Utf7Round
namespace GoImap.CmdLemmas
open GoImap.CmdGrammar GoImap.CmdSpec GoImap.Utf7 GoImap.Utf7Lemmas

theorem pAString_s (v : Str) (r : Wire) (h : v.length ≤ maxBuffered) : pAString (.s v :: r) = .ok (v, r) := by
  have : ¬ v.length > maxBuffered := by omega
  simp [pAString, this]

theorem enc_cons (acc : List Nat) (c : Nat) (cs : List Nat) :
    enc acc (c :: cs) = if printable c then flush acc ++ (if c = 38 then [38, 45] else [c]) ++ enc [] cs else enc (acc ++ [c]) cs := by
  rw [enc]

/-- a pending run of unprintables always surfaces as a shift character -/
theorem amp_mem_enc : ∀ (s acc : List Nat), acc ≠ [] → 38 ∈ enc acc s
  | [], acc, h => by
    unfold enc flush
    cases acc with
    | nil => exact absurd rfl h
    | cons a as => simp [encRun]
  | c :: cs, acc, h => by
    rw [enc_cons]
    by_cases hp : printable c = true
    · cases acc with
      | nil => exact absurd rfl h
      | cons a as => simp [hp, flush, encRun]
    · simp only [hp, Bool.false_eq_true, if_false]
      exact amp_mem_enc cs (acc ++ [c]) (by simp)

/-- an encoded name without `&` is the name itself -/
theorem enc_no_amp : ∀ (s : List Nat), 38 ∉ enc [] s → enc [] s = s
  | [], _ => by simp [enc, flush]
  | c :: cs, h => by
    rw [enc_cons] at h ⊢
    by_cases hp : printable c = true
    · simp only [hp, if_true, flush, List.isEmpty_nil, List.nil_append] at h ⊢
      by_cases hc : c = 38
      · simp [hc] at h
      · simp only [hc, if_false, List.cons_append, List.nil_append, List.mem_cons, not_or] at h ⊢
        rw [enc_no_amp cs h.2]
    · simp only [hp, Bool.false_eq_true, if_false] at h
      exact absurd (amp_mem_enc cs ([] ++ [c]) (by simp)) h

theorem lower_inbox_no_amp (s : List Nat) (h : isInbox s = true) : 38 ∉ s := by
  intro hm
  simp only [isInbox, beq_iff_eq] at h
  have : lowerByte 38 ∈ lower s := List.mem_map.mpr ⟨38, hm, rfl⟩
  rw [h] at this
  revert this
  decide

theorem isInbox_encode (m : List Nat) (h : isInbox m = false) : isInbox (encode m) = false := by
  cases hi : isInbox (encode m) with
  | false => rfl
  | true =>
    have := enc_no_amp m (lower_inbox_no_amp _ hi)
    unfold encode at hi
    rw [this, h] at hi
    exact hi.symm

/-- what the property assumes of a mailbox name: Unicode scalar values, and an encoded form
    within the server's limit for buffered strings -/
structure MailboxOK (m : List Nat) : Prop where
  scalar : ∀ c ∈ m, Scalar c
  fits : mboxOk m = true

theorem inbox_chars : ∀ c ∈ inboxStr, isAtomChar c = true := by decide

/-- Encoder.Mailbox then Decoder.ExpectMailbox -/
theorem pMailbox_wMailbox (m : List Nat) (rest : Wire) (hm : MailboxOK m) (hs : Stops isAtomChar rest) :
    pMailbox (wMailbox m ++ rest) = .ok (canonMailbox m, rest) := by
  unfold pMailbox wMailbox canonMailbox
  cases hi : isInbox m with
  | true =>
    simp only [if_true]
    have : pAString (atom inboxStr ++ rest) = .ok (inboxStr, rest) := by
      have h1 := pAtom_atom inboxStr rest (by decide) inbox_chars hs
      simp only [pAString]
      simpa [atom, inboxStr] using h1
    rw [this]
    have h2 : isInbox inboxStr = true := by decide
    simp [bind, Except.bind, h2, pure, Except.pure]
  | false =>
    have hfit : (encode m).length ≤ maxBuffered := by
      have := hm.fits
      simp only [mboxOk, hi, Bool.false_or, decide_eq_true_eq] at this
      exact this
    simp only [Bool.false_eq_true, if_false, List.singleton_append]
    rw [pAString_s _ _ hfit]
    have hd : decode (encode m) = some m := by
      have := dec_enc m [] (by simp) hm.scalar
      simpa [decode, encode] using this
    simp [bind, Except.bind, isInbox_encode m hi, hd, pure, Except.pure]

end GoImap.CmdLemmas
