import GoImap.Lemmas.ClientConcKeep
/-!
  C13: syntactic facts about programs that every step preserves.

  `AllSuf loc p` says that `loc i r` holds for every suffix `i :: r` of `p`. A step only pops the
  head of a program, pushes instructions of closeWithError/completeCommand, of the reader or of the
  IDLE supervisor in front of (a suffix of) it, or abandons the rest of an operation
  (`dropThrough`): if `loc` is true for all those pushed instructions, `AllSuf loc` is an
  invariant. It is used for facts of the form "after registering command c the program still
  contains a flush of c".
-/
namespace GoImap.ClientConc

def AllSuf (loc : Instr → List Instr → Bool) : List Instr → Bool
  | [] => true
  | i :: r => loc i r && AllSuf loc r

/-- the instructions a step may put in front of (the rest of) a program -/
def pushed : Instr → Bool
  | .closeSwap | .cancelOrphans _ | .loadDone .. | .send .. | .closeDone _ | .cancelConts .. | .setState _
  | .closeMsgs _ | .encUnlock | .setCaps | .contDone _ => true
  | _ => false

/-- what `loc` has to satisfy for `AllSuf loc` to be an invariant: it is true for the instructions
    pushed in front of arbitrary programs, and on the closed programs a step may install -/
structure LocOK (loc : Instr → List Instr → Bool) : Prop where
  front : ∀ i r, pushed i = true → loc i r = true
  rdNext : AllSuf loc [Instr.rdNext] = true
  connRead : AllSuf loc [Instr.connRead] = true
  handler : ∀ l, AllSuf loc (handler l ++ [Instr.rdNext]) = true
  exit : AllSuf loc readerExit = true
  sup : ∀ c, AllSuf loc [Instr.idleRunSel c, Instr.idleDoneW c, Instr.idleRunClose c] = true

variable {loc : Instr → List Instr → Bool}

theorem allSuf_tail {i : Instr} {r : List Instr} (h : AllSuf loc (i :: r) = true) : AllSuf loc r = true := by
  simp only [AllSuf, Bool.and_eq_true] at h; exact h.2

theorem allSuf_head {i : Instr} {r : List Instr} (h : AllSuf loc (i :: r) = true) : loc i r = true := by
  simp only [AllSuf, Bool.and_eq_true] at h; exact h.1

theorem allSuf_dropThrough (f : Instr → Bool) : ∀ p, AllSuf loc p = true → AllSuf loc (dropThrough f p) = true
  | [], _ => rfl
  | i :: r, h => by
    rw [dropThrough]
    split
    · exact allSuf_tail h
    · exact allSuf_dropThrough f r (allSuf_tail h)

theorem allSuf_cons (hp : ∀ i r, pushed i = true → loc i r = true) (i : Instr) (r : List Instr)
    (hi : pushed i = true) (h : AllSuf loc r = true) : AllSuf loc (i :: r) = true := by
  simp only [AllSuf, Bool.and_eq_true]; exact ⟨hp i r hi, h⟩

theorem allSuf_append (hp : ∀ i r, pushed i = true → loc i r = true) (p q : List Instr)
    (hpp : ∀ i, i ∈ p → pushed i = true) (h : AllSuf loc q = true) : AllSuf loc (p ++ q) = true := by
  induction p with
  | nil => exact h
  | cons i p ih =>
    exact allSuf_cons hp i (p ++ q) (hpp i List.mem_cons_self) (ih (fun j hj => hpp j (List.mem_cons_of_mem _ hj)))

theorem pushed_of_cls (i : Instr) (h : cls i = true) : pushed i = true := by
  cases i <;> simp [cls] at h <;> rfl

theorem pushed_complete (k : Kind) (c : Nat) (r : Res) : ∀ i, i ∈ complete k c r → pushed i = true :=
  fun i hi => pushed_of_cls i (cls_complete k c r i hi)

/-- `AllSuf loc` of every program is preserved by `exec` -/
theorem allSuf_exec (hl : LocOK loc)
    (v : Variant) (s : St) (t : Nat) (i : Instr) (rest : List Instr)
    (hs : s.prog t = i :: rest) (hall : ∀ u, AllSuf loc (s.prog u) = true) :
    ∀ u, AllSuf loc ((exec v s t i rest).prog u) = true := by
  have h1 : AllSuf loc rest = true := by have := hall t; rw [hs] at this; exact allSuf_tail this
  have hp := hl.front
  intro u
  cases i
  case connRead =>
    simp only [exec, flushBody]
    repeat' split
    all_goals
      first
        | exact hall u
        | (simp only [setProg_prog, closeConn_prog]
           split
           · first | exact hl.rdNext | exact hl.exit
           · exact hall u)
  case popCont =>
    simp only [exec, flushBody]
    split
    · simp only [setProg_prog, closeConn_prog]
      split
      · exact hl.exit
      · exact hall u
    · simp only [setProg_prog]
      split
      · exact allSuf_cons hp _ _ rfl h1
      · exact hall u
  case closeSwap =>
    simp only [exec, flushBody]
    split
    all_goals
      simp only [setProg_prog]
      split
      · apply allSuf_append hp
        · intro j hj
          rw [List.mem_flatMap] at hj
          obtain ⟨c, _, hc⟩ := hj
          exact pushed_complete _ _ _ j hc
        · first | exact h1 | exact allSuf_cons hp _ _ rfl h1
      · exact hall u
  case delByTag tag rep caps =>
    simp only [exec, flushBody]
    split
    · simp only [setProg_prog]
      split
      · exact hl.exit
      · exact hall u
    · simp only [setProg_prog]
      split
      · rw [List.append_assoc]
        apply allSuf_append hp
        · intro j hj
          split at hj
          · rw [List.mem_singleton] at hj; rw [hj]; rfl
          · cases hj
        · exact allSuf_append hp _ _ (pushed_complete _ _ _) h1
      · exact hall u
  case loadDone c r =>
    simp only [exec, flushBody, setProg_prog]
    split
    · exact allSuf_cons hp _ _ rfl h1
    · exact hall u
  case idleGo c =>
    simp only [exec, flushBody]
    split
    · exact hall u
    · simp only [setProg_prog]
      split
      · exact hl.sup c
      · split
        · exact h1
        · exact hall u
  case srv a =>
    simp only [exec, flushBody]
    split
    · exact hall u
    · cases a <;> simp only [execSrv]
      case reply rep oldest =>
        split
        · exact hall u
        · simp only [setProg_prog]; split
          · exact h1
          · show AllSuf loc ((deliver s _).prog u) = true; rw [deliver_prog]; exact hall u
      case cont =>
        split
        · exact hall u
        · simp only [setProg_prog]; split
          · exact h1
          · show AllSuf loc ((deliver s _).prog u) = true; rw [deliver_prog]; exact hall u
      case enabled =>
        simp only [setProg_prog]; split
        · exact h1
        · rw [deliver_prog]; exact hall u
      case close => simp only [setProg_prog]; split <;> first | exact h1 | exact hall u
      case rerr => simp only [setProg_prog]; split <;> first | exact h1 | exact hall u
  case cancelConts c r =>
    simp only [exec, flushBody, setProg_prog]
    split
    · exact h1
    · rw [updCmd_prog, foldl_setCont2_prog]; exact hall u
  case cancelOrphans ks =>
    simp only [exec, flushBody, setProg_prog]
    split
    · exact h1
    · rw [foldl_setCont_prog]; exact hall u
  case rdNext =>
    simp only [exec, flushBody]
    split
    · simp only [setProg_prog]; split
      · exact hl.connRead
      · exact hall u
    · simp only [setProg_prog]; split
      · exact hl.handler _
      · exact hall u
  all_goals
    simp only [exec, flushBody]
    repeat' split
    all_goals
      first
        | exact hall u
        | (simp only [setProg_prog, updCmd_prog, closeConn_prog, setCont_prog]
           split
           · first
               | exact h1
               | exact allSuf_dropThrough _ _ h1
               | exact allSuf_cons hp _ _ rfl h1
               | exact allSuf_cons hp _ _ rfl (allSuf_dropThrough _ _ h1)
               | exact allSuf_cons hp _ _ rfl (allSuf_cons hp _ _ rfl h1)
           · exact hall u)

theorem allSuf_skipCaps (s : St) (t : Nat) (hall : ∀ u, AllSuf loc (s.prog u) = true) :
    ∀ u, AllSuf loc ((skipCaps s t).prog u) = true := by
  unfold skipCaps
  split
  · rename_i record rest hs
    split
    · intro u
      simp only [setProg_prog]
      split
      · have := hall t; rw [hs] at this; exact allSuf_tail (allSuf_tail this)
      · split <;> exact hall u
    · exact hall
  · exact hall

theorem allSuf_step (hp : LocOK loc) (v : Variant) (s : St) (t : Nat)
    (hall : ∀ u, AllSuf loc (s.prog u) = true) : ∀ u, AllSuf loc ((step v s t).prog u) = true := by
  unfold step
  split
  · exact hall
  · split
    · split
      · exact allSuf_skipCaps s _ hall
      · exact hall
    · split
      · exact hall
      · split
        · exact hall
        · rename_i i rest hs
          exact allSuf_exec hp v s t i rest hs hall

theorem allSuf_run (hp : LocOK loc) (v : Variant) (sched : List Nat) (s : St)
    (hall : ∀ u, AllSuf loc (s.prog u) = true) : ∀ u, AllSuf loc ((run v s sched).prog u) = true := by
  induction sched generalizing s with
  | nil => exact hall
  | cons t ts ih => exact ih (step v s t) (allSuf_step hp v s t hall)

end GoImap.ClientConc
