/-
  C01: flags and mailbox attributes — `Encoder.Flag / MailboxAttr` against `internal.ExpectFlag /
  ExpectMailboxAttr`, and the encoder's validity test against the RFC 9051 flag grammar.
-/
import GoImap.Lemmas.Wire
import GoImap.Spec.Wire
namespace GoImap.Wire
open GoImap.WireSpec

/-- on 7-bit bytes the library's ATOM-CHAR test is the RFC's -/
theorem isAtomChar_eq_atomChar : ∀ c, c < 128 → isAtomChar c = atomChar c := by
  decide

theorem isAtomChar_92 : isAtomChar 92 = false := by decide
theorem isAtomChar_42 : isAtomChar 42 = false := by decide

/-- after the first byte, `flagCharsOk` is "all ATOM-CHARs" -/
theorem flagCharsOk_false (s : Bytes) : flagCharsOk false s = s.all isAtomChar := by
  induction s with
  | nil => simp [flagCharsOk]
  | cons c r ih =>
    unfold flagCharsOk
    by_cases h : c = 92
    · subst h; simp [isAtomChar_92]
    · simp only [h, if_false, Bool.false_eq_true]
      by_cases ha : isAtomChar c = true
      · simp [ha, ih]
      · have : isAtomChar c = false := by simpa using ha
        simp [this]

/-- the shape of a flag the encoder accepts: an atom, or a backslash followed by an atom -/
theorem isValidFlag_shape (f : Bytes) (h : isValidFlag f = true) :
    (f ≠ [] ∧ f.all isAtomChar = true) ∨
    (∃ a, f = 92 :: a ∧ a ≠ [] ∧ a.all isAtomChar = true) := by
  unfold isValidFlag at h
  simp only [Bool.and_eq_true, decide_eq_true_eq, ne_eq] at h
  obtain ⟨⟨h1, h2⟩, h3⟩ := h
  cases f with
  | nil => simp at h2
  | cons c r =>
    unfold flagCharsOk at h1
    by_cases hc : c = 92
    · subst hc
      right
      simp only [if_true] at h1
      rw [flagCharsOk_false] at h1
      refine ⟨r, rfl, ?_, h1⟩
      intro hr; subst hr; exact h3 rfl
    · left
      simp only [hc, if_false] at h1
      by_cases ha : isAtomChar c = true
      · simp only [ha, if_true] at h1
        rw [flagCharsOk_false] at h1
        exact ⟨by simp, by simp [ha, h1]⟩
      · have : isAtomChar c = false := by simpa using ha
        simp [this] at h1

theorem isValidFlag_of_shape (f : Bytes)
    (h : (f ≠ [] ∧ f.all isAtomChar = true) ∨ (∃ a, f = 92 :: a ∧ a ≠ [] ∧ a.all isAtomChar = true)) :
    isValidFlag f = true := by
  unfold isValidFlag
  rcases h with ⟨hne, hall⟩ | ⟨a, rfl, hne, hall⟩
  · cases f with
    | nil => exact absurd rfl hne
    | cons c r =>
      simp only [List.all_cons, Bool.and_eq_true] at hall
      have hc : c ≠ 92 := by
        intro h; subst h; simp [isAtomChar_92] at hall
      have h3 : c :: r ≠ [92] := by
        intro h; injection h with h _; exact hc h
      simp [flagCharsOk, hc, hall.1, flagCharsOk_false, hall.2, h3]
  · have h3 : (92 :: a) ≠ [92] := by
      intro h; injection h with _ h; exact hne h
    simp [flagCharsOk, flagCharsOk_false, hall, h3]

theorem all_atomChar_iff (s : Bytes) (h7 : sevenBit s = true) :
    s.all isAtomChar = s.all atomChar := by
  induction s with
  | nil => rfl
  | cons c r ih =>
    simp only [sevenBit, List.all_cons, Bool.and_eq_true, decide_eq_true_eq] at h7
    simp only [List.all_cons]
    rw [isAtomChar_eq_atomChar c h7.1, ih (by simpa [sevenBit] using h7.2)]

/-- for 7-bit strings the encoder's validity test is exactly "atom or backslash-atom" of RFC 9051 -/
theorem isValidFlag_eq_rfc (f : Bytes) (h7 : sevenBit f = true) :
    isValidFlag f = (isAtom f || isBackslashAtom f) := by
  apply Bool.eq_iff_iff.2
  constructor
  · intro h
    rcases isValidFlag_shape f h with ⟨hne, hall⟩ | ⟨a, rfl, hne, hall⟩
    · rw [all_atomChar_iff f h7] at hall
      cases f with
      | nil => exact absurd rfl hne
      | cons c r => simp [isAtom, hall]
    · have h7a : sevenBit a = true := by
        simp only [sevenBit, List.all_cons, Bool.and_eq_true] at h7; simpa [sevenBit] using h7.2
      rw [all_atomChar_iff a h7a] at hall
      cases a with
      | nil => exact absurd rfl hne
      | cons c r => simp [isBackslashAtom, isAtom, hall]
  · intro h
    apply isValidFlag_of_shape
    simp only [Bool.or_eq_true] at h
    rcases h with h | h
    · left
      simp only [isAtom, Bool.and_eq_true, Bool.not_eq_true', List.isEmpty_eq_false_iff] at h
      exact ⟨h.1, by rw [all_atomChar_iff f h7]; exact h.2⟩
    · right
      cases f with
      | nil => simp [isBackslashAtom] at h
      | cons c a =>
        by_cases hc : c = 92
        · subst hc
          have h7a : sevenBit a = true := by
            simp only [sevenBit, List.all_cons, Bool.and_eq_true] at h7; simpa [sevenBit] using h7.2
          simp only [isBackslashAtom, isAtom, Bool.and_eq_true, Bool.not_eq_true',
            List.isEmpty_eq_false_iff] at h
          exact ⟨a, rfl, h.1, by rw [all_atomChar_iff a h7a]; exact h.2⟩
        · exfalso
          unfold isBackslashAtom at h
          split at h
          · rename_i heq; injection heq with h1 _; exact hc h1
          · simp at h

/-- `ExpectFlag` over an accepted flag followed by a byte that cannot continue an atom -/
theorem expectFlag_valid (f : Bytes) (hv : isValidFlag f = true) (c : Nat) (r : Bytes)
    (hc : isAtomChar c = false) (e : Option Err) (l : List (Nat × Bool)) :
    expectFlag ⟨f ++ c :: r, e, l⟩ = (true, canonicalFlag f, ⟨c :: r, e, l⟩) := by
  rcases isValidFlag_shape f hv with ⟨hne, hall⟩ | ⟨a, rfl, hne, hall⟩
  · cases f with
    | nil => exact absurd rfl hne
    | cons b t =>
      have hb : b ≠ 92 := by
        intro h; subst h; simp [isAtomChar_92] at hall
      have hatom : expectAtom ⟨(b :: t) ++ c :: r, e, l⟩ = (true, b :: t, ⟨c :: r, e, l⟩) := by
        unfold expectAtom decAtom
        rw [decFunc_append isAtomChar (b :: t) c r e l (by simp)
          (by intro x hx; exact List.all_eq_true.1 hall x hx) hc]
        simp [expect]
      unfold expectFlag
      have h1 : acceptByte 92 ⟨(b :: t) ++ c :: r, e, l⟩ = (false, ⟨(b :: t) ++ c :: r, e, l⟩) := by
        simp [acceptByte, hb]
      rw [h1]
      simp only [Bool.false_eq_true, if_false, Bool.false_and]
      rw [hatom]
      simp
  · cases a with
    | nil => exact absurd rfl hne
    | cons b t =>
      have hb : b ≠ 42 := by
        intro h; subst h; simp [isAtomChar_42] at hall
      have hatom : expectAtom ⟨(b :: t) ++ c :: r, e, l⟩ = (true, b :: t, ⟨c :: r, e, l⟩) := by
        unfold expectAtom decAtom
        rw [decFunc_append isAtomChar (b :: t) c r e l (by simp)
          (by intro x hx; exact List.all_eq_true.1 hall x hx) hc]
        simp [expect]
      unfold expectFlag
      have h1 : acceptByte 92 ⟨(92 :: b :: t) ++ c :: r, e, l⟩ = (true, ⟨(b :: t) ++ c :: r, e, l⟩) := by
        simp [acceptByte]
      have h2 : acceptByte 42 ⟨(b :: t) ++ c :: r, e, l⟩ = (false, ⟨(b :: t) ++ c :: r, e, l⟩) := by
        simp [acceptByte, hb]
      rw [h1]
      simp only [if_true, Bool.true_and]
      rw [h2]
      simp only [Bool.false_eq_true, if_false]
      rw [hatom]
      simp

theorem canonicalFlag_star : canonicalFlag [92, 42] = [92, 42] := by decide

/-- `ExpectFlag` over `\*` -/
theorem expectFlag_star (rest : Bytes) (e : Option Err) (l : List (Nat × Bool)) :
    expectFlag ⟨[92, 42] ++ rest, e, l⟩ = (true, [92, 42], ⟨rest, e, l⟩) := by
  simp [expectFlag, acceptByte]

theorem canonIn_fold (table : List Bytes) (s : Bytes) :
    lowerAscii (canonIn table s) = lowerAscii s := by
  unfold canonIn
  cases h : table.find? (fun t => lowerAscii t = lowerAscii s) with
  | none => rfl
  | some t => simpa using List.find?_some h

theorem canonIn_id (table : List Bytes) (s : Bytes)
    (h : ∀ t ∈ table, lowerAscii t ≠ lowerAscii s) : canonIn table s = s := by
  unfold canonIn
  rw [List.find?_eq_none.2 (by intro t ht; simpa using h t ht)]


theorem isBackslashAtom_head (f : Bytes) (h : isBackslashAtom f = true) : f.head? = some 92 := by
  unfold isBackslashAtom at h
  split at h
  · simp
  · simp at h

theorem isAtom_head (f : Bytes) (h : isAtom f = true) : f.head? ≠ some 92 := by
  cases f with
  | nil => simp
  | cons c r =>
    simp only [isAtom, List.all_cons, Bool.and_eq_true] at h
    intro hc
    simp only [List.head?_cons, Option.some.injEq] at hc
    subst hc
    have : atomChar 92 = false := by decide
    rw [this] at h
    simp at h


end GoImap.Wire
