import GoImap.Lemmas.FramingBridge
import GoImap.Lemmas.FramingReply
import GoImap.Lemmas.FramingSpecLemmas
/-
  What the server does on one command line `t CRLF rest` (no CR/LF inside `t`): the primitives of
  the command header and of the argument-less handlers never leave the line, DiscardLine consumes
  exactly the rest of it.
-/
namespace GoImap.Framing
open GoImap.FramingSpec (noEol)

/-- s' is s after consuming the octets c as command text; nothing else that matters changed -/
structure Adv (s s' : S) (c : Bytes) : Prop where
  inp : s.inp = c ++ s'.inp
  pos : s'.pos = s.pos + c.length
  roles : s'.roles = List.replicate c.length Role.text ++ s.roles
  lit : s'.lit = s.lit
  tail : s'.tail = s.tail
  st : s'.st = s.st
  evs : s'.evs = s.evs
  mute : s'.mute = s.mute

theorem Adv.refl (s : S) : Adv s s [] := ⟨by simp, by simp, by simp, rfl, rfl, rfl, rfl, rfl⟩

theorem Adv.trans {s s' s'' : S} {c1 c2 : Bytes} (h1 : Adv s s' c1) (h2 : Adv s' s'' c2) :
    Adv s s'' (c1 ++ c2) :=
  ⟨by rw [h1.inp, h2.inp, List.append_assoc], by rw [h2.pos, h1.pos, List.length_append]; omega,
   by rw [h2.roles, h1.roles, List.length_append, ← List.append_assoc, List.replicate_append_replicate,
        Nat.add_comm],
   by rw [h2.lit, h1.lit], by rw [h2.tail, h1.tail], by rw [h2.st, h1.st], by rw [h2.evs, h1.evs],
   by rw [h2.mute, h1.mute]⟩

/-- a step that stays on the current line `t CRLF rest` -/
def OnLine (s s' : S) : Prop :=
  s.lit = none → ∀ t rest, s.inp = t ++ 13 :: 10 :: rest → noEol t →
    ∃ c t', t = c ++ t' ∧ Adv s s' c

theorem OnLine.refl (s : S) : OnLine s s := fun _ t _ _ _ => ⟨[], t, by simp, Adv.refl s⟩

theorem noEol_append {a b : Bytes} (h : noEol (a ++ b)) : noEol a ∧ noEol b :=
  ⟨fun c hc => h c (by simp [hc]), fun c hc => h c (by simp [hc])⟩

theorem OnLine.trans {s s' s'' : S} (h1 : OnLine s s') (h2 : OnLine s' s'') : OnLine s s'' := by
  intro hl t rest hi ht
  obtain ⟨c1, t1, ht1, a1⟩ := h1 hl t rest hi ht
  have hi' : s'.inp = t1 ++ 13 :: 10 :: rest := by
    have := a1.inp
    rw [hi, ht1, List.append_assoc] at this
    exact (List.append_cancel_left this).symm
  have ht1' : noEol t1 := (noEol_append (ht1 ▸ ht)).2
  obtain ⟨c2, t2, ht2, a2⟩ := h2 (by rw [a1.lit, hl]) t1 rest hi' ht1'
  exact ⟨c1 ++ c2, t2, by rw [ht1, ht2, List.append_assoc], a1.trans a2⟩

/-- record updates that touch none of the tracked fields -/
theorem OnLine.of_eq {s s' : S} (h : s'.inp = s.inp ∧ s'.pos = s.pos ∧ s'.roles = s.roles ∧ s'.lit = s.lit ∧
    s'.tail = s.tail ∧ s'.st = s.st ∧ s'.evs = s.evs ∧ s'.mute = s.mute) : OnLine s s' :=
  fun _ t _ _ _ => ⟨[], t, by simp, ⟨by simp [h.1], by simp [h.2.1], by simp [h.2.2.1], h.2.2.2.1, h.2.2.2.2.1,
    h.2.2.2.2.2.1, h.2.2.2.2.2.2.1, h.2.2.2.2.2.2.2⟩⟩

theorem fail_onLine (s : S) (e : Err) : OnLine s (s.fail e) := by
  apply OnLine.of_eq
  unfold S.fail
  split <;> simp

theorem expect_onLine (s : S) (b : Bool) : OnLine s (s.expect b) := by
  unfold S.expect
  split
  · exact OnLine.refl s
  · exact fail_onLine s _

theorem look_onLine {s : S} {r s1} (h : s.look = (r, s1)) : OnLine s s1 := by
  intro hl t rest hi ht
  obtain ⟨inp, pos, err, lit, crlf, tail, ld, mute, st, evs, roles⟩ := s
  simp only at hl hi
  subst hl hi
  cases t with
  | nil =>
    simp [S.look] at h
    obtain ⟨_, rfl⟩ := h
    exact ⟨[], [], by simp, ⟨by simp, by simp, by simp, rfl, rfl, rfl, rfl, rfl⟩⟩
  | cons b t' =>
    simp [S.look] at h
    obtain ⟨_, rfl⟩ := h
    exact ⟨[], b :: t', by simp, ⟨by simp, by simp, by simp, rfl, rfl, rfl, rfl, rfl⟩⟩

theorem accept_onLine {s : S} {w : Nat} {r s1} (hw : w ≠ 13) (h : s.accept w = (r, s1)) : OnLine s s1 := by
  intro hl t rest hi ht
  obtain ⟨inp, pos, err, lit, crlf, tail, ld, mute, st, evs, roles⟩ := s
  simp only at hl hi
  subst hl hi
  cases t with
  | nil =>
    have : (13 == w) = false := by simp; omega
    simp [S.accept, S.look, this] at h
    obtain ⟨_, rfl⟩ := h
    exact ⟨[], [], by simp, ⟨by simp, by simp, by simp, rfl, rfl, rfl, rfl, rfl⟩⟩
  | cons b t' =>
    by_cases hb : b = w
    · subst hb
      simp [S.accept, S.look, S.take] at h
      obtain ⟨_, rfl⟩ := h
      exact ⟨[b], t', by simp, ⟨by simp, by simp, by simp, rfl, rfl, rfl, rfl, rfl⟩⟩
    · simp [S.accept, S.look, hb] at h
      obtain ⟨_, rfl⟩ := h
      exact ⟨[], b :: t', by simp, ⟨by simp, by simp, by simp, rfl, rfl, rfl, rfl, rfl⟩⟩

theorem takeWhile_line (valid : Nat → Bool) (hv : valid 13 = false) (t rest : Bytes) :
    List.takeWhile valid (t ++ 13 :: 10 :: rest) = List.takeWhile valid t := by
  induction t with
  | nil => simp [List.takeWhile_cons, hv]
  | cons a t ih =>
    simp only [List.cons_append, List.takeWhile_cons]
    split
    · rw [ih]
    · rfl

theorem func_onLine {s : S} {valid : Nat → Bool} {r s1} (hv : valid 13 = false) (h : s.func valid = (r, s1)) :
    OnLine s s1 := by
  intro hl t rest hi ht
  obtain ⟨inp, pos, err, lit, crlf, tail, ld, mute, st, evs, roles⟩ := s
  simp only at hl hi
  subst hl hi
  have hsplit : t = List.takeWhile valid t ++ List.dropWhile valid t := List.takeWhile_append_dropWhile.symm
  unfold S.func at h
  simp only [Option.isSome_none, Bool.false_eq_true, if_false, takeWhile_line valid hv] at h
  generalize htw : List.takeWhile valid t = tw at h hsplit
  generalize hdw : List.dropWhile valid t = dw at hsplit
  have hlen : min tw.length (t ++ 13 :: 10 :: rest).length = tw.length := by
    rw [hsplit]; simp
  have hdrop : List.drop tw.length (t ++ 13 :: 10 :: rest) = dw ++ 13 :: 10 :: rest := by
    rw [hsplit]; simp
  simp only [S.take, hlen, hdrop] at h
  have hne : (dw ++ 13 :: 10 :: rest).isEmpty = false := by cases dw <;> simp
  simp only [hne, Bool.false_eq_true, if_false] at h
  have hi2 : t ++ 13 :: 10 :: rest = tw ++ (dw ++ 13 :: 10 :: rest) := by
    rw [hsplit]; simp
  split at h <;>
    (cases h
     exact ⟨tw, dw, hsplit, ⟨hi2, rfl, rfl, rfl, rfl, rfl, rfl, rfl⟩⟩)

theorem expectAtom_onLine {s : S} {r s1} (h : s.expectAtom = (r, s1)) : OnLine s s1 := by
  unfold S.expectAtom at h
  split at h
  · rename_i a s2 heq; cases h; exact func_onLine (by decide) heq
  · rename_i s2 heq; cases h; exact (func_onLine (by decide) heq).trans (fail_onLine _ _)

theorem sp_onLine {s : S} {r s1} (h : s.sp = (r, s1)) : OnLine s s1 := by
  unfold S.sp at h
  split at h
  · rename_i s2 heq
    split at h
    · rename_i b s3 heq2; cases h; exact (accept_onLine (by decide) heq).trans (look_onLine heq2)
    · rename_i s3 heq2; cases h; exact (accept_onLine (by decide) heq).trans (look_onLine heq2)
  · rename_i s2 heq
    split at h
    · rename_i b s3 heq2; cases h; exact (accept_onLine (by decide) heq).trans (look_onLine heq2)
    · rename_i s3 heq2; cases h; exact (accept_onLine (by decide) heq).trans (look_onLine heq2)

theorem expectSP_onLine {s : S} {r s1} (h : s.expectSP = (r, s1)) : OnLine s s1 := by
  unfold S.expectSP at h
  cases h
  exact (sp_onLine rfl).trans (expect_onLine _ _)

theorem uidName_onLine {s : S} {r s1} (h : uidName s = (r, s1)) : OnLine s s1 := by
  unfold uidName at h
  split at h
  · rename_i s2 h2; cases h; exact expectSP_onLine h2
  · rename_i s2 h2
    split at h
    · rename_i s3 h3; cases h; exact (expectSP_onLine h2).trans (expectAtom_onLine h3)
    · rename_i sub s3 h3; cases h; exact (expectSP_onLine h2).trans (expectAtom_onLine h3)

theorem cmdHeader_onLine {s : S} {r s1} (h : cmdHeader s = (r, s1)) : OnLine s s1 := by
  unfold cmdHeader at h
  split at h
  · rename_i s2 h2; cases h; exact expectAtom_onLine h2
  · rename_i tag s2 h2
    split at h
    · cases h; exact (expectAtom_onLine h2).trans (fail_onLine _ _)
    · split at h
      · rename_i s3 h3; cases h; exact (expectAtom_onLine h2).trans (expectSP_onLine h3)
      · rename_i s3 h3
        split at h
        · rename_i s4 h4; cases h
          exact ((expectAtom_onLine h2).trans (expectSP_onLine h3)).trans (expectAtom_onLine h4)
        · rename_i name0 s4 h4
          have e4 := ((expectAtom_onLine h2).trans (expectSP_onLine h3)).trans (expectAtom_onLine h4)
          split at h
          · split at h
            · rename_i s5 h5; cases h; exact e4.trans (uidName_onLine h5)
            · rename_i name s5 h5; cases h; exact e4.trans (uidName_onLine h5)
          · cases h; exact e4

/-- the tag the server reads is the longest run of atom characters at the start of the line -/
theorem cmdHeader_tag {s : S} {tag name s1} (h : cmdHeader s = (some (tag, name), s1)) :
    tag = s.inp.takeWhile isAtomChar ∧ tag ≠ [] := by
  unfold cmdHeader at h
  split at h
  · cases h
  · rename_i tag' s2 h2
    have ht : tag' = s.inp.takeWhile isAtomChar ∧ tag' ≠ [] := by
      unfold S.expectAtom at h2
      split at h2
      · rename_i a s3 h3
        obtain ⟨hne, hall, hinp, _, c, r, hcr, hc⟩ := func_some h3
        cases h2
        refine ⟨?_, hne⟩
        rw [hinp, hcr]
        exact (tw_app isAtomChar _ c r hall hc).symm
      · cases h2
    split at h
    · cases h
    · split at h
      · cases h
      · split at h
        · cases h
        · split at h
          · split at h
            · cases h
            · cases h; exact ht
          · cases h; exact ht

/-! ### the end of the line -/

theorem tw_all (valid : Nat → Bool) : ∀ (t : Bytes), (∀ b ∈ t, valid b = true) → List.takeWhile valid t = t := by
  intro t
  induction t with
  | nil => intro _; rfl
  | cons a t ih =>
    intro h
    simp only [List.takeWhile_cons, h a (by simp), if_true]
    rw [ih (fun b hb => h b (by simp [hb]))]

theorem noEol_notEol {t : Bytes} (ht : noEol t) : ∀ b ∈ t, notEol b = true := by
  intro b hb
  have := ht b hb
  simp [notEol, this.1, this.2]

theorem accept_hit (s : S) (w : Nat) (r : Bytes) (hl : s.lit = none) (hi : s.inp = w :: r) :
    s.accept w = (true, ({ s with crlf := false } : S).take 1 .text) := by
  obtain ⟨inp, pos, err, lit, crlf, tail, ld, mute, st, evs, roles⟩ := s
  simp only at hl hi
  subst hl hi
  simp [S.accept, S.look]

theorem accept_miss (s : S) (b w : Nat) (r : Bytes) (hl : s.lit = none) (hi : s.inp = b :: r) (hne : b ≠ w) :
    s.accept w = (false, { s with crlf := false }) := by
  obtain ⟨inp, pos, err, lit, crlf, tail, ld, mute, st, evs, roles⟩ := s
  simp only at hl hi
  subst hl hi
  simp [S.accept, S.look, hne]

/-- CRLF() at the very end of the line: consumes CR LF, nothing liberal about it -/
theorem crlfP_at_eol (s : S) (rest : Bytes) (hl : s.lit = none) (hi : s.inp = 13 :: 10 :: rest) :
    ∃ s', s.crlfP = (true, s') ∧ Adv s s' [13, 10] ∧ s'.crlf = true ∧ s'.inp = rest := by
  unfold S.crlfP
  rw [accept_miss s 13 32 _ hl hi (by decide)]
  dsimp only
  rw [accept_hit { s with crlf := false } 13 (10 :: rest) hl hi]
  dsimp only
  rw [accept_hit (({ s with crlf := false } : S).take 1 .text) 10 rest (by simp [S.take, hl]) (by simp [S.take, hi])]
  dsimp only
  refine ⟨_, rfl, ?_, rfl, by simp [S.take, hi]⟩
  refine ⟨by simp [S.take, hi], by simp [S.take, hi], by simp [S.take, hi], by simp [S.take], rfl, rfl, by simp [S.take], rfl⟩

/-- CRLF() before the end of the line (the rest of the line does not end in SP): fails, having
    consumed at most one SP -/
theorem crlfP_mid (s : S) (b : Nat) (t rest : Bytes) (hl : s.lit = none)
    (hi : s.inp = (b :: t) ++ 13 :: 10 :: rest) (ht : noEol (b :: t)) (hsp : (b :: t).getLast? ≠ some 32) :
    (s.crlfP).1 = false ∧ (s.crlfP).2.crlf = false ∧
      ∃ c t', b :: t = c ++ t' ∧ Adv s (s.crlfP).2 c := by
  have hb := ht b (by simp)
  simp only [List.cons_append] at hi
  by_cases h32 : b = 32
  · subst h32
    cases t with
    | nil => simp at hsp
    | cons b2 t2 =>
      have hb2 := ht b2 (by simp)
      simp only [List.cons_append] at hi
      unfold S.crlfP
      rw [accept_hit s 32 _ hl hi]
      dsimp only
      rw [accept_miss (({ s with crlf := false } : S).take 1 .text) b2 13 (t2 ++ 13 :: 10 :: rest)
        (by simp [S.take, hl]) (by simp [S.take, hi]) hb2.1]
      dsimp only
      rw [accept_miss _ b2 10 (t2 ++ 13 :: 10 :: rest) (by simp [S.take, hl]) (by simp [S.take, hi]) hb2.2]
      dsimp only
      refine ⟨by simp, by simp, [32], b2 :: t2, by simp, ?_⟩
      simp only [Bool.false_eq_true, if_false]
      refine ⟨by simp [S.take, hi], by simp [S.take, hi], by simp [S.take, hi], by simp [S.take], rfl, rfl, by simp [S.take], rfl⟩
  · unfold S.crlfP
    rw [accept_miss s b 32 _ hl hi h32]
    dsimp only
    rw [accept_miss { s with crlf := false } b 13 _ hl hi hb.1]
    dsimp only
    rw [accept_miss ({ ({ s with crlf := false } : S) with crlf := false } : S) b 10 _ hl hi hb.2]
    dsimp only
    refine ⟨by simp, by simp, [], b :: t, by simp, ?_⟩
    simp only [Bool.false_eq_true, if_false]
    exact ⟨by simp, by simp, by simp, rfl, rfl, rfl, rfl, rfl⟩

theorem func_eq (s : S) (valid : Nat → Bool) (tok : Bytes) (c : Nat) (r : Bytes) (hl : s.lit = none)
    (hi : s.inp = tok ++ c :: r) (hv : ∀ b ∈ tok, valid b = true) (hc : valid c = false) :
    s.func valid = (if tok.isEmpty then none else some tok, ({ s with crlf := false } : S).take tok.length .text) := by
  obtain ⟨inp, pos, err, lit, crlf, tail, ld, mute, st, evs, roles⟩ := s
  simp only at hl hi
  subst hl hi
  cases tok with
  | nil => simp [S.func, S.take, hc]
  | cons a t =>
    have htw : List.takeWhile valid (a :: (t ++ c :: r)) = a :: t := by
      have := tw_app valid (a :: t) c r hv hc
      simpa using this
    simp [S.func, S.take, htw]

/-- DiscardLine on the rest `t` of a line: consumes `t` CRLF; the tail it looks at is `t` (or the
    earlier tail when `t` is empty) -/
theorem discardLine_line (fx : Fixes) (s : S) (t rest : Bytes) (hl : s.lit = none) (hc : s.crlf = false)
    (hi : s.inp = t ++ 13 :: 10 :: rest) (ht : noEol t) :
    let s' := s.discardLine fx
    let tl := if t.isEmpty then s.tail else t
    s'.inp = rest ∧ s'.pos = s.pos + t.length + 2 ∧
      s'.roles = List.replicate (t.length + 2) Role.text ++ s.roles ∧
      s'.tail = tl ∧ s'.lit = (if fx.discard && nonSyncSuffix tl then some true else none) ∧
      s'.st = s.st ∧ s'.evs = s.evs ∧ s'.mute = s.mute := by
  intro s' tl
  have htext : s.textP = (if t.isEmpty then none else some t,
      { (({ s with crlf := false } : S).take t.length .text) with tail := tl }) := by
    unfold S.textP
    rw [func_eq s notEol t 13 (10 :: rest) hl hi (noEol_notEol ht) (by decide)]
    cases t with
    | nil => simp [tl, S.take]
    | cons a t' => simp [tl]
  obtain ⟨s2, hcr, hadv, hcrlf, hinp⟩ := crlfP_at_eol
    ({ (({ s with crlf := false } : S).take t.length .text) with tail := tl } : S) rest
    (by simp [S.take, hl]) (by simp [S.take, hi])
  have hs' : s' = if fx.discard && true && nonSyncSuffix s2.tail then { s2 with lit := some true } else s2 := by
    show s.discardLine fx = _
    unfold S.discardLine
    simp only [hc, Bool.false_eq_true, if_false, htext, hcr]
  have htl : s2.tail = tl := by rw [hadv.tail]
  have hlit2 : s2.lit = none := by rw [hadv.lit]; simp [S.take, hl]
  have hpos : s2.pos = s.pos + t.length + 2 := by
    rw [hadv.pos]; simp [S.take, hi]
  have hroles : s2.roles = List.replicate (t.length + 2) Role.text ++ s.roles := by
    rw [hadv.roles]
    simp only [S.take, hi, List.length_append, List.length_cons]
    have : min t.length (t.length + (rest.length + 1 + 1)) = t.length := by omega
    rw [this, ← List.append_assoc, List.replicate_append_replicate]
    simp [Nat.add_comm]
  have hst : s2.st = s.st := by rw [hadv.st]; simp [S.take]
  have hevs : s2.evs = s.evs := by rw [hadv.evs]; simp [S.take]
  have hmute : s2.mute = s.mute := by rw [hadv.mute]; simp [S.take]
  rw [hs', htl]
  simp only [Bool.and_true]
  split
  · exact ⟨hinp, hpos, hroles, rfl, rfl, hst, hevs, hmute⟩
  · exact ⟨hinp, hpos, hroles, htl, hlit2, hst, hevs, hmute⟩

/-! ### a whole command whose handler does not read: unknown commands -/

theorem func_crlf {s : S} {valid : Nat → Bool} {r s1} (h : s.func valid = (r, s1)) (hl : s.lit = none) :
    s1.crlf = false ∨ s1.evs ≠ s.evs := by
  unfold S.func at h
  simp only [hl, Option.isSome_none, Bool.false_eq_true, if_false] at h
  split at h
  · cases h; right; simp [S.sawEof, S.emit, S.take]
  · split at h <;> (cases h; left; simp [S.take])

/-- after a successful command header the decoder's crlf flag is down (the last thing read was the
    command name) -/
theorem cmdHeader_crlf {s : S} {tn s1} (h : cmdHeader s = (some tn, s1)) (hl : s.lit = none)
    (t rest : Bytes) (hi : s.inp = t ++ 13 :: 10 :: rest) (ht : noEol t) : s1.crlf = false := by
  -- the last primitive of every successful path is ExpectAtom, i.e. Func
  have key : ∀ (s' : S) a s'', s'.lit = none → s'.expectAtom = (some a, s'') → s''.crlf = false := by
    intro s' a s'' hl' h'
    unfold S.expectAtom at h'
    split at h'
    · rename_i a' s3 h3
      cases h'
      unfold S.func at h3
      simp only [hl', Option.isSome_none, Bool.false_eq_true, if_false] at h3
      split at h3
      · cases h3
      · split at h3
        · cases h3
        · cases h3; simp [S.take]
    · cases h'
  unfold cmdHeader at h
  split at h
  · cases h
  · rename_i tag s2 h2
    obtain ⟨c2, t2, _, a2⟩ := expectAtom_onLine h2 hl t rest hi ht
    split at h
    · cases h
    · split at h
      · cases h
      · rename_i s3 h3
        have l2 : s2.lit = none := by rw [a2.lit, hl]
        have hi2 : s2.inp = t2 ++ 13 :: 10 :: rest := by
          have := a2.inp; rw [hi] at this
          rename_i heq; rw [‹t = c2 ++ t2›, List.append_assoc] at this
          exact (List.append_cancel_left this).symm
        have ht2 : noEol t2 := (noEol_append (‹t = c2 ++ t2› ▸ ht)).2
        obtain ⟨c3, t3, ht3, a3⟩ := expectSP_onLine h3 l2 t2 rest hi2 ht2
        have l3 : s3.lit = none := by rw [a3.lit, l2]
        split at h
        · cases h
        · rename_i name0 s4 h4
          have c4 := key s3 _ _ l3 h4
          split at h
          · split at h
            · cases h
            · rename_i name s5 h5
              cases h
              -- UID <sub>: ExpectSP then ExpectAtom
              unfold uidName at h5
              split at h5
              · cases h5
              · rename_i s6 h6
                split at h5
                · cases h5
                · rename_i sub s7 h7
                  cases h5
                  have hi3 : s3.inp = t3 ++ 13 :: 10 :: rest := by
                    have := a3.inp; rw [hi2, ht3, List.append_assoc] at this
                    exact (List.append_cancel_left this).symm
                  have ht3' : noEol t3 := (noEol_append (ht3 ▸ ht2)).2
                  obtain ⟨c4', t4, ht4, a4⟩ := expectAtom_onLine h4 l3 t3 rest hi3 ht3'
                  have l4 : s4.lit = none := by rw [a4.lit, l3]
                  have hi4 : s4.inp = t4 ++ 13 :: 10 :: rest := by
                    have := a4.inp; rw [hi3, ht4, List.append_assoc] at this
                    exact (List.append_cancel_left this).symm
                  have ht4' : noEol t4 := (noEol_append (ht4 ▸ ht3')).2
                  obtain ⟨c6, t6, ht6, a6⟩ := expectSP_onLine h6 l4 t4 rest hi4 ht4'
                  exact key s6 _ _ (by rw [a6.lit, l4]) h7
          · cases h; exact c4

/-- An unknown command on the line `l` CRLF: the server consumes exactly `l` CRLF as command text,
    writes one tagged reply (BAD) carrying the line's leading atom, and goes on (or closes, before
    authentication / when the line ends in a non-synchronising literal header) with the unread
    input at `rest`. -/
theorem unknown_command_line (cfg : Cfg) (s0 : S) (l rest : Bytes) (hi : s0.inp = l ++ 13 :: 10 :: rest)
    (hl : noEol l) (tag name : Bytes) (s2 : S) (hh : cmdHeader s0.reset = (some (tag, name), s2))
    (hu : handlerOf cfg name = .unknown) (hfix : cfg.fx.append = true) :
    ∃ s1, readCommand cfg s0 = (true, s1) ∧ s1.inp = rest ∧ s1.pos = s0.pos + l.length + 2 ∧
      s1.roles = List.replicate (l.length + 2) Role.text ++ s0.roles ∧
      tag = l.takeWhile isAtomChar ∧ tag ≠ [] ∧
      (∃ new, s1.evs = new ++ s0.evs ∧ new.filter isTagged = [Event.tagged tag .bad] ∧
        ∀ p, Event.cont p ∉ new) := by
  have hlr : s0.reset.lit = none := rfl
  have hir : s0.reset.inp = l ++ 13 :: 10 :: rest := hi
  obtain ⟨c, t', hct, adv⟩ := cmdHeader_onLine hh hlr l rest hir hl
  have hcr := cmdHeader_crlf hh hlr l rest hir hl
  obtain ⟨htag, htne⟩ := cmdHeader_tag hh
  have hi2 : s2.inp = t' ++ 13 :: 10 :: rest := by
    have := adv.inp; rw [hir, hct, List.append_assoc] at this
    exact (List.append_cancel_left this).symm
  have ht' : noEol t' := (noEol_append (hct ▸ hl)).2
  -- the state the handler leaves: only the ghost event and possibly the connection state changed
  have hrun : ∃ bu s3, runHandler name (handlerOf cfg name) s2 = (bu, some Err.bad, s3) ∧ s3.inp = s2.inp ∧
      s3.pos = s2.pos ∧ s3.roles = s2.roles ∧ s3.lit = s2.lit ∧ s3.crlf = s2.crlf ∧ s3.tail = s2.tail ∧
      s3.evs = Event.dispatch name :: s2.evs ∧ s3.mute = s2.mute := by
    rw [hu]
    unfold runHandler
    dsimp only
    split
    · exact ⟨true, _, rfl, rfl, rfl, rfl, rfl, rfl, rfl, rfl, rfl⟩
    · exact ⟨false, _, rfl, rfl, rfl, rfl, rfl, rfl, rfl, rfl, rfl⟩
  obtain ⟨bu, s3, hr, i3, p3, r3, l3, c3, t3, e3, m3⟩ := hrun
  have hd := discardLine_line cfg.fx s3 t' rest (by rw [l3, adv.lit]; rfl) (by rw [c3, hcr]) (by rw [i3, hi2]) ht'
  obtain ⟨di, dp, dr, _, _, _, de, dm⟩ := hd
  refine ⟨finishCommand cfg tag bu (some Err.bad) s3, ?_, ?_, ?_, ?_, ?_, htne, ?_⟩
  · unfold readCommand
    rw [hh]
    dsimp only
    rw [hu] at hr ⊢
    dsimp only
    rw [hr]
    dsimp only
    simp [e3]
  · unfold finishCommand; dsimp only; split_ifs <;> simp [S.emit, di]
  · have : (s3.discardLine cfg.fx).pos = s0.pos + l.length + 2 := by
      rw [dp, p3, adv.pos, hct, List.length_append]; show s0.pos + c.length + t'.length + 2 = _; omega
    unfold finishCommand; dsimp only; split_ifs <;> simp [S.emit, this]
  · have : (s3.discardLine cfg.fx).roles = List.replicate (l.length + 2) Role.text ++ s0.roles := by
      rw [dr, r3, adv.roles, hct, List.length_append, ← List.append_assoc, List.replicate_append_replicate]
      show List.replicate (t'.length + 2 + c.length) Role.text ++ s0.roles = _
      congr 2; omega
    unfold finishCommand; dsimp only; split_ifs <;> simp [S.emit, this]
  · rw [htag, hir]
    exact takeWhile_line isAtomChar (by decide) l rest
  · have hev : (s3.discardLine cfg.fx).evs = Event.dispatch name :: s0.evs := by
      rw [de, e3, adv.evs]; rfl
    obtain ⟨byes, hfin, hb⟩ := finishCommand_events cfg hfix tag bu (some Err.bad) s3
    refine ⟨byes ++ [Event.tagged tag (replyCls (some Err.bad))] ++ [Event.dispatch name], ?_, ?_, ?_⟩
    · rw [hfin, hev]; simp
    · have hbf : byes.filter isTagged = [] := by
        rw [List.filter_eq_nil_iff]
        intro x hx; rw [hb x hx]; simp [isTagged]
      simp only [List.filter_append, hbf, List.nil_append, replyCls, Err.cls]
      rfl
    · intro p hp
      simp only [List.mem_append, List.mem_singleton, List.mem_cons, List.mem_nil_iff, or_false] at hp
      rcases hp with (hp | hp) | hp
      · have := hb _ hp; cases this
      · cases hp
      · cases hp

/-! ### the general shape: a handler that stays on the line -/

/-- What a handler did, seen from the state `s2` after the command header, when the unread input was
    `t'` CRLF `rest`: it consumed a prefix `c2` of `t'` as command text and stopped there
    (`ended = false`), or it consumed all of `t'` and the CRLF (`ended = true`, Decoder.crlf set);
    no literal is open, and it wrote neither a tagged reply nor a continuation request. -/
def Shape (rest t' : Bytes) (s2 s3 : S) : Prop :=
  ∃ (c2 t'' : Bytes) (ended : Bool) (new : List Event),
    t' = c2 ++ t'' ∧ (ended = true → t'' = []) ∧
    s3.inp = (if ended then rest else t'' ++ 13 :: 10 :: rest) ∧
    s3.pos = s2.pos + c2.length + (if ended then 2 else 0) ∧
    s3.roles = List.replicate (c2.length + (if ended then 2 else 0)) Role.text ++ s2.roles ∧
    s3.lit = none ∧ s3.crlf = ended ∧
    s3.evs = new ++ s2.evs ∧ new ≠ [] ∧ new.filter isTagged = [] ∧ (∀ p, Event.cont p ∉ new) ∧
    (∀ e ∈ new, e ≠ Event.opaque)

/-- A command whose handler stays on the line `l` CRLF (`Shape`): the server consumes exactly
    `l` CRLF as command text, writes one tagged reply carrying the line's leading atom and no
    continuation request, and leaves the unread input at `rest`. -/
theorem command_line_generic (cfg : Cfg) (hfix : cfg.fx.append = true) (s0 : S) (l rest : Bytes)
    (hi : s0.inp = l ++ 13 :: 10 :: rest) (hl : noEol l) (tag name : Bytes) (s2 : S)
    (hh : cmdHeader s0.reset = (some (tag, name), s2)) (hno : handlerOf cfg name ≠ .opaque)
    (bu : Bool) (e : Option Err) (s3 : S) (hr : runHandler name (handlerOf cfg name) s2 = (bu, e, s3))
    (hshape : ∀ t', (∃ c, l = c ++ t') → s2.inp = t' ++ 13 :: 10 :: rest → noEol t' → s2.lit = none →
      s2.crlf = false → Shape rest t' s2 s3) :
    ∃ s1, readCommand cfg s0 = (true, s1) ∧ s1.inp = rest ∧ s1.pos = s0.pos + l.length + 2 ∧
      s1.roles = List.replicate (l.length + 2) Role.text ++ s0.roles ∧
      tag = l.takeWhile isAtomChar ∧ tag ≠ [] ∧
      (∃ new cls, s1.evs = new ++ s0.evs ∧ new.filter isTagged = [Event.tagged tag cls] ∧
        ∀ p, Event.cont p ∉ new) := by
  have hlr : s0.reset.lit = none := rfl
  have hir : s0.reset.inp = l ++ 13 :: 10 :: rest := hi
  obtain ⟨c, t', hct, adv⟩ := cmdHeader_onLine hh hlr l rest hir hl
  have hcr := cmdHeader_crlf hh hlr l rest hir hl
  obtain ⟨htag, htne⟩ := cmdHeader_tag hh
  have hi2 : s2.inp = t' ++ 13 :: 10 :: rest := by
    have := adv.inp; rw [hir, hct, List.append_assoc] at this
    exact (List.append_cancel_left this).symm
  have ht' : noEol t' := (noEol_append (hct ▸ hl)).2
  obtain ⟨c2, t'', ended, new, htc, hend, i3, p3, r3, l3, c3, e3, hnn, hnt, hnc, hno'⟩ :=
    hshape t' ⟨c, hct⟩ hi2 ht' (by rw [adv.lit]; rfl) hcr
  have ht'' : noEol t'' := (noEol_append (htc ▸ ht')).2
  -- DiscardLine
  have hd : (s3.discardLine cfg.fx).inp = rest ∧
      (s3.discardLine cfg.fx).pos = s0.pos + l.length + 2 ∧
      (s3.discardLine cfg.fx).roles = List.replicate (l.length + 2) Role.text ++ s0.roles ∧
      (s3.discardLine cfg.fx).evs = s3.evs := by
    have hlen : l.length = c.length + (c2.length + t''.length) := by
      rw [hct, htc, List.length_append, List.length_append]
    cases ended with
    | true =>
      have h0 := hend rfl
      subst h0
      have : s3.discardLine cfg.fx = s3 := by unfold S.discardLine; simp [c3]
      rw [this]
      simp only [if_true] at i3 p3 r3
      refine ⟨i3, ?_, ?_, rfl⟩
      · rw [p3, adv.pos]; simp at hlen; show s0.pos + c.length + c2.length + 2 = _; omega
      · rw [r3, adv.roles, ← List.append_assoc, List.replicate_append_replicate]
        show List.replicate (c2.length + 2 + c.length) Role.text ++ s0.roles = _
        simp at hlen
        congr 2; omega
    | false =>
      simp only [Bool.false_eq_true, if_false, Nat.add_zero] at i3 p3 r3
      obtain ⟨di, dp, dr, _, _, _, de, _⟩ := discardLine_line cfg.fx s3 t'' rest l3 c3 i3 ht''
      refine ⟨di, ?_, ?_, de⟩
      · rw [dp, p3, adv.pos]; show s0.pos + c.length + c2.length + t''.length + 2 = _; omega
      · rw [dr, r3, adv.roles, ← List.append_assoc, ← List.append_assoc, List.replicate_append_replicate,
          List.replicate_append_replicate]
        show List.replicate (t''.length + 2 + c2.length + c.length) Role.text ++ s0.roles = _
        congr 2; omega
  obtain ⟨di, dp, dr, de⟩ := hd
  have hhead : (s3.evs.head? == some Event.opaque) = false := by
    rw [e3]
    cases new with
    | nil => exact absurd rfl hnn
    | cons a t =>
      have := hno' a (by simp)
      simp only [List.cons_append, List.head?_cons]
      cases a <;> simp_all
  refine ⟨finishCommand cfg tag bu e s3, ?_, ?_, ?_, ?_, ?_, htne, ?_⟩
  · unfold readCommand
    rw [hh]
    dsimp only
    split
    · rename_i hop; exact absurd hop hno
    · rw [hr]
      dsimp only
      simp [hhead]
  · unfold finishCommand; dsimp only; split_ifs <;> simp [S.emit, di]
  · unfold finishCommand; dsimp only; split_ifs <;> simp [S.emit, dp]
  · unfold finishCommand; dsimp only; split_ifs <;> simp [S.emit, dr]
  · rw [htag, hir]
    exact takeWhile_line isAtomChar (by decide) l rest
  · obtain ⟨byes, hfin, hb⟩ := finishCommand_events cfg hfix tag bu e s3
    refine ⟨byes ++ [Event.tagged tag (replyCls e)] ++ new, replyCls e, ?_, ?_, ?_⟩
    · rw [hfin, de, e3, adv.evs]; simp [S.reset]
    · have hbf : byes.filter isTagged = [] := by
        rw [List.filter_eq_nil_iff]
        intro x hx; rw [hb x hx]; simp [isTagged]
      simp only [List.filter_append, hbf, hnt, List.nil_append, List.append_nil]
      rfl
    · intro p hp
      simp only [List.mem_append, List.mem_singleton] at hp
      rcases hp with (hp | hp) | hp
      · have := hb _ hp; cases this
      · cases hp
      · exact hnc p hp

/-! ### argument-less handlers -/

/-- what the body of an argument-less handler may do: state checks, session calls, BYE — it reads
    nothing and answers nothing -/
def BodyPure (body : S → Option Err × S) : Prop :=
  ∀ s, (body s).2.inp = s.inp ∧ (body s).2.pos = s.pos ∧ (body s).2.roles = s.roles ∧
    (body s).2.lit = s.lit ∧ (body s).2.crlf = s.crlf ∧
    ∃ new, (body s).2.evs = new ++ s.evs ∧ new.filter isTagged = [] ∧ (∀ p, Event.cont p ∉ new) ∧
      (∀ e ∈ new, e ≠ Event.opaque)

@[simp] theorem fail_roles (s : S) (e : Err) : (s.fail e).roles = s.roles := by unfold S.fail; split <;> rfl
@[simp] theorem fail_lit (s : S) (e : Err) : (s.fail e).lit = s.lit := by unfold S.fail; split <;> rfl
@[simp] theorem fail_crlf (s : S) (e : Err) : (s.fail e).crlf = s.crlf := by unfold S.fail; split <;> rfl

theorem noArgs_shape (name : Bytes) (body : S → Option Err × S) (hb : BodyPure body) (rest t' : Bytes) (s2 : S)
    (hi : s2.inp = t' ++ 13 :: 10 :: rest) (ht : noEol t') (hl : s2.lit = none)
    (hsp : t' ≠ [] → t'.getLast? ≠ some 32) :
    ∃ e s3, runHandler name (.run fun s => noArgs s body) s2 = (false, e, s3) ∧ Shape rest t' s2 s3 := by
  unfold runHandler
  dsimp only
  have hl' : (s2.emit (.dispatch name)).lit = none := hl
  have hi' : (s2.emit (.dispatch name)).inp = t' ++ 13 :: 10 :: rest := hi
  generalize hsd : s2.emit (.dispatch name) = sd at hl' hi'
  have hsd_evs : sd.evs = Event.dispatch name :: s2.evs := by rw [← hsd]; rfl
  have hsd_pos : sd.pos = s2.pos := by rw [← hsd]; rfl
  have hsd_roles : sd.roles = s2.roles := by rw [← hsd]; rfl
  cases t' with
  | nil =>
    simp only [List.nil_append] at hi'
    obtain ⟨sx, hcr, hadv, hcrlf, hinp⟩ := crlfP_at_eol sd rest hl' hi'
    have hexp : sd.expectCRLF = (true, sx) := by
      unfold S.expectCRLF; rw [hcr]; simp [S.expect]
    obtain ⟨bi, bp, br, bl, bc, new, be, bt, bn, bo⟩ := hb sx
    refine ⟨(body sx).1, (body sx).2, ?_, ?_⟩
    · unfold noArgs; rw [hexp]
    · refine ⟨[], [], true, new ++ [Event.dispatch name], by simp, fun _ => rfl, ?_, ?_, ?_, ?_, ?_, ?_, by simp, ?_, ?_, ?_⟩
      · simp [bi, hinp]
      · simp [bp, hadv.pos, hsd_pos]
      · simp [br, hadv.roles, hsd_roles]
      · rw [bl, hadv.lit, hl']
      · rw [bc, hcrlf]
      · rw [be, hadv.evs, hsd_evs]; simp
      · simp [List.filter_append, bt, isTagged]
      · intro p hp
        simp only [List.mem_append, List.mem_singleton] at hp
        rcases hp with hp | hp
        · exact bn p hp
        · cases hp
      · intro e he
        simp only [List.mem_append, List.mem_singleton] at he
        rcases he with he | he
        · exact bo e he
        · rw [he]; simp
  | cons b t =>
    obtain ⟨hf, hc, c2, t'', htc, hadv⟩ := crlfP_mid sd b t rest hl' hi' ht (hsp (by simp))
    have hexp : sd.expectCRLF = (false, (sd.crlfP).2.expect false) := by
      unfold S.expectCRLF
      have : sd.crlfP = (false, sd.crlfP.2) := Prod.ext hf rfl
      rw [this]
    refine ⟨((sd.crlfP).2.expect false).err, (sd.crlfP).2.expect false, ?_, ?_⟩
    · unfold noArgs; rw [hexp]
    · have hi3 : (sd.crlfP).2.inp = t'' ++ 13 :: 10 :: rest := by
        have := hadv.inp
        rw [hi', htc, List.append_assoc] at this
        exact (List.append_cancel_left this).symm
      refine ⟨c2, t'', false, [Event.dispatch name], htc, by simp, ?_, ?_, ?_, ?_, ?_, ?_, by simp, by simp [isTagged], ?_, ?_⟩
      · simp [S.expect, hi3]
      · simp [S.expect, hadv.pos, hsd_pos]
      · simp [S.expect, hadv.roles, hsd_roles]
      · simp [S.expect, hadv.lit, hl']
      · simp [S.expect, hc]
      · simp [S.expect, hadv.evs, hsd_evs]
      · intro p hp; simp at hp
      · intro e he; simp at he; rw [he]; simp

/-- `Shape` relative to an arbitrary start state, possibly with no new event -/
def ShapeFrom (rest t' : Bytes) (s2 s3 : S) : Prop :=
  ∃ (c2 t'' : Bytes) (ended : Bool) (new : List Event),
    t' = c2 ++ t'' ∧ (ended = true → t'' = []) ∧
    s3.inp = (if ended then rest else t'' ++ 13 :: 10 :: rest) ∧
    s3.pos = s2.pos + c2.length + (if ended then 2 else 0) ∧
    s3.roles = List.replicate (c2.length + (if ended then 2 else 0)) Role.text ++ s2.roles ∧
    s3.lit = none ∧ s3.crlf = ended ∧
    s3.evs = new ++ s2.evs ∧ new.filter isTagged = [] ∧ (∀ p, Event.cont p ∉ new) ∧
    (∀ e ∈ new, e ≠ Event.opaque)

/-- the handler gave up at a state on the line -/
theorem shapeFrom_stop (rest t' c tx : Bytes) (s sx : S) (htc : t' = c ++ tx) (adv : Adv s sx c)
    (hix : sx.inp = tx ++ 13 :: 10 :: rest) (hl : s.lit = none) (hc : sx.crlf = false) :
    ShapeFrom rest t' s sx :=
  ⟨c, tx, false, [], htc, by simp, by simp [hix], by simp [adv.pos], by simp [adv.roles],
    by rw [adv.lit, hl], hc, by simp [adv.evs], rfl, by simp, by simp⟩

/-- steps on the line, then something with a shape -/
theorem shapeFrom_trans (rest t' c tx : Bytes) (s sx s3 : S) (htc : t' = c ++ tx) (adv : Adv s sx c)
    (h : ShapeFrom rest tx sx s3) : ShapeFrom rest t' s s3 := by
  obtain ⟨c2, t'', ended, new, h1, h2, h3, h4, h5, h6, h7, h8, h9, h10, h11⟩ := h
  refine ⟨c ++ c2, t'', ended, new, by rw [htc, h1, List.append_assoc], h2, h3, ?_, ?_, h6, h7, ?_, h9, h10, h11⟩
  · rw [h4, adv.pos, List.length_append]; omega
  · rw [h5, adv.roles, ← List.append_assoc, List.replicate_append_replicate, List.length_append]
    congr 2; omega
  · rw [h8, adv.evs]

/-- ExpectCRLF and a pure body, from a state on the line -/
theorem noArgs_core (body : S → Option Err × S) (hb : BodyPure body) (rest t' : Bytes) (sd : S)
    (hi' : sd.inp = t' ++ 13 :: 10 :: rest) (ht : noEol t') (hl' : sd.lit = none)
    (hsp : t' ≠ [] → t'.getLast? ≠ some 32) :
    ShapeFrom rest t' sd (noArgs sd body).2 := by
  cases t' with
  | nil =>
    simp only [List.nil_append] at hi'
    obtain ⟨sx, hcr, hadv, hcrlf, hinp⟩ := crlfP_at_eol sd rest hl' hi'
    have hexp : sd.expectCRLF = (true, sx) := by
      unfold S.expectCRLF; rw [hcr]; simp [S.expect]
    obtain ⟨bi, bp, br, bl, bc, new, be, bt, bn, bo⟩ := hb sx
    have : noArgs sd body = body sx := by unfold noArgs; rw [hexp]
    rw [this]
    refine ⟨[], [], true, new, by simp, fun _ => rfl, ?_, ?_, ?_, ?_, ?_, ?_, bt, bn, bo⟩
    · simp [bi, hinp]
    · simp [bp, hadv.pos]
    · simp [br, hadv.roles]
    · rw [bl, hadv.lit, hl']
    · rw [bc, hcrlf]
    · rw [be, hadv.evs]
  | cons b t =>
    obtain ⟨hf, hc, c2, t'', htc, hadv⟩ := crlfP_mid sd b t rest hl' hi' ht (hsp (by simp))
    have hexp : sd.expectCRLF = (false, (sd.crlfP).2.expect false) := by
      unfold S.expectCRLF
      have : sd.crlfP = (false, sd.crlfP.2) := Prod.ext hf rfl
      rw [this]
    have : noArgs sd body = (((sd.crlfP).2.expect false).err, (sd.crlfP).2.expect false) := by
      unfold noArgs; rw [hexp]
    rw [this]
    have hi3 : (sd.crlfP).2.inp = t'' ++ 13 :: 10 :: rest := by
      have := hadv.inp
      rw [hi', htc, List.append_assoc] at this
      exact (List.append_cancel_left this).symm
    refine ⟨c2, t'', false, [], htc, by simp, ?_, ?_, ?_, ?_, ?_, ?_, rfl, by simp, by simp⟩
    · simp [S.expect, hi3]
    · simp [S.expect, hadv.pos]
    · simp [S.expect, hadv.roles]
    · simp [S.expect, hadv.lit, hl']
    · simp [S.expect, hc]
    · simp [S.expect, hadv.evs]

/-- with the ghost dispatch event in front, a `ShapeFrom` is a `Shape` -/
theorem shape_of_from (name rest t' : Bytes) (s2 s3 : S)
    (h : ShapeFrom rest t' (s2.emit (.dispatch name)) s3) : Shape rest t' s2 s3 := by
  obtain ⟨c2, t'', ended, new, h1, h2, h3, h4, h5, h6, h7, h8, h9, h10, h11⟩ := h
  refine ⟨c2, t'', ended, new ++ [Event.dispatch name], h1, h2, h3, h4, h5, h6, h7, ?_, by simp, ?_, ?_, ?_⟩
  · rw [h8]; simp [S.emit]
  · simp [List.filter_append, h9, isTagged]
  · intro p hp
    simp only [List.mem_append, List.mem_singleton] at hp
    rcases hp with hp | hp
    · exact h10 p hp
    · cases hp
  · intro e he
    simp only [List.mem_append, List.mem_singleton] at he
    rcases he with he | he
    · exact h11 e he
    · rw [he]; simp

/-! ### arguments that are atoms: a line without DQUOTE and without "{" -/

/-- the server is at `t` CRLF `rest`, no literal open, and `t` has neither a quote nor a brace -/
structure At (t rest : Bytes) (s : S) : Prop where
  inp : s.inp = t ++ 13 :: 10 :: rest
  eol : noEol t
  q : 34 ∉ t
  b : 123 ∉ t
  lit : s.lit = none

theorem At.next {t rest : Bytes} {s : S} (h : At t rest s) :
    ∃ b r, s.inp = b :: r ∧ b ≠ 34 ∧ b ≠ 123 := by
  cases t with
  | nil => exact ⟨13, _, h.inp, by decide, by decide⟩
  | cons b t' =>
    refine ⟨b, _, h.inp, ?_, ?_⟩
    · intro hb; exact h.q (by simp [hb])
    · intro hb; exact h.b (by simp [hb])

theorem At.adv {t rest c tx : Bytes} {s s' : S} (h : At t rest s) (htc : t = c ++ tx) (a : Adv s s' c) :
    At tx rest s' := by
  refine ⟨?_, (noEol_append (htc ▸ h.eol)).2, fun hq => h.q (by rw [htc]; simp [hq]),
    fun hb => h.b (by rw [htc]; simp [hb]), by rw [a.lit, h.lit]⟩
  have := a.inp
  rw [h.inp, htc, List.append_assoc] at this
  exact (List.append_cancel_left this).symm

theorem At.upd {t rest : Bytes} {s s' : S} (h : At t rest s) (hi : s'.inp = s.inp) (hl : s'.lit = s.lit) :
    At t rest s' := ⟨by rw [hi, h.inp], h.eol, h.q, h.b, by rw [hl, h.lit]⟩

theorem look_crlf (s : S) : s.look.2.crlf = false := by
  unfold S.look
  dsimp only
  split
  · simp
  · split <;> simp [S.sawEof, S.emit]

theorem accept_crlf (s : S) (w : Nat) : (s.accept w).2.crlf = false := by
  unfold S.accept
  have := look_crlf s
  generalize s.look = p at this
  obtain ⟨r, s1⟩ := p
  cases r with
  | none => exact this
  | some b => dsimp only; split <;> simp [S.take, this] <;> exact this

theorem func_crlf0 (s : S) (v : Nat → Bool) : (s.func v).2.crlf = false := by
  unfold S.func
  dsimp only
  split
  · simp
  · split
    · simp [S.sawEof, S.emit, S.take]
    · split <;> simp [S.take]

theorem expectAtom_crlf (s : S) : s.expectAtom.2.crlf = false := by
  unfold S.expectAtom
  have := func_crlf0 s isAtomChar
  generalize s.func isAtomChar = p at this
  obtain ⟨r, s1⟩ := p
  cases r <;> simp [this] <;> exact this

theorem sp_crlf (s : S) : s.sp.2.crlf = false := by
  unfold S.sp
  split
  · rename_i s1 h1
    split
    · rename_i b s2 h2; have := look_crlf s1; rw [h2] at this; exact this
    · rename_i s2 h2; have := look_crlf s1; rw [h2] at this; exact this
  · rename_i s1 h1
    split
    · rename_i b s2 h2; have := look_crlf s1; rw [h2] at this; exact this
    · rename_i s2 h2; have := look_crlf s1; rw [h2] at this; exact this

theorem expectSP_crlf (s : S) : s.expectSP.2.crlf = false := by
  unfold S.expectSP S.expect
  dsimp only
  split
  · exact sp_crlf s
  · simp [sp_crlf s]

/-- one step on such a line: what was consumed, where the server is now -/
def StepAt (t rest : Bytes) (s s' : S) : Prop :=
  ∃ c tx, t = c ++ tx ∧ Adv s s' c ∧ At tx rest s' ∧ s'.crlf = false

theorem expectSP_at {t rest : Bytes} {s : S} (h : At t rest s) : StepAt t rest s s.expectSP.2 := by
  obtain ⟨c, tx, htc, a⟩ := expectSP_onLine (rfl : s.expectSP = (s.expectSP.1, s.expectSP.2)) h.lit t rest h.inp h.eol
  exact ⟨c, tx, htc, a, h.adv htc a, expectSP_crlf s⟩

theorem expectAtom_at {t rest : Bytes} {s : S} (h : At t rest s) : StepAt t rest s s.expectAtom.2 := by
  obtain ⟨c, tx, htc, a⟩ := expectAtom_onLine (rfl : s.expectAtom = (s.expectAtom.1, s.expectAtom.2)) h.lit t rest h.inp h.eol
  exact ⟨c, tx, htc, a, h.adv htc a, expectAtom_crlf s⟩

/-- ExpectAString where the next octet is neither DQUOTE nor "{": an atom is expected -/
theorem astring_eq (cfg : Cfg) (s : S) (b : Nat) (r : Bytes) (hl : s.lit = none) (hi : s.inp = b :: r)
    (hq : b ≠ 34) (hb : b ≠ 123) :
    s.astring cfg = (if s.err.isSome then (none, ({ s with crlf := false } : S))
      else ({ s with crlf := false } : S).expectAtom) := by
  unfold S.astring S.quoted
  rw [accept_miss s b 34 r hl hi hq]
  dsimp only
  unfold S.literal S.literalReader
  rw [accept_miss ({ s with crlf := false } : S) b 123 r hl hi hb]

theorem astring_at (cfg : Cfg) {t rest : Bytes} {s : S} (h : At t rest s) : StepAt t rest s (s.astring cfg).2 := by
  obtain ⟨b, r, hi, hq, hb⟩ := h.next
  rw [astring_eq cfg s b r h.lit hi hq hb]
  have h0 : At t rest ({ s with crlf := false } : S) := h.upd rfl rfl
  split
  · exact ⟨[], t, by simp, ⟨by simp, by simp, by simp, rfl, rfl, rfl, rfl, rfl⟩, h0, rfl⟩
  · obtain ⟨c, tx, htc, a, hat, hc⟩ := expectAtom_at h0
    exact ⟨c, tx, htc, ⟨a.inp, a.pos, a.roles, a.lit, a.tail, a.st, a.evs, a.mute⟩, hat, hc⟩

theorem mailbox_at (cfg : Cfg) {t rest : Bytes} {s : S} (h : At t rest s) : StepAt t rest s (s.mailbox cfg).2 := by
  unfold S.mailbox
  obtain ⟨c, tx, htc, a, hat, hc⟩ := astring_at cfg h
  generalize s.astring cfg = p at a hat hc
  obtain ⟨v, s1⟩ := p
  cases v with
  | none => exact ⟨c, tx, htc, a, hat, hc⟩
  | some v =>
    dsimp only at a hat hc ⊢
    split
    · exact ⟨c, tx, htc, a, hat, hc⟩
    · refine ⟨c, tx, htc, ⟨by simp [a.inp], by simp [a.pos], by simp [a.roles], by simp [a.lit],
        by rw [← a.tail]; unfold S.fail; split <;> rfl, by rw [← a.st]; unfold S.fail; split <;> rfl,
        by simp [a.evs], by rw [← a.mute]; unfold S.fail; split <;> rfl⟩, hat.upd (by simp) (by simp), by simp [hc]⟩

theorem pure_of_events (body : S → Option Err × S)
    (h : ∀ s, ∃ (e : Option Err) (new : List Event) (st : St), body s = (e, { s with evs := new ++ s.evs, st := st }) ∧
      new.filter isTagged = [] ∧ (∀ p, Event.cont p ∉ new) ∧ (∀ x ∈ new, x ≠ Event.opaque)) : BodyPure body := by
  intro s
  obtain ⟨e, new, st, hb, h1, h2, h3⟩ := h s
  rw [hb]
  exact ⟨rfl, rfl, rfl, rfl, rfl, new, rfl, h1, h2, h3⟩

def NoTrailSP (t : Bytes) : Prop := t ≠ [] → t.getLast? ≠ some 32

theorem getLast_suffix' (c t' : Bytes) (hne : t' ≠ []) : (c ++ t').getLast? = t'.getLast? := by
  rw [List.getLast?_append]
  cases h : t'.getLast? with
  | none => simp [List.getLast?_eq_none_iff] at h; exact absurd h hne
  | some x => simp

theorem NoTrailSP.suffix {c tx : Bytes} (h : NoTrailSP (c ++ tx)) : NoTrailSP tx := by
  intro hne
  rw [← getLast_suffix' c tx hne]
  exact h (by simp [hne])

/-- a step that yields a value or gives up with the decoder error -/
theorem bind_opt {α : Type} (t rest : Bytes) (s : S) (r : Option α × S) (k : α → S → Option Err × S)
    (hsp : NoTrailSP t) (hl : s.lit = none) (hf : StepAt t rest s r.2)
    (hk : ∀ a tx, At tx rest r.2 → NoTrailSP tx → r.2.crlf = false → ShapeFrom rest tx r.2 (k a r.2).2) :
    ShapeFrom rest t s (match r with | (none, s') => (s'.err, s') | (some a, s') => k a s').2 := by
  obtain ⟨c, tx, htc, a, hat, hc⟩ := hf
  obtain ⟨v, s1⟩ := r
  cases v with
  | none => exact shapeFrom_stop rest t c tx s s1 htc a hat.inp hl hc
  | some v => exact shapeFrom_trans rest t c tx s s1 _ htc a (hk v tx hat (htc ▸ hsp).suffix hc)

theorem bind_bool (t rest : Bytes) (s : S) (r : Bool × S) (k : S → Option Err × S)
    (hsp : NoTrailSP t) (hl : s.lit = none) (hf : StepAt t rest s r.2)
    (hk : ∀ tx, At tx rest r.2 → NoTrailSP tx → r.2.crlf = false → ShapeFrom rest tx r.2 (k r.2).2) :
    ShapeFrom rest t s (match r with | (false, s') => (s'.err, s') | (true, s') => k s').2 := by
  obtain ⟨c, tx, htc, a, hat, hc⟩ := hf
  obtain ⟨v, s1⟩ := r
  cases v with
  | false => exact shapeFrom_stop rest t c tx s s1 htc a hat.inp hl hc
  | true => exact shapeFrom_trans rest t c tx s s1 _ htc a (hk tx hat (htc ▸ hsp).suffix hc)

/-- handleLogin with atom arguments -/
theorem hLogin_shapeFrom (cfg : Cfg) (t0 rest : Bytes) (s0 : S) (h0 : At t0 rest s0) (sp0 : NoTrailSP t0) :
    ShapeFrom rest t0 s0 (hLogin cfg s0).2 := by
  unfold hLogin
  have st := expectSP_at h0
  generalize S.expectSP s0 = r at st ⊢
  obtain ⟨c, t1, htc, a, h1, hc⟩ := st
  obtain ⟨v, s1⟩ := r
  have sp1 : NoTrailSP t1 := (htc ▸ sp0).suffix
  cases v
  · exact shapeFrom_stop rest t0 c t1 s0 s1 htc a h1.inp h0.lit hc
  refine shapeFrom_trans rest t0 c t1 s0 s1 _ htc a ?_
  clear htc a hc c
  dsimp only
  have st := astring_at cfg h1
  generalize S.astring cfg s1 = r at st ⊢
  obtain ⟨c, t2, htc, a, h2, hc⟩ := st
  obtain ⟨v, s2⟩ := r
  have sp2 : NoTrailSP t2 := (htc ▸ sp1).suffix
  cases v
  · exact shapeFrom_stop rest t1 c t2 s1 s2 htc a h2.inp h1.lit hc
  refine shapeFrom_trans rest t1 c t2 s1 s2 _ htc a ?_
  clear htc a hc c
  dsimp only
  have st := expectSP_at h2
  generalize S.expectSP s2 = r at st ⊢
  obtain ⟨c, t3, htc, a, h3, hc⟩ := st
  obtain ⟨v, s3⟩ := r
  have sp3 : NoTrailSP t3 := (htc ▸ sp2).suffix
  cases v
  · exact shapeFrom_stop rest t2 c t3 s2 s3 htc a h3.inp h2.lit hc
  refine shapeFrom_trans rest t2 c t3 s2 s3 _ htc a ?_
  clear htc a hc c
  dsimp only
  have st := astring_at cfg h3
  generalize S.astring cfg s3 = r at st ⊢
  obtain ⟨c, t4, htc, a, h4, hc⟩ := st
  obtain ⟨v, s4⟩ := r
  have sp4 : NoTrailSP t4 := (htc ▸ sp3).suffix
  cases v
  · exact shapeFrom_stop rest t3 c t4 s3 s4 htc a h4.inp h3.lit hc
  refine shapeFrom_trans rest t3 c t4 s3 s4 _ htc a ?_
  clear htc a hc c
  dsimp only
  rename_i u p
  exact noArgs_core (fun s => if s.st != .notAuth then (some .bad, s)
      else (none, { (s.emit (call .login [u, p])) with st := .auth }))
    (pure_of_events _ (fun s => by
      split
      · exact ⟨some .bad, [], s.st, rfl, rfl, by simp, by simp⟩
      · exact ⟨none, [call .login [u, p]], .auth, rfl, rfl, by simp [call], by simp [call]⟩))
    rest t4 _ h4.inp h4.eol h4.lit sp4

/-- SP mailbox CRLF with an atom argument -/
theorem oneMailbox_shapeFrom (cfg : Cfg) (body : Bytes → S → Option Err × S) (hb : ∀ m, BodyPure (body m))
    (t0 rest : Bytes) (s0 : S) (h0 : At t0 rest s0) (sp0 : NoTrailSP t0) :
    ShapeFrom rest t0 s0 (oneMailbox cfg s0 body).2 := by
  unfold oneMailbox
  have st := expectSP_at h0
  generalize S.expectSP s0 = r at st ⊢
  obtain ⟨c, t1, htc, a, h1, hc⟩ := st
  obtain ⟨v, s1⟩ := r
  have sp1 : NoTrailSP t1 := (htc ▸ sp0).suffix
  cases v
  · exact shapeFrom_stop rest t0 c t1 s0 s1 htc a h1.inp h0.lit hc
  refine shapeFrom_trans rest t0 c t1 s0 s1 _ htc a ?_
  clear htc a hc c
  dsimp only
  have st := mailbox_at cfg h1
  generalize S.mailbox cfg s1 = r at st ⊢
  obtain ⟨c, t2, htc, a, h2, hc⟩ := st
  obtain ⟨v, s2⟩ := r
  have sp2 : NoTrailSP t2 := (htc ▸ sp1).suffix
  cases v
  · exact shapeFrom_stop rest t1 c t2 s1 s2 htc a h2.inp h1.lit hc
  refine shapeFrom_trans rest t1 c t2 s1 s2 _ htc a ?_
  clear htc a hc c
  dsimp only
  rename_i m
  exact noArgs_core (body m) (hb m) rest t2 _ h2.inp h2.eol h2.lit sp2

theorem needAuth_pure (k : S → Option Err × S) (hk : BodyPure k) : BodyPure (fun s => needAuth s k) := by
  intro s
  show (fun r : Option Err × S => r.2.inp = s.inp ∧ r.2.pos = s.pos ∧ r.2.roles = s.roles ∧ r.2.lit = s.lit ∧
    r.2.crlf = s.crlf ∧ ∃ new, r.2.evs = new ++ s.evs ∧ new.filter isTagged = [] ∧ (∀ p, Event.cont p ∉ new) ∧
      (∀ e ∈ new, e ≠ Event.opaque)) (needAuth s k)
  unfold needAuth
  by_cases hc : checkAuth s = true
  · rw [if_pos hc]; exact hk s
  · rw [if_neg hc]; exact ⟨rfl, rfl, rfl, rfl, rfl, [], rfl, rfl, by simp, by simp⟩

theorem hSelect_shapeFrom (cfg : Cfg) (ro : Bool) (t0 rest : Bytes) (s0 : S) (h0 : At t0 rest s0)
    (sp0 : NoTrailSP t0) : ShapeFrom rest t0 s0 (hSelect cfg ro s0).2 := by
  unfold hSelect
  refine oneMailbox_shapeFrom cfg _ (fun m => needAuth_pure _ (pure_of_events _ (fun s => ?_))) t0 rest s0 h0 sp0
  dsimp only
  split
  · exact ⟨none, [call .select [m, if ro then [49] else [48]], call .unselect], .selected, rfl, rfl,
      by simp [call], by simp [call]⟩
  · exact ⟨none, [call .select [m, if ro then [49] else [48]]], .selected, rfl, rfl, by simp [call], by simp [call]⟩

theorem hMailbox_shapeFrom (cfg : Cfg) (fn : Fn) (t0 rest : Bytes) (s0 : S) (h0 : At t0 rest s0)
    (sp0 : NoTrailSP t0) : ShapeFrom rest t0 s0 (hMailbox cfg fn s0).2 := by
  unfold hMailbox
  exact oneMailbox_shapeFrom cfg _ (fun m => needAuth_pure _ (pure_of_events _ (fun s =>
    ⟨none, [call fn [m]], s.st, rfl, rfl, by simp [call], by simp [call]⟩))) t0 rest s0 h0 sp0

theorem hRename_shapeFrom (cfg : Cfg) (t0 rest : Bytes) (s0 : S) (h0 : At t0 rest s0) (sp0 : NoTrailSP t0) :
    ShapeFrom rest t0 s0 (hRename cfg s0).2 := by
  unfold hRename
  have st := expectSP_at h0
  generalize S.expectSP s0 = r at st ⊢
  obtain ⟨c, t1, htc, a, h1, hc⟩ := st
  obtain ⟨v, s1⟩ := r
  have sp1 : NoTrailSP t1 := (htc ▸ sp0).suffix
  cases v
  · exact shapeFrom_stop rest t0 c t1 s0 s1 htc a h1.inp h0.lit hc
  refine shapeFrom_trans rest t0 c t1 s0 s1 _ htc a ?_
  clear htc a hc c
  dsimp only
  have st := mailbox_at cfg h1
  generalize S.mailbox cfg s1 = r at st ⊢
  obtain ⟨c, t2, htc, a, h2, hc⟩ := st
  obtain ⟨v, s2⟩ := r
  have sp2 : NoTrailSP t2 := (htc ▸ sp1).suffix
  cases v
  · exact shapeFrom_stop rest t1 c t2 s1 s2 htc a h2.inp h1.lit hc
  refine shapeFrom_trans rest t1 c t2 s1 s2 _ htc a ?_
  clear htc a hc c
  dsimp only
  have st := expectSP_at h2
  generalize S.expectSP s2 = r at st ⊢
  obtain ⟨c, t3, htc, a, h3, hc⟩ := st
  obtain ⟨v, s3⟩ := r
  have sp3 : NoTrailSP t3 := (htc ▸ sp2).suffix
  cases v
  · exact shapeFrom_stop rest t2 c t3 s2 s3 htc a h3.inp h2.lit hc
  refine shapeFrom_trans rest t2 c t3 s2 s3 _ htc a ?_
  clear htc a hc c
  dsimp only
  have st := mailbox_at cfg h3
  generalize S.mailbox cfg s3 = r at st ⊢
  obtain ⟨c, t4, htc, a, h4, hc⟩ := st
  obtain ⟨v, s4⟩ := r
  have sp4 : NoTrailSP t4 := (htc ▸ sp3).suffix
  cases v
  · exact shapeFrom_stop rest t3 c t4 s3 s4 htc a h4.inp h3.lit hc
  refine shapeFrom_trans rest t3 c t4 s3 s4 _ htc a ?_
  clear htc a hc c
  dsimp only
  rename_i x y
  exact noArgs_core (fun s => needAuth s fun s => (none, s.emit (call .rename [x, y])))
    (needAuth_pure _ (pure_of_events _ (fun s =>
      ⟨none, [call .rename [x, y]], s.st, rfl, rfl, by simp [call], by simp [call]⟩)))
    rest t4 _ h4.inp h4.eol h4.lit sp4

/-- handlers that, on a line without DQUOTE and "{", stay on the line -/
def AtomHandler (h : Handler) : Prop :=
  ∃ f, h = .run f ∧ ∀ t rest s, At t rest s → NoTrailSP t → ShapeFrom rest t s (f s).2

theorem atom_names (cfg : Cfg) (name : Bytes)
    (h : name ∈ [k_LOGIN, k_SELECT, k_EXAMINE, k_DELETE, k_SUBSCRIBE, k_UNSUBSCRIBE, k_RENAME]) :
    AtomHandler (handlerOf cfg name) := by
  simp only [List.mem_cons, List.mem_nil_iff, or_false] at h
  rcases h with rfl | rfl | rfl | rfl | rfl | rfl | rfl
  · exact ⟨_, rfl, hLogin_shapeFrom cfg⟩
  · exact ⟨_, rfl, hSelect_shapeFrom cfg false⟩
  · exact ⟨_, rfl, hSelect_shapeFrom cfg true⟩
  · exact ⟨_, rfl, hMailbox_shapeFrom cfg .delete⟩
  · exact ⟨_, rfl, hMailbox_shapeFrom cfg .subscribe⟩
  · exact ⟨_, rfl, hMailbox_shapeFrom cfg .unsubscribe⟩
  · exact ⟨_, rfl, hRename_shapeFrom cfg⟩

/-- handlers of the form ExpectCRLF; then something that neither reads nor answers -/
def NoArgHandler (h : Handler) : Prop :=
  ∃ body, BodyPure body ∧ h = .run (fun s => noArgs s body)

theorem noArg_noop : NoArgHandler (.run hNoop) :=
  ⟨fun s => (none, s), pure_of_events _ (fun s => ⟨none, [], s.st, rfl, rfl, by simp, by simp⟩), rfl⟩

theorem noArg_logout : NoArgHandler (.run hLogout) :=
  ⟨fun s => (none, { (s.emit .bye) with st := .logout }),
   pure_of_events _ (fun s => ⟨none, [.bye], .logout, rfl, rfl, by simp, by simp⟩), rfl⟩

theorem noArg_starttls : NoArgHandler (.run hStartTLS) :=
  ⟨fun s => (some .no, s), pure_of_events _ (fun s => ⟨some .no, [], s.st, rfl, rfl, by simp, by simp⟩), rfl⟩

theorem noArg_unauthenticate : NoArgHandler (.run hUnauthenticate) := by
  refine ⟨fun s => needAuth s fun s => (none, { (s.emit (call .unauthenticate)) with st := .notAuth }), ?_, rfl⟩
  apply pure_of_events
  intro s
  unfold needAuth
  split
  · exact ⟨none, [call .unauthenticate], .notAuth, rfl, rfl, by simp [call], by simp [call]⟩
  · exact ⟨some .bad, [], s.st, rfl, rfl, by simp, by simp⟩

theorem noArg_namespace : NoArgHandler (.run hNamespace) := by
  refine ⟨fun s => needAuth s fun s => (none, s.emit (call .namespace)), ?_, rfl⟩
  apply pure_of_events
  intro s
  unfold needAuth
  split
  · exact ⟨none, [call .namespace], s.st, rfl, rfl, by simp [call], by simp [call]⟩
  · exact ⟨some .bad, [], s.st, rfl, rfl, by simp, by simp⟩

theorem noArg_unselect (b : Bool) : NoArgHandler (.run (hUnselect b)) := by
  refine ⟨fun s => if s.st != .selected then (some .bad, s)
    else
      let s := if b then s.emit (call .expunge) else s
      (none, { (s.emit (call .unselect)) with st := .auth }), ?_, rfl⟩
  apply pure_of_events
  intro s
  dsimp only
  split
  · exact ⟨some .bad, [], s.st, rfl, rfl, by simp, by simp⟩
  · cases b
    · exact ⟨none, [call .unselect], .auth, rfl, rfl, by simp [call], by simp [call]⟩
    · exact ⟨none, [call .unselect, call .expunge], .auth, rfl, rfl, by simp [call], by simp [call]⟩

theorem noArg_expunge : NoArgHandler (.run hExpunge) := by
  refine ⟨fun s => if s.st != .selected then (some .bad, s) else (none, s.emit (call .expunge)), ?_, rfl⟩
  apply pure_of_events
  intro s
  split
  · exact ⟨some .bad, [], s.st, rfl, rfl, by simp, by simp⟩
  · exact ⟨none, [call .expunge], s.st, rfl, rfl, by simp [call], by simp [call]⟩

/-- the argument-less commands of the server's table -/
theorem noArg_names (cfg : Cfg) (name : Bytes)
    (h : name ∈ [k_NOOP, k_CHECK, k_CAPABILITY, k_LOGOUT, k_STARTTLS, k_UNAUTHENTICATE, k_NAMESPACE, k_CLOSE,
      k_UNSELECT, k_EXPUNGE]) : NoArgHandler (handlerOf cfg name) := by
  simp only [List.mem_cons, List.mem_nil_iff, or_false] at h
  rcases h with rfl | rfl | rfl | rfl | rfl | rfl | rfl | rfl | rfl | rfl
  · exact noArg_noop
  · exact noArg_noop
  · exact noArg_noop
  · exact noArg_logout
  · exact noArg_starttls
  · exact noArg_unauthenticate
  · exact noArg_namespace
  · exact noArg_unselect true
  · exact noArg_unselect false
  · exact noArg_expunge

/-! ### against the RFC-side framing -/

theorem atomChar_agree : ∀ c, c < 127 → 32 ≤ c → isAtomChar c = FramingSpec.isAtomChar c := by decide

theorem takeWhile_congr (p q : Nat → Bool) : ∀ (l : Bytes), (∀ b ∈ l, p b = q b) →
    List.takeWhile p l = List.takeWhile q l := by
  intro l
  induction l with
  | nil => intro _; rfl
  | cons a t ih =>
    intro h
    simp only [List.takeWhile_cons, h a (by simp)]
    split
    · rw [ih (fun b hb => h b (by simp [hb]))]
    · rfl

/-- The server and the RFC framing on a command the server does not know: same tag, the octets the
    server consumed as command text are command text for `frame` too, and unless the line ends in a
    non-synchronising literal header both end the command at the same octet. -/
theorem unknown_command_frame (cfg : Cfg) (hfix : cfg.fx.append = true) (s0 : S) (l rest : Bytes)
    (hi : s0.inp = l ++ 13 :: 10 :: rest) (hp : ∀ b ∈ l, 32 ≤ b ∧ b ≤ 126)
    (tag name : Bytes) (s2 : S) (hh : cmdHeader s0.reset = (some (tag, name), s2))
    (hu : handlerOf cfg name = .unknown)
    (go : Nat → Bool) (hgo : go (s0.pos + l.length + 2) = false) (fuel : Nat) (f0 : FramingSpec.Frame) :
    let R := FramingSpec.frameLines go (fuel + 1) true s0.pos s0.inp f0
    ∃ s1 new, readCommand cfg s0 = (true, s1) ∧
      s1.evs = new ++ s0.evs ∧ new.filter isTagged = [Event.tagged tag .bad] ∧ (∀ p, Event.cont p ∉ new) ∧
      R.1.tag = some tag ∧
      s1.roles = List.replicate (l.length + 2) Role.text ++ s0.roles ∧
      (f0.roles ++ List.replicate (l.length + 2) FramingSpec.Role.text <+: R.1.roles) ∧
      ((FramingSpec.litHeader l = none ∨ ∃ n, FramingSpec.litHeader l = some (n, false)) →
        s1.inp = R.2 ∧ R.1.roles = f0.roles ++ List.replicate (l.length + 2) FramingSpec.Role.text ∧
          s1.pos = s0.pos + (l.length + 2)) := by
  intro R
  have hl : noEol l := fun b hb => by have := hp b hb; constructor <;> omega
  obtain ⟨s1, hrc, hinp, hpos, hroles, htag, htne, new, hnew, hfilt, hnc⟩ :=
    unknown_command_line cfg s0 l rest hi hl tag name s2 hh hu hfix
  have hspec := FramingSpec.frameLines_line go fuel true s0.pos l rest f0 hl hgo
  rw [← hi] at hspec
  obtain ⟨ht, hpre, hex⟩ := hspec
  have htagspec : FramingSpec.tagOf l = some tag := by
    unfold FramingSpec.tagOf
    have : List.takeWhile FramingSpec.isAtomChar l = tag := by
      rw [htag]
      exact (takeWhile_congr isAtomChar FramingSpec.isAtomChar l
        (fun b hb => atomChar_agree b (by have := hp b hb; omega) (hp b hb).1)).symm
    rw [this]
    cases tag with
    | nil => exact absurd rfl htne
    | cons a t => rfl
  refine ⟨s1, new, hrc, hnew, hfilt, hnc, by rw [ht rfl, htagspec], hroles, hpre, fun hc => ?_⟩
  obtain ⟨h1, h2, _⟩ := hex hc
  exact ⟨by rw [hinp, h1], h2, by rw [hpos]; omega⟩

/-- The server and the RFC framing on a command whose handler stays on the line: same tag, the
    octets the server consumed as command text are command text for `frameLines` too, and unless the
    line ends in a non-synchronising literal header both end the command at the same octet. -/
theorem line_command_frame (cfg : Cfg) (hfix : cfg.fx.append = true) (s0 : S) (l rest : Bytes)
    (hi : s0.inp = l ++ 13 :: 10 :: rest) (hp : ∀ b ∈ l, 32 ≤ b ∧ b ≤ 126)
    (tag name : Bytes) (s2 : S) (hh : cmdHeader s0.reset = (some (tag, name), s2))
    (hno : handlerOf cfg name ≠ .opaque)
    (bu : Bool) (e : Option Err) (s3 : S) (hr : runHandler name (handlerOf cfg name) s2 = (bu, e, s3))
    (hshape : ∀ t', (∃ c, l = c ++ t') → s2.inp = t' ++ 13 :: 10 :: rest → noEol t' → s2.lit = none →
      s2.crlf = false → Shape rest t' s2 s3)
    (go : Nat → Bool) (hgo : go (s0.pos + l.length + 2) = false) (fuel : Nat) (f0 : FramingSpec.Frame) :
    let R := FramingSpec.frameLines go (fuel + 1) true s0.pos s0.inp f0
    ∃ s1 new cls, readCommand cfg s0 = (true, s1) ∧
      s1.evs = new ++ s0.evs ∧ new.filter isTagged = [Event.tagged tag cls] ∧ (∀ p, Event.cont p ∉ new) ∧
      R.1.tag = some tag ∧
      s1.roles = List.replicate (l.length + 2) Role.text ++ s0.roles ∧
      (f0.roles ++ List.replicate (l.length + 2) FramingSpec.Role.text <+: R.1.roles) ∧
      ((FramingSpec.litHeader l = none ∨ ∃ n, FramingSpec.litHeader l = some (n, false)) →
        s1.inp = R.2 ∧ R.1.roles = f0.roles ++ List.replicate (l.length + 2) FramingSpec.Role.text ∧
          s1.pos = s0.pos + (l.length + 2)) := by
  intro R
  have hl : noEol l := fun b hb => by have := hp b hb; constructor <;> omega
  obtain ⟨s1, hrc, hinp, hpos, hroles, htag, htne, new, cls, hnew, hfilt, hnc⟩ :=
    command_line_generic cfg hfix s0 l rest hi hl tag name s2 hh hno bu e s3 hr hshape
  have hspec := FramingSpec.frameLines_line go fuel true s0.pos l rest f0 hl hgo
  rw [← hi] at hspec
  obtain ⟨ht, hpre, hex⟩ := hspec
  have htagspec : FramingSpec.tagOf l = some tag := by
    unfold FramingSpec.tagOf
    have : List.takeWhile FramingSpec.isAtomChar l = tag := by
      rw [htag]
      exact (takeWhile_congr isAtomChar FramingSpec.isAtomChar l
        (fun b hb => atomChar_agree b (by have := hp b hb; omega) (hp b hb).1)).symm
    rw [this]
    cases tag with
    | nil => exact absurd rfl htne
    | cons a t => rfl
  refine ⟨s1, new, cls, hrc, hnew, hfilt, hnc, by rw [ht rfl, htagspec], hroles, hpre, fun hc => ?_⟩
  obtain ⟨h1, h2, _⟩ := hex hc
  exact ⟨by rw [hinp, h1], h2, by rw [hpos]; omega⟩

theorem getLast_suffix (c t' : Bytes) (hne : t' ≠ []) : (c ++ t').getLast? = t'.getLast? := by
  rw [List.getLast?_append]
  cases h : t'.getLast? with
  | none => simp [List.getLast?_eq_none_iff] at h; exact absurd h hne
  | some x => simp

/-- class (i): the argument-less commands of the server's table, on a strict line -/
theorem noarg_command_frame (cfg : Cfg) (hfix : cfg.fx.append = true) (s0 : S) (l rest : Bytes)
    (hi : s0.inp = l ++ 13 :: 10 :: rest) (hp : ∀ b ∈ l, 32 ≤ b ∧ b ≤ 126) (hsp : l.getLast? ≠ some 32)
    (tag name : Bytes) (s2 : S) (hh : cmdHeader s0.reset = (some (tag, name), s2))
    (hna : NoArgHandler (handlerOf cfg name))
    (go : Nat → Bool) (hgo : go (s0.pos + l.length + 2) = false) (fuel : Nat) (f0 : FramingSpec.Frame) :
    let R := FramingSpec.frameLines go (fuel + 1) true s0.pos s0.inp f0
    ∃ s1 new cls, readCommand cfg s0 = (true, s1) ∧
      s1.evs = new ++ s0.evs ∧ new.filter isTagged = [Event.tagged tag cls] ∧ (∀ p, Event.cont p ∉ new) ∧
      R.1.tag = some tag ∧
      s1.roles = List.replicate (l.length + 2) Role.text ++ s0.roles ∧
      (f0.roles ++ List.replicate (l.length + 2) FramingSpec.Role.text <+: R.1.roles) ∧
      ((FramingSpec.litHeader l = none ∨ ∃ n, FramingSpec.litHeader l = some (n, false)) →
        s1.inp = R.2 ∧ R.1.roles = f0.roles ++ List.replicate (l.length + 2) FramingSpec.Role.text ∧
          s1.pos = s0.pos + (l.length + 2)) := by
  obtain ⟨body, hb, hrun⟩ := hna
  refine line_command_frame cfg hfix s0 l rest hi hp tag name s2 hh (by rw [hrun]; intro h; cases h)
    (runHandler name (handlerOf cfg name) s2).1 (runHandler name (handlerOf cfg name) s2).2.1
    (runHandler name (handlerOf cfg name) s2).2.2 rfl ?_ go hgo fuel f0
  intro t' hc hi2 ht' hl2 _
  obtain ⟨c, hct⟩ := hc
  obtain ⟨e, s3, hr, hs⟩ := noArgs_shape name body hb rest t' s2 hi2 ht' hl2
    (fun hne => by rw [← getLast_suffix c t' hne, ← hct]; exact hsp)
  rw [hrun, hr]
  exact hs

/-- class (ii-a): LOGIN, SELECT, EXAMINE, DELETE, SUBSCRIBE, UNSUBSCRIBE, RENAME whose arguments are atoms:
    a strict line that contains neither DQUOTE nor "{" -/
theorem atom_command_frame (cfg : Cfg) (hfix : cfg.fx.append = true) (s0 : S) (l rest : Bytes)
    (hi : s0.inp = l ++ 13 :: 10 :: rest) (hp : ∀ b ∈ l, 32 ≤ b ∧ b ≤ 126) (hsp : l.getLast? ≠ some 32)
    (hq : 34 ∉ l) (hbr : 123 ∉ l)
    (tag name : Bytes) (s2 : S) (hh : cmdHeader s0.reset = (some (tag, name), s2))
    (hna : AtomHandler (handlerOf cfg name))
    (go : Nat → Bool) (hgo : go (s0.pos + l.length + 2) = false) (fuel : Nat) (f0 : FramingSpec.Frame) :
    let R := FramingSpec.frameLines go (fuel + 1) true s0.pos s0.inp f0
    ∃ s1 new cls, readCommand cfg s0 = (true, s1) ∧
      s1.evs = new ++ s0.evs ∧ new.filter isTagged = [Event.tagged tag cls] ∧ (∀ p, Event.cont p ∉ new) ∧
      R.1.tag = some tag ∧
      s1.roles = List.replicate (l.length + 2) Role.text ++ s0.roles ∧
      (f0.roles ++ List.replicate (l.length + 2) FramingSpec.Role.text <+: R.1.roles) ∧
      ((FramingSpec.litHeader l = none ∨ ∃ n, FramingSpec.litHeader l = some (n, false)) →
        s1.inp = R.2 ∧ R.1.roles = f0.roles ++ List.replicate (l.length + 2) FramingSpec.Role.text ∧
          s1.pos = s0.pos + (l.length + 2)) := by
  obtain ⟨f, hrun, hf⟩ := hna
  refine line_command_frame cfg hfix s0 l rest hi hp tag name s2 hh (by rw [hrun]; intro h; cases h)
    (runHandler name (handlerOf cfg name) s2).1 (runHandler name (handlerOf cfg name) s2).2.1
    (runHandler name (handlerOf cfg name) s2).2.2 rfl ?_ go hgo fuel f0
  intro t' hc hi2 ht' hl2 _
  obtain ⟨c, hct⟩ := hc
  have hat : At t' rest (s2.emit (.dispatch name)) :=
    ⟨hi2, ht', fun h => hq (by rw [hct]; simp [h]), fun h => hbr (by rw [hct]; simp [h]), hl2⟩
  have hs := shape_of_from name rest t' s2 _ (hf t' rest _ hat
    (fun hne => by rw [← getLast_suffix c t' hne, ← hct]; exact hsp))
  rw [hrun]
  unfold runHandler
  exact hs

end GoImap.Framing
