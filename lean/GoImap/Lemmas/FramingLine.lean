import GoImap.Lemmas.FramingBridge
import GoImap.Lemmas.FramingSpecLemmas
/-
  What the server does on one command line `t CRLF rest` (no CR/LF inside `t`): the primitives of
  the command header and of the argument-less handlers never leave the line, DiscardLine consumes
  exactly the rest of it.
-/
namespace GoImap.Framing
open GoImap.FramingSpec (noEol)

/-- s' is s after consuming the octets c as command text; nothing else that matters changed -/
structure Adv (s s' : S) (c : Bytes) : Prop where
  inp : s.inp = c ++ s'.inp
  pos : s'.pos = s.pos + c.length
  roles : s'.roles = List.replicate c.length Role.text ++ s.roles
  lit : s'.lit = s.lit
  tail : s'.tail = s.tail
  st : s'.st = s.st
  evs : s'.evs = s.evs
  mute : s'.mute = s.mute

theorem Adv.refl (s : S) : Adv s s [] := ⟨by simp, by simp, by simp, rfl, rfl, rfl, rfl, rfl⟩

theorem Adv.trans {s s' s'' : S} {c1 c2 : Bytes} (h1 : Adv s s' c1) (h2 : Adv s' s'' c2) :
    Adv s s'' (c1 ++ c2) :=
  ⟨by rw [h1.inp, h2.inp, List.append_assoc], by rw [h2.pos, h1.pos, List.length_append]; omega,
   by rw [h2.roles, h1.roles, List.length_append, ← List.append_assoc, List.replicate_append_replicate,
        Nat.add_comm],
   by rw [h2.lit, h1.lit], by rw [h2.tail, h1.tail], by rw [h2.st, h1.st], by rw [h2.evs, h1.evs],
   by rw [h2.mute, h1.mute]⟩

/-- a step that stays on the current line `t CRLF rest` -/
def OnLine (s s' : S) : Prop :=
  s.lit = none → ∀ t rest, s.inp = t ++ 13 :: 10 :: rest → noEol t →
    ∃ c t', t = c ++ t' ∧ Adv s s' c

theorem OnLine.refl (s : S) : OnLine s s := fun _ t _ _ _ => ⟨[], t, by simp, Adv.refl s⟩

theorem noEol_append {a b : Bytes} (h : noEol (a ++ b)) : noEol a ∧ noEol b :=
  ⟨fun c hc => h c (by simp [hc]), fun c hc => h c (by simp [hc])⟩

theorem OnLine.trans {s s' s'' : S} (h1 : OnLine s s') (h2 : OnLine s' s'') : OnLine s s'' := by
  intro hl t rest hi ht
  obtain ⟨c1, t1, ht1, a1⟩ := h1 hl t rest hi ht
  have hi' : s'.inp = t1 ++ 13 :: 10 :: rest := by
    have := a1.inp
    rw [hi, ht1, List.append_assoc] at this
    exact (List.append_cancel_left this).symm
  have ht1' : noEol t1 := (noEol_append (ht1 ▸ ht)).2
  obtain ⟨c2, t2, ht2, a2⟩ := h2 (by rw [a1.lit, hl]) t1 rest hi' ht1'
  exact ⟨c1 ++ c2, t2, by rw [ht1, ht2, List.append_assoc], a1.trans a2⟩

/-- record updates that touch none of the tracked fields -/
theorem OnLine.of_eq {s s' : S} (h : s'.inp = s.inp ∧ s'.pos = s.pos ∧ s'.roles = s.roles ∧ s'.lit = s.lit ∧
    s'.tail = s.tail ∧ s'.st = s.st ∧ s'.evs = s.evs ∧ s'.mute = s.mute) : OnLine s s' :=
  fun _ t _ _ _ => ⟨[], t, by simp, ⟨by simp [h.1], by simp [h.2.1], by simp [h.2.2.1], h.2.2.2.1, h.2.2.2.2.1,
    h.2.2.2.2.2.1, h.2.2.2.2.2.2.1, h.2.2.2.2.2.2.2⟩⟩

theorem fail_onLine (s : S) (e : Err) : OnLine s (s.fail e) := by
  apply OnLine.of_eq
  unfold S.fail
  split <;> simp

theorem expect_onLine (s : S) (b : Bool) : OnLine s (s.expect b) := by
  unfold S.expect
  split
  · exact OnLine.refl s
  · exact fail_onLine s _

theorem look_onLine {s : S} {r s1} (h : s.look = (r, s1)) : OnLine s s1 := by
  intro hl t rest hi ht
  obtain ⟨inp, pos, err, lit, crlf, tail, ld, mute, st, evs, roles⟩ := s
  simp only at hl hi
  subst hl hi
  cases t with
  | nil =>
    simp [S.look] at h
    obtain ⟨_, rfl⟩ := h
    exact ⟨[], [], by simp, ⟨by simp, by simp, by simp, rfl, rfl, rfl, rfl, rfl⟩⟩
  | cons b t' =>
    simp [S.look] at h
    obtain ⟨_, rfl⟩ := h
    exact ⟨[], b :: t', by simp, ⟨by simp, by simp, by simp, rfl, rfl, rfl, rfl, rfl⟩⟩

theorem accept_onLine {s : S} {w : Nat} {r s1} (hw : w ≠ 13) (h : s.accept w = (r, s1)) : OnLine s s1 := by
  intro hl t rest hi ht
  obtain ⟨inp, pos, err, lit, crlf, tail, ld, mute, st, evs, roles⟩ := s
  simp only at hl hi
  subst hl hi
  cases t with
  | nil =>
    have : (13 == w) = false := by simp; omega
    simp [S.accept, S.look, this] at h
    obtain ⟨_, rfl⟩ := h
    exact ⟨[], [], by simp, ⟨by simp, by simp, by simp, rfl, rfl, rfl, rfl, rfl⟩⟩
  | cons b t' =>
    by_cases hb : b = w
    · subst hb
      simp [S.accept, S.look, S.take] at h
      obtain ⟨_, rfl⟩ := h
      exact ⟨[b], t', by simp, ⟨by simp, by simp, by simp, rfl, rfl, rfl, rfl, rfl⟩⟩
    · simp [S.accept, S.look, hb] at h
      obtain ⟨_, rfl⟩ := h
      exact ⟨[], b :: t', by simp, ⟨by simp, by simp, by simp, rfl, rfl, rfl, rfl, rfl⟩⟩

theorem takeWhile_line (valid : Nat → Bool) (hv : valid 13 = false) (t rest : Bytes) :
    List.takeWhile valid (t ++ 13 :: 10 :: rest) = List.takeWhile valid t := by
  induction t with
  | nil => simp [List.takeWhile_cons, hv]
  | cons a t ih =>
    simp only [List.cons_append, List.takeWhile_cons]
    split
    · rw [ih]
    · rfl

theorem func_onLine {s : S} {valid : Nat → Bool} {r s1} (hv : valid 13 = false) (h : s.func valid = (r, s1)) :
    OnLine s s1 := by
  intro hl t rest hi ht
  obtain ⟨inp, pos, err, lit, crlf, tail, ld, mute, st, evs, roles⟩ := s
  simp only at hl hi
  subst hl hi
  have hsplit : t = List.takeWhile valid t ++ List.dropWhile valid t := List.takeWhile_append_dropWhile.symm
  unfold S.func at h
  simp only [Option.isSome_none, Bool.false_eq_true, if_false, takeWhile_line valid hv] at h
  generalize htw : List.takeWhile valid t = tw at h hsplit
  generalize hdw : List.dropWhile valid t = dw at hsplit
  have hlen : min tw.length (t ++ 13 :: 10 :: rest).length = tw.length := by
    rw [hsplit]; simp
  have hdrop : List.drop tw.length (t ++ 13 :: 10 :: rest) = dw ++ 13 :: 10 :: rest := by
    rw [hsplit]; simp
  simp only [S.take, hlen, hdrop] at h
  have hne : (dw ++ 13 :: 10 :: rest).isEmpty = false := by cases dw <;> simp
  simp only [hne, Bool.false_eq_true, if_false] at h
  have hi2 : t ++ 13 :: 10 :: rest = tw ++ (dw ++ 13 :: 10 :: rest) := by
    rw [hsplit]; simp
  split at h <;>
    (cases h
     exact ⟨tw, dw, hsplit, ⟨hi2, rfl, rfl, rfl, rfl, rfl, rfl, rfl⟩⟩)

theorem expectAtom_onLine {s : S} {r s1} (h : s.expectAtom = (r, s1)) : OnLine s s1 := by
  unfold S.expectAtom at h
  split at h
  · rename_i a s2 heq; cases h; exact func_onLine (by decide) heq
  · rename_i s2 heq; cases h; exact (func_onLine (by decide) heq).trans (fail_onLine _ _)

theorem sp_onLine {s : S} {r s1} (h : s.sp = (r, s1)) : OnLine s s1 := by
  unfold S.sp at h
  split at h
  · rename_i s2 heq
    split at h
    · rename_i b s3 heq2; cases h; exact (accept_onLine (by decide) heq).trans (look_onLine heq2)
    · rename_i s3 heq2; cases h; exact (accept_onLine (by decide) heq).trans (look_onLine heq2)
  · rename_i s2 heq
    split at h
    · rename_i b s3 heq2; cases h; exact (accept_onLine (by decide) heq).trans (look_onLine heq2)
    · rename_i s3 heq2; cases h; exact (accept_onLine (by decide) heq).trans (look_onLine heq2)

theorem expectSP_onLine {s : S} {r s1} (h : s.expectSP = (r, s1)) : OnLine s s1 := by
  unfold S.expectSP at h
  cases h
  exact (sp_onLine rfl).trans (expect_onLine _ _)

theorem uidName_onLine {s : S} {r s1} (h : uidName s = (r, s1)) : OnLine s s1 := by
  unfold uidName at h
  split at h
  · rename_i s2 h2; cases h; exact expectSP_onLine h2
  · rename_i s2 h2
    split at h
    · rename_i s3 h3; cases h; exact (expectSP_onLine h2).trans (expectAtom_onLine h3)
    · rename_i sub s3 h3; cases h; exact (expectSP_onLine h2).trans (expectAtom_onLine h3)

theorem cmdHeader_onLine {s : S} {r s1} (h : cmdHeader s = (r, s1)) : OnLine s s1 := by
  unfold cmdHeader at h
  split at h
  · rename_i s2 h2; cases h; exact expectAtom_onLine h2
  · rename_i tag s2 h2
    split at h
    · cases h; exact (expectAtom_onLine h2).trans (fail_onLine _ _)
    · split at h
      · rename_i s3 h3; cases h; exact (expectAtom_onLine h2).trans (expectSP_onLine h3)
      · rename_i s3 h3
        split at h
        · rename_i s4 h4; cases h
          exact ((expectAtom_onLine h2).trans (expectSP_onLine h3)).trans (expectAtom_onLine h4)
        · rename_i name0 s4 h4
          have e4 := ((expectAtom_onLine h2).trans (expectSP_onLine h3)).trans (expectAtom_onLine h4)
          split at h
          · split at h
            · rename_i s5 h5; cases h; exact e4.trans (uidName_onLine h5)
            · rename_i name s5 h5; cases h; exact e4.trans (uidName_onLine h5)
          · cases h; exact e4

/-- the tag the server reads is the longest run of atom characters at the start of the line -/
theorem cmdHeader_tag {s : S} {tag name s1} (h : cmdHeader s = (some (tag, name), s1)) :
    tag = s.inp.takeWhile isAtomChar ∧ tag ≠ [] := by
  unfold cmdHeader at h
  split at h
  · cases h
  · rename_i tag' s2 h2
    have ht : tag' = s.inp.takeWhile isAtomChar ∧ tag' ≠ [] := by
      unfold S.expectAtom at h2
      split at h2
      · rename_i a s3 h3
        obtain ⟨hne, hall, hinp, _, c, r, hcr, hc⟩ := func_some h3
        cases h2
        refine ⟨?_, hne⟩
        rw [hinp, hcr]
        exact (tw_app isAtomChar _ c r hall hc).symm
      · cases h2
    split at h
    · cases h
    · split at h
      · cases h
      · split at h
        · cases h
        · split at h
          · split at h
            · cases h
            · cases h; exact ht
          · cases h; exact ht

end GoImap.Framing
