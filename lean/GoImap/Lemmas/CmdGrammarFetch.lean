/-
  C02 helper lemmas: FETCH — the item list and the command.
-/
import GoImap.Lemmas.CmdGrammarFetchAtt
namespace GoImap.CmdLemmas
open GoImap.CmdGrammar GoImap.CmdSpec

inductive FItem where
  | uid | body | bodystructure | envelope | flags | internaldate | size
  | sec (b : BodySec) | bin (b : BinSec) | binsize (p : List Int)

def FItem.wire : FItem → Wire
  | .uid => kw "UID" | .body => kw "BODY" | .bodystructure => kw "BODYSTRUCTURE" | .envelope => kw "ENVELOPE"
  | .flags => kw "FLAGS" | .internaldate => kw "INTERNALDATE" | .size => kw "RFC822.SIZE"
  | .sec b => secWire b | .bin b => binWire b | .binsize p => binSizeWire p

def FItem.set (o : FetchOpts) : FItem → FetchOpts
  | .uid => { o with uid := true }
  | .body => setBodyStructure o false
  | .bodystructure => setBodyStructure o true
  | .envelope => { o with envelope := true }
  | .flags => { o with flags := true }
  | .internaldate => { o with internalDate := true }
  | .size => { o with size := true }
  | .sec b => { o with sections := o.sections ++ [b] }
  | .bin b => { o with binary := o.binary ++ [b] }
  | .binsize p => { o with binarySize := o.binarySize ++ [p] }

def FItem.ok : FItem → Prop
  | .sec b => SecOK b
  | .bin b => BinOK b
  | .binsize p => PartOK p
  | _ => True

theorem sep_stops_att {tail : Wire} (h : Sep tail) : Stops isMsgAttNameChar tail := sep_stops _ (by decide) (by decide) h

theorem special91_sep {tail : Wire} (h : Sep tail) : special 91 tail = none := by
  cases tail with
  | nil => exact absurd h (by simp [Sep])
  | cons i r =>
    cases i <;> simp [Sep] at h
    rcases h with rfl | rfl <;> simp [special]

theorem att_span (name : String) (tail : Wire) (h : Stops isMsgAttNameChar tail)
    (hk : (str name).all isMsgAttNameChar = true := by decide) :
    span isMsgAttNameChar (atom (str name) ++ tail) = (str name, tail) :=
  span_atom isMsgAttNameChar (str name) tail (fun c hc => List.all_eq_true.mp hk c hc) h

theorem stops_bracket (r : Wire) : Stops isMsgAttNameChar (Item.b 91 :: r) := by simp [Stops]; decide

theorem fetchItemSpec : ItemSpec pFetchAtt FItem.wire FItem.set FItem.ok Sep where
  parse := by
    intro o a tail hv hsep
    have hst := sep_stops_att hsep
    have h91 := special91_sep hsep
    cases a with
    | uid => simp (decide := true) [pFetchAtt, FItem.wire, kw, att_span "UID" tail hst, FItem.set, pure, Except.pure]
    | body => simp (decide := true) [pFetchAtt, FItem.wire, kw, att_span "BODY" tail hst, FItem.set, h91, pure, Except.pure]
    | bodystructure =>
      simp (decide := true) [pFetchAtt, FItem.wire, kw, att_span "BODYSTRUCTURE" tail hst, FItem.set, pure, Except.pure]
    | envelope => simp (decide := true) [pFetchAtt, FItem.wire, kw, att_span "ENVELOPE" tail hst, FItem.set, pure, Except.pure]
    | flags => simp (decide := true) [pFetchAtt, FItem.wire, kw, att_span "FLAGS" tail hst, FItem.set, pure, Except.pure]
    | internaldate =>
      simp (decide := true) [pFetchAtt, FItem.wire, kw, att_span "INTERNALDATE" tail hst, FItem.set, pure, Except.pure]
    | size => simp (decide := true) [pFetchAtt, FItem.wire, kw, att_span "RFC822.SIZE" tail hst, FItem.set, pure, Except.pure]
    | sec b =>
      have hok : SecOK b := hv
      have hsec := pSection_w b (sliceWire b.slice ++ tail) hok
      have hpar := pPartial_w b.slice tail hok.slice hsep
      cases hpk : b.peek with
      | false =>
        rw [hpk] at hsec
        have hsp := att_span "BODY" (Item.b 91 :: (secBracket b ++ (sliceWire b.slice ++ tail))) (stops_bracket _)
        have hw : (FItem.sec b).wire ++ tail = atom (str "BODY") ++ Item.b 91 :: (secBracket b ++ (sliceWire b.slice ++ tail)) := by
          simp [FItem.wire, secWire, hpk, kw, List.append_assoc]
        rw [hw]
        unfold pFetchAtt
        rw [hsp]
        simp (decide := true) only [special_b, bind, Except.bind, hsec, hpar, FItem.set]
        simp [pure, Except.pure, ← hpk]
      | true =>
        rw [hpk] at hsec
        have hsp := att_span "BODY.PEEK" (Item.b 91 :: (secBracket b ++ (sliceWire b.slice ++ tail))) (stops_bracket _)
        have hk : kw "BODY" ++ kw ".PEEK" = atom (str "BODY.PEEK") := by decide
        have hw : (FItem.sec b).wire ++ tail = atom (str "BODY.PEEK") ++ Item.b 91 :: (secBracket b ++ (sliceWire b.slice ++ tail)) := by
          simp only [FItem.wire, secWire, hpk, if_true, ← hk, List.append_assoc, List.singleton_append, List.cons_append, List.nil_append]
        rw [hw]
        unfold pFetchAtt
        rw [hsp]
        simp (decide := true) only [pSpecial, special_b, bind, Except.bind, hsec, hpar, FItem.set]
        simp [pure, Except.pure, ← hpk]
    | bin b =>
      have hok : BinOK b := hv
      have hsec := pSectionBinary_w b.part (sliceWire b.slice ++ tail) hok.part
      have hpar := pPartial_w b.slice tail hok.slice hsep
      cases hpk : b.peek with
      | false =>
        have hsp := att_span "BINARY" (binBracket b.part ++ (sliceWire b.slice ++ tail)) (by simp [binBracket, Stops]; decide)
        have hw : (FItem.bin b).wire ++ tail = atom (str "BINARY") ++ (binBracket b.part ++ (sliceWire b.slice ++ tail)) := by
          simp [FItem.wire, binWire, hpk, kw, List.append_assoc]
        rw [hw]
        unfold pFetchAtt
        rw [hsp]
        simp (decide := true) only [bind, Except.bind, hsec, hpar, FItem.set]
        simp [pure, Except.pure, ← hpk]
      | true =>
        have hk : kw "BINARY" ++ kw ".PEEK" = atom (str "BINARY.PEEK") := by decide
        have hsp := att_span "BINARY.PEEK" (binBracket b.part ++ (sliceWire b.slice ++ tail)) (by simp [binBracket, Stops]; decide)
        have hw : (FItem.bin b).wire ++ tail = atom (str "BINARY.PEEK") ++ (binBracket b.part ++ (sliceWire b.slice ++ tail)) := by
          simp only [FItem.wire, binWire, hpk, if_true, ← hk, List.append_assoc]
        rw [hw]
        unfold pFetchAtt
        rw [hsp]
        simp (decide := true) only [bind, Except.bind, hsec, hpar, FItem.set]
        simp [pure, Except.pure, ← hpk]
    | binsize p =>
      have hok : PartOK p := hv
      have hsec := pSectionBinary_w p tail hok
      have hsp := att_span "BINARY.SIZE" (binBracket p ++ tail) (by simp [binBracket, Stops]; decide)
      have hw : (FItem.binsize p).wire ++ tail = atom (str "BINARY.SIZE") ++ (binBracket p ++ tail) := by
        simp [FItem.wire, binSizeWire, kw, List.append_assoc]
      rw [hw]
      unfold pFetchAtt
      rw [hsp]
      simp (decide := true) only [bind, Except.bind, hsec, FItem.set]
      rfl
  okClose := sep_close
  okSp := sep_sp
  notEol := by
    intro a tail _
    cases a <;> simp [FItem.wire, secWire, binWire, binSizeWire, kw, str, atom, NotEol]
  notClose := by
    intro a tail _
    cases a <;> simp [FItem.wire, secWire, binWire, binSizeWire, kw, str, atom, special]
  nonEmpty := by
    intro a _
    cases a <;> simp [FItem.wire, secWire, binWire, binSizeWire, kw, str, atom]


/-! ### the item list -/

def fItems (uid : Bool) (o : FetchOpts) : List FItem :=
  (if o.uid || uid then [.uid] else []) ++
  (match o.bodyStructure with | none => [] | some false => [.body] | some true => [.bodystructure]) ++
  (if o.envelope then [.envelope] else []) ++ (if o.flags then [.flags] else []) ++
  (if o.internalDate then [.internaldate] else []) ++ (if o.size then [.size] else []) ++
  o.sections.map .sec ++ o.binary.map .bin ++ o.binarySize.map .binsize

/-- the FETCH options the theorem covers: sections within the grammar, no MODSEQ (CONDSTORE) -/
structure FetchOK (o : FetchOpts) : Prop where
  noModSeq : o.modSeq = false
  secs : ∀ b ∈ o.sections, SecOK b
  bins : ∀ b ∈ o.binary, BinOK b
  sizes : ∀ p ∈ o.binarySize, PartOK p

theorem fItems_ok (uid : Bool) (o : FetchOpts) (h : FetchOK o) : ∀ a ∈ fItems uid o, a.ok := by
  intro a ha
  simp only [fItems, List.mem_append, List.mem_map] at ha
  rcases ha with (((((((ha | ha) | ha) | ha) | ha) | ha) | ⟨b, hb, rfl⟩) | ⟨b, hb, rfl⟩) | ⟨p, hp, rfl⟩
  · split_ifs at ha <;> simp at ha; subst ha; trivial
  · cases hbs : o.bodyStructure with
    | none => simp [hbs] at ha
    | some e => cases e <;> simp [hbs] at ha <;> subst ha <;> trivial
  · split_ifs at ha <;> simp at ha; subst ha; trivial
  · split_ifs at ha <;> simp at ha; subst ha; trivial
  · split_ifs at ha <;> simp at ha; subst ha; trivial
  · split_ifs at ha <;> simp at ha; subst ha; trivial
  · exact h.secs b hb
  · exact h.bins b hb
  · exact h.sizes p hp

theorem joinSp_append : ∀ (a b : List Wire), joinSp (a ++ b) = joinSp a ++ sepIf (a ≠ [] && b ≠ []) ++ joinSp b
  | [], b => by simp [joinSp, sepIf]
  | [x], [] => by simp [joinSp, sepIf]
  | [x], y :: t => by simp [joinSp, sepIf]
  | x :: y :: t, b => by
    have ih := joinSp_append (y :: t) b
    simp only [List.cons_append, joinSp, List.append_assoc] at ih ⊢
    rw [ih]
    simp [sepIf]

theorem mapM_secs (l : List BodySec) (h : ∀ b ∈ l, SecOK b) : l.mapM wBodySec = .ok (l.map secWire) :=
  mapM_ok l wBodySec secWire (fun b hb => wBodySec_ok b (h b hb))
theorem mapM_bins (l : List BinSec) (h : ∀ b ∈ l, BinOK b) : l.mapM wBinSec = .ok (l.map binWire) :=
  mapM_ok l wBinSec binWire (fun b hb => wBinSec_ok b (h b hb))
theorem mapM_sizes (l : List (List Int)) (h : ∀ p ∈ l, PartOK p) : l.mapM wBinSize = .ok (l.map binSizeWire) :=
  mapM_ok l wBinSize binSizeWire (fun p hp => wBinSize_ok p (h p hp))

/-- what writeFetchItems writes is the parenthesised list of the items of `fItems` -/
theorem linearise_fetchItems (uid : Bool) (o : FetchOpts) (h : FetchOK o) :
    (wFetchItems uid o).map linearise = .ok (wList ((fItems uid o).map FItem.wire)) := by
  have hm := h.noModSeq
  simp only [wFetchItems, mapM_secs o.sections h.secs, mapM_bins o.binary h.bins, mapM_sizes o.binarySize h.sizes, bind,
    Except.bind, pure, Except.pure, Except.map, linearise, List.flatMap_cons, List.flatMap_nil, Seg.lin, List.append_nil]
  have hfirst : (if (o.uid || uid) = true then [kw "UID"] else []) = ((if o.uid || uid then [FItem.uid] else []).map FItem.wire) := by
    split_ifs <;> rfl
  have hsc : fetchScalars o =
      ((match o.bodyStructure with | none => [] | some false => [FItem.body] | some true => [FItem.bodystructure]) ++
       (if o.envelope then [FItem.envelope] else []) ++ (if o.flags then [FItem.flags] else []) ++
       (if o.internalDate then [FItem.internaldate] else []) ++ (if o.size then [FItem.size] else [])).map FItem.wire := by
    obtain ⟨bs, a, b, c, d, e, f, g, i, j⟩ := o
    simp only at hm
    subst hm
    cases bs with
    | none => cases a <;> cases b <;> cases c <;> cases d <;> rfl
    | some x => cases x <;> cases a <;> cases b <;> cases c <;> cases d <;> rfl
  have htail : o.sections.map secWire ++ o.binary.map binWire ++ o.binarySize.map binSizeWire =
      (o.sections.map FItem.sec ++ o.binary.map FItem.bin ++ o.binarySize.map FItem.binsize).map FItem.wire := by
    simp [List.map_append, List.map_map, Function.comp_def, FItem.wire]
  have hR : (fItems uid o).map FItem.wire =
      ((if o.uid || uid then [FItem.uid] else []).map FItem.wire) ++
      (((match o.bodyStructure with | none => [] | some false => [FItem.body] | some true => [FItem.bodystructure]) ++
       (if o.envelope then [FItem.envelope] else []) ++ (if o.flags then [FItem.flags] else []) ++
       (if o.internalDate then [FItem.internaldate] else []) ++ (if o.size then [FItem.size] else [])).map FItem.wire) ++
      ((o.sections.map FItem.sec ++ o.binary.map FItem.bin ++ o.binarySize.map FItem.binsize).map FItem.wire) := by
    simp only [fItems, List.map_append, List.append_assoc]
  rw [hfirst, hsc, htail, hR]
  generalize ((if o.uid || uid then [FItem.uid] else []).map FItem.wire) = A
  generalize (((match o.bodyStructure with | none => [] | some false => [FItem.body] | some true => [FItem.bodystructure]) ++
       (if o.envelope then [FItem.envelope] else []) ++ (if o.flags then [FItem.flags] else []) ++
       (if o.internalDate then [FItem.internaldate] else []) ++ (if o.size then [FItem.size] else [])).map FItem.wire) = B
  generalize ((o.sections.map FItem.sec ++ o.binary.map FItem.bin ++ o.binarySize.map FItem.binsize).map FItem.wire) = C
  have hAB : decide (A ++ B ≠ []) = (decide (A ≠ []) || decide (B ≠ [])) := by
    cases A <;> cases B <;> simp
  unfold wList
  rw [joinSp_append (A ++ B) C, joinSp_append A B, hAB]
  simp [List.append_assoc]

theorem foldl_sec (l : List BodySec) (o : FetchOpts) :
    (l.map FItem.sec).foldl FItem.set o = { o with sections := o.sections ++ l } := by
  induction l generalizing o with
  | nil => simp
  | cons a t ih => simp [ih, FItem.set]

theorem foldl_bin (l : List BinSec) (o : FetchOpts) :
    (l.map FItem.bin).foldl FItem.set o = { o with binary := o.binary ++ l } := by
  induction l generalizing o with
  | nil => simp
  | cons a t ih => simp [ih, FItem.set]

theorem foldl_binsize (l : List (List Int)) (o : FetchOpts) :
    (l.map FItem.binsize).foldl FItem.set o = { o with binarySize := o.binarySize ++ l } := by
  induction l generalizing o with
  | nil => simp
  | cons a t ih => simp [ih, FItem.set]

theorem foldl_fItems (uid : Bool) (o : FetchOpts) (h : o.modSeq = false) :
    (fItems uid o).foldl FItem.set {} = { o with uid := o.uid || uid } := by
  obtain ⟨bs, a, b, c, d, e, f, g, i, j⟩ := o
  simp only at h
  subst h
  simp only [fItems, List.foldl_append, foldl_sec, foldl_bin, foldl_binsize]
  cases bs with
  | none => cases a <;> cases b <;> cases c <;> cases d <;> cases e <;> cases uid <;> simp [FItem.set]
  | some x => cases x <;> cases a <;> cases b <;> cases c <;> cases d <;> cases e <;> cases uid <;> simp [FItem.set, setBodyStructure]

/-- FETCH / UID FETCH -/
theorem fetch_fidelity (cfg : Cfg) (tag : Nat) (uid : Bool) (s : NSet) (o : FetchOpts)
    (hs : SetOK s) (hnf : SetNF s) (ho : FetchOK o) :
    roundTrip {} cfg tag (.fetch uid s o) = .calls (sem cfg (.fetch uid s o)) := by
  have hlin := linearise_fetchItems uid o ho
  cases hwf : wFetchItems uid o with
  | error e => rw [hwf] at hlin; simp [Except.map] at hlin
  | ok segs =>
    rw [hwf] at hlin
    simp only [Except.map, Except.ok.injEq] at hlin
    have hw : wBody {} cfg (.fetch uid s o) = .ok [[.fixed (uidName uid "FETCH" ++ sp ++ atom s.text ++ sp)] ++ segs] := by
      simp [wBody, wNumSet_ok s hs, hwf, bind, Except.bind, pure, Except.pure]
    unfold roundTrip
    rw [printCmd_single _ _ _ _ _ hw]
    have hl2 : linearise ([Seg.fixed ([.b 84] ++ atom (digits tag) ++ sp)] ++
        ([Seg.fixed (uidName uid "FETCH" ++ sp ++ atom s.text ++ sp)] ++ segs) ++ [Seg.fixed crlf]) =
        tagW tag ++ (uidName uid "FETCH" ++ (sp ++ (atom s.text ++ (sp ++ (wList ((fItems uid o).map FItem.wire) ++ crlf))))) := by
      simp only [linearise, List.flatMap_append, List.flatMap_cons, List.flatMap_nil, Seg.lin] at hlin ⊢
      simp [hlin, tagW, List.append_assoc]
    simp only [List.map_cons, List.map_nil, hl2, parseCmds, bind, Except.bind]
    rw [parse_uidName cfg tag uid "FETCH" _ (isName_kw "FETCH") (by decide) (stops_sp_atom _), dispatch_fetch]
    have hlist := pListOpt_wList fetchItemSpec (fItems uid o) (fItems_ok uid o ho) {} crlf
    rw [foldl_fItems uid o ho.noModSeq] at hlist
    simp only [one, pFetch, bind, Except.bind, pSP_sp _ (notEol_text s _ hs), pNumSet_text s _ hs (stops_sp_numset _),
      pSP_sp _ (notEol_wList _ _), hlist, pCRLF_crlf_nil]
    cases uid <;> simp [sem, semRaw, canon, canonNSet_nf s hnf, pure, Except.pure]

end GoImap.CmdLemmas
