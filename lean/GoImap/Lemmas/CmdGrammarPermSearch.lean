/-
  C02 helper lemmas: SEARCH with its RETURN options written in any order.
-/
import GoImap.Lemmas.CmdGrammarPerm
namespace GoImap.CmdLemmas
open GoImap.CmdGrammar GoImap.CmdSpec

theorem ropt_comm (a b : ROpt) (x : SearchOpts) : ROpt.set (ROpt.set x a) b = ROpt.set (ROpt.set x b) a := by
  cases a <;> cases b <;> rfl

/-- SEARCH with a RETURN list written in the order `l` -/
theorem parse_search_ret (cfg : Cfg) (tag : Nat) (uid : Bool) (c : Crit) (l : List ROpt) (os : SearchOpts) (cs : Bool)
    (hok : CritOK c) (hd : depth c < maxListDepth) (hl : l.foldl ROpt.set {} = os) :
    parseOne cfg (tagW tag ++ (uidName uid "SEARCH" ++ (sp ++ (atom (str "RETURN") ++ (sp ++ (wList (l.map ROpt.wire) ++
      (sp ++ (afterOpts cs c ++ crlf)))))))) = .ok ([.search uid (delivCrit c) (canonSearchOpts (some os))], []) := by
  rw [parse_uidName cfg tag uid "SEARCH" _ (isName_kw "SEARCH") (by decide) (stops_sp_atom _), dispatch_search]
  have hsp : span isSearchAtomChar (atom (str "RETURN") ++ (sp ++ (wList (l.map ROpt.wire) ++ (sp ++ (afterOpts cs c ++ crlf))))) =
      (str "RETURN", sp ++ (wList (l.map ROpt.wire) ++ (sp ++ (afterOpts cs c ++ crlf)))) :=
    span_atom _ _ _ (by decide) (stops_sp _ (by decide) _)
  have hlist := pList_wList rOptSpec l (fun _ _ => trivial) {} (sp ++ (afterOpts cs c ++ crlf))
  rw [hl] at hlist
  have hrest := pSearchRest_w uid os cs c hok hd
  have hu : upper (str "RETURN") = str "RETURN" := by decide
  simp (decide := true) only [one, pSearch, bind, Except.bind, pSP_sp _ (notEol_atom (str "RETURN") _ (by decide) (by decide)), hsp, hu,
    if_true, pSP_sp _ (notEol_wList _ _), hlist, pSP_sp _ (notEol_afterOpts cs c crlf), hrest]
  simp [pure, Except.pure]

/-- SEARCH without RETURN -/
theorem parse_search_noret (cfg : Cfg) (tag : Nat) (uid : Bool) (c : Crit) (cs : Bool)
    (hok : CritOK c) (hd : depth c < maxListDepth) :
    parseOne cfg (tagW tag ++ (uidName uid "SEARCH" ++ (sp ++ (afterOpts cs c ++ crlf)))) =
      .ok ([.search uid (delivCrit c) (canonSearchOpts (some {}))], []) := by
  rw [parse_uidName cfg tag uid "SEARCH" _ (isName_kw "SEARCH") (by decide) (stops_sp_atom _), dispatch_search]
  have hnoret : ∀ a0 r1, span isSearchAtomChar (afterOpts cs c ++ crlf) = (a0, r1) → (a0 ≠ [] && upper a0 = str "RETURN") = false := by
    intro a0 r1 h
    obtain ⟨r, hr⟩ := critWire_cons c
    cases hcs : cs with
    | false =>
      simp only [afterOpts, hcs, Bool.false_eq_true, if_false, List.nil_append, hr, List.cons_append] at h
      rw [span_paren _ (by decide)] at h
      cases h; simp
    | true =>
      have hk : kw "CHARSET UTF-8 " = atom (str "CHARSET") ++ (sp ++ (atom (str "UTF-8") ++ sp)) := by decide
      simp only [afterOpts, hcs, if_true, hk, List.append_assoc] at h
      rw [span_atom _ _ _ (by decide) (stops_sp _ (by decide) _)] at h
      cases h; decide
  have hrest := pSearchRest_w uid {} cs c hok hd
  simp only [one, pSearch, bind, Except.bind, pSP_sp _ (notEol_afterOpts cs c crlf)]
  rw [hnoret _ _ rfl]
  simp only [Bool.false_eq_true, if_false, hrest]
  simp [pure, Except.pure]

/-- SEARCH / UID SEARCH: delivered whatever order the RETURN options are written in.  The criteria arrive in
    canonical form with every number set as `ParseSet` builds it (`delivCrit`) -/
theorem search_delivers (cfg : Cfg) (tag : Nat) (uid : Bool) (c : Crit) (o : Option SearchOpts) (hok : CritOK c)
    (hd : depth c < maxListDepth) :
    Delivers {} cfg tag (.search uid c o) [.search uid (delivCrit c) (canonSearchOpts o)] := by
  let os := o.getD {}
  let cs : Bool := cfg.needCharset && !critIsAscii c
  have hsem : [Cmd.search uid (delivCrit c) (canonSearchOpts o)] = [.search uid (delivCrit c) (canonSearchOpts (some os))] := by
    cases o <;> rfl
  have hw : wBody {} cfg (.search uid c o) =
      .ok [[.fixed (uidName uid "SEARCH" ++ (if (rOpts os).map ROpt.wire = [] then [] else sp ++ kw "RETURN" ++ sp ++ [.b 40]))] ++
           (if (rOpts os).map ROpt.wire = [] then [] else [.anyOrder ((rOpts os).map ROpt.wire), .fixed [.b 41]]) ++
           [.fixed (sp ++ (if cs then kw "CHARSET UTF-8 " else []) ++ critWire c)]] := by
    cases o with
    | none =>
      simp only [wBody, wCrit_ok c hok, bind, Except.bind, pure, Except.pure, Bool.false_eq_true, if_false]
      rfl
    | some o' =>
      simp only [wBody, wCrit_ok c hok, bind, Except.bind, pure, Except.pure, Bool.false_eq_true, if_false, searchReturnItems_eq]
      rfl
  rw [hsem]
  apply delivers_single cfg tag _ _ _ hw
  intro w hl
  by_cases hnil : rOpts os = []
  · have hos : os = {} := by
      have := foldl_rOpts os
      rw [hnil] at this
      exact this.symm
    simp only [hnil, List.map_nil, if_true, List.append_nil, List.singleton_append, List.nil_append] at hl
    obtain ⟨w1, rfl, h1⟩ := lin_fixed_cons hl
    obtain ⟨w2, rfl, h2⟩ := lin_fixed_cons h1
    have := lin_nil h2
    subst this
    have := parse_search_noret cfg tag uid c cs hok hd
    simp only [afterOpts, List.append_assoc, List.append_nil] at this ⊢
    rw [this, hos]
  · have hne : ¬ ((rOpts os).map ROpt.wire = []) := by simpa using hnil
    simp only [hne, if_false, List.singleton_append, List.cons_append, List.nil_append] at hl
    obtain ⟨w1, rfl, h1⟩ := lin_fixed_cons hl
    obtain ⟨perm, w2, hperm, rfl, h2⟩ := lin_any_cons h1
    obtain ⟨w3, rfl, h3⟩ := lin_fixed_cons h2
    obtain ⟨w4, rfl, h4⟩ := lin_fixed_cons h3
    have := lin_nil h4
    subst this
    obtain ⟨l, hl', rfl⟩ := perm_map_inv ROpt.wire hperm (rOpts os) rfl
    have hfold : l.foldl ROpt.set {} = os := by
      rw [foldl_perm_comm ROpt.set ropt_comm hl', foldl_rOpts]
    have := parse_search_ret cfg tag uid c l os cs hok hd hfold
    simp only [afterOpts, wList, kw, List.append_assoc, List.append_nil] at this ⊢
    rw [this]


theorem search_fidelity (cfg : Cfg) (tag : Nat) (uid : Bool) (c : Crit) (o : Option SearchOpts) (hok : CritOK c)
    (hd : depth c < maxListDepth) :
    roundTrip {} cfg tag (.search uid c o) = .calls [.search uid (delivCrit c) (canonSearchOpts o)] :=
  roundTrip_of_delivers cfg tag _ _ (search_delivers cfg tag uid c o hok hd)

/-! ### criteria whose sets are canonical: what is delivered is the specification's `sem` -/

structure FlatNF (f : Flat) : Prop where
  seq : ∀ s ∈ f.seqSets, SetOK s ∧ SetNF s
  uid : ∀ s ∈ f.uidSets, SetOK s ∧ SetNF s

mutual
  def CritNF : Crit → Prop
    | .mk f nots ors => FlatNF f ∧ NotsNF nots ∧ OrsNF ors
  def NotsNF : CritList → Prop
    | .nil => True
    | .cons c t => CritNF c ∧ NotsNF t
  def OrsNF : OrList → Prop
    | .nil => True
    | .cons a b t => CritNF a ∧ CritNF b ∧ OrsNF t
end

theorem map_deliv_eq_canon (l : List NSet) (h : ∀ s ∈ l, SetOK s ∧ SetNF s) : l.map delivN = l.map canonNSet := by
  apply List.map_congr_left
  intro s hs
  rw [delivN_canon s (h s hs).1, canonNSet_nf s (h s hs).2]

mutual
  theorem delivCrit_eq_canon : ∀ (c : Crit), CritNF c → delivCrit c = canonCrit c
    | .mk f nots ors, h => by
      unfold CritNF at h
      simp only [delivCrit, canonCrit, delivFlat, map_deliv_eq_canon f.seqSets h.1.seq, map_deliv_eq_canon f.uidSets h.1.uid,
        delivNots_eq_canon nots h.2.1, delivOrs_eq_canon ors h.2.2]
      rfl
  theorem delivNots_eq_canon : ∀ (l : CritList), NotsNF l → delivNots l = canonNots l
    | .nil, _ => rfl
    | .cons c t, h => by
      unfold NotsNF at h
      simp only [delivNots, canonNots, delivCrit_eq_canon c h.1, delivNots_eq_canon t h.2]
  theorem delivOrs_eq_canon : ∀ (l : OrList), OrsNF l → delivOrs l = canonOrs l
    | .nil, _ => rfl
    | .cons a b t, h => by
      unfold OrsNF at h
      simp only [delivOrs, canonOrs, delivCrit_eq_canon a h.1, delivCrit_eq_canon b h.2.1, delivOrs_eq_canon t h.2.2]
end

theorem search_sem (cfg : Cfg) (uid : Bool) (c : Crit) (o : Option SearchOpts) (h : CritNF c) :
    [Cmd.search uid (delivCrit c) (canonSearchOpts o)] = sem cfg (.search uid c o) := by
  rw [delivCrit_eq_canon c h]
  rfl

end GoImap.CmdLemmas
