/-
  Helper lemmas for C09: the partial-range arithmetic of message.go bodySection.
-/
import GoImap.Model.Mailbox
import Mathlib.Tactic.SplitIfs
namespace GoImap.MailboxLemmas
open GoImap GoImap.Mailbox

theorem slice_ok_of_bounds (b : Str) (lo : Nat) (hi : Int) (h1 : (lo : Int) ≤ hi) (h2 : hi ≤ (b.length : Int)) :
    slice b lo hi = .ok ((b.take hi.toNat).drop lo) := by
  unfold slice
  rw [if_neg]
  omega

/-- after the repair no offset/size pair makes the slice expression panic -/
theorem applyPartial_ne_panic (b : Str) (off sz : Nat) : applyPartial b off sz ≠ .panic := by
  unfold applyPartial
  simp only
  split_ifs with h1 h2
  · intro h; cases h
  · rw [slice_ok_of_bounds b off _ (by omega) (by omega)]; intro h; cases h
  · rw [slice_ok_of_bounds b off _ (by omega) (by omega)]; intro h; cases h

/-- what the repaired code returns: the bytes from `off` up to `off+sz`, clipped to the section -/
theorem applyPartial_eq (b : Str) (off sz : Nat) (hb : b.length < I63) (hs : sz < I63) :
    applyPartial b off sz = .ok (if off > b.length then [] else (b.drop off).take sz) := by
  unfold applyPartial
  simp only
  by_cases h1 : off > b.length
  · rw [if_pos h1, if_pos h1]
  · rw [if_neg h1, if_neg h1]
    have hlen : off ≤ b.length := by omega
    by_cases h2 : add64 off sz > (b.length : Int) ∨ add64 off sz < (off : Int)
    · rw [if_pos h2, slice_ok_of_bounds b off _ (by omega) (by omega)]
      congr 1
      have hsz : b.length - off ≤ sz := by
        unfold add64 at h2
        unfold I63 W64 at *
        split_ifs at h2 <;> omega
      rw [Int.toNat_natCast, List.take_length, List.take_of_length_le (by simp; omega)]
    · rw [if_neg h2]
      have hlt : off + sz < I63 := by
        unfold add64 at h2
        unfold I63 W64 at *
        split_ifs at h2 with h3
        · exact h3
        · exfalso; omega
      have he : add64 off sz = ((off + sz : Nat) : Int) := by unfold add64; rw [if_pos hlt]
      rw [he] at h2 ⊢
      rw [slice_ok_of_bounds b off _ (by omega) (by omega)]
      congr 1
      rw [Int.toNat_natCast, List.drop_take]
      congr 1
      omega

end GoImap.MailboxLemmas
