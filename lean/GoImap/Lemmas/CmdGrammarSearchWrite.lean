/-
  C02 helper lemmas: `writeSearchKey` produces the key list of `critItems`; the nesting budget the
  reader derives from the length of the line is enough.
-/
import GoImap.Lemmas.CmdGrammarSearchFold
namespace GoImap.CmdLemmas
open GoImap.CmdGrammar GoImap.CmdSpec

theorem mapM_ok {α β ε : Type} (l : List α) (g : α → Except ε β) (h : α → β) (hg : ∀ a ∈ l, g a = .ok (h a)) :
    l.mapM g = .ok (l.map h) := by
  induction l with
  | nil => rfl
  | cons a t ih =>
    have := ih (fun x hx => hg x (by simp [hx]))
    simp [List.mapM_cons, hg a (by simp), this, bind, Except.bind, pure, Except.pure]

theorem wSearchFlag_pos (fl : Str) (h : FlagOK fl) : wSearchFlag "" fl = .ok (flagItem fl).1 := by
  unfold wSearchFlag flagItem
  cases hk : flagSearchKey fl with
  | some k => simp [kw, str, atom]
  | none => simp [wFlag_ok fl h, bind, Except.bind, pure, Except.pure, kw, str, atom]

theorem wSearchFlag_neg (fl : Str) (h : FlagOK fl) : wSearchFlag "UN" fl = .ok (notFlagItem fl).1 := by
  unfold wSearchFlag notFlagItem
  cases hk : flagSearchKey fl with
  | some k => simp
  | none =>
    have : kw "UN" ++ kw "KEYWORD" = kw "UNKEYWORD" := by decide
    simp [wFlag_ok fl h, bind, Except.bind, pure, Except.pure, ← this, List.append_assoc]

theorem wDatePair_recv (s b : Date) : wDatePair onRule "ON" "SINCE" "BEFORE" s b = (recvDateItems s b).map (·.1) := by
  unfold wDatePair recvDateItems
  split_ifs <;> simp

theorem wDatePair_sent (s b : Date) : wDatePair onRule "SENTON" "SENTSINCE" "SENTBEFORE" s b = (sentDateItems s b).map (·.1) := by
  unfold wDatePair sentDateItems
  split_ifs <;> simp

theorem wHeader_eq (kv : Str × Str) : wHeader kv = (headerItem kv).1 := by
  unfold wHeader headerItem
  split_ifs <;> simp [List.append_assoc]

theorem all_wire : kw "(ALL)" = wList [kw "ALL"] := by decide

theorem map_fst_nil (l : List KI) : l.map (·.1) = [] ↔ l.isEmpty = true := by
  cases l <;> simp

mutual
  theorem wCrit_ok : ∀ (c : Crit), CritOK c → wCrit onRule c = .ok (critWire c)
    | .mk f nots ors, hok => by
      unfold CritOK at hok
      obtain ⟨hf, hn, ho⟩ := hok
      have h1 := mapM_ok f.seqSets wNumSet (fun s => atom s.text) (fun s hs => (setReads_lit s (hf.seq s hs).1).write)
      have h2 := mapM_ok f.uidSets (fun s => do let w ← wNumSet s; pure (kw "UID" ++ sp ++ w)) (fun s => kw "UID" ++ sp ++ atom s.text)
        (fun s hs => by simp [(setReads_lit s (hf.uid s hs)).write, bind, Except.bind, pure, Except.pure])
      have h3 := mapM_ok f.flags (wSearchFlag "") (fun fl => (flagItem fl).1) (fun fl hfl => wSearchFlag_pos fl (hf.flags fl hfl))
      have h4 := mapM_ok f.notFlags (wSearchFlag "UN") (fun fl => (notFlagItem fl).1) (fun fl hfl => wSearchFlag_neg fl (hf.notFlags fl hfl))
      have h5 := wNots_ok nots hn
      have h6 := wOrs_ok ors ho
      have hitems : f.seqSets.map (fun s => atom s.text) ++ f.uidSets.map (fun s => kw "UID" ++ sp ++ atom s.text) ++
          wDatePair onRule "ON" "SINCE" "BEFORE" f.since f.before ++
          wDatePair onRule "SENTON" "SENTSINCE" "SENTBEFORE" f.sentSince f.sentBefore ++
          f.header.map wHeader ++ f.body.map (fun s => kw "BODY" ++ sp ++ [Item.s s]) ++
          f.text.map (fun s => kw "TEXT" ++ sp ++ [Item.s s]) ++ f.flags.map (fun fl => (flagItem fl).1) ++
          f.notFlags.map (fun fl => (notFlagItem fl).1) ++
          (if f.larger > 0 then [kw "LARGER" ++ sp ++ atom (digits f.larger.toNat)] else []) ++
          (if f.smaller > 0 then [kw "SMALLER" ++ sp ++ atom (digits f.smaller.toNat)] else []) ++
          (notItems nots).map (·.1) ++ (orItems ors).map (·.1) =
          (flatItems f ++ notItems nots ++ orItems ors).map (·.1) := by
        simp only [flatItems, List.map_append, List.map_map, wDatePair_recv, wDatePair_sent, largerItems, smallerItems]
        have e1 : (fun s => atom s.text) = ((fun x : KI => x.1) ∘ seqItem) := rfl
        have e2 : (fun s => kw "UID" ++ sp ++ atom s.text) = ((fun x : KI => x.1) ∘ uidItem) := rfl
        have e3 : wHeader = ((fun x : KI => x.1) ∘ headerItem) := funext wHeader_eq
        have e4 : (fun s => kw "BODY" ++ sp ++ [Item.s s]) = ((fun x : KI => x.1) ∘ bodyItem) := rfl
        have e5 : (fun s => kw "TEXT" ++ sp ++ [Item.s s]) = ((fun x : KI => x.1) ∘ textItem) := rfl
        have e6 : (fun fl => (flagItem fl).1) = ((fun x : KI => x.1) ∘ flagItem) := rfl
        have e7 : (fun fl => (notFlagItem fl).1) = ((fun x : KI => x.1) ∘ notFlagItem) := rfl
        rw [e1, e2, e3, e4, e5, e6, e7]
        by_cases hl : f.larger > 0 <;> by_cases hs : f.smaller > 0 <;> simp [hl, hs]
      simp only [bind, Except.bind, pure, Except.pure] at h2
      unfold wCrit
      simp only [bind, Except.bind, pure, Except.pure, h1, h2, h3, h4, h5, h6]
      rw [hitems]
      unfold critWire orAll
      generalize (flatItems f ++ notItems nots ++ orItems ors) = L
      cases L with
      | nil => simp [all_wire]
      | cons a t => simp
  theorem wNots_ok : ∀ (nots : CritList), NotsOK nots → wNots onRule nots = .ok ((notItems nots).map (·.1))
    | .nil, _ => rfl
    | .cons c t, hok => by
      unfold NotsOK at hok
      unfold wNots notItems
      simp [wCrit_ok c hok.1, wNots_ok t hok.2, bind, Except.bind, pure, Except.pure]
  theorem wOrs_ok : ∀ (ors : OrList), OrsOK ors → wOrs onRule ors = .ok ((orItems ors).map (·.1))
    | .nil, _ => rfl
    | .cons a b t, hok => by
      unfold OrsOK at hok
      unfold wOrs orItems
      simp [wCrit_ok a hok.1, wCrit_ok b hok.2.1, wOrs_ok t hok.2.2, bind, Except.bind, pure, Except.pure, List.append_assoc]
end

end GoImap.CmdLemmas
