/-
  Splitting a canonical set at the index found by `search`: everything before is `less`,
  the first element after is not.
-/
import GoImap.Lemmas.NumSetInsertShape
namespace GoImap.NumSet

theorem insert_split (s : Set) (lo : Nat) (h : CanonFrom lo s) (v : Range) :
    ∃ pre post, s = pre ++ post ∧
      (∀ r ∈ pre, r.less v.start = true) ∧
      (∀ c rest, post = c :: rest → c.less v.start = false) ∧
      InsShape pre post v (insert s v) := by
  have hm := canon_mono s lo h v.start
  obtain ⟨h1, h2, h3, _⟩ := search_spec s v.start hm
  rw [insert_eq]
  generalize (search s v.start).1 = i at h1 h2 h3
  refine ⟨s.take i, s.drop i, (List.take_append_drop i s).symm, ?_, ?_, ?_⟩
  · intro r hr
    obtain ⟨j, hj, rfl⟩ := List.getElem_of_mem hr
    have hj' : j < i := by
      rw [List.length_take] at hj; omega
    have := h2 j hj'
    rw [getD_eq_getElem s j (by omega)] at this
    simpa using this
  · intro c rest e
    have hlen : i < s.length := by
      have : (s.drop i).length = (c :: rest).length := by rw [e]
      rw [List.length_drop] at this
      simp at this; omega
    have := h3 hlen
    rw [getD_eq_getElem s i hlen] at this
    have hc : (s.drop i)[0]'(by rw [List.length_drop]; omega) = c := by simp [e]
    rw [List.getElem_drop] at hc
    simpa [← hc] using this
  · have hl : (s.take i).length = i := by rw [List.length_take]; omega
    have := insertIdx_shape (s.take i) (s.drop i) v
    rwa [List.take_append_drop, hl] at this

end GoImap.NumSet
