/-
  C18 helper lemmas, part 2: what the scanner of Spec/ClientSyntax does on the byte shapes the
  encoder produces — plain bytes, a quoted string, a literal header, a literal payload.
-/
import GoImap.Lemmas.Wire
import GoImap.Lemmas.ClientSyntaxCaps
namespace GoImap.ClientSyntaxLemmas
open GoImap.Wire (quoteBody encQuoted litHeader digits isDigit Cfg Side valOf digits_isDigit valOf_digits digits_ne_nil)
open GoImap.ClientSyntax
open GoImap.ClientSyntaxSpec

/-- bytes that keep the scanner between tokens / inside an atom -/
def plainByte (b : Nat) : Bool := b ≠ 34 && b ≠ 123 && b ≠ 13 && b ≠ 10

theorem scanFrom_append (cs rs : List Nat) (S : St) (x y : List Nat) :
    scanFrom cs rs S (x ++ y) = scanFrom cs rs (scanFrom cs rs S x) y := by
  unfold scanFrom; exact List.foldl_append

theorem scanFrom_cons (cs rs : List Nat) (S : St) (b : Nat) (x : List Nat) :
    scanFrom cs rs S (b :: x) = scanFrom cs rs (step cs rs S b) x := rfl

theorem scanFrom_nil (cs rs : List Nat) (S : St) : scanFrom cs rs S [] = S := rfl

/-- the scanner is between tokens after `p` bytes and every token so far satisfies `P` -/
structure Line (P : Tok → Prop) (S : St) (p : Nat) : Prop where
  mode : S.mode = .line
  pos : S.pos = p
  toks : ∀ t ∈ S.toks, P t

theorem flushAtom_mode (S : St) : S.flushAtom.mode = S.mode := by
  unfold St.flushAtom; split <;> rfl
theorem flushAtom_pos (S : St) : S.flushAtom.pos = S.pos := by
  unfold St.flushAtom; split <;> rfl
theorem flushAtom_num (S : St) : S.flushAtom.num = S.num := by
  unfold St.flushAtom; split <;> rfl
theorem flushAtom_cur (S : St) : S.flushAtom.cur = [] := by
  unfold St.flushAtom; split
  · rename_i h; simpa using h
  · rfl
theorem flushAtom_toks (P : Tok → Prop) (hA : ∀ b, P (.atom b)) (S : St) (h : ∀ t ∈ S.toks, P t) :
    ∀ t ∈ S.flushAtom.toks, P t := by
  unfold St.flushAtom; split
  · exact h
  · intro t ht
    simp only [List.mem_cons] at ht
    cases ht with
    | inl e => rw [e]; exact hA _
    | inr m => exact h t m

theorem step_plain (cs rs : List Nat) (P : Tok → Prop) (hA : ∀ b, P (.atom b)) (S : St) (p b : Nat)
    (hb : plainByte b = true) (h : Line P S p) : Line P (step cs rs S b) (p + 1) := by
  unfold plainByte at hb
  simp only [Bool.and_eq_true, decide_eq_true_eq, ne_eq] at hb
  obtain ⟨⟨⟨h34, h123⟩, h13⟩, h10⟩ := hb
  unfold step
  rw [h.mode]
  simp only [h34, h123, h13, h10, if_false]
  split
  · refine ⟨?_, ?_, ?_⟩
    · rw [flushAtom_mode]
    · rw [flushAtom_pos]; show S.pos + 1 = _; rw [h.pos]
    · exact flushAtom_toks P hA _ h.toks
  · refine ⟨rfl, ?_, ?_⟩
    · show S.pos + 1 = _; rw [h.pos]
    · exact h.toks

/-- plain bytes leave the scanner between tokens; at most atoms are added -/
theorem scan_plain (cs rs : List Nat) (P : Tok → Prop) (hA : ∀ b, P (.atom b)) (bs : List Nat)
    (hb : ∀ b ∈ bs, plainByte b = true) (S : St) (p : Nat) (h : Line P S p) :
    Line P (scanFrom cs rs S bs) (p + bs.length) := by
  induction bs generalizing S p with
  | nil => simpa [scanFrom_nil] using h
  | cons b bs ih =>
    rw [scanFrom_cons]
    have h1 := step_plain cs rs P hA S p b (hb b (List.mem_cons_self ..)) h
    have := ih (fun x hx => hb x (List.mem_cons_of_mem _ hx)) _ _ h1
    simpa [Nat.add_assoc, Nat.add_comm 1] using this

/-! ### quoted strings -/

/-- inside quotes, the body written by `Encoder.Quoted` is consumed whole and the scanner is again
    outside an escape -/
theorem St.ext' {a b : St} (h1 : a.mode = b.mode) (h2 : a.pos = b.pos) (h3 : a.cur = b.cur) (h4 : a.num = b.num)
    (h5 : a.eight = b.eight) (h6 : a.toks = b.toks) : a = b := by
  cases a; cases b; simp_all

theorem scan_quoteBody (cs rs : List Nat) (s : Wire.Bytes) (S : St) (hm : S.mode = .quoted false) :
    scanFrom cs rs S (quoteBody s) =
      { S with pos := S.pos + (quoteBody s).length, cur := (quoteBody s).reverse ++ S.cur } := by
  induction s generalizing S with
  | nil =>
    simp [quoteBody, scanFrom_nil]
  | cons c cs' ih =>
    unfold quoteBody
    by_cases hc : (c = 34 || c = 92) = true
    · rw [if_pos hc, scanFrom_cons, scanFrom_cons]
      have e1 : step cs rs S 92 = { S with pos := S.pos + 1, mode := .quoted true, cur := 92 :: S.cur } := by
        unfold step; rw [hm]; simp
      have e2 : step cs rs { S with pos := S.pos + 1, mode := .quoted true, cur := 92 :: S.cur } c =
          { S with pos := S.pos + 2, mode := .quoted false, cur := c :: 92 :: S.cur } := by
        unfold step; simp
      rw [e1, e2, ih _ rfl]
      apply St.ext'
      · exact hm.symm
      · simp only [List.length_cons]; omega
      · simp
      · rfl
      · rfl
      · rfl
    · rw [if_neg hc, scanFrom_cons]
      simp only [Bool.or_eq_true, decide_eq_true_eq, not_or] at hc
      have e1 : step cs rs S c = { S with pos := S.pos + 1, cur := c :: S.cur } := by
        unfold step; rw [hm]; simp [hc.1, hc.2]
      rw [e1, ih _ (by simpa using hm)]
      apply St.ext'
      · rfl
      · simp only [List.length_cons]; omega
      · simp
      · rfl
      · rfl
      · rfl

theorem quoteBody_mem (s : Wire.Bytes) : ∀ b ∈ quoteBody s, b ∈ s ∨ b = 92 := by
  induction s with
  | nil => intro b hb; simp [quoteBody] at hb
  | cons c cs ih =>
    intro b hb
    unfold quoteBody at hb
    split at hb
    · simp only [List.mem_cons] at hb
      rcases hb with e | e | m
      · exact Or.inr e
      · exact Or.inl (by simp [e])
      · rcases ih b m with m' | e
        · exact Or.inl (List.mem_cons_of_mem _ m')
        · exact Or.inr e
    · simp only [List.mem_cons] at hb
      rcases hb with e | m
      · exact Or.inl (by simp [e])
      · rcases ih b m with m' | e
        · exact Or.inl (List.mem_cons_of_mem _ m')
        · exact Or.inr e

/-- the scanner state after a byte that ends an atom and opens something else (mode `m`) -/
def openTok (S : St) (m : Mode) : St := { ({ S with pos := S.pos + 1 } : St).flushAtom with mode := m }

theorem openTok_mode (S : St) (m : Mode) : (openTok S m).mode = m := rfl
theorem openTok_pos (S : St) (m : Mode) : (openTok S m).pos = S.pos + 1 := by
  unfold openTok; show (St.flushAtom _).pos = _; rw [flushAtom_pos]
theorem openTok_cur (S : St) (m : Mode) : (openTok S m).cur = [] := by
  unfold openTok; show (St.flushAtom _).cur = _; rw [flushAtom_cur]
theorem openTok_num (S : St) (m : Mode) : (openTok S m).num = S.num := by
  unfold openTok; show (St.flushAtom _).num = _; rw [flushAtom_num]
theorem openTok_toks (P : Tok → Prop) (hA : ∀ b, P (.atom b)) (S : St) (m : Mode) (h : ∀ t ∈ S.toks, P t) :
    ∀ t ∈ (openTok S m).toks, P t := by
  unfold openTok; show ∀ t ∈ (St.flushAtom _).toks, P t
  exact flushAtom_toks P hA _ h

theorem step_open_quote (cs rs : List Nat) (S : St) (hm : S.mode = .line) :
    step cs rs S 34 = openTok S (.quoted false) := by
  unfold step openTok; rw [hm]; simp

theorem step_open_brace (cs rs : List Nat) (S : St) (hm : S.mode = .line) :
    step cs rs S 123 = { openTok S (.hdrDigits false) with num := 0 } := by
  unfold step openTok; rw [hm]; simp

theorem step_close_quote (cs rs : List Nat) (T : St) (hm : T.mode = .quoted false) :
    step cs rs T 34 =
      { T with pos := T.pos + 1, mode := .line, toks := .quoted T.cur.reverse :: T.toks, cur := [] } := by
  unfold step; rw [hm]; simp

/-- a whole quoted string, from between tokens back to between tokens -/
theorem scan_quoted (cs rs : List Nat) (P : Tok → Prop) (hA : ∀ b, P (.atom b)) (s : Wire.Bytes)
    (hq : P (.quoted (quoteBody s))) (S : St) (p : Nat) (h : Line P S p) :
    Line P (scanFrom cs rs S (encQuoted s)) (p + (encQuoted s).length) := by
  unfold encQuoted
  rw [List.cons_append, scanFrom_cons, step_open_quote cs rs S h.mode, scanFrom_append,
    scan_quoteBody cs rs s _ (openTok_mode _ _), scanFrom_cons, scanFrom_nil, step_close_quote cs rs _ rfl]
  refine ⟨rfl, ?_, ?_⟩
  · show (openTok S _).pos + (quoteBody s).length + 1 = _
    rw [openTok_pos, h.pos]; simp only [List.length_append, List.length_cons, List.length_nil]; omega
  · intro t ht
    have ht' : t ∈ Tok.quoted ((quoteBody s).reverse ++ (openTok S (.quoted false)).cur).reverse
        :: (openTok S (.quoted false)).toks := ht
    rw [openTok_cur] at ht'
    simp only [List.append_nil, List.reverse_reverse, List.mem_cons] at ht'
    rcases ht' with e | m
    · rw [e]; exact hq
    · exact openTok_toks P hA S _ h.toks t m

/-! ### literal headers and payloads -/

theorem scan_digits (cs rs : List Nat) (ds : List Nat) (hd : ∀ d ∈ ds, isDigit d = true) (S : St) (any : Bool)
    (hm : S.mode = .hdrDigits any) :
    scanFrom cs rs S ds =
      { S with mode := .hdrDigits (any || !ds.isEmpty), pos := S.pos + ds.length,
               num := ds.foldl (fun a d => a * 10 + (d - 48)) S.num } := by
  induction ds generalizing S any with
  | nil => simp [scanFrom_nil, ← hm]
  | cons d ds ih =>
    rw [scanFrom_cons]
    have hdig := hd d (List.mem_cons_self ..)
    unfold isDigit at hdig
    have e1 : step cs rs S d = { S with mode := .hdrDigits true, pos := S.pos + 1, num := S.num * 10 + (d - 48) } := by
      unfold step; rw [hm]; simp only [hdig, if_true]
    rw [e1, ih (fun x hx => hd x (List.mem_cons_of_mem _ hx)) _ true rfl]
    simp [Nat.add_assoc, Nat.add_comm 1]

theorem litHeader_client (cfg : Cfg) (hside : cfg.side = .client) (n : Nat) (sync : Bool) :
    litHeader cfg n sync = [123] ++ (digits n ++ (if sync then [125, 13, 10] else [43, 125, 13, 10])) := by
  unfold litHeader
  cases sync <;> simp [hside]

/-- the header `{n}` / `{n+}` CRLF written by `Encoder.Literal`, from between tokens: the scanner
    arrives at `startLiteral` with the announced size and the offset just after the header -/
theorem scan_litHeader (cs rs : List Nat) (cfg : Cfg) (hside : cfg.side = .client) (n : Nat) (sync : Bool)
    (S : St) (p : Nat) (hm : S.mode = .line) (hp : S.pos = p) :
    scanFrom cs rs S (litHeader cfg n sync) =
      startLiteral cs rs (!sync)
        { openTok S (.hdrCR (!sync)) with pos := p + (litHeader cfg n sync).length, num := n }
        (p + (litHeader cfg n sync).length) := by
  rw [litHeader_client cfg hside, List.singleton_append, scanFrom_cons, step_open_brace cs rs S hm,
    scanFrom_append, scan_digits cs rs (digits n) (digits_isDigit n) _ false rfl]
  have hne : (digits n).isEmpty = false := by
    cases hd : digits n with
    | nil => exact absurd hd (digits_ne_nil n)
    | cons _ _ => rfl
  have hval : (digits n).foldl (fun a d => a * 10 + (d - 48)) 0 = n := valOf_digits n
  have hpos : (openTok S (Mode.hdrDigits false)).pos = p + 1 := by rw [openTok_pos, hp]
  cases sync with
  | true =>
    simp only [if_true, Bool.not_true]
    rw [scanFrom_cons, scanFrom_cons, scanFrom_cons, scanFrom_nil]
    unfold step
    simp only [hne, hval, hpos, Bool.not_false, Bool.or_true, Bool.and_true, if_true, if_false,
      decide_true, decide_false, List.length_append, List.length_cons, List.length_nil, Nat.reduceEqDiff,
      Nat.reduceLeDiff, Bool.and_false, Bool.false_eq_true]
    congr 1 <;> (try apply St.ext') <;> first | rfl | omega | (simp <;> omega)
  | false =>
    simp only [Bool.not_false, Bool.false_eq_true, if_false]
    rw [scanFrom_cons, scanFrom_cons, scanFrom_cons, scanFrom_cons, scanFrom_nil]
    unfold step
    simp only [hne, hval, hpos, Bool.not_false, Bool.or_true, Bool.and_true, if_true, if_false,
      decide_true, decide_false, List.length_append, List.length_cons, List.length_nil, Nat.reduceEqDiff,
      Nat.reduceLeDiff, Bool.false_eq_true]
    congr 1 <;> (try apply St.ext') <;> first | rfl | omega | (simp <;> omega)

/-- a literal payload of exactly the announced (non-zero) size brings the scanner back between
    tokens with one literal token added -/
theorem scan_payload (cs rs : List Nat) (bs : List Nat) (S : St) (ns : Bool) (hm : S.mode = .payload bs.length ns)
    (hpos : bs ≠ []) :
    ∃ e, scanFrom cs rs S bs =
      { S with mode := .line, pos := S.pos + bs.length, eight := false, toks := .lit S.num ns e :: S.toks } := by
  induction bs generalizing S with
  | nil => exact absurd rfl hpos
  | cons b bs ih =>
    rw [scanFrom_cons]
    cases bs with
    | nil =>
      refine ⟨S.eight || decide (b ≥ 128), ?_⟩
      rw [scanFrom_nil]; unfold step; rw [hm]; simp
    | cons b2 bs2 =>
      let S1 : St := { S with mode := .payload (b2 :: bs2).length ns, pos := S.pos + 1,
                              eight := S.eight || decide (b ≥ 128) }
      have e1 : step cs rs S b = S1 := by
        unfold step; rw [hm]; simp [S1]
      obtain ⟨e, he⟩ := ih S1 rfl (by simp)
      refine ⟨e, ?_⟩
      rw [e1, he]
      apply St.ext' <;> first | rfl | (simp [S1] <;> omega)

end GoImap.ClientSyntaxLemmas
