/-
  Helper lemmas for C09: command-level statements (what each command returns and how it leaves
  the mailbox table), assembled from MailboxInv / MailboxOps.
-/
import GoImap.Lemmas.MailboxOps
namespace GoImap.MailboxLemmas
open GoImap GoImap.Mailbox

theorem finish_resp (st : St) (cid : Nat) (allow : Bool) (items : List Item) (code : Code) :
    (finish st cid allow items code).2.status = .ok ∧ (finish st cid allow items code).2.code = code ∧
    ∃ polled, (finish st cid allow items code).2.items = items ++ polled := by
  unfold finish
  exact ⟨rfl, rfl, _, rfl⟩

theorem selected_getObj {st : St} {cid : Nat} {c : Conn} {o : Mbox} (h : selected st cid = some (c, o)) :
    st.getObj o.id = some o ∧ c.sel = some o.id ∧ st.getConn cid = some c := by
  unfold selected at h
  split at h
  · cases h
  · rename_i c' hc
    split at h
    · cases h
    · rename_i o' ho
      cases h
      cases hs : c.sel with
      | none => rw [hs] at ho; cases ho
      | some id =>
        rw [hs] at ho
        have := getObj_mem ho
        rw [this.2]
        exact ⟨ho, rfl, hc⟩

/-! ### APPEND -/

theorem doAppend_spec (st : St) (cid : Nat) (n : Str) (m : Message) (id : Nat) (o : Mbox)
    (hl : st.lookup n = some id) (ho : st.getObj id = some o) :
    (doAppend st cid n m).2.status = .ok ∧
    (doAppend st cid n m).2.code = .appenduid o.uidValidity o.uidNext ∧
    (doAppend st cid n m).1.getObj id = some (pushMsg m o) ∧
    ∀ id', id' ≠ id → (doAppend st cid n m).1.getObj id' = st.getObj id' := by
  obtain ⟨h1, h2, h3⟩ := appendMsg_spec st id m o ho
  unfold doAppend
  rw [hl]; simp only; rw [ho]; simp only
  obtain ⟨f1, f2, _⟩ := finish_resp (appendMsg st id m).1 cid true [] (.appenduid o.uidValidity (appendMsg st id m).2)
  refine ⟨f1, by rw [f2, h1], ?_, ?_⟩
  · rw [getObj_congr (finish_core _ _ _ _ _)]; exact h2
  · intro id' hne
    rw [getObj_congr (finish_core _ _ _ _ _)]; exact h3 id' hne

/-! ### STORE -/

theorem fetchTargets_noseen (cfg : Cfg) (st : St) (c : Conn) (o : Mbox) (tg : List (Nat × Message)) (opts : FetchOpts)
    (h : opts.sections.any (!·.peek) = false) : (fetchTargets cfg st c o tg opts).1 = st := by
  unfold fetchTargets
  simp only [h]
  rfl

theorem storeApply_getObj (st : St) (cid : Nat) (o : Mbox) (tg : List (Nat × Message)) (op : StoreOp) (flags : List Str)
    (ho : st.getObj o.id = some o) :
    (storeApply st cid o tg op flags).getObj o.id = some (mapAddressed (tg.map (·.2.uid)) (fun fl => storeFlags op fl flags) o) ∧
    ∀ id', id' ≠ o.id → (storeApply st cid o tg op flags).getObj id' = st.getObj id' := by
  unfold storeApply
  simp only
  constructor
  · rw [getObj_congr (dispatchAll_core _ _ _ _), getObj_setObj_same _ _ _ (good_mapAddressed _ _), ho]; rfl
  · intro id' hne
    rw [getObj_congr (dispatchAll_core _ _ _ _), getObj_setObj_other _ _ _ _ (good_mapAddressed _ _) hne]

theorem doStore_core (cfg : Cfg) (st : St) (cid : Nat) (uid : Bool) (set : NumSet.Set) (op : StoreOp) (silent : Bool)
    (flags : List Str) (c : Conn) (o : Mbox) (h : selected st cid = some (c, o)) :
    core (doStore cfg st cid uid set op silent flags).1 = core (storeApply st cid o (addressed c o uid set) op flags) := by
  unfold doStore
  rw [h]
  simp only
  split
  · exact finish_core _ _ _ _ _
  · have hn := fetchTargets_noseen cfg (storeApply st cid o (addressed c o uid set) op flags) c o
      (storeTargets (addressed c o uid set) op flags) { flags := true } rfl
    split
    · rename_i st3 heq
      have := congrArg Prod.fst heq
      rw [hn] at this
      simp only at this
      rw [← this]
    · rename_i st3 items heq
      have := congrArg Prod.fst heq
      rw [hn] at this
      simp only at this
      rw [finish_core, ← this]

/-! ### EXPUNGE / MOVE -/

theorem expungeSeqs_getObj (st : St) (oid : Nat) (seqs : List Nat) :
    (expungeSeqs st oid seqs).getObj oid = (st.getObj oid).map (dropSeqs seqs) ∧
    ∀ id', id' ≠ oid → (expungeSeqs st oid seqs).getObj id' = st.getObj id' := by
  unfold expungeSeqs
  simp only
  constructor
  · rw [getObj_setObj_same _ _ _ (good_dropSeqs seqs), getObj_congr (dispatchAll_core _ _ _ _)]
  · intro id' hne
    rw [getObj_setObj_other _ _ _ _ (good_dropSeqs seqs) hne, getObj_congr (dispatchAll_core _ _ _ _)]

/-- the predicate of mailbox.go Expunge -/
def eligible (o : Mbox) (uids : Option NumSet.Set) (m : Message) : Bool :=
  (match uids with | none => true | some s => NumSet.contains (staticSet (o.uidNext - 1) s) m.uid) && m.flags.contains deletedFlag

theorem doExpunge_spec (st : St) (cid : Nat) (uids : Option NumSet.Set) (c : Conn) (o : Mbox)
    (h : selected st cid = some (c, o)) :
    (∃ o', (doExpunge st cid uids).1.getObj o.id = some o' ∧ o'.msgs = o.msgs.filter (fun m => !eligible o uids m) ∧
      o'.uidNext = o.uidNext ∧ o'.uidValidity = o.uidValidity) ∧
    ∀ id', id' ≠ o.id → (doExpunge st cid uids).1.getObj id' = st.getObj id' := by
  obtain ⟨ho, _, _⟩ := selected_getObj h
  unfold doExpunge
  rw [h]
  simp only
  obtain ⟨e1, e2⟩ := expungeSeqs_getObj st o.id (expungeEligible o uids)
  constructor
  · refine ⟨dropSeqs (expungeEligible o uids) o, ?_, ?_, rfl, rfl⟩
    · rw [getObj_congr (finish_core _ _ _ _ _), e1, ho]; rfl
    · exact dropSeqs_filter_msg o (eligible o uids)
  · intro id' hne
    rw [getObj_congr (finish_core _ _ _ _ _), e2 id' hne]

/-! ### COPY / MOVE -/

theorem bind_getObj {st : St} {dest : Str} {d : Mbox} (hd : (st.lookup dest).bind st.getObj = some d) :
    st.getObj d.id = some d := by
  cases hl : st.lookup dest with
  | none => rw [hl] at hd; cases hd
  | some id =>
    rw [hl] at hd
    simp only [Option.bind_some] at hd
    rw [(getObj_mem hd).2]; exact hd

theorem doCopy_spec (st : St) (cid : Nat) (uid : Bool) (set : NumSet.Set) (dest : Str) (c : Conn) (o d : Mbox)
    (h : selected st cid = some (c, o)) (hd : (st.lookup dest).bind st.getObj = some d) (hne : d.id ≠ o.id) :
    (doCopy {} st cid uid set dest).2.status = .ok ∧
    (doCopy {} st cid uid set dest).2.code =
      copyCode {} d.uidValidity ((addressed c o uid set).map (·.2.uid)) (List.range' d.uidNext (addressed c o uid set).length) ∧
    (doCopy {} st cid uid set dest).1.getObj d.id = some (pushAll d ((addressed c o uid set).map (·.2))) ∧
    ∀ id', id' ≠ d.id → (doCopy {} st cid uid set dest).1.getObj id' = st.getObj id' := by
  have hdo := bind_getObj hd
  obtain ⟨c1, c2, c3⟩ := copyMsgs_spec d.id ((addressed c o uid set).map (·.2)) st d hdo
  rw [List.length_map] at c1
  have hb : (d.id == o.id) = false := by simpa using hne
  have hg : ∀ v a b, (copyCode {} v a b == Code.garbled) = false := by
    intro v a b
    unfold copyCode
    split <;> rfl
  unfold doCopy
  rw [h]; simp only; rw [hd]; simp only [hb, Bool.false_eq_true, if_false, hg]
  obtain ⟨f1, f2, _⟩ := finish_resp (copyMsgs st d.id ((addressed c o uid set).map (·.2))).1 cid true []
    (copyCode {} d.uidValidity ((addressed c o uid set).map (·.2.uid)) (copyMsgs st d.id ((addressed c o uid set).map (·.2))).2)
  refine ⟨f1, by rw [f2, c1], ?_, ?_⟩
  · rw [getObj_congr (finish_core _ _ _ _ _)]; exact c2
  · intro id' hne'
    rw [getObj_congr (finish_core _ _ _ _ _)]; exact c3 id' hne'

/-- which messages a command addresses, as a predicate on (position, message) -/
def isAddressed (c : Conn) (o : Mbox) (uid : Bool) (set : NumSet.Set) (q : Nat × Message) : Bool :=
  if uid then NumSet.contains (staticSet (o.uidNext - 1) set) q.2.uid
  else encodeSeq c o q.1 != 0 && NumSet.contains (staticSet o.msgs.length set) (encodeSeq c o q.1)

theorem addressed_eq (c : Conn) (o : Mbox) (uid : Bool) (set : NumSet.Set) :
    addressed c o uid set = (zipSeq o.msgs).filter (isAddressed c o uid set) := by
  unfold addressed isAddressed
  cases uid <;> simp

theorem doMove_spec (st : St) (cid : Nat) (uid : Bool) (set : NumSet.Set) (dest : Str) (c : Conn) (o d : Mbox)
    (h : selected st cid = some (c, o)) (hd : (st.lookup dest).bind st.getObj = some d) (hne : d.id ≠ o.id) :
    (doMove {} st cid uid set dest).2.status = .ok ∧
    (doMove {} st cid uid set dest).1.getObj d.id = some (pushAll d ((addressed c o uid set).map (·.2))) ∧
    (∃ o', (doMove {} st cid uid set dest).1.getObj o.id = some o' ∧
      o'.msgs = ((zipSeq o.msgs).filter fun q => !isAddressed c o uid set q).map (·.2) ∧ o'.uidNext = o.uidNext) ∧
    ∀ id', id' ≠ d.id → id' ≠ o.id → (doMove {} st cid uid set dest).1.getObj id' = st.getObj id' := by
  have hdo := bind_getObj hd
  obtain ⟨hoo, _, _⟩ := selected_getObj h
  obtain ⟨c1, c2, c3⟩ := copyMsgs_spec d.id ((addressed c o uid set).map (·.2)) st d hdo
  obtain ⟨e1, e2⟩ := expungeSeqs_getObj (copyMsgs st d.id ((addressed c o uid set).map (·.2))).1 o.id ((addressed c o uid set).map (·.1))
  have hb : (d.id == o.id) = false := by simpa using hne
  have hg : ∀ v a b, (copyCode {} v a b == Code.garbled) = false := by
    intro v a b
    unfold copyCode
    split <;> rfl
  unfold doMove
  rw [h]; simp only; rw [hd]; simp only [hb, Bool.false_eq_true, if_false, hg]
  refine ⟨(finish_resp _ _ _ _ _).1, ?_, ?_, ?_⟩
  · rw [getObj_congr (finish_core _ _ _ _ _), e2 d.id hne]; exact c2
  · refine ⟨dropSeqs ((addressed c o uid set).map (·.1)) o, ?_, ?_, rfl⟩
    · rw [getObj_congr (finish_core _ _ _ _ _), e1, c3 o.id (Ne.symm hne), hoo]; rfl
    · rw [addressed_eq]; exact dropSeqs_filter o _
  · intro id' h1 h2
    rw [getObj_congr (finish_core _ _ _ _ _), e2 id' h2, c3 id' h1]

/-! ### SEARCH -/

theorem mem_searchHits (c : Conn) (o : Mbox) (crit : Search.Crit) (e : Nat) (m : Message) :
    (e, m) ∈ searchHits c o crit ↔
      (∃ i, (i, m) ∈ zipSeq o.msgs ∧ e = encodeSeq c o i) ∧
      Search.matchesC (toSearchMsg m e) (staticCrit o.msgs.length (o.uidNext - 1) crit) = true := by
  unfold searchHits
  simp only [List.mem_filter, List.mem_map]
  constructor
  · rintro ⟨⟨⟨i, m'⟩, hmem, heq⟩, hm⟩
    simp only [Prod.mk.injEq] at heq
    obtain ⟨rfl, rfl⟩ := heq
    exact ⟨⟨i, hmem, rfl⟩, hm⟩
  · rintro ⟨⟨i, hmem, rfl⟩, hm⟩
    exact ⟨⟨(i, m), hmem, rfl⟩, hm⟩

theorem doSearch_spec (st : St) (cid : Nat) (uid : Bool) (keys : Search.KeyList) (c : Conn) (o : Mbox)
    (h : selected st cid = some (c, o)) :
    ∃ polled, (doSearch st cid uid none keys).2.items =
      Item.search (if uid then (searchHits c o (Search.foldKeys keys)).map (·.2.uid)
                   else ((searchHits c o (Search.foldKeys keys)).map (·.1)).filter (· != 0)) :: polled := by
  unfold doSearch
  rw [h]
  simp only
  obtain ⟨_, _, p, hp⟩ := finish_resp st cid uid
    [Item.search (if uid then (searchHits c o (Search.foldKeys keys)).map (·.2.uid)
                   else ((searchHits c o (Search.foldKeys keys)).map (·.1)).filter (· != 0))] .none
  exact ⟨p, hp⟩

/-! ### LIST -/

theorem mem_listMatches (st : St) (ref : Str) (pats : List Str) (p : Str × Nat) :
    p ∈ listMatches st ref pats ↔
      p ∈ st.names ∧ ∃ pat ∈ pats, ListMatch.matchListTop p.1 [slash] (some slash) ref pat = true := by
  unfold listMatches
  rw [List.mem_filter, List.any_eq_true]

end GoImap.MailboxLemmas
