/-
  Facts about `Range.merge` needed for `insert`: where the merged range starts, and what a
  failed merge says about the gap between the two ranges.
-/
import GoImap.Lemmas.NumSetMerge
namespace GoImap.NumSet

theorem mergeCore_start (s t o : Range) (h : (mergeCore s t o).2 = true) :
    (mergeCore s t o).1.start = s.start := by
  rw [mergeCore_snd_iff] at h
  rw [mergeCore_fst]
  by_cases c1 : (t.stop ≤ s.stop ∧ t.stop ≠ 0 ∨ s.stop = 0)
  · simp only [c1, if_true]
  · by_cases c2 : t.start ≤ (s.stop + 1) % W ∨ s.stop = W - 1
    · simp only [c1, c2, if_true, if_false]
    · exact absurd h (by intro h'; rcases h' with h' | h' <;> contradiction)

theorem mergeCore_fail (s t o : Range) (hs : s.WF) (h : (mergeCore s t o).2 = false) :
    s.stop ≠ 0 ∧ s.stop + 1 < t.start ∧ (t.stop = 0 ∨ s.stop < t.stop) := by
  have h' : ¬ ((mergeCore s t o).2 = true) := by rw [h]; exact Bool.false_ne_true
  rw [mergeCore_snd_iff] at h'
  unfold Range.WF at hs
  simp only [W] at *
  omega

/-- the merged range starts where one of the two starts -/
theorem Range.merge_start_or (s t : Range) :
    (s.merge t).1.start = s.start ∨ (s.merge t).1.start = t.start := by
  rw [Range.merge_eq]
  simp only [ne_eq, Bool.and_eq_true, decide_eq_true_eq, gt_iff_lt]
  split_ifs with e1 e2 e3 e4 e5 e6
  · exact Or.inl rfl
  · rw [mergeCore_fst]; split_ifs <;> simp
  · rw [mergeCore_fst]; split_ifs <;> simp
  · exact Or.inr rfl
  · exact Or.inl rfl
  · exact Or.inl rfl
  · exact Or.inl rfl

/-- if `s` starts first (or `t` is "*"), the result starts at `s.start` -/
theorem Range.merge_start_left (s t : Range) (h1 : s.start ≠ 0)
    (h2 : t.start = 0 ∨ s.start < t.start) : (s.merge t).1.start = s.start := by
  by_cases hok : (s.merge t).2 = true
  · rw [Range.merge_eq] at hok ⊢
    simp only [ne_eq, Bool.and_eq_true, decide_eq_true_eq, gt_iff_lt] at hok ⊢
    split_ifs at hok ⊢ with e1 e2 e3
    · rfl
    · omega
    · exact mergeCore_start s t s hok
    · rfl
  · have hok' : (s.merge t).2 = false := by simpa using hok
    rw [Range.merge_fail s t hok']

/-- a successful merge of two ranges that are not "*" starts at the smaller start -/
theorem Range.merge_start_min (s t : Range) (h1 : s.start ≠ 0) (h2 : t.start ≠ 0)
    (hok : (s.merge t).2 = true) : (s.merge t).1.start = min s.start t.start := by
  rw [Range.merge_eq] at hok ⊢
  simp only [ne_eq, Bool.and_eq_true, decide_eq_true_eq, gt_iff_lt] at hok ⊢
  split_ifs at hok ⊢ with e1 e2 e3
  · subst e1; simp
  · rw [mergeCore_start t s s hok]; omega
  · rw [mergeCore_start s t s hok]; omega
  · exact absurd ⟨h1, h2⟩ e2

/-- `s` starts first (or `t` is "*") and the merge fails: there is a gap after `s` -/
theorem Range.merge_fail_before (s t : Range) (hs : s.WF) (_ht : t.WF) (h1 : s.start ≠ 0)
    (h2 : t.start = 0 ∨ s.start < t.start) (hf : (s.merge t).2 = false) :
    s.stop ≠ 0 ∧ (t.start = 0 ∨ s.stop + 1 < t.start) := by
  rw [Range.merge_eq] at hf
  simp only [ne_eq, Bool.and_eq_true, decide_eq_true_eq, gt_iff_lt] at hf
  split_ifs at hf with e1 e2 e3 e4
  · omega
  · have := mergeCore_fail s t s hs hf
    omega
  · have : t.start = 0 := by
      by_cases h0 : t.start = 0
      · exact h0
      · exact absurd ⟨h1, h0⟩ e2
    exact ⟨e4, Or.inl this⟩

theorem Range.less_start_ne (p : Range) (hp : p.WF) (q : Nat) (h : p.less q = true) :
    p.start ≠ 0 ∧ p.stop ≠ 0 ∧ p.start ≤ p.stop ∧ (q = 0 ∨ p.stop < q) := by
  rw [Range.less_iff] at h
  unfold Range.WF at hp
  omega

/-- `p` precedes `v.start` and does not merge with `v`: there is a gap before `v` -/
theorem Range.merge_fail_less (p v : Range) (hp : p.WF) (hv : v.WF)
    (hl : p.less v.start = true) (hf : (p.merge v).2 = false) :
    v.start = 0 ∨ p.stop + 1 < v.start := by
  have := Range.less_start_ne p hp _ hl
  exact (Range.merge_fail_before p v hp hv this.1 (by omega) hf).2

/-- `p` precedes `v.start` and merges with `v`: then `v` is not "*" -/
theorem Range.merge_less_ok (p v : Range) (hp : p.WF) (hv : v.WF)
    (hl : p.less v.start = true) (hok : (p.merge v).2 = true) : v.start ≠ 0 := by
  have hl' := Range.less_start_ne p hp _ hl
  intro h0
  have hv0 := hv.2.2.1 h0
  rw [Range.merge_eq] at hok
  simp only [ne_eq, Bool.and_eq_true, decide_eq_true_eq, gt_iff_lt] at hok
  split_ifs at hok with e1 e2 e3 e4 e5
  · subst e1; omega
  · omega
  · omega
  · omega
  · omega

/-- `c` does not precede `v.start` and does not merge with `v`: `v` is static and there is a gap
    between `v` and `c` -/
theorem Range.merge_fail_notless (c v : Range) (hc : c.WF) (hv : v.WF)
    (hl : c.less v.start = false) (hf : (c.merge v).2 = false) :
    v.stop ≠ 0 ∧ v.start ≠ 0 ∧ (c.start = 0 ∨ v.stop + 1 < c.start) := by
  have hl' : ¬ (c.less v.start = true) := by rw [hl]; exact Bool.false_ne_true
  rw [Range.less_iff] at hl'
  rw [Range.merge_eq] at hf
  simp only [ne_eq, Bool.and_eq_true, decide_eq_true_eq, gt_iff_lt] at hf
  unfold Range.WF at hc hv
  split_ifs at hf with e1 e2 e3 e4 e5 e6
  · have := mergeCore_fail v c c hv hf
    omega
  · have := mergeCore_fail c v c hc hf
    omega
  · omega
  · omega

end GoImap.NumSet
