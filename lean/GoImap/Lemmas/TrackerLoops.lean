/-
  C07 helper lemmas, part 2: what `decLoop` / `encLoop` compute over a queue that is the delivery
  of a ghost pending list (`deliverAll v p = some (q, m)`): they follow one message identity from
  the view `v` to the mailbox `m` and back.
-/
import GoImap.Lemmas.TrackerBasic
namespace GoImap.TrackerLemmas
open GoImap.Tracker GoImap.TrackerSpec

theorem nodup_after (p : List GUpd) {v : List Id} {q : List Upd} {m : List Id}
    (h : deliverAll v p = some (q, m)) (hnd : (v ++ appended p).Nodup) : m.Nodup :=
  List.Nodup.sublist (deliverAll_sublist p h) hnd

theorem getElem?_eraseIdx_lt {l : List Id} {i j : Nat} (h : i < j) : (l.eraseIdx j)[i]? = l[i]? := by
  rw [List.getElem?_eraseIdx]; simp only [h, if_true]

theorem getElem?_eraseIdx_ge {l : List Id} {i j : Nat} (h : j ≤ i) : (l.eraseIdx j)[i]? = l[i + 1]? := by
  rw [List.getElem?_eraseIdx]
  have : ¬ i < j := by omega
  simp only [this, if_false]

/-- in a duplicate-free list the element at index `j` is not in the list with index `j` erased -/
theorem not_mem_eraseIdx_of_nodup {l : List Id} (hnd : l.Nodup) {j : Nat} {x : Id}
    (hx : l[j]? = some x) : x ∉ l.eraseIdx j := by
  intro hmem
  obtain ⟨hj, hxj⟩ := List.getElem?_eq_some_iff.mp hx
  obtain ⟨i, hne, hi⟩ := List.mem_eraseIdx_iff_getElem?.mp hmem
  obtain ⟨hi', hxi⟩ := List.getElem?_eq_some_iff.mp hi
  have := (List.getElem_inj (h₀ := hi') (h₁ := hj) hnd).mp (by rw [hxi, hxj])
  exact hne this

/-- `decLoop` follows the message at client number `c` through the queue -/
theorem decLoop_spec : ∀ (p : List GUpd) {v : List Id} {q : List Upd} {m : List Id} (c : Nat),
    deliverAll v p = some (q, m) → 1 ≤ c → c ≤ v.length → (v ++ appended p).Nodup →
    match decLoop q c with
    | none => ∀ x, v[c - 1]? = some x → x ∉ m
    | some r => 1 ≤ r ∧ r ≤ m.length ∧ m[r - 1]? = v[c - 1]?
  | [], v, q, m, c, h, h1, h2, _ => by
    simp only [deliverAll_nil, Option.some.injEq, Prod.mk.injEq] at h
    obtain ⟨rfl, rfl⟩ := h
    simp only [decLoop]
    exact ⟨h1, h2, trivial⟩
  | u :: us, v, q, m, c, h, h1, h2, hnd => by
    obtain ⟨x, v', xs, hd, hr, rfl⟩ := deliverAll_cons_some h
    have happ : appended (u :: us) = appended [u] ++ appended us := appended_append [u] us
    cases u with
    | mflags =>
      obtain ⟨rfl, rfl⟩ := deliver_mflags hd
      simp only [decLoop]
      exact decLoop_spec us c hr h1 h2 (by simpa [appended] using hnd)
    | fetch id =>
      obtain ⟨_, rfl, rfl⟩ := deliver_fetch hd
      simp only [decLoop]
      exact decLoop_spec us c hr h1 h2 (by simpa [appended] using hnd)
    | exists_ ids =>
      obtain ⟨rfl, rfl⟩ := deliver_exists hd
      simp only [decLoop]
      have hnd' : ((v ++ ids) ++ appended us).Nodup := by
        simpa [appended, List.append_assoc] using hnd
      have := decLoop_spec us c hr h1 (by simp; omega) hnd'
      have hget : (v ++ ids)[c - 1]? = v[c - 1]? := List.getElem?_append_left (by omega)
      rw [hget] at this
      exact this
    | expunge id =>
      obtain ⟨hp, rfl, rfl⟩ := deliver_expunge hd
      obtain ⟨he1, he2, hex⟩ := getElem?_of_posOf (rfl : posOf id v = posOf id v) hp
      generalize posOf id v = e at *
      have hnd0 : (v ++ appended us).Nodup := by simpa [appended] using hnd
      have hnd' : (v.eraseIdx (e - 1) ++ appended us).Nodup :=
        List.Nodup.sublist (List.Sublist.append (List.eraseIdx_sublist _ _) (List.Sublist.refl _)) hnd0
      have hlen : (v.eraseIdx (e - 1)).length = v.length - 1 := by
        rw [List.length_eraseIdx]; simp; omega
      simp only [decLoop]
      by_cases hce : c = e
      · subst hce
        rw [if_pos rfl]
        intro x hx hmem
        have hvnd : v.Nodup := (List.nodup_append.mp hnd0).1
        rcases List.mem_append.mp ((deliverAll_sublist us hr).subset hmem) with h | h
        · exact not_mem_eraseIdx_of_nodup hvnd hx h
        · exact (List.nodup_append.mp hnd0).2.2 x (List.mem_of_getElem? hx) x h rfl
      · simp only [if_neg hce]
        by_cases hgt : c > e
        · simp only [if_pos hgt]
          have := decLoop_spec us (c - 1) hr (by omega) (by omega) hnd'
          have hget : (v.eraseIdx (e - 1))[c - 1 - 1]? = v[c - 1]? := by
            rw [getElem?_eraseIdx_ge (by omega)]; congr 1; omega
          rw [hget] at this
          exact this
        · simp only [if_neg hgt]
          have := decLoop_spec us c hr h1 (by omega) hnd'
          have hget : (v.eraseIdx (e - 1))[c - 1]? = v[c - 1]? := getElem?_eraseIdx_lt (by omega)
          rw [hget] at this
          exact this

/-- `encLoop` over the reversed queue follows the message at server number `s` back to the view -/
theorem encLoop_spec (v : List Id) : ∀ (n : Nat) (p : List GUpd), p.length = n →
    ∀ {q : List Upd} {m : List Id} (s : Nat),
    deliverAll v p = some (q, m) → 1 ≤ s → s ≤ m.length → (v ++ appended p).Nodup →
    match encLoop q.reverse s with
    | none => ∀ x, m[s - 1]? = some x → x ∉ v
    | some r => 1 ≤ r ∧ r ≤ v.length ∧ v[r - 1]? = m[s - 1]?
  | 0, p, hp, q, m, s, h, h1, h2, _ => by
    have : p = [] := List.eq_nil_of_length_eq_zero hp
    subst this
    simp only [deliverAll_nil, Option.some.injEq, Prod.mk.injEq] at h
    obtain ⟨rfl, rfl⟩ := h
    simp only [List.reverse_nil, encLoop]
    exact ⟨h1, h2, trivial⟩
  | n + 1, p, hp, q, m, s, h, h1, h2, hnd => by
    rcases List.eq_nil_or_concat p with hnil | ⟨p0, u, hpu⟩
    · subst hnil; simp at hp
    rw [List.concat_eq_append] at hpu
    subst hpu
    have hp0 : p0.length = n := by simpa using hp
    obtain ⟨q0, m0, x, h0, hd, rfl⟩ := deliverAll_snoc_some h
    rw [appended_append, ← List.append_assoc] at hnd
    have hnd0 : (v ++ appended p0).Nodup := (List.nodup_append.mp hnd).1
    have ih := fun s hs1 hs2 => encLoop_spec v n p0 hp0 (q := q0) (m := m0) s h0 hs1 hs2 hnd0
    simp only [List.reverse_append, List.reverse_cons, List.reverse_nil, List.nil_append,
      List.singleton_append]
    cases u with
    | mflags =>
      obtain ⟨rfl, rfl⟩ := deliver_mflags hd
      simp only [encLoop]
      exact ih s h1 h2
    | fetch id =>
      obtain ⟨_, rfl, rfl⟩ := deliver_fetch hd
      simp only [encLoop]
      exact ih s h1 h2
    | exists_ ids =>
      obtain ⟨rfl, rfl⟩ := deliver_exists hd
      simp only [encLoop]
      by_cases hs : s > m0.length
      · have hn : m0.length + ids.length ≠ 0 := by
          simp only [List.length_append] at h2; omega
        simp only [ne_eq, hn, not_false_eq_true, decide_true, hs, Bool.and_self, if_true]
        intro y hy hyv
        rw [List.getElem?_append_right (by omega)] at hy
        have hyi : y ∈ ids := List.mem_of_getElem? hy
        have hdis := (List.nodup_append.mp hnd).2.2
        exact hdis y (List.mem_append_left _ hyv) y (by simpa [appended] using hyi) rfl
      · have hc : (decide (m0.length + ids.length ≠ 0) && decide (s > m0.length)) = false := by
          simp [hs]
        simp only [hc, Bool.false_eq_true, if_false]
        have := ih s h1 (by omega)
        have hget : (m0 ++ ids)[s - 1]? = m0[s - 1]? := List.getElem?_append_left (by omega)
        rw [hget]
        exact this
    | expunge id =>
      obtain ⟨hpne, rfl, rfl⟩ := deliver_expunge hd
      obtain ⟨he1, he2, hex⟩ := getElem?_of_posOf (rfl : posOf id m0 = posOf id m0) hpne
      generalize posOf id m0 = e at *
      have hlen : (m0.eraseIdx (e - 1)).length = m0.length - 1 := by
        rw [List.length_eraseIdx]; simp; omega
      simp only [encLoop]
      by_cases hs : s ≥ e
      · simp only [hs, if_true]
        have := ih (s + 1) (by omega) (by omega)
        have hget : (m0.eraseIdx (e - 1))[s - 1]? = m0[s + 1 - 1]? := by
          rw [getElem?_eraseIdx_ge (by omega)]; congr 1; omega
        rw [hget]
        exact this
      · simp only [hs, if_false]
        have := ih s h1 (by omega)
        have hget : (m0.eraseIdx (e - 1))[s - 1]? = m0[s - 1]? := getElem?_eraseIdx_lt (by omega)
        rw [hget]
        exact this

/-- `decode` over a delivered queue: the server number of the message the client calls `c` -/
theorem decode_deliverAll {p : List GUpd} {v : List Id} {q : List Upd} {m : List Id}
    (h : deliverAll v p = some (q, m)) (hnd : (v ++ appended p).Nodup) {c : Nat}
    (h1 : 1 ≤ c) (h2 : c ≤ v.length) :
    decode q m.length c = posOf (v[c - 1]'(by omega)) m := by
  have hm := nodup_after p h hnd
  have hspec := decLoop_spec p c h h1 h2 hnd
  have hc0 : c ≠ 0 := by omega
  have hget : v[c - 1]? = some (v[c - 1]'(by omega)) := List.getElem?_eq_getElem (by omega)
  simp only [decode, if_neg hc0]
  cases hd : decLoop q c with
  | none =>
    rw [hd] at hspec
    simp only
    exact (posOf_eq_zero_iff.mpr (hspec _ hget)).symm
  | some r =>
    rw [hd] at hspec
    obtain ⟨hr1, hr2, hr3⟩ := hspec
    have : ¬ r > m.length := by omega
    simp only [this, if_false]
    rw [hget] at hr3
    exact (posOf_of_getElem? hm hr1 hr3).symm

/-- `encode` over a delivered queue: the client number of the message the server calls `k` -/
theorem encode_deliverAll {p : List GUpd} {v : List Id} {q : List Upd} {m : List Id}
    (h : deliverAll v p = some (q, m)) (hnd : (v ++ appended p).Nodup) {k : Nat}
    (h1 : 1 ≤ k) (h2 : k ≤ m.length) :
    encode q m.length k = posOf (m[k - 1]'(by omega)) v := by
  have hv : v.Nodup := (List.nodup_append.mp hnd).1
  have hspec := encLoop_spec v p.length p rfl k h h1 h2 hnd
  have hk0 : k ≠ 0 := by omega
  have hk1 : ¬ k > m.length := by omega
  have hget : m[k - 1]? = some (m[k - 1]'(by omega)) := List.getElem?_eq_getElem (by omega)
  simp only [encode, if_neg hk0, if_neg hk1]
  cases hd : encLoop q.reverse k with
  | none =>
    rw [hd] at hspec
    simp only
    exact (posOf_eq_zero_iff.mpr (hspec _ hget)).symm
  | some r =>
    rw [hd] at hspec
    obtain ⟨hr1, hr2, hr3⟩ := hspec
    simp only
    rw [hget] at hr3
    exact (posOf_of_getElem? hv hr1 hr3).symm

end GoImap.TrackerLemmas
