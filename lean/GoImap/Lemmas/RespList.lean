/-
  Helper lemmas for C03: the LIST response line (imapserver/list.go writeList against
  imapclient/list.go readList, with the extended data items CHILDINFO and OLDNAME) is read back as the
  specification's canonical entry, and the routing of LIST / STATUS events to a ListCommand.
-/
import GoImap.Lemmas.RespLines
import GoImap.Lemmas.RespMailbox
import GoImap.Lemmas.RespFlags
namespace GoImap.Resp

/-! ### small wire facts -/

/-- the text starts with a byte that is neither CR nor LF (so a preceding SP is a separator) -/
def list_Head (s : Str) : Prop := ∃ c t, s = c :: t ∧ c ≠ 13 ∧ c ≠ 10

theorem list_Head.append {s : Str} (h : list_Head s) (r : Str) : list_Head (s ++ r) := by
  obtain ⟨c, t, rfl, h1, h2⟩ := h
  exact ⟨c, t ++ r, rfl, h1, h2⟩

theorem list_expectSP (s : Str) (h : list_Head s) : expectSP (32 :: s) = some s := by
  obtain ⟨c, t, rfl, h1, h2⟩ := h
  exact expectSP_sp c t h1 h2

theorem list_head_encList (l : List Str) : list_Head (encList l) :=
  ⟨40, _, rfl, by decide, by decide⟩

theorem list_head_delim (d : Int) (dl : Str) (h : delimText d = some dl) : list_Head dl := by
  unfold delimText at h
  by_cases h0 : d = 0
  · rw [if_pos h0] at h
    injection h with h; subst h
    exact ⟨78, [73, 76], rfl, by decide, by decide⟩
  · rw [if_neg h0] at h
    split at h
    · injection h with h; subst h
      exact ⟨34, _, rfl, by decide, by decide⟩
    · cases h

theorem list_head_mailbox (utf8 : Bool) (name mb : Str) (h : encMailbox utf8 name = some mb) : list_Head mb := by
  unfold encMailbox at h
  split at h
  · injection h with h; subst h
    exact ⟨73, [78, 66, 79, 88], by decide, by decide, by decide⟩
  · cases hd : Utf7.utf8dec name with
    | none => rw [hd] at h; cases h
    | some cps =>
      rw [hd] at h
      simp only [Option.map_some, Option.some.injEq] at h
      subst h
      unfold encString
      split
      · exact ⟨34, _, rfl, by decide, by decide⟩
      · exact ⟨123, _, rfl, by decide, by decide⟩

theorem list_decSP_crlf (rest : Str) : decSP (13 :: 10 :: rest) = (false, 13 :: 10 :: rest) := by
  simp [decSP]

theorem list_decSP_paren (r : Str) : decSP (32 :: 40 :: r) = (true, 40 :: r) := by
  simp [decSP]

/-- Decoder.ExpectAString on an atom -/
theorem list_decAString_atom (a rest : Str) (hne : a ≠ []) (ha : ∀ x ∈ a, isAtomChar x = true)
    (hr : StopsAt isAtomChar rest) : decAString (a ++ rest) = some (a, rest) := by
  have hta := tryAtom_append a rest hne ha hr
  cases a with
  | nil => exact absurd rfl hne
  | cons c t =>
    have hc : isAtomChar c = true := ha c (by simp)
    have h34 : c ≠ 34 := by intro e; rw [e] at hc; exact absurd hc (by decide)
    have h123 : c ≠ 123 := by intro e; rw [e] at hc; exact absurd hc (by decide)
    rw [List.cons_append] at hta ⊢
    unfold decAString
    split
    · rename_i heq; injection heq with e _; exact absurd e h34
    · rename_i heq; injection heq with e _; exact absurd e h123
    · exact hta

/-- Decoder.ExpectAString on a quoted string -/
theorem list_decAString_quoted (s rest : Str) : decAString (encQuoted s ++ rest) = some (s, rest) := by
  have hq := decQuoted_encQuoted s rest
  have e : encQuoted s ++ rest = 34 :: (escQuoted s ++ [34] ++ rest) := rfl
  rw [e] at hq ⊢
  simpa [decAString] using hq

/-! ### the extended data items -/

/-- `CHILDINFO ("SUBSCRIBED")` / `CHILDINFO ()` as writeList writes it -/
def list_ciText (sub : Bool) : Str := asc "CHILDINFO (" ++ (if sub then encQuoted (asc "SUBSCRIBED") else []) ++ [41]

/-- `OLDNAME (mailbox)` -/
def list_onText (m : Str) : Str := asc "OLDNAME (" ++ m ++ [41]

theorem list_ciText_shape (sub : Bool) (r : Str) :
    list_ciText sub ++ r = asc "CHILDINFO" ++ 32 :: 40 :: ((if sub then encQuoted (asc "SUBSCRIBED") else []) ++ 41 :: r) := by
  have e : asc "CHILDINFO (" = asc "CHILDINFO" ++ [32, 40] := by decide
  simp [list_ciText, e, List.append_assoc]

theorem list_onText_shape (m r : Str) : list_onText m ++ r = asc "OLDNAME" ++ 32 :: 40 :: (m ++ 41 :: r) := by
  have e : asc "OLDNAME (" = asc "OLDNAME" ++ [32, 40] := by decide
  simp [list_onText, e, List.append_assoc]

theorem list_ci_opts (sub : Bool) (r : Str) :
    decList decAString (40 :: ((if sub then encQuoted (asc "SUBSCRIBED") else []) ++ 41 :: r)) =
      some (if sub then [asc "SUBSCRIBED"] else [], r) := by
  cases sub with
  | false => simp [decList]
  | true =>
    have h := decList_encList decAString encQuoted (fun x => x) [asc "SUBSCRIBED"] r
      (fun x _ r' _ => list_decAString_quoted x r') (fun x _ => ⟨34, _, rfl, by decide, by decide, by decide⟩)
    simpa [encList, joinSP, List.append_assoc] using h

/-- the CHILDINFO item is read as its SUBSCRIBED option -/
theorem list_item_ci (acc : Option Bool × Str) (sub : Bool) (r : Str) :
    readListExtItem acc (list_ciText sub ++ r) = some ((some sub, acc.2), r) := by
  rw [list_ciText_shape]
  have h1 := list_decAString_atom (asc "CHILDINFO") (32 :: 40 :: ((if sub then encQuoted (asc "SUBSCRIBED") else []) ++ 41 :: r))
    (by decide) (by decide) (StopsAt.cons _ (by decide))
  have h2 := expectSP_sp 40 ((if sub then encQuoted (asc "SUBSCRIBED") else []) ++ 41 :: r) (by decide) (by decide)
  have ht : toUpper (asc "CHILDINFO") = asc "CHILDINFO" := by decide
  have hs : toUpper (asc "SUBSCRIBED") = asc "SUBSCRIBED" := by decide
  unfold readListExtItem
  simp only [h1, h2, ht, if_true, list_ci_opts, Option.map_some]
  cases sub <;> simp [hs]

/-- the OLDNAME item is read as the canonical old name -/
theorem list_item_on (acc : Option Bool × Str) (utf8 : Bool) (name m r : Str)
    (hm : encMailbox utf8 name = some m) (hlen : name.length < 4294967296) :
    readListExtItem acc (list_onText m ++ r) = some ((acc.1, RespSpec.canonMailbox name), r) := by
  rw [list_onText_shape]
  have h1 := list_decAString_atom (asc "OLDNAME") (32 :: 40 :: (m ++ 41 :: r)) (by decide) (by decide) (StopsAt.cons _ (by decide))
  have h2 := expectSP_sp 40 (m ++ 41 :: r) (by decide) (by decide)
  have h3 := decMailbox_encMailbox utf8 name m (41 :: r) hm hlen (StopsAt.cons _ (by decide))
  have ht : toUpper (asc "OLDNAME") = asc "OLDNAME" := by decide
  have hne : ¬ (asc "OLDNAME" = asc "CHILDINFO") := by decide
  unfold readListExtItem
  simp only [h1, h2, ht, hne, if_true, if_false, h3]

theorem list_ext_last (fuel : Nat) (acc acc' : Option Bool × Str) (s r : Str)
    (h : readListExtItem acc s = some (acc', 41 :: r)) : readListExt (fuel + 1) acc s = some (acc', r) := by
  simp [readListExt, h]

theorem list_ext_more (fuel : Nat) (acc acc' : Option Bool × Str) (s : Str) (c : Nat) (u : Str)
    (h : readListExtItem acc s = some (acc', 32 :: c :: u)) (h13 : c ≠ 13) (h10 : c ≠ 10) :
    readListExt (fuel + 1) acc s = readListExt fuel acc' (c :: u) := by
  simp [readListExt, h, expectSP_sp c u h13 h10]

/-- `(CHILDINFO (…))` -/
theorem list_ext_ci (fuel : Nat) (sub : Bool) (t : Str) :
    readListExt (fuel + 1) (none, []) (list_ciText sub ++ 41 :: t) = some ((some sub, []), t) :=
  list_ext_last fuel _ _ _ t (list_item_ci (none, []) sub (41 :: t))

/-- `(OLDNAME (mailbox))` -/
theorem list_ext_on (fuel : Nat) (utf8 : Bool) (name m t : Str)
    (hm : encMailbox utf8 name = some m) (hlen : name.length < 4294967296) :
    readListExt (fuel + 1) (none, []) (list_onText m ++ 41 :: t) = some ((none, RespSpec.canonMailbox name), t) :=
  list_ext_last fuel _ _ _ t (list_item_on (none, []) utf8 name m (41 :: t) hm hlen)

theorem list_onText_head (m r : Str) : list_onText m ++ r = 79 :: (asc "LDNAME (" ++ m ++ 41 :: r) := by
  have e : asc "OLDNAME (" = 79 :: asc "LDNAME (" := by decide
  simp [list_onText, e, List.append_assoc]

theorem list_ciText_head (sub : Bool) (r : Str) :
    list_ciText sub ++ r = 67 :: (asc "HILDINFO (" ++ (if sub then encQuoted (asc "SUBSCRIBED") else []) ++ 41 :: r) := by
  have e : asc "CHILDINFO (" = 67 :: asc "HILDINFO (" := by decide
  simp [list_ciText, e, List.append_assoc]

/-- `(CHILDINFO (…) OLDNAME (mailbox))` -/
theorem list_ext_both (fuel : Nat) (sub : Bool) (utf8 : Bool) (name m t : Str)
    (hm : encMailbox utf8 name = some m) (hlen : name.length < 4294967296) :
    readListExt (fuel + 2) (none, []) (list_ciText sub ++ 32 :: (list_onText m ++ 41 :: t)) =
      some ((some sub, RespSpec.canonMailbox name), t) := by
  have h1 := list_item_ci (none, []) sub (32 :: (list_onText m ++ 41 :: t))
  rw [list_onText_head] at h1 ⊢
  rw [list_ext_more (fuel + 1) _ _ _ 79 _ h1 (by decide) (by decide), ← list_onText_head]
  exact list_ext_last fuel _ _ _ t (list_item_on (some sub, []) utf8 name m (41 :: t) hm hlen)

/-! ### readList -/

/-- the common part of a LIST entry: attributes, delimiter, mailbox; nothing follows the mailbox -/
theorem list_read_plain (utf8 : Bool) (attrs : List Str) (dlm : Int) (name dl mb rest : Str)
    (ha : ∀ f ∈ attrs, RespSpec.validAttr f = true) (hvd : RespSpec.validDelim dlm = true)
    (hd : delimText dlm = some dl) (hm : encMailbox utf8 name = some mb) (hlen : name.length < 4294967296) :
    readList (encList attrs ++ 32 :: (dl ++ 32 :: (mb ++ 13 :: 10 :: rest))) =
      some ({ attrs := attrs.map RespSpec.canonAttr, delim := dlm, mailbox := RespSpec.canonMailbox name, childInfo := none,
              oldName := [], status := none }, 13 :: 10 :: rest) := by
  have hA := (attrList_fidelity attrs ha (32 :: (dl ++ 32 :: (mb ++ 13 :: 10 :: rest)))).2
  have hS1 := list_expectSP (dl ++ 32 :: (mb ++ 13 :: 10 :: rest)) ((list_head_delim dlm dl hd).append _)
  obtain ⟨dl', hd', hD⟩ := readDelim_delimText dlm (32 :: (mb ++ 13 :: 10 :: rest)) hvd (StopsAt.cons _ (by decide))
  rw [hd] at hd'
  injection hd' with hd'
  subst hd'
  have hS2 := list_expectSP (mb ++ 13 :: 10 :: rest) ((list_head_mailbox utf8 name mb hm).append _)
  have hM := decMailbox_encMailbox utf8 name mb (13 :: 10 :: rest) hm hlen (StopsAt.cons _ (by decide))
  unfold readList
  simp only [hA, hS1, hD, hS2, hM, list_decSP_crlf, Option.bind_eq_bind, Option.bind_some, Option.pure_def]

/-- the common part of a LIST entry followed by extended data items -/
theorem list_read_ext (utf8 : Bool) (attrs : List Str) (dlm : Int) (name dl mb : Str) (c : Nat) (t r : Str)
    (ci : Option Bool) (on : Str)
    (ha : ∀ f ∈ attrs, RespSpec.validAttr f = true) (hvd : RespSpec.validDelim dlm = true)
    (hd : delimText dlm = some dl) (hm : encMailbox utf8 name = some mb) (hlen : name.length < 4294967296)
    (hc : c = 67 ∨ c = 79)
    (hext : readListExt (t.length + 1 + 1) (none, []) (c :: t) = some ((ci, on), r)) :
    readList (encList attrs ++ 32 :: (dl ++ 32 :: (mb ++ 32 :: 40 :: c :: t))) =
      some ({ attrs := attrs.map RespSpec.canonAttr, delim := dlm, mailbox := RespSpec.canonMailbox name, childInfo := ci,
              oldName := on, status := none }, r) := by
  have hA := (attrList_fidelity attrs ha (32 :: (dl ++ 32 :: (mb ++ 32 :: 40 :: c :: t)))).2
  have hS1 := list_expectSP (dl ++ 32 :: (mb ++ 32 :: 40 :: c :: t)) ((list_head_delim dlm dl hd).append _)
  obtain ⟨dl', hd', hD⟩ := readDelim_delimText dlm (32 :: (mb ++ 32 :: 40 :: c :: t)) hvd (StopsAt.cons _ (by decide))
  rw [hd] at hd'
  injection hd' with hd'
  subst hd'
  have hS2 := list_expectSP (mb ++ 32 :: 40 :: c :: t) ((list_head_mailbox utf8 name mb hm).append _)
  have hM := decMailbox_encMailbox utf8 name mb (32 :: 40 :: c :: t) hm hlen (StopsAt.cons _ (by decide))
  unfold readList
  rcases hc with rfl | rfl <;>
    simp only [hA, hS1, hD, hS2, hM, list_decSP_paren, List.length_cons, hext, Option.bind_eq_bind, Option.bind_some,
      Option.pure_def]

/-! ### the LIST line -/

theorem list_star_name (typ rest : Str) (h : IsName typ) (hr : StopsAt isAtomChar rest) :
    readResponse (42 :: 32 :: (typ ++ rest)) = finishLine (dispatchData 0 typ rest) := by
  cases htyp : typ with
  | nil => exact absurd htyp h.ne
  | cons c t =>
    have hc : isAtomChar c = true := h.atom c (by rw [htyp]; simp)
    have h13 : c ≠ 13 := by intro e; rw [e] at hc; exact absurd hc (by decide)
    have h10 : c ≠ 10 := by intro e; rw [e] at hc; exact absurd hc (by decide)
    rw [List.cons_append, readResponse_star c _ h13 h10, ← List.cons_append]
    exact readUntagged_name (c :: t) rest (htyp ▸ h) hr

theorem list_dispatch (r r1 r2 : Str) (d : ListData) (h1 : expectSP r = some r1) (h2 : readList r1 = some (d, r2)) :
    dispatchData 0 (asc "LIST") r = some (Event.list d, r2) := by
  simp [dispatchData, asc, h1, h2]

/-- `* LIST payload CRLF` is read as the LIST event of what `readList` makes of the payload -/
theorem list_line_of_read (payload rest : Str) (d : ListData) (hh : list_Head payload)
    (hr : readList payload = some (d, 13 :: 10 :: rest)) :
    readResponse (42 :: 32 :: (asc "LIST" ++ 32 :: payload)) = some (Event.list d, rest) := by
  rw [list_star_name (asc "LIST") (32 :: payload) (isName_of _ (by decide)) (StopsAt.cons _ (by decide)),
    list_dispatch (32 :: payload) payload (13 :: 10 :: rest) d (list_expectSP payload hh) hr, finishLine_crlf]

/-! ### printListLine against readResponse -/

/-- `canonList` without STATUS options, field by field -/
theorem list_canon_eq (d : ListData) :
    RespSpec.canonList none d =
      { attrs := d.attrs.map RespSpec.canonAttr, delim := d.delim, mailbox := RespSpec.canonMailbox d.mailbox,
        childInfo := d.childInfo, oldName := if d.oldName.isEmpty then [] else RespSpec.canonMailbox d.oldName,
        status := none } := by
  cases d with
  | mk a dl m ci o s => cases s <;> rfl

/-- the entry a ListCommand delivers when the STATUS of the entry was attached to its LIST data -/
theorem list_canon_with (so : Option StatusOpts) (d : ListData) :
    { RespSpec.canonList none d with status := (RespSpec.canonList so d).status } = RespSpec.canonList so d := by
  cases d with
  | mk a dl m ci o s => cases s <;> cases so <;> rfl

/-- what `printListLine` wrote, in terms of its parts -/
theorem list_print_inv (utf8 : Bool) (d : ListData) (bytes : Str) (hp : printListLine utf8 d = some bytes) :
    ∃ attrs dl mb on, optAll (d.attrs.map encAttr) = some attrs ∧ delimText d.delim = some dl ∧
      encMailbox utf8 d.mailbox = some mb ∧
      (if d.oldName.isEmpty then some [] else (encMailbox utf8 d.oldName).map fun m => [list_onText m]) = some on ∧
      bytes = star ++ asc " LIST " ++ encList attrs ++ [32] ++ dl ++ [32] ++ mb ++
        (if ((match d.childInfo with | some sub => [list_ciText sub] | none => []) ++ on).isEmpty then []
         else 32 :: encList ((match d.childInfo with | some sub => [list_ciText sub] | none => []) ++ on)) ++ CRLFb := by
  unfold printListLine at hp
  simp only [Option.bind_eq_bind, Option.bind_eq_some_iff, Option.pure_def] at hp
  obtain ⟨attrs, h1, dl, h2, mb, h3, hrest⟩ := hp
  by_cases he : d.oldName.isEmpty = true
  · rw [if_pos he] at hrest
    simp only [Option.bind_some, Option.some.injEq] at hrest
    refine ⟨attrs, dl, mb, [], h1, h2, h3, by rw [if_pos he], ?_⟩
    rw [← hrest]
    cases d.childInfo <;> rfl
  · rw [if_neg he] at hrest
    cases hm : encMailbox utf8 d.oldName with
    | none => rw [hm] at hrest; cases hrest
    | some m =>
      rw [hm] at hrest
      simp only [Option.map_some, Option.bind_some, Option.some.injEq] at hrest
      refine ⟨attrs, dl, mb, [list_onText m], h1, h2, h3, by rw [if_neg he]; rfl, ?_⟩
      rw [← hrest]
      cases d.childInfo <;> rfl

/-- the LIST line `writeList` writes for a well-formed entry is read by the client as the canonical
    entry (attributes and INBOX in their canonical spelling, CHILDINFO and OLDNAME kept) -/
theorem list_line (utf8 : Bool) (d : ListData) (bytes : Str)
    (hwf : RespSpec.wfList none d = true) (hlen : d.mailbox.length < 4294967296 ∧ d.oldName.length < 4294967296)
    (hp : printListLine utf8 d = some bytes) :
    ReadsAs bytes (Event.list (RespSpec.canonList none d)) := by
  obtain ⟨attrs, dl, mb, on, h1, h2, h3, h4, hb⟩ := list_print_inv utf8 d bytes hp
  simp only [RespSpec.wfList, Bool.and_eq_true, List.all_eq_true] at hwf
  obtain ⟨⟨⟨⟨ha, hvd⟩, _⟩, _⟩, _⟩ := hwf
  rw [(attrList_fidelity d.attrs ha []).1] at h1
  injection h1 with h1
  subst h1
  constructor
  · rw [hb]; simp [star]
  · intro rest
    rw [list_canon_eq]
    by_cases he : d.oldName.isEmpty = true
    · rw [if_pos he] at h4 ⊢
      injection h4 with h4
      subst h4
      cases hci : d.childInfo with
      | none =>
        rw [hci] at hb
        have e : bytes ++ rest = 42 :: 32 :: (asc "LIST" ++ 32 :: (encList d.attrs ++ 32 :: (dl ++ 32 :: (mb ++ 13 :: 10 :: rest)))) := by
          rw [hb]; simp [star, asc, CRLFb, List.append_assoc]
        rw [e]
        exact list_line_of_read _ rest _ ((list_head_encList d.attrs).append _)
          (list_read_plain utf8 d.attrs d.delim d.mailbox dl mb rest ha hvd h2 h3 hlen.1)
      | some sub =>
        rw [hci] at hb
        obtain ⟨t, ht⟩ : ∃ t, list_ciText sub ++ 41 :: 13 :: 10 :: rest = 67 :: t := ⟨_, list_ciText_head sub _⟩
        have e : bytes ++ rest = 42 :: 32 :: (asc "LIST" ++ 32 :: (encList d.attrs ++ 32 :: (dl ++ 32 :: (mb ++ 32 :: 40 :: 67 :: t)))) := by
          rw [hb, ← ht]; simp [star, asc, CRLFb, encList, joinSP, List.append_assoc]
        rw [e]
        have hx := list_ext_ci (t.length + 1) sub (13 :: 10 :: rest)
        rw [ht] at hx
        exact list_line_of_read _ rest _ ((list_head_encList d.attrs).append _)
          (list_read_ext utf8 d.attrs d.delim d.mailbox dl mb 67 t _ _ _ ha hvd h2 h3 hlen.1 (Or.inl rfl) hx)
    · rw [if_neg he] at h4 ⊢
      cases hm : encMailbox utf8 d.oldName with
      | none => rw [hm] at h4; cases h4
      | some m =>
        rw [hm] at h4
        simp only [Option.map_some, Option.some.injEq] at h4
        subst h4
        cases hci : d.childInfo with
        | none =>
          rw [hci] at hb
          obtain ⟨t, ht⟩ : ∃ t, list_onText m ++ 41 :: 13 :: 10 :: rest = 79 :: t := ⟨_, list_onText_head m _⟩
          have e : bytes ++ rest = 42 :: 32 :: (asc "LIST" ++ 32 :: (encList d.attrs ++ 32 :: (dl ++ 32 :: (mb ++ 32 :: 40 :: 79 :: t)))) := by
            rw [hb, ← ht]; simp [star, asc, CRLFb, encList, joinSP, List.append_assoc]
          rw [e]
          have hx := list_ext_on (t.length + 1) utf8 d.oldName m (13 :: 10 :: rest) hm hlen.2
          rw [ht] at hx
          exact list_line_of_read _ rest _ ((list_head_encList d.attrs).append _)
            (list_read_ext utf8 d.attrs d.delim d.mailbox dl mb 79 t _ _ _ ha hvd h2 h3 hlen.1 (Or.inr rfl) hx)
        | some sub =>
          rw [hci] at hb
          obtain ⟨t, ht⟩ : ∃ t, list_ciText sub ++ 32 :: (list_onText m ++ 41 :: 13 :: 10 :: rest) = 67 :: t :=
            ⟨_, list_ciText_head sub _⟩
          have e : bytes ++ rest = 42 :: 32 :: (asc "LIST" ++ 32 :: (encList d.attrs ++ 32 :: (dl ++ 32 :: (mb ++ 32 :: 40 :: 67 :: t)))) := by
            rw [hb, ← ht]; simp [star, asc, CRLFb, encList, joinSP, SPb, List.append_assoc]
          rw [e]
          have hx := list_ext_both t.length sub utf8 d.oldName m (13 :: 10 :: rest) hm hlen.2
          rw [ht] at hx
          exact list_line_of_read _ rest _ ((list_head_encList d.attrs).append _)
            (list_read_ext utf8 d.attrs d.delim d.mailbox dl mb 67 t _ _ _ ha hvd h2 h3 hlen.1 (Or.inl rfl) hx)

/-- the same with the entry's `status` field cleared first (a LIST line never carries it) -/
theorem list_line' (utf8 : Bool) (d : ListData) (bytes : Str)
    (hwf : RespSpec.wfList none d = true) (hlen : d.mailbox.length < 4294967296 ∧ d.oldName.length < 4294967296)
    (hp : printListLine utf8 d = some bytes) :
    ReadsAs bytes (Event.list (RespSpec.canonList none { d with status := none })) := by
  have h := list_line utf8 d bytes hwf hlen hp
  rw [list_canon_eq] at h ⊢
  exact h

/-! ### routing to a ListCommand -/

/-- LIST without RETURN (STATUS): every LIST event is delivered as it came, in order -/
theorem list_deliver_plain (ds : List ListData) (tag typ : Str) (code : Code) :
    deliverList false none (ds.map Event.list ++ [Event.done tag typ code]) = ds := by
  induction ds with
  | nil => simp [deliverList]
  | cons d t ih =>
    simp only [List.map_cons, List.cons_append, deliverList]
    rw [ih]
    simp

/-- the events of one LIST entry when RETURN (STATUS) is in force: the LIST data, then the STATUS data if any -/
def list_entryEvents (p : ListData × Option StatusData) : List Event :=
  Event.list p.1 :: (match p.2 with
    | some s => [Event.status s]
    | none => [])

/-- what the command delivers for that entry -/
def list_entryData (p : ListData × Option StatusData) : ListData := { p.1 with status := p.2 }

/-- LIST with RETURN (STATUS), any pending entry: the pending entry is released, then every entry is
    delivered with its STATUS attached -/
theorem list_deliver_status_pend (ds : List (ListData × Option StatusData)) (tag typ : Str) (code : Code)
    (hs : ∀ p ∈ ds, p.1.status = none) (hm : ∀ p ∈ ds, ∀ s, p.2 = some s → s.mailbox = p.1.mailbox) (pend : Option ListData) :
    deliverList true pend (ds.flatMap list_entryEvents ++ [Event.done tag typ code]) = pend.toList ++ ds.map list_entryData := by
  induction ds generalizing pend with
  | nil => simp [deliverList]
  | cons p t ih =>
    have ih' := ih (fun q hq => hs q (by simp [hq])) (fun q hq => hm q (by simp [hq]))
    obtain ⟨l, st⟩ := p
    have hl : l.status = none := hs (l, st) (by simp)
    cases st with
    | none =>
      have e : list_entryData (l, none) = l := by
        cases l with
        | mk a b c d e f => simp only [list_entryData]; simp only at hl; rw [hl]
      simp only [List.flatMap_cons, list_entryEvents, List.cons_append, List.nil_append, deliverList, if_true, List.map_cons]
      rw [ih' (some l), e]
      rfl
    | some s =>
      have hmb : l.mailbox = s.mailbox := (hm (l, some s) (by simp) s rfl).symm
      have hdec : decide (l.mailbox = s.mailbox) = true := by rw [hmb]; simp
      simp only [List.flatMap_cons, list_entryEvents, List.cons_append, List.nil_append, deliverList, if_true, List.map_cons,
        hdec, Bool.true_and]
      rw [ih' none]
      rfl

/-- LIST with RETURN (STATUS): each entry is delivered with the STATUS data that followed it -/
theorem list_deliver_status (ds : List (ListData × Option StatusData)) (tag typ : Str) (code : Code)
    (hs : ∀ p ∈ ds, p.1.status = none) (hm : ∀ p ∈ ds, ∀ s, p.2 = some s → s.mailbox = p.1.mailbox) :
    deliverList true none (ds.flatMap list_entryEvents ++ [Event.done tag typ code]) = ds.map list_entryData := by
  rw [list_deliver_status_pend ds tag typ code hs hm none]
  rfl

/-- the form asked for: the event stream written with an explicit `match`, entries written as pairs -/
theorem list_deliver_status' (ds : List (ListData × Option StatusData)) (tag typ : Str) (code : Code)
    (hs : ∀ p ∈ ds, p.1.status = none) (hm : ∀ p ∈ ds, ∀ s, p.2 = some s → s.mailbox = p.1.mailbox) :
    deliverList true none
        (ds.flatMap (fun p => Event.list p.1 :: (match p.2 with | some s => [Event.status s] | none => [])) ++
          [Event.done tag typ code]) =
      ds.map fun p => { p.1 with status := p.2 } := by
  have h := list_deliver_status ds tag typ code hs hm
  have e1 : (fun p : ListData × Option StatusData =>
      Event.list p.1 :: (match p.2 with | some s => [Event.status s] | none => [])) = list_entryEvents := by
    funext p; obtain ⟨l, st⟩ := p; cases st <;> rfl
  rw [e1]
  exact h

/-! ### a concrete entry -/

/-- `Entwürfe` with two attributes (one in a non-canonical spelling), CHILDINFO and OLDNAME -/
def list_sample : ListData :=
  { attrs := [asc "\\Noselect", asc "\\haschildren"], delim := 47, mailbox := [69, 110, 116, 119, 195, 188, 114, 102, 101],
    childInfo := some true, oldName := [120], status := none }

example : ReadsAs (asc "* LIST (\\Noselect \\haschildren) \"/\" \"Entw&APw-rfe\" (CHILDINFO (\"SUBSCRIBED\") OLDNAME (\"x\"))\r\n")
    (Event.list (RespSpec.canonList none list_sample)) :=
  list_line false list_sample _ (by decide +kernel) (by decide) (by decide +kernel)

example : RespSpec.canonList none list_sample =
    { attrs := [asc "\\Noselect", asc "\\HasChildren"], delim := 47, mailbox := [69, 110, 116, 119, 195, 188, 114, 102, 101],
      childInfo := some true, oldName := [120], status := none } := by decide +kernel

example : deliverList false none ([list_sample].map Event.list ++ [Event.done (asc "T1") (asc "OK") Code.none]) = [list_sample] :=
  list_deliver_plain _ _ _ _

end GoImap.Resp
