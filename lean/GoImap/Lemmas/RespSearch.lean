/-
  Helper lemmas for C03: the SEARCH / ESEARCH response family. `printSearch` (imapserver/search.go
  writeSearch / writeESearch) against `readResponse` → `dispatchData … "SEARCH"/"ESEARCH"` →
  `readSearchNums` / `readESearch` / `readESearchItems` (imapclient/search.go), and the routing
  `deliverSearch`.
-/
import GoImap.Lemmas.RespLines
import GoImap.Lemmas.NumSetPrint
import GoImap.Lemmas.NumSetNums
namespace GoImap.Resp

/-! ### A. the SEARCH form -/

theorem search_decSP_cr (r : Str) : decSP (13 :: r) = (false, 13 :: r) := by
  simp [decSP]

theorem search_decSP_sp (c : Nat) (r : Str) (h13 : c ≠ 13) (h10 : c ≠ 10) : decSP (32 :: c :: r) = (true, c :: r) := by
  simp [decSP, h13, h10]

/-- the text of the numbers of a SEARCH response -/
def search_numsText (ns : List Nat) : Str := ns.flatMap (fun n => 32 :: encNumber n)

theorem search_numsText_cons (n : Nat) (ns : List Nat) : search_numsText (n :: ns) = 32 :: (encNumber n ++ search_numsText ns) := by
  simp [search_numsText]

theorem search_numsText_stops (ns : List Nat) (rest : Str) : StopsAt isDigitB (search_numsText ns ++ 13 :: rest) := by
  cases ns with
  | nil => exact StopsAt.cons _ (by decide)
  | cons n t => rw [search_numsText_cons]; exact StopsAt.cons _ (by decide)

theorem search_numsText_stops_atom (ns : List Nat) (rest : Str) : StopsAt isAtomChar (search_numsText ns ++ 13 :: rest) := by
  cases ns with
  | nil => exact StopsAt.cons _ (by decide)
  | cons n t => rw [search_numsText_cons]; exact StopsAt.cons _ (by decide)

theorem search_length_le_numsText (ns : List Nat) : ns.length ≤ (search_numsText ns).length := by
  induction ns with
  | nil => simp
  | cons n t ih => rw [search_numsText_cons]; simp only [List.length_cons, List.length_append]; omega

theorem search_digit_ne {a : Nat} (ha : isDigitB a = true) : a ≠ 13 ∧ a ≠ 10 := by
  constructor <;> (intro e; rw [e] at ha; exact absurd ha (by decide))

/-- `for dec.SP() { ExpectNumber }` reads the numbers back and stops in front of the CR -/
theorem search_readNums (ns : List Nat) (h : ∀ n ∈ ns, n < 4294967296) (rest : Str) :
    ∀ fuel, ns.length < fuel → readSearchNums fuel (search_numsText ns ++ 13 :: rest) = some (ns, 13 :: rest) := by
  induction ns with
  | nil =>
    intro fuel hf
    cases fuel with
    | zero => omega
    | succ f =>
      show readSearchNums (f + 1) (13 :: rest) = _
      simp [readSearchNums, search_decSP_cr]
  | cons n t ih =>
    intro fuel hf
    cases fuel with
    | zero => omega
    | succ f =>
      obtain ⟨_, h2, h3⟩ := encNumber_spec n
      have ih' := ih (fun m hm => h m (by simp [hm])) f (by simp at hf; omega)
      have hdec := decNumber_encNumber n (h n (by simp)) (search_numsText t ++ 13 :: rest) (search_numsText_stops t rest)
      cases hd : encNumber n with
      | nil => exact absurd hd h3
      | cons a l =>
        have ha : isDigitB a = true := h2 a (by rw [hd]; simp)
        obtain ⟨h13, h10⟩ := search_digit_ne ha
        rw [hd] at hdec
        rw [search_numsText_cons, hd]
        simp only [List.cons_append, List.append_assoc] at hdec ⊢
        simp only [readSearchNums, search_decSP_sp a _ h13 h10, hdec, ih', Option.map_some]

theorem search_dispatch (r : Str) :
    dispatchData 0 (asc "SEARCH") r = (readSearchNums (r.length + 1) r).map fun (l, r') => (Event.search l, r') := by
  simp [dispatchData, asc]

/-- `* SEARCH n1 n2 … CRLF` (search.go writeSearch) is read as the search event of the same numbers -/
theorem search_line (ns : List Nat) (h : ∀ n ∈ ns, n < 4294967296) :
    ReadsAs (asc "* SEARCH" ++ ns.flatMap (fun n => 32 :: encNumber n) ++ CRLFb) (Event.search ns) := by
  constructor
  · simp [asc]
  · intro rest
    have e : asc "* SEARCH" ++ ns.flatMap (fun n => 32 :: encNumber n) ++ CRLFb ++ rest =
        42 :: 32 :: 83 :: (asc "EARCH" ++ (search_numsText ns ++ 13 :: 10 :: rest)) := by
      simp [asc, CRLFb, search_numsText, List.append_assoc]
    rw [e, readResponse_star 83 _ (by decide) (by decide)]
    have e2 : 83 :: (asc "EARCH" ++ (search_numsText ns ++ 13 :: 10 :: rest)) = asc "SEARCH" ++ (search_numsText ns ++ 13 :: 10 :: rest) := by
      simp [asc]
    rw [e2, readUntagged_name (asc "SEARCH") _ (isName_of _ (by decide)) (search_numsText_stops_atom ns _), search_dispatch,
      search_readNums ns h (10 :: rest) _ (by have := search_length_le_numsText ns; simp only [List.length_append]; omega)]
    exact finishLine_crlf _ _

example : ReadsAs (asc "* SEARCH 2 84 4294967295\r\n") (Event.search [2, 84, 4294967295]) := by
  have h := search_line [2, 84, 4294967295] (by decide)
  have e : asc "* SEARCH" ++ [2, 84, 4294967295].flatMap (fun n => 32 :: encNumber n) ++ CRLFb = asc "* SEARCH 2 84 4294967295\r\n" := by
    decide +kernel
  rwa [e] at h

example : ReadsAs (asc "* SEARCH\r\n") (Event.search []) := search_line [] (by simp)

/-! ### B. the ESEARCH form -/

/-- one `name SP value` pair of an ESEARCH response -/
inductive search_Item where
  | min (v : Nat)
  | max (v : Nat)
  | count (v : Nat)
  | all (set : NumSet.Set)

/-- Encoder.NumSet: the text of a number set -/
def search_setText (s : NumSet.Set) : Str := (NumSet.toChars s).map Char.toNat

def search_Item.name : search_Item → Str
  | .min _ => asc "MIN"
  | .max _ => asc "MAX"
  | .count _ => asc "COUNT"
  | .all _ => asc "ALL"

def search_Item.text : search_Item → Str
  | .min v => encNumber v
  | .max v => encNumber v
  | .count v => encNumber v
  | .all s => search_setText s

/-- what the client does with the pair -/
def search_Item.upd : search_Item → SearchData → SearchData
  | .min v, d => { d with min := v }
  | .max v, d => { d with max := v }
  | .count v, d => { d with count := v }
  | .all s, d => { d with all := some (d.uid, s) }

def search_Item.Ok : search_Item → Prop
  | .min v => v < 4294967296
  | .max v => v < 4294967296
  | .count v => v < 4294967296
  | .all s => NumSet.Canon s ∧ s ≠ [] ∧ NumSet.dynamic s = false

/-! #### the text of a number set -/

theorem search_rangeChars (r : NumSet.Range) : ∀ c ∈ r.toChars, NumSet.IsDig c ∨ c = ':' ∨ c = '*' ∨ c = ',' := by
  have hd : ∀ n c, c ∈ NumSet.digits n → NumSet.IsDig c := fun n c h => (NumSet.digits_spec n).2.1 c h
  rcases NumSet.toChars_cases r with ⟨_, e⟩ | ⟨_, _, e⟩ | ⟨_, _, _, e⟩ | ⟨_, _, _, e⟩ <;> rw [e] <;> intro c hc
  · simp only [List.mem_singleton] at hc; exact Or.inr (Or.inr (Or.inl hc))
  · exact Or.inl (hd _ _ hc)
  · simp only [List.mem_append, List.mem_cons, List.not_mem_nil, or_false] at hc
    rcases hc with h | h | h
    · exact Or.inl (hd _ _ h)
    · exact Or.inr (Or.inl h)
    · exact Or.inr (Or.inr (Or.inl h))
  · simp only [List.mem_append, List.mem_cons] at hc
    rcases hc with h | h | h
    · exact Or.inl (hd _ _ h)
    · exact Or.inr (Or.inl h)
    · exact Or.inl (hd _ _ h)

theorem search_rangeChars_ne (r : NumSet.Range) : r.toChars ≠ [] := by
  have hd : ∀ n, NumSet.digits n ≠ [] := fun n => (NumSet.digits_spec n).2.2.1
  rcases NumSet.toChars_cases r with ⟨_, e⟩ | ⟨_, _, e⟩ | ⟨_, _, _, e⟩ | ⟨_, _, _, e⟩ <;> rw [e]
  · simp
  · exact hd _
  · simp
  · simp

theorem search_setChars (s : NumSet.Set) : ∀ c ∈ NumSet.toChars s, NumSet.IsDig c ∨ c = ':' ∨ c = '*' ∨ c = ',' := by
  induction s with
  | nil => intro c hc; cases hc
  | cons r rest ih =>
    cases rest with
    | nil => exact search_rangeChars r
    | cons r' rest' =>
      intro c hc
      have e : NumSet.toChars (r :: r' :: rest') = r.toChars ++ ',' :: NumSet.toChars (r' :: rest') := rfl
      rw [e] at hc
      simp only [List.mem_append, List.mem_cons] at hc
      rcases hc with h | h | h
      · exact search_rangeChars r c h
      · exact Or.inr (Or.inr (Or.inr h))
      · exact ih c h

theorem search_setChars_ne (s : NumSet.Set) (h : s ≠ []) : NumSet.toChars s ≠ [] := by
  cases s with
  | nil => exact absurd rfl h
  | cons r rest =>
    cases rest with
    | nil => exact search_rangeChars_ne r
    | cons r' rest' =>
      have e : NumSet.toChars (r :: r' :: rest') = r.toChars ++ ',' :: NumSet.toChars (r' :: rest') := rfl
      rw [e]; simp

theorem search_setChar_ok {c : Char} (h : NumSet.IsDig c ∨ c = ':' ∨ c = '*' ∨ c = ',') :
    (c.toNat = 42 || isAtomChar c.toNat) = true := by
  rcases h with h | rfl | rfl | rfl
  · have := isAtomChar_of_digit (isDig_toNat h).1
    simp [this]
  · decide
  · decide
  · decide

theorem search_setText_chars (s : NumSet.Set) : ∀ x ∈ search_setText s, (x = 42 || isAtomChar x) = true := by
  intro x hx
  unfold search_setText at hx
  obtain ⟨c, hc, rfl⟩ := List.mem_map.mp hx
  exact search_setChar_ok (search_setChars s c hc)

theorem search_setText_ne (s : NumSet.Set) (h : s ≠ []) : search_setText s ≠ [] := by
  unfold search_setText
  intro e
  exact search_setChars_ne s h (List.map_eq_nil_iff.mp e)

/-- Decoder.ExpectNumSet reads the text of a canonical set back -/
theorem search_decNumSetText (s : NumSet.Set) (hc : NumSet.Canon s) (hne : s ≠ []) (r : Str)
    (hr : StopsAt (fun c => c = 42 || isAtomChar c) r) : decNumSetText (search_setText s ++ r) = some (s, r) := by
  unfold decNumSetText
  rw [spanB_append _ _ _ (search_setText_chars s) hr]
  cases ht : search_setText s with
  | nil => exact absurd ht (search_setText_ne s hne)
  | cons a l =>
    simp only []
    rw [← ht]
    unfold search_setText
    have hid : (Char.ofNat ∘ Char.toNat) = id := funext Char.ofNat_toNat
    rw [List.map_map, hid, List.map_id, NumSet.parseSet_toChars s hc hne]
    rfl

/-! #### one pair -/

/-- what follows a value: the SP before the next name, or the CR that ends the line -/
def search_End (r : Str) : Prop := ∃ c t, r = c :: t ∧ (c = 32 ∨ c = 13)

theorem search_End.stopsDigit {r : Str} (h : search_End r) : StopsAt isDigitB r := by
  obtain ⟨c, t, rfl, hc | hc⟩ := h <;> subst hc <;> exact StopsAt.cons _ (by decide)

theorem search_End.stopsSet {r : Str} (h : search_End r) : StopsAt (fun c => c = 42 || isAtomChar c) r := by
  obtain ⟨c, t, rfl, hc | hc⟩ := h <;> subst hc <;> exact StopsAt.cons _ (by decide)

theorem search_head_of (p : Nat → Bool) (l : Str) (hne : l ≠ []) (hall : ∀ x ∈ l, p x = true) (h13 : p 13 = false)
    (h10 : p 10 = false) : ∃ c t, l = c :: t ∧ c ≠ 13 ∧ c ≠ 10 := by
  cases l with
  | nil => exact absurd rfl hne
  | cons c t =>
    have hc := hall c (by simp)
    refine ⟨c, t, rfl, ?_, ?_⟩
    · intro e; rw [e, h13] at hc; cases hc
    · intro e; rw [e, h10] at hc; cases hc

theorem search_text_head (it : search_Item) (hok : it.Ok) : ∃ c t, it.text = c :: t ∧ c ≠ 13 ∧ c ≠ 10 := by
  cases it with
  | min v => obtain ⟨_, h2, h3⟩ := encNumber_spec v; exact search_head_of isDigitB _ h3 h2 (by decide) (by decide)
  | max v => obtain ⟨_, h2, h3⟩ := encNumber_spec v; exact search_head_of isDigitB _ h3 h2 (by decide) (by decide)
  | count v => obtain ⟨_, h2, h3⟩ := encNumber_spec v; exact search_head_of isDigitB _ h3 h2 (by decide) (by decide)
  | all s =>
    exact search_head_of (fun c => c = 42 || isAtomChar c) _ (search_setText_ne s hok.2.1) (search_setText_chars s)
      (by decide) (by decide)

theorem search_name_head (it : search_Item) : ∃ c t, it.name = c :: t ∧ c ≠ 13 ∧ c ≠ 10 := by
  cases it <;> exact ⟨_, _, rfl, by decide, by decide⟩

theorem search_name_atom (it : search_Item) : it.name ≠ [] ∧ ∀ x ∈ it.name, isAtomChar x = true := by
  cases it <;> simp only [search_Item.name] <;> exact ⟨by decide, by decide⟩

/-- the tail of `readESearchItems` after a value was read -/
def search_cont (fuel : Nat) (d' : SearchData) (r' : Str) : Option (SearchData × Str) :=
  match decSP r' with
  | (false, r'') => some (d', r'')
  | (true, r'') => (tryAtom r'').bind fun (name', r3) => readESearchItems fuel d' name' r3

theorem search_cont_last (fuel : Nat) (d' : SearchData) (r : Str) : search_cont fuel d' (13 :: r) = some (d', 13 :: r) := by
  simp [search_cont, search_decSP_cr]

theorem search_cont_more (fuel : Nat) (d' : SearchData) (it : search_Item) (more : Str) :
    search_cont fuel d' (32 :: (it.name ++ 32 :: more)) = readESearchItems fuel d' it.name (32 :: more) := by
  obtain ⟨c, t, e, h13, h10⟩ := search_name_head it
  have hta := tryAtom_append it.name (32 :: more) (search_name_atom it).1 (search_name_atom it).2 (StopsAt.cons _ (by decide))
  rw [e] at hta ⊢
  simp only [List.cons_append] at hta ⊢
  simp [search_cont, search_decSP_sp c _ h13 h10, hta]

theorem search_items_step (it : search_Item) (hok : it.Ok) (fuel : Nat) (d : SearchData) (r' : Str) (hr' : search_End r') :
    readESearchItems (fuel + 1) d it.name (32 :: (it.text ++ r')) = search_cont fuel (it.upd d) r' := by
  have hsp : expectSP (32 :: (it.text ++ r')) = some (it.text ++ r') := by
    obtain ⟨c, t, e, h13, h10⟩ := search_text_head it hok
    rw [e]; exact expectSP_sp c _ h13 h10
  rw [readESearchItems, hsp]
  cases it with
  | min v =>
    have hv := decNumber_encNumber v hok r' hr'.stopsDigit
    have hu : toUpper (asc "MIN") = asc "MIN" := by decide
    simp only [search_Item.name, search_Item.text, search_Item.upd, hu, hv, if_true, Option.map_some]
    rfl
  | max v =>
    have hv := decNumber_encNumber v hok r' hr'.stopsDigit
    have hu : toUpper (asc "MAX") = asc "MAX" := by decide
    have n1 : ¬ (asc "MAX" = asc "MIN") := by decide
    simp only [search_Item.name, search_Item.text, search_Item.upd, hu, hv, n1, if_true, if_false, Option.map_some]
    rfl
  | count v =>
    have hv := decNumber_encNumber v hok r' hr'.stopsDigit
    have hu : toUpper (asc "COUNT") = asc "COUNT" := by decide
    have n1 : ¬ (asc "COUNT" = asc "MIN") := by decide
    have n2 : ¬ (asc "COUNT" = asc "MAX") := by decide
    simp only [search_Item.name, search_Item.text, search_Item.upd, hu, hv, n1, n2, if_true, if_false, Option.map_some]
    rfl
  | all s =>
    have hv := search_decNumSetText s hok.1 hok.2.1 r' hr'.stopsSet
    have hu : toUpper (asc "ALL") = asc "ALL" := by decide
    have n1 : ¬ (asc "ALL" = asc "MIN") := by decide
    have n2 : ¬ (asc "ALL" = asc "MAX") := by decide
    have n3 : ¬ (asc "ALL" = asc "COUNT") := by decide
    simp only [search_Item.name, search_Item.text, search_Item.upd, hu, hv, n1, n2, n3, if_true, if_false, Option.bind_some,
      hok.2.2, Bool.false_eq_true]
    rfl

/-! #### a run of pairs -/

def search_itemsText : List search_Item → Str
  | [] => []
  | it :: r => 32 :: (it.name ++ 32 :: (it.text ++ search_itemsText r))

/-- the data after all pairs were read -/
def search_apply (its : List search_Item) (d : SearchData) : SearchData := its.foldl (fun d x => x.upd d) d

theorem search_items_all : ∀ (its : List search_Item) (it : search_Item) (fuel : Nat) (d : SearchData) (rest : Str),
    its.length < fuel → it.Ok → (∀ x ∈ its, x.Ok) →
    readESearchItems fuel d it.name (32 :: (it.text ++ (search_itemsText its ++ 13 :: rest))) =
      some (search_apply (it :: its) d, 13 :: rest) := by
  intro its
  induction its with
  | nil =>
    intro it fuel d rest hf hok _
    cases fuel with
    | zero => omega
    | succ f =>
      show readESearchItems (f + 1) d it.name (32 :: (it.text ++ 13 :: rest)) = _
      rw [search_items_step it hok f d _ ⟨13, rest, rfl, Or.inr rfl⟩, search_cont_last]
      rfl
  | cons y ys ih =>
    intro it fuel d rest hf hok hall
    cases fuel with
    | zero => omega
    | succ f =>
      have e : search_itemsText (y :: ys) ++ 13 :: rest = 32 :: (y.name ++ 32 :: (y.text ++ (search_itemsText ys ++ 13 :: rest))) := by
        simp [search_itemsText, List.append_assoc]
      rw [e, search_items_step it hok f d _ ⟨32, _, rfl, Or.inl rfl⟩, search_cont_more,
        ih y f (it.upd d) rest (by simp at hf; omega) (hall y (by simp)) (fun x hx => hall x (by simp [hx]))]
      rfl

/-! #### the whole response -/

theorem search_length_le_itemsText (its : List search_Item) : its.length ≤ (search_itemsText its).length := by
  induction its with
  | nil => simp
  | cons y ys ih => simp only [search_itemsText, List.length_cons, List.length_append]; omega

theorem search_itemsText_stops (its : List search_Item) (rest : Str) : StopsAt isAtomChar (search_itemsText its ++ 13 :: rest) := by
  cases its with
  | nil => exact StopsAt.cons _ (by decide)
  | cons y ys => exact StopsAt.cons _ (by decide)

theorem search_name_ne_uid (it : search_Item) : ¬ (it.name = asc "UID") := by
  cases it <;> simp only [search_Item.name] <;> decide

theorem search_decAString_tag (tag : Str) (ht : IsTag tag) (tail : Str) :
    decAString (tag ++ 41 :: tail) = some (tag, 41 :: tail) := by
  have hta := tryAtom_append tag (41 :: tail) ht.ne ht.atom (StopsAt.cons _ (by decide))
  cases htag : tag with
  | nil => exact absurd htag ht.ne
  | cons a t =>
    have ha : isAtomChar a = true := ht.atom a (by rw [htag]; simp)
    have h34 : a ≠ 34 := by intro e; rw [e] at ha; exact absurd ha (by decide)
    have h123 : a ≠ 123 := by intro e; rw [e] at ha; exact absurd ha (by decide)
    rw [htag] at hta
    simp only [List.cons_append] at hta ⊢
    unfold decAString
    split
    · rename_i heq; injection heq with e _; exact absurd e h34
    · rename_i heq; injection heq with e _; exact absurd e h123
    · exact hta

/-- the first pair of a run, seen from `readESearch` (which has just read the name) -/
theorem search_first (y : search_Item) (ys : List search_Item) (hok : ∀ x ∈ y :: ys, x.Ok) (d : SearchData) (rest : Str) :
    decSP (search_itemsText (y :: ys) ++ 13 :: rest) = (true, y.name ++ 32 :: (y.text ++ (search_itemsText ys ++ 13 :: rest))) ∧
    tryAtom (y.name ++ 32 :: (y.text ++ (search_itemsText ys ++ 13 :: rest))) =
      some (y.name, 32 :: (y.text ++ (search_itemsText ys ++ 13 :: rest))) ∧
    (∀ fuel, (search_itemsText ys).length < fuel → readESearchItems fuel d y.name
      (32 :: (y.text ++ (search_itemsText ys ++ 13 :: rest))) = some (search_apply (y :: ys) d, 13 :: rest)) := by
  obtain ⟨c, t, e, h13, h10⟩ := search_name_head y
  refine ⟨?_, ?_, ?_⟩
  · have e1 : search_itemsText (y :: ys) ++ 13 :: rest = 32 :: c :: (t ++ 32 :: (y.text ++ (search_itemsText ys ++ 13 :: rest))) := by
      simp [search_itemsText, e, List.append_assoc]
    rw [e1, search_decSP_sp c _ h13 h10, e]; rfl
  · exact tryAtom_append y.name _ (search_name_atom y).1 (search_name_atom y).2 (StopsAt.cons _ (by decide))
  · intro fuel hf
    apply search_items_all ys y _ d rest _ (hok y (by simp)) (fun x hx => hok x (by simp [hx]))
    have := search_length_le_itemsText ys
    omega

theorem search_readESearch (tag : Str) (ht : IsTag tag) (uid : Bool) (its : List search_Item) (hok : ∀ x ∈ its, x.Ok) (rest : Str) :
    readESearch (40 :: (asc "TAG" ++ 32 :: (tag ++ 41 :: ((if uid then asc " UID" else []) ++ (search_itemsText its ++ 13 :: rest))))) =
      some (tag, search_apply its { all := none, uid := uid, min := 0, max := 0, count := 0 }, 13 :: rest) := by
  obtain ⟨a, t, htag, h13, h10⟩ := search_head_of isAtomChar tag ht.ne ht.atom (by decide) (by decide)
  have h1 : ∀ tail, tryAtom (asc "TAG" ++ 32 :: (tag ++ 41 :: tail)) = some (asc "TAG", 32 :: (tag ++ 41 :: tail)) :=
    fun tail => tryAtom_append _ _ (by decide) (by decide) (StopsAt.cons _ (by decide))
  have h2 : ∀ tail, expectSP (32 :: (tag ++ 41 :: tail)) = some (tag ++ 41 :: tail) := by
    intro tail; rw [htag]; exact expectSP_sp a _ h13 h10
  have h3 := search_decAString_tag tag ht
  have hU : ∀ x, asc " UID" ++ x = 32 :: (asc "UID" ++ x) := fun x => by simp [asc]
  have hUsp : ∀ x, decSP (32 :: (asc "UID" ++ x)) = (true, asc "UID" ++ x) := fun x => by simp [asc, decSP]
  have hUat : tryAtom (asc "UID" ++ (search_itemsText its ++ 13 :: rest)) = some (asc "UID", search_itemsText its ++ 13 :: rest) :=
    tryAtom_append _ _ (by decide) (by decide) (search_itemsText_stops its rest)
  unfold readESearch
  cases uid with
  | true =>
    cases its with
    | nil =>
      have hUat' : tryAtom (asc "UID" ++ 13 :: rest) = some (asc "UID", 13 :: rest) := hUat
      simp [h1, h2, h3, hU, hUsp, hUat', search_decSP_cr, search_itemsText, search_apply]
    | cons y ys =>
      obtain ⟨f1, f2, f3⟩ := search_first y ys hok { all := none, uid := true, min := 0, max := 0, count := 0 } rest
      simp [h1, h2, h3, hU, hUsp, hUat, f1, f2]
      rw [f3 _ (by omega)]; rfl
  | false =>
    cases its with
    | nil => simp [h1, h2, h3, search_decSP_cr, search_itemsText, search_apply]
    | cons y ys =>
      obtain ⟨f1, f2, f3⟩ := search_first y ys hok { all := none, uid := false, min := 0, max := 0, count := 0 } rest
      simp [h1, h2, h3, f1, f2, search_name_ne_uid y]
      rw [f3 _ (by omega)]; rfl

/-! #### `printSearch` against the reader -/

/-- the pairs `writeESearch` sends -/
def search_items (e : SearchOpts) (d : SearchData) (set : NumSet.Set) : List search_Item :=
  (if e.all && !set.isEmpty then [search_Item.all set] else []) ++
  (if e.min && d.min > 0 then [search_Item.min d.min] else []) ++
  (if e.max && d.max > 0 then [search_Item.max d.max] else []) ++
  (if e.count then [search_Item.count d.count] else [])

theorem search_itemsText_append (a b : List search_Item) : search_itemsText (a ++ b) = search_itemsText a ++ search_itemsText b := by
  induction a with
  | nil => rfl
  | cons x xs ih => simp [search_itemsText, ih, List.append_assoc]

theorem search_print (cfg : Cfg) (tag : Str) (o : Option SearchOpts) (d : SearchData) (kind : Bool) (set : NumSet.Set)
    (hall : d.all = some (kind, set)) (hes : isESearch cfg o = true) :
    printSearch cfg tag o d = some (asc "* ESEARCH (TAG " ++ tag ++ [41] ++ (if d.uid then asc " UID" else []) ++
      search_itemsText (search_items (searchOpts o) d set) ++ CRLFb) := by
  unfold printSearch
  rw [hall]
  simp only [hes, if_true]
  generalize searchOpts o = e
  have pA : (if (e.all && !set.isEmpty) = true then (encNumSet set).map (asc " ALL " ++ ·) else some []) =
      some (search_itemsText (if (e.all && !set.isEmpty) = true then [search_Item.all set] else [])) := by
    by_cases h : (e.all && !set.isEmpty) = true
    · have hne : set.isEmpty = false := by
        simp only [Bool.and_eq_true, Bool.not_eq_true'] at h; exact h.2
      rw [if_pos h, if_pos h]
      simp [encNumSet, hne, search_itemsText, search_Item.name, search_Item.text, search_setText, asc]
    · rw [if_neg h, if_neg h]; rfl
  have pm : search_itemsText (if (e.min && decide (d.min > 0)) = true then [search_Item.min d.min] else []) =
      (if (e.min && decide (d.min > 0)) = true then asc " MIN " ++ encNumber d.min else []) := by
    by_cases h : (e.min && decide (d.min > 0)) = true <;> simp [h, search_itemsText, search_Item.name, search_Item.text, asc]
  have pM : search_itemsText (if (e.max && decide (d.max > 0)) = true then [search_Item.max d.max] else []) =
      (if (e.max && decide (d.max > 0)) = true then asc " MAX " ++ encNumber d.max else []) := by
    by_cases h : (e.max && decide (d.max > 0)) = true <;> simp [h, search_itemsText, search_Item.name, search_Item.text, asc]
  have pc : search_itemsText (if e.count = true then [search_Item.count d.count] else []) =
      (if e.count = true then asc " COUNT " ++ encNumber d.count else []) := by
    by_cases h : e.count = true <;> simp [h, search_itemsText, search_Item.name, search_Item.text, asc]
  simp only [pA, Option.map_some, search_items, search_itemsText_append, pm, pM, pc, List.append_assoc]

theorem search_items_ok (e : SearchOpts) (d : SearchData) (set : NumSet.Set) (hc : NumSet.Canon set)
    (hd : NumSet.dynamic set = false) (hmin : d.min < 4294967296) (hmax : d.max < 4294967296) (hcount : d.count < 4294967296) :
    ∀ x ∈ search_items e d set, x.Ok := by
  intro x hx
  simp only [search_items, List.mem_append] at hx
  rcases hx with ((hx | hx) | hx) | hx
  · by_cases h : (e.all && !set.isEmpty) = true
    · rw [if_pos h, List.mem_singleton] at hx
      subst hx
      refine ⟨hc, ?_, hd⟩
      intro e0; subst e0; simp at h
    · rw [if_neg h] at hx; cases hx
  · by_cases h : (e.min && decide (d.min > 0)) = true
    · rw [if_pos h, List.mem_singleton] at hx; subst hx; exact hmin
    · rw [if_neg h] at hx; cases hx
  · by_cases h : (e.max && decide (d.max > 0)) = true
    · rw [if_pos h, List.mem_singleton] at hx; subst hx; exact hmax
    · rw [if_neg h] at hx; cases hx
  · by_cases h : e.count = true
    · rw [if_pos h, List.mem_singleton] at hx; subst hx; exact hcount
    · rw [if_neg h] at hx; cases hx

theorem search_pos_if (b : Bool) (v : Nat) : (if (b && decide (v > 0)) = true then v else 0) = if b = true then v else 0 := by
  cases b
  · simp
  · by_cases h : 0 < v
    · simp [h]
    · have : v = 0 := by omega
      simp [this]

theorem search_apply_items (e : SearchOpts) (d : SearchData) (set : NumSet.Set) (uid : Bool) :
    search_apply (search_items e d set) { all := none, uid := uid, min := 0, max := 0, count := 0 } =
      { all := if e.all && !set.isEmpty then some (uid, set) else none,
        uid := uid,
        min := if e.min then d.min else 0,
        max := if e.max then d.max else 0,
        count := if e.count then d.count else 0 } := by
  rw [← search_pos_if e.min d.min, ← search_pos_if e.max d.max]
  unfold search_apply search_items
  by_cases hA : (e.all && !set.isEmpty) = true <;> by_cases hm : (e.min && decide (d.min > 0)) = true <;>
    by_cases hM : (e.max && decide (d.max > 0)) = true <;> by_cases hc : e.count = true <;>
    simp only [hA, hm, hM, hc, if_true, if_false, List.foldl_append, List.foldl_cons, List.foldl_nil, search_Item.upd,
      List.append_nil, List.nil_append, Bool.false_eq_true]

theorem search_dispatch_e (r : Str) :
    dispatchData 0 (asc "ESEARCH") r =
      (expectSP r).bind fun r => (readESearch r).map fun (tag, d, r') => (Event.esearch tag d, r') := by
  simp [dispatchData, asc]

/-- `* ESEARCH (TAG "tag") [UID] [ALL set] [MIN n] [MAX n] [COUNT n] CRLF` (search.go writeESearch) is read as the
    ESEARCH event of the command `tag`; the data are those the options select (a MIN / MAX of 0 is not sent and reads
    back as 0; an empty ALL set is not sent and reads back as a nil set) -/
theorem esearch_line (cfg : Cfg) (tag : Str) (o : Option SearchOpts) (d : SearchData) (kind : Bool) (set : NumSet.Set)
    (hes : isESearch cfg o = true) (hall : d.all = some (kind, set)) (ht : IsTag tag)
    (hc : NumSet.Canon set) (hd : NumSet.dynamic set = false)
    (hmin : d.min < 4294967296) (hmax : d.max < 4294967296) (hcount : d.count < 4294967296) :
    ∃ b, printSearch cfg tag o d = some b ∧
      ReadsAs b (Event.esearch tag
        { all := if (searchOpts o).all && !set.isEmpty then some (d.uid, set) else none,
          uid := d.uid,
          min := if (searchOpts o).min then d.min else 0,
          max := if (searchOpts o).max then d.max else 0,
          count := if (searchOpts o).count then d.count else 0 }) := by
  refine ⟨_, search_print cfg tag o d kind set hall hes, ?_, ?_⟩
  · simp [asc]
  · intro rest
    have hok := search_items_ok (searchOpts o) d set hc hd hmin hmax hcount
    generalize hits : search_items (searchOpts o) d set = its at hok ⊢
    have e : asc "* ESEARCH (TAG " ++ tag ++ [41] ++ (if d.uid then asc " UID" else []) ++ search_itemsText its ++ CRLFb ++ rest =
        42 :: 32 :: 69 :: (asc "SEARCH" ++ 32 :: 40 :: (asc "TAG" ++ 32 :: (tag ++ 41 :: ((if d.uid then asc " UID" else []) ++
          (search_itemsText its ++ 13 :: 10 :: rest))))) := by
      simp [asc, CRLFb, List.append_assoc]
    rw [e, readResponse_star 69 _ (by decide) (by decide)]
    have e2 : ∀ x, 69 :: (asc "SEARCH" ++ x) = asc "ESEARCH" ++ x := fun x => by simp [asc]
    rw [e2, readUntagged_name (asc "ESEARCH") _ (isName_of _ (by decide)) (StopsAt.cons _ (by decide)), search_dispatch_e,
      expectSP_sp 40 _ (by decide) (by decide)]
    simp only [Option.bind_some]
    rw [search_readESearch tag ht d.uid its hok (10 :: rest)]
    simp only [Option.map_some]
    rw [← hits, search_apply_items]
    exact finishLine_crlf _ _

theorem search_opts_some (e : SearchOpts) (h : (e.min || e.max || e.all || e.count) = true) : searchOpts (some e) = e := by
  cases e with
  | mk a b c d => revert h; cases a <;> cases b <;> cases c <;> cases d <;> decide

/-- `esearch_line` for explicitly given return options -/
theorem esearch_line_opts (cfg : Cfg) (tag : Str) (e : SearchOpts) (d : SearchData) (kind : Bool) (set : NumSet.Set)
    (he : (e.min || e.max || e.all || e.count) = true) (hall : d.all = some (kind, set)) (ht : IsTag tag)
    (hc : NumSet.Canon set) (hd : NumSet.dynamic set = false)
    (hmin : d.min < 4294967296) (hmax : d.max < 4294967296) (hcount : d.count < 4294967296) :
    ∃ b, printSearch cfg tag (some e) d = some b ∧
      ReadsAs b (Event.esearch tag
        { all := if e.all && !set.isEmpty then some (d.uid, set) else none,
          uid := d.uid,
          min := if e.min then d.min else 0,
          max := if e.max then d.max else 0,
          count := if e.count then d.count else 0 }) := by
  have hes : isESearch cfg (some e) = true := by simp [isESearch, he]
  have := esearch_line cfg tag (some e) d kind set hes hall ht hc hd hmin hmax hcount
  rw [search_opts_some e he] at this
  exact this

theorem search_isTag_T1 : IsTag (asc "T1") := by
  refine ⟨by decide, by decide, ?_⟩
  intro c t h
  have e : asc "T1" = 84 :: [49] := by decide
  rw [e] at h
  injection h with h1 _
  omega

/-- UID SEARCH RETURN (MIN ALL COUNT): MAX is not asked for and reads back as 0 -/
example : ReadsAs (asc "* ESEARCH (TAG T1) UID ALL 1:3,5 MIN 1 COUNT 4\r\n")
    (Event.esearch (asc "T1") { all := some (true, [⟨1, 3⟩, ⟨5, 5⟩]), uid := true, min := 1, max := 0, count := 4 }) := by
  obtain ⟨b, hb, hr⟩ := esearch_line_opts .plain (asc "T1") { min := true, max := false, all := true, count := true }
    { all := some (false, [⟨1, 3⟩, ⟨5, 5⟩]), uid := true, min := 1, max := 5, count := 4 } false [⟨1, 3⟩, ⟨5, 5⟩]
    (by decide) rfl search_isTag_T1 ((NumSet.canonical_iff _).1 (by decide)) (by decide) (by decide) (by decide) (by decide)
  have hp : printSearch .plain (asc "T1") (some { min := true, max := false, all := true, count := true })
      { all := some (false, [⟨1, 3⟩, ⟨5, 5⟩]), uid := true, min := 1, max := 5, count := 4 } =
      some (asc "* ESEARCH (TAG T1) UID ALL 1:3,5 MIN 1 COUNT 4\r\n") := by decide +kernel
  rw [hp] at hb
  injection hb with hb
  subst hb
  exact hr

/-- IMAP4rev2 without return options: ALL is assumed; nothing found -/
example : ∃ b, printSearch .rev2 (asc "T1") none { all := some (false, []), uid := false, min := 0, max := 0, count := 0 } = some b ∧
    ReadsAs b (Event.esearch (asc "T1") { all := none, uid := false, min := 0, max := 0, count := 0 }) :=
  esearch_line .rev2 (asc "T1") none { all := some (false, []), uid := false, min := 0, max := 0, count := 0 } false []
    (by decide) rfl search_isTag_T1 trivial (by decide) (by decide) (by decide) (by decide)

/-! ### C. routing -/

theorem search_deliver_search (uidMode : Bool) (ns : List Nat) (tag typ : Str) (code : Code) :
    deliverSearch uidMode [Event.search ns, Event.done tag typ code] =
      { all := some (uidMode, ns.foldl NumSet.addNum []), uid := false, min := 0, max := 0, count := 0 } := rfl

theorem search_deliver_esearch (uidMode : Bool) (etag : Str) (d' : SearchData) (tag typ : Str) (code : Code) :
    deliverSearch uidMode [Event.esearch etag d', Event.done tag typ code] = d' := rfl

example : (deliverSearch true [Event.search [3, 1, 2], Event.done (asc "T1") (asc "OK") Code.none]).all = some (true, [⟨1, 3⟩]) := by
  rw [search_deliver_search]; decide

example : deliverSearch false [Event.esearch (asc "T1") { all := none, uid := true, min := 4, max := 0, count := 9 },
    Event.done (asc "T1") (asc "OK") Code.none] = { all := none, uid := true, min := 4, max := 0, count := 9 } :=
  search_deliver_esearch _ _ _ _ _ _

/-! ### D. the SEARCH form delivers the same set -/

theorem search_foldl_addNum (ns : List Nat) (h : ∀ n ∈ ns, n < NumSet.W) : ∀ s, NumSet.Canon s →
    NumSet.Canon (ns.foldl NumSet.addNum s) ∧
    ∀ q, q < NumSet.W → (ns.foldl NumSet.addNum s).any (fun r => r.contains q) =
      (s.any (fun r => r.contains q) || ns.any (fun n => (⟨n, n⟩ : NumSet.Range).contains q)) := by
  induction ns with
  | nil => intro s hs; exact ⟨hs, by intro q _; simp⟩
  | cons n t ih =>
    intro s hs
    have hw := NumSet.num_wf n (h n (by simp))
    have hs' : NumSet.Canon (NumSet.addNum s n) := NumSet.insert_canon s ⟨n, n⟩ hs hw
    obtain ⟨i1, i2⟩ := ih (fun m hm => h m (by simp [hm])) _ hs'
    refine ⟨i1, ?_⟩
    intro q hq
    have hins : (NumSet.addNum s n).any (fun r => r.contains q) =
        (s.any (fun r => r.contains q) || (⟨n, n⟩ : NumSet.Range).contains q) := NumSet.insert_any s ⟨n, n⟩ hs hw q hq
    rw [List.foldl_cons, i2 q hq, hins, List.any_cons, Bool.or_assoc]

/-- the set the client builds from the numbers of a SEARCH response (`AddNum` one by one) has the members of the
    set the server enumerated (`Nums`) -/
theorem search_same_set (set : NumSet.Set) (ns : List Nat) (hc : NumSet.Canon set) (hn : NumSet.nums set = some ns) :
    ∀ q, NumSet.contains (ns.foldl NumSet.addNum []) q = NumSet.contains set q := by
  have hdyn : NumSet.dynamic set = false := by
    cases hd : NumSet.dynamic set with
    | false => rfl
    | true => rw [NumSet.nums_none_of_dynamic set hd] at hn; cases hn
  have hst := NumSet.canon_allStatic set 0 hc hdyn
  have hen : ns = NumSetSpec.enumerate set := by
    rw [NumSet.nums_eq_enumerate set hst] at hn; injection hn with h; exact h.symm
  have hlt : ∀ n ∈ ns, n < NumSet.W ∧ n ≠ 0 := by
    intro n hn'
    rw [hen] at hn'
    obtain ⟨r, hr, h1, h2⟩ := (NumSet.mem_enumerate set n).1 hn'
    have hw := NumSet.CanonFrom.wf hc r hr
    have := hst r hr
    unfold NumSet.Range.WF at hw
    omega
  obtain ⟨hL, hany⟩ := search_foldl_addNum ns (fun n h => (hlt n h).1) [] trivial
  intro q
  by_cases h0 : q = 0
  · subst h0; simp [NumSet.contains]
  by_cases hW : q < NumSet.W
  · rw [NumSet.contains_eq_any _ 0 hL q h0, NumSet.contains_eq_any set 0 hc q h0, hany q hW, List.any_nil, Bool.false_or,
      Bool.eq_iff_iff, ← NumSet.mem_enumerate_iff_any set 0 hc hst q h0, ← hen, List.any_eq_true]
    constructor
    · rintro ⟨n, hn', hc'⟩
      rw [NumSet.Range.contains_iff] at hc'
      simp only at hc'
      have : n = q := by omega
      subst this; exact hn'
    · intro hq
      refine ⟨q, hq, ?_⟩
      rw [NumSet.Range.contains_iff]
      simp only
      omega
  · have hR : NumSet.contains set q = false := by
      rw [NumSet.contains_eq_any set 0 hc q h0, Bool.eq_false_iff]
      intro ha
      rw [List.any_eq_true] at ha
      obtain ⟨r, hr, hc'⟩ := ha
      rw [NumSet.Range.contains_iff] at hc'
      have hw := NumSet.CanonFrom.wf hc r hr
      have := hst r hr
      unfold NumSet.Range.WF at hw
      omega
    have hLq : NumSet.contains (ns.foldl NumSet.addNum []) q = false := by
      rw [NumSet.contains_eq_any _ 0 hL q h0, Bool.eq_false_iff]
      intro ha
      rw [List.any_eq_true] at ha
      obtain ⟨r, hr, hc'⟩ := ha
      have hz := hany 0 (by decide)
      have hz' : ns.any (fun n => (⟨n, n⟩ : NumSet.Range).contains 0) = false := by
        rw [Bool.eq_false_iff]
        intro hb
        rw [List.any_eq_true] at hb
        obtain ⟨n, hn', hb'⟩ := hb
        rw [NumSet.Range.contains_iff] at hb'
        simp only at hb'
        have := (hlt n hn').2
        omega
      rw [hz', List.any_nil, Bool.false_or] at hz
      have hr0 : r.contains 0 = false := by
        rw [Bool.eq_false_iff]
        intro hb
        have : (ns.foldl NumSet.addNum []).any (fun r => r.contains 0) = true := List.any_eq_true.2 ⟨r, hr, hb⟩
        rw [hz] at this; cases this
      have hstop : r.stop ≠ 0 := by
        intro e0
        rw [NumSet.Range.contains_zero, e0] at hr0
        simp at hr0
      rw [NumSet.Range.contains_iff] at hc'
      have hw := NumSet.CanonFrom.wf hL r hr
      unfold NumSet.Range.WF at hw
      omega
    rw [hR, hLq]

example : NumSet.nums [⟨1, 3⟩, ⟨5, 5⟩] = some [1, 2, 3, 5] ∧
    ∀ q, NumSet.contains ([1, 2, 3, 5].foldl NumSet.addNum []) q = NumSet.contains [⟨1, 3⟩, ⟨5, 5⟩] q :=
  ⟨by decide, search_same_set [⟨1, 3⟩, ⟨5, 5⟩] [1, 2, 3, 5] ((NumSet.canonical_iff _).1 (by decide)) (by decide)⟩

/-- the numbers `Nums` enumerates from a canonical set are below 2^32 -/
theorem search_nums_lt (set : NumSet.Set) (ns : List Nat) (hc : NumSet.Canon set) (hn : NumSet.nums set = some ns) :
    ∀ n ∈ ns, n < 4294967296 := by
  have hdyn : NumSet.dynamic set = false := by
    cases hd : NumSet.dynamic set with
    | false => rfl
    | true => rw [NumSet.nums_none_of_dynamic set hd] at hn; cases hn
  have hst := NumSet.canon_allStatic set 0 hc hdyn
  rw [NumSet.nums_eq_enumerate set hst] at hn
  injection hn with hen
  intro n hn'
  rw [← hen] at hn'
  obtain ⟨r, hr, h1, h2⟩ := (NumSet.mem_enumerate set n).1 hn'
  have hw := NumSet.CanonFrom.wf hc r hr
  have := hst r hr
  unfold NumSet.Range.WF at hw
  simp only [NumSet.W] at hw
  omega

/-- the SEARCH form of `printSearch` (no ESEARCH): the client reads the numbers of the set back -/
theorem search_line_print (cfg : Cfg) (tag : Str) (o : Option SearchOpts) (d : SearchData) (kind : Bool) (set : NumSet.Set)
    (ns : List Nat) (hes : isESearch cfg o = false) (hall : d.all = some (kind, set)) (hc : NumSet.Canon set)
    (hn : NumSet.nums set = some ns) :
    ∃ b, printSearch cfg tag o d = some b ∧ ReadsAs b (Event.search ns) := by
  refine ⟨_, ?_, search_line ns (search_nums_lt set ns hc hn)⟩
  unfold printSearch
  rw [hall]
  simp only [hes, Bool.false_eq_true, if_false, hn, Option.map_some]

example : ∃ b, printSearch .plain (asc "T1") none { all := some (true, [⟨1, 3⟩, ⟨5, 5⟩]), uid := true, min := 0, max := 0, count := 0 } = some b ∧
    ReadsAs b (Event.search [1, 2, 3, 5]) :=
  search_line_print .plain (asc "T1") none _ true [⟨1, 3⟩, ⟨5, 5⟩] [1, 2, 3, 5] (by decide) rfl
    ((NumSet.canonical_iff _).1 (by decide)) (by decide)

end GoImap.Resp
