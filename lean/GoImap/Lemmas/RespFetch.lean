/-
  Helper lemmas for C03: the FETCH response. The message data items the server writes
  (`printItem` / `printMsg`, mirror of imapserver/fetch.go FetchResponseWriter.Write*) are read back by
  the client (`readItem` / `readItems`, mirror of imapclient/fetch.go) as the specification's canonical
  items (`RespSpec.canonItem`): UID, FLAGS, INTERNALDATE, RFC822.SIZE, BODY[section] literals,
  BINARY[part] literals and BINARY.SIZE[part].
-/
import GoImap.Lemmas.RespRead
import GoImap.Lemmas.RespFlags
import GoImap.Lemmas.RespDate
import GoImap.Spec.RespGrammar
namespace GoImap.Resp

/-! ### small facts -/

theorem fetch_itemEnd_digit {r : Str} (h : ItemEnd r) : StopsAt isDigitB r := by
  rcases h with ⟨t, rfl⟩ | ⟨t, rfl⟩ <;> exact StopsAt.cons _ (by decide)

theorem fetch_span_name (name : Str) (c : Nat) (rest : Str) (ha : ∀ x ∈ name, isMsgAttNameChar x = true)
    (hc : isMsgAttNameChar c = false) : spanB isMsgAttNameChar (name ++ c :: rest) = (name, c :: rest) :=
  spanB_append _ _ _ ha (StopsAt.cons _ hc)

theorem fetch_digit_head {x : Nat} (h : isDigitB x = true) : x ≠ 13 ∧ x ≠ 10 ∧ x ≠ 41 := by
  simp only [isDigitB, Bool.and_eq_true, decide_eq_true_eq] at h
  omega

/-- a number starts with a byte that `Decoder.SP` accepts after the space -/
theorem fetch_expectSP_num (n : Nat) (r : Str) : expectSP (32 :: (encNumber n ++ r)) = some (encNumber n ++ r) := by
  obtain ⟨_, h2, h3⟩ := encNumber_spec n
  cases hd : encNumber n with
  | nil => exact absurd hd h3
  | cons a l =>
    have ha := fetch_digit_head (h2 a (by rw [hd]; simp))
    exact expectSP_sp a (l ++ r) ha.1 ha.2.1

theorem fetch_decNumber_none (r : Str) (hr : StopsAt isDigitB r) : decNumber r = none ∧ (spanB isDigitB r).2 = r := by
  have h := spanB_append isDigitB [] r (by intro x hx; cases hx) hr
  simp only [List.nil_append] at h
  constructor
  · unfold decNumber; rw [h]
  · rw [h]

/-! ### section parts (fetch.go writeSectionPart / readSectionPart) -/

/-- the numbers of a section part: `nz-number`s -/
def fetch_PartOK (p : List Int) : Prop := ∀ n ∈ p, 0 < n ∧ n < 4294967296

/-- what follows a complete section part: neither a digit nor a dot -/
def fetch_PartEnd (r : Str) : Prop := ∀ c t, r = c :: t → isDigitB c = false ∧ c ≠ 46

theorem fetch_PartEnd.stops {r : Str} (h : fetch_PartEnd r) : StopsAt isDigitB r := fun c t e => (h c t e).1

theorem fetch_PartEnd.cons {c : Nat} (t : Str) (h1 : isDigitB c = false) (h2 : c ≠ 46) : fetch_PartEnd (c :: t) := by
  intro c' t' e; injection e with e1 _; subst e1; exact ⟨h1, h2⟩

def fetch_dotted : List Int → Str
  | [] => []
  | n :: r => 46 :: (fmtInt n ++ fetch_dotted r)

theorem fetch_partText_cons (n : Int) (q : List Int) : partText (n :: q) = fmtInt n ++ fetch_dotted q := by
  induction q generalizing n with
  | nil => simp [partText, fetch_dotted]
  | cons m q ih =>
    show fmtInt n ++ 46 :: partText (m :: q) = _
    rw [ih m]; rfl

theorem fetch_fmtInt_pos (n : Int) (h : 0 < n) : fmtInt n = encNumber n.toNat := by
  unfold fmtInt; rw [if_neg (by omega)]

theorem fetch_dotted_stops (q : List Int) (r : Str) (hr : StopsAt isDigitB r) : StopsAt isDigitB (fetch_dotted q ++ r) := by
  cases q with
  | nil => exact hr
  | cons n q => exact StopsAt.cons _ (by decide)

theorem fetch_rsp_dot_num (fuel : Nat) (acc : List Int) (n : Nat) (r r' : Str) (hacc : acc ≠ [])
    (h : decNumber r = some (n, r')) :
    readSectionPart (fuel + 1) acc (46 :: r) = readSectionPart fuel (acc ++ [(n : Int)]) r' := by
  have he : acc.isEmpty = false := by
    cases acc with
    | nil => exact absurd rfl hacc
    | cons _ _ => rfl
  conv => lhs; rw [readSectionPart]
  simp [he, h]

theorem fetch_rsp_dot_none (fuel : Nat) (acc : List Int) (r : Str) (hacc : acc ≠ []) (hr : StopsAt isDigitB r) :
    readSectionPart (fuel + 1) acc (46 :: r) = (acc, true, r) := by
  have he : acc.isEmpty = false := by
    cases acc with
    | nil => exact absurd rfl hacc
    | cons _ _ => rfl
  obtain ⟨h1, h2⟩ := fetch_decNumber_none r hr
  conv => lhs; rw [readSectionPart]
  simp [he, h1, h2]

theorem fetch_rsp_stop (fuel : Nat) (acc : List Int) (r : Str) (hacc : acc ≠ []) (hr : fetch_PartEnd r) :
    readSectionPart (fuel + 1) acc r = (acc, false, r) := by
  have he : acc.isEmpty = false := by
    cases acc with
    | nil => exact absurd rfl hacc
    | cons _ _ => rfl
  conv => lhs; rw [readSectionPart.eq_def]
  simp only [he, Bool.not_false, if_true]
  split
  · rename_i r' ; exact absurd rfl (hr 46 r' rfl).2
  · rfl

theorem fetch_rsp_first_num (fuel : Nat) (n : Nat) (r r' : Str) (h : decNumber r = some (n, r')) :
    readSectionPart (fuel + 1) [] r = readSectionPart fuel [(n : Int)] r' := by
  conv => lhs; rw [readSectionPart.eq_def]
  simp [h]

theorem fetch_rsp_first_none (fuel : Nat) (r : Str) (hr : StopsAt isDigitB r) :
    readSectionPart (fuel + 1) [] r = ([], false, r) := by
  obtain ⟨h1, h2⟩ := fetch_decNumber_none r hr
  conv => lhs; rw [readSectionPart.eq_def]
  simp [h1, h2]

theorem fetch_rsp_tail (q : List Int) : ∀ (fuel : Nat) (acc : List Int) (r : Str), acc ≠ [] → fetch_PartOK q → q.length < fuel →
    fetch_PartEnd r → readSectionPart fuel acc (fetch_dotted q ++ r) = (acc ++ q, false, r) := by
  induction q with
  | nil =>
    intro fuel acc r hacc _ hf hr
    cases fuel with
    | zero => simp at hf
    | succ fuel =>
      simp only [fetch_dotted, List.nil_append, List.append_nil]
      exact fetch_rsp_stop fuel acc r hacc hr
  | cons n q ih =>
    intro fuel acc r hacc hq hf hr
    cases fuel with
    | zero => simp at hf
    | succ fuel =>
      obtain ⟨hn0, hn1⟩ := hq n (by simp)
      have hdec := decNumber_encNumber n.toNat (by omega) (fetch_dotted q ++ r) (fetch_dotted_stops q r hr.stops)
      have e : fetch_dotted (n :: q) ++ r = 46 :: (encNumber n.toNat ++ (fetch_dotted q ++ r)) := by
        simp [fetch_dotted, fetch_fmtInt_pos n hn0, List.append_assoc]
      have hcast : ((n.toNat : Nat) : Int) = n := by omega
      rw [e, fetch_rsp_dot_num fuel acc n.toNat _ _ hacc hdec, hcast,
        ih fuel (acc ++ [n]) r (by simp) (fun m hm => hq m (by simp [hm])) (by simp at hf; omega) hr]
      simp

theorem fetch_rsp_tail_dot (q : List Int) : ∀ (fuel : Nat) (acc : List Int) (r : Str), acc ≠ [] → fetch_PartOK q → q.length < fuel →
    StopsAt isDigitB r → readSectionPart fuel acc (fetch_dotted q ++ 46 :: r) = (acc ++ q, true, r) := by
  induction q with
  | nil =>
    intro fuel acc r hacc _ hf hr
    cases fuel with
    | zero => simp at hf
    | succ fuel =>
      simp only [fetch_dotted, List.nil_append, List.append_nil]
      exact fetch_rsp_dot_none fuel acc r hacc hr
  | cons n q ih =>
    intro fuel acc r hacc hq hf hr
    cases fuel with
    | zero => simp at hf
    | succ fuel =>
      obtain ⟨hn0, hn1⟩ := hq n (by simp)
      have hdec := decNumber_encNumber n.toNat (by omega) (fetch_dotted q ++ 46 :: r)
        (fetch_dotted_stops q (46 :: r) (StopsAt.cons _ (by decide)))
      have e : fetch_dotted (n :: q) ++ 46 :: r = 46 :: (encNumber n.toNat ++ (fetch_dotted q ++ 46 :: r)) := by
        simp [fetch_dotted, fetch_fmtInt_pos n hn0, List.append_assoc]
      have hcast : ((n.toNat : Nat) : Int) = n := by omega
      rw [e, fetch_rsp_dot_num fuel acc n.toNat _ _ hacc hdec, hcast,
        ih fuel (acc ++ [n]) r (by simp) (fun m hm => hq m (by simp [hm])) (by simp at hf; omega) hr]
      simp

/-- a section part followed by something that is neither a digit nor a dot (`]`, or nothing at all
    written when the part is empty and a specifier follows): read back, no trailing dot -/
theorem fetch_readSectionPart_nodot (p : List Int) (fuel : Nat) (r : Str) (hp : fetch_PartOK p) (hf : p.length < fuel)
    (hr : fetch_PartEnd r) : readSectionPart fuel [] (partText p ++ r) = (p, false, r) := by
  cases fuel with
  | zero => simp at hf
  | succ fuel =>
    cases p with
    | nil => exact fetch_rsp_first_none fuel r hr.stops
    | cons n q =>
      obtain ⟨hn0, hn1⟩ := hp n (by simp)
      have hdec := decNumber_encNumber n.toNat (by omega) (fetch_dotted q ++ r) (fetch_dotted_stops q r hr.stops)
      have e : partText (n :: q) ++ r = encNumber n.toNat ++ (fetch_dotted q ++ r) := by
        rw [fetch_partText_cons, fetch_fmtInt_pos n hn0, List.append_assoc]
      have hcast : ((n.toNat : Nat) : Int) = n := by omega
      rw [e, fetch_rsp_first_num fuel n.toNat _ _ hdec, hcast,
        fetch_rsp_tail q fuel [n] r (by simp) (fun m hm => hp m (by simp [hm])) (by simp at hf; omega) hr]
      rfl

/-- shape (a) of the brief: the part is followed by `]` -/
theorem fetch_readSectionPart_close (p : List Int) (fuel : Nat) (r : Str) (hp : fetch_PartOK p) (hf : p.length < fuel) :
    readSectionPart fuel [] (partText p ++ 93 :: r) = (p, false, 93 :: r) :=
  fetch_readSectionPart_nodot p fuel (93 :: r) hp hf (fetch_PartEnd.cons _ (by decide) (by decide))

/-- shape (b): a non-empty part followed by a dot and a specifier (not a digit): the dot is consumed -/
theorem fetch_readSectionPart_dot (p : List Int) (fuel : Nat) (r : Str) (hp : fetch_PartOK p) (hne : p ≠ []) (hf : p.length < fuel)
    (hr : StopsAt isDigitB r) : readSectionPart fuel [] (partText p ++ 46 :: r) = (p, true, r) := by
  cases fuel with
  | zero => simp at hf
  | succ fuel =>
    cases p with
    | nil => exact absurd rfl hne
    | cons n q =>
      obtain ⟨hn0, hn1⟩ := hp n (by simp)
      have hdec := decNumber_encNumber n.toNat (by omega) (fetch_dotted q ++ 46 :: r)
        (fetch_dotted_stops q (46 :: r) (StopsAt.cons _ (by decide)))
      have e : partText (n :: q) ++ 46 :: r = encNumber n.toNat ++ (fetch_dotted q ++ 46 :: r) := by
        rw [fetch_partText_cons, fetch_fmtInt_pos n hn0, List.append_assoc]
      have hcast : ((n.toNat : Nat) : Int) = n := by omega
      rw [e, fetch_rsp_first_num fuel n.toNat _ _ hdec, hcast,
        fetch_rsp_tail_dot q fuel [n] r (by simp) (fun m hm => hp m (by simp [hm])) (by simp at hf; omega) hr]
      rfl

theorem fetch_fmtInt_ne (n : Int) : fmtInt n ≠ [] := by
  unfold fmtInt
  split
  · simp
  · exact (encNumber_spec _).2.2

theorem fetch_dotted_length (q : List Int) : q.length ≤ (fetch_dotted q).length := by
  induction q with
  | nil => simp
  | cons n q ih => simp only [fetch_dotted, List.length_cons, List.length_append]; omega

theorem fetch_partText_length (p : List Int) : p.length ≤ (partText p).length := by
  cases p with
  | nil => simp
  | cons n q =>
    rw [fetch_partText_cons]
    have h1 := fetch_dotted_length q
    have h2 : 0 < (fmtInt n).length := List.length_pos_iff.mpr (fetch_fmtInt_ne n)
    simp only [List.length_cons, List.length_append]
    omega

/-! ### simple items -/

theorem fetch_uid (n : Nat) (hn : n < 4294967296) (r : Str) (hr : ItemEnd r) :
    readItem (asc "UID " ++ encNumber n ++ r) = some (Item.uid n, r) := by
  have e : asc "UID " ++ encNumber n ++ r = asc "UID" ++ 32 :: (encNumber n ++ r) := by simp [asc]
  rw [e]
  unfold readItem
  rw [fetch_span_name (asc "UID") 32 _ (by decide) (by decide)]
  have h1 := fetch_expectSP_num n r
  have h2 := decNumber_encNumber n hn r (fetch_itemEnd_digit hr)
  simp [asc, toUpper, upperB, h1, h2]

theorem fetch_size (n : Int) (t : Str) (ht : encNumber64 n = some t) (hn : n < 9223372036854775808) (r : Str) (hr : ItemEnd r) :
    readItem (asc "RFC822.SIZE " ++ t ++ r) = some (Item.size n, r) := by
  have h0 : ¬ n < 0 := by
    intro h; simp [encNumber64, h] at ht
  have ht' : t = encNumber n.toNat := by
    simp [encNumber64, h0] at ht; exact ht.symm
  subst ht'
  have e : asc "RFC822.SIZE " ++ encNumber n.toNat ++ r = asc "RFC822.SIZE" ++ 32 :: (encNumber n.toNat ++ r) := by simp [asc]
  rw [e]
  unfold readItem
  rw [fetch_span_name (asc "RFC822.SIZE") 32 _ (by decide) (by decide)]
  have h1 := fetch_expectSP_num n.toNat r
  have h2 := decNumber64_encNumber n.toNat (by omega) r (fetch_itemEnd_digit hr)
  have hcast : ((n.toNat : Nat) : Int) = n := by omega
  simp [asc, toUpper, upperB, h1, h2, hcast]

theorem fetch_flags (l : List Str) (h : ∀ f ∈ l, RespSpec.validFlag false f = true) (t : Str) (ht : flagListText l = some t)
    (r : Str) : readItem (asc "FLAGS " ++ t ++ r) = some (Item.flags (l.map RespSpec.canonFlag), r) := by
  obtain ⟨t', ht', hdec⟩ := flagList_fidelity false l h r
  rw [ht] at ht'
  injection ht' with ht'
  subst ht'
  have hopen : ∃ u, t ++ r = 40 :: u := by
    unfold flagListText at ht
    cases ho : optAll (l.map encFlag) with
    | none => rw [ho] at ht; cases ht
    | some its =>
      rw [ho] at ht
      injection ht with ht
      exact ⟨joinSP its ++ [41] ++ r, by rw [← ht]; simp [encList]⟩
  obtain ⟨u, hu⟩ := hopen
  have e : asc "FLAGS " ++ t ++ r = asc "FLAGS" ++ 32 :: (t ++ r) := by simp [asc]
  rw [e]
  unfold readItem
  rw [fetch_span_name (asc "FLAGS") 32 _ (by decide) (by decide)]
  have h1 : expectSP (32 :: (t ++ r)) = some (t ++ r) := by
    rw [hu]; exact expectSP_sp 40 u (by decide) (by decide)
  simp [asc, toUpper, upperB, h1, hdec]


/-! ### INTERNALDATE: the date-time text is written as a quoted string -/

def fetch_vis (c : Nat) : Bool := 32 ≤ c && c ≤ 126

theorem fetch_vis_encNumber (n : Nat) : (encNumber n).all fetch_vis = true := by
  rw [List.all_eq_true]
  intro x hx
  have h := (encNumber_spec n).2.1 x hx
  simp only [isDigitB, Bool.and_eq_true, decide_eq_true_eq] at h
  simp only [fetch_vis, Bool.and_eq_true, decide_eq_true_eq]
  omega

theorem fetch_vis_pad2 (n : Nat) : (pad2 n).all fetch_vis = true := by
  have h48 : fetch_vis 48 = true := by decide
  unfold pad2
  split <;> simp [fetch_vis_encNumber, h48]

theorem fetch_vis_pad4 (n : Nat) : (pad4 n).all fetch_vis = true := by
  have h48 : fetch_vis 48 = true := by decide
  unfold pad4
  split
  · simp [fetch_vis_encNumber, h48]
  · split
    · simp [fetch_vis_encNumber, h48]
    · split <;> simp [fetch_vis_encNumber, h48]

theorem fetch_vis_month : ∀ m, m < 12 → (asc (monthNames.getD m "???")).all fetch_vis = true := by decide

theorem fetch_vis_date (t : DateTime) (hm : t.month - 1 < 12) : (dateTimeText t).all fetch_vis = true := by
  have h32 : fetch_vis 32 = true := by decide
  have h45 : fetch_vis 45 = true := by decide
  have h58 : fetch_vis 58 = true := by decide
  have hday : (if t.day < 10 then 32 :: encNumber t.day else encNumber t.day).all fetch_vis = true := by
    split <;> simp [fetch_vis_encNumber, h32]
  have hsg : fetch_vis (if t.off ≤ -60 then 45 else 43) = true := by split <;> decide
  simp only [dateTimeText, zoneText, List.all_append, List.all_cons, List.all_nil, hday, hsg, fetch_vis_pad2, fetch_vis_pad4,
    fetch_vis_month _ hm, h32, h45, h58, Bool.and_true]

theorem fetch_pad2_length (n : Nat) (h : n < 100) : (pad2 n).length = 2 := by rw [date_pad2 n h]; rfl
theorem fetch_pad4_length (n : Nat) (h : n < 10000) : (pad4 n).length = 4 := by rw [date_pad4 n h]; rfl

theorem fetch_day_length (d : Nat) (h : d < 100) : (if d < 10 then 32 :: encNumber d else encNumber d).length = 2 := by
  split
  · rename_i h10; rw [date_encNumber_small d h10]; rfl
  · rw [date_encNumber_2 d (by omega) h]; rfl

theorem fetch_date_length (t : DateTime) (h : DateOK t) : (dateTimeText t).length = 26 := by
  obtain ⟨⟨hy1, hy2⟩, ⟨hm1, hm2⟩, ⟨hd1, hd2⟩, hh, hmi, hs, ⟨ho1, ho2, ho3⟩, _⟩ := h
  have hd31 : t.day ≤ 31 := Nat.le_trans hd2 (date_daysIn_le _ _)
  have l0 := fetch_day_length t.day (by omega)
  have l1 := (date_month (t.month - 1) (by omega)).1
  have l2 := fetch_pad4_length t.year.toNat (by omega)
  have l3 := fetch_pad2_length t.hour (by omega)
  have l4 := fetch_pad2_length t.min (by omega)
  have l5 := fetch_pad2_length t.sec (by omega)
  have l6 := fetch_pad2_length (t.off.natAbs / 60 / 60) (by omega)
  have l7 := fetch_pad2_length (t.off.natAbs / 60 % 60) (by omega)
  simp only [dateTimeText, zoneText, List.length_append, List.length_cons, List.length_nil, l0, l1, l2, l3, l4, l5, l6, l7]

/-- `Encoder.String` writes the INTERNALDATE text in the quoted form -/
theorem fetch_date_quoted (utf8 : Bool) (t : DateTime) (h : DateOK t) : validQuoted utf8 (dateTimeText t) = true := by
  have hl := fetch_date_length t h
  have hv := fetch_vis_date t (by have := h.month; omega)
  unfold validQuoted
  rw [Bool.and_eq_true]
  constructor
  · simp [hl]
  · rw [List.all_eq_true] at hv ⊢
    intro x hx
    have hx' := hv x hx
    simp only [fetch_vis, Bool.and_eq_true, decide_eq_true_eq] at hx'
    have h0 : x ≠ 0 := by omega
    have h13 : x ≠ 13 := by omega
    have h10 : x ≠ 10 := by omega
    have hle : x ≤ 127 := by omega
    simp [h0, h13, h10, hle]

theorem fetch_date (utf8 : Bool) (t : DateTime) (h : DateOK t) (r : Str) :
    readItem (asc "INTERNALDATE " ++ encString utf8 (dateTimeText t) ++ r) = some (Item.date (some (RespSpec.canonTime t)), r) := by
  have hq : encString utf8 (dateTimeText t) = encQuoted (dateTimeText t) := by
    unfold encString; rw [if_pos (fetch_date_quoted utf8 t h)]
  rw [hq]
  have e : asc "INTERNALDATE " ++ encQuoted (dateTimeText t) ++ r = asc "INTERNALDATE" ++ 32 :: (encQuoted (dateTimeText t) ++ r) := by
    simp [asc]
  rw [e]
  unfold readItem
  rw [fetch_span_name (asc "INTERNALDATE") 32 _ (by decide) (by decide)]
  have h1 : expectSP (32 :: (encQuoted (dateTimeText t) ++ r)) = some (encQuoted (dateTimeText t) ++ r) :=
    expectSP_sp 34 _ (by decide) (by decide)
  have h2 := decQuoted_encQuoted (dateTimeText t) r
  have h3 := parseDateTime_dateTimeText t h
  simp [asc, toUpper, upperB, h1, h2, h3]

/-! ### BINARY.SIZE -/

theorem fetch_binsize (p : List Int) (n : Nat) (hp : fetch_PartOK p) (hn : n < 4294967296) (r : Str) (hr : ItemEnd r) :
    readItem (asc "BINARY.SIZE[" ++ partText p ++ asc "] " ++ encNumber n ++ r) = some (Item.binsize p n, r) := by
  have e : asc "BINARY.SIZE[" ++ partText p ++ asc "] " ++ encNumber n ++ r =
      asc "BINARY.SIZE" ++ 91 :: (partText p ++ 93 :: 32 :: (encNumber n ++ r)) := by
    simp [asc, List.append_assoc]
  rw [e]
  unfold readItem
  rw [fetch_span_name (asc "BINARY.SIZE") 91 _ (by decide) (by decide)]
  have h0 := fetch_readSectionPart_close p ((partText p ++ 93 :: 32 :: (encNumber n ++ r)).length + 1) (32 :: (encNumber n ++ r)) hp
    (by have := fetch_partText_length p; simp only [List.length_append]; omega)
  have h1 := fetch_expectSP_num n r
  have h2 := decNumber_encNumber n hn r (fetch_itemEnd_digit hr)
  generalize partText p ++ 93 :: 32 :: (encNumber n ++ r) = X at h0 ⊢
  simp [asc, toUpper, upperB, h0, h1, h2]

/-! ### body sections (fetch.go writeItemBodySection / readSectionSpec) -/

def fetch_partialText : Option Partial → Str
  | some p => 60 :: (encNumber (p.offset % 4294967296).toNat ++ [62])
  | none => []

/-- the origin octet of a partial response is a `number` -/
def fetch_PartialOK : Option Partial → Prop
  | some p => 0 ≤ p.offset ∧ p.offset < 4294967296
  | none => True

theorem fetch_readPartial (p : Option Partial) (hp : fetch_PartialOK p) (r : Str) (hr : ∀ t, r ≠ 60 :: t) :
    readPartialOffset (fetch_partialText p ++ r) = some (p.map fun p => { p with size := 0 }, r) := by
  cases p with
  | none =>
    simp only [fetch_partialText, List.nil_append, Option.map_none]
    unfold readPartialOffset
    split
    · rename_i t; exact absurd rfl (hr t)
    · rfl
  | some p =>
    have hdec := decNumber_encNumber (p.offset % 4294967296).toNat (by omega) (62 :: r) (StopsAt.cons _ (by decide))
    have e : fetch_partialText (some p) ++ r = 60 :: (encNumber (p.offset % 4294967296).toNat ++ 62 :: r) := by
      simp [fetch_partialText]
    have hcast : (((p.offset % 4294967296).toNat : Nat) : Int) = p.offset := by
      simp only [fetch_PartialOK] at hp; omega
    rw [e]
    simp [readPartialOffset, hdec, hcast]

/-- `readSectionSpec` when no specifier follows the part -/
theorem fetch_rss_nospec (s : Str) (part : List Int) (r1 : Str) (p : Option Partial) (r2 : Str)
    (h1 : readSectionPart (s.length + 1) [] s = (part, false, 93 :: r1))
    (h2 : readPartialOffset r1 = some (p, r2)) :
    readSectionSpec s =
      some ({ spec := [], part := part, fields := [], fieldsNot := [], partial_ := p, peek := false }, r2) := by
  have htry : tryAtom (93 :: r1) = none := by simp [tryAtom, spanB, isAtomChar]
  unfold readSectionSpec
  rw [h1]
  cases part with
  | nil => simp [htry, h2]
  | cons a l => simp [h2]

/-- `readSectionSpec` with a specifier that is not a header-field list -/
theorem fetch_rss_plain (s : Str) (part : List Int) (dot : Bool) (X sp r1 : Str) (p : Option Partial) (r2 : Str)
    (h1 : readSectionPart (s.length + 1) [] s = (part, dot, X))
    (hd : (dot || part.isEmpty) = true)
    (hta : tryAtom X = some (sp, 93 :: r1))
    (hu : toUpper sp = sp) (hn1 : sp ≠ asc "HEADER.FIELDS") (hn2 : sp ≠ asc "HEADER.FIELDS.NOT")
    (h2 : readPartialOffset r1 = some (p, r2)) :
    readSectionSpec s =
      some ({ spec := sp, part := part, fields := [], fieldsNot := [], partial_ := p, peek := false }, r2) := by
  unfold readSectionSpec
  rw [h1]
  simp [hd, hta, hu, hn1, hn2, h2]

theorem fetch_rss_fields (s : Str) (part : List Int) (dot : Bool) (X a r' r'' : Str) (hl : List Str) (r1 : Str)
    (p : Option Partial) (r2 : Str)
    (h1 : readSectionPart (s.length + 1) [] s = (part, dot, X))
    (hd : (dot || part.isEmpty) = true)
    (hta : tryAtom X = some (a, r'))
    (hu : toUpper a = asc "HEADER.FIELDS")
    (hsp : expectSP r' = some r'') (hdl : decList decAString r'' = some (hl, 93 :: r1))
    (h2 : readPartialOffset r1 = some (p, r2)) :
    readSectionSpec s =
      some ({ spec := asc "HEADER", part := part, fields := hl, fieldsNot := [], partial_ := p, peek := false }, r2) := by
  unfold readSectionSpec
  rw [h1]
  simp [hd, hta, hu, hsp, hdl, h2]

theorem fetch_rss_fieldsNot (s : Str) (part : List Int) (dot : Bool) (X a r' r'' : Str) (hl : List Str) (r1 : Str)
    (p : Option Partial) (r2 : Str)
    (h1 : readSectionPart (s.length + 1) [] s = (part, dot, X))
    (hd : (dot || part.isEmpty) = true)
    (hta : tryAtom X = some (a, r'))
    (hu : toUpper a = asc "HEADER.FIELDS.NOT")
    (hsp : expectSP r' = some r'') (hdl : decList decAString r'' = some (hl, 93 :: r1))
    (h2 : readPartialOffset r1 = some (p, r2)) :
    readSectionSpec s =
      some ({ spec := asc "HEADER", part := part, fields := [], fieldsNot := hl, partial_ := p, peek := false }, r2) := by
  have hne : ¬ (asc "HEADER.FIELDS.NOT" = asc "HEADER.FIELDS") := by decide
  unfold readSectionSpec
  rw [h1]
  simp [hd, hta, hu, hsp, hdl, h2, hne]

/-- the part of a section followed by a specifier `X`: the separating dot is written (and consumed)
    exactly when the part is not empty -/
theorem fetch_rsp_spec (part : List Int) (hp : fetch_PartOK part) (X : Str) (hX : fetch_PartEnd X) (fuel : Nat)
    (hf : part.length < fuel) :
    ∃ dot, readSectionPart fuel [] (partText part ++ ((if !part.isEmpty then [46] else []) ++ X)) = (part, dot, X) ∧
      (dot || part.isEmpty) = true := by
  cases part with
  | nil =>
    refine ⟨false, ?_, rfl⟩
    have := fetch_readSectionPart_nodot [] fuel X hp hf hX
    simpa using this
  | cons a l =>
    refine ⟨true, ?_, rfl⟩
    have := fetch_readSectionPart_dot (a :: l) fuel X hp (by simp) hf hX.stops
    simpa using this

theorem fetch_decAString_encString (utf8 : Bool) (x rest : Str) (hx : x.length < 9223372036854775808) :
    decAString (encString utf8 x ++ rest) = some (x, rest) := by
  unfold encString
  by_cases h : validQuoted utf8 x = true
  · rw [if_pos h]
    have := decQuoted_encQuoted x rest
    unfold encQuoted at this ⊢
    simpa [decAString] using this
  · rw [if_neg h]
    have := decLiteral_encLiteral x rest hx
    unfold encLiteral encLiteralHdr at this ⊢
    simpa [decAString] using this

theorem fetch_encString_goodHead (utf8 : Bool) (x : Str) : GoodHead (encString utf8 x) := by
  unfold encString
  split
  · exact ⟨34, _, rfl, by decide, by decide, by decide⟩
  · exact ⟨123, _, rfl, by decide, by decide, by decide⟩

/-- a header-field list (`Encoder.List` of strings) is read back by `ExpectList(ExpectAString)` -/
theorem fetch_fieldList (utf8 : Bool) (names : List Str) (hn : ∀ f ∈ names, f.length < 9223372036854775808) (rest : Str) :
    decList decAString (encList (names.map (encString utf8)) ++ rest) = some (names, rest) := by
  have := decList_encList decAString (encString utf8) (fun x => x) names rest
    (fun x hx r _ => fetch_decAString_encString utf8 x r (hn x hx))
    (fun x _ => fetch_encString_goodHead utf8 x)
  simpa using this

def fetch_hdrText (utf8 : Bool) (s : Section) : Str :=
  if s.spec.isEmpty then [] else
    s.spec ++
    (if !s.fields.isEmpty then asc ".FIELDS" ++ [32] ++ encList (s.fields.map (encString utf8))
     else if !s.fieldsNot.isEmpty then asc ".FIELDS.NOT" ++ [32] ++ encList (s.fieldsNot.map (encString utf8))
     else [])

/-- what `writeItemBodySection` writes after `BODY[` -/
def fetch_secTail (utf8 : Bool) (s : Section) : Str :=
  partText s.part ++ ((if !s.part.isEmpty && !s.spec.isEmpty then [46] else []) ++
    (fetch_hdrText utf8 s ++ 93 :: fetch_partialText s.partial_))

theorem fetch_sectionText_eq (utf8 : Bool) (s : Section) : sectionText utf8 s = asc "BODY" ++ 91 :: fetch_secTail utf8 s := by
  cases s with
  | mk spec part fields fieldsNot partial_ peek =>
    have e : asc "BODY[" = asc "BODY" ++ [91] := by decide
    cases partial_ <;>
      simp only [sectionText, fetch_secTail, fetch_hdrText, fetch_partialText, e, List.append_assoc, List.cons_append,
        List.nil_append, List.append_nil]

/-- the facts of `RespSpec.wfSection` the reader depends on -/
structure fetch_SecOK (s : Section) : Prop where
  spec : s.spec = [] ∨ s.spec = asc "HEADER" ∨ s.spec = asc "MIME" ∨ s.spec = asc "TEXT"
  part : fetch_PartOK s.part
  hdr : s.spec = asc "HEADER" ∨ (s.fields = [] ∧ s.fieldsNot = [])
  one : s.fields = [] ∨ s.fieldsNot = []
  partial_ : fetch_PartialOK s.partial_

theorem fetch_partOK_of_all (p : List Int) (h : p.all (fun p => 0 < p && RespSpec.inU32 p) = true) : fetch_PartOK p := by
  intro n hn
  have := List.all_eq_true.mp h n hn
  simp only [RespSpec.inU32, Bool.and_eq_true, decide_eq_true_eq] at this
  omega

theorem fetch_secOK_of_wf (s : Section) (h : RespSpec.wfSection s = true) : fetch_SecOK s := by
  simp only [RespSpec.wfSection, Bool.and_eq_true] at h
  obtain ⟨⟨⟨⟨⟨h1, h2⟩, h3⟩, h4⟩, _⟩, h6⟩ := h
  have e0 : RespSpec.str "" = [] := rfl
  have e1 : RespSpec.str "HEADER" = asc "HEADER" := rfl
  have e2 : RespSpec.str "MIME" = asc "MIME" := rfl
  have e3 : RespSpec.str "TEXT" = asc "TEXT" := rfl
  refine ⟨?_, fetch_partOK_of_all _ h2, ?_, ?_, ?_⟩
  · rw [e0, e1, e2, e3] at h1
    simpa using h1
  · rw [e1] at h3
    simpa [List.isEmpty_iff] using h3
  · simpa [List.isEmpty_iff] using h4
  · cases hp : s.partial_ with
    | none => trivial
    | some p =>
      rw [hp] at h6
      simp only [RespSpec.inU32, Bool.and_eq_true, decide_eq_true_eq] at h6
      exact ⟨h6.1.1, h6.1.2⟩

/-- the header-field names of a section can be written as literals (`{n}` with `n` an int64) -/
def fetch_FieldsBounded (s : Section) : Prop :=
  (∀ f ∈ s.fields, f.length < 9223372036854775808) ∧ (∀ f ∈ s.fieldsNot, f.length < 9223372036854775808)

theorem fetch_fuel (part : List Int) (Y : Str) : part.length < (partText part ++ Y).length + 1 := by
  have := fetch_partText_length part
  simp only [List.length_append]
  omega

/-- a section with one of the plain specifiers HEADER / MIME / TEXT (no header-field list) -/
theorem fetch_rss_plainSpec (sp : Str) (hne : sp ≠ []) (hatom : ∀ x ∈ sp, isAtomChar x = true)
    (hhead : isDigitB (sp.headD 0) = false ∧ sp.headD 0 ≠ 46) (hu : toUpper sp = sp)
    (hn1 : sp ≠ asc "HEADER.FIELDS") (hn2 : sp ≠ asc "HEADER.FIELDS.NOT")
    (part : List Int) (hp : fetch_PartOK part) (pt : Option Partial) (hpt : fetch_PartialOK pt) (r : Str) (hr : ∀ t, r ≠ 60 :: t) :
    readSectionSpec (partText part ++ ((if !part.isEmpty then [46] else []) ++ (sp ++ 93 :: (fetch_partialText pt ++ r)))) =
      some ({ spec := sp, part := part, fields := [], fieldsNot := [], partial_ := pt.map fun p => { p with size := 0 },
              peek := false }, r) := by
  have hX : fetch_PartEnd (sp ++ 93 :: (fetch_partialText pt ++ r)) := by
    cases sp with
    | nil => exact absurd rfl hne
    | cons c t => exact fetch_PartEnd.cons _ hhead.1 hhead.2
  obtain ⟨dot, h1, hd⟩ := fetch_rsp_spec part hp _ hX _ (fetch_fuel part _)
  have hta := tryAtom_append sp (93 :: (fetch_partialText pt ++ r)) hne hatom (StopsAt.cons _ (by decide))
  exact fetch_rss_plain _ part dot _ sp _ _ r h1 hd hta hu hn1 hn2 (fetch_readPartial pt hpt r hr)

/-- a section with a header-field list: `HEADER.FIELDS (…)` or `HEADER.FIELDS.NOT (…)` -/
theorem fetch_rss_fieldSpec (utf8 : Bool) (a : Str) (ha : a = asc "HEADER.FIELDS" ∨ a = asc "HEADER.FIELDS.NOT")
    (names : List Str) (hn : ∀ f ∈ names, f.length < 9223372036854775808)
    (part : List Int) (hp : fetch_PartOK part) (pt : Option Partial) (hpt : fetch_PartialOK pt) (r : Str) (hr : ∀ t, r ≠ 60 :: t) :
    readSectionSpec (partText part ++ ((if !part.isEmpty then [46] else []) ++
        (a ++ 32 :: (encList (names.map (encString utf8)) ++ 93 :: (fetch_partialText pt ++ r))))) =
      some ({ spec := asc "HEADER", part := part, fields := if a = asc "HEADER.FIELDS" then names else [],
              fieldsNot := if a = asc "HEADER.FIELDS" then [] else names,
              partial_ := pt.map fun p => { p with size := 0 }, peek := false }, r) := by
  have hfacts : a ≠ [] ∧ (∀ x ∈ a, isAtomChar x = true) ∧ isDigitB (a.headD 0) = false ∧ a.headD 0 ≠ 46 ∧ toUpper a = a := by
    rcases ha with rfl | rfl <;> decide
  obtain ⟨hne, hatom, hh1, hh2, hu⟩ := hfacts
  have hX : fetch_PartEnd (a ++ 32 :: (encList (names.map (encString utf8)) ++ 93 :: (fetch_partialText pt ++ r))) := by
    cases a with
    | nil => exact absurd rfl hne
    | cons c t => exact fetch_PartEnd.cons _ hh1 hh2
  obtain ⟨dot, h1, hd⟩ := fetch_rsp_spec part hp _ hX _ (fetch_fuel part _)
  have hta := tryAtom_append a (32 :: (encList (names.map (encString utf8)) ++ 93 :: (fetch_partialText pt ++ r))) hne hatom
    (StopsAt.cons _ (by decide))
  have hsp : expectSP (32 :: (encList (names.map (encString utf8)) ++ 93 :: (fetch_partialText pt ++ r))) =
      some (encList (names.map (encString utf8)) ++ 93 :: (fetch_partialText pt ++ r)) :=
    expectSP_sp 40 _ (by decide) (by decide)
  have hdl := fetch_fieldList utf8 names hn (93 :: (fetch_partialText pt ++ r))
  have h2 := fetch_readPartial pt hpt r hr
  rcases ha with ha | ha
  · have hu' : toUpper a = asc "HEADER.FIELDS" := by rw [hu]; exact ha
    rw [fetch_rss_fields _ part dot _ _ _ _ names _ _ r h1 hd hta hu' hsp hdl h2]
    simp [ha]
  · have hu' : toUpper a = asc "HEADER.FIELDS.NOT" := by rw [hu]; exact ha
    have hne2 : ¬ (a = asc "HEADER.FIELDS") := by rw [ha]; decide
    rw [fetch_rss_fieldsNot _ part dot _ _ _ _ names _ _ r h1 hd hta hu' hsp hdl h2]
    simp [hne2]

/-- Body sections: what `writeItemBodySection` writes after `BODY[` is read by `readSectionSpec` as the
    canonical section (`peek` cleared, the partial reduced to its origin octet), whatever follows,
    as long as it does not start with `<` -/
theorem fetch_readSectionSpec (utf8 : Bool) (s : Section) (hwf : RespSpec.wfSection s = true) (hb : fetch_FieldsBounded s)
    (r : Str) (hr : ∀ t, r ≠ 60 :: t) :
    readSectionSpec (fetch_secTail utf8 s ++ r) = some (RespSpec.canonSection s, r) := by
  have hok := fetch_secOK_of_wf s hwf
  cases s with
  | mk spec part fields fieldsNot pt peek =>
    obtain ⟨hspec, hp, hhdr, hone, hpt⟩ := hok
    obtain ⟨hbf, hbn⟩ := hb
    simp only at hspec hp hhdr hone hpt hbf hbn
    by_cases hs0 : spec = []
    · -- no specifier
      subst hs0
      have hnohdr : ¬ (([] : Str) = asc "HEADER") := by decide
      obtain ⟨hf0, hn0⟩ := hhdr.resolve_left hnohdr
      subst hf0; subst hn0
      have e : fetch_secTail utf8 ⟨[], part, [], [], pt, peek⟩ ++ r = partText part ++ 93 :: (fetch_partialText pt ++ r) := by
        simp [fetch_secTail, fetch_hdrText, List.append_assoc]
      rw [e]
      have h1 := fetch_readSectionPart_close part _ (fetch_partialText pt ++ r) hp (fetch_fuel part (93 :: (fetch_partialText pt ++ r)))
      rw [fetch_rss_nospec _ part _ _ r h1 (fetch_readPartial pt hpt r hr)]
      rfl
    · have hse : spec.isEmpty = false := by
        cases spec with
        | nil => exact absurd rfl hs0
        | cons _ _ => rfl
      by_cases hf : fields = []
      · by_cases hn : fieldsNot = []
        · -- plain specifier
          subst hf; subst hn
          have e : fetch_secTail utf8 ⟨spec, part, [], [], pt, peek⟩ ++ r =
              partText part ++ ((if !part.isEmpty then [46] else []) ++ (spec ++ 93 :: (fetch_partialText pt ++ r))) := by
            simp [fetch_secTail, fetch_hdrText, hse, List.append_assoc]
          rw [e]
          have hfacts : spec ≠ [] ∧ (∀ x ∈ spec, isAtomChar x = true) ∧ (isDigitB (spec.headD 0) = false ∧ spec.headD 0 ≠ 46) ∧
              toUpper spec = spec ∧ spec ≠ asc "HEADER.FIELDS" ∧ spec ≠ asc "HEADER.FIELDS.NOT" := by
            rcases hspec with h | h | h | h
            · exact absurd h hs0
            all_goals (subst h; decide)
          obtain ⟨a1, a2, a3, a4, a5, a6⟩ := hfacts
          rw [fetch_rss_plainSpec spec a1 a2 a3 a4 a5 a6 part hp pt hpt r hr]
          rfl
        · -- HEADER.FIELDS.NOT
          subst hf
          have hH : spec = asc "HEADER" := by
            rcases hhdr with h | ⟨_, h⟩
            · exact h
            · exact absurd h hn
          subst hH
          have hne : fieldsNot.isEmpty = false := by
            cases fieldsNot with
            | nil => exact absurd rfl hn
            | cons _ _ => rfl
          have e : fetch_secTail utf8 ⟨asc "HEADER", part, [], fieldsNot, pt, peek⟩ ++ r =
              partText part ++ ((if !part.isEmpty then [46] else []) ++
                (asc "HEADER.FIELDS.NOT" ++ 32 :: (encList (fieldsNot.map (encString utf8)) ++ 93 :: (fetch_partialText pt ++ r)))) := by
            have e1 : asc "HEADER.FIELDS.NOT" = asc "HEADER" ++ asc ".FIELDS.NOT" := by decide
            simp [fetch_secTail, fetch_hdrText, hse, hne, e1, List.append_assoc]
          rw [e, fetch_rss_fieldSpec utf8 _ (Or.inr rfl) fieldsNot hbn part hp pt hpt r hr]
          have hne2 : ¬ (asc "HEADER.FIELDS.NOT" = asc "HEADER.FIELDS") := by decide
          simp [hne2, RespSpec.canonSection]
      · -- HEADER.FIELDS
        have hn : fieldsNot = [] := hone.resolve_left hf
        subst hn
        have hH : spec = asc "HEADER" := by
          rcases hhdr with h | ⟨h, _⟩
          · exact h
          · exact absurd h hf
        subst hH
        have hne : fields.isEmpty = false := by
          cases fields with
          | nil => exact absurd rfl hf
          | cons _ _ => rfl
        have e : fetch_secTail utf8 ⟨asc "HEADER", part, fields, [], pt, peek⟩ ++ r =
            partText part ++ ((if !part.isEmpty then [46] else []) ++
              (asc "HEADER.FIELDS" ++ 32 :: (encList (fields.map (encString utf8)) ++ 93 :: (fetch_partialText pt ++ r)))) := by
          have e1 : asc "HEADER.FIELDS" = asc "HEADER" ++ asc ".FIELDS" := by decide
          simp [fetch_secTail, fetch_hdrText, hse, hne, e1, List.append_assoc]
        rw [e, fetch_rss_fieldSpec utf8 _ (Or.inl rfl) fields hbf part hp pt hpt r hr]
        simp [RespSpec.canonSection]

/-! ### literal items -/

theorem fetch_decNStringData_lit (d r : Str) (hd : d.length < 9223372036854775808) :
    decNStringData (encLiteral d ++ r) = some (d, r) := by
  have hnone : tryAtom (encLiteral d ++ r) = none := by simp [encLiteral, encLiteralHdr, tryAtom, spanB, isAtomChar]
  have hdec := decLiteral_encLiteral d r hd
  unfold decNStringData
  rw [hnone]
  unfold encLiteral encLiteralHdr at hdec ⊢
  simpa [decString] using hdec

theorem fetch_expectSP_lit (d r : Str) : expectSP (32 :: (encLiteral d ++ r)) = some (encLiteral d ++ r) :=
  expectSP_sp 123 _ (by decide) (by decide)

/-- `BODY[section] {n}CRLF data`: the section is canonicalised, the data is byte-identical -/
theorem fetch_sec (utf8 : Bool) (s : Section) (d : Str) (hwf : RespSpec.wfSection s = true) (hb : fetch_FieldsBounded s)
    (hd : d.length < 9223372036854775808) (r : Str) :
    readItem (sectionText utf8 s ++ [32] ++ encLiteral d ++ r) = some (Item.sec (RespSpec.canonSection s) d, r) := by
  have e : sectionText utf8 s ++ [32] ++ encLiteral d ++ r = asc "BODY" ++ 91 :: (fetch_secTail utf8 s ++ 32 :: (encLiteral d ++ r)) := by
    rw [fetch_sectionText_eq]; simp [List.append_assoc]
  rw [e]
  unfold readItem
  rw [fetch_span_name (asc "BODY") 91 _ (by decide) (by decide)]
  have h0 := fetch_readSectionSpec utf8 s hwf hb (32 :: (encLiteral d ++ r)) (by intro t e; injection e with e1 _; exact absurd e1 (by decide))
  have h1 := fetch_expectSP_lit d r
  have h2 := fetch_decNStringData_lit d r hd
  simp [asc, toUpper, upperB, h0, h1, h2]

/-- `BINARY[part] ~{n}CRLF data` -/
theorem fetch_bin (s : BinSection) (d : Str) (hp : fetch_PartOK s.part) (hd : d.length < 9223372036854775808) (r : Str) :
    readItem (asc "BINARY[" ++ partText s.part ++ asc "] ~" ++ encLiteral d ++ r) = some (Item.bin (RespSpec.canonBinSection s) d, r) := by
  have e : asc "BINARY[" ++ partText s.part ++ asc "] ~" ++ encLiteral d ++ r =
      asc "BINARY" ++ 91 :: (partText s.part ++ 93 :: 32 :: 126 :: (encLiteral d ++ r)) := by
    simp [asc, List.append_assoc]
  rw [e]
  unfold readItem
  rw [fetch_span_name (asc "BINARY") 91 _ (by decide) (by decide)]
  have h0 := fetch_readSectionPart_close s.part ((partText s.part ++ 93 :: 32 :: 126 :: (encLiteral d ++ r)).length + 1)
    (32 :: 126 :: (encLiteral d ++ r)) hp (fetch_fuel s.part _)
  have h1 : expectSP (32 :: 126 :: (encLiteral d ++ r)) = some (126 :: (encLiteral d ++ r)) := expectSP_sp 126 _ (by decide) (by decide)
  have h2 := fetch_decNStringData_lit d r hd
  generalize partText s.part ++ 93 :: 32 :: 126 :: (encLiteral d ++ r) = X at h0 ⊢
  simp [asc, toUpper, upperB, h0, h1, h2, RespSpec.canonBinSection]

/-! ### the item-level theorem -/

/-- the bounds the specification leaves open: a time with consistent civil fields (`DateOK`), a size that
    `Number64` can carry, literal lengths (data and header-field names) that fit the `{n}` of a literal -/
def fetch_Bounded : Item → Prop
  | .date (some t) => DateOK t
  | .size n => n < 9223372036854775808
  | .sec s d => fetch_FieldsBounded s ∧ d.length < 9223372036854775808
  | .bin _ d => d.length < 9223372036854775808
  | _ => True

/-- Every well-formed message data item of a modelled kind (UID, FLAGS, INTERNALDATE, RFC822.SIZE,
    BODY[section] literal, BINARY[part] literal, BINARY.SIZE[part]) that `FetchResponseWriter` writes is
    read by the client's msg-att reader as the specification's canonical item, consuming exactly the
    bytes written, when `)` or SP follows. -/
theorem fetch_item_fidelity (utf8 : Bool) (reqExt : Option Bool) (it : Item) (t : Str)
    (hwf : RespSpec.wfItem reqExt it = true) (hp : printItem utf8 it = some t) (hb : fetch_Bounded it)
    (r : Str) (hr : ItemEnd r) : readItem (t ++ r) = some (RespSpec.canonItem it, r) := by
  cases it with
  | uid n =>
    simp only [printItem, Option.some.injEq] at hp
    subst hp
    simp only [RespSpec.wfItem, Bool.and_eq_true, decide_eq_true_eq] at hwf
    exact fetch_uid n hwf.2 r hr
  | flags l =>
    have hv : ∀ f ∈ l, RespSpec.validFlag false f = true := by
      simp only [RespSpec.wfItem, List.all_eq_true] at hwf
      exact hwf
    cases ha : flagListText l with
    | none => simp [printItem, ha] at hp
    | some a =>
      simp only [printItem, ha, Option.map_some, Option.some.injEq] at hp
      subst hp
      exact fetch_flags l hv a ha r
  | date o =>
    cases o with
    | none => simp [printItem] at hp
    | some d =>
      simp only [printItem, Option.some.injEq] at hp
      subst hp
      exact fetch_date utf8 d hb r
  | size n =>
    cases ha : encNumber64 n with
    | none => simp [printItem, ha] at hp
    | some a =>
      simp only [printItem, ha, Option.map_some, Option.some.injEq] at hp
      subst hp
      exact fetch_size n a ha hb r hr
  | env e => simp [printItem] at hp
  | bs ext b => simp [printItem] at hp
  | sec s d =>
    simp only [printItem, Option.some.injEq] at hp
    subst hp
    exact fetch_sec utf8 s d hwf hb.1 hb.2 r
  | bin s d =>
    simp only [printItem, Option.some.injEq] at hp
    subst hp
    have hp' : fetch_PartOK s.part := by
      simp only [RespSpec.wfItem, RespSpec.wfBinSection, Bool.and_eq_true] at hwf
      exact fetch_partOK_of_all _ hwf.1
    exact fetch_bin s d hp' hb r
  | binsize p n =>
    simp only [printItem, Option.some.injEq] at hp
    subst hp
    simp only [RespSpec.wfItem, Bool.and_eq_true, decide_eq_true_eq] at hwf
    exact fetch_binsize p n (fetch_partOK_of_all _ hwf.1) hwf.2 r hr
  | other n => simp [printItem] at hp

theorem fetch_goodHead_append (a b : Str) (h : GoodHead a) : GoodHead (a ++ b) := by
  obtain ⟨c, t, rfl, h1, h2, h3⟩ := h
  exact ⟨c, t ++ b, rfl, h1, h2, h3⟩

theorem fetch_goodHead_lit (s : String) (h : (asc s).headD 13 ≠ 13 ∧ (asc s).headD 13 ≠ 10 ∧ (asc s).headD 13 ≠ 41) : GoodHead (asc s) := by
  cases hs : asc s with
  | nil => rw [hs] at h; exact absurd rfl h.1
  | cons c t => rw [hs] at h; exact ⟨c, t, rfl, h.1, h.2.1, h.2.2⟩

/-- every written item starts with its name -/
theorem fetch_item_goodHead (utf8 : Bool) (it : Item) (t : Str) (hp : printItem utf8 it = some t) : GoodHead t := by
  cases it with
  | uid n =>
    simp only [printItem, Option.some.injEq] at hp
    subst hp
    exact fetch_goodHead_append _ _ (fetch_goodHead_lit "UID " (by decide))
  | flags l =>
    cases ha : flagListText l with
    | none => simp [printItem, ha] at hp
    | some a =>
      simp only [printItem, ha, Option.map_some, Option.some.injEq] at hp
      subst hp
      exact fetch_goodHead_append _ _ (fetch_goodHead_lit "FLAGS " (by decide))
  | date o =>
    cases o with
    | none => simp [printItem] at hp
    | some d =>
      simp only [printItem, Option.some.injEq] at hp
      subst hp
      exact fetch_goodHead_append _ _ (fetch_goodHead_lit "INTERNALDATE " (by decide))
  | size n =>
    cases ha : encNumber64 n with
    | none => simp [printItem, ha] at hp
    | some a =>
      simp only [printItem, ha, Option.map_some, Option.some.injEq] at hp
      subst hp
      exact fetch_goodHead_append _ _ (fetch_goodHead_lit "RFC822.SIZE " (by decide))
  | env e => simp [printItem] at hp
  | bs ext b => simp [printItem] at hp
  | sec s d =>
    simp only [printItem, Option.some.injEq] at hp
    subst hp
    rw [fetch_sectionText_eq, List.append_assoc, List.append_assoc]
    exact fetch_goodHead_append _ _ (fetch_goodHead_lit "BODY" (by decide))
  | bin s d =>
    simp only [printItem, Option.some.injEq] at hp
    subst hp
    rw [List.append_assoc, List.append_assoc]
    exact fetch_goodHead_append _ _ (fetch_goodHead_lit "BINARY[" (by decide))
  | binsize p n =>
    simp only [printItem, Option.some.injEq] at hp
    subst hp
    rw [List.append_assoc, List.append_assoc]
    exact fetch_goodHead_append _ _ (fetch_goodHead_lit "BINARY.SIZE[" (by decide))
  | other n => simp [printItem] at hp

/-! ### the FETCH line -/

theorem fetch_optAll_map {α : Type} (f : α → Option Str) : ∀ (l : List α) (its : List Str), optAll (l.map f) = some its →
    its = l.map (fun x => (f x).getD []) ∧ ∀ x ∈ l, f x = some ((f x).getD []) := by
  intro l
  induction l with
  | nil =>
    intro its h
    simp only [List.map_nil, optAll, Option.some.injEq] at h
    subst h
    exact ⟨rfl, fun x hx => by cases hx⟩
  | cons x l ih =>
    intro its h
    cases hx : f x with
    | none => simp [optAll, hx] at h
    | some v =>
      cases ho : optAll (l.map f) with
      | none => simp [optAll, hx, ho] at h
      | some its' =>
        simp only [List.map_cons, hx, optAll, ho, Option.map_some, Option.some.injEq] at h
        obtain ⟨h1, h2⟩ := ih its' ho
        subst h
        refine ⟨?_, ?_⟩
        · simp only [List.map_cons, hx, Option.getD_some]
          rw [← h1]
        · intro y hy
          cases hy with
          | head => rw [hx]; rfl
          | tail _ hm => exact h2 y hm

theorem fetch_dispatch (n : Nat) (h0 : n ≠ 0) (u : Str) (its : List Item) (r' : Str) (h : readItems (40 :: u) = some (its, r')) :
    dispatchData n (asc "FETCH") (32 :: 40 :: u) = some (Event.fetch { seq := n, items := its }, r') := by
  have hsp : expectSP (32 :: 40 :: u) = some (40 :: u) := expectSP_sp 40 u (by decide) (by decide)
  simp [dispatchData, asc, hsp, h, h0]

/-- The FETCH line: `* n FETCH (item SP item …)CRLF` as `FetchWriter.CreateMessage … Close` writes it is
    read by the client as one FETCH event carrying the message number and the canonical items. The
    items come back in the order written (the reader is `Decoder.ExpectList` over the items, proved by
    `decList_encList`, which maps the written list position by position), and the bytes of every literal
    are delivered unchanged (`fetch_sec`, `fetch_bin`: the data of the item read is the data written). -/
theorem fetch_line (utf8 : Bool) (reqExt : Option Bool) (m : Msg) (bytes : Str) (hseq : m.seq ≠ 0 ∧ m.seq < 4294967296)
    (hwf : ∀ it ∈ m.items, RespSpec.wfItem reqExt it = true) (hb : ∀ it ∈ m.items, fetch_Bounded it)
    (hp : printMsg utf8 m = some bytes) :
    ReadsAs bytes (Event.fetch { seq := m.seq, items := m.items.map RespSpec.canonItem }) := by
  unfold printMsg at hp
  cases ho : optAll (m.items.map (printItem utf8)) with
  | none => simp [ho] at hp
  | some its =>
    simp only [ho, Option.map_some, Option.some.injEq] at hp
    subst hp
    obtain ⟨hits, hsome⟩ := fetch_optAll_map (printItem utf8) m.items its ho
    constructor
    · simp [star]
    · intro rest
      have hdec := decList_encList readItem (fun x => (printItem utf8 x).getD []) RespSpec.canonItem m.items (13 :: 10 :: rest)
        (fun x hx r hr => fetch_item_fidelity utf8 reqExt x _ (hwf x hx) (hsome x hx) (hb x hx) r hr)
        (fun x hx => fetch_item_goodHead utf8 x _ (hsome x hx))
      rw [← hits] at hdec
      obtain ⟨u, hu⟩ : ∃ u, encList its ++ 13 :: 10 :: rest = 40 :: u := ⟨_, rfl⟩
      rw [hu] at hdec
      obtain ⟨_, h2, h3⟩ := encNumber_spec m.seq
      cases hd : encNumber m.seq with
      | nil => exact absurd hd h3
      | cons a l =>
        have ha := fetch_digit_head (h2 a (by rw [hd]; simp))
        have e : star ++ [32] ++ (a :: l) ++ asc " FETCH (" ++ joinSP its ++ [41, 13, 10] ++ rest =
            42 :: 32 :: a :: (l ++ 32 :: (asc "FETCH" ++ 32 :: (encList its ++ 13 :: 10 :: rest))) := by
          simp [star, asc, encList, List.append_assoc]
        rw [e, readResponse_star a _ ha.1 ha.2.1]
        have e2 : a :: (l ++ 32 :: (asc "FETCH" ++ 32 :: (encList its ++ 13 :: 10 :: rest))) =
            encNumber m.seq ++ 32 :: (asc "FETCH" ++ 32 :: (encList its ++ 13 :: 10 :: rest)) := by
          rw [hd]; rfl
        rw [e2, readUntagged_num m.seq hseq.2 (asc "FETCH") _ (isName_of _ (by decide)) (StopsAt.cons _ (by decide)), hu,
          fetch_dispatch m.seq hseq.1 u _ _ hdec, finishLine_crlf]

theorem fetch_concatOpt_map {α : Type} (f : α → Option Str) : ∀ (l : List α) (bytes : Str), concatOpt (l.map f) = some bytes →
    bytes = (l.map (fun x => (f x).getD [])).flatten ∧ ∀ x ∈ l, f x = some ((f x).getD []) := by
  intro l
  induction l with
  | nil =>
    intro bytes h
    simp only [List.map_nil, concatOpt, Option.some.injEq] at h
    subst h
    exact ⟨rfl, fun x hx => by cases hx⟩
  | cons x l ih =>
    intro bytes h
    cases hx : f x with
    | none => simp [concatOpt, hx] at h
    | some v =>
      cases ho : concatOpt (l.map f) with
      | none => simp [concatOpt, hx, ho] at h
      | some b' =>
        simp only [List.map_cons, hx, concatOpt, ho, Option.map_some, Option.some.injEq] at h
        obtain ⟨h1, h2⟩ := ih b' ho
        subst h
        refine ⟨?_, ?_⟩
        · simp only [List.map_cons, hx, Option.getD_some, List.flatten_cons]
          rw [← h1]
        · intro y hy
          cases hy with
          | head => rw [hx]; rfl
          | tail _ hm => exact h2 y hm

/-- A whole FETCH reply (`printFetch`: one line per message) is a sequence of lines, each read as the FETCH
    event of its message: same messages, same order, canonical items. -/
theorem fetch_lines (cfg : Cfg) (reqExt : Option Bool) (ms : List Msg) (bytes : Str)
    (hseq : ∀ m ∈ ms, m.seq ≠ 0 ∧ m.seq < 4294967296)
    (hwf : ∀ m ∈ ms, ∀ it ∈ m.items, RespSpec.wfItem reqExt it = true) (hb : ∀ m ∈ ms, ∀ it ∈ m.items, fetch_Bounded it)
    (hp : printFetch cfg ms = some bytes) :
    ∃ lines, bytes = lines.flatten ∧
      AllRead lines (ms.map fun m => Event.fetch { seq := m.seq, items := m.items.map RespSpec.canonItem }) := by
  unfold printFetch at hp
  obtain ⟨h1, h2⟩ := fetch_concatOpt_map (printMsg cfg.quotedUTF8) ms bytes hp
  exact ⟨_, h1, AllRead.map _ _ ms (fun m hm => fetch_line cfg.quotedUTF8 reqExt m _ (hseq m hm) (hwf m hm) (hb m hm) (h2 m hm))⟩

/-! ### concrete instances -/

/-- `BODY[1.2.HEADER.FIELDS ("Subject" "X-Y")]<5>` with a 3-byte literal CR LF `)` -/
def fetch_exSection : Section :=
  { spec := asc "HEADER", part := [1, 2], fields := [asc "Subject", asc "X-Y"], fieldsNot := [], partial_ := some ⟨5, 10⟩, peek := true }

example : sectionText false fetch_exSection ++ [32] ++ encLiteral [13, 10, 41] =
    asc "BODY[1.2.HEADER.FIELDS (\"Subject\" \"X-Y\")]<5> {3}\r\n\r\n)" := by decide

example : readItem (sectionText false fetch_exSection ++ [32] ++ encLiteral [13, 10, 41] ++ [41]) =
    some (Item.sec { spec := asc "HEADER", part := [1, 2], fields := [asc "Subject", asc "X-Y"], fieldsNot := [],
                     partial_ := some ⟨5, 0⟩, peek := false } [13, 10, 41], [41]) :=
  fetch_sec false fetch_exSection [13, 10, 41] (by decide) ⟨by decide, by decide⟩ (by decide) [41]

example : readItem (sectionText false fetch_exSection ++ [32] ++ encLiteral [13, 10, 41] ++ [41]) =
    some (RespSpec.canonItem (Item.sec fetch_exSection [13, 10, 41]), [41]) :=
  fetch_item_fidelity false none (Item.sec fetch_exSection [13, 10, 41]) _ (by decide) rfl ⟨⟨by decide, by decide⟩, by decide⟩ [41]
    (Or.inl ⟨[], rfl⟩)

def fetch_exMsg : Msg :=
  { seq := 7, items := [.uid 42, .flags [asc "\\seen", asc "$Forwarded", asc "custom"], .size 1234] }

example : ReadsAs (asc "* 7 FETCH (UID 42 FLAGS (\\seen $Forwarded custom) RFC822.SIZE 1234)\r\n")
    (Event.fetch { seq := 7, items := [.uid 42, .flags [asc "\\Seen", asc "$Forwarded", asc "custom"], .size 1234] }) :=
  fetch_line false none fetch_exMsg _ (by decide) (by decide)
    (by
      intro it hit
      simp only [fetch_exMsg, List.mem_cons, List.not_mem_nil, or_false] at hit
      rcases hit with rfl | rfl | rfl
      · trivial
      · trivial
      · show (1234 : Int) < 9223372036854775808; decide)
    (by decide)

end GoImap.Resp
