/-
  Helper lemmas for C02: the lexing primitives of the server-reader mirror on what the
  client-writer mirror produces.
-/
import GoImap.Spec.CmdGrammar
import Mathlib.Tactic.SplitIfs
namespace GoImap.CmdLemmas
open GoImap.CmdGrammar

/-- the next item does not continue a token of class `p` -/
def Stops (p : Nat → Bool) : Wire → Prop
  | .b c :: _ => p c = false
  | _ => True

theorem span_atom (p : Nat → Bool) : ∀ (t : Str) (rest : Wire), (∀ c ∈ t, p c = true) → Stops p rest →
    span p (atom t ++ rest) = (t, rest)
  | [], rest, _, hs => by
    cases rest with
    | nil => rfl
    | cons i r =>
      cases i with
      | b c => simp only [Stops] at hs; simp [atom, span, hs]
      | s v => rfl
      | lit v => rfl
      | date d => rfl
      | datetime t => rfl
  | c :: t, rest, h, hs => by
    have hc : p c = true := h c (by simp)
    have ih := span_atom p t rest (fun x hx => h x (by simp [hx])) hs
    simp only [atom, List.map_cons, List.cons_append, span, hc, if_true]
    simp only [atom] at ih
    rw [ih]

theorem stops_sp (p : Nat → Bool) (h : p 32 = false) (r : Wire) : Stops p (sp ++ r) := by
  simp [sp, Stops, h]

theorem stops_crlf (p : Nat → Bool) (h : p 13 = false) (r : Wire) : Stops p (crlf ++ r) := by
  simp [crlf, Stops, h]

theorem stops_b (p : Nat → Bool) (c : Nat) (h : p c = false) (r : Wire) : Stops p (.b c :: r) := by
  simp [Stops, h]

/-! ### decimal -/

theorem digitsAux_digit : ∀ (fuel n : Nat) (acc : Str), (∀ c ∈ acc, isDigit c = true) →
    ∀ c ∈ digitsAux fuel n acc, isDigit c = true
  | 0, _, acc, h => by simpa [digitsAux] using h
  | fuel+1, n, acc, h => by
    unfold digitsAux
    split_ifs with hn
    · intro c hc
      rcases List.mem_cons.mp hc with rfl | hc
      · simp [isDigit]; omega
      · exact h c hc
    · apply digitsAux_digit fuel
      intro c hc
      rcases List.mem_cons.mp hc with rfl | hc
      · simp [isDigit]; omega
      · exact h c hc

theorem digits_digit (n : Nat) : ∀ c ∈ digits n, isDigit c = true :=
  digitsAux_digit _ _ [] (by simp)

theorem digit_atomChar {c : Nat} (h : isDigit c = true) : isAtomChar c = true := by
  simp only [isDigit, Bool.and_eq_true, decide_eq_true_eq] at h
  unfold isAtomChar isControl
  have h1 : 48 ≤ c := h.1
  have h2 : c ≤ 57 := h.2
  simp
  omega

theorem digitsAux_ne_nil : ∀ (fuel n : Nat) (acc : Str), (fuel ≠ 0 ∨ acc ≠ []) → digitsAux fuel n acc ≠ []
  | 0, _, acc, h => by simpa [digitsAux] using h
  | fuel+1, n, acc, _ => by
    unfold digitsAux
    split_ifs
    · simp
    · exact digitsAux_ne_nil fuel _ _ (Or.inr (by simp))

theorem digits_ne_nil (n : Nat) : digits n ≠ [] := digitsAux_ne_nil _ _ _ (Or.inl (by omega))


/-! ### primitives on writer output -/

/-- the next item is not an end of line (what `Decoder.SP` looks at after a space) -/
def NotEol : Wire → Prop
  | .b c :: _ => c ≠ 13 ∧ c ≠ 10
  | [] => False
  | _ => True

theorem pAtom_atom (t : Str) (rest : Wire) (hne : t ≠ []) (h : ∀ c ∈ t, isAtomChar c = true)
    (hs : Stops isAtomChar rest) : pAtom (atom t ++ rest) = .ok (t, rest) := by
  unfold pAtom
  rw [span_atom isAtomChar t rest h hs]
  simp [hne]

theorem pSP_sp (r : Wire) (h : NotEol r) : pSP (sp ++ r) = .ok ((), r) := by
  cases r with
  | nil => exact absurd h (by simp [NotEol])
  | cons i r =>
    cases i with
    | b c =>
      simp only [NotEol] at h
      simp [pSP, sp, decSP, h.1, h.2]
    | s v => simp [pSP, sp, decSP]
    | lit v => simp [pSP, sp, decSP]
    | date d => simp [pSP, sp, decSP]
    | datetime t => simp [pSP, sp, decSP]

theorem pCRLF_crlf (r : Wire) : pCRLF (crlf ++ r) = .ok ((), r) := by
  simp [pCRLF, crlf, special]

theorem notEol_atom (t : Str) (rest : Wire) (hne : t ≠ []) (h : ∀ c ∈ t, isAtomChar c = true) :
    NotEol (atom t ++ rest) := by
  cases t with
  | nil => exact absurd rfl hne
  | cons c t =>
    have hc := h c (by simp)
    simp only [atom, List.map_cons, List.cons_append, NotEol]
    constructor <;> (intro he; subst he; simp [isAtomChar, isControl] at hc)

theorem notEol_s (v : Str) (r : Wire) : NotEol (.s v :: r) := by simp [NotEol]

def tagW (n : Nat) : Wire := [.b 84] ++ atom (digits n) ++ sp

theorem tag_atom (n : Nat) : ([Item.b 84] ++ atom (digits n) : Wire) = atom (84 :: digits n) := by
  simp [atom]

theorem tag_chars (n : Nat) : ∀ c ∈ (84 :: digits n : Str), isAtomChar c = true := by
  intro c hc
  rcases List.mem_cons.mp hc with rfl | hc
  · decide
  · exact digit_atomChar (digits_digit n c hc)

/-- a command name: non-empty, atom characters, already upper case -/
structure IsName (name : Str) : Prop where
  ne : name ≠ []
  chars : ∀ c ∈ name, isAtomChar c = true
  up : upper name = name

theorem pHeader_plain (n : Nat) (name : Str) (rest : Wire) (hn : IsName name) (hnu : name ≠ str "UID")
    (hs : Stops isAtomChar rest) :
    pHeader (tagW n ++ atom name ++ rest) = .ok ((false, name), rest) := by
  unfold pHeader tagW
  rw [tag_atom, List.append_assoc, List.append_assoc,
    pAtom_atom _ _ (by simp) (tag_chars n) (stops_sp _ (by decide) _)]
  simp only [bind, Except.bind]
  rw [pSP_sp _ (notEol_atom name rest hn.ne hn.chars)]
  simp only
  rw [pAtom_atom name rest hn.ne hn.chars hs]
  simp only [hn.up, hnu, if_false, pure, Except.pure]

theorem pHeader_uid (n : Nat) (name : Str) (rest : Wire) (hn : IsName name)
    (hs : Stops isAtomChar rest) :
    pHeader (tagW n ++ kw "UID " ++ atom name ++ rest) = .ok ((true, name), rest) := by
  have hk : kw "UID " = atom (str "UID") ++ sp := by decide
  unfold pHeader tagW
  rw [hk, tag_atom]
  simp only [List.append_assoc]
  rw [pAtom_atom _ _ (by simp) (tag_chars n) (stops_sp _ (by decide) _)]
  simp only [bind, Except.bind]
  rw [pSP_sp _ (notEol_atom _ _ (by decide) (by decide))]
  simp only
  rw [pAtom_atom (str "UID") _ (by decide) (by decide) (stops_sp _ (by decide) _)]
  simp only
  have hu : upper (str "UID") = str "UID" := by decide
  simp only [hu, if_true]
  rw [pSP_sp _ (notEol_atom name rest hn.ne hn.chars)]
  simp only
  rw [pAtom_atom name rest hn.ne hn.chars hs]
  simp only [hn.up, pure, Except.pure]

end GoImap.CmdLemmas
