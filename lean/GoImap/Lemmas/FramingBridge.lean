import GoImap.Model.Framing
import GoImap.Spec.Framing
import GoImap.Lemmas.FramingEvs
import GoImap.Lemmas.FramingDepth
/-
  Where the model's framing decisions meet the RFC-side definitions of Spec/Framing.lean.
-/
namespace GoImap.Framing

theorem isDigit_eq : Framing.isDigit = FramingSpec.isDigit := rfl

/-- DiscardLine's test for an ignored non-synchronising literal is the RFC header recogniser:
    the line's tail ends in "{" 1*DIGIT "+}" exactly when `litHeader` says so. -/
theorem nonSyncSuffix_iff_litHeader (t : Bytes) :
    nonSyncSuffix t = true ↔ ∃ n, FramingSpec.litHeader t = some (n, true) := by
  unfold nonSyncSuffix FramingSpec.litHeader
  generalize t.reverse = r
  match r with
  | [] => simp [nonSyncSuffixRev]
  | [a] =>
    by_cases h : a = 125
    · subst h; simp [nonSyncSuffixRev]
    · simp [nonSyncSuffixRev]
      intro n; split <;> simp_all
  | a :: b :: r =>
    by_cases ha : a = 125
    · subst ha
      by_cases hb : b = 43
      · subst hb
        simp only [nonSyncSuffixRev, isDigit_eq]
        by_cases h1 : (List.takeWhile FramingSpec.isDigit r).isEmpty
        · simp [h1]
        · by_cases h2 : (List.dropWhile FramingSpec.isDigit r).head? = some 123
          · simp [h1, h2]
          · simp [h1, h2]
      · -- "}" not preceded by "+": never a non-synchronising header
        have hns : nonSyncSuffixRev (125 :: b :: r) = false := by
          unfold nonSyncSuffixRev
          split
          · rename_i heq; simp at heq; exact absurd heq.1 hb
          · rfl
        rw [hns]
        simp only [Bool.false_eq_true, false_iff, not_exists]
        intro n
        split
        · rename_i heq; simp at heq; exact absurd heq.1 hb
        · dsimp only
          split_ifs <;> simp
    · have hns : nonSyncSuffixRev (a :: b :: r) = false := by
        unfold nonSyncSuffixRev
        split
        · rename_i heq; simp at heq; exact absurd heq.1 ha
        · rfl
      rw [hns]
      simp only [Bool.false_eq_true, false_iff, not_exists]
      intro n
      split
      · rename_i heq; simp at heq; exact absurd heq.1 ha
      · simp

/-- while a literal is open nothing can be read as command text -/
theorem open_literal_blocks_text (s : S) (h : s.lit.isSome = true) :
    s.look.1 = none ∧ s.look.2.inp = s.inp ∧ s.look.2.pos = s.pos := by
  unfold S.look
  simp [h]

theorem open_literal_blocks_func (s : S) (valid : Nat → Bool) (h : s.lit.isSome = true) :
    (s.func valid).1 = none ∧ (s.func valid).2.inp = s.inp := by
  unfold S.func
  simp [h]

/-- after a command that left a non-synchronising literal unread, the connection state is
    `logout`: the command loop says BYE and stops, no further octet is consumed -/
theorem unread_nonsync_closes (cfg : Cfg) (hfix : cfg.fx.close = true) (tag : Bytes) (bu : Bool)
    (e : Option Err) (s : S) (h : (s.discardLine cfg.fx).unreadNonSync = true) :
    (finishCommand cfg tag bu e s).st = .logout := by
  unfold finishCommand
  generalize (s.discardLine cfg.fx) = s1 at h
  dsimp only
  by_cases hst : s1.st = .logout
  · split_ifs <;> simp_all [S.emit]
  · have : (cfg.fx.close && s1.unreadNonSync && s1.st != St.logout) = true := by
      simp [hfix, h, hst]
    simp only [this, if_true]
    split_ifs <;> simp [S.emit]

/-- in the `logout` state the loop consumes nothing more: the very next step is the epilogue -/
theorem logout_stops (cfg : Cfg) (fuel : Nat) (s : S) (h : s.st = .logout) :
    serveLoop cfg (fuel + 1) s = s.emit .close := by
  simp [serveLoop, h]

/-! ### the lexer never writes a continuation request -/

/-- every continuation request of s' was already in s -/
def NoCont (s s' : S) : Prop := ∀ p, Event.cont p ∈ s'.evs → Event.cont p ∈ s.evs

theorem NoCont.refl {s : S} : NoCont s s := fun _ h => h
theorem NoCont.trans {s s' s'' : S} (h1 : NoCont s s') (h2 : NoCont s' s'') : NoCont s s'' :=
  fun p h => h1 p (h2 p h)
theorem NoCont.of_evs {s s' : S} (h : s'.evs = s.evs) : NoCont s s' := fun p hp => h ▸ hp
theorem NoCont.emit {s : S} {e : Event} (he : ∀ p, e ≠ .cont p) : NoCont s (s.emit e) := by
  intro p hp
  simp only [S.emit, List.mem_cons] at hp
  rcases hp with hp | hp
  · exact absurd hp.symm (he p)
  · exact hp

theorem fail_nc (s : S) (e : Err) : NoCont s (s.fail e) := .of_evs (by simp)

theorem sawEof_nc (s : S) : NoCont s s.sawEof := by
  unfold S.sawEof
  intro p hp
  simp only [fail_evs, S.emit, List.mem_cons] at hp
  rcases hp with hp | hp
  · cases hp
  · exact hp

theorem look_nc {s : S} {r s1} (h : s.look = (r, s1)) : NoCont s s1 := by
  unfold S.look at h
  dsimp only at h
  split at h
  · cases h; exact .of_evs (by simp)
  · split at h
    · cases h; exact NoCont.trans (s' := { s with crlf := false }) (.of_evs rfl) (sawEof_nc _)
    · cases h; exact .of_evs rfl

theorem accept_nc {s : S} {w : Nat} {r s1} (h : s.accept w = (r, s1)) : NoCont s s1 := by
  unfold S.accept at h
  split at h
  · rename_i b s2 heq
    split at h
    · cases h; exact (look_nc heq).trans (.of_evs rfl)
    · cases h; exact look_nc heq
  · rename_i s2 heq
    cases h; exact look_nc heq

theorem func_nc {s : S} {valid : Nat → Bool} {r s1} (h : s.func valid = (r, s1)) : NoCont s s1 := by
  unfold S.func at h
  dsimp only at h
  split at h
  · cases h; exact .of_evs (by simp)
  · split at h
    · cases h
      refine NoCont.trans ?_ (sawEof_nc _)
      exact .of_evs rfl
    · split at h <;> (cases h; exact .of_evs rfl)

theorem crlfP_nc {s : S} {r s1} (h : s.crlfP = (r, s1)) : NoCont s s1 := by
  unfold S.crlfP at h
  have h123 : NoCont s (((s.accept 32).2.accept 13).2.accept 10).2 :=
    ((accept_nc rfl).trans (accept_nc rfl)).trans (accept_nc rfl)
  dsimp only at h
  split at h
  · cases h
    split
    · exact h123.trans ((NoCont.emit (by intro p; simp)).trans (.of_evs rfl))
    · exact h123.trans (.of_evs rfl)
  · cases h; exact h123

theorem number64_nc {s : S} {r s1} (h : s.number64 = (r, s1)) : NoCont s s1 := by
  unfold S.number64 at h
  split at h
  · rename_i ds s4 h4; split at h <;> (cases h; exact func_nc h4)
  · rename_i s4 h4; cases h; exact func_nc h4

theorem expectCRLF_nc {s : S} {r s1} (h : s.expectCRLF = (r, s1)) : NoCont s s1 := by
  unfold S.expectCRLF at h
  cases h
  exact NoCont.trans (crlfP_nc rfl) (.of_evs (by simp))

theorem literalReader_nc {fx : Fixes} {s : S} {r s1} (h : s.literalReader fx = (r, s1)) : NoCont s s1 := by
  unfold S.literalReader at h
  split at h
  · rename_i s2 heq; cases h; exact accept_nc heq
  · rename_i s2 heq
    split at h
    · rename_i s3 heq2
      cases h
      exact ((accept_nc heq).trans (number64_nc heq2)).trans (fail_nc _ _)
    · rename_i n s3 heq2
      have h5 : NoCont s ((s3.accept 43).2.accept 125).2 :=
        (((accept_nc heq).trans (number64_nc heq2)).trans (accept_nc rfl)).trans (accept_nc rfl)
      dsimp only at h
      split at h
      · cases h; exact h5.trans (fail_nc _ _)
      · have h6 : NoCont s (((s3.accept 43).2.accept 125).2.expectCRLF).2 := h5.trans (expectCRLF_nc rfl)
        split at h
        · cases h; exact h6
        · cases h; exact h6.trans (.of_evs rfl)

/-- A refused literal gets no continuation request: when Decoder.Literal (with the server's
    check) does not hand back a value, it has not written "+". -/
theorem refused_literal_no_cont (cfg : Cfg) (s s1 : S) (h : s.literal cfg = (none, s1)) :
    NoCont s s1 := by
  unfold S.literal at h
  split at h
  · rename_i s2 heq; cases h; exact literalReader_nc heq
  · rename_i n ns s2 heq
    split at h
    · rename_i e s3 heq2
      have hc : NoCont s2 s3 := by
        unfold checkBufferedLiteral at heq2
        split at heq2
        · cases heq2; exact .refl
        · unfold acceptLiteral at heq2
          split at heq2
          · cases heq2; exact .refl
          · split at heq2 <;> cases heq2
      split at h
      · cases h; exact ((literalReader_nc heq).trans hc).trans (fail_nc _ _)
      · cases h; exact ((literalReader_nc heq).trans hc).trans (.of_evs rfl)
    · cases h

/-- the same for APPEND: a literal over the limit, or a non-synchronising one over 4096 octets
    without LITERAL+, is refused without "+" -/
theorem refused_append_no_cont (cfg : Cfg) (n : Nat) (ns : Bool) (s : S) (e : Err) (s1 : S)
    (h : acceptLiteral cfg n ns s = (some e, s1)) : s1 = s := by
  unfold acceptLiteral at h
  split at h
  · cases h; rfl
  · split at h <;> cases h

/-! ### what a successful LiteralReader consumed is a literal header for the RFC recogniser -/

theorem look_some {s : S} {b s1} (h : s.look = (some b, s1)) :
    s.lit = none ∧ ∃ r, s.inp = b :: r ∧ s1.inp = s.inp ∧ s1.lit = none := by
  unfold S.look at h
  dsimp only at h
  split at h
  · cases h
  · rename_i hl
    have hl' : s.lit = none := by
      cases hs : s.lit with
      | none => rfl
      | some v => simp [hs] at hl
    split at h
    · cases h
    · rename_i b' r hinp
      cases h
      exact ⟨hl', r, hinp, rfl, hl'⟩

theorem accept_true {s : S} {w : Nat} {s1} (h : s.accept w = (true, s1)) :
    s.lit = none ∧ s.inp = w :: s1.inp ∧ s1.lit = none := by
  unfold S.accept at h
  split at h
  · rename_i b s2 heq
    obtain ⟨hl, r, hi, hi2, hl2⟩ := look_some heq
    split at h
    · rename_i hbw
      cases h
      have : b = w := by simpa using hbw
      subst this
      refine ⟨hl, ?_, by simp [S.take, hl2]⟩
      simp only [S.take, hi2, hi]
      simp
    · cases h
  · cases h

theorem accept_lit {s : S} {w : Nat} {r s1} (h : s.accept w = (r, s1)) (hl : s.lit = none) :
    s1.lit = none ∧ (r = false → s1.inp = s.inp) := by
  obtain ⟨inp, pos, err, lit, crlf, tail, ld, mute, st, evs, roles⟩ := s
  simp only at hl
  subst hl
  cases inp with
  | nil =>
    simp [S.accept, S.look, S.sawEof, S.emit, S.fail] at h
    obtain ⟨rfl, rfl⟩ := h
    cases err <;> simp
  | cons b t =>
    by_cases hb : b = w
    · subst hb
      simp [S.accept, S.look, S.take] at h
      obtain ⟨rfl, rfl⟩ := h
      simp
    · simp [S.accept, S.look, hb] at h
      obtain ⟨rfl, rfl⟩ := h
      simp

theorem mem_takeWhile_true (p : Nat → Bool) : ∀ (l : List Nat) (x : Nat), x ∈ l.takeWhile p → p x = true := by
  intro l
  induction l with
  | nil => intro x h; simp at h
  | cons a t ih =>
    intro x h
    simp only [List.takeWhile_cons] at h
    split at h
    · rename_i ha
      simp only [List.mem_cons] at h
      rcases h with rfl | h
      · exact ha
      · exact ih x h
    · simp at h

theorem func_some {s : S} {valid : Nat → Bool} {tok s1} (h : s.func valid = (some tok, s1)) :
    tok ≠ [] ∧ (∀ b ∈ tok, valid b = true) ∧ s.inp = tok ++ s1.inp ∧ s1.lit = none ∧
      (∃ c r, s1.inp = c :: r ∧ valid c = false) := by
  obtain ⟨inp, pos, err, lit, crlf, tail, ld, mute, st, evs, roles⟩ := s
  unfold S.func at h
  dsimp only at h
  split at h
  · cases h
  · rename_i hl
    have hl' : lit = none := by
      cases lit with
      | none => rfl
      | some v => simp at hl
    subst hl'
    generalize htw : List.takeWhile valid inp = tw at h
    have hsplit : inp = tw ++ List.dropWhile valid inp := by
      rw [← htw]; exact List.takeWhile_append_dropWhile.symm
    generalize hdw : List.dropWhile valid inp = dw at hsplit
    have hlen : min tw.length inp.length = tw.length := by rw [hsplit]; simp
    have hdrop : List.drop tw.length inp = dw := by rw [hsplit]; simp
    simp only [S.take, hlen, hdrop] at h
    split at h
    · cases h
    · rename_i hne
      split at h
      · cases h
      · rename_i hne2
        simp only [Prod.mk.injEq, Option.some.injEq] at h
        obtain ⟨rfl, rfl⟩ := h
        refine ⟨by intro h0; apply hne2; simp [h0], ?_, hsplit, rfl, ?_⟩
        · intro b hb; rw [← htw] at hb; exact mem_takeWhile_true valid inp b hb
        · cases dw with
          | nil => simp at hne
          | cons c r =>
            refine ⟨c, r, rfl, ?_⟩
            have hw : List.dropWhile valid inp ≠ [] := by rw [hdw]; simp
            have := List.head_dropWhile_not valid hw
            simpa [hdw] using this

/-- the octets a successful LiteralReader consumed: "{" digits ["+"] "}" [SP] [CR] LF, with the
    announced size read off the digits (below 2^63) -/
theorem literalReader_consumed {fx : Fixes} {s : S} {n : Nat} {ns : Bool} {s1 : S}
    (h : s.literalReader fx = (some (n, ns), s1)) :
    ∃ (ds : Bytes) (sp cr : Bool), ds ≠ [] ∧ (∀ d ∈ ds, isDigit d = true) ∧ valOf ds = n ∧ n < int64Bound ∧
      s.inp = 123 :: ds ++ (if ns then [43] else []) ++ [125] ++ (if sp then [32] else [])
        ++ (if cr then [13] else []) ++ [10] ++ s1.inp := by
  unfold S.literalReader at h
  split at h
  · cases h
  · rename_i s2 h2
    obtain ⟨_, hi2, hl2⟩ := accept_true h2
    split at h
    · cases h
    · rename_i n' s3 h3
      unfold S.number64 at h3
      split at h3
      · rename_i ds s4 h4
        obtain ⟨hne, hdig, hi4, hl4, _⟩ := func_some h4
        split at h3
        · rename_i hlt
          cases h3
          generalize h5 : s3.accept 43 = p5 at h
          obtain ⟨plus, s5⟩ := p5
          dsimp only at h
          generalize h6 : s5.accept 125 = p6 at h
          obtain ⟨cb, s6⟩ := p6
          dsimp only at h
          obtain ⟨hl5, hplus5⟩ := accept_lit h5 hl4
          cases cb with
          | false => simp at h
          | true =>
            simp only [Bool.not_true, Bool.false_eq_true, if_false] at h
            obtain ⟨_, hi6, hl6⟩ := accept_true h6
            generalize h7 : s6.expectCRLF = p7 at h
            obtain ⟨ok, s7⟩ := p7
            dsimp only at h
            cases ok with
            | false => simp at h
            | true =>
              simp only [Bool.not_true, Bool.false_eq_true, if_false, Prod.mk.injEq, Option.some.injEq] at h
              obtain ⟨⟨hn, hns⟩, hs1⟩ := h
              subst hn hns
              unfold S.expectCRLF at h7
              simp only [Prod.mk.injEq] at h7
              obtain ⟨hcr, hs7⟩ := h7
              unfold S.crlfP at hcr hs7
              generalize h8 : s6.accept 32 = p8 at hcr hs7
              obtain ⟨sp, s8⟩ := p8
              dsimp only at hcr hs7
              generalize h9 : s8.accept 13 = p9 at hcr hs7
              obtain ⟨cr, s9⟩ := p9
              dsimp only at hcr hs7
              generalize h10 : s9.accept 10 = p10 at hcr hs7
              obtain ⟨lf, s10⟩ := p10
              dsimp only at hcr hs7
              cases lf with
              | false => simp at hcr
              | true =>
                simp only [if_true] at hs7
                obtain ⟨hl8, hsp8⟩ := accept_lit h8 hl6
                obtain ⟨hl9, hcr9⟩ := accept_lit h9 hl8
                obtain ⟨_, hi10, _⟩ := accept_true h10
                have hinp7 : s1.inp = s10.inp := by
                  rw [← hs1, ← hs7]
                  simp only [expect_inp]
                  split <;> simp [S.emit]
                refine ⟨ds, sp, cr, hne, hdig, rfl, hlt, ?_⟩
                have e5 : s3.inp = (if plus then [43] else []) ++ s5.inp := by
                  cases plus
                  · simp [hplus5 rfl]
                  · obtain ⟨_, hi5, _⟩ := accept_true h5; simp [hi5]
                have e8 : s6.inp = (if sp then [32] else []) ++ s8.inp := by
                  cases sp
                  · simp [hsp8 rfl]
                  · obtain ⟨_, hi8, _⟩ := accept_true h8; simp [hi8]
                have e9 : s8.inp = (if cr then [13] else []) ++ s9.inp := by
                  cases cr
                  · simp [hcr9 rfl]
                  · obtain ⟨_, hi9, _⟩ := accept_true h9; simp [hi9]
                rw [hi2, hi4, e5, hi6, e8, e9, hi10, hinp7]
                simp
        · cases h3
      · cases h3

theorem valOf_eq : Framing.valOf = FramingSpec.valOf := rfl

/-- the RFC recogniser on a line that ends in such a header -/
theorem litHeader_of_header (pre ds : Bytes) (ns : Bool) (hne : ds ≠ [])
    (hdig : ∀ d ∈ ds, isDigit d = true) :
    FramingSpec.litHeader (pre ++ 123 :: ds ++ (if ns then [43] else []) ++ [125]) = some (valOf ds, ns) := by
  unfold FramingSpec.litHeader
  have hrev : (pre ++ 123 :: ds ++ (if ns then [43] else []) ++ [125]).reverse
      = 125 :: ((if ns then [43] else []) ++ (ds.reverse ++ 123 :: pre.reverse)) := by
    cases ns <;> simp
  rw [hrev]
  have htw : List.takeWhile FramingSpec.isDigit (ds.reverse ++ 123 :: pre.reverse) = ds.reverse :=
    tw_app _ _ _ _ (by intro b hb; rw [← isDigit_eq]; exact hdig b (by simpa using hb)) (by decide)
  have hdw : List.dropWhile FramingSpec.isDigit (ds.reverse ++ 123 :: pre.reverse) = 123 :: pre.reverse := by
    have := List.takeWhile_append_dropWhile (p := FramingSpec.isDigit) (l := ds.reverse ++ 123 :: pre.reverse)
    rw [htw] at this
    exact List.append_cancel_left this
  have hne' : ds.reverse.isEmpty = false := by cases ds <;> simp_all
  cases ns
  · -- synchronising: the octet before "}" is the last digit, not "+"
    simp only [Bool.false_eq_true, if_false, List.nil_append]
    have hhead : ∃ d t, ds.reverse = d :: t ∧ d ≠ 43 := by
      cases hr : ds.reverse with
      | nil => simp [hr] at hne'
      | cons d t =>
        refine ⟨d, t, rfl, ?_⟩
        have := hdig d (by have : d ∈ ds.reverse := by rw [hr]; simp
                           simpa using this)
        intro h43; subst h43; simp [isDigit] at this
    obtain ⟨d, t, hdt, hd43⟩ := hhead
    split
    · rename_i r1 heq
      rw [hdt] at heq
      simp at heq
      exact absurd heq.1 hd43
    · simp only [htw, hdw, hne', Bool.false_eq_true, if_false, List.head?_cons, beq_self_eq_true, if_true,
        List.reverse_reverse, valOf_eq]
  · simp only [if_true, List.singleton_append, htw, hdw, hne', Bool.false_eq_true, if_false,
      List.head?_cons, beq_self_eq_true, List.reverse_reverse, valOf_eq]

end GoImap.Framing
