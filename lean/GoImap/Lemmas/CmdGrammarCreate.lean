/-
  C02 helper lemmas: CREATE with special-use attributes; MOVE emulated by COPY + STORE + EXPUNGE.
-/
import GoImap.Lemmas.CmdGrammarStatus
namespace GoImap.CmdLemmas
open GoImap.CmdGrammar GoImap.CmdSpec

/-! ### canonical spelling is idempotent -/

theorem lower_eq_of_find {l : List Str} {f g : Str} (h : l.find? (fun x => lower x == lower f) = some g) :
    lower g = lower f := by
  have := List.find?_some h
  simpa using this

theorem canonFlag_idem (f : Str) : canonFlag (canonFlag f) = canonFlag f := by
  unfold canonFlag
  cases h : systemFlags.find? (fun g => lower g == lower f) with
  | none => simp [h]
  | some g =>
    have hl := lower_eq_of_find h
    simp only [hl, h]

theorem canonAttr_canonFlag (f : Str) : canonAttr (canonFlag f) = canonAttr f := by
  unfold canonAttr
  simp only [canonFlag_idem]

/-! ### CREATE -/

/-- a special-use attribute the client's encoder accepts -/
def AttrOK (f : Str) : Prop := f.head? = some 92 ∧ FlagOK f

theorem wAttr_ok (f : Str) (h : AttrOK f) : wAttr f = .ok (atom f) := by
  unfold wAttr
  have h2 : isValidFlag f = true := h.2
  simp [h.1, h2]

theorem mapM_wAttr (fs : List Str) (h : ∀ f ∈ fs, AttrOK f) : fs.mapM wAttr = .ok (fs.map fun f => atom f) := by
  induction fs with
  | nil => rfl
  | cons f t ih =>
    have hf := wAttr_ok f (h f (by simp))
    have := ih (fun x hx => h x (by simp [hx]))
    simp [List.mapM_cons, hf, this, bind, Except.bind, pure, Except.pure]

theorem attrItemSpec : ItemSpec pAttrItem (fun f => atom f) (fun acc f => acc ++ [canonAttr f]) AttrOK (Stops isAtomChar) where
  parse := by
    intro st a tail hv hok
    simp only [pAttrItem, pFlag_atom a tail hv.2 hok, bind, Except.bind, pure, Except.pure, canonAttr_canonFlag]
  okClose := flagItemSpec.okClose
  okSp := flagItemSpec.okSp
  notEol := fun a tail hv => flagItemSpec.notEol a tail hv.2
  notClose := fun a tail hv => flagItemSpec.notClose a tail hv.2
  nonEmpty := fun a hv => flagItemSpec.nonEmpty a hv.2

theorem foldl_canonAttr (fs : List Str) (acc : List Str) :
    fs.foldl (fun acc f => acc ++ [canonAttr f]) acc = acc ++ fs.map canonAttr := by
  induction fs generalizing acc with
  | nil => simp
  | cons f t ih => simp [ih]

theorem decSP_crlf : decSP crlf = (false, crlf) := by simp [crlf, decSP]

theorem create_fidelity (cfg : Cfg) (tag : Nat) (m : List Nat) (use : List Str) (hm : MailboxOK m)
    (hu : ∀ f ∈ use, AttrOK f) :
    roundTrip {} cfg tag (.create m use) = .calls (sem cfg (.create m use)) := by
  by_cases hnil : use = []
  · subst hnil
    apply roundTrip_single cfg tag _ (kw "CREATE" ++ sp ++ wMailbox m)
    · simp [wBody, bind, Except.bind, pure, Except.pure]
    · simp only [kw, List.append_assoc]
      rw [parse_plain cfg tag (str "CREATE") _ (isName_kw "CREATE") (by decide) (stops_sp_atom _), dispatch_create]
      simp only [one, pCreate, bind, Except.bind, pSP_sp _ (notEol_wMailbox _ _), pMailbox_wMailbox m crlf hm stops_crlf0,
        decSP_crlf]
      simp [pCRLF_crlf_nil, sem, semRaw, canon, pure, Except.pure]
  · apply roundTrip_single cfg tag _ (kw "CREATE" ++ sp ++ wMailbox m ++ (sp ++ kw "(USE " ++ wList (use.map fun f => atom f) ++ [.b 41]))
    · simp [wBody, mapM_wAttr use hu, hnil, bind, Except.bind, pure, Except.pure]
    · have hk : kw "(USE " = [.b 40] ++ (atom (str "USE") ++ sp) := by decide
      simp only [kw, List.append_assoc] at hk ⊢
      rw [parse_plain cfg tag (str "CREATE") _ (isName_kw "CREATE") (by decide) (stops_sp_atom _), dispatch_create]
      have hl := pList_wList attrItemSpec use hu [] (.b 41 :: crlf)
      rw [foldl_canonAttr] at hl
      have hne : NotEol (wList (use.map fun f => atom f) ++ (.b 41 :: crlf)) := by simp [wList, NotEol]
      have hdec : ∀ r : Wire, decSP (sp ++ (Item.b 40 :: r)) = (true, Item.b 40 :: r) := by
        intro r; simp [sp, decSP]
      simp only [one, pCreate, bind, Except.bind, pSP_sp _ (notEol_wMailbox _ _), pMailbox_wMailbox m _ hm (stops_sp_atom _), hk,
        List.singleton_append, List.cons_append, List.nil_append, List.append_assoc, hdec, pSpecial, special_b]
      have hup : upper (str "USE") = str "USE" := by decide
      simp only [if_true, pAtom_atom (str "USE") _ (by decide) (by decide) (stops_sp_atom _), pSP_sp _ hne, hup, ne_eq,
        not_true_eq_false, if_false, hl, List.nil_append, special_b, pure, Except.pure, pCRLF_crlf_nil]
      simp [sem, semRaw, canon]


/-! ### MOVE without the MOVE capability: COPY, STORE +FLAGS.SILENT (\Deleted), [UID] EXPUNGE -/

theorem printCmd_triple (q : Quirks) (cfg : Cfg) (tag : Nat) (c : Cmd) (b1 b2 b3 : Wire)
    (h : wBody q cfg c = .ok [[.fixed b1], [.fixed b2], [.fixed b3]]) :
    (printCmd q cfg tag c).map (fun cmds => cmds.map linearise) =
      .ok [tagW tag ++ b1 ++ crlf, tagW (tag + 1) ++ b2 ++ crlf, tagW (tag + 2) ++ b3 ++ crlf] := by
  simp [printCmd, h, bind, Except.bind, pure, Except.pure, List.zipIdx, Except.map, linearise, Seg.lin, tagW]

theorem roundTrip_triple (cfg : Cfg) (tag : Nat) (c : Cmd) (b1 b2 b3 : Wire) (c1 c2 c3 : List Cmd)
    (hw : wBody {} cfg c = .ok [[.fixed b1], [.fixed b2], [.fixed b3]])
    (h1 : parseOne cfg (tagW tag ++ b1 ++ crlf) = .ok (c1, []))
    (h2 : parseOne cfg (tagW (tag + 1) ++ b2 ++ crlf) = .ok (c2, []))
    (h3 : parseOne cfg (tagW (tag + 2) ++ b3 ++ crlf) = .ok (c3, [])) :
    roundTrip {} cfg tag c = .calls (c1 ++ c2 ++ c3) := by
  have hp := printCmd_triple {} cfg tag c b1 b2 b3 hw
  unfold roundTrip
  cases hpc : printCmd {} cfg tag c with
  | error e => rw [hpc] at hp; simp [Except.map] at hp
  | ok cmds =>
    rw [hpc] at hp
    simp only [Except.map, Except.ok.injEq] at hp
    simp only [hp, parseCmds, bind, Except.bind, h1, h2, h3]
    simp [pure, Except.pure]

theorem deletedItem : kw "+FLAGS.SILENT (\\Deleted)" = storeItem 1 true ++ sp ++ wList ([deletedFlag].map fun f => atom f) := by
  decide

theorem deletedFlag_ok : ∀ f ∈ [deletedFlag], FlagOK f := by
  intro f hf
  simp only [List.mem_singleton] at hf
  subst hf
  show isValidFlag _ = true
  decide

theorem move_fallback_fidelity (cfg : Cfg) (tag : Nat) (uid : Bool) (s : NSet) (m : List Nat)
    (hs : SetOK s) (hnf : SetNF s) (hm : MailboxOK m) (hmove : cfg.hasMove = false) :
    roundTrip {} cfg tag (.move uid s m) = .calls (sem cfg (.move uid s m)) := by
  have hcopy : parseOne cfg (tagW tag ++ (uidName uid "COPY" ++ sp ++ atom s.text ++ sp ++ wMailbox m) ++ crlf)
      = .ok ([.copy uid s (canonMailbox m)], []) := by
    simp only [List.append_assoc]
    rw [parse_uidName cfg tag uid "COPY" _ (isName_kw "COPY") (by decide) (stops_sp_atom _), dispatch_copy]
    simp only [one, bind, Except.bind, pCopy_w uid false s m hs hm]
    rfl
  have hstore : parseOne cfg (tagW (tag + 1) ++ (uidName uid "STORE" ++ sp ++ atom s.text ++ sp ++ kw "+FLAGS.SILENT (\\Deleted)") ++ crlf)
      = .ok ([.store uid s 1 true [deletedFlag]], []) := by
    rw [deletedItem]
    simp only [List.append_assoc]
    rw [parse_uidName cfg (tag + 1) uid "STORE" _ (isName_kw "STORE") (by decide) (stops_sp_atom _), dispatch_store]
    have := pStore_w uid s 1 true [deletedFlag] hs (by decide) deletedFlag_ok
    simp only [one, bind, Except.bind, this]
    have hc : canonFlag deletedFlag = deletedFlag := by decide
    simp [hc, pure, Except.pure]
  by_cases hx : (uid && cfg.hasUidPlus) = true
  · have hexp : parseOne cfg (tagW (tag + 2) ++ (kw "UID EXPUNGE" ++ sp ++ atom s.text) ++ crlf) = .ok ([.expunge (some s)], []) := by
      have hk : kw "UID EXPUNGE" = kw "UID " ++ atom (str "EXPUNGE") := by decide
      rw [hk]
      simp only [List.append_assoc]
      rw [parse_uid cfg (tag + 2) (str "EXPUNGE") _ (isName_kw "EXPUNGE") (stops_sp_atom _), dispatch_uidexpunge]
      have hst : Stops isNumSetChar crlf := by simp [crlf, Stops]; decide
      simp only [one, pUidExpunge, bind, Except.bind, pSP_sp _ (notEol_text s _ hs), pNumSet_text s crlf hs hst, pCRLF_crlf_nil]
      rfl
    have := roundTrip_triple cfg tag (.move uid s m) _ _ _ _ _ _
      (by simp [wBody, wNumSet_ok s hs, hmove, hx, bind, Except.bind, pure, Except.pure]) hcopy hstore hexp
    rw [this]
    simp [sem, semRaw, canon, canonNSet_nf s hnf, hmove, hx]
    decide
  · have hexp : parseOne cfg (tagW (tag + 2) ++ kw "EXPUNGE" ++ crlf) = .ok ([.expunge none], []) := by
      have := parse_plain cfg (tag + 2) (str "EXPUNGE") crlf (isName_kw "EXPUNGE") (by decide) stops_crlf0
      simp only [kw, List.append_assoc] at this ⊢
      rw [this, dispatch_expunge]
      simp [one, pExpunge, bind, Except.bind, pCRLF_crlf_nil, pure, Except.pure]
    have := roundTrip_triple cfg tag (.move uid s m) _ _ _ _ _ _
      (by simp [wBody, wNumSet_ok s hs, hmove, hx, bind, Except.bind, pure, Except.pure]) hcopy hstore hexp
    rw [this]
    simp [sem, semRaw, canon, canonNSet_nf s hnf, hmove, hx]
    decide

end GoImap.CmdLemmas
