/-
  C03: the body-structure tree theorem (Lemmas/RespBodyTree.lean, stated over abstract pieces) instantiated
  with the proved pieces: the envelope round trip (Lemmas/RespEnvelope.lean) and the parameter / disposition /
  language / extension-block readers (Lemmas/RespBodyParts.lean).
-/
import GoImap.Lemmas.RespBodyTree
import GoImap.Lemmas.RespBodyParts
import GoImap.Lemmas.RespEnvelope
namespace GoImap.Resp

/-- the side conditions under which each piece of a body structure is read back as its canonical value -/
def bodyPieces (utf8 : Bool) (enc dec : QTab) : bt_Pieces utf8 enc dec where
  EnvP := EnvOK enc dec
  ParamsP := fun p => RespSpec.wfParams p = true ∧ bp_ParamsOK dec p
  Ext1P := bp_ExtOK1 dec
  ExtMP := bp_ExtOKM dec
  env := fun e t r h hp => envelope_fidelity utf8 enc dec e t r h hp
  envNil := fun t r hp => envelope_fidelity_nil utf8 enc dec t r hp
  params := fun p r h hr => bp_readParams utf8 dec p r h.1 h.2 hr
  ext1 := fun x r h hr => bp_readExt1 utf8 dec x r h (by obtain ⟨u, rfl⟩ := hr; exact StopsAt.cons _ (by decide))
  extM := fun x r h hr => bp_readExtM utf8 dec x r h (by obtain ⟨u, rfl⟩ := hr; exact StopsAt.cons _ (by decide))
  paramsHead := bp_printParams_ne_crlf utf8

/-- what the round trip needs to know about a body-structure tree besides `RespSpec.wfBody`: every string fits a
    literal, numbers fit their Go types, descriptions and parameter values are not encoded-word look-alikes
    (`QRaw`), nested envelopes satisfy `EnvOK`, extension data (when requested) satisfies `bp_ExtOK1/M` -/
abbrev BodyOK (utf8 : Bool) (enc dec : QTab) (ext : Bool) (b : Body) : Prop := bt_BodyOK (bodyPieces utf8 enc dec) ext b

end GoImap.Resp
