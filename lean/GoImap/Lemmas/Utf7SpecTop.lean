/- C16 helper lemmas: the whole-string spec decoder (look-ahead + fuel) against the state machine `dec`,
   given the segment-level refinement `specSeg = decodeSeg`. -/
import GoImap.Lemmas.Utf7Basic
import GoImap.Spec.Utf7
namespace GoImap.Utf7Lemmas
open GoImap.Utf7 GoImap.Utf7Spec

theorem splitDash_some : ∀ (cs seg rest : BytesN), splitDash cs = some (seg, rest) →
    cs = seg ++ 45 :: rest ∧ ∀ c ∈ seg, c ≠ 45
  | [], _, _, h => by simp [splitDash] at h
  | c :: cs, seg, rest, h => by
    simp only [splitDash] at h
    split_ifs at h with hc
    · simp only [Option.some.injEq, Prod.mk.injEq] at h
      obtain ⟨rfl, rfl⟩ := h
      subst hc
      simp
    · cases hs : splitDash cs with
      | none => simp [hs] at h
      | some p =>
        obtain ⟨a, b⟩ := p
        simp only [hs, Option.some.injEq, Prod.mk.injEq] at h
        obtain ⟨rfl, rfl⟩ := h
        obtain ⟨e, hno⟩ := splitDash_some cs a b hs
        refine ⟨by rw [e]; rfl, ?_⟩
        intro x hx
        simp only [List.mem_cons] at hx
        rcases hx with rfl | hx
        · exact hc
        · exact hno x hx

theorem splitDash_none : ∀ (cs : BytesN), splitDash cs = none → ∀ c ∈ cs, c ≠ 45
  | [], _, c, hc => by simp at hc
  | x :: cs, h, c, hc => by
    simp only [splitDash] at h
    split_ifs at h with hx
    cases hs : splitDash cs with
    | none =>
      simp only [List.mem_cons] at hc
      rcases hc with rfl | hc
      · exact hx
      · exact splitDash_none cs hs c hc
    | some p => obtain ⟨a, b⟩ := p; simp [hs] at h

theorem specDecodeAux_eq_dec (hseg : ∀ seg, specSeg seg = decodeSeg seg) :
    ∀ (fuel : Nat) (b : BytesN) (prev : Bool), b.length < fuel →
    specDecodeAux fuel prev b = dec (!prev) none b
  | 0, _, _, h => by omega
  | fuel + 1, [], prev, _ => by simp [specDecodeAux, dec]
  | fuel + 1, c :: cs, prev, hlen => by
    have hlen' : cs.length < fuel := by simp only [List.length_cons] at hlen; omega
    by_cases hc : c = 38
    · subst hc
      simp only [specDecodeAux, if_true]
      rw [dec_amp]
      cases hs : splitDash cs with
      | none =>
        simp only
        rw [dec_unterminated _ cs [] (splitDash_none cs hs)]
      | some p =>
        obtain ⟨seg, rest⟩ := p
        obtain ⟨e, hno⟩ := splitDash_some cs seg rest hs
        have hrest : rest.length < fuel := by
          rw [e] at hlen'
          simp only [List.length_append, List.length_cons] at hlen'
          omega
        simp only
        rw [e, dec_scan _ rest seg [] hno, List.nil_append]
        cases seg with
        | nil =>
          simp only [List.isEmpty_nil, if_true, decSeg, Option.bind_some]
          rw [specDecodeAux_eq_dec hseg fuel rest false hrest]
          rfl
        | cons x xs =>
          simp only [List.isEmpty_cons, Bool.false_eq_true, if_false]
          cases prev with
          | true => simp [decSeg]
          | false =>
            simp only [Bool.false_eq_true, if_false, decSeg, List.isEmpty_cons, Bool.not_false,
              Bool.not_true]
            rw [hseg]
            cases decodeSeg (x :: xs) with
            | none => rfl
            | some out =>
              simp only [Option.bind_some]
              rw [specDecodeAux_eq_dec hseg fuel rest true hrest]
              rfl
    · simp only [specDecodeAux, hc, if_false, dec]
      by_cases hp : 32 ≤ c ∧ c ≤ 126
      · have hp' : printable c = true := by
          simp only [printable, Bool.and_eq_true, decide_eq_true_eq]; exact hp
        simp only [hp, and_self, if_true, hp', Bool.not_true, Bool.false_eq_true, if_false, ne_eq]
        rw [specDecodeAux_eq_dec hseg fuel cs false hlen', if_pos hc]
        rfl
      · have hp' : printable c = false := by
          cases hq : printable c with
          | false => rfl
          | true =>
            simp only [printable, Bool.and_eq_true, decide_eq_true_eq] at hq
            exact absurd hq hp
        simp only [hp, if_false, hp', Bool.not_false, if_true]

theorem decode_eq_specDecode (hseg : ∀ seg, specSeg seg = decodeSeg seg) (b : BytesN) :
    decode b = specDecode b := by
  unfold decode specDecode
  rw [specDecodeAux_eq_dec hseg (b.length + 1) b false (by omega)]
  rfl

end GoImap.Utf7Lemmas
