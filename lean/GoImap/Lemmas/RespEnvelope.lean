/-
  Helper lemmas for C03: the ENVELOPE structure. What the server writes (`printEnvelope`, mirror of
  imapserver/fetch.go writeEnvelope + writeAddressList) is read back by the client (`readEnvelope`, mirror
  of imapclient/fetch.go readEnvelope, readAddressList, readAddress and of the date / msg-id parsing
  below it) as the specification's canonical envelope (`RespSpec.canonEnvelope`).
-/
import GoImap.Lemmas.RespQ
import GoImap.Lemmas.RespWire
import GoImap.Lemmas.RespDate
import GoImap.Lemmas.RespFetch
namespace GoImap.Resp

/-! ### what may follow a space -/

/-- a field starts with a byte that `Decoder.SP` accepts after the space -/
def env_Head (s : Str) : Prop := ∃ c t, s = c :: t ∧ c ≠ 13 ∧ c ≠ 10

theorem env_expectSP (s rest : Str) (h : env_Head s) : expectSP (32 :: (s ++ rest)) = some (s ++ rest) := by
  obtain ⟨c, t, hc, h13, h10⟩ := h
  rw [hc]
  exact expectSP_sp c (t ++ rest) h13 h10

theorem env_nil_head : env_Head NILb := ⟨78, [73, 76], rfl, by decide, by decide⟩

theorem env_encString_head (utf8 : Bool) (s : Str) : env_Head (encString utf8 s) := by
  unfold encString
  split
  · exact ⟨34, _, rfl, by decide, by decide⟩
  · exact ⟨123, _, rfl, by decide, by decide⟩

theorem env_nstring_head (utf8 : Bool) (s : Str) : env_Head (encNString utf8 s) := by
  unfold encNString
  split
  · exact env_nil_head
  · exact env_encString_head utf8 s

theorem env_encList_head (items : List Str) : env_Head (encList items) := ⟨40, _, rfl, by decide, by decide⟩

theorem env_encNString_nil (utf8 : Bool) : encNString utf8 [] = NILb := rfl

theorem env_encNString_ne (utf8 : Bool) (s : Str) (h : s ≠ []) : encNString utf8 s = encString utf8 s := by
  cases s with
  | nil => exact absurd rfl h
  | cons c t => rfl

/-- a non-empty string written by `Encoder.String` is read back by `ExpectNString` -/
theorem env_decNString_encString (utf8 : Bool) (s rest : Str) (hne : s ≠ []) (hs : Fits s) (hr : StopsAt isAtomChar rest) :
    decNString (encString utf8 s ++ rest) = some (s, rest) := by
  rw [← env_encNString_ne utf8 s hne]
  exact decNString_encNString utf8 s rest hs hr

/-- `NIL` is read by `ExpectNString` as the empty string -/
theorem env_decNString_nil (rest : Str) (hr : StopsAt isAtomChar rest) : decNString (NILb ++ rest) = some ([], rest) :=
  decNString_encNString false [] rest (by decide) hr

/-! ### one address -/

/-- the bytes of one address, given the Q-encoded form `w` of the display name -/
def env_addrBytes (utf8 : Bool) (w mb host : Str) : Str :=
  40 :: (encNString utf8 w ++ asc " NIL " ++ encNString utf8 mb ++ [32] ++ encNString utf8 host ++ [41])

theorem env_printAddress (utf8 : Bool) (enc : QTab) (a : Address) (p : Str) (h : printAddress utf8 enc a = some p) :
    ∃ w, qenc enc a.name = some w ∧ p = env_addrBytes utf8 w a.mailbox a.host := by
  unfold printAddress at h
  cases hq : qenc enc a.name with
  | none => rw [hq] at h; cases h
  | some w =>
    rw [hq] at h
    injection h with h
    exact ⟨w, rfl, h.symm⟩

theorem env_readAddress (utf8 : Bool) (dec : QTab) (w n mb host r : Str) (hq : qdec dec w = some n)
    (hw : Fits w) (hmb : Fits mb) (hhost : Fits host) :
    readAddress dec (env_addrBytes utf8 w mb host ++ r) = some (⟨n, mb, host⟩, r) := by
  have e : env_addrBytes utf8 w mb host ++ r =
      40 :: (encNString utf8 w ++ 32 :: (NILb ++ 32 :: (encNString utf8 mb ++ 32 :: (encNString utf8 host ++ 41 :: r)))) := by
    simp [env_addrBytes, asc, NILb, List.append_assoc]
  rw [e]
  generalize h3 : encNString utf8 host ++ 41 :: r = r3
  generalize h2 : encNString utf8 mb ++ 32 :: r3 = r2
  generalize h1 : NILb ++ 32 :: r2 = r1
  have f0 : decNString (encNString utf8 w ++ 32 :: r1) = some (w, 32 :: r1) :=
    decNString_encNString utf8 w _ hw (StopsAt.cons _ (by decide))
  have s1 : expectSP (32 :: r1) = some r1 := by rw [← h1]; exact env_expectSP _ _ env_nil_head
  have f1 : decNString r1 = some ([], 32 :: r2) := by
    rw [← h1]; exact env_decNString_nil _ (StopsAt.cons _ (by decide))
  have s2 : expectSP (32 :: r2) = some r2 := by rw [← h2]; exact env_expectSP _ _ (env_nstring_head utf8 mb)
  have f2 : decNString r2 = some (mb, 32 :: r3) := by
    rw [← h2]; exact decNString_encNString utf8 mb _ hmb (StopsAt.cons _ (by decide))
  have s3 : expectSP (32 :: r3) = some r3 := by rw [← h3]; exact env_expectSP _ _ (env_nstring_head utf8 host)
  have f3 : decNString r3 = some (host, 41 :: r) := by
    rw [← h3]; exact decNString_encNString utf8 host _ hhost (StopsAt.cons _ (by decide))
  unfold readAddress
  simp [f0, s1, f1, s2, f2, s3, f3, hq]

/-! ### address lists -/

/-- what the round trip needs to know about one address: the tables answer for the display name (and
    decoding gives it back), and the three strings can travel as literals -/
def env_AddrOK (enc dec : QTab) (a : Address) : Prop :=
  QOK enc dec a.name ∧ (∀ w, qenc enc a.name = some w → Fits w) ∧ Fits a.mailbox ∧ Fits a.host

/-- the bytes of one address as a total function of the address -/
def env_addrEnc (utf8 : Bool) (enc : QTab) (a : Address) : Str := (printAddress utf8 enc a).getD []

theorem env_optAll_some {α β : Type} (g : α → Option β) (d : β) :
    ∀ (l : List α) (ws : List β), optAll (l.map g) = some ws → ws = l.map (fun a => (g a).getD d) := by
  intro l
  induction l with
  | nil => intro ws h; simp only [List.map_nil, optAll] at h; injection h with h; exact h.symm
  | cons x t ih =>
    intro ws h
    simp only [List.map_cons] at h
    cases hx : g x with
    | none => rw [hx] at h; simp [optAll] at h
    | some y =>
      rw [hx] at h
      cases ht : optAll (t.map g) with
      | none => simp [optAll, ht] at h
      | some ys =>
        simp only [optAll, ht, Option.map_some] at h
        injection h with h
        rw [← h, ih ys ht]
        simp [hx]

theorem env_optAll_isSome {α β : Type} (g : α → Option β) :
    ∀ (l : List α) (ws : List β), optAll (l.map g) = some ws → ∀ a ∈ l, ∃ y, g a = some y := by
  intro l
  induction l with
  | nil => intro ws _ a ha; cases ha
  | cons x t ih =>
    intro ws h a ha
    simp only [List.map_cons] at h
    cases hx : g x with
    | none => rw [hx] at h; simp [optAll] at h
    | some y =>
      rw [hx] at h
      cases ht : optAll (t.map g) with
      | none => simp [optAll, ht] at h
      | some ys =>
        rcases List.mem_cons.mp ha with rfl | ha'
        · exact ⟨y, hx⟩
        · exact ih ys ht a ha'

theorem env_nilIfEmpty {α : Type} (o : Option (List α)) : nilIfEmpty o = RespSpec.normOpt o := by
  cases o with
  | none => rfl
  | some l => cases l <;> rfl

theorem env_addrEnc_read (utf8 : Bool) (enc dec : QTab) (a : Address) (y : Str) (hy : printAddress utf8 enc a = some y)
    (hok : env_AddrOK enc dec a) (r : Str) : readAddress dec (env_addrEnc utf8 enc a ++ r) = some (a, r) := by
  obtain ⟨w, hw, hyw⟩ := env_printAddress utf8 enc a y hy
  obtain ⟨⟨w', hw', hdec⟩, hfit, hmb, hhost⟩ := hok
  rw [hw] at hw'
  injection hw' with hw'
  subst hw'
  have e : env_addrEnc utf8 enc a = env_addrBytes utf8 w a.mailbox a.host := by
    unfold env_addrEnc; rw [hy, hyw]; rfl
  rw [e]
  exact env_readAddress utf8 dec w a.name a.mailbox a.host r hdec (hfit w hw) hmb hhost

theorem env_addrEnc_head (utf8 : Bool) (enc : QTab) (a : Address) (y : Str) (hy : printAddress utf8 enc a = some y) :
    GoodHead (env_addrEnc utf8 enc a) := by
  obtain ⟨w, _, hyw⟩ := env_printAddress utf8 enc a y hy
  refine ⟨40, encNString utf8 w ++ asc " NIL " ++ encNString utf8 a.mailbox ++ [32] ++ encNString utf8 a.host ++ [41], ?_,
    by decide, by decide, by decide⟩
  unfold env_addrEnc; rw [hy, hyw]; rfl

theorem env_printAddrList_head (utf8 : Bool) (enc : QTab) (o : Option (List Address)) (t : Str)
    (hp : printAddrList utf8 enc o = some t) : env_Head t := by
  cases o with
  | none =>
    simp only [printAddrList] at hp
    injection hp with hp; subst hp; exact env_nil_head
  | some l =>
    simp only [printAddrList] at hp
    cases ho : optAll (l.map (printAddress utf8 enc)) with
    | none => rw [ho] at hp; cases hp
    | some ws =>
      rw [ho] at hp
      injection hp with hp; subst hp; exact env_encList_head ws

/-- an address list is read back as written, up to nil / empty -/
theorem env_readAddrList (utf8 : Bool) (enc dec : QTab) (o : Option (List Address)) (t rest : Str)
    (hp : printAddrList utf8 enc o = some t) (hok : ∀ l, o = some l → ∀ a ∈ l, env_AddrOK enc dec a)
    (hr : StopsAt isAtomChar rest) :
    readAddrList dec (t ++ rest) = some (RespSpec.normOpt o, rest) := by
  unfold readAddrList
  cases o with
  | none =>
    simp only [printAddrList] at hp
    injection hp with hp; subst hp
    have hta := tryAtom_append NILb rest (by decide) (by decide) hr
    unfold decNList
    rw [hta]
    simp [nilIfEmpty, RespSpec.normOpt]
  | some l =>
    simp only [printAddrList] at hp
    cases ho : optAll (l.map (printAddress utf8 enc)) with
    | none => rw [ho] at hp; cases hp
    | some ws =>
      rw [ho] at hp
      injection hp with hp; subst hp
      have hws := env_optAll_some (printAddress utf8 enc) [] l ws ho
      have hsome := env_optAll_isSome (printAddress utf8 enc) l ws ho
      have hws' : ws = l.map (env_addrEnc utf8 enc) := hws
      rw [hws']
      have hnone : tryAtom (encList (l.map (env_addrEnc utf8 enc)) ++ rest) = none := by
        simp [encList, tryAtom, spanB, isAtomChar]
      have hd := decList_encList (readAddress dec) (env_addrEnc utf8 enc) (fun x => x) l rest
        (fun a ha r _ => by
          obtain ⟨y, hy⟩ := hsome a ha
          exact env_addrEnc_read utf8 enc dec a y hy (hok l rfl a ha) r)
        (fun a ha => by
          obtain ⟨y, hy⟩ := hsome a ha
          exact env_addrEnc_head utf8 enc a y hy)
      unfold decNList
      rw [hnone, hd]
      simp [env_nilIfEmpty]

/-! ### the date -/

theorem env_day : ∀ i, i < 7 →
    (asc (dayNames.getD i "???")).length = 3 ∧ (dayIdx (asc (dayNames.getD i "???"))).isSome = true := by decide

theorem env_wd_lt (t : DateTime) (h : civilOK t = true) : t.wd < 7 := by
  simp only [civilOK, Bool.and_eq_true, beq_iff_eq] at h
  rw [h.2]
  unfold weekdayOf
  omega

theorem env_date_core {a b c : Nat} {r0 : Str} {i d m1 m2 m3 mo y h mi sec sg zh zm : Nat} {r1 r2 r3 r4 r5 r6 : Str}
    (h0 : dayIdx [a, b, c] = some i)
    (h1 : num12 r0 = some (d, 32 :: m1 :: m2 :: m3 :: 32 :: r1))
    (h2 : monthIdx [m1, m2, m3] = some mo)
    (h3 : num4 r1 = some (y, 32 :: r2))
    (h4 : num2 r2 = some (h, 58 :: r3))
    (h5 : num2 r3 = some (mi, 58 :: r4))
    (h6 : num2 r4 = some (sec, 32 :: sg :: r5))
    (h7 : num2 r5 = some (zh, r6))
    (h8 : num2 r6 = some (zm, []))
    (hsg : sg = 43 ∨ sg = 45) (hd1 : 1 ≤ d) (hd2 : d ≤ daysIn y mo) (hh : h < 24) (hmi : mi < 60) (hsec : sec < 60)
    (hzm : zm < 60) :
    parseEnvDate (a :: b :: c :: 44 :: 32 :: r0) = some
      { unix := unixOfCivil y mo d h mi sec ((if sg = 45 then -1 else 1) * (((zh * 60 + zm) * 60 : Nat) : Int)),
        off := (if sg = 45 then -1 else 1) * (((zh * 60 + zm) * 60 : Nat) : Int), ns := 0, year := y, month := mo,
        day := d, hour := h, min := mi, sec := sec, wd := weekdayOf y mo d } := by
  unfold parseEnvDate
  simp only []
  rw [h0, h1]
  simp only []
  rw [h2, h3]
  simp only []
  rw [h4]
  simp only []
  rw [h5]
  simp only []
  rw [h6]
  simp only []
  rw [h7]
  simp only []
  rw [h8]
  simp only []
  rw [if_pos]
  simp only [Bool.and_eq_true, Bool.or_eq_true, decide_eq_true_eq]
  exact ⟨⟨⟨⟨⟨⟨hsg, hd1⟩, hd2⟩, hh⟩, hmi⟩, hsec⟩, hzm⟩

theorem env_dateText_shape (t : DateTime) : envDateText t =
    asc (dayNames.getD t.wd "???") ++ 44 :: 32 :: (pad2 t.day ++ 32 :: (asc (monthNames.getD (t.month - 1) "???") ++ 32 ::
      (pad4 t.year.toNat ++ 32 :: (pad2 t.hour ++ 58 :: (pad2 t.min ++ 58 :: (pad2 t.sec ++ 32 ::
        (if t.off ≤ -60 then 45 else 43) :: (pad2 (t.off.natAbs / 60 / 60) ++ pad2 (t.off.natAbs / 60 % 60)))))))) := by
  have e : asc ", " = [44, 32] := by decide
  simp only [envDateText, zoneText, e, List.append_assoc, List.cons_append, List.nil_append]

/-- `net/mail.ParseDate` reads the RFC 5322 date the server writes as the same time in whole seconds -/
theorem env_parseEnvDate (t : DateTime) (h : DateOK t) : parseEnvDate (envDateText t) = some (RespSpec.canonTime t) := by
  obtain ⟨hlen, hidx⟩ := date_month (t.month - 1) (by have := h.month; omega)
  have em : t.month - 1 + 1 = t.month := by have := h.month; omega
  rw [em] at hidx
  obtain ⟨hdl, hdi⟩ := env_day t.wd (env_wd_lt t h.civil)
  rw [env_dateText_shape]
  obtain ⟨m1, m2, m3, hm⟩ := date_len3 _ hlen
  obtain ⟨a, b, c, habc⟩ := date_len3 _ hdl
  rw [hm] at hidx ⊢
  rw [habc] at hdi ⊢
  obtain ⟨i, hi⟩ := Option.isSome_iff_exists.mp hdi
  simp only [List.cons_append, List.nil_append]
  obtain ⟨⟨hy1, hy2⟩, ⟨_, _⟩, ⟨hd1, hd2⟩, hh, hmi, hs, ⟨ho1, ho2, ho3⟩, hciv⟩ := h
  have hd31 : t.day ≤ 31 := Nat.le_trans hd2 (date_daysIn_le _ _)
  have hzm : num2 (pad2 (t.off.natAbs / 60 % 60)) = some (t.off.natAbs / 60 % 60, []) := by
    have := date_num2_pad2 (t.off.natAbs / 60 % 60) (by omega) []
    rwa [List.append_nil] at this
  rw [env_date_core hi (date_num12_pad2 _ (by omega) _) hidx (date_num4_pad4 _ (by omega) _) (date_num2_pad2 _ (by omega) _)
    (date_num2_pad2 _ (by omega) _) (date_num2_pad2 _ (by omega) _) (date_num2_pad2 _ (by omega) _) hzm
    (by by_cases h : t.off ≤ -60
        · right; rw [if_pos h]
        · left; rw [if_neg h])
    hd1 hd2 hh hmi hs (by omega)]
  rw [date_off t.off ho1 ho2 ho3]
  have ey : ((t.year.toNat : Nat) : Int) = t.year := by omega
  rw [ey]
  simp only [civilOK, Bool.and_eq_true, beq_iff_eq] at hciv
  rw [← hciv.1, ← hciv.2]
  rfl

theorem env_parseEnvDate_nil : parseEnvDate [] = none := rfl

/-- the RFC 5322 date text is 31 bytes long -/
theorem env_dateText_length (t : DateTime) (h : DateOK t) : (envDateText t).length = 31 := by
  obtain ⟨hdl, _⟩ := env_day t.wd (env_wd_lt t h.civil)
  obtain ⟨⟨hy1, hy2⟩, ⟨hm1, hm2⟩, ⟨hd1, hd2⟩, hh, hmi, hs, ⟨ho1, ho2, ho3⟩, _⟩ := h
  have hd31 : t.day ≤ 31 := Nat.le_trans hd2 (date_daysIn_le _ _)
  have l0 := fetch_pad2_length t.day (by omega)
  have l1 := (date_month (t.month - 1) (by omega)).1
  have l2 := fetch_pad4_length t.year.toNat (by omega)
  have l3 := fetch_pad2_length t.hour (by omega)
  have l4 := fetch_pad2_length t.min (by omega)
  have l5 := fetch_pad2_length t.sec (by omega)
  have l6 := fetch_pad2_length (t.off.natAbs / 60 / 60) (by omega)
  have l7 := fetch_pad2_length (t.off.natAbs / 60 % 60) (by omega)
  rw [env_dateText_shape]
  simp only [List.length_append, List.length_cons, hdl, l0, l1, l2, l3, l4, l5, l6, l7]

/-- the bytes of the date field and the string the client reads from it -/
def env_dateBytes (utf8 : Bool) : Option DateTime → Str
  | none => NILb
  | some t => encString utf8 (envDateText t)

def env_dateText : Option DateTime → Str
  | none => []
  | some t => envDateText t

theorem env_dateBytes_read (utf8 : Bool) (d : Option DateTime) (hd : ∀ t, d = some t → DateOK t) (rest : Str)
    (hr : StopsAt isAtomChar rest) : decNString (env_dateBytes utf8 d ++ rest) = some (env_dateText d, rest) := by
  cases d with
  | none => exact env_decNString_nil rest hr
  | some t =>
    have hl := env_dateText_length t (hd t rfl)
    refine env_decNString_encString utf8 (envDateText t) rest ?_ ?_ hr
    · intro e; rw [e] at hl; simp at hl
    · unfold Fits; rw [hl]; decide

theorem env_dateText_parse (d : Option DateTime) (hd : ∀ t, d = some t → DateOK t) :
    parseEnvDate (env_dateText d) = d.map RespSpec.canonTime := by
  cases d with
  | none => rfl
  | some t => exact env_parseEnvDate t (hd t rfl)

/-! ### message ids -/

theorem env_splitOn_ne (sep : Nat) : ∀ s : Str, ∃ h t, RespSpec.splitOn sep s = h :: t := by
  intro s
  induction s with
  | nil => exact ⟨[], [], rfl⟩
  | cons c rest ih =>
    obtain ⟨h, t, e⟩ := ih
    by_cases hc : c = sep
    · exact ⟨[], h :: t, by simp [RespSpec.splitOn, e, hc]⟩
    · exact ⟨c :: h, t, by simp [RespSpec.splitOn, e, hc]⟩

theorem env_splitOn_step (sep c : Nat) (rest h : Str) (t : List Str) (e : RespSpec.splitOn sep rest = h :: t) :
    RespSpec.splitOn sep (c :: rest) = if c = sep then [] :: h :: t else (c :: h) :: t := by
  simp [RespSpec.splitOn, e]

theorem env_splitOn_single (sep : Nat) : ∀ s r : Str, RespSpec.splitOn sep s = [r] → s = r := by
  intro s
  induction s with
  | nil => intro r h; simp only [RespSpec.splitOn] at h; injection h with h _
  | cons c rest ih =>
    intro r h
    obtain ⟨h0, t, e⟩ := env_splitOn_ne sep rest
    rw [env_splitOn_step sep c rest h0 t e] at h
    by_cases hc : c = sep
    · rw [if_pos hc] at h; injection h with _ h2; cases h2
    · rw [if_neg hc] at h
      injection h with h1 h2
      subst h2
      rw [ih h0 e]
      exact h1

theorem env_splitOn_pair (sep : Nat) : ∀ s l r : Str, RespSpec.splitOn sep s = [l, r] → s = l ++ sep :: r := by
  intro s
  induction s with
  | nil => intro l r h; simp only [RespSpec.splitOn] at h; injection h with _ h2; cases h2
  | cons c rest ih =>
    intro l r h
    obtain ⟨h0, t, e⟩ := env_splitOn_ne sep rest
    rw [env_splitOn_step sep c rest h0 t e] at h
    by_cases hc : c = sep
    · rw [if_pos hc] at h
      injection h with h1 h2
      injection h2 with h2 h3
      subst h1; subst h2; subst h3
      rw [env_splitOn_single sep rest h0 e, hc]
      rfl
    · rw [if_neg hc] at h
      injection h with h1 h2
      subst h1; subst h2
      rw [ih h0 r e]
      rfl

theorem env_splitOn_mem (sep : Nat) : ∀ (s : Str) (c : Nat), c ∈ s → c = sep ∨ ∃ p ∈ RespSpec.splitOn sep s, c ∈ p := by
  intro s
  induction s with
  | nil => intro c h; cases h
  | cons x rest ih =>
    intro c hcm
    obtain ⟨h0, t, e⟩ := env_splitOn_ne sep rest
    rw [env_splitOn_step sep x rest h0 t e]
    by_cases hx : x = sep
    · rw [if_pos hx]
      rcases List.mem_cons.mp hcm with rfl | hin
      · exact Or.inl hx
      · rcases ih c hin with h | ⟨p, hp, hcp⟩
        · exact Or.inl h
        · rw [e] at hp
          exact Or.inr ⟨p, List.mem_cons_of_mem _ hp, hcp⟩
    · rw [if_neg hx]
      rcases List.mem_cons.mp hcm with rfl | hin
      · exact Or.inr ⟨c :: h0, by simp, by simp⟩
      · rcases ih c hin with h | ⟨p, hp, hcp⟩
        · exact Or.inl h
        · rw [e] at hp
          rcases List.mem_cons.mp hp with rfl | hpt
          · exact Or.inr ⟨x :: p, by simp, List.mem_cons_of_mem _ hcp⟩
          · exact Or.inr ⟨p, List.mem_cons_of_mem _ hpt, hcp⟩

/-- RFC 5322 dot-atom-text: non-empty, made of atext and dots -/
theorem env_dotAtom (l : Str) (h : RespSpec.dotAtomText l = true) :
    l ≠ [] ∧ ∀ c ∈ l, (atextB c || decide (c = 46)) = true := by
  constructor
  · intro e; subst e; revert h; decide
  · intro c hc
    rcases env_splitOn_mem 46 l c hc with h46 | ⟨p, hp, hcp⟩
    · simp [h46]
    · unfold RespSpec.dotAtomText at h
      have hp' := List.all_eq_true.mp h p hp
      simp only [Bool.and_eq_true] at hp'
      have ha : RespSpec.atext c = true := List.all_eq_true.mp hp'.2 c hcp
      have hb : atextB c = true := ha
      simp [hb]

/-- RFC 5322 no-fold-literal: `[` dtext* `]` -/
theorem env_noFold (r : Str) (h : RespSpec.noFoldLiteral r = true) :
    ∃ lit, r = 91 :: (lit ++ [93]) ∧ ∀ c ∈ lit, dtextB c = true := by
  unfold RespSpec.noFoldLiteral at h
  split at h
  · rename_i rest
    split at h
    · rename_i mid hrev
      refine ⟨mid.reverse, ?_, ?_⟩
      · have : rest = (93 :: mid).reverse := by rw [← hrev, List.reverse_reverse]
        rw [this, List.reverse_cons]
      · intro c hc
        exact List.all_eq_true.mp h c (List.mem_reverse.mp hc)
    · cases h
  · cases h

theorem env_atom_stop (c : Nat) (h : (atextB c || decide (c = 46)) = true) : c ≠ 91 := by
  intro e; subst e; revert h; decide

theorem env_take_atom (l r rest : Str) (hl : l ≠ []) (hla : ∀ c ∈ l, (atextB c || decide (c = 46)) = true)
    (hr : r ≠ []) (hra : ∀ c ∈ r, (atextB c || decide (c = 46)) = true) :
    takeMsgID (60 :: (l ++ 64 :: (r ++ 62 :: rest))) = some (l ++ 64 :: r, rest) := by
  unfold takeMsgID
  simp only []
  rw [spanB_append _ l (64 :: (r ++ 62 :: rest)) hla (StopsAt.cons _ (by decide))]
  cases l with
  | nil => exact absurd rfl hl
  | cons x xs =>
    cases r with
    | nil => exact absurd rfl hr
    | cons y ys =>
      have hy : y ≠ 91 := env_atom_stop y (hra y (by simp))
      have hsp := spanB_append _ (y :: ys) (62 :: rest) hra (StopsAt.cons _ (by decide))
      simp only [List.cons_append] at hsp ⊢
      split
      · rename_i heq; injection heq with h1 _; cases h1
      · rename_i heq; injection heq with _ h2; injection h2 with _ h3; injection h3 with h4 _; exact absurd h4 hy
      · rename_i heq
        injection heq with h1 h2
        injection h2 with _ h3
        subst h1; subst h3
        rw [hsp]
        rfl
      · rename_i hne
        exact absurd rfl (hne (x :: xs) (y :: (ys ++ 62 :: rest)))

theorem env_take_lit (l lit rest : Str) (hl : l ≠ []) (hla : ∀ c ∈ l, (atextB c || decide (c = 46)) = true)
    (hlit : ∀ c ∈ lit, dtextB c = true) :
    takeMsgID (60 :: (l ++ 64 :: 91 :: (lit ++ 93 :: 62 :: rest))) = some (l ++ 64 :: 91 :: (lit ++ [93]), rest) := by
  unfold takeMsgID
  simp only []
  rw [spanB_append _ l (64 :: 91 :: (lit ++ 93 :: 62 :: rest)) hla (StopsAt.cons _ (by decide))]
  have hsp := spanB_append dtextB lit (93 :: 62 :: rest) hlit (StopsAt.cons _ (by decide))
  cases l with
  | nil => exact absurd rfl hl
  | cons x xs =>
    simp only []
    rw [hsp]
    rfl

/-- go-message's msg-id reader takes an RFC 5322 msg-id back from between the angle brackets -/
theorem env_takeMsgID (id r : Str) (h : RespSpec.validMsgID id = true) : takeMsgID (60 :: (id ++ 62 :: r)) = some (id, r) := by
  unfold RespSpec.validMsgID at h
  split at h
  · rename_i l rt hsplit
    have hid := env_splitOn_pair 64 id l rt hsplit
    simp only [Bool.and_eq_true, Bool.or_eq_true] at h
    obtain ⟨hl, hr⟩ := h
    obtain ⟨hl1, hl2⟩ := env_dotAtom l hl
    rcases hr with hr | hr
    · obtain ⟨hr1, hr2⟩ := env_dotAtom rt hr
      have e : 60 :: (id ++ 62 :: r) = 60 :: (l ++ 64 :: (rt ++ 62 :: r)) := by rw [hid]; simp
      rw [e, env_take_atom l rt r hl1 hl2 hr1 hr2, hid]
    · obtain ⟨lit, hlit, hd⟩ := env_noFold rt hr
      have e : 60 :: (id ++ 62 :: r) = 60 :: (l ++ 64 :: 91 :: (lit ++ 93 :: 62 :: r)) := by rw [hid, hlit]; simp
      rw [e, env_take_lit l lit r hl1 hl2 hd, hid, hlit]
  · cases h

theorem env_parseMsgIDs_sp (fuel : Nat) (u : Str) :
    parseMsgIDs (fuel + 1) (32 :: 60 :: u) = parseMsgIDs (fuel + 1) (60 :: u) := by
  simp [parseMsgIDs, spanB]

theorem env_parseMsgIDs_nil (fuel : Nat) : parseMsgIDs (fuel + 1) [] = some [] := by simp [parseMsgIDs, spanB]

theorem env_parseMsgIDs_step (fuel : Nat) (id r : Str) (h : RespSpec.validMsgID id = true) :
    parseMsgIDs (fuel + 1) (60 :: (id ++ 62 :: r)) = (parseMsgIDs fuel r).map (id :: ·) := by
  have hs : spanB (· = 32) (60 :: (id ++ 62 :: r)) = ([], 60 :: (id ++ 62 :: r)) := by simp [spanB]
  simp [parseMsgIDs, hs, env_takeMsgID id r h]

/-- `<a> <b> <c>` is read as the ids `a`, `b`, `c` -/
theorem env_parseMsgIDs : ∀ (l : List Str) (fuel : Nat), l ≠ [] → l.length + 1 ≤ fuel → (∀ id ∈ l, RespSpec.validMsgID id = true) →
    parseMsgIDs fuel (60 :: (intercalateStr (asc "> <") l ++ [62])) = some l := by
  intro l
  induction l with
  | nil => intro fuel h; exact absurd rfl h
  | cons x ys ih =>
    intro fuel _ hf hok
    cases fuel with
    | zero => omega
    | succ fuel =>
      cases ys with
      | nil =>
        simp only [intercalateStr]
        rw [env_parseMsgIDs_step fuel x [] (hok x (by simp))]
        cases fuel with
        | zero => simp at hf
        | succ fuel => rw [env_parseMsgIDs_nil]; rfl
      | cons y zs =>
        have e : 60 :: (intercalateStr (asc "> <") (x :: y :: zs) ++ [62]) =
            60 :: (x ++ 62 :: 32 :: 60 :: (intercalateStr (asc "> <") (y :: zs) ++ [62])) := by
          simp [intercalateStr, asc, List.append_assoc]
        rw [e, env_parseMsgIDs_step fuel x _ (hok x (by simp))]
        cases fuel with
        | zero => simp at hf
        | succ fuel =>
          rw [env_parseMsgIDs_sp, ih (fuel + 1) (by simp) (by simp only [List.length_cons] at hf ⊢; omega)
            (fun id hid => hok id (by simp at hid ⊢; exact Or.inr hid))]
          rfl

theorem env_intercalate_length : ∀ l : List Str, l ≠ [] →
    (intercalateStr (asc "> <") l).length + 3 = l.flatten.length + 3 * l.length := by
  intro l
  induction l with
  | nil => intro h; exact absurd rfl h
  | cons x ys ih =>
    intro _
    cases ys with
    | nil => simp [intercalateStr]
    | cons y zs =>
      have := ih (by simp)
      have h3 : (asc "> <").length = 3 := by decide
      simp only [intercalateStr, List.length_append, List.flatten_cons, List.length_cons, h3] at this ⊢
      omega

/-- the bytes of the in-reply-to field and the string the client reads from it -/
def env_irtBytes (utf8 : Bool) : Option (List Str) → Str
  | some (x :: xs) => encString utf8 (60 :: (intercalateStr (asc "> <") (x :: xs) ++ [62]))
  | _ => NILb

def env_irtText : Option (List Str) → Str
  | some (x :: xs) => 60 :: (intercalateStr (asc "> <") (x :: xs) ++ [62])
  | _ => []

theorem env_irtBytes_read (utf8 : Bool) (o : Option (List Str))
    (hfit : ∀ l, o = some l → l.flatten.length + 3 * l.length < 9223372036854775808) (rest : Str)
    (hr : StopsAt isAtomChar rest) : decNString (env_irtBytes utf8 o ++ rest) = some (env_irtText o, rest) := by
  cases o with
  | none => exact env_decNString_nil rest hr
  | some l =>
    cases l with
    | nil => exact env_decNString_nil rest hr
    | cons x xs =>
      have hl := env_intercalate_length (x :: xs) (by simp)
      have hf := hfit (x :: xs) rfl
      refine env_decNString_encString utf8 _ rest (by simp) ?_ hr
      unfold Fits
      simp only [List.length_cons, List.length_append, List.length_nil] at hl hf ⊢
      omega

theorem env_irtBytes_head (utf8 : Bool) (o : Option (List Str)) : env_Head (env_irtBytes utf8 o) := by
  cases o with
  | none => exact env_nil_head
  | some l =>
    cases l with
    | nil => exact env_nil_head
    | cons x xs => exact env_encString_head utf8 _

theorem env_irtText_parse (o : Option (List Str)) (hok : ∀ l, o = some l → ∀ id ∈ l, RespSpec.validMsgID id = true) :
    parseMsgIDs ((env_irtText o).length + 1) (env_irtText o) = some (o.getD []) := by
  cases o with
  | none => exact env_parseMsgIDs_nil _
  | some l =>
    cases l with
    | nil => exact env_parseMsgIDs_nil _
    | cons x xs =>
      have hl := env_intercalate_length (x :: xs) (by simp)
      refine env_parseMsgIDs (x :: xs) _ (by simp) ?_ (hok _ rfl)
      simp only [env_irtText, List.length_cons, List.length_append, List.length_nil] at hl ⊢
      omega

theorem env_irt_norm (o : Option (List Str)) :
    (if (o.getD []).isEmpty then none else some (o.getD [])) = RespSpec.normOpt o := by
  cases o with
  | none => rfl
  | some l => cases l <;> rfl

/-- the bytes of the message-id field and the string the client reads from it -/
def env_midBytes (utf8 : Bool) (m : Str) : Str := if m.isEmpty then NILb else encString utf8 (60 :: (m ++ [62]))

def env_midText (m : Str) : Str := if m.isEmpty then [] else 60 :: (m ++ [62])

theorem env_midBytes_read (utf8 : Bool) (m : Str) (hfit : m.length + 2 < 9223372036854775808) (rest : Str)
    (hr : StopsAt isAtomChar rest) : decNString (env_midBytes utf8 m ++ rest) = some (env_midText m, rest) := by
  cases m with
  | nil => exact env_decNString_nil rest hr
  | cons c t =>
    refine env_decNString_encString utf8 _ rest (by simp) ?_ hr
    unfold Fits
    simp only [List.length_cons, List.length_append, List.length_nil] at hfit ⊢
    omega

theorem env_midBytes_head (utf8 : Bool) (m : Str) : env_Head (env_midBytes utf8 m) := by
  unfold env_midBytes
  split
  · exact env_nil_head
  · exact env_encString_head utf8 _

theorem env_midText_take (m : Str) (hok : m ≠ [] → RespSpec.validMsgID m = true) :
    (env_midText m = [] ∧ m = []) ∨ (env_midText m ≠ [] ∧ takeMsgID (env_midText m) = some (m, [])) := by
  cases m with
  | nil => exact Or.inl ⟨rfl, rfl⟩
  | cons c t =>
    refine Or.inr ⟨by simp [env_midText], ?_⟩
    exact env_takeMsgID (c :: t) [] (hok (by simp))

theorem env_validMsgID_ne (id : Str) (h : RespSpec.validMsgID id = true) : id ≠ [] := by
  intro e; subst e; revert h; decide

/-! ### the whole envelope -/

/-- writeEnvelope: a sender / reply-to that is absent is written as the from list -/
def env_or (a b : Option (List Address)) : Option (List Address) :=
  match a with
  | none => b
  | some l => some l

/-- `printEnvelope` with its pieces named -/
def env_print (utf8 : Bool) (enc : QTab) (e : Envelope) : Option Str :=
  (qenc enc e.subject).bind fun subj =>
  (printAddrList utf8 enc e.from_).bind fun a1 =>
  (printAddrList utf8 enc (env_or e.sender e.from_)).bind fun a2 =>
  (printAddrList utf8 enc (env_or e.replyTo e.from_)).bind fun a3 =>
  (printAddrList utf8 enc e.to).bind fun a4 =>
  (printAddrList utf8 enc e.cc).bind fun a5 =>
  (printAddrList utf8 enc e.bcc).bind fun a6 =>
  some (40 :: (env_dateBytes utf8 e.date ++ [32] ++ encNString utf8 subj ++ [32] ++ a1 ++ [32] ++ a2 ++ [32] ++ a3 ++ [32] ++
    a4 ++ [32] ++ a5 ++ [32] ++ a6 ++ [32] ++ env_irtBytes utf8 e.inReplyTo ++ [32] ++ env_midBytes utf8 e.messageID ++ [41]))

theorem env_print_eq (utf8 : Bool) (enc : QTab) (e : Envelope) : printEnvelope utf8 enc (some e) = env_print utf8 enc e := by
  obtain ⟨date, subject, from_, sender, replyTo, to, cc, bcc, irt, mid⟩ := e
  cases date <;> cases sender <;> cases replyTo <;>
    (cases irt with
     | none => rfl
     | some l => cases l <;> rfl)

/-- the reader on ten fields each of which is read back, whatever their bytes are -/
theorem env_assemble (dec : QTab) (D S A1 A2 A3 A4 A5 A6 I M rest : Str) (dv sv iv mv subj' mid' : Str)
    (v1 v2 v3 v4 v5 v6 : Option (List Address)) (ids : List Str)
    (hD : ∀ r, decNString (D ++ 32 :: r) = some (dv, 32 :: r))
    (hS : ∀ r, decNString (S ++ 32 :: r) = some (sv, 32 :: r))
    (h1 : ∀ r, readAddrList dec (A1 ++ 32 :: r) = some (v1, 32 :: r))
    (h2 : ∀ r, readAddrList dec (A2 ++ 32 :: r) = some (v2, 32 :: r))
    (h3 : ∀ r, readAddrList dec (A3 ++ 32 :: r) = some (v3, 32 :: r))
    (h4 : ∀ r, readAddrList dec (A4 ++ 32 :: r) = some (v4, 32 :: r))
    (h5 : ∀ r, readAddrList dec (A5 ++ 32 :: r) = some (v5, 32 :: r))
    (h6 : ∀ r, readAddrList dec (A6 ++ 32 :: r) = some (v6, 32 :: r))
    (hI : ∀ r, decNString (I ++ 32 :: r) = some (iv, 32 :: r))
    (hM : ∀ r, decNString (M ++ 41 :: r) = some (mv, 41 :: r))
    (pS : env_Head S) (p1 : env_Head A1) (p2 : env_Head A2) (p3 : env_Head A3) (p4 : env_Head A4) (p5 : env_Head A5)
    (p6 : env_Head A6) (pI : env_Head I) (pM : env_Head M)
    (hq : qdec dec sv = some subj')
    (hids : parseMsgIDs (iv.length + 1) iv = some ids)
    (hmid : (mv = [] ∧ mid' = []) ∨ (mv ≠ [] ∧ takeMsgID mv = some (mid', []))) :
    readEnvelope dec (40 :: (D ++ [32] ++ S ++ [32] ++ A1 ++ [32] ++ A2 ++ [32] ++ A3 ++ [32] ++ A4 ++ [32] ++ A5 ++ [32] ++ A6 ++
        [32] ++ I ++ [32] ++ M ++ [41]) ++ rest) =
      some ({ date := parseEnvDate dv, subject := subj', from_ := v1, sender := v2, replyTo := v3, to := v4, cc := v5, bcc := v6,
              inReplyTo := if ids.isEmpty then none else some ids, messageID := mid' }, rest) := by
  have e : 40 :: (D ++ [32] ++ S ++ [32] ++ A1 ++ [32] ++ A2 ++ [32] ++ A3 ++ [32] ++ A4 ++ [32] ++ A5 ++ [32] ++ A6 ++
        [32] ++ I ++ [32] ++ M ++ [41]) ++ rest =
      40 :: (D ++ 32 :: (S ++ 32 :: (A1 ++ 32 :: (A2 ++ 32 :: (A3 ++ 32 :: (A4 ++ 32 :: (A5 ++ 32 :: (A6 ++ 32 :: (I ++ 32 ::
        (M ++ 41 :: rest)))))))))) := by
    simp [List.append_assoc]
  rw [e]
  generalize g9 : M ++ 41 :: rest = r9
  generalize g8 : I ++ 32 :: r9 = r8
  generalize g7 : A6 ++ 32 :: r8 = r7
  generalize g6 : A5 ++ 32 :: r7 = r6
  generalize g5 : A4 ++ 32 :: r6 = r5
  generalize g4 : A3 ++ 32 :: r5 = r4
  generalize g3 : A2 ++ 32 :: r4 = r3
  generalize g2 : A1 ++ 32 :: r3 = r2
  generalize g1 : S ++ 32 :: r2 = r1
  have f0 := hD r1
  have s1 : expectSP (32 :: r1) = some r1 := by rw [← g1]; exact env_expectSP _ _ pS
  have f1 : decNString r1 = some (sv, 32 :: r2) := by rw [← g1]; exact hS r2
  have s2 : expectSP (32 :: r2) = some r2 := by rw [← g2]; exact env_expectSP _ _ p1
  have f2 : readAddrList dec r2 = some (v1, 32 :: r3) := by rw [← g2]; exact h1 r3
  have s3 : expectSP (32 :: r3) = some r3 := by rw [← g3]; exact env_expectSP _ _ p2
  have f3 : readAddrList dec r3 = some (v2, 32 :: r4) := by rw [← g3]; exact h2 r4
  have s4 : expectSP (32 :: r4) = some r4 := by rw [← g4]; exact env_expectSP _ _ p3
  have f4 : readAddrList dec r4 = some (v3, 32 :: r5) := by rw [← g4]; exact h3 r5
  have s5 : expectSP (32 :: r5) = some r5 := by rw [← g5]; exact env_expectSP _ _ p4
  have f5 : readAddrList dec r5 = some (v4, 32 :: r6) := by rw [← g5]; exact h4 r6
  have s6 : expectSP (32 :: r6) = some r6 := by rw [← g6]; exact env_expectSP _ _ p5
  have f6 : readAddrList dec r6 = some (v5, 32 :: r7) := by rw [← g6]; exact h5 r7
  have s7 : expectSP (32 :: r7) = some r7 := by rw [← g7]; exact env_expectSP _ _ p6
  have f7 : readAddrList dec r7 = some (v6, 32 :: r8) := by rw [← g7]; exact h6 r8
  have s8 : expectSP (32 :: r8) = some r8 := by rw [← g8]; exact env_expectSP _ _ pI
  have f8 : decNString r8 = some (iv, 32 :: r9) := by rw [← g8]; exact hI r9
  have s9 : expectSP (32 :: r9) = some r9 := by rw [← g9]; exact env_expectSP _ _ pM
  have f9 : decNString r9 = some (mv, 41 :: rest) := by rw [← g9]; exact hM rest
  unfold readEnvelope
  rcases hmid with ⟨hm1, hm2⟩ | ⟨hm1, hm2⟩
  · subst hm1; subst hm2
    simp [f0, s1, f1, s2, f2, s3, f3, s4, f4, s5, f5, s6, f6, s7, f7, s8, f8, s9, f9, hq, hids]
  · simp [f0, s1, f1, s2, f2, s3, f3, s4, f4, s5, f5, s6, f6, s7, f7, s8, f8, s9, f9, hq, hids, hm1, hm2]

theorem env_canon_eq (e : Envelope) :
    ({ date := e.date.map RespSpec.canonTime, subject := e.subject, from_ := RespSpec.normOpt e.from_,
       sender := RespSpec.normOpt (env_or e.sender e.from_), replyTo := RespSpec.normOpt (env_or e.replyTo e.from_),
       to := RespSpec.normOpt e.to, cc := RespSpec.normOpt e.cc, bcc := RespSpec.normOpt e.bcc,
       inReplyTo := RespSpec.normOpt e.inReplyTo, messageID := e.messageID } : Envelope) = RespSpec.canonEnvelope e := by
  obtain ⟨date, subject, from_, sender, replyTo, to, cc, bcc, irt, mid⟩ := e
  cases sender <;> cases replyTo <;> rfl

/-- everything the round trip needs to know about an envelope -/
structure EnvOK (enc dec : QTab) (e : Envelope) : Prop where
  /-- message ids are RFC 5322 msg-ids, the date is in the 4-digit-year / whole-minute-zone domain -/
  wf : RespSpec.wfEnvelope e = true
  /-- Go's time package facts (Lemmas/RespDate.lean) -/
  date : ∀ t, e.date = some t → DateOK t
  /-- the tables answer for the subject, and decoding gives it back -/
  subject : QOK enc dec e.subject
  /-- the encoded subject can travel as a literal -/
  subjectFits : ∀ w, qenc enc e.subject = some w → Fits w
  addrs : ∀ l, (e.from_ = some l ∨ e.sender = some l ∨ e.replyTo = some l ∨ e.to = some l ∨ e.cc = some l ∨ e.bcc = some l) →
    ∀ a ∈ l, env_AddrOK enc dec a
  /-- the bracketed message id and the bracketed, space-separated in-reply-to ids can travel as literals -/
  ids : e.messageID.length + 2 < 9223372036854775808 ∧
    ∀ l, e.inReplyTo = some l → l.flatten.length + 3 * l.length < 9223372036854775808

/-- ENVELOPE: what `writeEnvelope` writes for a well-formed envelope is read by `readEnvelope` as the
    specification's canonical envelope (absent sender / reply-to are the from list, nil and empty lists
    coincide, the date carries whole seconds) -/
theorem envelope_fidelity (utf8 : Bool) (enc dec : QTab) (e : Envelope) (t rest : Str)
    (h : EnvOK enc dec e) (hp : printEnvelope utf8 enc (some e) = some t) :
    readEnvelope dec (t ++ rest) = some (RespSpec.canonEnvelope e, rest) := by
  rw [env_print_eq] at hp
  unfold env_print at hp
  simp only [Option.bind_eq_some_iff] at hp
  obtain ⟨w, hw, a1, h1, a2, h2, a3, h3, a4, h4, a5, h5, a6, h6, ht⟩ := hp
  injection ht with ht
  subst ht
  have hdec : qdec dec w = some e.subject := by
    obtain ⟨w', hw', hdec⟩ := h.subject
    rw [hw] at hw'
    injection hw' with hw'
    rw [hw']
    exact hdec
  have sp : ∀ r : Str, StopsAt isAtomChar (32 :: r) := fun r => StopsAt.cons _ (by decide)
  have ok1 : ∀ l, e.from_ = some l → ∀ a ∈ l, env_AddrOK enc dec a := fun l hl => h.addrs l (Or.inl hl)
  have ok2 : ∀ l, env_or e.sender e.from_ = some l → ∀ a ∈ l, env_AddrOK enc dec a := by
    intro l hl
    cases hs : e.sender with
    | none => rw [hs] at hl; exact h.addrs l (Or.inl hl)
    | some l' => rw [hs] at hl; exact h.addrs l (Or.inr (Or.inl (hs.trans hl)))
  have ok3 : ∀ l, env_or e.replyTo e.from_ = some l → ∀ a ∈ l, env_AddrOK enc dec a := by
    intro l hl
    cases hs : e.replyTo with
    | none => rw [hs] at hl; exact h.addrs l (Or.inl hl)
    | some l' => rw [hs] at hl; exact h.addrs l (Or.inr (Or.inr (Or.inl (hs.trans hl))))
  have ok4 : ∀ l, e.to = some l → ∀ a ∈ l, env_AddrOK enc dec a :=
    fun l hl => h.addrs l (Or.inr (Or.inr (Or.inr (Or.inl hl))))
  have ok5 : ∀ l, e.cc = some l → ∀ a ∈ l, env_AddrOK enc dec a :=
    fun l hl => h.addrs l (Or.inr (Or.inr (Or.inr (Or.inr (Or.inl hl)))))
  have ok6 : ∀ l, e.bcc = some l → ∀ a ∈ l, env_AddrOK enc dec a :=
    fun l hl => h.addrs l (Or.inr (Or.inr (Or.inr (Or.inr (Or.inr hl)))))
  have hwf := h.wf
  unfold RespSpec.wfEnvelope at hwf
  simp only [Bool.and_eq_true, Bool.or_eq_true] at hwf
  obtain ⟨⟨_, hm⟩, hi⟩ := hwf
  have hmidok : e.messageID ≠ [] → RespSpec.validMsgID e.messageID = true := by
    intro hne
    rcases hm with hm | hm
    · exact absurd (List.isEmpty_iff.mp hm) hne
    · exact hm
  have hirtok : ∀ l, e.inReplyTo = some l → ∀ id ∈ l, RespSpec.validMsgID id = true := by
    intro l hl id hid
    rw [hl] at hi
    exact List.all_eq_true.mp hi id hid
  have kD : ∀ r, decNString (env_dateBytes utf8 e.date ++ 32 :: r) = some (env_dateText e.date, 32 :: r) :=
    fun r => env_dateBytes_read utf8 e.date h.date _ (sp r)
  have kS : ∀ r, decNString (encNString utf8 w ++ 32 :: r) = some (w, 32 :: r) :=
    fun r => decNString_encNString utf8 w _ (h.subjectFits w hw) (sp r)
  have k1 : ∀ r, readAddrList dec (a1 ++ 32 :: r) = some (RespSpec.normOpt e.from_, 32 :: r) :=
    fun r => env_readAddrList utf8 enc dec _ a1 _ h1 ok1 (sp r)
  have k2 : ∀ r, readAddrList dec (a2 ++ 32 :: r) = some (RespSpec.normOpt (env_or e.sender e.from_), 32 :: r) :=
    fun r => env_readAddrList utf8 enc dec _ a2 _ h2 ok2 (sp r)
  have k3 : ∀ r, readAddrList dec (a3 ++ 32 :: r) = some (RespSpec.normOpt (env_or e.replyTo e.from_), 32 :: r) :=
    fun r => env_readAddrList utf8 enc dec _ a3 _ h3 ok3 (sp r)
  have k4 : ∀ r, readAddrList dec (a4 ++ 32 :: r) = some (RespSpec.normOpt e.to, 32 :: r) :=
    fun r => env_readAddrList utf8 enc dec _ a4 _ h4 ok4 (sp r)
  have k5 : ∀ r, readAddrList dec (a5 ++ 32 :: r) = some (RespSpec.normOpt e.cc, 32 :: r) :=
    fun r => env_readAddrList utf8 enc dec _ a5 _ h5 ok5 (sp r)
  have k6 : ∀ r, readAddrList dec (a6 ++ 32 :: r) = some (RespSpec.normOpt e.bcc, 32 :: r) :=
    fun r => env_readAddrList utf8 enc dec _ a6 _ h6 ok6 (sp r)
  have kI : ∀ r, decNString (env_irtBytes utf8 e.inReplyTo ++ 32 :: r) = some (env_irtText e.inReplyTo, 32 :: r) :=
    fun r => env_irtBytes_read utf8 e.inReplyTo h.ids.2 _ (sp r)
  have kM : ∀ r, decNString (env_midBytes utf8 e.messageID ++ 41 :: r) = some (env_midText e.messageID, 41 :: r) :=
    fun r => env_midBytes_read utf8 e.messageID h.ids.1 _ (StopsAt.cons _ (by decide))
  have key := env_assemble dec (env_dateBytes utf8 e.date) (encNString utf8 w) a1 a2 a3 a4 a5 a6 (env_irtBytes utf8 e.inReplyTo)
    (env_midBytes utf8 e.messageID) rest (env_dateText e.date) w (env_irtText e.inReplyTo) (env_midText e.messageID)
    e.subject e.messageID (RespSpec.normOpt e.from_) (RespSpec.normOpt (env_or e.sender e.from_))
    (RespSpec.normOpt (env_or e.replyTo e.from_)) (RespSpec.normOpt e.to) (RespSpec.normOpt e.cc) (RespSpec.normOpt e.bcc)
    (e.inReplyTo.getD []) kD kS k1 k2 k3 k4 k5 k6 kI kM
    (env_nstring_head utf8 w)
    (env_printAddrList_head utf8 enc _ a1 h1) (env_printAddrList_head utf8 enc _ a2 h2)
    (env_printAddrList_head utf8 enc _ a3 h3) (env_printAddrList_head utf8 enc _ a4 h4)
    (env_printAddrList_head utf8 enc _ a5 h5) (env_printAddrList_head utf8 enc _ a6 h6)
    (env_irtBytes_head utf8 e.inReplyTo) (env_midBytes_head utf8 e.messageID)
    hdec (env_irtText_parse e.inReplyTo hirtok) (env_midText_take e.messageID hmidok)
  rw [key]
  rw [env_dateText_parse e.date h.date, env_irt_norm, env_canon_eq]

theorem env_fits_small (s : Str) (h : s.length < 4096) : Fits s := by unfold Fits; omega

/-- text that needs no Q-encoding travels as itself -/
theorem env_fits_plain (enc : QTab) (s : Str) (h1 : needsEncoding s = false) (hs : Fits s) :
    ∀ w, qenc enc s = some w → Fits w := by
  intro w hw
  simp only [qenc, h1] at hw
  injection hw with hw
  subst hw
  exact hs

theorem env_emptyOK (enc dec : QTab) : EnvOK enc dec RespSpec.emptyEnvelope where
  wf := by decide
  date := by intro t h; cases h
  subject := qok_plain enc dec [] rfl rfl
  subjectFits := env_fits_plain enc [] rfl (env_fits_small [] (by decide))
  addrs := by intro l hl; rcases hl with h | h | h | h | h | h <;> cases h
  ids := ⟨by decide, by intro l h; cases h⟩

/-- a nil `*imap.Envelope` is written as the empty envelope and read back as such -/
theorem envelope_fidelity_nil (utf8 : Bool) (enc dec : QTab) (t rest : Str) (hp : printEnvelope utf8 enc none = some t) :
    readEnvelope dec (t ++ rest) = some (RespSpec.emptyEnvelope, rest) := by
  have e : printEnvelope utf8 enc none = printEnvelope utf8 enc (some RespSpec.emptyEnvelope) := rfl
  rw [e] at hp
  have key := envelope_fidelity utf8 enc dec RespSpec.emptyEnvelope t rest (env_emptyOK enc dec) hp
  have ec : RespSpec.canonEnvelope RespSpec.emptyEnvelope = RespSpec.emptyEnvelope := rfl
  rw [ec] at key
  exact key

/-- the ENVELOPE item of FETCH / the envelope of a message/rfc822 body part: an optional envelope -/
theorem envelope_fidelity_opt (utf8 : Bool) (enc dec : QTab) (o : Option Envelope) (t rest : Str)
    (h : ∀ e, o = some e → EnvOK enc dec e) (hp : printEnvelope utf8 enc o = some t) :
    ∃ c, RespSpec.canonEnvOpt o = some c ∧ readEnvelope dec (t ++ rest) = some (c, rest) := by
  cases o with
  | none => exact ⟨_, rfl, envelope_fidelity_nil utf8 enc dec t rest hp⟩
  | some e => exact ⟨_, rfl, envelope_fidelity utf8 enc dec e t rest (h e rfl) hp⟩

/-- what the server writes for an envelope opens with a parenthesis -/
theorem env_printEnvelope_head (utf8 : Bool) (enc : QTab) (o : Option Envelope) (t : Str)
    (hp : printEnvelope utf8 enc o = some t) : ∃ u, t = 40 :: u := by
  have e : printEnvelope utf8 enc o = env_print utf8 enc (o.getD RespSpec.emptyEnvelope) := by
    cases o with
    | none => exact env_print_eq utf8 enc RespSpec.emptyEnvelope
    | some e => exact env_print_eq utf8 enc e
  rw [e] at hp
  unfold env_print at hp
  simp only [Option.bind_eq_some_iff] at hp
  obtain ⟨w, _, a1, _, a2, _, a3, _, a4, _, a5, _, a6, _, ht⟩ := hp
  injection ht with ht
  exact ⟨_, ht.symm⟩

/-! ### an instance -/

/-- Wed, 01 Mar 2000 05:44:59 +0545; "Re: test"; from Alice <alice@example.org>; no sender; an empty (non-nil) to list;
    in reply to <c@d> <e.f@[127.0.0.1]>; message id <a@b> -/
def env_example : Envelope :=
  { date := some { unix := 951868799, off := 20700, ns := 5, year := 2000, month := 3, day := 1, hour := 5, min := 44, sec := 59,
                   wd := 3 }
    subject := asc "Re: test"
    from_ := some [{ name := asc "Alice", mailbox := asc "alice", host := asc "example.org" }]
    sender := none
    replyTo := none
    to := some []
    cc := none
    bcc := none
    inReplyTo := some [asc "c@d", asc "e.f@[127.0.0.1]"]
    messageID := asc "a@b" }

theorem env_example_ok : EnvOK [] [] env_example where
  wf := by decide
  date := by
    intro t h
    injection h with h
    subst h
    exact { year := by decide, month := by decide, day := by decide, hour := by decide, min := by decide, sec := by decide,
            off := by decide, civil := by decide }
  subject := qok_plain [] [] _ (by decide) (by decide)
  subjectFits := env_fits_plain [] _ (by decide) (env_fits_small _ (by decide))
  addrs := by
    intro l hl a ha
    rcases hl with h | h | h | h | h | h
    · injection h with h
      subst h
      simp only [List.mem_singleton] at ha
      subst ha
      exact ⟨qok_plain [] [] _ (by decide) (by decide), env_fits_plain [] _ (by decide) (env_fits_small _ (by decide)),
        env_fits_small _ (by decide), env_fits_small _ (by decide)⟩
    · cases h
    · cases h
    · injection h with h
      subst h
      cases ha
    · cases h
    · cases h
  ids := ⟨by decide, by intro l h; injection h with h; subst h; decide⟩

/-- the bytes the server writes for it -/
example : printEnvelope false [] (some env_example) = some (asc ("(\"Wed, 01 Mar 2000 05:44:59 +0545\" \"Re: test\" " ++
    "((\"Alice\" NIL \"alice\" \"example.org\")) ((\"Alice\" NIL \"alice\" \"example.org\")) " ++
    "((\"Alice\" NIL \"alice\" \"example.org\")) () NIL NIL \"<c@d> <e.f@[127.0.0.1]>\" \"<a@b>\")")) := by decide +kernel

/-- the date comes back without its nanoseconds, sender and reply-to as the from list, the empty to list as nil -/
example (t rest : Str) (hp : printEnvelope false [] (some env_example) = some t) :
    readEnvelope [] (t ++ rest) = some
      ({ env_example with
          date := some { unix := 951868799, off := 20700, ns := 0, year := 2000, month := 3, day := 1, hour := 5, min := 44,
                         sec := 59, wd := 3 }
          sender := env_example.from_, replyTo := env_example.from_, to := none }, rest) :=
  envelope_fidelity false [] [] env_example t rest env_example_ok hp

end GoImap.Resp
