import GoImap.Lemmas.ClientConcKeep
/-!
  C13: in the repaired code a completion is never blocked (the F21 hang cannot occur): whenever a
  thread is about to send on a command's `done` channel, the channel exists (the value loaded from
  `cmd.done` was not nil) and its buffer is free.
-/
namespace GoImap.ClientConc

/-- every `send` instruction carries a non-nil channel -/
def sendOK (p : List Instr) : Bool :=
  p.all fun i => match i with
    | .send _ _ b => b
    | _ => true

def notSend : Instr → Bool
  | .send .. => false
  | _ => true

theorem sendOK_cons_notSend (i : Instr) (p : List Instr) (h : notSend i = true) :
    sendOK (i :: p) = sendOK p := by
  cases i <;> simp [notSend] at h <;> simp [sendOK]

theorem sendOK_tail {i : Instr} {p : List Instr} (h : sendOK (i :: p) = true) : sendOK p = true := by
  simp only [sendOK, List.all_cons, Bool.and_eq_true] at h ⊢
  exact h.2

theorem sendOK_dropThrough (f : Instr → Bool) : ∀ p, sendOK p = true → sendOK (dropThrough f p) = true
  | [], _ => rfl
  | i :: r, h => by
    rw [dropThrough]
    split
    · exact sendOK_tail h
    · exact sendOK_dropThrough f r (sendOK_tail h)

theorem sendOK_append (p q : List Instr) (hp : sendOK p = true) (hq : sendOK q = true) :
    sendOK (p ++ q) = true := by
  simp only [sendOK, List.all_append, Bool.and_eq_true] at *
  exact ⟨hp, hq⟩

theorem sendOK_of_notSend (p : List Instr) (h : ∀ i, i ∈ p → notSend i = true) : sendOK p = true := by
  induction p with
  | nil => rfl
  | cons i p ih =>
    rw [sendOK_cons_notSend i p (h i List.mem_cons_self)]
    exact ih (fun j hj => h j (List.mem_cons_of_mem _ hj))

theorem notSend_complete (k : Kind) (c : Nat) (r : Res) : ∀ i, i ∈ complete k c r → notSend i = true := by
  intro i hi
  unfold complete at hi
  cases k <;> cases r <;> simp at hi <;> (rcases hi with h | h | h | h <;> (try subst h) <;> rfl)

theorem sendOK_completions (kind : Nat → Kind) (r : Res) (l : List Nat) :
    sendOK (l.flatMap fun c => complete (kind c) c r) = true := by
  apply sendOK_of_notSend
  intro i hi
  rw [List.mem_flatMap] at hi
  obtain ⟨c, _, hc⟩ := hi
  exact notSend_complete _ _ _ i hc

theorem sendOK_handler (l : Line) : sendOK (handler l ++ [Instr.rdNext]) = true := by
  cases l <;> rfl

/-- the channel of every registered command exists, and every pending `send` knows it -/
structure SendInv (s : St) : Prop where
  init : ∀ c, (s.cmd c).registered = true → (s.cmd c).chanInit = true
  ok : ∀ u, sendOK (s.prog u) = true

theorem sendOK_exec (v : Variant) (s : St) (t : Nat) (i : Instr) (rest : List Instr)
    (hs : s.prog t = i :: rest) (ho : Once s) (h : SendInv s) : ∀ u, sendOK ((exec v s t i rest).prog u) = true := by
  have hall := h.ok
  have h1 : sendOK rest = true := by have := hall t; rw [hs] at this; exact sendOK_tail this
  intro u
  cases i
  case closeSwap =>
    simp only [exec, flushBody]
    split
    all_goals
      simp only [setProg_prog]
      split
      · apply sendOK_append
        · exact sendOK_completions _ _ _
        · first | exact h1 | (rw [sendOK_cons_notSend _ _ rfl]; exact h1)
      · exact hall u
  case delByTag tag rep caps =>
    simp only [exec, flushBody]
    split
    · simp only [setProg_prog]
      split
      · rfl
      · exact hall u
    · simp only [setProg_prog]
      split
      · apply sendOK_append
        · apply sendOK_append
          · split <;> rfl
          · exact sendOK_of_notSend _ (notSend_complete _ _ _)
        · exact h1
      · exact hall u
  case loadDone c r =>
    simp only [exec, flushBody, setProg_prog]
    split
    · -- the loaded channel is the one made at registration
      have htok : 1 ≤ toks c (s.prog t) := by rw [hs, toks_cons]; simp [isTok]
      have hreg : (s.cmd c).registered = true := by
        cases hr : (s.cmd c).registered
        · have := (ho.unreg c hr).2.2 t; omega
        · rfl
      simp only [sendOK, List.all_cons, h.init c hreg, Bool.true_and]
      exact h1
    · exact hall u
  case idleGo c =>
    simp only [exec, flushBody]
    split
    · exact hall u
    · simp only [setProg_prog]
      split
      · rfl
      · split
        · exact h1
        · exact hall u
  case srv a =>
    simp only [exec, flushBody]
    split
    · exact hall u
    · cases a <;> simp only [execSrv]
      case reply rep oldest =>
        split
        · exact hall u
        · simp only [setProg_prog]; split
          · exact h1
          · show sendOK ((deliver s _).prog u) = true; rw [deliver_prog]; exact hall u
      case cont =>
        split
        · exact hall u
        · simp only [setProg_prog]; split
          · exact h1
          · show sendOK ((deliver s _).prog u) = true; rw [deliver_prog]; exact hall u
      case enabled =>
        simp only [setProg_prog]; split
        · exact h1
        · rw [deliver_prog]; exact hall u
      case close => simp only [setProg_prog]; split <;> first | exact h1 | exact hall u
      case rerr => simp only [setProg_prog]; split <;> first | exact h1 | exact hall u
  case cancelConts c r =>
    simp only [exec, flushBody, setProg_prog]
    split
    · exact h1
    · rw [updCmd_prog, foldl_setCont2_prog]; exact hall u
  case cancelOrphans ks =>
    simp only [exec, flushBody, setProg_prog]
    split
    · exact h1
    · rw [foldl_setCont_prog]; exact hall u
  all_goals
    simp only [exec, flushBody]
    repeat' split
    all_goals
      first
        | exact hall u
        | (simp only [setProg_prog, updCmd_prog, closeConn_prog, setCont_prog]
           split
           · first
               | exact h1
               | rfl
               | exact sendOK_handler _
               | exact sendOK_dropThrough _ _ h1
               | (rw [sendOK_cons_notSend _ _ rfl]
                  first
                    | exact h1
                    | exact sendOK_dropThrough _ _ h1
                    | (rw [sendOK_cons_notSend _ _ rfl]
                       first
                         | exact h1
                         | exact sendOK_dropThrough _ _ h1))
           · exact hall u)

def riView (s : St) : Nat → Bool × Bool := fun c => ((s.cmd c).registered, (s.cmd c).chanInit)

theorem riView_foldl (ks : List Nat) (s : St) :
    riView (ks.foldl (fun acc k => acc.setCont k .cancelled) s) = riView s := by
  unfold riView; rw [foldl_setCont_cmd]

theorem riView_foldl2 (ks : List (Nat × Nat)) (x : ContSt) (s : St) :
    riView (ks.foldl (fun acc kc => acc.setCont kc.1 x) s) = riView s := by
  unfold riView; rw [foldl_setCont2_cmd]

theorem riView_setProg (s : St) (t : Nat) (p : List Instr) : riView (s.setProg t p) = riView s := rfl

theorem execSrv_riView (s : St) (t : Nat) (rest : List Instr) (a : SrvAct) :
    riView (execSrv s t rest a) = riView s := by
  cases a <;> simp only [execSrv]
  · split
    · rfl
    · unfold riView; simp only [setProg_cmd]; show (fun c => (((deliver s _).cmd c).registered, _)) = _
      rw [(deliver_frame s _).2.1]
  · split
    · rfl
    · unfold riView; simp only [setProg_cmd]; show (fun c => (((deliver s _).cmd c).registered, _)) = _
      rw [(deliver_frame s _).2.1]
  · unfold riView; simp only [setProg_cmd]; rw [(deliver_frame s _).2.1]
  · rfl
  · rfl

theorem exec_riView (v : Variant) (hv : v.initFirst = true) (s : St) (t : Nat) (i : Instr) (rest : List Instr) :
    riView (exec v s t i rest) = riView s ∨
    ∃ c, riView (exec v s t i rest) = fun d => if d = c then (true, true) else riView s d := by
  cases i
  case register c =>
    by_cases hg : (!s.holds t || (s.cmd c).registered) = true
    · left; simp only [exec, flushBody, hg, if_true]
    · right
      refine ⟨c, ?_⟩
      simp only [exec, flushBody, hg, hv]
      unfold riView
      simp only [Bool.false_eq_true, if_false, setProg_cmd, updCmd_cmd]
      funext d
      by_cases hd : d = c <;> simp [hd]
  case srv a =>
    left; simp only [exec, flushBody]; split
    · rfl
    · exact execSrv_riView s t rest a
  case postReg c =>
    left; simp only [exec, flushBody, hv, if_true]; split <;> rfl
  case cancelConts c r =>
    left
    simp only [exec, flushBody]
    unfold riView
    simp only [setProg_cmd, updCmd_cmd, foldl_setCont2_cmd]
    funext d
    split <;> rfl
  all_goals
    left
    simp only [exec, flushBody]
    repeat' split
    all_goals
      first
        | rfl
        | (simp only [riView_setProg, riView_foldl, riView_foldl2]; first | done | rfl)
        | (unfold riView
           dsimp only [St.setProg, St.updCmd, St.closeConn, St.setCont]
           funext d
           split <;> rfl)

theorem sendInv_exec (v : Variant) (hv : v.initFirst = true) (s : St) (t : Nat) (i : Instr) (rest : List Instr)
    (hs : s.prog t = i :: rest) (ho : Once s) (h : SendInv s) : SendInv (exec v s t i rest) := by
  refine ⟨fun c hc => ?_, sendOK_exec v s t i rest hs ho h⟩
  have hview : ∀ s' : St, (s'.cmd c).registered = (riView s' c).1 ∧ (s'.cmd c).chanInit = (riView s' c).2 :=
    fun _ => ⟨rfl, rfl⟩
  rw [(hview _).1] at hc
  rw [(hview _).2]
  rcases exec_riView v hv s t i rest with e | ⟨d, e⟩
  · rw [e] at hc ⊢; exact h.init c hc
  · rw [e] at hc ⊢
    by_cases hd : c = d
    · simp [hd]
    · simp only [hd, if_false] at hc ⊢; exact h.init c hc

theorem sendInv_skipCaps (s : St) (t : Nat) (h : SendInv s) : SendInv (skipCaps s t) := by
  unfold skipCaps
  split
  · rename_i record rest hs
    split
    · refine ⟨fun c hc => ?_, fun u => ?_⟩
      · rw [setProg_cmd] at hc ⊢
        split at hc <;> (split <;> exact h.init c hc)
      · rw [setProg_prog]
        split
        · have := h.ok t; rw [hs] at this; exact sendOK_tail (sendOK_tail this)
        · split <;> exact h.ok u
    · exact h
  · exact h

theorem sendInv_step (v : Variant) (hv : v.initFirst = true) (s : St) (t : Nat) (ho : Once s) (h : SendInv s) :
    SendInv (step v s t) := by
  unfold step
  split
  · exact h
  · split
    · split
      · exact sendInv_skipCaps s _ h
      · exact h
    · split
      · exact h
      · split
        · exact h
        · rename_i i rest hs
          exact sendInv_exec v hv s t i rest hs ho h

theorem sendInv_run (v : Variant) (hv : v.initFirst = true) (sched : List Nat) (s : St) (ho : Once s) (h : SendInv s) :
    SendInv (run v s sched) ∧ Once (run v s sched) := by
  induction sched generalizing s with
  | nil => exact ⟨h, ho⟩
  | cons t ts ih => exact ih (step v s t) (once_step v s t ho) (sendInv_step v hv s t ho h)

theorem sendOK_of_noCls (p : List Instr) (h : noCls p = true) : sendOK p = true := by
  apply sendOK_of_notSend
  intro i hi
  have : cls i = false := by
    simp only [noCls, List.all_eq_true, Bool.not_eq_true'] at h
    exact h i hi
  cases i <;> simp [cls] at this <;> rfl

theorem sendInv_init (v : Variant) (sc : Scenario) : SendInv (init v sc) := by
  refine ⟨fun c hc => by simp [init] at hc, fun u => ?_⟩
  have := shape_init v sc u
  -- initial programs contain no completion instructions at all
  apply sendOK_of_noCls
  simp only [init]
  split
  · rfl
  · split
    · exact noCls_map_srv _
    · split
      · exact noCls_closerProg _
      · split
        · exact noCls_obsProg _
        · split
          · unfold subProg; split
            · rfl
            · exact noCls_progOfKinds v _ _
          · rfl

end GoImap.ClientConc
