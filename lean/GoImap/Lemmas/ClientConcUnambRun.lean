import GoImap.Lemmas.ClientConcUnamb
import GoImap.Lemmas.ClientConcDone
/-!
  C13: `Unamb` (requests of two different commands never coexist in the continuation-request
  queue) holds in every reachable state of the repaired model. The step lemma needs "a queued
  request is still waiting", which `DoneInv` provides for every reachable state.
-/
namespace GoImap.ClientConc

theorem unamb_run (v : Variant) (h1 : v.idleUnderEnc = true) (h2 : v.cancelOnClose = true)
    (h3 : v.cancelIfCompleted = true) (sc : Scenario) :
    ∀ (n : Nat) (sched : List Nat), sched.length = n → Unamb (run v (init v sc) sched) := by
  intro n
  induction n with
  | zero =>
    intro sched hl
    have : sched = [] := List.length_eq_zero_iff.mp hl
    subst this
    exact unamb_init v h1 sc
  | succ n ih =>
    intro sched hl
    have hne : sched ≠ [] := by intro e; rw [e] at hl; cases hl
    have hsplit := List.dropLast_concat_getLast hne
    have hpre := ih sched.dropLast (by rw [List.length_dropLast, hl]; rfl)
    have e : run v (init v sc) sched = step v (run v (init v sc) sched.dropLast) (sched.getLast hne) := by
      conv => lhs; rw [← hsplit]
      unfold run; rw [List.foldl_append]; rfl
    rw [e]
    have hd := doneInv_run v sc sched.dropLast
    refine unamb_step v h1 h2 h3 _ _ (fun e he => ?_) hpre
    exact (hd.q1 e.1 (List.mem_map.mpr ⟨e, he, rfl⟩)).1

end GoImap.ClientConc
