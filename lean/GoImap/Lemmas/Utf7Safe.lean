/- C16 helper lemmas: decoder safety (only scalar values come out). -/
import GoImap.Lemmas.Utf7Basic
namespace GoImap.Utf7Lemmas
open GoImap.Utf7

theorem b64dec_lt : ∀ (l bs : BytesN), b64dec l = some bs → ∀ b ∈ bs, b < 256
  | [], bs, h, b, hb => by
    simp only [b64dec, Option.some.injEq] at h; subst h; simp at hb
  | [_], bs, h, _, _ => by simp [b64dec] at h
  | [c0, c1], bs, h, b, hb => by
    cases h0 : b64val c0 with
    | none => simp [b64dec, h0] at h
    | some s0 =>
      cases h1 : b64val c1 with
      | none => simp [b64dec, h0, h1] at h
      | some s1 =>
        have := b64val_some_lt h0; have := b64val_some_lt h1
        simp [b64dec, h0, h1] at h
        subst h
        simp only [List.mem_cons, List.not_mem_nil, or_false] at hb
        omega
  | [c0, c1, c2], bs, h, b, hb => by
    cases h0 : b64val c0 with
    | none => simp [b64dec, h0] at h
    | some s0 =>
      cases h1 : b64val c1 with
      | none => simp [b64dec, h0, h1] at h
      | some s1 =>
        cases h2 : b64val c2 with
        | none => simp [b64dec, h0, h1, h2] at h
        | some s2 =>
          have := b64val_some_lt h0; have := b64val_some_lt h1; have := b64val_some_lt h2
          simp [b64dec, h0, h1, h2] at h
          subst h
          simp only [List.mem_cons, List.not_mem_nil, or_false] at hb
          omega
  | c0 :: c1 :: c2 :: c3 :: r, bs, h, b, hb => by
    cases h0 : b64val c0 with
    | none => simp [b64dec, h0] at h
    | some s0 =>
      cases h1 : b64val c1 with
      | none => simp [b64dec, h0, h1] at h
      | some s1 =>
        cases h2 : b64val c2 with
        | none => simp [b64dec, h0, h1, h2] at h
        | some s2 =>
          cases h3 : b64val c3 with
          | none => simp [b64dec, h0, h1, h2, h3] at h
          | some s3 =>
            cases ht : b64dec r with
            | none => simp [b64dec, h0, h1, h2, h3, ht] at h
            | some t =>
              have := b64val_some_lt h0; have := b64val_some_lt h1
              have := b64val_some_lt h2; have := b64val_some_lt h3
              have ih := b64dec_lt r t ht
              simp [b64dec, h0, h1, h2, h3, ht] at h
              subst h
              simp only [List.mem_cons] at hb
              rcases hb with hb | hb | hb | hb
              · omega
              · omega
              · omega
              · exact ih b hb

theorem scalar_pair (u u2 : Nat) (h1 : 55296 ≤ u) (h2 : u < 56320) (h3 : 56320 ≤ u2) (h4 : u2 < 57344) :
    Scalar ((u - 55296) * 1024 + (u2 - 56320) + 65536) := by
  unfold Scalar; omega

theorem utf16dec_scalar : ∀ (bs : BytesN) (cs : List Nat), (∀ b ∈ bs, b < 256) →
    utf16dec bs = some cs → ∀ c ∈ cs, Scalar c
  | [], cs, _, h, c, hc => by
    simp only [utf16dec, Option.some.injEq] at h; subst h; simp at hc
  | [_], cs, _, h, _, _ => by simp [utf16dec] at h
  | [hh, l], cs, hb, h, c, hc => by
    have : hh < 256 := hb hh (by simp)
    have : l < 256 := hb l (by simp)
    rw [utf16dec.eq_def] at h
    simp only at h
    split_ifs at h with hs hp
    simp only [utf16dec, Option.map_some, Option.some.injEq] at h
    subst h
    simp only [List.mem_singleton] at hc
    subst hc
    unfold Scalar; omega
  | [hh, l, _], cs, hb, h, c, hc => by
    have : hh < 256 := hb hh (by simp)
    have : l < 256 := hb l (by simp)
    rw [utf16dec.eq_def] at h
    simp only at h
    split_ifs at h with hs hp
    simp [utf16dec] at h
  | hh :: l :: h2 :: l2 :: r, cs, hb, h, c, hc => by
    have : hh < 256 := hb hh (by simp)
    have : l < 256 := hb l (by simp)
    have : h2 < 256 := hb h2 (by simp)
    have : l2 < 256 := hb l2 (by simp)
    have ih1 := utf16dec_scalar r
    have ih2 := utf16dec_scalar (h2 :: l2 :: r)
    rw [utf16dec.eq_def] at h
    simp only at h
    split_ifs at h with hs hs2 hp
    · obtain ⟨t, ht, rfl⟩ := Option.map_eq_some_iff.mp h
      simp only [List.mem_cons] at hc
      rcases hc with rfl | hc
      · exact scalar_pair _ _ hs.1 hs2.1 hs2.2.1 hs2.2.2
      · exact ih1 t (fun b hb' => hb b (by simp [hb'])) ht c hc
    · obtain ⟨t, ht, rfl⟩ := Option.map_eq_some_iff.mp h
      simp only [List.mem_cons] at hc
      rcases hc with rfl | hc
      · unfold Scalar; omega
      · exact ih2 t (fun b hb' => hb b (by simp only [List.mem_cons] at hb' ⊢; exact Or.inr (Or.inr hb'))) ht c hc

theorem decodeSeg_scalar {seg : BytesN} {cs : List Nat} (h : decodeSeg seg = some cs) :
    ∀ c ∈ cs, Scalar c := by
  unfold decodeSeg at h
  split_ifs at h
  cases hb : b64dec seg with
  | none => simp [hb] at h
  | some bs =>
    cases hu : utf16dec bs with
    | none => simp [hb, hu] at h
    | some us =>
      simp only [hb, hu, Option.bind_eq_bind, Option.bind_some] at h
      split_ifs at h
      simp only [Option.some.injEq] at h
      subst h
      exact utf16dec_scalar bs us (b64dec_lt seg bs hb) hu

theorem decSeg_scalar {a : Bool} {seg : BytesN} {cs : List Nat} (h : decSeg a seg = some cs) :
    ∀ c ∈ cs, Scalar c := by
  unfold decSeg at h
  split_ifs at h
  · cases h; intro c hc; simp only [List.mem_singleton] at hc; subst hc; decide
  · exact decodeSeg_scalar h

theorem dec_scalar : ∀ (b : BytesN) (a : Bool) (sg : Option BytesN) (cs : List Nat),
    dec a sg b = some cs → ∀ c ∈ cs, Scalar c
  | [], a, none, cs, h, c, hc => by
    simp only [dec, Option.some.injEq] at h; subst h; simp at hc
  | [], a, some _, cs, h, _, _ => by simp [dec] at h
  | x :: xs, a, none, cs, h, c, hc => by
    simp only [dec] at h
    split_ifs at h with hp hx
    · obtain ⟨t, ht, rfl⟩ := Option.map_eq_some_iff.mp h
      simp only [List.mem_cons] at hc
      rcases hc with rfl | hc
      · have hp' : printable c = true := by simpa using hp
        simp only [printable, Bool.and_eq_true, decide_eq_true_eq] at hp'
        unfold Scalar; omega
      · exact dec_scalar xs _ _ t ht c hc
    · exact dec_scalar xs _ _ cs h c hc
  | x :: xs, a, some acc, cs, h, c, hc => by
    simp only [dec] at h
    split_ifs at h with h45 hcr
    · cases hs : decSeg a acc with
      | none => simp [hs] at h
      | some out =>
        simp only [hs] at h
        obtain ⟨t, ht, rfl⟩ := Option.map_eq_some_iff.mp h
        rcases List.mem_append.mp hc with hc | hc
        · exact decSeg_scalar hs c hc
        · exact dec_scalar xs _ _ t ht c hc
    · exact dec_scalar xs _ _ cs h c hc

end GoImap.Utf7Lemmas
