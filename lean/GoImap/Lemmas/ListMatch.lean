/- Helper lemmas for C20. -/
import GoImap.Model.ListMatch
import GoImap.Spec.ListMatch
namespace GoImap.ListMatchLemmas
open GoImap.ListMatch GoImap.ListMatchSpec

theorem expand_iff (delim : Option B) (pct : Bool) (k : List B → Bool) (name : List B) :
    expand delim pct k name = true ↔
      ∃ pre suf, name = pre ++ suf ∧ k suf = true ∧ (pct = true → ∀ d, delim = some d → d ∉ pre) := by
  induction name with
  | nil =>
    simp only [expand]
    constructor
    · intro h; exact ⟨[], [], rfl, h, by intro _ d _; simp⟩
    · rintro ⟨pre, suf, h, hk, _⟩
      have : suf = [] := by
        have := congrArg List.length h; simp at this; exact List.eq_nil_of_length_eq_zero (by omega)
      rw [this] at hk; exact hk
  | cons n ns ih =>
    simp only [expand]
    split
    · rename_i hstop
      simp only [Bool.and_eq_true, decide_eq_true_eq] at hstop
      constructor
      · intro h; exact ⟨[], n :: ns, rfl, h, by intro _ d _; simp⟩
      · rintro ⟨pre, suf, h, hk, hp⟩
        cases pre with
        | nil => simp at h; rw [← h] at hk; exact hk
        | cons p pre' =>
          simp at h
          have := hp hstop.1 n hstop.2
          simp [h.1] at this
    · rename_i hstop
      simp only [Bool.or_eq_true, ih]
      constructor
      · rintro (h | ⟨pre, suf, h, hk, hp⟩)
        · exact ⟨[], n :: ns, rfl, h, by intro _ d _; simp⟩
        · refine ⟨n :: pre, suf, by simp [h], hk, ?_⟩
          intro hpct d hd
          simp only [List.mem_cons, not_or]
          refine ⟨?_, hp hpct d hd⟩
          intro hdn
          apply hstop
          simp [hpct, hd, hdn]
      · rintro ⟨pre, suf, h, hk, hp⟩
        cases pre with
        | nil => left; simp at h; rw [← h] at hk; exact hk
        | cons p pre' =>
          right
          simp at h
          refine ⟨pre', suf, h.2, hk, ?_⟩
          intro hpct d hd hmem
          exact hp hpct d hd (List.mem_cons_of_mem _ hmem)

end GoImap.ListMatchLemmas
