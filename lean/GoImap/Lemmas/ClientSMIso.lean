/-
  C12: isolation of a refused command, usability of the connection, and what a tagged reply records.
-/
import GoImap.Lemmas.ClientSMInv
namespace GoImap.ClientLemmas
open GoImap.ClientSM GoImap.ClientSpec

/-- deletePendingCmdByTag takes out exactly one command; the others stay as they are, in order -/
theorem removeTag_split (t : Nat) :
    (l : List Cmd) → (c : Cmd) → (rest : List Cmd) → removeTag t l = some (c, rest) →
      ∃ pre post, l = pre ++ c :: post ∧ rest = pre ++ post ∧ c.tag = t
  | [], _, _, h => by simp [removeTag] at h
  | d :: l, c, rest, h => by
    unfold removeTag at h
    split at h
    · rename_i ht
      cases h
      exact ⟨[], l, rfl, rfl, ht⟩
    · cases hr : removeTag t l with
      | none => simp [hr] at h
      | some x =>
        obtain ⟨c', r'⟩ := x
        simp [hr] at h
        obtain ⟨h1, h2⟩ := h
        subst h1 h2
        obtain ⟨pre, post, e1, e2, e3⟩ := removeTag_split t l c' r' hr
        exact ⟨d :: pre, post, by rw [e1]; rfl, by rw [e2]; rfl, e3⟩

theorem noteCaps_refused (st : St) (s : Status) (code : Code) (k : Kind) (hs : s ≠ .ok) :
    noteCaps st s code k = st := by
  unfold noteCaps
  split <;> first | rfl | (exact absurd rfl hs)

theorem completeState_refused (st : St) (c : Cmd) (s : Status) (hs : s ≠ .ok) (hk : ∀ mb, c.kind ≠ .select mb) :
    completeState {} st c s = st := by
  unfold completeState
  split
  · simp [hs]
  · simp [hs]
  · rename_i mb hc; exact absurd hc (hk mb)
  · rfl

theorem completeState_frame2 (m : St) (c : Cmd) (s : Status) :
    (completeState {} m c s).closed = m.closed ∧ (completeState {} m c s).uni = m.uni ∧
    (completeState {} m c s).blocked = m.blocked := by
  unfold completeState
  split
  · split <;> exact ⟨rfl, rfl, rfl⟩
  · split <;> exact ⟨rfl, rfl, rfl⟩
  · split
    · exact ⟨rfl, rfl, rfl⟩
    · split <;> exact ⟨rfl, rfl, rfl⟩
  · exact ⟨rfl, rfl, rfl⟩

/-- a NO or BAD for one command (a refused literal included): the others are untouched, the
    connection stays open, the encoder is released; unless the command was a SELECT, state and
    mailbox are as before -/
theorem isolation_step (m : St) (t : Nat) (s : Status) (code : Code) (c : Cmd) (rest : List Cmd)
    (hopen : m.closed = false) (hs : s = .no ∨ s = .bad) (hr : removeTag t m.pending = some (c, rest)) :
    (step m (.tagged t s code)).pending = rest ∧
    (step m (.tagged t s code)).closed = false ∧
    (step m (.tagged t s code)).uni = m.uni ∧
    (step m (.tagged t s code)).tagCtr = m.tagCtr ∧
    (step m (.tagged t s code)).done = m.done ++ [⟨t, s, code.id, c.kind, (applyCode code c).data⟩] ∧
    (step m (.tagged t s code)).blocked = (if m.blocked = some t then none else m.blocked) ∧
    ((∀ mb, c.kind ≠ .select mb) →
      (step m (.tagged t s code)).state = m.state ∧ (step m (.tagged t s code)).mbox = m.mbox) := by
  have hne : s ≠ .ok := by rcases hs with rfl | rfl <;> simp
  have htag : c.tag = t := (removeTag_perm t _ _ _ hr).2
  have hcond : (decide (m.blocked = some t) && (decide (s = .ok) || ({} : Cfg).legacyFlush)) = false := by
    simp [hne]
  have e : step m (.tagged t s code) = stepOpen {} m (.tagged t s code) := by
    simp [step, stepWith, hopen]
  rw [e]
  simp only [Bool.false_eq_true, if_false, stepOpen, stepTagged, hr, hcond]
  rw [noteCaps_refused _ _ _ _ hne]
  obtain ⟨a1, a2, a3⟩ := completeState_frame { m with pending := rest, done := m.done ++ [finish (applyCode code c) s code.id], blocked := if m.blocked = some t then none else m.blocked } (applyCode code c) s
  obtain ⟨b1, b2, b3⟩ := completeState_frame2 { m with pending := rest, done := m.done ++ [finish (applyCode code c) s code.id], blocked := if m.blocked = some t then none else m.blocked } (applyCode code c) s
  refine ⟨a2, by rw [b1]; exact hopen, b2, a3, ?_, b3, ?_⟩
  · rw [a1]; simp [finish, applyCode_tag, applyCode_kind, htag]
  · intro hk
    rw [completeState_refused _ _ _ hne (by rw [applyCode_kind]; exact hk)]
    exact ⟨rfl, rfl⟩

theorem removeTag_append_new (t : Nat) (c : Cmd) (hc : c.tag = t) :
    (l : List Cmd) → (∀ d ∈ l, d.tag ≠ t) → removeTag t (l ++ [c]) = some (c, l)
  | [], _ => by simp [removeTag, hc]
  | d :: l, h => by
    have hd : d.tag ≠ t := h d (by simp)
    simp only [List.cons_append, removeTag, hd, if_false]
    rw [removeTag_append_new t c hc l (fun x hx => h x (by simp [hx]))]
    rfl

theorem pending_tags_le (m : St) (h : TagsOK m) : ∀ d ∈ m.pending, d.tag ≤ m.tagCtr := by
  intro d hd
  have hmem : d.tag ∈ tagsOf m := by
    unfold tagsOf
    exact List.mem_append_right _ (List.mem_map_of_mem hd)
  have := (h.mem_iff).mp hmem
  simp [List.mem_range'_1] at this
  omega

/-- the connection is usable: a NOOP submitted now and answered OK completes OK, and nothing
    else changes -/
theorem usable_step (m : St) (h : TagsOK m) (hopen : m.closed = false) (hfree : m.blocked = none) :
    let m' := step (step m (.submit .plain)) (.tagged (m.tagCtr + 1) .ok .none)
    m'.done = m.done ++ [⟨m.tagCtr + 1, .ok, 0, .plain, {}⟩] ∧ m'.pending = m.pending ∧
    m'.closed = false ∧ m'.state = m.state ∧ m'.mbox = m.mbox := by
  have hnew : ∀ d ∈ m.pending, d.tag ≠ m.tagCtr + 1 := by
    intro d hd
    have := pending_tags_le m h d hd
    omega
  have hr := removeTag_append_new (m.tagCtr + 1) ({ tag := m.tagCtr + 1, kind := .plain } : Cmd) rfl m.pending hnew
  simp only [step, stepWith, hopen, Bool.false_eq_true, if_false, stepOpen, stepSubmit]
  simp [stepTagged, hr, hfree, applyCode, completeState, noteCaps, finish, Code.id]


theorem afterReply_done (r : RSt) (c : Cmd) (s : Status) : (afterReply r c s).done = r.done := by
  unfold afterReply
  split
  · rfl
  · rfl
  · split <;> rfl
  · rfl
  · rfl

/-- the reference interpretation records, for a permitted tagged reply, that tag with that status and code -/
theorem rstep_tagged_done (r : RSt) (t : Nat) (s : Status) (code : Code) (h : okEv r (.tagged t s code) = true) :
    ∃ k d, (rstep r (.tagged t s code)).done = r.done ++ [⟨t, s, code.id, k, d⟩] := by
  simp only [okEv] at h
  simp at h
  cases hf : r.pend.find? (fun x => x.tag == t) with
  | none => simp [hf] at h
  | some c =>
    simp only [rstep, hf, afterReply_done]
    exact ⟨_, _, rfl⟩

theorem conformantFrom_append (tr : List Ev) (ev : Ev) : ∀ r : RSt,
    conformantFrom r (tr ++ [ev]) = true →
      conformantFrom r tr = true ∧ okEv (tr.foldl rstep r) ev = true := by
  induction tr with
  | nil => intro r h; simpa [conformantFrom] using h
  | cons e rest ih =>
    intro r h
    simp only [List.cons_append, conformantFrom, Bool.and_eq_true] at h
    obtain ⟨h1, h2⟩ := ih _ h.2
    exact ⟨by simp [conformantFrom, h.1, h1], by simpa using h2⟩

theorem run_append (tr : List Ev) (ev : Ev) : run (tr ++ [ev]) = step (run tr) ev := by
  simp [run, List.foldl_append]

theorem ref_append (tr : List Ev) (ev : Ev) : ref (tr ++ [ev]) = rstep (ref tr) ev := by
  simp [ref, List.foldl_append]

end GoImap.ClientLemmas
