import GoImap.Lemmas.ClientConcBasic
/-!
  C13: a command is completed at most once (invariant of every step of every variant).

  A *token* for command `c` is an instruction that will send on `c`'s `done` channel
  (`loadDone c _` / `send c _ _`). Tokens are created when `c` is taken out of `pendingCmds`
  (closeWithError's swap, deletePendingCmdByTag) and consumed by the send.
-/
namespace GoImap.ClientConc

def isTok (c : Nat) : Instr → Bool
  | .loadDone d _ => d == c
  | .send d _ _ => d == c
  | _ => false

def toks (c : Nat) (p : List Instr) : Nat := p.countP (isTok c)

@[simp] theorem toks_nil (c : Nat) : toks c [] = 0 := rfl

theorem toks_cons (c : Nat) (i : Instr) (p : List Instr) :
    toks c (i :: p) = toks c p + (if isTok c i then 1 else 0) := by
  unfold toks; rw [List.countP_cons]

theorem toks_append (c : Nat) (p q : List Instr) : toks c (p ++ q) = toks c p + toks c q := by
  unfold toks; rw [List.countP_append]

theorem toks_dropThrough_le (c : Nat) (f : Instr → Bool) (p : List Instr) :
    toks c (dropThrough f p) ≤ toks c p := by
  induction p with
  | nil => exact Nat.le_refl _
  | cons i p ih =>
    rw [dropThrough, toks_cons]
    split
    · exact Nat.le_add_right _ _
    · exact Nat.le_trans ih (Nat.le_add_right _ _)

structure Once (s : St) : Prop where
  nodup : s.pending.Nodup
  unreg : ∀ c, (s.cmd c).registered = false → c ∉ s.pending ∧ (s.cmd c).sent = 0 ∧ ∀ t, toks c (s.prog t) = 0
  pend : ∀ c, c ∈ s.pending → (s.cmd c).sent = 0 ∧ ∀ t, toks c (s.prog t) = 0
  tok : ∀ c t, 1 ≤ toks c (s.prog t) →
    (s.cmd c).sent = 0 ∧ toks c (s.prog t) = 1 ∧ ∀ u, u ≠ t → toks c (s.prog u) = 0
  le : ∀ c, (s.cmd c).sent ≤ 1

/-- `s'` differs from `s` only by programs that lost instructions or gained token-free ones -/
structure Shrinks (s s' : St) : Prop where
  pending : s'.pending = s.pending
  reg : ∀ c, (s'.cmd c).registered = (s.cmd c).registered
  sent : ∀ c, (s'.cmd c).sent = (s.cmd c).sent
  toks : ∀ c u, toks c (s'.prog u) ≤ toks c (s.prog u)

theorem Shrinks.refl (s : St) : Shrinks s s :=
  ⟨rfl, fun _ => rfl, fun _ => rfl, fun _ _ => Nat.le_refl _⟩

theorem once_of_shrinks {s s' : St} (h : Once s) (sh : Shrinks s s') : Once s' := by
  constructor
  · rw [sh.pending]; exact h.nodup
  · intro c hc
    rw [sh.reg] at hc
    obtain ⟨h1, h2, h3⟩ := h.unreg c hc
    refine ⟨by rw [sh.pending]; exact h1, by rw [sh.sent]; exact h2, fun t => ?_⟩
    have := sh.toks c t
    rw [h3 t] at this
    exact Nat.le_zero.mp this
  · intro c hc
    rw [sh.pending] at hc
    obtain ⟨h1, h2⟩ := h.pend c hc
    refine ⟨by rw [sh.sent]; exact h1, fun t => ?_⟩
    have := sh.toks c t
    rw [h2 t] at this
    exact Nat.le_zero.mp this
  · intro c t ht
    have hle := sh.toks c t
    obtain ⟨h1, h2, h3⟩ := h.tok c t (Nat.le_trans ht hle)
    refine ⟨by rw [sh.sent]; exact h1, by omega, fun u hu => ?_⟩
    have := sh.toks c u
    rw [h3 u hu] at this
    exact Nat.le_zero.mp this
  · intro c; rw [sh.sent]; exact h.le c

theorem foldl_setCont_eq (ks : List Nat) (s : St) :
    (ks.foldl (fun acc k => acc.setCont k .cancelled) s).cmd = s.cmd ∧
    (ks.foldl (fun acc k => acc.setCont k .cancelled) s).pending = s.pending ∧
    (ks.foldl (fun acc k => acc.setCont k .cancelled) s).prog = s.prog := by
  induction ks generalizing s with
  | nil => exact ⟨rfl, rfl, rfl⟩
  | cons k ks ih => simp only [List.foldl]; exact ih _

theorem foldl_setCont2_eq (ks : List (Nat × Nat)) (x : ContSt) (s : St) :
    (ks.foldl (fun acc kc => acc.setCont kc.1 x) s).cmd = s.cmd ∧
    (ks.foldl (fun acc kc => acc.setCont kc.1 x) s).pending = s.pending ∧
    (ks.foldl (fun acc kc => acc.setCont kc.1 x) s).prog = s.prog := by
  induction ks generalizing s with
  | nil => exact ⟨rfl, rfl, rfl⟩
  | cons k ks ih => simp only [List.foldl]; exact ih _

/-- building block: same pending, same registered/sent, program of `t` replaced by `p` with no more
    tokens than before -/
theorem shrinks_of (s s' : St) (t : Nat)
    (hp : s'.pending = s.pending)
    (hc : ∀ c, (s'.cmd c).registered = (s.cmd c).registered ∧ (s'.cmd c).sent = (s.cmd c).sent)
    (hprog : ∀ u, u ≠ t → s'.prog u = s.prog u)
    (ht : ∀ c, toks c (s'.prog t) ≤ toks c (s.prog t)) : Shrinks s s' := by
  refine ⟨hp, fun c => (hc c).1, fun c => (hc c).2, fun c u => ?_⟩
  by_cases hu : u = t
  · rw [hu]; exact ht c
  · rw [hprog u hu]; exact Nat.le_refl _

theorem toks_handler (c : Nat) (l : Line) : toks c (handler l) = 0 := by
  cases l <;> rfl

example (c : Nat) : toks c readerExit = 0 := rfl


/-- the instructions whose step may create or consume tokens, or touch pendingCmds -/
def special : Instr → Bool
  | .register _ | .closeSwap | .delByTag .. | .loadDone .. | .send .. | .idleGo _ | .srv _ => true
  | _ => false

theorem exec_shrinks (v : Variant) (s : St) (t : Nat) (i : Instr) (rest : List Instr)
    (hs : s.prog t = i :: rest) (hb : special i = false) : Shrinks s (exec v s t i rest) := by
  have hrest : ∀ c, toks c rest ≤ toks c (s.prog t) := by
    intro c; rw [hs, toks_cons]; exact Nat.le_add_right _ _
  cases i
  case register | closeSwap | delByTag | loadDone | send | idleGo | srv => simp [special] at hb
  case cancelConts c r =>
    simp only [exec, flushBody]
    refine shrinks_of s _ t ?_ (fun d => ?_) (fun u hu => ?_) (fun d => ?_)
    · rw [setProg_pending, updCmd_pending, (foldl_setCont2_eq _ _ _).2.1]
    · simp only [setProg_cmd, updCmd_cmd, (foldl_setCont2_eq _ _ _).1]
      split <;> exact ⟨rfl, rfl⟩
    · rw [setProg_prog, if_neg hu, updCmd_prog, (foldl_setCont2_eq _ _ _).2.2]
    · rw [setProg_prog, if_pos rfl]; exact hrest d
  case cancelOrphans ks =>
    simp only [exec, flushBody]
    refine shrinks_of s _ t ?_ (fun d => ?_) (fun u hu => ?_) (fun d => ?_)
    · rw [setProg_pending, (foldl_setCont_eq _ _).2.1]
    · rw [setProg_cmd, (foldl_setCont_eq _ _).1]; exact ⟨rfl, rfl⟩
    · rw [setProg_prog, if_neg hu, (foldl_setCont_eq _ _).2.2]
    · rw [setProg_prog, if_pos rfl]; exact hrest d
  all_goals simp only [exec, flushBody]
  all_goals repeat' split
  all_goals
    first
      | exact Shrinks.refl s
      | (refine shrinks_of s _ t rfl
           (fun c => by
             first
               | exact ⟨rfl, rfl⟩
               | (dsimp only [St.setProg, St.updCmd, St.closeConn, St.setCont]; constructor <;> (split <;> rfl)))
           (fun u hu => by simp [setProg_prog, hu]) (fun c => ?_)
         simp only [setProg_prog, if_true]
         first
           | exact hrest c
           | (have h1 := hrest c
              have h2 := toks_dropThrough_le c isFinalFlush rest
              have h3 := toks_dropThrough_le c isOpEnd rest
              try simp only [toks_cons, isTok, toks_append, toks_handler, toks_nil, readerExit, Bool.false_eq_true,
                ↓reduceIte, Nat.add_zero]
              omega))

theorem toks_complete (d : Nat) (k : Kind) (c : Nat) (r : Res) :
    toks d (complete k c r) = if c = d then 1 else 0 := by
  unfold complete
  cases k <;> cases r <;> simp [toks, isTok, List.countP_cons, List.countP_nil]

theorem toks_completions (d : Nat) (kind : Nat → Kind) (r : Res) (l : List Nat) :
    toks d (l.flatMap fun c => complete (kind c) c r) = l.count d := by
  induction l with
  | nil => rfl
  | cons c l ih =>
    rw [List.flatMap_cons, toks_append, ih, toks_complete, List.count_cons]
    by_cases h : c = d <;> simp [h] <;> omega

/-- commands `l` leave pendingCmds (what remains is `pending'`) and thread `t` receives one token
    for each of them, in a program that otherwise has no more tokens than before -/
theorem once_take {s s' : St} (h : Once s) (t : Nat) (l : List Nat)
    (hl : l.Nodup) (hlp : ∀ d, d ∈ l → d ∈ s.pending)
    (hnd : s'.pending.Nodup) (hp' : ∀ d, d ∈ s'.pending → d ∈ s.pending ∧ d ∉ l)
    (hreg : ∀ c, (s'.cmd c).registered = (s.cmd c).registered)
    (hsent : ∀ c, (s'.cmd c).sent = (s.cmd c).sent)
    (hprog : ∀ u, u ≠ t → s'.prog u = s.prog u)
    (ht : ∀ d, ∃ x, x ≤ toks d (s.prog t) ∧ toks d (s'.prog t) = l.count d + x) : Once s' := by
  have hcount : ∀ d, l.count d ≤ 1 := fun d => List.nodup_iff_count.mp hl d
  constructor
  · exact hnd
  · intro d hd
    rw [hreg] at hd
    obtain ⟨h1, h2, h3⟩ := h.unreg d hd
    refine ⟨fun hm => h1 (hp' d hm).1, by rw [hsent]; exact h2, fun u => ?_⟩
    by_cases hu : u = t
    · obtain ⟨x, hx, e⟩ := ht d
      rw [hu, e]
      have : l.count d = 0 := List.count_eq_zero.mpr (fun hm => h1 (hlp d hm))
      have := h3 t
      omega
    · rw [hprog u hu]; exact h3 u
  · intro d hd
    obtain ⟨hm, hnl⟩ := hp' d hd
    obtain ⟨h1, h2⟩ := h.pend d hm
    refine ⟨by rw [hsent]; exact h1, fun u => ?_⟩
    by_cases hu : u = t
    · obtain ⟨x, hx, e⟩ := ht d
      rw [hu, e]
      have : l.count d = 0 := List.count_eq_zero.mpr hnl
      have := h2 t
      omega
    · rw [hprog u hu]; exact h2 u
  · intro d u hu1
    by_cases hu : u = t
    · subst hu
      obtain ⟨x, hx, e⟩ := ht d
      by_cases hm : d ∈ l
      · obtain ⟨h1, h2⟩ := h.pend d (hlp d hm)
        have hc1 : l.count d = 1 := by
          have := List.count_pos_iff.mpr hm
          have := hcount d
          omega
        have h0 := h2 u
        refine ⟨by rw [hsent]; exact h1, by omega, fun w hw => ?_⟩
        rw [hprog w hw]; exact h2 w
      · have hc0 : l.count d = 0 := List.count_eq_zero.mpr hm
        have hold : 1 ≤ toks d (s.prog u) := by omega
        obtain ⟨h1, h2, h3⟩ := h.tok d u hold
        refine ⟨by rw [hsent]; exact h1, by omega, fun w hw => ?_⟩
        rw [hprog w hw]; exact h3 w hw
    · rw [hprog u hu] at hu1 ⊢
      obtain ⟨h1, h2, h3⟩ := h.tok d u hu1
      refine ⟨by rw [hsent]; exact h1, h2, fun w hw => ?_⟩
      by_cases hwt : w = t
      · subst hwt
        obtain ⟨x, hx, e⟩ := ht d
        rw [e]
        have h0 := h3 w hw
        have : l.count d = 0 := by
          apply List.count_eq_zero.mpr
          intro hm
          have := (h.pend d (hlp d hm)).2 u
          omega
        omega
      · rw [hprog w hwt]; exact h3 w hw
  · intro c; rw [hsent]; exact h.le c

theorem firstWithTag_mem (s : St) (tag : Nat) (l : List Nat) (c : Nat)
    (h : firstWithTag s tag l = some c) : c ∈ l := by
  induction l with
  | nil => simp [firstWithTag] at h
  | cons d l ih =>
    rw [firstWithTag] at h
    split at h
    · injection h with h; rw [← h]; exact List.mem_cons_self
    · exact List.mem_cons_of_mem _ (ih h)

theorem once_register {v : Variant} {s : St} (h : Once s) (t c : Nat) (rest : List Instr)
    (hs : s.prog t = .register c :: rest) : Once (exec v s t (.register c) rest) := by
  simp only [exec, flushBody]
  split
  · exact h
  · rename_i hr
    have hr' : (s.cmd c).registered = false := by
      simp only [Bool.or_eq_true, not_or, Bool.not_eq_true] at hr; exact hr.2
    obtain ⟨u1, u2, u3⟩ := h.unreg c hr'
    have htoks : ∀ d u, toks d (if u = t then rest else s.prog u) ≤ toks d (s.prog u) := by
      intro d u
      split
      · rename_i hu; rw [hu, hs, toks_cons]; exact Nat.le_add_right _ _
      · exact Nat.le_refl _
    have hsent : ∀ d, ((((({ s with cmdTag := s.cmdTag + 1, pending := s.pending ++ [c] } : St).updCmd c fun r =>
        { r with registered := true, ltag := s.cmdTag + 1, tag := if v.initFirst then s.cmdTag + 1 else r.tag,
                 chanInit := v.initFirst || r.chanInit }).setProg t rest).cmd d).sent) = (s.cmd d).sent := by
      intro d
      simp only [setProg_cmd, updCmd_cmd]
      split <;> rfl
    have hreg : ∀ d, d ≠ c → ((((({ s with cmdTag := s.cmdTag + 1, pending := s.pending ++ [c] } : St).updCmd c fun r =>
        { r with registered := true, ltag := s.cmdTag + 1, tag := if v.initFirst then s.cmdTag + 1 else r.tag,
                 chanInit := v.initFirst || r.chanInit }).setProg t rest).cmd d).registered) = (s.cmd d).registered := by
      intro d hd
      simp only [setProg_cmd, updCmd_cmd, if_neg hd]
    constructor
    · show (s.pending ++ [c]).Nodup
      rw [List.nodup_append]
      refine ⟨h.nodup, by simp, ?_⟩
      intro a ha b hb
      rw [List.mem_singleton] at hb
      rw [hb]; intro e; rw [e] at ha; exact u1 ha
    · intro d hd
      by_cases hdc : d = c
      · subst hdc
        simp [setProg_cmd, updCmd_cmd] at hd
      · rw [hreg d hdc] at hd
        obtain ⟨a1, a2, a3⟩ := h.unreg d hd
        refine ⟨?_, by rw [hsent]; exact a2, fun u => ?_⟩
        · show d ∉ s.pending ++ [c]
          simp [a1, hdc]
        · have := htoks d u
          rw [a3 u] at this
          exact Nat.le_zero.mp this
    · intro d hd
      have hd' : d ∈ s.pending ++ [c] := hd
      rw [List.mem_append, List.mem_singleton] at hd'
      rcases hd' with hm | hm
      · obtain ⟨a1, a2⟩ := h.pend d hm
        refine ⟨by rw [hsent]; exact a1, fun u => ?_⟩
        have := htoks d u
        rw [a2 u] at this
        exact Nat.le_zero.mp this
      · subst hm
        refine ⟨by rw [hsent]; exact u2, fun u => ?_⟩
        have := htoks d u
        rw [u3 u] at this
        exact Nat.le_zero.mp this
    · intro d u hu
      have hle := htoks d u
      have hu' : 1 ≤ toks d (if u = t then rest else s.prog u) := hu
      obtain ⟨a1, a2, a3⟩ := h.tok d u (Nat.le_trans hu' hle)
      refine ⟨by rw [hsent]; exact a1, ?_, fun w hw => ?_⟩
      · show toks d (if u = t then rest else s.prog u) = 1
        omega
      · have := htoks d w
        rw [a3 w hw] at this
        exact Nat.le_zero.mp this
    · intro d; rw [hsent]; exact h.le d

theorem once_loadDone {v : Variant} {s : St} (h : Once s) (t c : Nat) (r : Res) (rest : List Instr)
    (hs : s.prog t = .loadDone c r :: rest) : Once (exec v s t (.loadDone c r) rest) := by
  simp only [exec, flushBody]
  refine once_of_shrinks h (shrinks_of s _ t rfl (fun _ => ⟨rfl, rfl⟩) (fun u hu => by simp [setProg_prog, hu]) (fun d => ?_))
  rw [setProg_prog, if_pos rfl, hs, toks_cons, toks_cons]
  simp only [isTok]
  exact Nat.le_refl _

theorem once_send {v : Variant} {s : St} (h : Once s) (t c : Nat) (r : Res) (init : Bool) (rest : List Instr)
    (hs : s.prog t = .send c r init :: rest) : Once (exec v s t (.send c r init) rest) := by
  simp only [exec, flushBody]
  split
  · exact h
  · split
    · exact once_of_shrinks h ⟨rfl, fun _ => rfl, fun _ => rfl, fun _ _ => Nat.le_refl _⟩
    · split
      · exact h
      · -- the send happens
        have hc1 : 1 ≤ toks c (s.prog t) := by
          rw [hs, toks_cons]; simp [isTok]
        obtain ⟨a1, a2, a3⟩ := h.tok c t hc1
        have hrest0 : toks c rest = 0 := by
          rw [hs, toks_cons] at a2; simp [isTok] at a2; exact a2
        have hreg : (s.cmd c).registered = true := by
          cases hr : (s.cmd c).registered
          · have := (h.unreg c hr).2.2 t; omega
          · rfl
        have htoks : ∀ d u, toks d (if u = t then rest else s.prog u) ≤ toks d (s.prog u) := by
          intro d u
          split
          · rename_i hu; rw [hu, hs, toks_cons]; exact Nat.le_add_right _ _
          · exact Nat.le_refl _
        have hsent : ∀ d, d ≠ c → (((s.updCmd c fun rc => { rc with sent := rc.sent + 1, res := if rc.sent = 0 then r else rc.res }).setProg t rest).cmd d).sent = (s.cmd d).sent := by
          intro d hd; simp only [setProg_cmd, updCmd_cmd, if_neg hd]
        have hsentc : (((s.updCmd c fun rc => { rc with sent := rc.sent + 1, res := if rc.sent = 0 then r else rc.res }).setProg t rest).cmd c).sent = 1 := by
          simp only [setProg_cmd, updCmd_cmd, if_true]; rw [a1]
        have hregs : ∀ d, (((s.updCmd c fun rc => { rc with sent := rc.sent + 1, res := if rc.sent = 0 then r else rc.res }).setProg t rest).cmd d).registered = (s.cmd d).registered := by
          intro d; simp only [setProg_cmd, updCmd_cmd]; split <;> rfl
        have hnoc : ∀ u, toks c (if u = t then rest else s.prog u) = 0 := by
          intro u; split
          · exact hrest0
          · rename_i hu; exact a3 u hu
        constructor
        · exact h.nodup
        · intro d hd
          rw [hregs] at hd
          have hdc : d ≠ c := by intro e; rw [e, hreg] at hd; cases hd
          obtain ⟨b1, b2, b3⟩ := h.unreg d hd
          refine ⟨b1, by rw [hsent d hdc]; exact b2, fun u => ?_⟩
          have := htoks d u
          rw [b3 u] at this
          exact Nat.le_zero.mp this
        · intro d hd
          obtain ⟨b1, b2⟩ := h.pend d hd
          have hdc : d ≠ c := by intro e; rw [e] at b2; have := b2 t; omega
          refine ⟨by rw [hsent d hdc]; exact b1, fun u => ?_⟩
          have := htoks d u
          rw [b2 u] at this
          exact Nat.le_zero.mp this
        · intro d u hu
          have hu' : 1 ≤ toks d (if u = t then rest else s.prog u) := hu
          have hdc : d ≠ c := by intro e; rw [e, hnoc u] at hu'; omega
          have hle := htoks d u
          obtain ⟨b1, b2, b3⟩ := h.tok d u (Nat.le_trans hu' hle)
          refine ⟨by rw [hsent d hdc]; exact b1, ?_, fun w hw => ?_⟩
          · show toks d (if u = t then rest else s.prog u) = 1
            omega
          · have := htoks d w
            rw [b3 w hw] at this
            exact Nat.le_zero.mp this
        · intro d
          by_cases hdc : d = c
          · rw [hdc, hsentc]; exact Nat.le_refl _
          · rw [hsent d hdc]; exact h.le d

theorem once_closeSwap {v : Variant} {s : St} (h : Once s) (t : Nat) (rest : List Instr)
    (hs : s.prog t = .closeSwap :: rest) : Once (exec v s t .closeSwap rest) := by
  have hrest : ∀ d, toks d rest ≤ toks d (s.prog t) := by
    intro d; rw [hs, toks_cons]; exact Nat.le_add_right _ _
  simp only [exec, flushBody]
  split
  · refine once_take h t s.pending h.nodup (fun _ hd => hd) List.nodup_nil (fun d hd => by cases hd)
      (fun _ => rfl) (fun _ => rfl) (fun u hu => by simp [setProg_prog, hu]) (fun d => ⟨toks d rest, hrest d, ?_⟩)
    rw [setProg_prog, if_pos rfl, toks_append, toks_completions, toks_cons]
    simp [isTok]
  · refine once_take h t s.pending h.nodup (fun _ hd => hd) List.nodup_nil (fun d hd => by cases hd)
      (fun _ => rfl) (fun _ => rfl) (fun u hu => by simp [setProg_prog, hu]) (fun d => ⟨toks d rest, hrest d, ?_⟩)
    rw [setProg_prog, if_pos rfl, toks_append, toks_completions]

theorem once_delByTag {v : Variant} {s : St} (h : Once s) (t tag : Nat) (rep : Reply) (caps : Bool)
    (rest : List Instr) (hs : s.prog t = .delByTag tag rep caps :: rest) :
    Once (exec v s t (.delByTag tag rep caps) rest) := by
  have hrest : ∀ d, toks d rest ≤ toks d (s.prog t) := by
    intro d; rw [hs, toks_cons]; exact Nat.le_add_right _ _
  simp only [exec, flushBody]
  split
  · refine once_of_shrinks h (shrinks_of s _ t rfl (fun _ => ⟨rfl, rfl⟩) (fun u hu => by simp [setProg_prog, hu]) (fun d => ?_))
    rw [setProg_prog, if_pos rfl]
    exact Nat.zero_le _
  · rename_i c hc
    have hm : c ∈ s.pending := firstWithTag_mem s tag s.pending c hc
    refine once_take h t [c] (by simp) (fun d hd => by rw [List.mem_singleton] at hd; rw [hd]; exact hm)
      (h.nodup.erase c) (fun d hd => ?_) (fun _ => rfl) (fun _ => rfl)
      (fun u hu => by simp [setProg_prog, hu]) (fun d => ⟨toks d rest, hrest d, ?_⟩)
    · have hd' : d ∈ s.pending.erase c := hd
      rw [h.nodup.mem_erase_iff] at hd'
      exact ⟨hd'.2, by simp [hd'.1]⟩
    · rw [setProg_prog, if_pos rfl, toks_append, toks_append, toks_complete, List.count_singleton]
      have : toks d (if caps = true then [Instr.setCaps] else []) = 0 := by split <;> rfl
      rw [this]
      by_cases e : c = d
      · subst e; simp
      · have e' : ¬ d = c := fun x => e x.symm
        simp [e]

theorem once_idleGo {v : Variant} {s : St} (h : Once s) (t c : Nat) (rest : List Instr)
    (hs : s.prog t = .idleGo c :: rest) : Once (exec v s t (.idleGo c) rest) := by
  simp only [exec, flushBody]
  split
  · exact h
  refine once_of_shrinks h ⟨rfl, fun _ => rfl, fun _ => rfl, fun d u => ?_⟩
  simp only [setProg_prog]
  split
  · exact Nat.zero_le _
  · split
    · rename_i hu; rw [hu, hs, toks_cons]; exact Nat.le_add_right _ _
    · exact Nat.le_refl _

theorem deliver_frame (s : St) (l : Line) :
    (deliver s l).pending = s.pending ∧ (deliver s l).cmd = s.cmd ∧ (deliver s l).prog = s.prog := by
  unfold deliver; split <;> exact ⟨rfl, rfl, rfl⟩

theorem once_srv {v : Variant} {s : St} (h : Once s) (t : Nat) (a : SrvAct) (rest : List Instr)
    (hs : s.prog t = .srv a :: rest) : Once (exec v s t (.srv a) rest) := by
  have hrest : ∀ d, toks d rest ≤ toks d (s.prog t) := by
    intro d; rw [hs, toks_cons]; exact Nat.le_add_right _ _
  simp only [exec, flushBody]
  split
  · exact h
  · cases a <;> simp only [execSrv]
    case reply rep oldest =>
      split
      · exact h
      · refine once_of_shrinks h (shrinks_of s _ t ?_ (fun d => ?_) (fun u hu => ?_) (fun d => ?_))
        · exact (deliver_frame s _).1
        · show ((deliver s _).cmd d).registered = _ ∧ _
          rw [(deliver_frame s _).2.1]; exact ⟨rfl, rfl⟩
        · rw [setProg_prog, if_neg hu]; show (deliver s _).prog u = _; rw [(deliver_frame s _).2.2]
        · rw [setProg_prog, if_pos rfl]; exact hrest d
    case cont =>
      split
      · exact h
      · refine once_of_shrinks h (shrinks_of s _ t ?_ (fun d => ?_) (fun u hu => ?_) (fun d => ?_))
        · exact (deliver_frame s _).1
        · show ((deliver s _).cmd d).registered = _ ∧ _
          rw [(deliver_frame s _).2.1]; exact ⟨rfl, rfl⟩
        · rw [setProg_prog, if_neg hu]; show (deliver s _).prog u = _; rw [(deliver_frame s _).2.2]
        · rw [setProg_prog, if_pos rfl]; exact hrest d
    case enabled =>
      refine once_of_shrinks h (shrinks_of s _ t ?_ (fun d => ?_) (fun u hu => ?_) (fun d => ?_))
      · rw [setProg_pending]; exact (deliver_frame s _).1
      · rw [setProg_cmd, (deliver_frame s _).2.1]; exact ⟨rfl, rfl⟩
      · rw [setProg_prog, if_neg hu, (deliver_frame s _).2.2]
      · rw [setProg_prog, if_pos rfl]; exact hrest d
    case close =>
      exact once_of_shrinks h (shrinks_of s _ t rfl (fun _ => ⟨rfl, rfl⟩) (fun u hu => by simp [setProg_prog, hu])
        (fun d => by rw [setProg_prog, if_pos rfl]; exact hrest d))
    case rerr =>
      exact once_of_shrinks h (shrinks_of s _ t rfl (fun _ => ⟨rfl, rfl⟩) (fun u hu => by simp [setProg_prog, hu])
        (fun d => by rw [setProg_prog, if_pos rfl]; exact hrest d))

theorem once_skipCaps {s : St} (h : Once s) (t : Nat) : Once (skipCaps s t) := by
  unfold skipCaps
  split
  · rename_i record rest hs
    split
    · refine once_of_shrinks h (shrinks_of s _ t ?_ (fun _ => ?_) (fun u hu => ?_) (fun d => ?_))
      · split <;> rfl
      · split <;> exact ⟨rfl, rfl⟩
      · rw [setProg_prog, if_neg hu]; split <;> rfl
      · rw [setProg_prog, if_pos rfl, hs, toks_cons, toks_cons]; omega
    · exact h
  · exact h

theorem once_step (v : Variant) (s : St) (t : Nat) (h : Once s) : Once (step v s t) := by
  unfold step
  split
  · exact h
  · split
    · split
      · exact once_skipCaps h _
      · exact h
    · split
      · exact h
      · split
        · exact h
        · rename_i i rest hs
          cases hi : special i
          · exact once_of_shrinks h (exec_shrinks v s t i rest hs hi)
          · cases i <;> simp [special] at hi
            · exact once_register h t _ rest hs
            · exact once_idleGo h t _ rest hs
            · exact once_closeSwap h t rest hs
            · exact once_loadDone h t _ _ rest hs
            · exact once_send h t _ _ _ rest hs
            · exact once_delByTag h t _ _ _ rest hs
            · exact once_srv h t _ rest hs

theorem once_run (v : Variant) (sched : List Nat) (s : St) (h : Once s) : Once (run v s sched) := by
  induction sched generalizing s with
  | nil => exact h
  | cons t ts ih => exact ih (step v s t) (once_step v s t h)

theorem toks_map_srv (c : Nat) (l : List SrvAct) : toks c (l.map Instr.srv) = 0 := by
  induction l with
  | nil => rfl
  | cons a l ih => rw [List.map_cons, toks_cons, ih]; rfl

theorem toks_closerProg (c n : Nat) : toks c (closerProg n) = 0 := by
  induction n with
  | zero => rfl
  | succ n ih => rw [closerProg, toks_cons, toks_cons, ih]; rfl

theorem toks_obsProg (c : Nat) (l : List Nat) : toks c (obsProg l) = 0 := by
  induction l with
  | nil => rfl
  | cons a l ih =>
    match a with
    | 0 => rw [obsProg, toks_cons, ih]; rfl
    | 1 => rw [obsProg, toks_cons, ih]; rfl
    | (n + 2) => rw [obsProg, toks_cons, toks_cons, ih]; rfl
                 all_goals omega

theorem toks_opProg (c : Nat) (v : Variant) (k : Kind) (d : Nat) : toks c (opProg v k d) = 0 := by
  cases k <;> simp only [opProg] <;> (try split) <;> rfl

theorem toks_progOfKinds (c : Nat) (v : Variant) (ks : List Kind) (d : Nat) :
    toks c (progOfKinds v ks d) = 0 := by
  induction ks generalizing d with
  | nil => rfl
  | cons k ks ih => rw [progOfKinds, toks_append, toks_opProg, ih]

theorem toks_init (c : Nat) (v : Variant) (sc : Scenario) (t : Nat) : toks c ((init v sc).prog t) = 0 := by
  simp only [init]
  split
  · rfl
  · split
    · exact toks_map_srv c _
    · split
      · exact toks_closerProg c _
      · split
        · exact toks_obsProg c _
        · split
          · unfold subProg; split
            · rfl
            · exact toks_progOfKinds c v _ _
          · rfl

theorem once_init (v : Variant) (sc : Scenario) : Once (init v sc) := by
  constructor
  · exact List.nodup_nil
  · intro c _; exact ⟨List.not_mem_nil, rfl, fun t => toks_init c v sc t⟩
  · intro c h; cases h
  · intro c t h; rw [toks_init] at h; omega
  · intro c; exact Nat.zero_le _

end GoImap.ClientConc
