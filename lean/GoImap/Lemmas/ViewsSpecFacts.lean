/-
  C08 helper lemmas, part 12: what acceptance by the specification (Spec/Views.lean) means, event by
  event. Pure facts about `applyEv` / `applyEvs` / `afterResp`; nothing about the model.
-/
import GoImap.Lemmas.ViewsTop
namespace GoImap.ViewsLemmas
open GoImap.Views GoImap.ViewsSpec

/-- the sequence numbers an event carries (`sr`: SEARCH results are sequence numbers, i.e. the
    command is not a UID command) -/
def seqNums (sr : Bool) : Ev → List Nat
  | .expunge k => [k]
  | .fetch k _ _ => [k]
  | .search ks => if sr then ks else []
  | .esearch all mn mx _ => if sr then all ++ (if mn = 0 then [] else [mn]) ++ (if mx = 0 then [] else [mx]) else []
  | _ => []

def isExpungeEv : Ev → Bool
  | .expunge _ => true
  | _ => false

/-- the parameters with which a response of kind `k` is folded into the view `v` -/
def kQuiet : Kind → Bool
  | .quiet => true
  | _ => false
def kSeq : Kind → Bool
  | .uidSearch => false
  | _ => true
def kStart (k : Kind) (v : View) : View :=
  match k with
  | .select => []
  | _ => v

theorem afterResp_ok {k : Kind} {b : Bool} {v v' : View} {evs : List Ev} (h : afterResp k b v evs = .ok v') :
    ∃ v'', applyEvs (kQuiet k) (kSeq k) (kStart k v) evs = .ok v'' := by
  cases k <;> simp only [afterResp, kQuiet, kSeq, kStart] at h ⊢
  · cases hh : applyEvs false true [] evs with
    | error e => simp [hh] at h
    | ok w => exact ⟨w, rfl⟩
  · cases hh : applyEvs false true v evs with
    | error e => simp [hh] at h
    | ok w => exact ⟨w, rfl⟩
  · exact ⟨v', h⟩
  · exact ⟨v', h⟩
  · exact ⟨v', h⟩

theorem applyEvs_split {q sr : Bool} : ∀ {pre : List Ev} {e : Ev} {post : List Ev} {v v' : View},
    applyEvs q sr v (pre ++ e :: post) = .ok v' →
    ∃ vm vm', applyEvs q sr v pre = .ok vm ∧ applyEv q sr vm e = .ok vm' ∧ applyEvs q sr vm' post = .ok v'
  | [], e, post, v, v', h => by
    simp only [List.nil_append, applyEvs] at h
    cases he : applyEv q sr v e with
    | error x => simp [he] at h
    | ok vm' => rw [he] at h; exact ⟨v, vm', rfl, he, h⟩
  | x :: pre, e, post, v, v', h => by
    simp only [List.cons_append, applyEvs] at h ⊢
    cases hx : applyEv q sr v x with
    | error y => simp [hx] at h
    | ok v1 =>
      rw [hx] at h
      obtain ⟨vm, vm', h1, h2, h3⟩ := applyEvs_split h
      exact ⟨vm, vm', h1, h2, h3⟩

theorem inRange_iff {v : View} {k : Nat} : inRange v k = true ↔ 1 ≤ k ∧ k ≤ v.length := by
  simp [inRange]

theorem inRange_of_not {v : View} {k : Nat} (h : ¬ (!inRange v k) = true) : 1 ≤ k ∧ k ≤ v.length := by
  apply inRange_iff.mp
  cases hh : inRange v k
  · simp [hh] at h
  · rfl

/-- clause (1): an accepted event carries only numbers between 1 and the announced count -/
theorem applyEv_inRange {q sr : Bool} {v v' : View} {e : Ev} (h : applyEv q sr v e = .ok v') :
    ∀ n ∈ seqNums sr e, 1 ≤ n ∧ n ≤ v.length := by
  intro n hn
  cases e with
  | exists_ k => simp [seqNums] at hn
  | uidnext k => simp [seqNums] at hn
  | copyuid a b => simp [seqNums] at hn
  | expunge k =>
    simp only [seqNums, List.mem_singleton] at hn
    subst hn
    simp only [applyEv] at h
    split at h
    · cases h
    · split at h
      · cases h
      · rename_i _ hr
        exact inRange_of_not hr
  | fetch k u f =>
    simp only [seqNums, List.mem_singleton] at hn
    subst hn
    simp only [applyEv] at h
    split at h
    · cases h
    · rename_i hr
      exact inRange_of_not hr
  | search ks =>
    cases sr with
    | false => simp [seqNums] at hn
    | true =>
      simp only [seqNums, if_true] at hn
      simp only [applyEv, Bool.true_and] at h
      split at h
      · cases h
      · rename_i hr
        simp only [Bool.not_eq_true', Bool.not_eq_false] at hr
        have := List.all_eq_true.mp hr n hn
        simpa [inRange] using this
  | esearch all mn mx cnt =>
    cases sr with
    | false => simp [seqNums] at hn
    | true =>
      simp only [seqNums, if_true] at hn
      simp only [applyEv, Bool.true_and] at h
      split at h
      · cases h
      · rename_i hr
        simp only [Bool.not_eq_true', Bool.not_eq_false, Bool.and_eq_true, Bool.or_eq_true, decide_eq_true_eq] at hr
        obtain ⟨⟨ha, hmn⟩, hmx⟩ := hr
        rcases List.mem_append.mp hn with hn | hn
        · rcases List.mem_append.mp hn with hn | hn
          · have := List.all_eq_true.mp ha n hn
            simpa [inRange] using this
          · split at hn
            · cases hn
            · rename_i h0
              simp only [List.mem_singleton] at hn
              subst hn
              rcases hmn with h' | h'
              · exact absurd h' h0
              · simpa [inRange] using h'
        · split at hn
          · cases hn
          · rename_i h0
            simp only [List.mem_singleton] at hn
            subst hn
            rcases hmx with h' | h'
            · exact absurd h' h0
            · simpa [inRange] using h'

/-- clause (2): nothing accepted while answering a non-UID FETCH/STORE/SEARCH is an EXPUNGE -/
theorem applyEv_quiet {sr : Bool} {v v' : View} {e : Ev} (h : applyEv true sr v e = .ok v') : ∀ k, e ≠ .expunge k := by
  intro k hk
  subst hk
  simp [applyEv] at h

theorem applyEvs_quiet {sr : Bool} : ∀ {evs : List Ev} {v v' : View}, applyEvs true sr v evs = .ok v' →
    ∀ k, Ev.expunge k ∉ evs
  | [], _, _, _, k, hk => by cases hk
  | e :: evs, v, v', h, k, hk => by
    simp only [applyEvs] at h
    cases he : applyEv true sr v e with
    | error x => simp [he] at h
    | ok v1 =>
      rw [he] at h
      rcases List.mem_cons.mp hk with hk | hk
      · exact applyEv_quiet he k hk.symm
      · exact applyEvs_quiet h k hk

/-- clause (3): an accepted EXPUNGE removes exactly one announced slot, any other accepted event none -/
theorem applyEv_length {q sr : Bool} {v v' : View} {e : Ev} (h : applyEv q sr v e = .ok v') :
    (∃ k, e = .expunge k ∧ v'.length + 1 = v.length) ∨ ((∀ k, e ≠ .expunge k) ∧ v.length ≤ v'.length) := by
  cases e with
  | expunge k =>
    left
    refine ⟨k, rfl, ?_⟩
    simp only [applyEv] at h
    split at h
    · cases h
    · split at h
      · cases h
      · rename_i _ hr
        simp only [Except.ok.injEq] at h
        subst h
        have hr := inRange_of_not hr
        rw [List.length_eraseIdx]
        have : k - 1 < v.length := by omega
        simp only [this, if_true]
        omega
  | exists_ n =>
    right
    refine ⟨(fun k hk => by cases hk), ?_⟩
    simp only [applyEv] at h
    split at h
    · cases h
    · simp only [Except.ok.injEq] at h
      subst h
      simp
  | fetch k u f =>
    right
    refine ⟨(fun k hk => by cases hk), ?_⟩
    simp only [applyEv] at h
    split at h
    · cases h
    · split at h <;> simp only [Except.ok.injEq] at h <;> subst h <;> simp
  | search ks =>
    right
    refine ⟨(fun k hk => by cases hk), ?_⟩
    simp only [applyEv] at h
    split at h
    · cases h
    · simp only [Except.ok.injEq] at h
      subst h; exact Nat.le_refl _
  | esearch a b c d =>
    right
    refine ⟨(fun k hk => by cases hk), ?_⟩
    simp only [applyEv] at h
    split at h
    · cases h
    · simp only [Except.ok.injEq] at h
      subst h; exact Nat.le_refl _
  | copyuid a b =>
    right
    simp only [applyEv, Except.ok.injEq] at h
    subst h
    exact ⟨(fun k hk => by cases hk), Nat.le_refl _⟩
  | uidnext n =>
    right
    simp only [applyEv, Except.ok.injEq] at h
    subst h
    exact ⟨(fun k hk => by cases hk), Nat.le_refl _⟩

/-- labels of a view related to a duplicate-free ghost view are pairwise distinct -/
theorem ViewRel.mem_labels : ∀ {A : View} {v : List TrackerSpec.Id}, ViewRel A v → ∀ {u : Nat}, u ∈ A.filterMap id →
    ∃ i ∈ v, u = i + 1
  | [], [], _, u, h => by cases h
  | a :: A, i :: v, h, u, hu => by
    rcases h.1 with rfl | rfl
    · simp only [List.filterMap_cons, id] at hu
      obtain ⟨j, hj, rfl⟩ := ViewRel.mem_labels h.2 hu
      exact ⟨j, List.mem_cons_of_mem _ hj, rfl⟩
    · simp only [List.filterMap_cons, id, List.mem_cons] at hu
      rcases hu with rfl | hu
      · exact ⟨i, List.mem_cons_self, rfl⟩
      · obtain ⟨j, hj, rfl⟩ := ViewRel.mem_labels h.2 hu
        exact ⟨j, List.mem_cons_of_mem _ hj, rfl⟩
  | [], _ :: _, h, _, _ => h.elim
  | _ :: _, [], h, _, _ => h.elim

theorem ViewRel.labels_nodup : ∀ {A : View} {v : List TrackerSpec.Id}, ViewRel A v → v.Nodup → (A.filterMap id).Nodup
  | [], [], _, _ => List.nodup_nil
  | a :: A, i :: v, h, hnd => by
    rw [List.nodup_cons] at hnd
    have ih := ViewRel.labels_nodup h.2 hnd.2
    rcases h.1 with rfl | rfl
    · simpa [List.filterMap_cons] using ih
    · simp only [List.filterMap_cons, id, List.nodup_cons]
      refine ⟨?_, ih⟩
      intro hmem
      obtain ⟨j, hj, he⟩ := ViewRel.mem_labels h.2 hmem
      have : i = j := Nat.add_right_cancel he
      subst this
      exact hnd.1 hj
  | [], _ :: _, h, _ => h.elim
  | _ :: _, [], h, _ => h.elim

end GoImap.ViewsLemmas
