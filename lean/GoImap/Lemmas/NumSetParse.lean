/-
  `ParseSet` accepts exactly the RFC `sequence-set` texts, and the parsed set is canonical and
  denotes the text (C15, item 7).
-/
import GoImap.Lemmas.NumSetGrammar
import GoImap.Lemmas.NumSetPrint
namespace GoImap.NumSet
open GoImap.NumSetSpec

theorem mapM_cons_opt {α β : Type} (f : α → Option β) (x : α) (xs : List α) :
    (x :: xs).mapM f = match f x with
      | none => none
      | some y => match xs.mapM f with
        | none => none
        | some ys => some (y :: ys) := by
  rw [List.mapM_cons]
  cases f x with
  | none => rfl
  | some y =>
    cases xs.mapM f with
    | none => rfl
    | some ys => rfl

/-- what one text item denotes at `q` (`q = 0` asks for "*") -/
def itemDen (it : Nat × Nat) (q : Nat) : Bool :=
  if q = 0 then (it.1 = 0 || it.2 = 0)
  else (if it.1 = it.2 then it.1 ≠ 0 && it.1 = q else memRange it.1 it.2 q)

theorem itemDen_eq (x y q : Nat) : itemDen (x, y) q = (normRange x y).contains q := by
  unfold itemDen
  by_cases h0 : q = 0
  · subst h0
    rw [normRange_star]; rfl
  · rw [if_neg h0, normRange_contains x y q h0]
    by_cases hxy : x = y
    · simp only [hxy, if_true]
      rw [Bool.eq_iff_iff, memRange_iff]
      simp only [ne_eq, Bool.and_eq_true, decide_eq_true_eq]
      omega
    · simp only [hxy, if_false]

theorem any_itemDen_pos (items : List (Nat × Nat)) (q : Nat) (hq : q ≠ 0) :
    items.any (fun it => itemDen it q) = memText items q := by
  unfold memText itemDen
  simp only [hq, if_false]

theorem any_itemDen_zero (items : List (Nat × Nat)) :
    items.any (fun it => itemDen it 0) = starText items := by
  unfold starText itemDen
  simp only [if_true]

theorem parseItems_sound (its : List (List Char)) : ∀ s0, Canon s0 →
    (its.mapM seqItem = none → parseItems its s0 = none) ∧
    (∀ items, its.mapM seqItem = some items →
      ∃ s, parseItems its s0 = some s ∧ Canon s ∧
        ∀ q, q < W → s.any (fun r => r.contains q) =
          (s0.any (fun r => r.contains q) || items.any (fun it => itemDen it q))) := by
  induction its with
  | nil =>
    intro s0 h
    refine ⟨by intro h; simp at h, ?_⟩
    intro items hi
    simp only [List.mapM_nil, Option.pure_def, Option.some.injEq] at hi
    subst hi
    exact ⟨s0, rfl, h, by intro q _; simp⟩
  | cons it rest ih =>
    intro s0 h
    rw [mapM_cons_opt]
    obtain ⟨sp1, sp2⟩ := seqItem_spec it
    cases hit : seqItem it with
    | none =>
      refine ⟨?_, by intro items hi; cases hi⟩
      intro _
      simp only [parseItems, sp1 hit]
    | some xy =>
      obtain ⟨x, y⟩ := xy
      obtain ⟨e, hx, hy⟩ := sp2 x y hit
      have hw := normRange_wf x y hx hy
      have hstep : parseItems (it :: rest) s0 = parseItems rest (insert s0 (normRange x y)) := by
        simp only [parseItems, e]
        rw [addRange_eq, normRange_wf_id _ hw]
      have h1 := insert_canon s0 _ h hw
      obtain ⟨ih1, ih2⟩ := ih _ h1
      rw [hstep]
      cases hr : rest.mapM seqItem with
      | none =>
        constructor
        · intro _; exact ih1 hr
        · intro items hi; cases hi
      | some items' =>
        constructor
        · intro hi; cases hi
        intro items hi
        simp only [Option.some.injEq] at hi
        subst hi
        obtain ⟨s, hs1, hs2, hs3⟩ := ih2 items' hr
        refine ⟨s, hs1, hs2, ?_⟩
        intro q hq
        rw [hs3 q hq, insert_any s0 _ h hw q hq, List.any_cons, itemDen_eq, Bool.or_assoc]

end GoImap.NumSet
