import GoImap.Lemmas.ClientConcBasic
/-!
  C13: tags are unique (invariant of every step of every variant).
-/
namespace GoImap.ClientConc

theorem tagView_setProg (s : St) (t : Nat) (p : List Instr) : tagView (s.setProg t p) = tagView s := rfl
theorem tagView_setCont (s : St) (k : Nat) (x : ContSt) : tagView (s.setCont k x) = tagView s := rfl
theorem tagView_closeConn (s : St) : tagView s.closeConn = tagView s := rfl

theorem tagView_updCmd (s : St) (c : Nat) (f : CmdRec → CmdRec)
    (h : ∀ r, (f r).ltag = r.ltag ∧ (f r).registered = r.registered) :
    tagView (s.updCmd c f) = tagView s := by
  unfold tagView
  simp only [updCmd_cmdTag, updCmd_cmd]
  congr 1
  funext d
  by_cases hd : d = c
  · simp [hd, (h (s.cmd c)).1, (h (s.cmd c)).2]
  · simp [hd]

theorem tagView_foldl (ks : List Nat) (s : St) :
    tagView (ks.foldl (fun acc k => acc.setCont k .cancelled) s) = tagView s := by
  unfold tagView; rw [foldl_setCont_cmd, foldl_setCont_cmdTag]

theorem tagView_foldl2 (ks : List (Nat × Nat)) (x : ContSt) (s : St) :
    tagView (ks.foldl (fun acc kc => acc.setCont kc.1 x) s) = tagView s := by
  unfold tagView; rw [foldl_setCont2_cmd, foldl_setCont2_cmdTag]

/-- a step other than an effective `register` leaves the tag bookkeeping alone -/
theorem exec_tagView (v : Variant) (s : St) (t : Nat) (i : Instr) (rest : List Instr) :
    tagView (exec v s t i rest) = tagView s ∨
    ∃ c, i = .register c ∧ (s.cmd c).registered = false ∧
      tagView (exec v s t i rest) =
        (s.cmdTag + 1, fun d => if d = c then (s.cmdTag + 1, true) else ((s.cmd d).ltag, (s.cmd d).registered)) := by
  cases i
  case register c =>
    by_cases hg : (!s.holds t || (s.cmd c).registered) = true
    · left; simp only [exec, flushBody, hg, if_true]
    · right
      have hr : (s.cmd c).registered = false := by
        simp only [Bool.or_eq_true, not_or, Bool.not_eq_true] at hg; exact hg.2
      refine ⟨c, rfl, hr, ?_⟩
      simp only [exec, flushBody, hg]
      unfold tagView
      simp only [Bool.false_eq_true, if_false, setProg_cmdTag, setProg_cmd, updCmd_cmdTag, updCmd_cmd]
      congr 1
      funext d
      by_cases hd : d = c <;> simp [hd]
  case cancelConts c r =>
    left
    simp only [exec, flushBody]
    unfold tagView
    simp only [setProg_cmd, setProg_cmdTag, updCmd_cmd, updCmd_cmdTag, foldl_setCont2_cmd, foldl_setCont2_cmdTag]
    congr 1
    funext d
    split <;> rfl
  case srv a =>
    left; simp only [exec, flushBody]; split
    · rfl
    · exact execSrv_tagView s t rest a
  all_goals
    left
    simp only [exec, flushBody]
    repeat' split
    all_goals
      first
        | rfl
        | (simp only [tagView_setProg, tagView_foldl]; first | done | rfl)
        | (unfold tagView
           dsimp only [St.setProg, St.updCmd, St.closeConn, St.setCont]
           congr 1
           funext d
           split <;> rfl)


theorem skipCaps_tagView (s : St) (t : Nat) : tagView (skipCaps s t) = tagView s := by
  unfold skipCaps
  repeat' split
  all_goals rfl

theorem step_tagView (v : Variant) (s : St) (t : Nat) :
    tagView (step v s t) = tagView s ∨
    ∃ c, (s.cmd c).registered = false ∧
      tagView (step v s t) =
        (s.cmdTag + 1, fun d => if d = c then (s.cmdTag + 1, true) else ((s.cmd d).ltag, (s.cmd d).registered)) := by
  unfold step
  split
  · left; rfl
  · split
    · split
      · left; exact skipCaps_tagView s _
      · left; rfl
    · split
      · left; rfl
      · split
        · left; rfl
        · rename_i i rest _
          rcases exec_tagView v s t i rest with h | ⟨c, _, h1, h2⟩
          · left; exact h
          · right; exact ⟨c, h1, h2⟩

/-- allocated tags are at most the counter, registered commands have a tag ≥ 1, and two registered
    commands with the same tag are the same command -/
structure TagOK (tv : Nat × (Nat → Nat × Bool)) : Prop where
  le : ∀ c, (tv.2 c).1 ≤ tv.1
  pos : ∀ c, (tv.2 c).2 = true → 1 ≤ (tv.2 c).1
  inj : ∀ c d, (tv.2 c).2 = true → (tv.2 d).2 = true → (tv.2 c).1 = (tv.2 d).1 → c = d

theorem tagOK_step (v : Variant) (s : St) (t : Nat) (h : TagOK (tagView s)) : TagOK (tagView (step v s t)) := by
  rcases step_tagView v s t with e | ⟨c, _, e⟩
  · rw [e]; exact h
  · rw [e]
    have hle := h.le
    have hpos := h.pos
    have hinj := h.inj
    simp only [tagView] at hle hpos hinj
    constructor
    · intro d
      show (if d = c then (s.cmdTag + 1, true) else ((s.cmd d).ltag, (s.cmd d).registered)).1 ≤ s.cmdTag + 1
      split
      · exact Nat.le_refl _
      · exact Nat.le_succ_of_le (hle d)
    · intro d
      show (if d = c then (s.cmdTag + 1, true) else ((s.cmd d).ltag, (s.cmd d).registered)).2 = true →
        1 ≤ (if d = c then (s.cmdTag + 1, true) else ((s.cmd d).ltag, (s.cmd d).registered)).1
      split
      · intro _; exact Nat.succ_le_succ (Nat.zero_le _)
      · exact hpos d
    · intro d e'
      show (if d = c then (s.cmdTag + 1, true) else ((s.cmd d).ltag, (s.cmd d).registered)).2 = true →
        (if e' = c then (s.cmdTag + 1, true) else ((s.cmd e').ltag, (s.cmd e').registered)).2 = true →
        (if d = c then (s.cmdTag + 1, true) else ((s.cmd d).ltag, (s.cmd d).registered)).1 =
          (if e' = c then (s.cmdTag + 1, true) else ((s.cmd e').ltag, (s.cmd e').registered)).1 → d = e'
      by_cases hd : d = c <;> by_cases he : e' = c
      · intro _ _ _; rw [hd, he]
      · simp only [hd, he, if_true, if_false]
        intro _ hr heq
        have := hle e'
        omega
      · simp only [hd, he, if_true, if_false]
        intro hr _ heq
        have := hle d
        omega
      · simp only [hd, he, if_false]
        exact hinj d e'

theorem tagOK_run (v : Variant) (sched : List Nat) (s : St) (h : TagOK (tagView s)) :
    TagOK (tagView (run v s sched)) := by
  induction sched generalizing s with
  | nil => exact h
  | cons t ts ih => exact ih (step v s t) (tagOK_step v s t h)

theorem tagOK_init (v : Variant) (sc : Scenario) : TagOK (tagView (init v sc)) := by
  constructor
  · intro c; exact Nat.le_refl 0
  · intro c h; exact absurd h (by simp [tagView, init])
  · intro c d h; exact absurd h (by simp [tagView, init])

end GoImap.ClientConc
