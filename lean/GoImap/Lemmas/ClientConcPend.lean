import GoImap.Lemmas.ClientConcSuf
import GoImap.Lemmas.ClientConcReader
/-!
  C13: nothing stays queued. As long as a command is in pendingCmds, the reader is still in its
  loop (it will swap the queue when the connection dies), or some thread is about to run
  closeWithError's swap, or the command's own writer still has to flush it (and that flush will
  either succeed while the reader is alive or fail and run closeWithError). Hence: when every
  thread has finished, pendingCmds is empty.
-/
namespace GoImap.ClientConc

def isFlush : Instr → Bool
  | .flush .. => true
  | _ => false

def isFlushOf (c : Nat) : Instr → Bool
  | .flush d _ _ => d == c
  | _ => false

/-- no flush before the end of the current operation -/
def noFlushToOpEnd : List Instr → Bool
  | [] => true
  | i :: r => if isOpEnd i then true else !isFlush i && noFlushToOpEnd r

/-- the syntactic facts about programs that the pending-queue argument needs -/
def wfLoc : Instr → List Instr → Bool
  | .register c, r => r.any (isFlushOf c)
  | .flush c _ .lit, r => r.any (isFlushOf c)
  | .contWait _ true, r => noFlushToOpEnd r
  | .idleWait _, r => noFlushToOpEnd r
  | .connRead, r | .rdNext, r | .delByTag .., r | .popCont, r => r.all fun j => !isFlush j
  | _, _ => true

theorem wfLoc_ok : LocOK wfLoc := by
  refine ⟨?_, rfl, rfl, ?_, rfl, fun _ => rfl⟩
  · intro i r h
    cases i <;> simp [pushed] at h <;> rfl
  · intro l; cases l <;> rfl

theorem wf_opProg (v : Variant) (k : Kind) (c : Nat) (q : List Instr) (hq : AllSuf wfLoc q = true) :
    AllSuf wfLoc (opProg v k c ++ q) = true := by
  cases k <;> simp only [opProg] <;> (try split) <;>
    simp [AllSuf, wfLoc, isFlushOf, noFlushToOpEnd, isOpEnd, isFlush, hq]

theorem wf_progOfKinds (v : Variant) (ks : List Kind) (c : Nat) : AllSuf wfLoc (progOfKinds v ks c) = true := by
  induction ks generalizing c with
  | nil => rfl
  | cons k ks ih => rw [progOfKinds]; exact wf_opProg v k c _ (ih _)

theorem wf_map_srv (l : List SrvAct) : AllSuf wfLoc (l.map Instr.srv) = true := by
  induction l with
  | nil => rfl
  | cons a l ih => simp only [List.map_cons, AllSuf, wfLoc, Bool.true_and]; exact ih

theorem wf_closerProg (n : Nat) : AllSuf wfLoc (closerProg n) = true := by
  induction n with
  | zero => rfl
  | succ n ih => simp only [closerProg, AllSuf, wfLoc, Bool.true_and]; exact ih

theorem wf_obsProg (l : List Nat) : AllSuf wfLoc (obsProg l) = true := by
  induction l with
  | nil => rfl
  | cons a l ih =>
    match a with
    | 0 => simp only [obsProg, AllSuf, wfLoc, Bool.true_and]; exact ih
    | 1 => simp only [obsProg, AllSuf, wfLoc, Bool.true_and]; exact ih
    | (n + 2) => simp only [obsProg, AllSuf, wfLoc, Bool.true_and]; exact ih
                 all_goals omega

theorem wf_init (v : Variant) (sc : Scenario) : ∀ u, AllSuf wfLoc ((init v sc).prog u) = true := by
  intro u
  simp only [init]
  split
  · rfl
  · split
    · exact wf_map_srv _
    · split
      · exact wf_closerProg _
      · split
        · exact wf_obsProg _
        · split
          · unfold subProg; split
            · rfl
            · exact wf_progOfKinds v _ _
          · rfl

/-! ### frame lemmas -/

theorem foldl_setCont2_pending (ks : List (Nat × Nat)) (x : ContSt) (s : St) :
    (ks.foldl (fun acc kc => acc.setCont kc.1 x) s).pending = s.pending := (foldl_setCont2_eq ks x s).2.1

theorem foldl_setCont_pending (ks : List Nat) (s : St) :
    (ks.foldl (fun acc k => acc.setCont k .cancelled) s).pending = s.pending := (foldl_setCont_eq ks s).2.1

/-- only `register` adds to pendingCmds -/
theorem exec_pending_sub (v : Variant) (s : St) (t : Nat) (i : Instr) (rest : List Instr)
    (hi : ∀ c, i ≠ .register c) : ∀ c, c ∈ (exec v s t i rest).pending → c ∈ s.pending := by
  intro c hc
  cases i
  case register d => exact absurd rfl (hi d)
  case srv a =>
    simp only [exec, flushBody] at hc
    split at hc
    · exact hc
    · cases a <;> simp only [execSrv] at hc
      case reply rep oldest =>
        split at hc
        · exact hc
        · unfold deliver at hc; split at hc <;> exact hc
      case cont =>
        split at hc
        · exact hc
        · unfold deliver at hc; split at hc <;> exact hc
      case enabled => rw [setProg_pending, (deliver_frame s _).1] at hc; exact hc
      case close => exact hc
      case rerr => exact hc
  case cancelConts d r =>
    simp only [exec, flushBody] at hc
    rw [setProg_pending, updCmd_pending, foldl_setCont2_pending] at hc; exact hc
  case cancelOrphans ks =>
    simp only [exec, flushBody] at hc
    rw [setProg_pending, foldl_setCont_pending] at hc; exact hc
  case closeSwap =>
    simp only [exec, flushBody] at hc
    split at hc <;> cases hc
  case delByTag tag rep caps =>
    simp only [exec, flushBody] at hc
    split at hc
    · exact hc
    · exact List.mem_of_mem_erase hc
  all_goals
    simp only [exec, flushBody] at hc
    repeat' split at hc
    all_goals exact hc

theorem mem_dropThrough (f : Instr → Bool) (x : Instr) : ∀ p, x ∈ dropThrough f p → x ∈ p
  | [], h => h
  | i :: r, h => by
    rw [dropThrough] at h
    split at h
    · exact List.mem_cons_of_mem _ h
    · exact List.mem_cons_of_mem _ (mem_dropThrough f x r h)

theorem mem_dropThrough_flush (x : Instr) (hx : isFlush x = true) :
    ∀ p, noFlushToOpEnd p = true → x ∈ p → x ∈ dropThrough isOpEnd p
  | [], _, h => h
  | i :: r, hn, h => by
    rw [noFlushToOpEnd] at hn
    rw [dropThrough]
    split
    · rename_i ho
      rcases List.mem_cons.mp h with e | e
      · subst e; cases x <;> simp [isFlush] at hx; simp [isOpEnd] at ho
      · exact e
    · rename_i ho
      simp only [ho, Bool.false_eq_true, if_false, Bool.and_eq_true, Bool.not_eq_true'] at hn
      rcases List.mem_cons.mp h with e | e
      · subst e; rw [hx] at hn; exact absurd hn.1 (by simp)
      · exact mem_dropThrough_flush x hx r hn.2 e

/-- a completion instruction keeps the whole rest of its program -/
theorem exec_keep_rest_cls (v : Variant) (s : St) (t : Nat) (i : Instr) (rest : List Instr)
    (hs : s.prog t = i :: rest) (hc : cls i = true) : ∀ x, x ∈ rest → x ∈ (exec v s t i rest).prog t := by
  intro x hx
  have hold : x ∈ s.prog t := by rw [hs]; exact List.mem_cons_of_mem _ hx
  cases i <;> simp [cls] at hc
  case closeSwap =>
    simp only [exec, flushBody]
    split
    · rw [setProg_prog, if_pos rfl]
      exact List.mem_append_right _ (List.mem_cons_of_mem _ hx)
    · rw [setProg_prog, if_pos rfl]
      exact List.mem_append_right _ hx
  case cancelConts c r =>
    simp only [exec, flushBody]; rw [setProg_prog, if_pos rfl]; exact hx
  case cancelOrphans ks =>
    simp only [exec, flushBody]; rw [setProg_prog, if_pos rfl]; exact hx
  all_goals
    simp only [exec, flushBody]
    repeat' split
    all_goals
      first
        | exact hold
        | (rw [setProg_prog, if_pos rfl]; first | exact hx | exact List.mem_cons_of_mem _ hx)

theorem not_mem_of_all_notFlush (x : Instr) (hx : isFlush x = true) (r : List Instr)
    (h : (r.all fun j => !isFlush j) = true) : x ∉ r := by
  intro hm
  rw [List.all_eq_true] at h
  have := h x hm
  rw [hx] at this; exact absurd this (by simp)

/-- a flush waiting in the rest of a well-formed program is not lost by a step of its thread -/
theorem exec_keep_flush (v : Variant) (s : St) (t : Nat) (i : Instr) (rest : List Instr)
    (hs : s.prog t = i :: rest) (hw : wfLoc i rest = true) (x : Instr) (hx : isFlush x = true)
    (hm : x ∈ rest) : x ∈ (exec v s t i rest).prog t := by
  have hold : x ∈ s.prog t := by rw [hs]; exact List.mem_cons_of_mem _ hm
  by_cases hc : cls i = true
  · exact exec_keep_rest_cls v s t i rest hs hc x hm
  · cases i <;> simp [cls] at hc
    case connRead => exact absurd hm (not_mem_of_all_notFlush x hx rest hw)
    case rdNext => exact absurd hm (not_mem_of_all_notFlush x hx rest hw)
    case delByTag tag rep caps => exact absurd hm (not_mem_of_all_notFlush x hx rest hw)
    case popCont => exact absurd hm (not_mem_of_all_notFlush x hx rest hw)
    case idleGo c =>
      simp only [exec, flushBody]
      split
      · exact hold
      · rw [setProg_prog]
        split
        · rename_i e; exact absurd e (by simp [idleTid])
        · rw [setProg_prog, if_pos rfl]; exact hm
    case srv a =>
      simp only [exec, flushBody]
      split
      · exact hold
      · cases a <;> simp only [execSrv]
        case reply rep oldest =>
          split
          · exact hold
          · rw [setProg_prog, if_pos rfl]; exact hm
        case cont =>
          split
          · exact hold
          · rw [setProg_prog, if_pos rfl]; exact hm
        case enabled => rw [setProg_prog, if_pos rfl]; exact hm
        case close => rw [setProg_prog, if_pos rfl]; exact hm
        case rerr => rw [setProg_prog, if_pos rfl]; exact hm
    case contWait c idle =>
      simp only [exec, flushBody]
      repeat' split
      all_goals
        first
          | exact hold
          | (rw [setProg_prog, if_pos rfl]
             first
               | exact hm
               | (rename_i hidle
                  refine List.mem_cons_of_mem _ (mem_dropThrough_flush x hx rest ?_ hm)
                  subst hidle; exact hw))
    case idleWait c =>
      simp only [exec, flushBody]
      repeat' split
      all_goals
        first
          | exact hold
          | (rw [setProg_prog, if_pos rfl]
             first
               | exact hm
               | exact mem_dropThrough_flush x hx rest hw hm)
    all_goals
      simp only [exec, flushBody]
      repeat' split
      all_goals
        first
          | exact hold
          | (rw [setProg_prog, if_pos rfl]
             first
               | exact hm
               | exact List.mem_cons_of_mem _ hm
               | exact List.mem_cons_of_mem _ (List.mem_cons_of_mem _ hm))

/-! ### the reader's loop -/

/-- the reader has not left its read loop -/
def rdLoop (s : St) : Prop :=
  (s.prog tReader).getLast? = some .connRead ∨ (s.prog tReader).getLast? = some .rdNext

/-- once the reader has left its loop the connection is closed -/
theorem connClosed_of_not_rdLoop {s : St} (h : RdInv s) (hn : ¬ rdLoop s) : s.connClosed = true := by
  have hl := h.last
  unfold rdLoop at hn
  split at hl
  · exact hl.2
  · rename_i j e
    rcases hl with a | a | ⟨_, b⟩
    · exact absurd (Or.inl (by rw [e, a])) hn
    · exact absurd (Or.inr (by rw [e, a])) hn
    · exact b

theorem rdLoop_of_push {s s' : St} (hl : rdLoop s) (i : Instr) (rest P : List Instr)
    (hs : s.prog tReader = i :: rest) (hne : rest ≠ []) (hp : s'.prog tReader = P ++ rest) : rdLoop s' := by
  unfold rdLoop at *
  rw [hs, List.getLast?_cons_of_ne_nil hne] at hl
  rw [hp, getLast?_append_ne_nil P rest hne]
  exact hl

theorem rdLoop_exec_self (v : Variant) (s : St) (i : Instr) (rest : List Instr)
    (hs : s.prog tReader = i :: rest) (h : RdInv s) (hl : rdLoop s) :
    rdLoop (exec v s tReader i rest) ∨ Instr.closeSwap ∈ (exec v s tReader i rest).prog tReader := by
  have hi : rdInstr i = true := h.rs i (by rw [hs]; exact List.mem_cons_self)
  have hexit : ∀ s' : St, s'.prog tReader = readerExit → Instr.closeSwap ∈ s'.prog tReader := by
    intro s' e; rw [e]; exact List.mem_cons_self
  cases i <;> simp [rdInstr, cls] at hi
  case connRead =>
    simp only [exec, flushBody]
    split
    · left; right; rw [setProg_prog, if_pos rfl]; rfl
    · split
      · right; exact hexit _ (by rw [setProg_prog, if_pos rfl])
      · split
        · right; exact hexit _ (by rw [setProg_prog, if_pos rfl])
        · left; exact hl
  case rdNext =>
    simp only [exec, flushBody]
    split
    · left; left; rw [setProg_prog, if_pos rfl]; rfl
    · left; right
      rw [setProg_prog, if_pos rfl, getLast?_append_ne_nil _ _ (by simp)]; rfl
  case rdExit =>
    have hne : rest ≠ [] := by
      intro e
      unfold rdLoop at hl
      rw [hs, e] at hl
      simp at hl
    simp only [exec, flushBody]
    left
    exact rdLoop_of_push hl _ rest [] hs hne (by rw [setProg_prog, if_pos rfl]; rfl)
  case delByTag tag rep caps =>
    have hne := rd_rest_ne_nil h _ rest hs (by simp) (by simp) (by simp)
    simp only [exec, flushBody]
    split
    · right; exact hexit _ (by rw [setProg_prog, if_pos rfl])
    · left; exact rdLoop_of_push hl _ rest _ hs hne (by rw [setProg_prog, if_pos rfl])
  case popCont =>
    have hne := rd_rest_ne_nil h _ rest hs (by simp) (by simp) (by simp)
    simp only [exec, flushBody]
    split
    · right; exact hexit _ (by rw [setProg_prog, if_pos rfl])
    · rename_i k c more _
      left; exact rdLoop_of_push hl _ rest [Instr.contDone k] hs hne (by rw [setProg_prog, if_pos rfl]; rfl)
  case closeSwap =>
    have hne := rd_rest_ne_nil h _ rest hs (by simp) (by simp) (by simp)
    simp only [exec, flushBody]
    split
    · left
      exact rdLoop_of_push hl _ rest
        (s.pending.flatMap (fun c => complete (s.cmd c).kind c .err) ++ [Instr.cancelOrphans (s.contReqs.map Prod.fst)])
        hs hne (by rw [setProg_prog, if_pos rfl, List.append_assoc]; rfl)
    · left; exact rdLoop_of_push hl _ rest _ hs hne (by rw [setProg_prog, if_pos rfl])
  case loadDone c r =>
    have hne := rd_rest_ne_nil h _ rest hs (by simp) (by simp) (by simp)
    simp only [exec, flushBody]
    left; exact rdLoop_of_push hl _ rest [Instr.send c r (s.cmd c).chanInit] hs hne (by rw [setProg_prog, if_pos rfl]; rfl)
  case cancelConts c r =>
    have hne := rd_rest_ne_nil h _ rest hs (by simp) (by simp) (by simp)
    simp only [exec, flushBody]
    left; exact rdLoop_of_push hl _ rest [] hs hne (by rw [setProg_prog, if_pos rfl]; rfl)
  case cancelOrphans ks =>
    have hne := rd_rest_ne_nil h _ rest hs (by simp) (by simp) (by simp)
    simp only [exec, flushBody]
    left; exact rdLoop_of_push hl _ rest [] hs hne (by rw [setProg_prog, if_pos rfl]; rfl)
  all_goals
    have hne := rd_rest_ne_nil h _ rest hs (by simp) (by simp) (by simp)
    simp only [exec, flushBody]
    repeat' split
    all_goals
      left
      first
        | exact hl
        | exact rdLoop_of_push hl _ rest [] hs hne (by rw [setProg_prog, if_pos rfl]; rfl)

/-! ### the invariant -/

theorem exec_mem_other (v : Variant) (s : St) (t u : Nat) (i : Instr) (rest : List Instr) (hu : u ≠ t)
    (x : Instr) (hx : x ∈ s.prog u) : x ∈ (exec v s t i rest).prog u := by
  by_cases hi : ∃ c, i = .idleGo c
  · obtain ⟨c, rfl⟩ := hi
    simp only [exec, flushBody]
    split
    · exact hx
    · rename_i hg
      have hempty : s.prog (idleTid t) = [] := by
        simp only [Bool.or_eq_true, not_or, Bool.not_eq_true, Bool.not_eq_false'] at hg
        exact List.isEmpty_iff.mp (by simpa using hg.1.2)
      rw [setProg_prog]
      split
      · rename_i e; rw [e, hempty] at hx; cases hx
      · rw [setProg_prog, if_neg hu]; exact hx
  · rw [exec_prog_other v s t u i rest hu (fun c e => hi ⟨c, e⟩)]; exact hx

/-- while a command is queued somebody is going to take care of it -/
def Pend (s : St) : Prop :=
  ∀ c, c ∈ s.pending →
    rdLoop s ∨ (∃ t, Instr.closeSwap ∈ s.prog t) ∨ (∃ t w m, Instr.flush c w m ∈ s.prog t)

structure PendCtx (s : St) : Prop where
  shape : Shape s
  rd : RdInv s
  wf : ∀ u, AllSuf wfLoc (s.prog u) = true

/-- how the witnesses of one queued command survive a step that neither registers, nor swaps the
    queue, nor is a flush -/
theorem pend_transfer (v : Variant) (s : St) (t : Nat) (i : Instr) (rest : List Instr)
    (hs : s.prog t = i :: rest) (ctx : PendCtx s)
    (h1 : i ≠ .closeSwap) (h2 : isFlush i = false) (c : Nat)
    (hw : rdLoop s ∨ (∃ u, Instr.closeSwap ∈ s.prog u) ∨ (∃ u w m, Instr.flush c w m ∈ s.prog u)) :
    rdLoop (exec v s t i rest) ∨ (∃ u, Instr.closeSwap ∈ (exec v s t i rest).prog u) ∨
      (∃ u w m, Instr.flush c w m ∈ (exec v s t i rest).prog u) := by
  have hwf : wfLoc i rest = true := by have := ctx.wf t; rw [hs] at this; exact allSuf_head this
  rcases hw with ha | ⟨u, hb⟩ | ⟨u, w, m, hc⟩
  · by_cases ht : t = tReader
    · subst ht
      rcases rdLoop_exec_self v s i rest hs ctx.rd ha with a | b
      · exact Or.inl a
      · exact Or.inr (Or.inl ⟨tReader, b⟩)
    · left
      unfold rdLoop at *
      rw [exec_prog_other' v s t tReader i rest (fun e => ht e.symm) (by simp [tReader, idleTid])]
      exact ha
  · right; left
    by_cases hu : u = t
    · subst hu
      rw [hs] at hb
      rcases List.mem_cons.mp hb with e | e
      · exact absurd e.symm h1
      · have hcls : cls i = true := by
          cases hci : cls i
          · have hno := noCls_tail_of_head (by rw [← hs]; exact ctx.shape u) hci
            simp only [noCls, List.all_eq_true, Bool.not_eq_true'] at hno
            have := hno _ e
            simp [cls] at this
          · rfl
        exact ⟨u, exec_keep_rest_cls v s u i rest hs hcls _ e⟩
    · exact ⟨u, exec_mem_other v s t u i rest hu _ hb⟩
  · right; right
    by_cases hu : u = t
    · subst hu
      rw [hs] at hc
      rcases List.mem_cons.mp hc with e | e
      · rw [← e] at h2; simp [isFlush] at h2
      · exact ⟨u, w, m, exec_keep_flush v s u i rest hs hwf _ rfl e⟩
    · exact ⟨u, w, m, exec_mem_other v s t u i rest hu _ hc⟩

theorem exists_flush_of_any (c : Nat) (r : List Instr) (h : r.any (isFlushOf c) = true) :
    ∃ w m, Instr.flush c w m ∈ r := by
  rw [List.any_eq_true] at h
  obtain ⟨x, hx, hf⟩ := h
  cases x <;> simp [isFlushOf] at hf
  rename_i d w m
  subst hf
  exact ⟨w, m, hx⟩

/-- witnesses after a step that only pops the head (a flush) of thread `t`, which is not the reader -/
theorem pend_pop {s s' : St} (t : Nat) (i : Instr) (rest : List Instr) (hs : s.prog t = i :: rest)
    (hprog : ∀ u, s'.prog u = if u = t then rest else s.prog u) (ht : t ≠ tReader) (hi : i ≠ .closeSwap)
    (c : Nat)
    (hw : rdLoop s ∨ (∃ u, Instr.closeSwap ∈ s.prog u) ∨ (∃ u w m, Instr.flush c w m ∈ s.prog u))
    (halt : ∀ w m, Instr.flush c w m = i → ∃ w' m', Instr.flush c w' m' ∈ rest) :
    rdLoop s' ∨ (∃ u, Instr.closeSwap ∈ s'.prog u) ∨ (∃ u w m, Instr.flush c w m ∈ s'.prog u) := by
  rcases hw with ha | ⟨u, hb⟩ | ⟨u, w, m, hc⟩
  · left
    unfold rdLoop at *
    rw [hprog, if_neg (fun e => ht e.symm)]; exact ha
  · right; left
    refine ⟨u, ?_⟩
    rw [hprog]
    split
    · rename_i e; rw [e, hs] at hb
      rcases List.mem_cons.mp hb with e2 | e2
      · exact absurd e2.symm hi
      · exact e2
    · exact hb
  · right; right
    by_cases hu : u = t
    · rw [hu, hs] at hc
      rcases List.mem_cons.mp hc with e | e
      · obtain ⟨w', m', h'⟩ := halt w m e
        exact ⟨t, w', m', by rw [hprog, if_pos rfl]; exact h'⟩
      · exact ⟨t, w, m, by rw [hprog, if_pos rfl]; exact e⟩
    · exact ⟨u, w, m, by rw [hprog, if_neg hu]; exact hc⟩

theorem pend_exec (v : Variant) (s : St) (t : Nat) (i : Instr) (rest : List Instr)
    (hs : s.prog t = i :: rest) (ctx : PendCtx s) (h : Pend s) : Pend (exec v s t i rest) := by
  have hwf : wfLoc i rest = true := by have := ctx.wf t; rw [hs] at this; exact allSuf_head this
  by_cases hcs : i = .closeSwap
  · subst hcs
    intro c hc
    simp only [exec, flushBody] at hc
    split at hc <;> cases hc
  by_cases hfl : isFlush i = true
  · -- the head is a flush
    cases i <;> simp [isFlush] at hfl
    rename_i c0 w0 m0
    have ht : t ≠ tReader := by
      intro e
      have := ctx.rd.rs (Instr.flush c0 w0 m0) (by rw [← e, hs]; exact List.mem_cons_self)
      simp [rdInstr, cls] at this
    have halive : s.writable = true → rdLoop s := by
      intro hwr
      apply Classical.byContradiction
      intro hn
      have := connClosed_of_not_rdLoop ctx.rd hn
      simp [St.writable, this] at hwr
    have hkeepLoop : ∀ s' : St, s'.prog tReader = s.prog tReader → rdLoop s → rdLoop s' := by
      intro s' e hl; unfold rdLoop at *; rw [e]; exact hl
    intro c hc
    have hcp : c ∈ s.pending := exec_pending_sub v s t _ rest (fun _ e => by cases e) c hc
    clear hc
    have core : ∀ s1 : St, s1.prog = s.prog → s1.pending = s.pending → s1.writable = s.writable →
        (rdLoop (flushBody s1 t c0 w0 m0 rest) ∨ (∃ u, Instr.closeSwap ∈ (flushBody s1 t c0 w0 m0 rest).prog u) ∨
          (∃ u w m, Instr.flush c w m ∈ (flushBody s1 t c0 w0 m0 rest).prog u)) := by
      intro s1 hp1 hpe1 hwr1
      have hprog1 : ∀ (z : St), z.prog = s1.prog → ∀ u, (z.setProg t rest).prog u = if u = t then rest else s.prog u := by
        intro z hz u; rw [setProg_prog, hz, hp1]
      simp only [flushBody]
      cases m0
      case final =>
        simp only []
        split
        · rename_i he
          have hc0 : c0 ∉ s.pending := by
            simp only [Bool.and_eq_true, Bool.not_eq_true', decide_eq_true_eq] at he
            intro hm; have := he.2; rw [hpe1] at this; simp [hm] at this
          refine pend_pop t _ rest hs (hprog1 _ rfl) ht (by simp) c (h c hcp) ?_
          intro w m e
          injection e with e1
          exact absurd (e1 ▸ hcp) hc0
        · split
          · rename_i hw
            simp only [Bool.and_eq_true] at hw
            left
            refine hkeepLoop _ ?_ (halive (hwr1 ▸ hw.2))
            rw [setProg_prog, if_neg (fun e => ht e.symm)]; exact congrFun hp1 tReader
          · right; left
            exact ⟨t, by rw [setProg_prog, if_pos rfl]; exact List.mem_cons_self⟩
      case lit =>
        simp only []
        have hpop : ∀ s' : St, (∀ u, s'.prog u = if u = t then rest else s.prog u) →
            rdLoop s' ∨ (∃ u, Instr.closeSwap ∈ s'.prog u) ∨ (∃ u w m, Instr.flush c w m ∈ s'.prog u) := by
          intro s' hp
          refine pend_pop t _ rest hs hp ht (by simp) c (h c hcp) ?_
          intro w m e
          injection e with e1
          subst e1
          exact exists_flush_of_any c rest hwf
        split
        · exact hpop _ (hprog1 _ rfl)
        · split
          · exact hpop _ (hprog1 _ rfl)
          · exact hpop _ (hprog1 _ rfl)
      case idle =>
        simp only []
        split
        · rename_i hw
          left
          refine hkeepLoop _ ?_ (halive (hwr1 ▸ hw))
          rw [setProg_prog, if_neg (fun e => ht e.symm)]; exact congrFun hp1 tReader
        · right; left
          exact ⟨t, by rw [setProg_prog, if_pos rfl]; exact List.mem_cons_self⟩
    simp only [exec]
    split
    · exact h c hcp
    · split
      · exact h c hcp
      · split
        · exact core _ rfl rfl rfl
        · exact core _ rfl rfl rfl
  · have hfl' : isFlush i = false := by simpa using hfl
    by_cases hreg : ∃ c0, i = .register c0
    · obtain ⟨c0, rfl⟩ := hreg
      intro c hc
      by_cases hg : (!s.holds t || (s.cmd c0).registered) = true
      · simp only [exec, flushBody, hg, if_true] at hc ⊢; exact h c hc
      · have hc' : c ∈ s.pending ++ [c0] := by
          simp only [exec, flushBody, hg, Bool.false_eq_true, if_false] at hc; exact hc
        rcases List.mem_append.mp hc' with hm | hm
        · exact pend_transfer v s t _ rest hs ctx hcs hfl' c (h c hm)
        · rw [List.mem_singleton] at hm
          subst hm
          obtain ⟨w, m, hx⟩ := exists_flush_of_any c rest hwf
          right; right
          refine ⟨t, w, m, ?_⟩
          simp only [exec, flushBody, hg, Bool.false_eq_true, if_false]
          rw [setProg_prog, if_pos rfl]; exact hx
    · intro c hc
      have hm := exec_pending_sub v s t i rest (fun c0 e => hreg ⟨c0, e⟩) c hc
      exact pend_transfer v s t i rest hs ctx hcs hfl' c (h c hm)

theorem pend_skipCaps (s : St) (t : Nat) (ctx : PendCtx s) (h : Pend s) : Pend (skipCaps s t) := by
  unfold skipCaps
  split
  · rename_i record rest hs
    split
    · have ht : t ≠ tReader := by
        intro e
        have := ctx.rd.rs Instr.capsSel (by rw [← e, hs]; exact List.mem_cons_self)
        simp [rdInstr, cls] at this
      have key : ∀ s0 : St, s0.pending = s.pending → s0.prog = s.prog → Pend (s0.setProg t rest) := by
        intro s0 hp0 hpr0 c hc
        have hcp : c ∈ s.pending := by rw [setProg_pending, hp0] at hc; exact hc
        have hprog : ∀ u, (s0.setProg t rest).prog u = if u = t then rest else s.prog u := by
          intro u; rw [setProg_prog, hpr0]
        have hmem : ∀ x u, x ∈ s.prog u → x ≠ Instr.capsSel → x ≠ Instr.capsLock record →
            x ∈ (s0.setProg t rest).prog u := by
          intro x u hx h1 h2
          rw [hprog]
          split
          · rename_i e; rw [e, hs] at hx
            rcases List.mem_cons.mp hx with e1 | e1
            · exact absurd e1 h1
            · rcases List.mem_cons.mp e1 with e2 | e2
              · exact absurd e2 h2
              · exact e2
          · exact hx
        rcases h c hcp with ha | ⟨u, hb⟩ | ⟨u, w, m, hcc⟩
        · left; unfold rdLoop at *; rw [hprog, if_neg (fun e => ht e.symm)]; exact ha
        · right; left; exact ⟨u, hmem _ u hb (by simp) (by simp)⟩
        · right; right; exact ⟨u, w, m, hmem _ u hcc (by simp) (by simp)⟩
      split
      · exact key _ rfl rfl
      · exact key _ rfl rfl
    · exact h
  · exact h

theorem pendCtx_step (v : Variant) (s : St) (t : Nat) (ctx : PendCtx s) : PendCtx (step v s t) :=
  ⟨shape_step v s t ctx.shape, rdInv_step v s t ctx.rd, allSuf_step wfLoc_ok v s t ctx.wf⟩

theorem pend_step (v : Variant) (s : St) (t : Nat) (ctx : PendCtx s) (h : Pend s) : Pend (step v s t) := by
  unfold step
  split
  · exact h
  · split
    · split
      · exact pend_skipCaps s _ ctx h
      · exact h
    · split
      · exact h
      · split
        · exact h
        · rename_i i rest hs
          exact pend_exec v s t i rest hs ctx h

theorem pend_run (v : Variant) (sched : List Nat) (s : St) (ctx : PendCtx s) (h : Pend s) :
    Pend (run v s sched) ∧ PendCtx (run v s sched) := by
  induction sched generalizing s with
  | nil => exact ⟨h, ctx⟩
  | cons t ts ih => exact ih (step v s t) (pendCtx_step v s t ctx) (pend_step v s t ctx h)

theorem pendCtx_init (v : Variant) (sc : Scenario) : PendCtx (init v sc) :=
  ⟨shape_init v sc, rdInv_init v sc, wf_init v sc⟩

theorem pend_init (v : Variant) (sc : Scenario) : Pend (init v sc) := by
  intro c hc; simp [init] at hc

/-- the server thread only ever holds server actions -/
def SrvOnly (s : St) : Prop := ∀ x, x ∈ s.prog tServer → ∃ a, x = Instr.srv a

theorem srvOnly_step (v : Variant) (s : St) (t : Nat) (h : SrvOnly s) : SrvOnly (step v s t) := by
  unfold step
  split
  · exact h
  · split
    · split
      · unfold skipCaps
        split
        · rename_i record rest hs
          split
          · by_cases ht : t - 100 = tServer
            · rw [ht] at hs
              obtain ⟨a, e⟩ := h Instr.capsSel (by rw [hs]; exact List.mem_cons_self)
              cases e
            · intro x hx
              rw [setProg_prog, if_neg (fun e => ht e.symm)] at hx
              exact h x (by split at hx <;> exact hx)
          · exact h
        · exact h
      · exact h
    · split
      · exact h
      · split
        · exact h
        · rename_i i rest hs
          by_cases ht : t = tServer
          · subst ht
            obtain ⟨a, e⟩ := h i (by rw [hs]; exact List.mem_cons_self)
            subst e
            have hrest : ∀ x, x ∈ rest → ∃ a, x = Instr.srv a :=
              fun x hx => h x (by rw [hs]; exact List.mem_cons_of_mem _ hx)
            intro x hx
            simp only [exec, flushBody] at hx
            split at hx
            · exact h x hx
            · cases a <;> simp only [execSrv] at hx
              case reply rep oldest =>
                split at hx
                · exact h x hx
                · rw [setProg_prog, if_pos rfl] at hx; exact hrest x hx
              case cont =>
                split at hx
                · exact h x hx
                · rw [setProg_prog, if_pos rfl] at hx; exact hrest x hx
              case enabled => rw [setProg_prog, if_pos rfl] at hx; exact hrest x hx
              case close => rw [setProg_prog, if_pos rfl] at hx; exact hrest x hx
              case rerr => rw [setProg_prog, if_pos rfl] at hx; exact hrest x hx
          · intro x hx
            rw [exec_prog_other' v s t tServer i rest (fun e => ht e.symm) (by simp [tServer, idleTid])] at hx
            exact h x hx

theorem srvOnly_run (v : Variant) (sched : List Nat) (s : St) (h : SrvOnly s) : SrvOnly (run v s sched) := by
  induction sched generalizing s with
  | nil => exact h
  | cons t ts ih => exact ih (step v s t) (srvOnly_step v s t h)

theorem srvOnly_init (v : Variant) (sc : Scenario) : SrvOnly (init v sc) := by
  intro x hx
  have hp : (init v sc).prog tServer = sc.server.map Instr.srv := by simp [init, tServer, tReader]
  rw [hp, List.mem_map] at hx
  obtain ⟨a, _, e⟩ := hx
  exact ⟨a, e.symm⟩

/-- when every thread other than the server has run to the end of its program, nothing is queued -/
theorem no_pending_of_all_done (v : Variant) (sc : Scenario) (sched : List Nat) :
    let s := run v (init v sc) sched
    (∀ t, t ≠ tServer → s.prog t = []) → s.pending = [] := by
  intro s hq
  obtain ⟨hp, _⟩ := pend_run v sched (init v sc) (pendCtx_init v sc) (pend_init v sc)
  have hsrv := srvOnly_run v sched (init v sc) (srvOnly_init v sc)
  have hnone : ∀ t x, x ∈ s.prog t → (∀ a, x ≠ Instr.srv a) → False := by
    intro t x hx hna
    by_cases ht : t = tServer
    · rw [ht] at hx
      obtain ⟨a, e⟩ := hsrv x hx
      exact hna a e
    · rw [hq t ht] at hx; cases hx
  cases hpe : s.pending with
  | nil => rfl
  | cons c l =>
    have hc : c ∈ s.pending := by rw [hpe]; exact List.mem_cons_self
    rcases hp c hc with ha | ⟨t, hb⟩ | ⟨t, w, m, hcc⟩
    · unfold rdLoop at ha
      rw [hq tReader (by simp [tReader, tServer])] at ha
      simp at ha
    · exact (hnone t _ hb (fun a e => by cases e)).elim
    · exact (hnone t _ hcc (fun a e => by cases e)).elim

end GoImap.ClientConc
