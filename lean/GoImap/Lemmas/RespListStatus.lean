/-
  Helper lemmas for C03: LIST with RETURN (STATUS …) as one end-to-end statement. What `printList cfg (some o) ds`
  writes (per entry the LIST line, then the STATUS line when the entry carries status data), followed by the
  tagged completion, is parsed by `parseAll` and routed by `deliverList true none` to the canonical entries
  `ds.map (RespSpec.canonList (some o))`.
-/
import GoImap.Lemmas.RespAssemble
import GoImap.Lemmas.RespLines
import GoImap.Lemmas.RespCodes
import GoImap.Lemmas.RespStatus
import GoImap.Lemmas.RespList
namespace GoImap.Resp

/-! ### well-formedness, split -/

/-- the LIST-level facts do not depend on the STATUS options -/
theorem ls_wf_none (o : StatusOpts) (d : ListData) (h : RespSpec.wfList (some o) d = true) :
    RespSpec.wfList none d = true := by
  cases d with
  | mk a dl m ci on s =>
    cases s with
    | none => exact h
    | some s =>
      simp only [RespSpec.wfList, Bool.and_eq_true] at h ⊢
      exact ⟨h.1, trivial⟩

/-- the STATUS-level facts of an entry that carries status data -/
theorem ls_wf_status (o : StatusOpts) (d : ListData) (s : StatusData) (h : RespSpec.wfList (some o) d = true)
    (hs : d.status = some s) :
    RespSpec.wfStatus o s = true ∧ RespSpec.canonMailbox s.mailbox = RespSpec.canonMailbox d.mailbox := by
  unfold RespSpec.wfList at h
  rw [hs] at h
  simp only [Bool.and_eq_true, beq_iff_eq] at h
  exact h.2

/-! ### one entry -/

/-- what `printListEntry` wrote: the LIST line, then the STATUS line iff the entry carries status data -/
theorem ls_entry_print (utf8 : Bool) (o : StatusOpts) (d : ListData) (b : Str)
    (hp : printListEntry utf8 (some o) d = some b) :
    ∃ l, printListLine utf8 d = some l ∧
      ((d.status = none ∧ b = l) ∨ (∃ s sb, d.status = some s ∧ printStatus utf8 o s = some sb ∧ b = l ++ sb)) := by
  unfold printListEntry at hp
  cases hl : printListLine utf8 d with
  | none => rw [hl] at hp; simp at hp
  | some l =>
    rw [hl] at hp
    simp only [Option.bind_eq_bind, Option.bind_some] at hp
    refine ⟨l, rfl, ?_⟩
    cases hs : d.status with
    | none =>
      rw [hs] at hp
      simp only [Option.pure_def, Option.some.injEq] at hp
      exact Or.inl ⟨rfl, hp.symm⟩
    | some s =>
      rw [hs] at hp
      simp only [Option.map_eq_some_iff] at hp
      obtain ⟨sb, h1, h2⟩ := hp
      exact Or.inr ⟨s, sb, rfl, h1, h2.symm⟩

/-- the canonical pair (LIST data, STATUS data) of an entry -/
def ls_pair (o : StatusOpts) (d : ListData) : ListData × Option StatusData :=
  (RespSpec.canonList none d, d.status.map (RespSpec.canonStatus o))

/-- the lines of one entry are read as the events of its canonical pair -/
theorem ls_entry_read (utf8 : Bool) (o : StatusOpts) (d : ListData) (b : Str)
    (hwf : RespSpec.wfList (some o) d = true)
    (hlen : d.mailbox.length < 4294967296 ∧ d.oldName.length < 4294967296)
    (hrange : ∀ s, d.status = some s → StatusInRange s)
    (hp : printListEntry utf8 (some o) d = some b) :
    ∃ lines : List Str, b = lines.flatten ∧ AllRead lines (list_entryEvents (ls_pair o d)) := by
  obtain ⟨l, hl, hcase⟩ := ls_entry_print utf8 o d b hp
  have hline := list_line utf8 d l (ls_wf_none o d hwf) hlen hl
  rcases hcase with ⟨hs, rfl⟩ | ⟨s, sb, hs, hsb, rfl⟩
  · refine ⟨[b], by simp, ?_⟩
    have e : list_entryEvents (ls_pair o d) = [Event.list (RespSpec.canonList none d)] := by
      simp only [list_entryEvents, ls_pair, hs, Option.map_none]
    rw [e]
    exact AllRead.single hline
  · refine ⟨[l, sb], by simp, ?_⟩
    have e : list_entryEvents (ls_pair o d) =
        [Event.list (RespSpec.canonList none d), Event.status (RespSpec.canonStatus o s)] := by
      simp only [list_entryEvents, ls_pair, hs, Option.map_some]
    rw [e]
    exact AllRead.cons hline (AllRead.single (status_line utf8 o s sb (ls_wf_status o d s hwf hs).1 (hrange s hs) hsb))

/-! ### all entries -/

/-- the lines of all entries are read as the events of their canonical pairs, in order -/
theorem ls_entries_read (utf8 : Bool) (o : StatusOpts) : ∀ (ds : List ListData) (bytes : Str),
    (∀ d ∈ ds, RespSpec.wfList (some o) d = true) →
    (∀ d ∈ ds, d.mailbox.length < 4294967296 ∧ d.oldName.length < 4294967296) →
    (∀ d ∈ ds, ∀ s, d.status = some s → StatusInRange s) →
    concatOpt (ds.map (printListEntry utf8 (some o))) = some bytes →
    ∃ lines : List Str, bytes = lines.flatten ∧ AllRead lines ((ds.map (ls_pair o)).flatMap list_entryEvents) := by
  intro ds
  induction ds with
  | nil =>
    intro bytes _ _ _ hp
    simp only [List.map_nil, concatOpt, Option.some.injEq] at hp
    exact ⟨[], by simp [← hp], AllRead.nil⟩
  | cons d t ih =>
    intro bytes hwf hlen hrange hp
    simp only [List.map_cons] at hp
    cases hd : printListEntry utf8 (some o) d with
    | none => rw [hd] at hp; simp [concatOpt] at hp
    | some b =>
      rw [hd] at hp
      simp only [concatOpt] at hp
      cases ht : concatOpt (t.map (printListEntry utf8 (some o))) with
      | none => rw [ht] at hp; simp at hp
      | some rest =>
        rw [ht] at hp
        simp only [Option.map_some, Option.some.injEq] at hp
        obtain ⟨l1, e1, r1⟩ := ls_entry_read utf8 o d b (hwf d (by simp)) (hlen d (by simp)) (hrange d (by simp)) hd
        obtain ⟨l2, e2, r2⟩ := ih rest (fun x hx => hwf x (by simp [hx])) (fun x hx => hlen x (by simp [hx]))
          (fun x hx => hrange x (by simp [hx])) ht
        refine ⟨l1 ++ l2, by rw [← hp, e1, e2, List.flatten_append], ?_⟩
        simp only [List.map_cons, List.flatMap_cons]
        exact AllRead.append r1 r2

/-! ### what the command delivers -/

/-- the entry delivered for a canonical pair is the canonical entry -/
theorem ls_entryData_pair (o : StatusOpts) (d : ListData) :
    list_entryData (ls_pair o d) = RespSpec.canonList (some o) d := by
  cases d with
  | mk a dl m ci on s => cases s <;> rfl

theorem ls_pair_status (o : StatusOpts) (d : ListData) : (ls_pair o d).1.status = none := by
  cases d with
  | mk a dl m ci on s => cases s <;> rfl

theorem ls_pair_mailbox (o : StatusOpts) (d : ListData) (hwf : RespSpec.wfList (some o) d = true) (s' : StatusData)
    (h : (ls_pair o d).2 = some s') : s'.mailbox = (ls_pair o d).1.mailbox := by
  simp only [ls_pair, Option.map_eq_some_iff] at h
  obtain ⟨s, hs, rfl⟩ := h
  exact (ls_wf_status o d s hwf hs).2

/-- LIST with RETURN (STATUS …), end to end: the client delivers the canonical entries, each with the canonical
    STATUS data that the server wrote after its LIST line -/
theorem list_status_fidelity (cfg : Cfg) (o : StatusOpts) (ds : List ListData) (bytes tag text : Str) (ht : IsTag tag)
    (hx : IsText text)
    (hwf : ∀ d ∈ ds, RespSpec.wfList (some o) d = true)
    (hlen : ∀ d ∈ ds, d.mailbox.length < 4294967296 ∧ d.oldName.length < 4294967296)
    (hrange : ∀ d ∈ ds, ∀ s, d.status = some s → StatusInRange s)
    (hp : printList cfg (some o) ds = some bytes) :
    (parseAll (bytes ++ (tag ++ asc " OK " ++ text ++ CRLFb))).map (deliverList true none) =
      some (ds.map (RespSpec.canonList (some o))) := by
  unfold printList at hp
  obtain ⟨lines, hflat, hall⟩ := ls_entries_read cfg.quotedUTF8 o ds bytes hwf hlen hrange hp
  have hlines := AllRead.append hall (AllRead.single (done_line tag text ht hx))
  have e : bytes ++ (tag ++ asc " OK " ++ text ++ CRLFb) = (lines ++ [tag ++ asc " OK " ++ text ++ CRLFb]).flatten := by
    simp [hflat]
  rw [e, parseAll_lines _ _ hlines]
  simp only [Option.map_some]
  congr 1
  rw [list_deliver_status (ds.map (ls_pair o)) tag (asc "OK") Code.none
    (by
      intro p hpm
      obtain ⟨d, _, rfl⟩ := List.mem_map.mp hpm
      exact ls_pair_status o d)
    (by
      intro p hpm s' hs'
      obtain ⟨d, hd, rfl⟩ := List.mem_map.mp hpm
      exact ls_pair_mailbox o d (hwf d hd) s' hs')]
  rw [List.map_map]
  apply List.map_congr_left
  intro d _
  exact ls_entryData_pair o d

/-! ### a concrete response: one entry with STATUS data, one without -/

/-- INBOX (reported by the backend as `inbox`) with status data -/
def ls_exA : ListData :=
  { attrs := [asc "\\haschildren"], delim := 47, mailbox := asc "Inbox", childInfo := none, oldName := [],
    status := some status_exD }

theorem ls_exRange : StatusInRange status_exD :=
  ⟨by decide, by intro n h; cases h; decide, by decide, by decide, by intro n h; cases h; decide,
   (by intro n h; cases h), by intro n h; cases h; decide, (by intro n h; cases h), (by intro n h; cases h)⟩

example :
    (parseAll (asc ("* LIST (\\haschildren) \"/\" INBOX\r\n" ++
                    "* STATUS INBOX (MESSAGES 3 UIDNEXT 44 SIZE 1000 APPENDLIMIT NIL)\r\n" ++
                    "* LIST (\\Noselect \\haschildren) \"/\" \"Entw&APw-rfe\" (CHILDINFO (\"SUBSCRIBED\") OLDNAME (\"x\"))\r\n") ++
        (asc "T1" ++ asc " OK " ++ asc "List completed" ++ CRLFb))).map (deliverList true none) =
      some ([ls_exA, list_sample].map (RespSpec.canonList (some status_exO))) :=
  list_status_fidelity .plain status_exO [ls_exA, list_sample] _ (asc "T1") (asc "List completed")
    (codes_isTag_of _ (by decide)) (codes_isText_of _ (by decide))
    (by decide +kernel) (by decide +kernel)
    (by
      intro d hd s hs
      simp only [List.mem_cons, List.not_mem_nil, or_false] at hd
      rcases hd with rfl | rfl
      · injection hs with hs; subst hs; exact ls_exRange
      · cases hs)
    (by decide +kernel)

end GoImap.Resp
