/- Helper lemmas for C19: one lemma per field of `Flat.and`. -/
import GoImap.Model.Search
namespace GoImap.SearchLemmas
open GoImap.Search

theorem larger_and (al bl sz : Int) (hs : 0 ≤ sz) :
    okLarger (andLarger al bl) sz = (okLarger al sz && okLarger bl sz) := by
  unfold okLarger andLarger
  by_cases h1 : al = 0 <;> by_cases h2 : bl = 0 <;> by_cases h3 : bl > al <;>
    simp [*] <;> (try rw [Bool.eq_iff_iff]) <;> (try simp) <;> omega

theorem smaller_and (as bs sz : Int) :
    okSmaller (andSmaller as bs) sz = (okSmaller as sz && okSmaller bs sz) := by
  unfold okSmaller andSmaller
  by_cases h1 : as = 0 <;> by_cases h2 : bs = 0 <;> by_cases h3 : bs < as <;>
    simp [*] <;> (try rw [Bool.eq_iff_iff]) <;> (try simp) <;> omega

theorem date_and (t s1 s2 b1 b2 : Int) :
    matchDate t (intersectSince s1 s2) (intersectBefore b1 b2) = (matchDate t s1 b1 && matchDate t s2 b2) := by
  unfold matchDate intersectSince intersectBefore
  by_cases h1 : s1 = 0 <;> by_cases h2 : s2 = 0 <;> by_cases h3 : b1 = 0 <;> by_cases h4 : b2 = 0 <;>
  by_cases h5 : s1 > s2 <;> by_cases h6 : b1 < b2 <;>
    simp [*] <;> (try rw [Bool.eq_iff_iff]) <;> (try simp) <;> omega

theorem intersectSince_eq_zero (a b : Int) : intersectSince a b = 0 ↔ a = 0 ∧ b = 0 := by
  unfold intersectSince; by_cases h1 : a = 0 <;> by_cases h2 : b = 0 <;> by_cases h3 : a > b <;> simp [*]

theorem intersectBefore_eq_zero (a b : Int) : intersectBefore a b = 0 ↔ a = 0 ∧ b = 0 := by
  unfold intersectBefore; by_cases h1 : a = 0 <;> by_cases h2 : b = 0 <;> by_cases h3 : a < b <;> simp [*]

theorem sentOk_unset (m : Msg) : sentOk m 0 0 = true := by simp [sentOk]

theorem sentOk_set (m : Msg) (s b : Int) (h : s ≠ 0 ∨ b ≠ 0) :
    sentOk m s b = (!m.sentErr && matchDate m.sentDay s b) := by
  unfold sentOk
  rcases h with h | h <;> simp [h]

theorem sent_and (m : Msg) (s1 s2 b1 b2 : Int) :
    sentOk m (intersectSince s1 s2) (intersectBefore b1 b2) = (sentOk m s1 b1 && sentOk m s2 b2) := by
  by_cases hz : (s1 = 0 ∧ s2 = 0) ∧ (b1 = 0 ∧ b2 = 0)
  · obtain ⟨⟨rfl, rfl⟩, rfl, rfl⟩ := hz
    simp [sentOk, intersectSince, intersectBefore]
  · have hne : intersectSince s1 s2 ≠ 0 ∨ intersectBefore b1 b2 ≠ 0 := by
      rw [Ne, Ne, intersectSince_eq_zero, intersectBefore_eq_zero]
      by_cases a : s1 = 0 ∧ s2 = 0
      · right; intro b; exact hz ⟨a, b⟩
      · left; exact a
    rw [sentOk_set m _ _ hne, date_and]
    by_cases h1 : s1 = 0 ∧ b1 = 0
    · obtain ⟨rfl, rfl⟩ := h1
      have h2 : s2 ≠ 0 ∨ b2 ≠ 0 := by
        by_cases a : s2 = 0
        · right; intro b; exact hz ⟨⟨rfl, a⟩, rfl, b⟩
        · left; exact a
      rw [sentOk_unset, sentOk_set m _ _ h2]
      simp [matchDate]
    · have h1' : s1 ≠ 0 ∨ b1 ≠ 0 := by
        by_cases a : s1 = 0
        · right; intro b; exact h1 ⟨a, b⟩
        · left; exact a
      rw [sentOk_set m _ _ h1']
      by_cases h2 : s2 = 0 ∧ b2 = 0
      · obtain ⟨rfl, rfl⟩ := h2
        rw [sentOk_unset]
        simp [matchDate]
      · have h2' : s2 ≠ 0 ∨ b2 ≠ 0 := by
          by_cases a : s2 = 0
          · right; intro b; exact h2 ⟨a, b⟩
          · left; exact a
        rw [sentOk_set m _ _ h2']
        cases m.sentErr <;> simp

theorem matchBytes_append (buf : Str) (p q : List Str) :
    matchBytes buf (p ++ q) = (matchBytes buf p && matchBytes buf q) := by
  simp [matchBytes, List.all_append]

theorem noneMatch_append (m : Msg) : (a b : CritList) →
    noneMatch m (a.append b) = (noneMatch m a && noneMatch m b)
  | .nil, b => by simp [CritList.append, noneMatch]
  | .cons c t, b => by
    have ih := noneMatch_append m t b
    simp [CritList.append, noneMatch, ih, Bool.and_assoc]

theorem allOr_append (m : Msg) : (a b : OrList) →
    allOr m (a.append b) = (allOr m a && allOr m b)
  | .nil, b => by simp [OrList.append, allOr]
  | .cons x y t, b => by
    have ih := allOr_append m t b
    simp [OrList.append, allOr, ih, Bool.and_assoc]

end GoImap.SearchLemmas
