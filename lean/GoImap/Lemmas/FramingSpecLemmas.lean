import GoImap.Spec.Framing
/-
  Unfolding lemmas for the RFC-side framing functions of Spec/Framing.lean (no model involved).
-/
namespace GoImap.FramingSpec

/-- no CR and no LF -/
def noEol (l : Bytes) : Prop := ∀ c ∈ l, c ≠ 13 ∧ c ≠ 10

theorem splitLine_found (l rest : Bytes) (hl : noEol l) : ∀ acc,
    splitLine (l ++ 13 :: 10 :: rest) acc = (acc.reverse ++ l, rest, true) := by
  induction l with
  | nil => intro acc; simp [splitLine]
  | cons c t ih =>
    intro acc
    have hc := hl c (by simp)
    have ht : noEol t := fun x hx => hl x (by simp [hx])
    have : splitLine (c :: (t ++ 13 :: 10 :: rest)) acc = splitLine (t ++ 13 :: 10 :: rest) (c :: acc) := by
      rw [splitLine.eq_def]
      split
      · rename_i h; cases h
      · rename_i r _ h
        simp only [List.cons.injEq] at h
        exact absurd h.1 hc.1
      · rename_i c' r' _ _ h
        simp only [List.cons.injEq] at h
        obtain ⟨rfl, rfl⟩ := h
        rfl
    simp [this, ih ht]

theorem splitLine_notFound (l : Bytes) (hl : noEol l) : ∀ acc,
    splitLine l acc = (acc.reverse ++ l, [], false) := by
  induction l with
  | nil => intro acc; simp [splitLine]
  | cons c t ih =>
    intro acc
    have hc := hl c (by simp)
    have ht : noEol t := fun x hx => hl x (by simp [hx])
    have : splitLine (c :: t) acc = splitLine t (c :: acc) := by
      rw [splitLine.eq_def]
      split
      · rename_i h; cases h
      · rename_i r _ h
        simp only [List.cons.injEq] at h
        exact absurd h.1 hc.1
      · rename_i c' r' _ _ h
        simp only [List.cons.injEq] at h
        obtain ⟨rfl, rfl⟩ := h
        rfl
    simp [this, ih ht]

/-- rawLines only adds roles and never touches the tag -/
theorem rawLines_mono (go : Nat → Bool) : ∀ (fuel : Nat) (many : Bool) (off : Nat) (inp : Bytes) (f : Frame),
    f.roles <+: (rawLines go fuel many off inp f).1.roles ∧
      (rawLines go fuel many off inp f).1.tag = f.tag := by
  intro fuel
  induction fuel with
  | zero => intro many off inp f; exact ⟨by simp [rawLines], by simp [rawLines]⟩
  | succ fuel ih =>
    intro many off inp f
    simp only [rawLines]
    split
    · exact ⟨List.prefix_rfl, rfl⟩
    · generalize splitLine inp [] = sp
      obtain ⟨text, rest, found⟩ := sp
      dsimp only
      split
      · exact ⟨List.prefix_append _ _, rfl⟩
      · split
        · obtain ⟨hr, ht⟩ := ih many (off + (text.length + if found = true then 2 else 0)) rest
            { f with syncs := f.syncs ++ [off],
                     roles := f.roles ++ List.replicate (text.length + if found = true then 2 else 0) Role.line }
          exact ⟨(List.prefix_append _ _).trans hr, by rw [ht]⟩
        · exact ⟨List.prefix_append _ _, rfl⟩

/-- with no continuation request at `off`, the continuation lines of AUTHENTICATE / IDLE are not
    there: the frame ends where the command line ended -/
theorem rawLines_noGo (go : Nat → Bool) (fuel : Nat) (many : Bool) (off : Nat) (inp : Bytes) (f : Frame)
    (hgo : go off = false) :
    (rawLines go (fuel + 1) many off inp f).2 = inp ∧ (rawLines go (fuel + 1) many off inp f).1.roles = f.roles ∧
      (rawLines go (fuel + 1) many off inp f).1.tag = f.tag ∧
      (rawLines go (fuel + 1) many off inp f).1.complete = f.complete := by
  simp [rawLines, hgo]

/-- frameLines only adds roles; after the first line it does not touch the tag -/
theorem frameLines_mono (go : Nat → Bool) : ∀ (fuel : Nat) (first : Bool) (off : Nat) (inp : Bytes) (f : Frame),
    f.roles <+: (frameLines go fuel first off inp f).1.roles ∧
      (first = false → (frameLines go fuel first off inp f).1.tag = f.tag) := by
  intro fuel
  induction fuel with
  | zero => intro first off inp f; exact ⟨by simp [frameLines], fun _ => by simp [frameLines]⟩
  | succ fuel ih =>
    intro first off inp f
    simp only [frameLines]
    generalize splitLine inp [] = sp
    obtain ⟨text, rest, found⟩ := sp
    dsimp only
    generalize hf1 : (if first = true then
        { addText f text found with tag := tagOf text, kind := kindOf text } else addText f text found) = f1
    have hr1 : f.roles <+: f1.roles := by
      rw [← hf1]; split <;> exact List.prefix_append _ _
    have ht1 : first = false → f1.tag = f.tag := by
      intro h; rw [← hf1]; simp [h, addText]
    split
    · exact ⟨hr1, fun h => ht1 h⟩
    · split
      · rename_i n nonSync _
        generalize hf1' : (if nonSync = true then f1 else { f1 with syncs := f1.syncs ++ [off + text.length + 2] }) = f1'
        have hr1' : f1'.roles = f1.roles := by rw [← hf1']; split <;> rfl
        have ht1' : f1'.tag = f1.tag := by rw [← hf1']; split <;> rfl
        split
        · split
          · exact ⟨hr1.trans (by show f1.roles <+: f1'.roles ++ _; rw [hr1']; exact List.prefix_append _ _),
              fun h => by show f1'.tag = f.tag; rw [ht1', ht1 h]⟩
          · obtain ⟨hr, ht⟩ := ih false (off + text.length + 2 + n) (List.drop n rest)
              { f1' with roles := f1'.roles ++ List.replicate (List.take n rest).length Role.payload,
                         lits := f1'.lits ++ [⟨off + text.length + 2, n, nonSync, List.take n rest⟩] }
            exact ⟨(hr1.trans (by show f1.roles <+: f1'.roles ++ _; rw [hr1']; exact List.prefix_append _ _)).trans hr,
              fun h => by rw [ht rfl]; show f1'.tag = f.tag; rw [ht1', ht1 h]⟩
        · exact ⟨hr1.trans (by rw [hr1']; exact List.prefix_rfl), fun h => by rw [ht1', ht1 h]⟩
      · split
        · obtain ⟨hr, ht⟩ := rawLines_mono go (rest.length + 1) true (off + text.length + 2) rest f1
          exact ⟨hr1.trans hr, fun h => by rw [ht, ht1 h]⟩
        · split
          · obtain ⟨hr, ht⟩ := rawLines_mono go 1 false (off + text.length + 2) rest f1
            exact ⟨hr1.trans hr, fun h => by rw [ht, ht1 h]⟩
          · exact ⟨hr1, ht1⟩

/-- one complete line `l` CRLF at the head of the stream, with no continuation request at its end -/
theorem frameLines_line (go : Nat → Bool) (fuel : Nat) (first : Bool) (off : Nat) (l rest : Bytes) (f : Frame)
    (hl : noEol l) (hgo : go (off + l.length + 2) = false) :
    let R := frameLines go (fuel + 1) first off (l ++ 13 :: 10 :: rest) f
    (first = true → R.1.tag = tagOf l) ∧
    (f.roles ++ List.replicate (l.length + 2) Role.text <+: R.1.roles) ∧
    ((litHeader l = none ∨ ∃ n, litHeader l = some (n, false)) →
      R.2 = rest ∧ R.1.roles = f.roles ++ List.replicate (l.length + 2) Role.text ∧ R.1.complete = f.complete) := by
  intro R
  have hsp : splitLine (l ++ 13 :: 10 :: rest) [] = (l, rest, true) := by
    simpa using splitLine_found l rest hl []
  have hR : R = frameLines go (fuel + 1) first off (l ++ 13 :: 10 :: rest) f := rfl
  simp only [frameLines, hsp] at hR
  generalize hf1 : (if first = true then
      { addText f l true with tag := tagOf l, kind := kindOf l } else addText f l true) = f1 at hR
  have hr1 : f1.roles = f.roles ++ List.replicate (l.length + 2) Role.text := by
    rw [← hf1]; split <;> simp [addText]
  have ht1 : first = true → f1.tag = tagOf l := by
    intro h; rw [← hf1]; simp [h]
  have hc1 : f1.complete = f.complete := by rw [← hf1]; split <;> simp [addText]
  simp only [Bool.not_true, Bool.false_eq_true, if_false] at hR
  cases hh : litHeader l with
  | none =>
    simp only [hh] at hR
    -- AUTHENTICATE / IDLE: no "+" was seen at the end of the line
    have key : R.2 = rest ∧ R.1.roles = f1.roles ∧ R.1.tag = f1.tag ∧ R.1.complete = f1.complete := by
      rw [hR]
      split
      · exact rawLines_noGo go rest.length true _ rest f1 hgo
      · split
        · exact rawLines_noGo go 0 false _ rest f1 hgo
        · exact ⟨rfl, rfl, rfl, rfl⟩
    refine ⟨fun h => by rw [key.2.2.1, ht1 h], by rw [key.2.1, hr1]; exact List.prefix_rfl, fun _ => ⟨key.1, by rw [key.2.1, hr1], by rw [key.2.2.2, hc1]⟩⟩
  | some v =>
    obtain ⟨n, ns⟩ := v
    simp only [hh] at hR
    cases ns with
    | false =>
      simp only [Bool.false_or, hgo, Bool.false_eq_true, if_false] at hR
      rw [hR]
      exact ⟨fun h => ht1 h, by simp [hr1], fun _ => ⟨rfl, by simp [hr1], hc1⟩⟩
    | true =>
      simp only [Bool.true_or, if_true] at hR
      refine ⟨fun h => ?_, ?_, fun hcase => ?_⟩
      · rw [hR]
        split
        · exact ht1 h
        · rw [(frameLines_mono go fuel false _ _ _).2 rfl]; exact ht1 h
      · rw [hR]
        split
        · show _ <+: f1.roles ++ _
          rw [hr1]; exact List.prefix_append _ _
        · refine List.IsPrefix.trans ?_ (frameLines_mono go fuel false _ _ _).1
          show _ <+: f1.roles ++ _
          rw [hr1]; exact List.prefix_append _ _
      · rcases hcase with h | ⟨m, h⟩ <;> cases h

/-- the stream ends inside the line -/
theorem frameLines_partial (go : Nat → Bool) (fuel : Nat) (first : Bool) (off : Nat) (l : Bytes) (f : Frame)
    (hl : noEol l) :
    let R := frameLines go (fuel + 1) first off l f
    (first = true → R.1.tag = tagOf l) ∧ R.1.roles = f.roles ++ List.replicate l.length Role.text ∧ R.2 = [] := by
  intro R
  have hsp : splitLine l [] = (l, [], false) := by simpa using splitLine_notFound l hl []
  have hR : R = frameLines go (fuel + 1) first off l f := rfl
  simp only [frameLines, hsp, Bool.not_false, if_true] at hR
  rw [hR]
  refine ⟨fun h => by simp [h], ?_, rfl⟩
  split <;> simp [addText]

end GoImap.FramingSpec
