/-
  C19 helper: the server's key parser (`addKey/addKeys/foldKeys`) computes the conjunction of the
  RFC meaning of the keys, for keys that the criteria structure can express (`KeysOK`).
-/
import GoImap.Lemmas.SearchAnd
import GoImap.Spec.Search
namespace GoImap.SearchLemmas
open GoImap.Search GoImap.SearchSpec

/-! ### well-formedness: keys whose meaning `imap.SearchCriteria` can represent

`sz` is the size of the message the keys are evaluated on (only `LARGER 0` looks at it). -/
mutual
  def KeyOK (sz : Int) : Key → Bool
    /- `SearchCriteria.Smaller == 0` means "no bound": `SMALLER 0` (RFC: matches nothing) is
       inexpressible and is treated as "matches everything" (recorded known finding). -/
    | .smaller n => n ≠ 0
    /- `SearchCriteria.Larger == 0` means "no bound", i.e. matches everything; RFC `LARGER 0`
       matches every message of positive size, so the two agree except on an empty message. -/
    | .larger n => n ≠ 0 || 0 < sz
    /- the zero `time.Time` means "no bound" (`IsZero()`), so a date key carrying the zero time is
       dropped instead of being compared against -/
    | .since t => t ≠ 0
    | .before t => t ≠ 0
    | .sentSince t => t ≠ 0
    | .sentBefore t => t ≠ 0
    /- ON t is stored as Since = t, Before = t + 24h: neither end may be the zero time -/
    | .on t => t ≠ 0 && t + day ≠ 0
    | .sentOn t => t ≠ 0 && t + day ≠ 0
    /- compound keys: all sub-keys are well-formed -/
    | .not k => KeyOK sz k
    | .or a b => KeyOK sz a && KeyOK sz b
    | .group ks => KeysOK sz ks
    /- every other key is unconditionally fine -/
    | .all => true
    | .seqSet _ => true
    | .uid _ => true
    | .flag _ => true
    | .notFlag _ => true
    | .new_ => true
    | .old => true
    | .header _ _ => true
    | .body _ => true
    | .text _ => true
  def KeysOK (sz : Int) : KeyList → Bool
    | .nil => true
    | .cons k t => KeyOK sz k && KeysOK sz t
end

/-! ### one conjunct per `withFlat` field -/

theorem flat_add_seqSet (m : Msg) (f : Flat) (s : NumSet.Set) :
    flatMatches m { f with seqSets := f.seqSets ++ [s] }
      = (flatMatches m f && (m.seq ≠ 0 && NumSet.contains s m.seq)) := by
  simp only [flatMatches, List.all_append, List.all_cons, List.all_nil, Bool.and_true]
  ac_rfl

theorem flat_add_uid (m : Msg) (f : Flat) (s : NumSet.Set) :
    flatMatches m { f with uidSets := f.uidSets ++ [s] }
      = (flatMatches m f && NumSet.contains s m.uid) := by
  simp only [flatMatches, List.all_append, List.all_cons, List.all_nil, Bool.and_true]
  ac_rfl

theorem flat_add_flag (m : Msg) (f : Flat) (n : Str) :
    flatMatches m { f with flags := f.flags ++ [n] }
      = (flatMatches m f && m.flags.contains (lower n)) := by
  simp only [flatMatches, List.all_append, List.all_cons, List.all_nil, Bool.and_true]
  ac_rfl

theorem flat_add_notFlag (m : Msg) (f : Flat) (n : Str) :
    flatMatches m { f with notFlags := f.notFlags ++ [n] }
      = (flatMatches m f && !m.flags.contains (lower n)) := by
  simp only [flatMatches, List.all_append, List.all_cons, List.all_nil, Bool.and_true]
  ac_rfl

theorem flat_add_new (m : Msg) (f : Flat) :
    flatMatches m { f with flags := f.flags ++ [recentFlag], notFlags := f.notFlags ++ [seenFlag] }
      = (flatMatches m f && (m.flags.contains (lower recentFlag) && !m.flags.contains (lower seenFlag))) := by
  simp only [flatMatches, List.all_append, List.all_cons, List.all_nil, Bool.and_true]
  ac_rfl

theorem flat_add_header (m : Msg) (f : Flat) (kv : Str × Str) :
    flatMatches m { f with header := f.header ++ [kv] }
      = (flatMatches m f && hdrMatch m kv) := by
  simp only [flatMatches, List.all_append, List.all_cons, List.all_nil, Bool.and_true]
  ac_rfl

theorem flat_add_body (m : Msg) (f : Flat) (s : Str) :
    flatMatches m { f with body := f.body ++ [s] }
      = (flatMatches m f && containsSub m.body (lower s)) := by
  simp only [flatMatches, matchBytes, List.all_append, List.all_cons, List.all_nil, Bool.and_true]
  ac_rfl

theorem flat_add_text (m : Msg) (f : Flat) (s : Str) :
    flatMatches m { f with text := f.text ++ [s] }
      = (flatMatches m f && containsSub m.buf (lower s)) := by
  simp only [flatMatches, matchBytes, List.all_append, List.all_cons, List.all_nil, Bool.and_true]
  ac_rfl

/-- `withFlat` only touches the flat part -/
theorem matchesC_withFlat (m : Msg) (c : Crit) (g : Flat → Flat) (b : Bool)
    (h : flatMatches m (g c.flat) = (flatMatches m c.flat && b)) :
    matchesC m (c.withFlat g) = (matchesC m c && b) := by
  obtain ⟨f, n, o⟩ := c
  simp only [Crit.withFlat, Crit.flat, Crit.nots, Crit.ors, matchesC] at h ⊢
  rw [h]
  ac_rfl

/-! ### criteria holding only date and size bounds -/

theorem flatMatches_bounds (m : Msg) (s b ss sb l sm : Int) :
    flatMatches m { since := s, before := b, sentSince := ss, sentBefore := sb, larger := l, smaller := sm }
      = (matchDate m.day s b && okLarger l m.size && okSmaller sm m.size && sentOk m ss sb) := by
  simp [flatMatches, matchBytes]

theorem matchesC_bounds (m : Msg) (s b ss sb l sm : Int) :
    matchesC m (.mk { since := s, before := b, sentSince := ss, sentBefore := sb, larger := l, smaller := sm } .nil .nil)
      = (matchDate m.day s b && okLarger l m.size && okSmaller sm m.size && sentOk m ss sb) := by
  simp only [matchesC, noneMatch, allOr, flatMatches_bounds, Bool.and_true]

theorem matchesC_empty (m : Msg) : matchesC m Crit.empty = true := by
  have := matchesC_bounds m 0 0 0 0 0 0
  simpa [Crit.empty, matchDate, okLarger, okSmaller, sentOk] using this

theorem dec_le_eq (a b : Int) : decide (a ≤ b) = !decide (b < a) := by
  by_cases h : b < a <;> simp [h] <;> omega

theorem crit_since (m : Msg) (t : Int) (ht : t ≠ 0) :
    matchesC m (.mk { since := t } .nil .nil) = decide (t ≤ m.day) := by
  rw [matchesC_bounds m t 0 0 0 0 0]
  simp [matchDate, okLarger, okSmaller, sentOk, ht, dec_le_eq]

theorem crit_before (m : Msg) (t : Int) (ht : t ≠ 0) :
    matchesC m (.mk { before := t } .nil .nil) = decide (m.day < t) := by
  rw [matchesC_bounds m 0 t 0 0 0 0]
  simp [matchDate, okLarger, okSmaller, sentOk, ht, dec_le_eq]

theorem crit_on (m : Msg) (t : Int) (ht : t ≠ 0) (ht' : t + day ≠ 0) :
    matchesC m (.mk { since := t, before := t + day } .nil .nil)
      = (decide (t ≤ m.day) && decide (m.day < t + day)) := by
  rw [matchesC_bounds m t (t + day) 0 0 0 0]
  simp [matchDate, okLarger, okSmaller, sentOk, ht, ht', dec_le_eq]

theorem crit_sentSince (m : Msg) (t : Int) (ht : t ≠ 0) :
    matchesC m (.mk { sentSince := t } .nil .nil) = (!m.sentErr && decide (t ≤ m.sentDay)) := by
  rw [matchesC_bounds m 0 0 t 0 0 0]
  simp [matchDate, okLarger, okSmaller, sentOk, ht, dec_le_eq]

theorem crit_sentBefore (m : Msg) (t : Int) (ht : t ≠ 0) :
    matchesC m (.mk { sentBefore := t } .nil .nil) = (!m.sentErr && decide (m.sentDay < t)) := by
  rw [matchesC_bounds m 0 0 0 t 0 0]
  simp [matchDate, okLarger, okSmaller, sentOk, ht, dec_le_eq]

theorem crit_sentOn (m : Msg) (t : Int) (ht : t ≠ 0) (ht' : t + day ≠ 0) :
    matchesC m (.mk { sentSince := t, sentBefore := t + day } .nil .nil)
      = (!m.sentErr && decide (t ≤ m.sentDay) && decide (m.sentDay < t + day)) := by
  rw [matchesC_bounds m 0 0 t (t + day) 0 0]
  simp [matchDate, okLarger, okSmaller, sentOk, ht, ht', Bool.and_assoc, dec_le_eq]

theorem crit_larger (m : Msg) (n : Int) (h : n ≠ 0 ∨ 0 < m.size) :
    matchesC m (.mk { larger := n } .nil .nil) = decide (m.size > n) := by
  rw [matchesC_bounds m 0 0 0 0 n 0]
  by_cases hn : n = 0
  · subst hn
    have : 0 < m.size := by rcases h with h | h; exact absurd rfl h; exact h
    simp [matchDate, okLarger, okSmaller, sentOk, this]
  · simp [matchDate, okLarger, okSmaller, sentOk, hn, dec_le_eq]

theorem crit_smaller (m : Msg) (n : Int) (hn : n ≠ 0) :
    matchesC m (.mk { smaller := n } .nil .nil) = decide (m.size < n) := by
  rw [matchesC_bounds m 0 0 0 0 0 n]
  simp [matchDate, okLarger, okSmaller, sentOk, hn, dec_le_eq]

/-! ### the parser accumulates a conjunction -/

mutual
  theorem addKey_matches (m : Msg) (hs : 0 ≤ m.size) : (k : Key) → (c : Crit) → KeyOK m.size k = true →
      matchesC m (addKey c k) = (matchesC m c && matchesKey m k)
    | .all, c, _ => by simp [addKey, matchesKey]
    | .seqSet s, c, _ => by
      rw [addKey, matchesKey]; exact matchesC_withFlat m c _ _ (flat_add_seqSet m c.flat s)
    | .uid s, c, _ => by
      rw [addKey, matchesKey]; exact matchesC_withFlat m c _ _ (flat_add_uid m c.flat s)
    | .flag n, c, _ => by
      rw [addKey, matchesKey]; exact matchesC_withFlat m c _ _ (flat_add_flag m c.flat n)
    | .notFlag n, c, _ => by
      rw [addKey, matchesKey]; exact matchesC_withFlat m c _ _ (flat_add_notFlag m c.flat n)
    | .new_, c, _ => by
      rw [addKey, matchesKey]; exact matchesC_withFlat m c _ _ (flat_add_new m c.flat)
    | .old, c, _ => by
      rw [addKey, matchesKey]; exact matchesC_withFlat m c _ _ (flat_add_notFlag m c.flat recentFlag)
    | .header k v, c, _ => by
      rw [addKey, matchesKey]; exact matchesC_withFlat m c _ _ (flat_add_header m c.flat (k, v))
    | .body s, c, _ => by
      rw [addKey, matchesKey]; exact matchesC_withFlat m c _ _ (flat_add_body m c.flat s)
    | .text s, c, _ => by
      rw [addKey, matchesKey]; exact matchesC_withFlat m c _ _ (flat_add_text m c.flat s)
    | .since t, c, h => by
      have ht : t ≠ 0 := by simpa [KeyOK] using h
      rw [addKey, matchesKey, matchesC_and _ _ _ hs, crit_since m t ht]
    | .before t, c, h => by
      have ht : t ≠ 0 := by simpa [KeyOK] using h
      rw [addKey, matchesKey, matchesC_and _ _ _ hs, crit_before m t ht]
    | .on t, c, h => by
      have ht : t ≠ 0 ∧ t + day ≠ 0 := by simpa [KeyOK] using h
      rw [addKey, matchesKey, matchesC_and _ _ _ hs, crit_on m t ht.1 ht.2]
    | .sentSince t, c, h => by
      have ht : t ≠ 0 := by simpa [KeyOK] using h
      rw [addKey, matchesKey, matchesC_and _ _ _ hs, crit_sentSince m t ht]
    | .sentBefore t, c, h => by
      have ht : t ≠ 0 := by simpa [KeyOK] using h
      rw [addKey, matchesKey, matchesC_and _ _ _ hs, crit_sentBefore m t ht]
    | .sentOn t, c, h => by
      have ht : t ≠ 0 ∧ t + day ≠ 0 := by simpa [KeyOK] using h
      rw [addKey, matchesKey, matchesC_and _ _ _ hs, crit_sentOn m t ht.1 ht.2]
    | .larger n, c, h => by
      have hn : n ≠ 0 ∨ 0 < m.size := by simpa [KeyOK] using h
      rw [addKey, matchesKey, matchesC_and _ _ _ hs, crit_larger m n hn]
    | .smaller n, c, h => by
      have hn : n ≠ 0 := by simpa [KeyOK] using h
      rw [addKey, matchesKey, matchesC_and _ _ _ hs, crit_smaller m n hn]
    | .not k, c, h => by
      have ih := addKey_matches m hs k Crit.empty (by simpa [KeyOK] using h)
      obtain ⟨f, n, o⟩ := c
      simp only [addKey, Crit.flat, Crit.nots, Crit.ors, matchesC, noneMatch_append, noneMatch, ih,
        matchesC_empty, matchesKey, Bool.true_and, Bool.and_true]
      ac_rfl
    | .or a b, c, h => by
      have h' : KeyOK m.size a = true ∧ KeyOK m.size b = true := by simpa [KeyOK] using h
      have iha := addKey_matches m hs a Crit.empty h'.1
      have ihb := addKey_matches m hs b Crit.empty h'.2
      obtain ⟨f, n, o⟩ := c
      simp only [addKey, Crit.flat, Crit.nots, Crit.ors, matchesC, allOr_append, allOr, iha, ihb,
        matchesC_empty, matchesKey, Bool.true_and, Bool.and_true]
      ac_rfl
    | .group ks, c, h => by
      rw [addKey, matchesKey]
      exact addKeys_matches m hs ks c (by simpa [KeyOK] using h)
  theorem addKeys_matches (m : Msg) (hs : 0 ≤ m.size) : (ks : KeyList) → (c : Crit) → KeysOK m.size ks = true →
      matchesC m (addKeys c ks) = (matchesC m c && matchesKeys m ks)
    | .nil, c, _ => by simp [addKeys, matchesKeys]
    | .cons k t, c, h => by
      have h' : KeyOK m.size k = true ∧ KeysOK m.size t = true := by simpa [KeysOK] using h
      rw [addKeys, addKeys_matches m hs t _ h'.2, addKey_matches m hs k c h'.1, matchesKeys, Bool.and_assoc]
end

theorem foldKeys_matches (m : Msg) (hs : 0 ≤ m.size) (ks : KeyList) (h : KeysOK m.size ks = true) :
    matchesC m (foldKeys ks) = matchesKeys m ks := by
  rw [foldKeys, addKeys_matches m hs ks _ h, matchesC_empty, Bool.true_and]

/-! ### key order does not matter -/

/-- the keys of a list, in the order written -/
def _root_.GoImap.Search.KeyList.toList : KeyList → List Key
  | .nil => []
  | .cons k t => k :: toList t

/-- `ks₁` lists the same keys as `ks₂` in a different order -/
def KeysPerm (ks₁ ks₂ : KeyList) : Prop := List.Perm ks₁.toList ks₂.toList

theorem matchesKeys_eq_all (m : Msg) : (ks : KeyList) →
    matchesKeys m ks = ks.toList.all (matchesKey m)
  | .nil => by simp [matchesKeys, KeyList.toList]
  | .cons k t => by simp [matchesKeys, KeyList.toList, matchesKeys_eq_all m t]

theorem keysOK_eq_all (sz : Int) : (ks : KeyList) →
    KeysOK sz ks = ks.toList.all (KeyOK sz)
  | .nil => by simp [KeysOK, KeyList.toList]
  | .cons k t => by simp [KeysOK, KeyList.toList, keysOK_eq_all sz t]

theorem matchesKeys_perm (m : Msg) (ks₁ ks₂ : KeyList) (hp : KeysPerm ks₁ ks₂) :
    matchesKeys m ks₁ = matchesKeys m ks₂ := by
  rw [matchesKeys_eq_all, matchesKeys_eq_all]; exact hp.all_eq

theorem keysOK_perm (sz : Int) (ks₁ ks₂ : KeyList) (hp : KeysPerm ks₁ ks₂) :
    KeysOK sz ks₁ = KeysOK sz ks₂ := by
  rw [keysOK_eq_all, keysOK_eq_all]; exact hp.all_eq

end GoImap.SearchLemmas
