/-
  C02 helper lemmas: the commands that carry a message set, for any set that is written as its text and read
  back as some set `s'` (`SetReads`): canonical sets (`s' = s`) and literal sets (`s'` = the canonical set
  denoting the union of the written ranges).
-/
import GoImap.Lemmas.CmdGrammarLitSet
import GoImap.Lemmas.CmdGrammarPermFetch
namespace GoImap.CmdLemmas
open GoImap.CmdGrammar GoImap.CmdSpec

/-! ### COPY, MOVE, STORE, UID EXPUNGE, FETCH for any readable set -/

theorem pCopy_reads (uid mv : Bool) (s s' : NSet) (m : List Nat) (hs : SetReads s s') (hm : MailboxOK m) :
    pCopy uid mv (sp ++ (atom s.text ++ (sp ++ (wMailbox m ++ crlf)))) =
      .ok ((if mv then Cmd.move uid s' (canonMailbox m) else Cmd.copy uid s' (canonMailbox m)), []) := by
  unfold pCopy
  simp only [bind, Except.bind, pSP_sp _ (hs.notEol _), hs.read _ (stops_sp_numset _),
    pSP_sp _ (notEol_wMailbox m crlf), pMailbox_wMailbox m crlf hm stops_crlf0, pCRLF_crlf_nil]
  rfl

theorem copy_reads (cfg : Cfg) (tag : Nat) (uid : Bool) (s s' : NSet) (m : List Nat) (hs : SetReads s s') (hm : MailboxOK m) :
    roundTrip {} cfg tag (.copy uid s m) = .calls [.copy uid s' (canonMailbox m)] := by
  apply roundTrip_single cfg tag _ (uidName uid "COPY" ++ sp ++ atom s.text ++ sp ++ wMailbox m)
  · simp [wBody, hs.write, bind, Except.bind, pure, Except.pure]
  · simp only [List.append_assoc]
    rw [parse_uidName cfg tag uid "COPY" _ (isName_kw "COPY") (by decide) (stops_sp_atom _), dispatch_copy]
    simp only [one, bind, Except.bind, pCopy_reads uid false s s' m hs hm]
    simp [pure, Except.pure]

theorem move_reads (cfg : Cfg) (tag : Nat) (uid : Bool) (s s' : NSet) (m : List Nat) (hs : SetReads s s') (hm : MailboxOK m)
    (hmove : cfg.hasMove = true) :
    roundTrip {} cfg tag (.move uid s m) = .calls [.move uid s' (canonMailbox m)] := by
  apply roundTrip_single cfg tag _ (uidName uid "MOVE" ++ sp ++ atom s.text ++ sp ++ wMailbox m)
  · simp [wBody, hs.write, hmove, bind, Except.bind, pure, Except.pure]
  · simp only [List.append_assoc]
    rw [parse_uidName cfg tag uid "MOVE" _ (isName_kw "MOVE") (by decide) (stops_sp_atom _), dispatch_move]
    simp only [one, bind, Except.bind, pCopy_reads uid true s s' m hs hm]
    simp [pure, Except.pure]

theorem pStore_reads (uid : Bool) (s s' : NSet) (op : Nat) (silent : Bool) (flags : List Str)
    (hs : SetReads s s') (hop : op ≤ 2) (hf : ∀ f ∈ flags, FlagOK f) :
    pStore uid (sp ++ (atom s.text ++ (sp ++ (storeItem op silent ++ (sp ++ (wList (flags.map fun f => atom f) ++ crlf)))))) =
      .ok (.store uid s' op silent (flags.map canonFlag), []) := by
  have hlist := pListOpt_wList flagItemSpec flags hf [] crlf
  rw [foldl_canonFlag] at hlist
  have hitem := storeItem_chars op silent
  have hne : NotEol (wList (flags.map fun f => atom f) ++ crlf) := by simp [wList, NotEol]
  unfold pStore
  rw [storeItem_atom]
  simp only [bind, Except.bind, pSP_sp _ (hs.notEol _), hs.read _ (stops_sp_numset _),
    pSP_sp _ (notEol_atom _ _ hitem.1 hitem.2), pAtom_atom _ _ hitem.1 hitem.2 (stops_sp_atom _), pSP_sp _ hne, hlist,
    pCRLF_crlf_nil, List.nil_append, storeAnalyse_item op silent hop]
  rfl

theorem store_reads (cfg : Cfg) (tag : Nat) (uid : Bool) (s s' : NSet) (op : Nat) (silent : Bool) (flags : List Str)
    (hs : SetReads s s') (hop : op ≤ 2) (hf : ∀ f ∈ flags, FlagOK f) :
    roundTrip {} cfg tag (.store uid s op silent flags) = .calls [.store uid s' op silent (flags.map canonFlag)] := by
  apply roundTrip_single cfg tag _
    (uidName uid "STORE" ++ sp ++ atom s.text ++ sp ++ storeItem op silent ++ sp ++ wList (flags.map fun f => atom f))
  · have : ¬ op > 2 := by omega
    simp [wBody, hs.write, wFlagList_ok flags hf, this, storeItem, bind, Except.bind, pure, Except.pure]
  · simp only [List.append_assoc]
    rw [parse_uidName cfg tag uid "STORE" _ (isName_kw "STORE") (by decide) (stops_sp_atom _), dispatch_store]
    simp only [one, bind, Except.bind, pStore_reads uid s s' op silent flags hs hop hf]
    simp [pure, Except.pure]

theorem uidExpunge_reads (cfg : Cfg) (tag : Nat) (s s' : NSet) (hs : SetReads s s') :
    roundTrip {} cfg tag (.expunge (some s)) = .calls [.expunge (some s')] := by
  apply roundTrip_single cfg tag _ (kw "UID EXPUNGE" ++ sp ++ atom s.text)
  · simp [wBody, hs.write, bind, Except.bind, pure, Except.pure]
  · have hk : kw "UID EXPUNGE" = kw "UID " ++ atom (str "EXPUNGE") := by decide
    rw [hk]
    simp only [List.append_assoc]
    rw [parse_uid cfg tag (str "EXPUNGE") _ (isName_kw "EXPUNGE") (stops_sp_atom _), dispatch_uidexpunge]
    have hst : Stops isNumSetChar crlf := by simp [crlf, Stops]; decide
    simp only [one, pUidExpunge, bind, Except.bind, pSP_sp _ (hs.notEol _), hs.read crlf hst, pCRLF_crlf_nil]
    simp [pure, Except.pure]

/-- FETCH with the scalar items in the order `l`, for any readable set -/
theorem parse_fetch_reads (cfg : Cfg) (tag : Nat) (uid : Bool) (s s' : NSet) (o : FetchOpts) (l : List FItem)
    (hs : SetReads s s') (ho : FetchOK o) (hl : l.Perm (scalarItems o)) :
    parseOne cfg (tagW tag ++ (uidName uid "FETCH" ++ (sp ++ (atom s.text ++ (sp ++
      (wList ((firstItems uid o ++ l ++ tailItems o).map FItem.wire) ++ crlf)))))) =
      .ok ([.fetch uid s' { o with uid := o.uid || uid }], []) := by
  rw [parse_uidName cfg tag uid "FETCH" _ (isName_kw "FETCH") (by decide) (stops_sp_atom _), dispatch_fetch]
  have hok : ∀ a ∈ firstItems uid o ++ l ++ tailItems o, a.ok := by
    intro a ha
    have hall := fItems_ok uid o ho
    rw [fItems_split] at hall
    simp only [List.mem_append] at ha hall
    rcases ha with (ha | ha) | ha
    · exact hall a (Or.inl (Or.inl ha))
    · exact scalar_ok a (scalarItems_scalar o a (hl.mem_iff.mp ha))
    · exact hall a (Or.inr ha)
  have hlist := pListOpt_wList fetchItemSpec (firstItems uid o ++ l ++ tailItems o) hok {} crlf
  rw [foldl_items_order uid o l hl ho.noModSeq] at hlist
  simp only [one, pFetch, bind, Except.bind, pSP_sp _ (hs.notEol _), hs.read _ (stops_sp_numset _),
    pSP_sp _ (notEol_wList _ _), hlist, pCRLF_crlf_nil]
  cases uid <;> simp [pure, Except.pure]

theorem fetch_reads (cfg : Cfg) (tag : Nat) (uid : Bool) (s s' : NSet) (o : FetchOpts)
    (hs : SetReads s s') (ho : FetchOK o) :
    Delivers {} cfg tag (.fetch uid s o) [.fetch uid s' { o with uid := o.uid || uid }] := by
  cases hwf : wFetchItems uid o with
  | error e =>
    have := linearise_fetchItems uid o ho
    rw [hwf] at this
    simp [Except.map] at this
  | ok segs =>
    have hw : wBody {} cfg (.fetch uid s o) = .ok [Seg.fixed (uidName uid "FETCH" ++ sp ++ atom s.text ++ sp) :: segs] := by
      simp [wBody, hs.write, hwf, bind, Except.bind, pure, Except.pure]
    apply delivers_single cfg tag _ _ _ hw
    intro w hlin
    obtain ⟨w1, rfl, h1⟩ := lin_fixed_cons hlin
    obtain ⟨l, hl, rfl⟩ := lin_fetchItems uid o ho segs hwf w1 h1
    have := parse_fetch_reads cfg tag uid s s' o l hs ho hl
    simp only [List.append_assoc] at this ⊢
    exact this

theorem move_fallback_reads (cfg : Cfg) (tag : Nat) (uid : Bool) (s s' : NSet) (m : List Nat)
    (hs : SetReads s s') (hm : MailboxOK m) (hmove : cfg.hasMove = false) :
    roundTrip {} cfg tag (.move uid s m) =
      .calls [.copy uid s' (canonMailbox m), .store uid s' 1 true [deletedFlag],
              .expunge (if uid && cfg.hasUidPlus then some s' else none)] := by
  have hcopy : parseOne cfg (tagW tag ++ (uidName uid "COPY" ++ sp ++ atom s.text ++ sp ++ wMailbox m) ++ crlf)
      = .ok ([.copy uid s' (canonMailbox m)], []) := by
    simp only [List.append_assoc]
    rw [parse_uidName cfg tag uid "COPY" _ (isName_kw "COPY") (by decide) (stops_sp_atom _), dispatch_copy]
    simp only [one, bind, Except.bind, pCopy_reads uid false s s' m hs hm]
    rfl
  have hstore : parseOne cfg (tagW (tag + 1) ++ (uidName uid "STORE" ++ sp ++ atom s.text ++ sp ++ kw "+FLAGS.SILENT (\\Deleted)") ++ crlf)
      = .ok ([.store uid s' 1 true [deletedFlag]], []) := by
    rw [deletedItem]
    simp only [List.append_assoc]
    rw [parse_uidName cfg (tag + 1) uid "STORE" _ (isName_kw "STORE") (by decide) (stops_sp_atom _), dispatch_store]
    have := pStore_reads uid s s' 1 true [deletedFlag] hs (by decide) deletedFlag_ok
    simp only [one, bind, Except.bind, this]
    have hc : canonFlag deletedFlag = deletedFlag := by decide
    simp [hc, pure, Except.pure]
  by_cases hx : (uid && cfg.hasUidPlus) = true
  · have hexp : parseOne cfg (tagW (tag + 2) ++ (kw "UID EXPUNGE" ++ sp ++ atom s.text) ++ crlf) = .ok ([.expunge (some s')], []) := by
      have hk : kw "UID EXPUNGE" = kw "UID " ++ atom (str "EXPUNGE") := by decide
      rw [hk]
      simp only [List.append_assoc]
      rw [parse_uid cfg (tag + 2) (str "EXPUNGE") _ (isName_kw "EXPUNGE") (stops_sp_atom _), dispatch_uidexpunge]
      have hst : Stops isNumSetChar crlf := by simp [crlf, Stops]; decide
      simp only [one, pUidExpunge, bind, Except.bind, pSP_sp _ (hs.notEol _), hs.read crlf hst, pCRLF_crlf_nil]
      rfl
    have := roundTrip_triple cfg tag (.move uid s m) _ _ _ _ _ _
      (by simp [wBody, hs.write, hmove, hx, bind, Except.bind, pure, Except.pure]) hcopy hstore hexp
    rw [this]
    simp [hx]
  · have hexp : parseOne cfg (tagW (tag + 2) ++ kw "EXPUNGE" ++ crlf) = .ok ([.expunge none], []) := by
      have := parse_plain cfg (tag + 2) (str "EXPUNGE") crlf (isName_kw "EXPUNGE") (by decide) stops_crlf0
      simp only [kw, List.append_assoc] at this ⊢
      rw [this, dispatch_expunge]
      simp [one, pExpunge, bind, Except.bind, pCRLF_crlf_nil, pure, Except.pure]
    have := roundTrip_triple cfg tag (.move uid s m) _ _ _ _ _ _
      (by simp [wBody, hs.write, hmove, hx, bind, Except.bind, pure, Except.pure]) hcopy hstore hexp
    rw [this]
    simp [hx]

end GoImap.CmdLemmas
