import GoImap.Lemmas.ClientConcBasic
/-!
  C13: only four instructions can make the process panic (set `crashed`): the send of a completion
  (on a closed channel), `closeDone` (second close / nil channel), `closeMsgs` (second close of a
  FETCH stream) and `contDone` (second close of a continuation request). Frame lemma for the rest.
-/
namespace GoImap.ClientConc

def mayCrash : Instr → Bool
  | .send .. | .closeDone _ | .closeMsgs _ | .contDone _ => true
  | _ => false

theorem foldl_setCont2_crashed (ks : List (Nat × Nat)) (x : ContSt) (s : St) :
    (ks.foldl (fun acc kc => acc.setCont kc.1 x) s).crashed = s.crashed := by
  induction ks generalizing s with
  | nil => rfl
  | cons k ks ih => simp only [List.foldl]; exact ih _

theorem foldl_setCont_crashed (ks : List Nat) (s : St) :
    (ks.foldl (fun acc k => acc.setCont k .cancelled) s).crashed = s.crashed := by
  induction ks generalizing s with
  | nil => rfl
  | cons k ks ih => simp only [List.foldl]; exact ih _

theorem exec_crashed (v : Variant) (s : St) (t : Nat) (i : Instr) (rest : List Instr)
    (hi : mayCrash i = false) : (exec v s t i rest).crashed = s.crashed := by
  cases i <;> simp [mayCrash] at hi
  case srv a =>
    simp only [exec]
    split
    · rfl
    · cases a <;> simp only [execSrv]
      case reply rep oldest =>
        split
        · rfl
        · show (deliver s _).crashed = _; unfold deliver; split <;> rfl
      case cont =>
        split
        · rfl
        · show (deliver s _).crashed = _; unfold deliver; split <;> rfl
      case enabled => show (deliver s _).crashed = _; unfold deliver; split <;> rfl
      case close => rfl
      case rerr => rfl
  case cancelConts c r =>
    simp only [exec]
    have e : ∀ (z : St) f, ((z.updCmd c f).setProg t rest).crashed = z.crashed := fun _ _ => rfl
    rw [e, foldl_setCont2_crashed]
  case cancelOrphans ks =>
    simp only [exec]
    have e : ∀ (z : St), (z.setProg t rest).crashed = z.crashed := fun _ => rfl
    rw [e, foldl_setCont_crashed]
  all_goals
    simp only [exec, flushBody]
    repeat' split
    all_goals rfl

theorem skipCaps_crashed (s : St) (t : Nat) : (skipCaps s t).crashed = s.crashed := by
  unfold skipCaps
  repeat' split
  all_goals rfl

end GoImap.ClientConc
