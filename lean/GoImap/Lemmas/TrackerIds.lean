/-
  C07 helper lemmas, part 5: every identity named by a pending ghost update (expunged, flagged or
  appended) belongs to the session's view or to the ids appended by pending updates; with the
  invariant they are all below the id supply.
-/
import GoImap.Lemmas.TrackerInv
namespace GoImap.TrackerLemmas
open GoImap.Tracker GoImap.TrackerSpec

/-- identities named by a ghost update -/
def updIds : GUpd → List Id
  | .expunge id => [id]
  | .exists_ ids => ids
  | .mflags => []
  | .fetch id => [id]

theorem mem_of_posOf_ne_zero {x : Id} {l : List Id} (h : posOf x l ≠ 0) : x ∈ l :=
  Classical.byContradiction fun hn => h (posOf_eq_zero_iff.mpr hn)

theorem deliver_ids {v : List Id} {u : GUpd} {x : Upd} {v' : List Id}
    (h : deliver v u = some (x, v')) : ∀ id ∈ updIds u, id ∈ v ++ appended [u] := by
  intro id hid
  cases u with
  | expunge i =>
    obtain ⟨hp, _, _⟩ := deliver_expunge h
    simp only [updIds, List.mem_singleton] at hid
    subst hid
    exact List.mem_append_left _ (mem_of_posOf_ne_zero hp)
  | fetch i =>
    obtain ⟨hp, _, _⟩ := deliver_fetch h
    simp only [updIds, List.mem_singleton] at hid
    subst hid
    exact List.mem_append_left _ (mem_of_posOf_ne_zero hp)
  | exists_ ids =>
    simp only [updIds] at hid
    exact List.mem_append_right _ (by simpa [appended] using hid)
  | mflags => simp [updIds] at hid

theorem deliverAll_ids : ∀ (p : List GUpd) {v : List Id} {q : List Upd} {m : List Id},
    deliverAll v p = some (q, m) → ∀ u ∈ p, ∀ id ∈ updIds u, id ∈ v ++ appended p
  | [], _, _, _, _, u, hu, _, _ => by simp at hu
  | u0 :: us, v, q, m, h, u, hu, id, hid => by
    obtain ⟨x, v', xs, hd, hr, rfl⟩ := deliverAll_cons_some h
    have happ : appended (u0 :: us) = appended [u0] ++ appended us := appended_append [u0] us
    rw [happ, ← List.append_assoc]
    rcases List.mem_cons.mp hu with rfl | hu'
    · exact List.mem_append_left _ (deliver_ids hd id hid)
    · rcases List.mem_append.mp (deliverAll_ids us hr u hu' id hid) with h1 | h1
      · exact List.mem_append_left _ ((deliver_sublist hd).subset h1)
      · exact List.mem_append_right _ h1

theorem SessRel.of_mem_right {R : Sess → GSess → Prop} :
    ∀ {ss : List Sess} {gs : List GSess}, SessRel R ss gs → ∀ {g : GSess}, g ∈ gs → ∃ s ∈ ss, R s g
  | [], [], _, g, hg => by simp at hg
  | s0 :: ss, g0 :: gs, h, g, hg => by
    rcases List.mem_cons.mp hg with rfl | hg'
    · exact ⟨s0, List.mem_cons_self, h.1⟩
    · obtain ⟨s, hs, hr⟩ := SessRel.of_mem_right h.2 hg'
      exact ⟨s, List.mem_cons_of_mem _ hs, hr⟩
  | [], _ :: _, h, _, _ => h.elim
  | _ :: _, [], h, _, _ => h.elim

end GoImap.TrackerLemmas
