/-
  C08 helper lemmas, part 4: an update queued for the sessions of one mailbox (EXISTS, EXPUNGE, a
  flag change) keeps the global invariant.
-/
import GoImap.Lemmas.ViewsInv
namespace GoImap.ViewsLemmas
open GoImap.Tracker GoImap.TrackerSpec GoImap.TrackerLemmas GoImap.Views GoImap.ViewsSpec

theorem getElem?_set_eq' {α} {l : List α} {i : Nat} {a x : α} (h : (l.set i a)[i]? = some x) : x = a := by
  by_cases hi : i < l.length
  · rw [List.getElem?_set_self hi] at h; exact (Option.some.inj h).symm
  · have : (l.set i a)[i]? = none := by
      apply List.getElem?_eq_none; simp; omega
    rw [this] at h; cases h

theorem pushPay_getElem? (conns : List Conn) (m : Nat) (src : Option Nat) (p : Nat × Nat) (c : Nat) :
    (pushPay conns m src p)[c]? = (conns[c]?).map fun cn =>
      if cn.sel = some m && src != some c then { cn with pay := cn.pay ++ [p] } else cn := by
  simp [pushPay, List.getElem?_mapIdx]

theorem pushPay_length (conns : List Conn) (m : Nat) (src : Option Nat) (p : Nat × Nat) :
    (pushPay conns m src p).length = conns.length := by simp [pushPay]

/-- the generic step: the ghost sessions of mailbox `m` all receive `u` (but `src`), the connections keep
    their selection, and the payload lists follow -/
theorem ginv_dispatch {st : Views.St} {G : List GSt} {A : List View} (h : GInv st G A) {m : Nat} {b : MBox}
    {g : GSt} (hb : st.mb[m]? = some b) (hg : G[m]? = some g) {b' : MBox} {g' : GSt} {u : GUpd}
    {src : Option Nat} (hmb : MbInv b' g') (hsess : g'.sess = gdispatch g u src) {conns' : List Conn}
    (hlen : conns'.length = st.conns.length)
    (hconn : ∀ (c : Nat) cn, st.conns[c]? = some cn → ∃ cn', conns'[c]? = some cn' ∧ cn'.sel = cn.sel ∧
      (cn.sel = some m → ∀ gs ∈ g.sess, gs.id = c → PayRel cn.pay gs.pending →
        PayRel cn'.pay (if src = some c then gs.pending else gs.pending ++ [u])) ∧
      (cn.sel ≠ some m → cn'.pay = cn.pay)) :
    GInv ⟨st.mb.set m b', conns'⟩ (G.set m g') A := by
  have hmlt : m < G.length := (List.getElem?_eq_some_iff.mp hg).1
  have hmlt' : m < st.mb.length := (List.getElem?_eq_some_iff.mp hb).1
  refine ⟨by simp [h.mlen], ?_, by rw [hlen]; exact h.clen, ?_, ?_⟩
  · intro m1 b1 g1 hb1 hg1
    change (st.mb.set m b')[m1]? = some b1 at hb1
    by_cases hm : m = m1
    · subst hm
      have e1 := getElem?_set_eq' hb1
      have e2 := getElem?_set_eq' hg1
      subst e1; subst e2; exact hmb
    · simp only [List.getElem?_set_ne hm] at hb1 hg1
      exact h.mb m1 b1 g1 hb1 hg1
  · intro c cn' hc'
    change conns'[c]? = some cn' at hc'
    have hclt : c < st.conns.length := by
      have := (List.getElem?_eq_some_iff.mp hc').1
      omega
    obtain ⟨cn'', hc'', hsel, hpay1, hpay2⟩ := hconn c _ (List.getElem?_eq_getElem hclt)
    rw [hc'] at hc''
    cases hc''
    have hold := h.conn c _ (List.getElem?_eq_getElem hclt)
    generalize hcn : st.conns[c] = cn at hold hsel hpay1 hpay2
    unfold ConnInv at hold ⊢
    rw [hsel]
    cases hs : cn.sel with
    | none =>
      rw [hs] at hold
      simp only at hold ⊢
      exact ⟨hold.1, by rw [hpay2 (by rw [hs]; simp)]; exact hold.2⟩
    | some m1 =>
      rw [hs] at hold
      simp only at hold ⊢
      obtain ⟨g1, gs, hg1, hgs, hid, hv, hp⟩ := hold
      by_cases hm : m = m1
      · subst hm
        rw [hg] at hg1
        cases hg1
        refine ⟨g', if src = some gs.id then gs else { gs with pending := gs.pending ++ [u] },
          by rw [List.getElem?_set_self hmlt], ?_, ?_, ?_, ?_⟩
        · rw [hsess]
          exact List.mem_map_of_mem (f := fun s => if src = some s.id then s else { s with pending := s.pending ++ [u] }) hgs
        · split <;> exact hid
        · split <;> exact hv
        · have := hpay1 hs gs hgs hid hp
          rw [hid]
          split
          · rename_i hc; simpa [hc] using this
          · rename_i hc; simpa [hc] using this
      · refine ⟨g1, gs, by rw [List.getElem?_set_ne hm]; exact hg1, hgs, hid, hv, ?_⟩
        rw [hpay2 (by rw [hs]; intro he; exact hm (Option.some.inj he).symm)]
        exact hp
  · intro m1 g1 gs1 hg1 hgs1
    have key : ∀ (cid : Nat) cn, st.conns[cid]? = some cn → cn.sel = some m1 →
        ∃ cn', (Views.St.mk (st.mb.set m b') conns').conns[cid]? = some cn' ∧ cn'.sel = some m1 := by
      intro cid cn hcn hsel
      obtain ⟨cn', hc', hs', _, _⟩ := hconn cid cn hcn
      exact ⟨cn', hc', by rw [hs', hsel]⟩
    by_cases hm : m = m1
    · subst hm
      have e2 := getElem?_set_eq' hg1
      subst e2
      rw [hsess] at hgs1
      simp only [gdispatch, List.mem_map] at hgs1
      obtain ⟨gs0, hgs0, rfl⟩ := hgs1
      obtain ⟨cn, hcn, hsel⟩ := h.sess m g gs0 hg hgs0
      have hid : (if src = some gs0.id then gs0 else { gs0 with pending := gs0.pending ++ [u] }).id = gs0.id := by
        split <;> rfl
      rw [hid]
      exact key _ cn hcn hsel
    · rw [List.getElem?_set_ne hm] at hg1
      obtain ⟨cn, hcn, hsel⟩ := h.sess m1 g1 gs1 hg1 hgs1
      exact key _ cn hcn hsel

end GoImap.ViewsLemmas
