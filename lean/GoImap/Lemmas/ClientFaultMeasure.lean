/-
  C10 helper lemmas, part 1: a natural-number measure that strictly decreases on every step of the
  client transition system (GoImap/Model/ClientFault.lean), whatever the state. Components:
  tokens still to be consumed (this bounds the bytes left in an open literal), phases left in the
  caller's program, where the caller is blocked, the in-flight message's queued literal item, the
  reader being alive, the literal's done signal, granted continuation requests, the progress of
  Close and of the failing writer.
-/
import GoImap.Model.ClientFault
import Mathlib.Tactic.SplitIfs
namespace GoImap.ClientFaultLemmas
open GoImap.ClientFault

def nGranted : List Cmd → Nat
  | [] => 0
  | x :: r => (if x.cont = .granted then 1 else 0) + nGranted r

def posRank (p : Pos) (fl : Option Bool) (progEmpty : Bool) : Nat :=
  match p with
  | .ready => if progEmpty then 0 else 7
  | .greet => 1
  | .tls _ => 1
  | .res _ => 2
  | .cont _ => 3
  | .msgs _ _ => if fl.isSome then 5 else 3
  | .items _ _ => 4
  | .lit _ _ => 6

def flRank (fl : Option Bool) : Nat := if fl = some true then 4 else 0
def readerRank (r : Reader) : Nat := if r = .exited then 0 else 1
def closerRank : Closer → Nat
  | .none => 3 | .wanted => 2 | .waiting => 1 | .returned => 0
def proberRank (p : Prober) : Nat := if p = .wanting then 1 else 0
def boolRank (b : Bool) : Nat := if b then 1 else 0

/-- the measure -/
def mu (s : St) : Nat :=
  32 * s.inbox.length + 64 * s.prog.length + posRank s.pos s.flight s.prog.isEmpty + flRank s.flight
  + readerRank s.reader + boolRank s.litDone + nGranted s.cmds + closerRank s.closer + proberRank s.prober

theorem posRank_le (p : Pos) (fl : Option Bool) (b : Bool) : posRank p fl b ≤ 7 := by
  cases p <;> simp only [posRank] <;> first | omega | (split_ifs <;> omega)

theorem flRank_le (fl : Option Bool) : flRank fl ≤ 4 := by
  simp only [flRank]; split_ifs <;> omega

theorem boolRank_le (b : Bool) : boolRank b ≤ 1 := by cases b <;> simp [boolRank]

theorem nGranted_set (l : List Cmd) (c : Nat) (x y : Cmd) (h : l[c]? = some y) :
    nGranted (l.set c x) + (if y.cont = .granted then 1 else 0) =
      nGranted l + (if x.cont = .granted then 1 else 0) := by
  induction l generalizing c with
  | nil => simp at h
  | cons a r ih =>
    cases c with
    | zero =>
      simp only [List.getElem?_cons_zero, Option.some.injEq] at h
      subst h
      simp only [List.set_cons_zero, nGranted]
      omega
    | succ c =>
      simp only [List.getElem?_cons_succ] at h
      simp only [List.set_cons_succ, nGranted]
      have := ih c h
      omega

theorem completeOne_granted (x : Cmd) (ok : Bool) :
    ((completeOne x ok).cont = .granted) ↔ (x.cont = .granted) := by
  simp only [completeOne]
  by_cases h : x.cont = .waiting
  · simp [h]
  · simp [h]

theorem cancelCont_granted (x : Cmd) : ((cancelCont x).cont = .granted) ↔ (x.cont = .granted) := by
  simp only [cancelCont]
  by_cases h : x.cont = .waiting
  · simp [h]
  · simp [h]

theorem nGranted_failAll (l : List Cmd) : nGranted (failAll l) = nGranted l := by
  induction l with
  | nil => rfl
  | cons a r ih =>
    simp only [failAll, List.map_cons, nGranted] at ih ⊢
    rw [ih]
    have e : ((cancelCont (if pendingCmd a = true then completeOne a false else a)).cont = .granted) ↔
        (a.cont = .granted) := by
      rw [cancelCont_granted]
      split_ifs
      · exact completeOne_granted a false
      · exact Iff.rfl
    by_cases hg : a.cont = .granted
    · rw [if_pos hg, if_pos (e.2 hg)]
    · rw [if_neg hg, if_neg (fun h => hg (e.1 h))]

/-- measure of a state after `record` -/
theorem mu_record_lt (s s0 : St) (c : Cls)
    (hprog : s.prog = s0.prog) (hin : s.inbox.length ≤ s0.inbox.length) (hfl : s.flight = s0.flight)
    (hrd : readerRank s.reader ≤ readerRank s0.reader) (hld : s.litDone = s0.litDone)
    (hg : nGranted s.cmds ≤ nGranted s0.cmds) (hcl : s.closer = s0.closer) (hpr : s.prober = s0.prober)
    (hpos : s0.prog = [] → posRank s0.pos s0.flight true ≥ 1) :
    mu (record s c) < mu s0 := by
  simp only [record]
  cases hp : s.prog with
  | nil =>
    have hp0 : s0.prog = [] := by rw [← hprog]; exact hp
    have := hpos hp0
    simp only [mu, hp, hp0, hfl, hld, hcl, hpr, List.length_nil, List.isEmpty_nil, posRank, if_true] at this ⊢
    omega
  | cons ph r =>
    have hp0 : s0.prog = ph :: r := by rw [← hprog]; exact hp
    have h1 := posRank_le s0.pos s0.flight false
    simp only [mu, hp0, hfl, hld, hcl, hpr, List.length_cons, List.isEmpty_cons, posRank] at h1 ⊢
    have : (if r.isEmpty = true then 0 else 7) ≤ 7 := by split_ifs <;> omega
    omega


theorem cGreet_dec (s s' : St) (h : cGreet s = some s') : mu s' < mu s := by
  simp only [cGreet] at h
  split_ifs at h with hc
  simp only [Option.some.injEq] at h; subst h
  simp only [Bool.and_eq_true, decide_eq_true_eq] at hc
  exact mu_record_lt s s _ rfl (Nat.le_refl _) rfl (Nat.le_refl _) rfl (Nat.le_refl _) rfl rfl
    (by intro _; rw [hc.1]; simp [posRank])

theorem cTls_dec (s s' : St) (h : cTls s = some s') : mu s' < mu s := by
  simp only [cTls] at h
  split at h
  · rename_i c hpos
    split_ifs at h
    simp only [Option.some.injEq] at h; subst h
    exact mu_record_lt _ s _ rfl (Nat.le_refl _) rfl (Nat.le_refl _) rfl (Nat.le_refl _) rfl rfl
      (by intro _; rw [hpos]; simp [posRank])
  · simp at h

theorem cRes_dec (s s' : St) (h : cRes s = some s') : mu s' < mu s := by
  simp only [cRes] at h
  split at h
  · rename_i c hpos
    split at h
    · split at h
      · split_ifs at h
        · simp only [Option.some.injEq] at h; subst h
          simp only [mu, hpos, posRank]
          omega
        · simp only [Option.some.injEq] at h; subst h
          exact mu_record_lt _ s _ rfl (by simp [closeConn]) rfl (Nat.le_refl _) rfl (Nat.le_refl _) rfl rfl
            (by intro _; rw [hpos]; simp [posRank])
        · simp only [Option.some.injEq] at h; subst h
          exact mu_record_lt _ s _ rfl (Nat.le_refl _) rfl (Nat.le_refl _) rfl (Nat.le_refl _) rfl rfl
            (by intro _; rw [hpos]; simp [posRank])
      · simp at h
    · simp at h
  · simp at h

theorem cMsgs_dec (s s' : St) (h : cMsgs s = some s') : mu s' < mu s := by
  simp only [cMsgs] at h
  split at h
  · rename_i c w hpos
    split at h
    · split_ifs at h with h1 h2 h3
      · simp only [Option.some.injEq] at h; subst h
        simp only [Bool.and_eq_true, decide_eq_true_eq] at h1
        simp only [mu, hpos, posRank, h1.2, if_true]
        omega
      · simp only [Option.some.injEq] at h; subst h
        simp only [mu, hpos, posRank]
        split_ifs <;> omega
      · simp only [Option.some.injEq] at h; subst h
        exact mu_record_lt _ s _ rfl (Nat.le_refl _) rfl (Nat.le_refl _) rfl (Nat.le_refl _) rfl rfl
          (by intro _; rw [hpos]; simp only [posRank]; split_ifs <;> omega)
    · simp at h
  · simp at h

theorem cItems_dec (s s' : St) (h : cItems s = some s') : mu s' < mu s := by
  simp only [cItems] at h
  split at h
  · rename_i c w hpos
    split at h
    · rename_i hfl
      simp only [Option.some.injEq] at h; subst h
      simp [mu, hpos, posRank, hfl, flRank]
    · rename_i hfl
      simp only [Option.some.injEq] at h; subst h
      simp [mu, hpos, posRank, hfl, flRank]
    · simp at h
  · simp at h

theorem cLit_dec (s s' : St) (h : cLit s = some s') : mu s' < mu s := by
  simp only [cLit] at h
  split at h
  · rename_i c w hpos
    split_ifs at h with hn
    · simp only [Option.some.injEq] at h; subst h
      have := boolRank_le s.litDone
      simp only [mu, hpos, posRank, boolRank, if_true]
      omega
    · split at h
      · simp at h
      · simp only [Option.some.injEq] at h; subst h
        have := boolRank_le s.litDone
        simp only [mu, hpos, posRank, boolRank, if_true]
        omega
      · simp only [Option.some.injEq] at h; subst h
        have := boolRank_le s.litDone
        have := boolRank_le (!s.legacyLit)
        simp only [mu, hpos, posRank]
        omega
  · simp at h

theorem kClose_dec (s s' : St) (h : kClose s = some s') : mu s' < mu s := by
  simp only [kClose] at h
  split_ifs at h with hc
  simp only [Option.some.injEq] at h; subst h
  simp only [mu, closeConn, hc, closerRank, List.length_nil]
  omega

theorem kRet_dec (s s' : St) (h : kRet s = some s') : mu s' < mu s := by
  simp only [kRet] at h
  split_ifs at h with hc
  simp only [Option.some.injEq] at h; subst h
  simp only [Bool.and_eq_true, decide_eq_true_eq] at hc
  simp [mu, hc.1, closerRank]

theorem kFinal_dec (s s' : St) (h : kFinal s = some s') : mu s' < mu s := by
  simp only [kFinal] at h
  split_ifs at h with hc
  simp only [Option.some.injEq] at h; subst h
  simp only [Bool.and_eq_true, decide_eq_true_eq] at hc
  simp [mu, hc.1.1, closerRank]

theorem pFire_dec (s s' : St) (h : pFire s = some s') : mu s' < mu s := by
  simp only [pFire] at h
  split_ifs at h with hc
  simp only [Option.some.injEq] at h; subst h
  simp only [Bool.and_eq_true, decide_eq_true_eq] at hc
  simp only [mu, closeConn, hc.1, proberRank, nGranted_failAll, List.length_nil]
  simp
  omega

theorem rResume_dec (s s' : St) (h : rResume s = some s') : mu s' < mu s := by
  simp only [rResume] at h
  split_ifs at h with hc
  simp only [Option.some.injEq] at h; subst h
  simp only [Bool.and_eq_true, decide_eq_true_eq] at hc
  simp [mu, hc.1, hc.2, readerRank, boolRank]

theorem rFail_dec (s s' : St) (h : rFail s = some s') : mu s' < mu s := by
  simp only [rFail] at h
  split_ifs at h with hc
  simp only [Option.some.injEq] at h; subst h
  simp only [Bool.and_eq_true, decide_eq_true_eq] at hc
  have h1 : posRank s.pos none s.prog.isEmpty ≤ posRank s.pos s.flight s.prog.isEmpty := by
    cases s.pos <;> simp only [posRank] <;> first | omega | (split_ifs <;> simp_all)
  simp only [mu, closeConn, hc.1.1, readerRank, nGranted_failAll, flRank, List.length_nil]
  simp
  omega

/-- setting one command of the table: effect on the number of granted continuation requests -/
theorem mu_setCmd (s : St) (c : Nat) (x y : Cmd) (h : cmdAt? s c = some y) :
    nGranted (setCmd s c x).cmds + (if y.cont = .granted then 1 else 0) =
      nGranted s.cmds + (if x.cont = .granted then 1 else 0) :=
  nGranted_set s.cmds c x y h

theorem rTok_dec (s s' : St) (h : rTok s = some s') : mu s' < mu s := by
  simp only [rTok] at h
  split_ifs at h with hr
  split at h
  · rename_i r hin
    simp only [Option.some.injEq] at h; subst h
    simp [mu, hin]
  · rename_i r hin
    simp only [Option.some.injEq] at h; subst h
    simp [mu, hin]
  · rename_i c r hin
    split at h
    · rename_i x hx
      split_ifs at h with hw
      simp only [Option.some.injEq] at h; subst h
      have hx' : cmdAt? { s with inbox := r } c = some x := hx
      have := mu_setCmd { s with inbox := r } c { x with cont := .granted } x hx'
      simp only [hw] at this
      simp only [mu, hin, List.length_cons, setCmd] at this ⊢
      simp at this
      omega
    · simp at h
  · rename_i c ok r hin
    split at h
    · rename_i x hx
      split_ifs at h with hw
      simp only [Option.some.injEq] at h; subst h
      have hx' : cmdAt? { s with inbox := r } c = some x := hx
      have := mu_setCmd { s with inbox := r } c (completeOne x ok) x hx'
      have hg := completeOne_granted x ok
      simp only [mu, hin, List.length_cons, setCmd] at this ⊢
      have e : (if (completeOne x ok).cont = .granted then 1 else 0) = (if x.cont = .granted then 1 else 0) := by
        by_cases hgr : x.cont = .granted
        · rw [if_pos hgr, if_pos (hg.2 hgr)]
        · rw [if_neg hgr, if_neg (fun h => hgr (hg.1 h))]
      rw [e] at this
      omega
    · simp at h
  · rename_i c ok r hin
    split at h
    · rename_i x hx
      split_ifs at h with hw
      simp only [Option.some.injEq] at h; subst h
      have hx' : cmdAt? { s with inbox := r } c = some x := hx
      have := mu_setCmd { s with inbox := r } c (completeOne x ok) x hx'
      have hg := completeOne_granted x ok
      simp only [mu, hin, List.length_cons, setCmd] at this ⊢
      have e : (if (completeOne x ok).cont = .granted then 1 else 0) = (if x.cont = .granted then 1 else 0) := by
        by_cases hgr : x.cont = .granted
        · rw [if_pos hgr, if_pos (hg.2 hgr)]
        · rw [if_neg hgr, if_neg (fun h => hgr (hg.1 h))]
      rw [e] at this
      omega
    · simp at h
  · rename_i c n got r hin
    split at h
    · split_ifs at h with hw
      simp only [Option.some.injEq] at h; subst h
      have h1 := posRank_le s.pos (some true) s.prog.isEmpty
      have h2 := flRank_le s.flight
      have h3 := boolRank_le s.litDone
      have hr' : s.reader = .reading := by simpa using hr
      simp only [mu, hin, List.length_cons, hr', readerRank, flRank, boolRank]
      simp
      omega
    · simp at h
  · rename_i r hin
    simp only [Option.some.injEq] at h; subst h
    have h1 : posRank s.pos none s.prog.isEmpty ≤ posRank s.pos s.flight s.prog.isEmpty := by
      cases s.pos <;> simp only [posRank] <;> first | omega | (split_ifs <;> simp_all)
    simp only [mu, hin, List.length_cons, flRank]
    simp
    omega
  · simp at h
  · simp at h


theorem mu_lt_of_pos (s s' : St) (hin : s'.inbox = s.inbox) (hprog : s'.prog = s.prog)
    (hfl : s'.flight = s.flight) (hrd : s'.reader = s.reader) (hld : s'.litDone = s.litDone)
    (hg : nGranted s'.cmds ≤ nGranted s.cmds) (hcl : s'.closer = s.closer) (hpr : s'.prober = s.prober)
    (hpos : posRank s'.pos s.flight s.prog.isEmpty < posRank s.pos s.flight s.prog.isEmpty) :
    mu s' < mu s := by
  simp only [mu, hin, hprog, hfl, hrd, hld, hcl, hpr]
  omega

theorem issueCmd_fields (s : St) (c : Nat) (x : Cmd) (wc : Bool) :
    (issueCmd s c x wc).inbox = s.inbox ∧ (issueCmd s c x wc).prog = s.prog ∧
    (issueCmd s c x wc).flight = s.flight ∧ (issueCmd s c x wc).reader = s.reader ∧
    (issueCmd s c x wc).litDone = s.litDone ∧ (issueCmd s c x wc).closer = s.closer ∧
    (issueCmd s c x wc).prober = s.prober ∧ (issueCmd s c x wc).pos = s.pos ∧
    (issueCmd s c x wc).out = s.out := by
  simp only [issueCmd]
  split_ifs <;> simp [setCmd]

theorem issueCmd_granted (s : St) (c : Nat) (x : Cmd) (wc : Bool) (hx : cmdAt? s c = some x) :
    nGranted (issueCmd s c x wc).cmds ≤ nGranted s.cmds := by
  have h := mu_setCmd s c { x with issued := true, cont := if wc then Cont.waiting else x.cont } x hx
  simp only [issueCmd]
  cases wc
  · simp only [Bool.false_eq_true, if_false] at h ⊢
    split_ifs
    · simp only [nGranted_failAll]; omega
    · omega
  · simp only [if_true] at h ⊢
    have h0 : (if Cont.waiting = Cont.granted then 1 else 0) = 0 := by simp
    rw [h0] at h
    split_ifs
    · simp only [nGranted_failAll]; omega
    · omega

theorem cCont_dec (s s' : St) (h : cCont s = some s') : mu s' < mu s := by
  simp only [cCont] at h
  split at h
  · rename_i c hpos
    split at h
    · rename_i x hx
      have hrec : ∀ (t : St) (cl : Cls), t.prog = s.prog → t.inbox = s.inbox → t.flight = s.flight →
          t.reader = s.reader → t.litDone = s.litDone → t.cmds = s.cmds → t.closer = s.closer →
          t.prober = s.prober → mu (record t cl) < mu s := by
        intro t cl h1 h2 h3 h4 h5 h6 h7 h8
        exact mu_record_lt t s cl h1 (by rw [h2]; exact Nat.le_refl _) h3 (by rw [h4]; exact Nat.le_refl _) h5
          (by rw [h6]; exact Nat.le_refl _) h7 h8 (by intro _; rw [hpos]; simp [posRank])
      split at h
      · simp only [Option.some.injEq] at h; subst h; exact hrec _ _ rfl rfl rfl rfl rfl rfl rfl rfl
      · simp only [Option.some.injEq] at h; subst h; exact hrec _ _ rfl rfl rfl rfl rfl rfl rfl rfl
      · simp only [Option.some.injEq] at h; subst h; exact hrec _ _ rfl rfl rfl rfl rfl rfl rfl rfl
      · simp only [Option.some.injEq] at h; subst h; exact hrec _ _ rfl rfl rfl rfl rfl rfl rfl rfl
      · simp only [Option.some.injEq] at h; subst h; exact hrec _ _ rfl rfl rfl rfl rfl rfl rfl rfl
      · simp only [Option.some.injEq] at h; subst h; exact hrec _ _ rfl rfl rfl rfl rfl rfl rfl rfl
      · rename_i hk hc
        split_ifs at h
        · simp only [Option.some.injEq] at h; subst h; exact hrec _ _ rfl rfl rfl rfl rfl rfl rfl rfl
        · simp only [Option.some.injEq] at h; subst h
          have := mu_setCmd s c { x with cont := Cont.waiting } x hx
          have hng : ¬ (Cont.waiting = Cont.granted) := by simp
          simp only [hc, if_true, if_neg hng] at this
          simp only [mu, setCmd] at this ⊢
          omega
      · simp only [Option.some.injEq] at h; subst h
        simp only [mu, hpos, posRank]
        omega
      · simp at h
    · simp at h
  · simp at h

theorem cStart_dec (s s' : St) (h : cStart s = some s') : mu s' < mu s := by
  simp only [cStart] at h
  split_ifs at h with hr
  have hready : s.pos = .ready := by simpa using hr
  split at h
  · simp at h
  · rename_i ph rest hprog
    simp only [Option.some.injEq] at h; subst h
    have hne : s.prog.isEmpty = false := by rw [hprog]; rfl
    -- recording on the unchanged state
    have hrec0 : ∀ (t : St) (cl : Cls), t.prog = s.prog → t.inbox = s.inbox → t.flight = s.flight →
        t.reader = s.reader → t.litDone = s.litDone → nGranted t.cmds ≤ nGranted s.cmds → t.closer = s.closer →
        t.prober = s.prober → mu (record t cl) < mu s := by
      intro t cl h1 h2 h3 h4 h5 h6 h7 h8
      exact mu_record_lt t s cl h1 (by rw [h2]; exact Nat.le_refl _) h3 (by rw [h4]; exact Nat.le_refl _) h5 h6 h7 h8
        (by intro h0; rw [hprog] at h0; exact absurd h0 (by simp))
    -- blocking with the rest unchanged
    have hblk : ∀ (t : St), t.prog = s.prog → t.inbox = s.inbox → t.flight = s.flight →
        t.reader = s.reader → t.litDone = s.litDone → nGranted t.cmds ≤ nGranted s.cmds → t.closer = s.closer →
        t.prober = s.prober → t.pos ≠ .ready → mu t < mu s := by
      intro t h1 h2 h3 h4 h5 h6 h7 h8 h9
      apply mu_lt_of_pos s t h2 h1 h3 h4 h5 h6 h7 h8
      rw [hready, hne]
      have : posRank t.pos s.flight false ≤ 6 := by
        cases hp : t.pos <;> simp only [posRank] <;> first | omega | (split_ifs <;> omega) | exact absurd hp h9
      have h7 : posRank Pos.ready s.flight false = 7 := by simp [posRank]
      rw [h7]
      exact Nat.lt_succ_of_le this
    cases ph with
    | greetWait => exact hblk _ rfl rfl rfl rfl rfl (Nat.le_refl _) rfl rfl (by simp [startPhase])
    | issue c =>
      simp only [startPhase]
      split
      · rename_i x hx
        obtain ⟨f1, f2, f3, f4, f5, f6, f7, _, _⟩ := issueCmd_fields s c x false
        split_ifs
        · exact hrec0 _ _ rfl rfl rfl rfl rfl (Nat.le_refl _) rfl rfl
        · exact hrec0 _ _ f2 f1 f3 f4 f5 (issueCmd_granted s c x false hx) f6 f7
      · exact hrec0 _ _ rfl rfl rfl rfl rfl (Nat.le_refl _) rfl rfl
    | wait c =>
      simp only [startPhase]
      split
      · split_ifs
        · exact hrec0 _ _ rfl rfl rfl rfl rfl (Nat.le_refl _) rfl rfl
        · exact hblk _ rfl rfl rfl rfl rfl (Nat.le_refl _) rfl rfl (by simp)
      · exact hrec0 _ _ rfl rfl rfl rfl rfl (Nat.le_refl _) rfl rfl
    | collect c =>
      simp only [startPhase, consume]
      split
      · split_ifs
        · exact hblk _ rfl rfl rfl rfl rfl (Nat.le_refl _) rfl rfl (by simp)
        · exact hrec0 _ _ rfl rfl rfl rfl rfl (Nat.le_refl _) rfl rfl
      · exact hrec0 _ _ rfl rfl rfl rfl rfl (Nat.le_refl _) rfl rfl
    | close c =>
      simp only [startPhase, consume]
      split
      · split_ifs
        · exact hblk _ rfl rfl rfl rfl rfl (Nat.le_refl _) rfl rfl (by simp)
        · exact hrec0 _ _ rfl rfl rfl rfl rfl (Nat.le_refl _) rfl rfl
      · exact hrec0 _ _ rfl rfl rfl rfl rfl (Nat.le_refl _) rfl rfl
    | loop c =>
      simp only [startPhase, consume]
      split
      · split_ifs
        · exact hblk _ rfl rfl rfl rfl rfl (Nat.le_refl _) rfl rfl (by simp)
        · exact hrec0 _ _ rfl rfl rfl rfl rfl (Nat.le_refl _) rfl rfl
      · exact hrec0 _ _ rfl rfl rfl rfl rfl (Nat.le_refl _) rfl rfl
    | issueCont c =>
      simp only [startPhase, issueBlocking]
      split
      · rename_i x hx
        obtain ⟨f1, f2, f3, f4, f5, f6, f7, _, _⟩ := issueCmd_fields s c x true
        split_ifs
        · exact hblk _ f2 f1 f3 f4 f5 (issueCmd_granted s c x true hx) f6 f7 (by simp)
        · exact hrec0 _ _ rfl rfl rfl rfl rfl (Nat.le_refl _) rfl rfl
      · exact hrec0 _ _ rfl rfl rfl rfl rfl (Nat.le_refl _) rfl rfl
    | idle c =>
      simp only [startPhase, issueBlocking]
      split
      · rename_i x hx
        obtain ⟨f1, f2, f3, f4, f5, f6, f7, _, _⟩ := issueCmd_fields s c x true
        split_ifs
        · exact hblk _ f2 f1 f3 f4 f5 (issueCmd_granted s c x true hx) f6 f7 (by simp)
        · exact hrec0 _ _ rfl rfl rfl rfl rfl (Nat.le_refl _) rfl rfl
      · exact hrec0 _ _ rfl rfl rfl rfl rfl (Nat.le_refl _) rfl rfl
    | auth c =>
      simp only [startPhase, issueBlocking]
      split
      · rename_i x hx
        obtain ⟨f1, f2, f3, f4, f5, f6, f7, _, _⟩ := issueCmd_fields s c x true
        split_ifs
        · exact hblk _ f2 f1 f3 f4 f5 (issueCmd_granted s c x true hx) f6 f7 (by simp)
        · exact hrec0 _ _ rfl rfl rfl rfl rfl (Nat.le_refl _) rfl rfl
      · exact hrec0 _ _ rfl rfl rfl rfl rfl (Nat.le_refl _) rfl rfl
    | appendWrite c =>
      simp only [startPhase]
      split
      · split_ifs
        · exact hrec0 _ _ rfl rfl rfl rfl rfl (Nat.le_refl _) rfl rfl
        · exact hrec0 _ _ rfl rfl rfl rfl rfl (Nat.le_refl _) rfl rfl
      · exact hrec0 _ _ rfl rfl rfl rfl rfl (Nat.le_refl _) rfl rfl
    | idleDone c =>
      simp only [startPhase]
      exact hrec0 _ _ rfl rfl rfl rfl rfl (Nat.le_refl _) rfl rfl
    | starttls c =>
      simp only [startPhase]
      split
      · rename_i x hx
        obtain ⟨f1, f2, f3, f4, f5, f6, f7, _, _⟩ := issueCmd_fields s c x false
        split_ifs
        · exact hblk _ f2 f1 f3 f4 f5 (issueCmd_granted s c x false hx) f6 f7 (by simp)
        · exact hrec0 _ _ rfl rfl rfl rfl rfl (Nat.le_refl _) rfl rfl
      · exact hrec0 _ _ rfl rfl rfl rfl rfl (Nat.le_refl _) rfl rfl

/-- every step of the system strictly decreases the measure -/
theorem step_decreases (s s' : St) (h : Step s s') : mu s' < mu s := by
  obtain ⟨r, hr, hs⟩ := h
  simp only [rules, List.mem_cons, List.mem_nil_iff, or_false] at hr
  rcases hr with rfl | rfl | rfl | rfl | rfl | rfl | rfl | rfl | rfl | rfl | rfl | rfl | rfl | rfl | rfl
  · exact cStart_dec s s' hs
  · exact cGreet_dec s s' hs
  · exact cRes_dec s s' hs
  · exact cTls_dec s s' hs
  · exact cMsgs_dec s s' hs
  · exact cItems_dec s s' hs
  · exact cLit_dec s s' hs
  · exact cCont_dec s s' hs
  · exact rTok_dec s s' hs
  · exact rResume_dec s s' hs
  · exact rFail_dec s s' hs
  · exact kClose_dec s s' hs
  · exact kRet_dec s s' hs
  · exact pFire_dec s s' hs
  · exact kFinal_dec s s' hs

end GoImap.ClientFaultLemmas
