/- C19 helper: `Flat.and` / `Crit.and` are intersection (proofs; restated as property theorems in Props/C19). -/
import GoImap.Lemmas.Search
namespace GoImap.SearchLemmas
open GoImap.Search

theorem flatMatches_and (a b : Flat) (m : Msg) (hs : 0 ≤ m.size) :
    flatMatches m (a.and b) = (flatMatches m a && flatMatches m b) := by
  simp only [flatMatches, Flat.and, List.all_append, matchBytes_append]
  rw [sent_and, larger_and _ _ _ hs, smaller_and, date_and]
  generalize (a.seqSets.all fun s => m.seq ≠ 0 && NumSet.contains s m.seq) = q1
  generalize (b.seqSets.all fun s => m.seq ≠ 0 && NumSet.contains s m.seq) = q2
  generalize (a.uidSets.all fun s => NumSet.contains s m.uid) = u1
  generalize (b.uidSets.all fun s => NumSet.contains s m.uid) = u2
  generalize matchDate m.day a.since a.before = d1
  generalize matchDate m.day b.since b.before = d2
  generalize (a.flags.all fun fl => m.flags.contains (lower fl)) = f1
  generalize (b.flags.all fun fl => m.flags.contains (lower fl)) = f2
  generalize (a.notFlags.all fun fl => !m.flags.contains (lower fl)) = n1
  generalize (b.notFlags.all fun fl => !m.flags.contains (lower fl)) = n2
  generalize okLarger a.larger m.size = l1
  generalize okLarger b.larger m.size = l2
  generalize okSmaller a.smaller m.size = s1
  generalize okSmaller b.smaller m.size = s2
  generalize matchBytes m.buf a.text = t1
  generalize matchBytes m.buf b.text = t2
  generalize (a.header.all (hdrMatch m)) = h1
  generalize (b.header.all (hdrMatch m)) = h2
  generalize sentOk m a.sentSince a.sentBefore = e1
  generalize sentOk m b.sentSince b.sentBefore = e2
  generalize matchBytes m.body a.body = y1
  generalize matchBytes m.body b.body = y2
  cases q1 <;> cases q2 <;> simp <;> cases u1 <;> cases u2 <;> simp <;> cases d1 <;> cases d2 <;> simp <;>
    cases f1 <;> cases f2 <;> simp <;> cases n1 <;> cases n2 <;> simp <;> cases l1 <;> cases l2 <;> simp <;>
    cases s1 <;> cases s2 <;> simp <;> cases t1 <;> cases t2 <;> simp <;> cases h1 <;> cases h2 <;> simp <;>
    cases e1 <;> cases e2 <;> simp

theorem matchesC_and (a b : Crit) (m : Msg) (hs : 0 ≤ m.size) :
    matchesC m (a.and b) = (matchesC m a && matchesC m b) := by
  obtain ⟨fa, na, oa⟩ := a
  obtain ⟨fb, nb, ob⟩ := b
  simp only [Crit.and, matchesC, flatMatches_and _ _ _ hs, noneMatch_append, allOr_append]
  generalize flatMatches m fa = x1
  generalize flatMatches m fb = x2
  generalize noneMatch m na = y1
  generalize noneMatch m nb = y2
  generalize allOr m oa = z1
  generalize allOr m ob = z2
  cases x1 <;> cases x2 <;> cases y1 <;> cases y2 <;> cases z1 <;> cases z2 <;> rfl

end GoImap.SearchLemmas
