/-
  C08 helper lemmas, part 13: the check point of the harness — NOOP, then UID FETCH 1:* (UID) — labels
  every announced slot, and the announced view is then literally the mailbox's UID list.
-/
import GoImap.Lemmas.ViewsSpecFacts
namespace GoImap.ViewsLemmas
open GoImap.Tracker GoImap.TrackerSpec GoImap.TrackerLemmas GoImap.Views GoImap.ViewsSpec

/-- a FETCH that marks nothing \Seen leaves the state alone: its responses are a function of the state -/
theorem fetchLoop_pure {st : Views.St} {m c : Nat} {b : MBox} (wf : Bool) (hb : getMb st m = some b) :
    ∀ (items : List (Nat × Msg)), fetchLoop {} st m c wf false items = some (st, items.filterMap fun im =>
      if b.enc c im.1 = 0 then none else some (Ev.fetch (b.enc c im.1) im.2.uid (if wf then some im.2.flags else none)))
  | [] => rfl
  | (i, msg) :: rest => by
    have ih := fetchLoop_pure (c := c) wf hb rest
    by_cases he : b.enc c i = 0
    · simp only [fetchLoop, hb, he, decide_true, Bool.not_false, Bool.and_true, if_true, List.filterMap_cons]
      exact ih
    · simp only [fetchLoop, hb, he, decide_false, Bool.false_and, Bool.false_eq_true, if_false, ih,
        List.filterMap_cons]

/-- FETCH responses for positions `s, s+1, …` carrying the right UIDs label the slots one after the other -/
theorem label_all : ∀ (msgs : List Msg) (A : View) (ids : List Id) (pre : View) (s : Nat), ViewRel A ids →
    msgs.map (·.uid) = ids.map (· + 1) → pre.length + 1 = s →
    applyEvs false true (pre ++ A) ((indexed msgs s).map fun im => Ev.fetch im.1 im.2.uid none) =
      .ok (pre ++ msgs.map fun x => some x.uid)
  | [], [], [], pre, s, _, _, _ => by simp [indexed, applyEvs]
  | msg :: msgs, a :: A, id :: ids, pre, s, hv, hu, hs => by
    simp only [List.map_cons, List.cons.injEq] at hu
    obtain ⟨hu1, hu2⟩ := hu
    have hr : inRange (pre ++ a :: A) s = true := by
      simp only [inRange, Bool.and_eq_true, decide_eq_true_eq, List.length_append, List.length_cons]
      omega
    have hget : (pre ++ a :: A)[s - 1]? = some a := by
      have : s - 1 = pre.length := by omega
      rw [this, List.getElem?_append_right (Nat.le_refl _)]
      simp
    have hstep : applyEv false true (pre ++ a :: A) (Ev.fetch s msg.uid none) = .ok (pre ++ some msg.uid :: A) := by
      simp only [applyEv, hr, Bool.not_true, Bool.false_eq_true, if_false, hget]
      rcases hv.1 with rfl | rfl
      · simp only
        have : s - 1 = pre.length := by omega
        rw [this]
        congr 1
        simp
      · simp only
        rw [hu1]
    have ih := label_all msgs A ids (pre ++ [some msg.uid]) (s + 1) hv.2 hu2 (by simp; omega)
    simp only [indexed, List.map_cons, applyEvs, hstep]
    have e1 : pre ++ some msg.uid :: A = (pre ++ [some msg.uid]) ++ A := by simp
    rw [e1, ih]
    simp
  | [], _ :: _, _, _, _, hv, hu, _ => by
    cases hv' : ‹List Id› with
    | nil => rw [hv'] at hv; exact hv.elim
    | cons i is => rw [hv'] at hu; simp at hu
  | _ :: _, [], ids, _, _, hv, hu, _ => by
    cases ids with
    | nil => simp at hu
    | cons i is => exact hv.elim
  | _ :: _, _ :: _, [], _, _, hv, _, _ => hv.elim
  | [], [], _ :: _, _, _, hv, _, _ => hv.elim

/-- with the ghost session synchronised (view = mailbox) EncodeSeqNum is the identity on 1..n -/
theorem enc_synced {b : MBox} {g : GSt} (h : MbInv b g) {gs : GSess} (hm : gs ∈ g.sess) (hv : gs.view = g.mbox)
    {i : Nat} (h1 : 1 ≤ i) (h2 : i ≤ g.mbox.length) : b.enc gs.id i = i := by
  rw [enc_spec h hm h1 h2, hv]
  exact posOf_getElem h.inv.nodup h1 h2

/-- UID 1:* selects every message -/
theorem selectMsgs_all {b : MBox} {g : GSt} (h : MbInv b g) (c : Nat) :
    selectMsgs b c true [(1, 0)] = indexed b.msgs 1 := by
  simp only [selectMsgs, if_true]
  apply List.filter_eq_self.mpr
  intro im him
  obtain ⟨i, msg⟩ := im
  obtain ⟨_, hget⟩ := mem_indexed him
  obtain ⟨hid, hu1⟩ := msg_uid h hget
  have hfresh : msg.uid - 1 < g.next := h.inv.fresh _ (List.mem_of_getElem? hid)
  have hn := h.next
  simp only [inSet, List.any_cons, List.any_nil, Bool.or_false, staticRange]
  have h0 : ¬ (1 : Nat) = 0 := by omega
  simp only [h0, if_false, if_true, decide_false, decide_true, Bool.false_or, Bool.true_and]
  have hle : ¬ (1 > b.uidNext - 1) := by omega
  simp only [hle, decide_false, Bool.false_eq_true, if_false, Bool.and_eq_true, decide_eq_true_eq]
  omega

theorem filterMap_eq_map_of {α β} {f : α → Option β} {g : α → β} : ∀ {l : List α}, (∀ x ∈ l, f x = some (g x)) →
    l.filterMap f = l.map g
  | [], _ => rfl
  | x :: l, h => by
    simp only [List.filterMap_cons, h x List.mem_cons_self, List.map_cons]
    rw [filterMap_eq_map_of (fun y hy => h y (List.mem_cons_of_mem _ hy))]

/-- a poll of a synchronised session (nothing pending) sends nothing -/
theorem poll_synced {b : MBox} {g : GSt} (h : MbInv b g) {gs : GSess} (hm : gs ∈ g.sess) (hp : gs.pending = [])
    {t : Tracker.St} {out : List Upd} (hst : step b.tr (.poll gs.id true) = some (t, out)) : out = [] := by
  obtain ⟨q1, v1, t', hd1, hst', _, _⟩ := gstep_poll h hm true
  rw [hst] at hst'
  simp only [Option.some.injEq, Prod.mk.injEq] at hst'
  rw [hst'.2]
  simp only [hp, dueOf, if_true, deliverAll_nil, Option.some.injEq, Prod.mk.injEq] at hd1
  exact hd1.1.symm

/-- the check point: NOOP, then UID FETCH 1:* (UID) -/
theorem check_point {st : Views.St} {G : List GSt} {A : List View} (hG : GInv st G A) {c : Nat} {cn : Conn}
    (hc : st.conns[c]? = some cn) (hi : cn.idle = false) {m : Nat} (hs : cn.sel = some m) :
    ∃ Ac1 Ac2 b, stepView .other (exec {} st c .noop).2 (A.getD c []) = .ok Ac1 ∧
      stepView .other (exec {} (exec {} st c .noop).1 c (.fetch true [(1, 0)] false false)).2 Ac1 = .ok Ac2 ∧
      (exec {} (exec {} st c .noop).1 c (.fetch true [(1, 0)] false false)).1.mb[m]? = some b ∧
      Ac2 = b.msgs.map fun x => some x.uid := by
  have hc' : getConn st c = some cn := hc
  -- NOOP
  obtain ⟨r, hr⟩ := pollConn_some_of_ginv hG c true
  obtain ⟨st1, evs1⟩ := r
  have hex1 : exec {} st c .noop = (st1, Views.ok evs1) := by simp only [exec, exec?, hc', hi, hr]
  obtain ⟨G1, Ac1, hacc1, h1, hsync⟩ := ginv_poll hG hr false true (by intro hh; cases hh)
  obtain ⟨g1, gs1, hg1, hgs1, hid1, hview1, hpend1, hv1⟩ := hsync rfl cn m hc hs
  -- the state after the NOOP, explicitly
  rcases pollConn_some hr with ⟨_, _, hnone⟩ | ⟨cn0, m0, b0, t0, out0, hc0, hsel0, hb0, _, _, hst1⟩
  · rw [hnone cn hc'] at hs; cases hs
  rw [hc'] at hc0
  cases hc0
  rw [hs] at hsel0
  cases hsel0
  have hclt : c < st.conns.length := (List.getElem?_eq_some_iff.mp hc).1
  have hmlt : m < st.mb.length := (List.getElem?_eq_some_iff.mp hb0).1
  have hcn1 : getConn st1 c = some { cn with pay := (render out0 cn.pay).2 } := by
    rw [hst1]; simp only [getConn, setConn]; exact List.getElem?_set_self hclt
  have hb1 : getMb st1 m = some { b0 with tr := t0 } := by
    rw [hst1]; simp only [getMb, setConn, setMb]; exact List.getElem?_set_self hmlt
  have hmb1 := h1.mb m _ g1 hb1 hg1
  -- UID FETCH 1:* (UID)
  have hsel : selectMsgs { b0 with tr := t0 } c true [(1, 0)] = indexed b0.msgs 1 := selectMsgs_all hmb1 c
  have hlen1 := msgs_length hmb1
  have hevs : (indexed b0.msgs 1).filterMap (fun im =>
      if ({ b0 with tr := t0 } : MBox).enc c im.1 = 0 then none
      else some (Ev.fetch (({ b0 with tr := t0 } : MBox).enc c im.1) im.2.uid (if false then some im.2.flags else none))) =
      (indexed b0.msgs 1).map fun im => Ev.fetch im.1 im.2.uid none := by
    apply filterMap_eq_map_of
    intro im him
    obtain ⟨i, msg⟩ := im
    obtain ⟨hi1, hget⟩ := mem_indexed him
    have hilt : i - 1 < b0.msgs.length := (List.getElem?_eq_some_iff.mp hget).1
    have he := enc_synced hmb1 hgs1 hview1 hi1 (by change b0.msgs.length = _ at hlen1; omega)
    rw [hid1] at he
    have hne : ¬ i = 0 := by omega
    simp only [he, hne, if_false, Bool.false_eq_true]
  have hloop := fetchLoop_pure (c := c) false hb1 (selectMsgs { b0 with tr := t0 } c true [(1, 0)])
  rw [hsel, hevs] at hloop
  obtain ⟨r2, hr2⟩ := pollConn_some_of_ginv h1 c true
  obtain ⟨st2, evs2⟩ := r2
  -- nothing is pending: the poll sends nothing and leaves the messages alone
  rcases pollConn_some hr2 with ⟨_, _, hnone2⟩ | ⟨cn2, m2, b2, t2, out2, hc2, hsel2, hb2, hstep2, hev2, hst2⟩
  · have := hnone2 _ hcn1
    rw [hs] at this; cases this
  rw [hcn1] at hc2
  cases hc2
  simp only at hsel2
  rw [hs] at hsel2
  cases hsel2
  rw [hb1] at hb2
  cases hb2
  have hout2 : out2 = [] := by
    rw [← hid1] at hstep2
    exact poll_synced hmb1 hgs1 hpend1 hstep2
  subst hout2
  have hev2' : evs2 = [] := by rw [hev2]; rfl
  subst hev2'
  have hex2 : exec {} st1 c (.fetch true [(1, 0)] false false) =
      (st2, Views.ok (((indexed b0.msgs 1).map fun im => Ev.fetch im.1 im.2.uid none) ++ [])) := by
    simp only [exec, exec?, hcn1, hi, needsSelected, if_true, hs, hb1, execSelected, hsel, hloop, hr2]
  have hlab := label_all b0.msgs Ac1 g1.mbox [] 1 hv1 hmb1.uids rfl
  simp only [List.nil_append] at hlab
  refine ⟨Ac1, b0.msgs.map fun x => some x.uid, { b0 with tr := t2 }, ?_, ?_, ?_, rfl⟩
  · rw [hex1]; simpa [stepView, Views.ok, afterResp] using hacc1
  · rw [hex1, hex2]
    simpa [stepView, Views.ok, afterResp] using hlab
  · rw [hex1, hex2, hst2]
    simp only [setConn, setMb]
    exact List.getElem?_set_self (by rw [hst1]; simpa [setConn, setMb] using hmlt)

end GoImap.ViewsLemmas
