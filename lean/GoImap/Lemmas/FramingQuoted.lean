import GoImap.Lemmas.FramingLine
/-
  C04, class (ii): arguments that are atoms or quoted strings. The quote phase of the line has to be
  carried through what the server consumed: every primitive outside a quoted string consumes
  octets other than DQUOTE (`Clean`), Decoder.Quoted consumes one whole quoted string (`quotedGo_line`).
-/
namespace GoImap.Framing
open GoImap.FramingSpec (noEol)

/-- s' is s after a prefix without DQUOTE was consumed (whatever else changed) -/
def Clean (s s' : S) : Prop := ∃ c, s.inp = c ++ s'.inp ∧ 34 ∉ c

theorem Clean.refl (s : S) : Clean s s := ⟨[], by simp, by simp⟩

theorem Clean.of_inp {s s' : S} (h : s'.inp = s.inp) : Clean s s' := ⟨[], by simp [h], by simp⟩

theorem Clean.trans {s s' s'' : S} (h1 : Clean s s') (h2 : Clean s' s'') : Clean s s'' := by
  obtain ⟨c1, e1, n1⟩ := h1
  obtain ⟨c2, e2, n2⟩ := h2
  exact ⟨c1 ++ c2, by rw [e1, e2, List.append_assoc], by simp [n1, n2]⟩

theorem look_clean (s : S) : Clean s s.look.2 := by
  apply Clean.of_inp
  unfold S.look
  dsimp only
  split
  · simp
  · split <;> simp [S.sawEof, S.emit]

theorem accept_clean (s : S) (w : Nat) (hw : w ≠ 34) : Clean s (s.accept w).2 := by
  obtain ⟨inp, pos, err, lit, crlf, tail, ld, mute, st, evs, roles⟩ := s
  cases lit with
  | some x => exact Clean.of_inp (by simp [S.accept, S.look])
  | none =>
    cases inp with
    | nil => exact Clean.of_inp (by simp [S.accept, S.look, S.sawEof, S.emit])
    | cons b r =>
      by_cases hb : b = w
      · subst hb
        exact ⟨[b], by simp [S.accept, S.look, S.take], by simpa using hw.symm⟩
      · exact Clean.of_inp (by simp [S.accept, S.look, hb])

theorem drop_tw (v : Nat → Bool) (l : Bytes) :
    l.drop (min (l.takeWhile v).length l.length) = l.dropWhile v := by
  induction l with
  | nil => simp
  | cons a l ih =>
    by_cases h : v a = true
    · simp only [List.takeWhile_cons, List.dropWhile_cons, h, if_true, List.length_cons, Nat.succ_min_succ,
        List.drop_succ_cons]
      exact ih
    · simp [List.takeWhile_cons, List.dropWhile_cons, h]

theorem func_clean (s : S) (v : Nat → Bool) (hv : v 34 = false) : Clean s (s.func v).2 := by
  have key : (s.func v).2.inp = s.inp ∨ (s.func v).2.inp = s.inp.dropWhile v := by
    unfold S.func
    dsimp only
    split
    · left; simp
    · right
      split
      · simp [S.sawEof, S.emit, S.take, drop_tw]
      · split <;> simp [S.take, drop_tw]
  rcases key with h | h
  · exact Clean.of_inp h
  · refine ⟨s.inp.takeWhile v, by rw [h, List.takeWhile_append_dropWhile], fun hm => ?_⟩
    have := mem_takeWhile_true v _ _ hm
    simp [hv] at this

theorem sp_clean (s : S) : Clean s s.sp.2 := by
  unfold S.sp
  have h1 := accept_clean s 32 (by decide)
  generalize s.accept 32 = p at h1 ⊢
  obtain ⟨b, s1⟩ := p
  have h2 := look_clean s1
  cases b <;> dsimp only <;> generalize s1.look = q at h2 ⊢ <;> obtain ⟨r, s2⟩ := q <;> cases r <;>
    exact h1.trans h2

theorem expectSP_clean (s : S) : Clean s s.expectSP.2 := by
  unfold S.expectSP S.expect
  dsimp only
  split
  · exact sp_clean s
  · exact (sp_clean s).trans (Clean.of_inp (by simp))

theorem expectAtom_clean (s : S) : Clean s s.expectAtom.2 := by
  unfold S.expectAtom
  have h1 := func_clean s isAtomChar (by decide)
  generalize s.func isAtomChar = p at h1 ⊢
  obtain ⟨r, s1⟩ := p
  cases r
  · exact h1.trans (Clean.of_inp (by simp))
  · exact h1

theorem uidName_clean (s : S) : Clean s (uidName s).2 := by
  unfold uidName
  have h1 := expectSP_clean s
  generalize s.expectSP = p at h1 ⊢
  obtain ⟨b, s1⟩ := p
  cases b
  · exact h1
  dsimp only
  have h2 := expectAtom_clean s1
  generalize s1.expectAtom = q at h2 ⊢
  obtain ⟨r, s2⟩ := q
  cases r <;> exact h1.trans h2

theorem cmdHeader_clean (s : S) : Clean s (cmdHeader s).2 := by
  unfold cmdHeader
  have h1 := expectAtom_clean s
  generalize s.expectAtom = p at h1 ⊢
  obtain ⟨r, s1⟩ := p
  cases r
  · exact h1
  dsimp only
  split
  · exact h1.trans (Clean.of_inp (by simp))
  have h2 := expectSP_clean s1
  generalize s1.expectSP = q at h2 ⊢
  obtain ⟨b, s2⟩ := q
  cases b
  · exact h1.trans h2
  dsimp only
  have h3 := expectAtom_clean s2
  generalize s2.expectAtom = q at h3 ⊢
  obtain ⟨r, s3⟩ := q
  cases r
  · exact (h1.trans h2).trans h3
  dsimp only
  split
  · have h4 := uidName_clean s3
    generalize uidName s3 = q at h4 ⊢
    obtain ⟨r, s4⟩ := q
    cases r <;> exact ((h1.trans h2).trans h3).trans h4
  · exact (h1.trans h2).trans h3

theorem clean_adv {s s' : S} {c : Bytes} (a : Adv s s' c) (h : Clean s s') : 34 ∉ c := by
  obtain ⟨c', e, n⟩ := h
  have := a.inp
  rw [e] at this
  have := List.append_cancel_right this
  rw [← this]; exact n

theorem quotePhase_clean (c tx : Bytes) (h : 34 ∉ c) :
    FramingSpec.quotePhase false (c ++ tx) = FramingSpec.quotePhase false tx := by
  induction c with
  | nil => rfl
  | cons a c ih =>
    have ha : a ≠ 34 := fun e => h (by simp [e])
    have hc : 34 ∉ c := fun e => h (by simp [e])
    simp only [List.cons_append, FramingSpec.quotePhase]
    have : (a == 34) = false := by simp [ha]
    rw [this]; exact ih hc

/-- Decoder.Quoted on a line whose quoted string ends on the line: it reads exactly that string -/
theorem quotedGo_line (X : Bytes) : ∀ (t1 acc : Bytes) (k : Nat), FramingSpec.quotePhase true t1 = false →
    ∃ v n, quotedGo (t1 ++ X) acc k = some (v, k + n) ∧ 0 < n ∧ n ≤ t1.length ∧
      FramingSpec.quotePhase false (t1.drop n) = false
  | [], acc, k, h => by simp [FramingSpec.quotePhase] at h
  | c :: r, acc, k, h => by
    by_cases h34 : c = 34
    · subst h34
      refine ⟨acc.reverse, 1, by rw [List.cons_append, quotedGo.eq_def]; simp, by omega, by simp, ?_⟩
      simpa [FramingSpec.quotePhase] using h
    · by_cases h92 : c = 92
      · subst h92
        match r, h with
        | [], h => simp [FramingSpec.quotePhase] at h
        | e :: r', h =>
          have h' : FramingSpec.quotePhase true r' = false := by simpa [FramingSpec.quotePhase] using h
          obtain ⟨v, n, hq, hn, hle, hp⟩ := quotedGo_line X r' (e :: acc) (k + 2) h'
          refine ⟨v, n + 2, ?_, by omega, by simp; omega, ?_⟩
          · rw [List.cons_append, List.cons_append, quotedGo.eq_def]; simp [hq]; omega
          · simpa using hp
      · have h' : FramingSpec.quotePhase true r = false := by
          have hb : (c != 34) = true := by simp [h34]
          rw [FramingSpec.quotePhase] at h
          · rw [hb] at h; exact h
          · intro _ _ e; exact absurd e h92
          · intro e; exact absurd e h92
        obtain ⟨v, n, hq, hn, hle, hp⟩ := quotedGo_line X r (c :: acc) (k + 1) h'
        refine ⟨v, n + 1, ?_, by omega, by simp; omega, ?_⟩
        · rw [List.cons_append, quotedGo.eq_def]; simp [h34, h92, hq]; omega
        · simpa using hp

/-- the server is at `t` CRLF `rest`, no literal open, outside a quoted string; every quoted string of
    `t` ends in `t`, and `t` has no "{" -/
structure AtQ (t rest : Bytes) (s : S) : Prop where
  inp : s.inp = t ++ 13 :: 10 :: rest
  eol : noEol t
  q : FramingSpec.quotePhase false t = false
  b : 123 ∉ t
  lit : s.lit = none

theorem AtQ.adv {t rest c tx : Bytes} {s s' : S} (h : AtQ t rest s) (htc : t = c ++ tx) (a : Adv s s' c)
    (hc : 34 ∉ c) : AtQ tx rest s' := by
  refine ⟨?_, (noEol_append (htc ▸ h.eol)).2, ?_, fun hb => h.b (by rw [htc]; simp [hb]), by rw [a.lit, h.lit]⟩
  · have := a.inp
    rw [h.inp, htc, List.append_assoc] at this
    exact (List.append_cancel_left this).symm
  · rw [← quotePhase_clean c tx hc, ← htc]; exact h.q

theorem AtQ.upd {t rest : Bytes} {s s' : S} (h : AtQ t rest s) (hi : s'.inp = s.inp) (hl : s'.lit = s.lit) :
    AtQ t rest s' := ⟨by rw [hi, h.inp], h.eol, h.q, h.b, by rw [hl, h.lit]⟩

def StepQ (t rest : Bytes) (s s' : S) : Prop :=
  ∃ c tx, t = c ++ tx ∧ Adv s s' c ∧ AtQ tx rest s' ∧ s'.crlf = false

theorem expectSP_atq {t rest : Bytes} {s : S} (h : AtQ t rest s) : StepQ t rest s s.expectSP.2 := by
  obtain ⟨c, tx, htc, a⟩ := expectSP_onLine (rfl : s.expectSP = (s.expectSP.1, s.expectSP.2)) h.lit t rest h.inp h.eol
  exact ⟨c, tx, htc, a, h.adv htc a (clean_adv a (expectSP_clean s)), expectSP_crlf s⟩

theorem expectAtom_atq {t rest : Bytes} {s : S} (h : AtQ t rest s) : StepQ t rest s s.expectAtom.2 := by
  obtain ⟨c, tx, htc, a⟩ := expectAtom_onLine (rfl : s.expectAtom = (s.expectAtom.1, s.expectAtom.2)) h.lit t rest h.inp h.eol
  exact ⟨c, tx, htc, a, h.adv htc a (clean_adv a (expectAtom_clean s)), expectAtom_crlf s⟩

theorem hasCRLF_noEol (l : Bytes) (h : noEol l) : hasCRLF l = false := by
  unfold hasCRLF
  rw [List.any_eq_false]
  intro x hx
  have := h x hx
  simp [this.1, this.2]

/-- Decoder.Quoted at a DQUOTE: one whole quoted string of the line, nothing else -/
theorem quoted_atq {t1 rest : Bytes} {s : S} (h : AtQ (34 :: t1) rest s) :
    ∃ v s', s.quoted = (some v, s') ∧ StepQ (34 :: t1) rest s s' := by
  have hq1 : FramingSpec.quotePhase true t1 = false := by
    have := h.q
    simpa [FramingSpec.quotePhase] using this
  obtain ⟨v, n, hgo, hn, hle, hp⟩ := quotedGo_line (13 :: 10 :: rest) t1 [] 0 hq1
  have heol1 : noEol t1 := fun c hc => h.eol c (by simp [hc])
  have htake : List.take n (t1 ++ 13 :: 10 :: rest) = List.take n t1 := List.take_append_of_le_length hle
  have hdrop : List.drop n (t1 ++ 13 :: 10 :: rest) = List.drop n t1 ++ 13 :: 10 :: rest :=
    List.drop_append_of_le_length hle
  have hcr : hasCRLF (List.take n t1) = false :=
    hasCRLF_noEol _ (fun c hc => heol1 c (List.mem_of_mem_take hc))
  have hmin : min n (t1.length + (rest.length + 2)) = n := by omega
  obtain ⟨inp, pos, err, lit, crlf, tail, ld, mute, st, evs, roles⟩ := s
  have hi := h.inp
  have hl := h.lit
  simp only at hi hl
  subst hi hl
  have hx : S.quoted ⟨34 :: t1 ++ 13 :: 10 :: rest, pos, err, none, crlf, tail, ld, mute, st, evs, roles⟩ =
      (some v, ⟨List.drop n t1 ++ 13 :: 10 :: rest, pos + 1 + n, err, none, false, tail, ld, mute, st, evs,
        List.replicate n Role.text ++ (Role.text :: roles)⟩) := by
    simp [S.quoted, S.accept, S.look, S.take, hgo, htake, hdrop, hcr, hmin]
  refine ⟨v, _, hx, 34 :: List.take n t1, List.drop n t1, by simp, ?_, ?_, rfl⟩
  · refine ⟨?_, ?_, ?_, rfl, rfl, rfl, rfl, rfl⟩
    · simp; rw [← List.append_assoc, List.take_append_drop]
    · simp [Nat.min_eq_left hle]; omega
    · simp [Nat.min_eq_left hle, List.replicate_succ']
  · refine ⟨rfl, fun c hc => heol1 c (List.mem_of_mem_drop hc), hp, fun hb => h.b ?_, rfl⟩
    exact List.mem_cons_of_mem _ (List.mem_of_mem_drop hb)

/-- ExpectAString on such a line: a quoted string or an atom -/
theorem astring_atq (cfg : Cfg) {t rest : Bytes} {s : S} (h : AtQ t rest s) : StepQ t rest s (s.astring cfg).2 := by
  have atomCase : ∀ b r, s.inp = b :: r → b ≠ 34 → b ≠ 123 → StepQ t rest s (s.astring cfg).2 := by
    intro b r hi hq hb
    rw [astring_eq cfg s b r h.lit hi hq hb]
    have h0 : AtQ t rest ({ s with crlf := false } : S) := h.upd rfl rfl
    split
    · exact ⟨[], t, by simp, ⟨by simp, by simp, by simp, rfl, rfl, rfl, rfl, rfl⟩, h0, rfl⟩
    · obtain ⟨c, tx, htc, a, hat, hc⟩ := expectAtom_atq h0
      exact ⟨c, tx, htc, ⟨a.inp, a.pos, a.roles, a.lit, a.tail, a.st, a.evs, a.mute⟩, hat, hc⟩
  cases t with
  | nil => exact atomCase 13 _ h.inp (by decide) (by decide)
  | cons b t1 =>
    by_cases hq : b = 34
    · subst hq
      obtain ⟨v, s', hx, hs⟩ := quoted_atq h
      unfold S.astring
      rw [hx]
      exact hs
    · exact atomCase b _ h.inp hq (fun hb => h.b (by simp [hb]))

theorem mailbox_atq (cfg : Cfg) {t rest : Bytes} {s : S} (h : AtQ t rest s) : StepQ t rest s (s.mailbox cfg).2 := by
  unfold S.mailbox
  obtain ⟨c, tx, htc, a, hat, hc⟩ := astring_atq cfg h
  generalize s.astring cfg = p at a hat hc
  obtain ⟨v, s1⟩ := p
  cases v with
  | none => exact ⟨c, tx, htc, a, hat, hc⟩
  | some v =>
    dsimp only at a hat hc ⊢
    split
    · exact ⟨c, tx, htc, a, hat, hc⟩
    · refine ⟨c, tx, htc, ⟨by simp [a.inp], by simp [a.pos], by simp [a.roles], by simp [a.lit],
        by rw [← a.tail]; unfold S.fail; split <;> rfl, by rw [← a.st]; unfold S.fail; split <;> rfl,
        by simp [a.evs], by rw [← a.mute]; unfold S.fail; split <;> rfl⟩, hat.upd (by simp) (by simp), by simp [hc]⟩

/-! ### the handlers whose arguments are astrings -/

theorem hLogin_shapeQ (cfg : Cfg) (t0 rest : Bytes) (s0 : S) (h0 : AtQ t0 rest s0) (sp0 : NoTrailSP t0) :
    ShapeFrom rest t0 s0 (hLogin cfg s0).2 := by
  unfold hLogin
  have st := expectSP_atq h0
  generalize S.expectSP s0 = r at st ⊢
  obtain ⟨c, t1, htc, a, h1, hc⟩ := st
  obtain ⟨v, s1⟩ := r
  have sp1 : NoTrailSP t1 := (htc ▸ sp0).suffix
  cases v
  · exact shapeFrom_stop rest t0 c t1 s0 s1 htc a h1.inp h0.lit hc
  refine shapeFrom_trans rest t0 c t1 s0 s1 _ htc a ?_
  clear htc a hc c
  dsimp only
  have st := astring_atq cfg h1
  generalize S.astring cfg s1 = r at st ⊢
  obtain ⟨c, t2, htc, a, h2, hc⟩ := st
  obtain ⟨v, s2⟩ := r
  have sp2 : NoTrailSP t2 := (htc ▸ sp1).suffix
  cases v
  · exact shapeFrom_stop rest t1 c t2 s1 s2 htc a h2.inp h1.lit hc
  refine shapeFrom_trans rest t1 c t2 s1 s2 _ htc a ?_
  clear htc a hc c
  dsimp only
  have st := expectSP_atq h2
  generalize S.expectSP s2 = r at st ⊢
  obtain ⟨c, t3, htc, a, h3, hc⟩ := st
  obtain ⟨v, s3⟩ := r
  have sp3 : NoTrailSP t3 := (htc ▸ sp2).suffix
  cases v
  · exact shapeFrom_stop rest t2 c t3 s2 s3 htc a h3.inp h2.lit hc
  refine shapeFrom_trans rest t2 c t3 s2 s3 _ htc a ?_
  clear htc a hc c
  dsimp only
  have st := astring_atq cfg h3
  generalize S.astring cfg s3 = r at st ⊢
  obtain ⟨c, t4, htc, a, h4, hc⟩ := st
  obtain ⟨v, s4⟩ := r
  have sp4 : NoTrailSP t4 := (htc ▸ sp3).suffix
  cases v
  · exact shapeFrom_stop rest t3 c t4 s3 s4 htc a h4.inp h3.lit hc
  refine shapeFrom_trans rest t3 c t4 s3 s4 _ htc a ?_
  clear htc a hc c
  dsimp only
  rename_i u p
  exact noArgs_core (fun s => if s.st != .notAuth then (some .bad, s)
      else (none, { (s.emit (call .login [u, p])) with st := .auth }))
    (pure_of_events _ (fun s => by
      split
      · exact ⟨some .bad, [], s.st, rfl, rfl, by simp, by simp⟩
      · exact ⟨none, [call .login [u, p]], .auth, rfl, rfl, by simp [call], by simp [call]⟩))
    rest t4 _ h4.inp h4.eol h4.lit sp4

theorem oneMailbox_shapeQ (cfg : Cfg) (body : Bytes → S → Option Err × S) (hb : ∀ m, BodyPure (body m))
    (t0 rest : Bytes) (s0 : S) (h0 : AtQ t0 rest s0) (sp0 : NoTrailSP t0) :
    ShapeFrom rest t0 s0 (oneMailbox cfg s0 body).2 := by
  unfold oneMailbox
  have st := expectSP_atq h0
  generalize S.expectSP s0 = r at st ⊢
  obtain ⟨c, t1, htc, a, h1, hc⟩ := st
  obtain ⟨v, s1⟩ := r
  have sp1 : NoTrailSP t1 := (htc ▸ sp0).suffix
  cases v
  · exact shapeFrom_stop rest t0 c t1 s0 s1 htc a h1.inp h0.lit hc
  refine shapeFrom_trans rest t0 c t1 s0 s1 _ htc a ?_
  clear htc a hc c
  dsimp only
  have st := mailbox_atq cfg h1
  generalize S.mailbox cfg s1 = r at st ⊢
  obtain ⟨c, t2, htc, a, h2, hc⟩ := st
  obtain ⟨v, s2⟩ := r
  have sp2 : NoTrailSP t2 := (htc ▸ sp1).suffix
  cases v
  · exact shapeFrom_stop rest t1 c t2 s1 s2 htc a h2.inp h1.lit hc
  refine shapeFrom_trans rest t1 c t2 s1 s2 _ htc a ?_
  clear htc a hc c
  dsimp only
  rename_i m
  exact noArgs_core (body m) (hb m) rest t2 _ h2.inp h2.eol h2.lit sp2

theorem hSelect_shapeQ (cfg : Cfg) (ro : Bool) (t0 rest : Bytes) (s0 : S) (h0 : AtQ t0 rest s0)
    (sp0 : NoTrailSP t0) : ShapeFrom rest t0 s0 (hSelect cfg ro s0).2 := by
  unfold hSelect
  refine oneMailbox_shapeQ cfg _ (fun m => needAuth_pure _ (pure_of_events _ (fun s => ?_))) t0 rest s0 h0 sp0
  dsimp only
  split
  · exact ⟨none, [call .select [m, if ro then [49] else [48]], call .unselect], .selected, rfl, rfl,
      by simp [call], by simp [call]⟩
  · exact ⟨none, [call .select [m, if ro then [49] else [48]]], .selected, rfl, rfl, by simp [call], by simp [call]⟩

theorem hMailbox_shapeQ (cfg : Cfg) (fn : Fn) (t0 rest : Bytes) (s0 : S) (h0 : AtQ t0 rest s0)
    (sp0 : NoTrailSP t0) : ShapeFrom rest t0 s0 (hMailbox cfg fn s0).2 := by
  unfold hMailbox
  exact oneMailbox_shapeQ cfg _ (fun m => needAuth_pure _ (pure_of_events _ (fun s =>
    ⟨none, [call fn [m]], s.st, rfl, rfl, by simp [call], by simp [call]⟩))) t0 rest s0 h0 sp0

theorem hRename_shapeQ (cfg : Cfg) (t0 rest : Bytes) (s0 : S) (h0 : AtQ t0 rest s0) (sp0 : NoTrailSP t0) :
    ShapeFrom rest t0 s0 (hRename cfg s0).2 := by
  unfold hRename
  have st := expectSP_atq h0
  generalize S.expectSP s0 = r at st ⊢
  obtain ⟨c, t1, htc, a, h1, hc⟩ := st
  obtain ⟨v, s1⟩ := r
  have sp1 : NoTrailSP t1 := (htc ▸ sp0).suffix
  cases v
  · exact shapeFrom_stop rest t0 c t1 s0 s1 htc a h1.inp h0.lit hc
  refine shapeFrom_trans rest t0 c t1 s0 s1 _ htc a ?_
  clear htc a hc c
  dsimp only
  have st := mailbox_atq cfg h1
  generalize S.mailbox cfg s1 = r at st ⊢
  obtain ⟨c, t2, htc, a, h2, hc⟩ := st
  obtain ⟨v, s2⟩ := r
  have sp2 : NoTrailSP t2 := (htc ▸ sp1).suffix
  cases v
  · exact shapeFrom_stop rest t1 c t2 s1 s2 htc a h2.inp h1.lit hc
  refine shapeFrom_trans rest t1 c t2 s1 s2 _ htc a ?_
  clear htc a hc c
  dsimp only
  have st := expectSP_atq h2
  generalize S.expectSP s2 = r at st ⊢
  obtain ⟨c, t3, htc, a, h3, hc⟩ := st
  obtain ⟨v, s3⟩ := r
  have sp3 : NoTrailSP t3 := (htc ▸ sp2).suffix
  cases v
  · exact shapeFrom_stop rest t2 c t3 s2 s3 htc a h3.inp h2.lit hc
  refine shapeFrom_trans rest t2 c t3 s2 s3 _ htc a ?_
  clear htc a hc c
  dsimp only
  have st := mailbox_atq cfg h3
  generalize S.mailbox cfg s3 = r at st ⊢
  obtain ⟨c, t4, htc, a, h4, hc⟩ := st
  obtain ⟨v, s4⟩ := r
  have sp4 : NoTrailSP t4 := (htc ▸ sp3).suffix
  cases v
  · exact shapeFrom_stop rest t3 c t4 s3 s4 htc a h4.inp h3.lit hc
  refine shapeFrom_trans rest t3 c t4 s3 s4 _ htc a ?_
  clear htc a hc c
  dsimp only
  rename_i x y
  exact noArgs_core (fun s => needAuth s fun s => (none, s.emit (call .rename [x, y])))
    (needAuth_pure _ (pure_of_events _ (fun s =>
      ⟨none, [call .rename [x, y]], s.st, rfl, rfl, by simp [call], by simp [call]⟩)))
    rest t4 _ h4.inp h4.eol h4.lit sp4

/-- handlers that stay on a line whose quoted strings are closed and that has no "{" -/
def QuotedHandler (h : Handler) : Prop :=
  ∃ f, h = .run f ∧ ∀ t rest s, AtQ t rest s → NoTrailSP t → ShapeFrom rest t s (f s).2

theorem quoted_names (cfg : Cfg) (name : Bytes)
    (h : name ∈ [k_LOGIN, k_SELECT, k_EXAMINE, k_DELETE, k_SUBSCRIBE, k_UNSUBSCRIBE, k_RENAME]) :
    QuotedHandler (handlerOf cfg name) := by
  simp only [List.mem_cons, List.mem_nil_iff, or_false] at h
  rcases h with rfl | rfl | rfl | rfl | rfl | rfl | rfl
  · exact ⟨_, rfl, hLogin_shapeQ cfg⟩
  · exact ⟨_, rfl, hSelect_shapeQ cfg false⟩
  · exact ⟨_, rfl, hSelect_shapeQ cfg true⟩
  · exact ⟨_, rfl, hMailbox_shapeQ cfg .delete⟩
  · exact ⟨_, rfl, hMailbox_shapeQ cfg .subscribe⟩
  · exact ⟨_, rfl, hMailbox_shapeQ cfg .unsubscribe⟩
  · exact ⟨_, rfl, hRename_shapeQ cfg⟩

/-- class (ii): LOGIN, SELECT, EXAMINE, DELETE, SUBSCRIBE, UNSUBSCRIBE, RENAME whose arguments are atoms or
    quoted strings: a strict line (its quoted strings end on the line) without "{" -/
theorem quoted_command_frame (cfg : Cfg) (hfix : cfg.fx.append = true) (s0 : S) (l rest : Bytes)
    (hi : s0.inp = l ++ 13 :: 10 :: rest) (hp : ∀ b ∈ l, 32 ≤ b ∧ b ≤ 126) (hsp : l.getLast? ≠ some 32)
    (hq : FramingSpec.quotePhase false l = false) (hbr : 123 ∉ l)
    (tag name : Bytes) (s2 : S) (hh : cmdHeader s0.reset = (some (tag, name), s2))
    (hna : QuotedHandler (handlerOf cfg name))
    (go : Nat → Bool) (hgo : go (s0.pos + l.length + 2) = false) (fuel : Nat) (f0 : FramingSpec.Frame) :
    let R := FramingSpec.frameLines go (fuel + 1) true s0.pos s0.inp f0
    ∃ s1 new cls, readCommand cfg s0 = (true, s1) ∧
      s1.evs = new ++ s0.evs ∧ new.filter isTagged = [Event.tagged tag cls] ∧ (∀ p, Event.cont p ∉ new) ∧
      R.1.tag = some tag ∧
      s1.roles = List.replicate (l.length + 2) Role.text ++ s0.roles ∧
      (f0.roles ++ List.replicate (l.length + 2) FramingSpec.Role.text <+: R.1.roles) ∧
      ((FramingSpec.litHeader l = none ∨ ∃ n, FramingSpec.litHeader l = some (n, false)) →
        s1.inp = R.2 ∧ R.1.roles = f0.roles ++ List.replicate (l.length + 2) FramingSpec.Role.text ∧
          s1.pos = s0.pos + (l.length + 2)) := by
  obtain ⟨f, hrun, hf⟩ := hna
  refine line_command_frame cfg hfix s0 l rest hi hp tag name s2 hh (by rw [hrun]; intro h; cases h)
    (runHandler name (handlerOf cfg name) s2).1 (runHandler name (handlerOf cfg name) s2).2.1
    (runHandler name (handlerOf cfg name) s2).2.2 rfl ?_ go hgo fuel f0
  intro t' hc hi2 ht' hl2 _
  obtain ⟨c, hct⟩ := hc
  have hcl : 34 ∉ c := by
    have hcl := cmdHeader_clean s0.reset
    rw [hh] at hcl
    obtain ⟨c', e, n⟩ := hcl
    have e0 : s0.reset.inp = s0.inp := rfl
    rw [e0, hi, hct, hi2, List.append_assoc] at e
    have := List.append_cancel_right e
    rw [this]; exact n
  have hat : AtQ t' rest (s2.emit (.dispatch name)) :=
    ⟨hi2, ht', by rw [← quotePhase_clean c t' hcl, ← hct]; exact hq, fun h => hbr (by rw [hct]; simp [h]), hl2⟩
  have hs := shape_of_from name rest t' s2 _ (hf t' rest _ hat
    (fun hne => by rw [← getLast_suffix c t' hne, ← hct]; exact hsp))
  rw [hrun]
  unfold runHandler
  exact hs

end GoImap.Framing
