import GoImap.Lemmas.ClientConcOnce
/-!
  C13: `close(cmd.done)` and the close of a FETCH command's message stream happen at most once per
  command (invariants of every step of every variant).

  Same shape as `Once` (ClientConcOnce): the instruction `closeDone c` (resp. `closeMsgs c`) is
  created when `c` is taken out of `pendingCmds` and consumed by its own execution, which increments
  `closed` (resp. `streamClosed`).
-/
namespace GoImap.ClientConc

/-! ### (A) `closeDone c` and the counter `closed` -/

def isCD (c : Nat) : Instr → Bool
  | .closeDone d => d == c
  | _ => false

def cds (c : Nat) (p : List Instr) : Nat := p.countP (isCD c)

@[simp] theorem cds_nil (c : Nat) : cds c [] = 0 := rfl

theorem cds_cons (c : Nat) (i : Instr) (p : List Instr) :
    cds c (i :: p) = cds c p + (if isCD c i then 1 else 0) := by
  unfold cds; rw [List.countP_cons]

theorem cds_append (c : Nat) (p q : List Instr) : cds c (p ++ q) = cds c p + cds c q := by
  unfold cds; rw [List.countP_append]

theorem cds_dropThrough_le (c : Nat) (f : Instr → Bool) (p : List Instr) :
    cds c (dropThrough f p) ≤ cds c p := by
  induction p with
  | nil => exact Nat.le_refl _
  | cons i p ih =>
    rw [dropThrough, cds_cons]
    split
    · exact Nat.le_add_right _ _
    · exact Nat.le_trans ih (Nat.le_add_right _ _)

theorem cds_pos_of_mem (c : Nat) (p : List Instr) (hm : Instr.closeDone c ∈ p) : 1 ≤ cds c p := by
  unfold cds
  exact List.countP_pos_iff.mpr ⟨_, hm, by simp [isCD]⟩

structure OnceCD (s : St) : Prop where
  unreg : ∀ c, (s.cmd c).registered = false → (s.cmd c).closed = 0 ∧ ∀ t, cds c (s.prog t) = 0
  pend : ∀ c, c ∈ s.pending → (s.cmd c).closed = 0 ∧ ∀ t, cds c (s.prog t) = 0
  tok : ∀ c t, 1 ≤ cds c (s.prog t) →
    (s.cmd c).closed = 0 ∧ cds c (s.prog t) = 1 ∧ ∀ u, u ≠ t → cds c (s.prog u) = 0
  le : ∀ c, (s.cmd c).closed ≤ 1

/-- `s'` differs from `s` only by programs that lost instructions or gained `closeDone`-free ones -/
structure ShrinksCD (s s' : St) : Prop where
  pending : s'.pending = s.pending
  reg : ∀ c, (s'.cmd c).registered = (s.cmd c).registered
  cnt : ∀ c, (s'.cmd c).closed = (s.cmd c).closed
  le : ∀ c u, cds c (s'.prog u) ≤ cds c (s.prog u)

theorem ShrinksCD.refl (s : St) : ShrinksCD s s :=
  ⟨rfl, fun _ => rfl, fun _ => rfl, fun _ _ => Nat.le_refl _⟩

theorem onceCD_of_shrinks {s s' : St} (h : OnceCD s) (sh : ShrinksCD s s') : OnceCD s' := by
  constructor
  · intro c hc
    rw [sh.reg] at hc
    obtain ⟨h2, h3⟩ := h.unreg c hc
    refine ⟨by rw [sh.cnt]; exact h2, fun t => ?_⟩
    have := sh.le c t
    rw [h3 t] at this
    exact Nat.le_zero.mp this
  · intro c hc
    rw [sh.pending] at hc
    obtain ⟨h1, h2⟩ := h.pend c hc
    refine ⟨by rw [sh.cnt]; exact h1, fun t => ?_⟩
    have := sh.le c t
    rw [h2 t] at this
    exact Nat.le_zero.mp this
  · intro c t ht
    have hle := sh.le c t
    obtain ⟨h1, h2, h3⟩ := h.tok c t (Nat.le_trans ht hle)
    refine ⟨by rw [sh.cnt]; exact h1, by omega, fun u hu => ?_⟩
    have := sh.le c u
    rw [h3 u hu] at this
    exact Nat.le_zero.mp this
  · intro c; rw [sh.cnt]; exact h.le c

theorem shrinksCD_of (s s' : St) (t : Nat)
    (hp : s'.pending = s.pending)
    (hc : ∀ c, (s'.cmd c).registered = (s.cmd c).registered ∧ (s'.cmd c).closed = (s.cmd c).closed)
    (hprog : ∀ u, u ≠ t → s'.prog u = s.prog u)
    (ht : ∀ c, cds c (s'.prog t) ≤ cds c (s.prog t)) : ShrinksCD s s' := by
  refine ⟨hp, fun c => (hc c).1, fun c => (hc c).2, fun c u => ?_⟩
  by_cases hu : u = t
  · rw [hu]; exact ht c
  · rw [hprog u hu]; exact Nat.le_refl _

theorem cds_handler (c : Nat) (l : Line) : cds c (handler l) = 0 := by
  cases l <;> rfl

/-- the instructions whose step may create or consume `closeDone`, or touch pendingCmds -/
def specialCD : Instr → Bool
  | .register _ | .closeSwap | .delByTag .. | .closeDone _ | .idleGo _ | .srv _ => true
  | _ => false

theorem exec_shrinksCD (v : Variant) (s : St) (t : Nat) (i : Instr) (rest : List Instr)
    (hs : s.prog t = i :: rest) (hb : specialCD i = false) : ShrinksCD s (exec v s t i rest) := by
  have hrest : ∀ c, cds c rest ≤ cds c (s.prog t) := by
    intro c; rw [hs, cds_cons]; exact Nat.le_add_right _ _
  cases i
  case register | closeSwap | delByTag | closeDone | idleGo | srv => simp [specialCD] at hb
  case cancelConts c r =>
    simp only [exec]
    refine shrinksCD_of s _ t ?_ (fun d => ?_) (fun u hu => ?_) (fun d => ?_)
    · rw [setProg_pending, updCmd_pending, (foldl_setCont2_eq _ _ _).2.1]
    · simp only [setProg_cmd, updCmd_cmd, (foldl_setCont2_eq _ _ _).1]
      split <;> exact ⟨rfl, rfl⟩
    · rw [setProg_prog, if_neg hu, updCmd_prog, (foldl_setCont2_eq _ _ _).2.2]
    · rw [setProg_prog, if_pos rfl]; exact hrest d
  case cancelOrphans ks =>
    simp only [exec]
    refine shrinksCD_of s _ t ?_ (fun d => ?_) (fun u hu => ?_) (fun d => ?_)
    · rw [setProg_pending, (foldl_setCont_eq _ _).2.1]
    · rw [setProg_cmd, (foldl_setCont_eq _ _).1]; exact ⟨rfl, rfl⟩
    · rw [setProg_prog, if_neg hu, (foldl_setCont_eq _ _).2.2]
    · rw [setProg_prog, if_pos rfl]; exact hrest d
  all_goals simp only [exec, flushBody]
  all_goals repeat' split
  all_goals
    first
      | exact ShrinksCD.refl s
      | exact ⟨rfl, fun _ => rfl, fun _ => rfl, fun _ _ => Nat.le_refl _⟩
      | (refine shrinksCD_of s _ t rfl
           (fun c => by
             first
               | exact ⟨rfl, rfl⟩
               | (dsimp only [St.setProg, St.updCmd, St.closeConn, St.setCont]; constructor <;> (split <;> rfl)))
           (fun u hu => by simp [setProg_prog, hu]) (fun c => ?_)
         simp only [setProg_prog, if_true]
         first
           | exact hrest c
           | (have h1 := hrest c
              have h2 := cds_dropThrough_le c isFinalFlush rest
              have h3 := cds_dropThrough_le c isOpEnd rest
              try simp only [cds_cons, isCD, cds_append, cds_handler, cds_nil, readerExit, Bool.false_eq_true,
                ↓reduceIte, Nat.add_zero]
              omega))

theorem cds_complete_le (d : Nat) (k : Kind) (c : Nat) (r : Res) :
    cds d (complete k c r) ≤ if c = d then 1 else 0 := by
  unfold complete
  cases k <;> cases r <;> simp [cds, isCD, List.countP_cons, List.countP_nil]

theorem cds_completions_le (d : Nat) (kind : Nat → Kind) (r : Res) (l : List Nat) :
    cds d (l.flatMap fun c => complete (kind c) c r) ≤ l.count d := by
  induction l with
  | nil => exact Nat.le_refl _
  | cons c l ih =>
    rw [List.flatMap_cons, cds_append, List.count_cons]
    have h1 := cds_complete_le d (kind c) c r
    by_cases h : c = d
    · rw [if_pos h] at h1
      have e : (c == d) = true := by simp [h]
      simp only [e, if_true]; omega
    · rw [if_neg h] at h1
      have e : (c == d) = false := by simp [h]
      simp only [e, Bool.false_eq_true, if_false]; omega

/-- commands `l` leave pendingCmds (what remains is `pending'`) and thread `t` receives at most one
    `closeDone` for each of them, in a program that otherwise has no more of them than before -/
theorem onceCD_take {s s' : St} (ho : Once s) (h : OnceCD s) (t : Nat) (l : List Nat)
    (hl : l.Nodup) (hlp : ∀ d, d ∈ l → d ∈ s.pending)
    (hp' : ∀ d, d ∈ s'.pending → d ∈ s.pending ∧ d ∉ l)
    (hreg : ∀ c, (s'.cmd c).registered = (s.cmd c).registered)
    (hcnt : ∀ c, (s'.cmd c).closed = (s.cmd c).closed)
    (hprog : ∀ u, u ≠ t → s'.prog u = s.prog u)
    (ht : ∀ d, ∃ x y, x ≤ cds d (s.prog t) ∧ y ≤ l.count d ∧ cds d (s'.prog t) = y + x) : OnceCD s' := by
  have hcount : ∀ d, l.count d ≤ 1 := fun d => List.nodup_iff_count.mp hl d
  constructor
  · intro d hd
    rw [hreg] at hd
    obtain ⟨h2, h3⟩ := h.unreg d hd
    have h1 := (ho.unreg d hd).1
    refine ⟨by rw [hcnt]; exact h2, fun u => ?_⟩
    by_cases hu : u = t
    · obtain ⟨x, y, hx, hy, e⟩ := ht d
      rw [hu, e]
      have : l.count d = 0 := List.count_eq_zero.mpr (fun hm => h1 (hlp d hm))
      have := h3 t
      omega
    · rw [hprog u hu]; exact h3 u
  · intro d hd
    obtain ⟨hm, hnl⟩ := hp' d hd
    obtain ⟨h1, h2⟩ := h.pend d hm
    refine ⟨by rw [hcnt]; exact h1, fun u => ?_⟩
    by_cases hu : u = t
    · obtain ⟨x, y, hx, hy, e⟩ := ht d
      rw [hu, e]
      have : l.count d = 0 := List.count_eq_zero.mpr hnl
      have := h2 t
      omega
    · rw [hprog u hu]; exact h2 u
  · intro d u hu1
    by_cases hu : u = t
    · subst hu
      obtain ⟨x, y, hx, hy, e⟩ := ht d
      by_cases hm : d ∈ l
      · obtain ⟨h1, h2⟩ := h.pend d (hlp d hm)
        have hc1 := hcount d
        have h0 := h2 u
        refine ⟨by rw [hcnt]; exact h1, by omega, fun w hw => ?_⟩
        rw [hprog w hw]; exact h2 w
      · have hc0 : l.count d = 0 := List.count_eq_zero.mpr hm
        have hold : 1 ≤ cds d (s.prog u) := by omega
        obtain ⟨h1, h2, h3⟩ := h.tok d u hold
        refine ⟨by rw [hcnt]; exact h1, by omega, fun w hw => ?_⟩
        rw [hprog w hw]; exact h3 w hw
    · rw [hprog u hu] at hu1 ⊢
      obtain ⟨h1, h2, h3⟩ := h.tok d u hu1
      refine ⟨by rw [hcnt]; exact h1, h2, fun w hw => ?_⟩
      by_cases hwt : w = t
      · subst hwt
        obtain ⟨x, y, hx, hy, e⟩ := ht d
        rw [e]
        have h0 := h3 w hw
        have : l.count d = 0 := by
          apply List.count_eq_zero.mpr
          intro hm
          have := (h.pend d (hlp d hm)).2 u
          omega
        omega
      · rw [hprog w hwt]; exact h3 w hw
  · intro c; rw [hcnt]; exact h.le c

theorem onceCD_register {v : Variant} {s : St} (h : OnceCD s) (t c : Nat) (rest : List Instr)
    (hs : s.prog t = .register c :: rest) : OnceCD (exec v s t (.register c) rest) := by
  simp only [exec]
  split
  · exact h
  · rename_i hr
    have hr' : (s.cmd c).registered = false := by
      simp only [Bool.or_eq_true, not_or, Bool.not_eq_true] at hr; exact hr.2
    obtain ⟨u2, u3⟩ := h.unreg c hr'
    have hle : ∀ d u, cds d (if u = t then rest else s.prog u) ≤ cds d (s.prog u) := by
      intro d u
      split
      · rename_i hu; rw [hu, hs, cds_cons]; exact Nat.le_add_right _ _
      · exact Nat.le_refl _
    have hcnt : ∀ d, ((((({ s with cmdTag := s.cmdTag + 1, pending := s.pending ++ [c] } : St).updCmd c fun r =>
        { r with registered := true, ltag := s.cmdTag + 1, tag := if v.initFirst then s.cmdTag + 1 else r.tag,
                 chanInit := v.initFirst || r.chanInit }).setProg t rest).cmd d).closed) = (s.cmd d).closed := by
      intro d
      simp only [setProg_cmd, updCmd_cmd]
      split <;> rfl
    have hreg : ∀ d, d ≠ c → ((((({ s with cmdTag := s.cmdTag + 1, pending := s.pending ++ [c] } : St).updCmd c fun r =>
        { r with registered := true, ltag := s.cmdTag + 1, tag := if v.initFirst then s.cmdTag + 1 else r.tag,
                 chanInit := v.initFirst || r.chanInit }).setProg t rest).cmd d).registered) = (s.cmd d).registered := by
      intro d hd
      simp only [setProg_cmd, updCmd_cmd, if_neg hd]
    constructor
    · intro d hd
      by_cases hdc : d = c
      · subst hdc
        simp [setProg_cmd, updCmd_cmd] at hd
      · rw [hreg d hdc] at hd
        obtain ⟨a2, a3⟩ := h.unreg d hd
        refine ⟨by rw [hcnt]; exact a2, fun u => ?_⟩
        have := hle d u
        rw [a3 u] at this
        exact Nat.le_zero.mp this
    · intro d hd
      have hd' : d ∈ s.pending ++ [c] := hd
      rw [List.mem_append, List.mem_singleton] at hd'
      rcases hd' with hm | hm
      · obtain ⟨a1, a2⟩ := h.pend d hm
        refine ⟨by rw [hcnt]; exact a1, fun u => ?_⟩
        have := hle d u
        rw [a2 u] at this
        exact Nat.le_zero.mp this
      · subst hm
        refine ⟨by rw [hcnt]; exact u2, fun u => ?_⟩
        have := hle d u
        rw [u3 u] at this
        exact Nat.le_zero.mp this
    · intro d u hu
      have hle' := hle d u
      have hu' : 1 ≤ cds d (if u = t then rest else s.prog u) := hu
      obtain ⟨a1, a2, a3⟩ := h.tok d u (Nat.le_trans hu' hle')
      refine ⟨by rw [hcnt]; exact a1, ?_, fun w hw => ?_⟩
      · show cds d (if u = t then rest else s.prog u) = 1
        omega
      · have := hle d w
        rw [a3 w hw] at this
        exact Nat.le_zero.mp this
    · intro d; rw [hcnt]; exact h.le d

/-- the consuming instruction: the crash branch changes only `crashed` -/
theorem onceCD_closeDone {v : Variant} {s : St} (h : OnceCD s) (t c : Nat) (rest : List Instr)
    (hs : s.prog t = .closeDone c :: rest) : OnceCD (exec v s t (.closeDone c) rest) := by
  simp only [exec]
  split
  · exact onceCD_of_shrinks h ⟨rfl, fun _ => rfl, fun _ => rfl, fun _ _ => Nat.le_refl _⟩
  · -- the close happens
    have hc1 : 1 ≤ cds c (s.prog t) := by
      rw [hs, cds_cons]; simp [isCD]
    obtain ⟨a1, a2, a3⟩ := h.tok c t hc1
    have hrest0 : cds c rest = 0 := by
      rw [hs, cds_cons] at a2; simp [isCD] at a2; exact a2
    have hreg : (s.cmd c).registered = true := by
      cases hr : (s.cmd c).registered
      · have := (h.unreg c hr).2 t; omega
      · rfl
    have hle : ∀ d u, cds d (if u = t then rest else s.prog u) ≤ cds d (s.prog u) := by
      intro d u
      split
      · rename_i hu; rw [hu, hs, cds_cons]; exact Nat.le_add_right _ _
      · exact Nat.le_refl _
    have hcnt : ∀ d, d ≠ c → (((s.updCmd c fun rc => { rc with closed := rc.closed + 1 }).setProg t rest).cmd d).closed = (s.cmd d).closed := by
      intro d hd; simp only [setProg_cmd, updCmd_cmd, if_neg hd]
    have hcntc : (((s.updCmd c fun rc => { rc with closed := rc.closed + 1 }).setProg t rest).cmd c).closed = 1 := by
      simp only [setProg_cmd, updCmd_cmd, if_true]; rw [a1]
    have hregs : ∀ d, (((s.updCmd c fun rc => { rc with closed := rc.closed + 1 }).setProg t rest).cmd d).registered = (s.cmd d).registered := by
      intro d; simp only [setProg_cmd, updCmd_cmd]; split <;> rfl
    have hnoc : ∀ u, cds c (if u = t then rest else s.prog u) = 0 := by
      intro u; split
      · exact hrest0
      · rename_i hu; exact a3 u hu
    constructor
    · intro d hd
      rw [hregs] at hd
      have hdc : d ≠ c := by intro e; rw [e, hreg] at hd; cases hd
      obtain ⟨b2, b3⟩ := h.unreg d hd
      refine ⟨by rw [hcnt d hdc]; exact b2, fun u => ?_⟩
      have := hle d u
      rw [b3 u] at this
      exact Nat.le_zero.mp this
    · intro d hd
      obtain ⟨b1, b2⟩ := h.pend d hd
      have hdc : d ≠ c := by intro e; rw [e] at b2; have := b2 t; omega
      refine ⟨by rw [hcnt d hdc]; exact b1, fun u => ?_⟩
      have := hle d u
      rw [b2 u] at this
      exact Nat.le_zero.mp this
    · intro d u hu
      have hu' : 1 ≤ cds d (if u = t then rest else s.prog u) := hu
      have hdc : d ≠ c := by intro e; rw [e, hnoc u] at hu'; omega
      have hle' := hle d u
      obtain ⟨b1, b2, b3⟩ := h.tok d u (Nat.le_trans hu' hle')
      refine ⟨by rw [hcnt d hdc]; exact b1, ?_, fun w hw => ?_⟩
      · show cds d (if u = t then rest else s.prog u) = 1
        omega
      · have := hle d w
        rw [b3 w hw] at this
        exact Nat.le_zero.mp this
    · intro d
      by_cases hdc : d = c
      · rw [hdc, hcntc]; exact Nat.le_refl _
      · rw [hcnt d hdc]; exact h.le d

theorem onceCD_closeSwap {v : Variant} {s : St} (ho : Once s) (h : OnceCD s) (t : Nat) (rest : List Instr)
    (hs : s.prog t = .closeSwap :: rest) : OnceCD (exec v s t .closeSwap rest) := by
  have hrest : ∀ d, cds d rest ≤ cds d (s.prog t) := by
    intro d; rw [hs, cds_cons]; exact Nat.le_add_right _ _
  simp only [exec]
  split
  · refine onceCD_take ho h t s.pending ho.nodup (fun _ hd => hd) (fun d hd => by cases hd)
      (fun _ => rfl) (fun _ => rfl) (fun u hu => by simp [setProg_prog, hu])
      (fun d => ⟨cds d rest, _, hrest d, cds_completions_le d (fun c => (s.cmd c).kind) .err s.pending, ?_⟩)
    rw [setProg_prog, if_pos rfl, cds_append, cds_cons]
    simp [isCD]
  · refine onceCD_take ho h t s.pending ho.nodup (fun _ hd => hd) (fun d hd => by cases hd)
      (fun _ => rfl) (fun _ => rfl) (fun u hu => by simp [setProg_prog, hu])
      (fun d => ⟨cds d rest, _, hrest d, cds_completions_le d (fun c => (s.cmd c).kind) .err s.pending, ?_⟩)
    rw [setProg_prog, if_pos rfl, cds_append]

theorem onceCD_delByTag {v : Variant} {s : St} (ho : Once s) (h : OnceCD s) (t tag : Nat) (rep : Reply)
    (caps : Bool) (rest : List Instr) (hs : s.prog t = .delByTag tag rep caps :: rest) :
    OnceCD (exec v s t (.delByTag tag rep caps) rest) := by
  have hrest : ∀ d, cds d rest ≤ cds d (s.prog t) := by
    intro d; rw [hs, cds_cons]; exact Nat.le_add_right _ _
  simp only [exec]
  split
  · refine onceCD_of_shrinks h (shrinksCD_of s _ t rfl (fun _ => ⟨rfl, rfl⟩) (fun u hu => by simp [setProg_prog, hu]) (fun d => ?_))
    rw [setProg_prog, if_pos rfl]
    exact Nat.zero_le _
  · rename_i c hc
    have hm : c ∈ s.pending := firstWithTag_mem s tag s.pending c hc
    refine onceCD_take ho h t [c] (by simp) (fun d hd => by rw [List.mem_singleton] at hd; rw [hd]; exact hm)
      (fun d hd => ?_) (fun _ => rfl) (fun _ => rfl)
      (fun u hu => by simp [setProg_prog, hu])
      (fun d => ⟨cds d rest, cds d (complete (s.cmd c).kind c (resOfReply rep)), hrest d, ?_, ?_⟩)
    · have hd' : d ∈ s.pending.erase c := hd
      rw [ho.nodup.mem_erase_iff] at hd'
      exact ⟨hd'.2, by simp [hd'.1]⟩
    · rw [List.count_singleton]
      have := cds_complete_le d (s.cmd c).kind c (resOfReply rep)
      by_cases e : c = d
      · subst e; simpa using this
      · have e' : ¬ d = c := fun x => e x.symm
        simpa [e, e'] using this
    · rw [setProg_prog, if_pos rfl, cds_append, cds_append]
      have : cds d (if caps = true then [Instr.setCaps] else []) = 0 := by split <;> rfl
      rw [this, Nat.zero_add]

theorem onceCD_idleGo {v : Variant} {s : St} (h : OnceCD s) (t c : Nat) (rest : List Instr)
    (hs : s.prog t = .idleGo c :: rest) : OnceCD (exec v s t (.idleGo c) rest) := by
  simp only [exec]
  split
  · exact h
  refine onceCD_of_shrinks h ⟨rfl, fun _ => rfl, fun _ => rfl, fun d u => ?_⟩
  simp only [setProg_prog]
  split
  · exact Nat.zero_le _
  · split
    · rename_i hu; rw [hu, hs, cds_cons]; exact Nat.le_add_right _ _
    · exact Nat.le_refl _

theorem onceCD_srv {v : Variant} {s : St} (h : OnceCD s) (t : Nat) (a : SrvAct) (rest : List Instr)
    (hs : s.prog t = .srv a :: rest) : OnceCD (exec v s t (.srv a) rest) := by
  have hrest : ∀ d, cds d rest ≤ cds d (s.prog t) := by
    intro d; rw [hs, cds_cons]; exact Nat.le_add_right _ _
  simp only [exec]
  split
  · exact h
  · cases a <;> simp only [execSrv]
    case reply rep oldest =>
      split
      · exact h
      · refine onceCD_of_shrinks h (shrinksCD_of s _ t ?_ (fun d => ?_) (fun u hu => ?_) (fun d => ?_))
        · exact (deliver_frame s _).1
        · show ((deliver s _).cmd d).registered = _ ∧ _
          rw [(deliver_frame s _).2.1]; exact ⟨rfl, rfl⟩
        · rw [setProg_prog, if_neg hu]; show (deliver s _).prog u = _; rw [(deliver_frame s _).2.2]
        · rw [setProg_prog, if_pos rfl]; exact hrest d
    case cont =>
      split
      · exact h
      · refine onceCD_of_shrinks h (shrinksCD_of s _ t ?_ (fun d => ?_) (fun u hu => ?_) (fun d => ?_))
        · exact (deliver_frame s _).1
        · show ((deliver s _).cmd d).registered = _ ∧ _
          rw [(deliver_frame s _).2.1]; exact ⟨rfl, rfl⟩
        · rw [setProg_prog, if_neg hu]; show (deliver s _).prog u = _; rw [(deliver_frame s _).2.2]
        · rw [setProg_prog, if_pos rfl]; exact hrest d
    case enabled =>
      refine onceCD_of_shrinks h (shrinksCD_of s _ t ?_ (fun d => ?_) (fun u hu => ?_) (fun d => ?_))
      · rw [setProg_pending]; exact (deliver_frame s _).1
      · rw [setProg_cmd, (deliver_frame s _).2.1]; exact ⟨rfl, rfl⟩
      · rw [setProg_prog, if_neg hu, (deliver_frame s _).2.2]
      · rw [setProg_prog, if_pos rfl]; exact hrest d
    case close =>
      exact onceCD_of_shrinks h (shrinksCD_of s _ t rfl (fun _ => ⟨rfl, rfl⟩) (fun u hu => by simp [setProg_prog, hu])
        (fun d => by rw [setProg_prog, if_pos rfl]; exact hrest d))
    case rerr =>
      exact onceCD_of_shrinks h (shrinksCD_of s _ t rfl (fun _ => ⟨rfl, rfl⟩) (fun u hu => by simp [setProg_prog, hu])
        (fun d => by rw [setProg_prog, if_pos rfl]; exact hrest d))

theorem onceCD_skipCaps {s : St} (h : OnceCD s) (t : Nat) : OnceCD (skipCaps s t) := by
  unfold skipCaps
  split
  · rename_i record rest hs
    split
    · refine onceCD_of_shrinks h (shrinksCD_of s _ t ?_ (fun _ => ?_) (fun u hu => ?_) (fun d => ?_))
      · split <;> rfl
      · split <;> exact ⟨rfl, rfl⟩
      · rw [setProg_prog, if_neg hu]; split <;> rfl
      · rw [setProg_prog, if_pos rfl, hs, cds_cons, cds_cons]; omega
    · exact h
  · exact h

theorem onceCD_step (v : Variant) (s : St) (t : Nat) (ho : Once s) (h : OnceCD s) : OnceCD (step v s t) := by
  unfold step
  split
  · exact h
  · split
    · split
      · exact onceCD_skipCaps h _
      · exact h
    · split
      · exact h
      · split
        · exact h
        · rename_i i rest hs
          cases hi : specialCD i
          · exact onceCD_of_shrinks h (exec_shrinksCD v s t i rest hs hi)
          · cases i <;> simp [specialCD] at hi
            · exact onceCD_register h t _ rest hs
            · exact onceCD_idleGo h t _ rest hs
            · exact onceCD_closeSwap ho h t rest hs
            · exact onceCD_closeDone h t _ rest hs
            · exact onceCD_delByTag ho h t _ _ _ rest hs
            · exact onceCD_srv h t _ rest hs

theorem onceCD_run' (v : Variant) (sched : List Nat) (s : St) (ho : Once s) (h : OnceCD s) :
    OnceCD (run v s sched) := by
  induction sched generalizing s with
  | nil => exact h
  | cons t ts ih => exact ih (step v s t) (once_step v s t ho) (onceCD_step v s t ho h)

theorem cds_map_srv (c : Nat) (l : List SrvAct) : cds c (l.map Instr.srv) = 0 := by
  induction l with
  | nil => rfl
  | cons a l ih => rw [List.map_cons, cds_cons, ih]; rfl

theorem cds_closerProg (c n : Nat) : cds c (closerProg n) = 0 := by
  induction n with
  | zero => rfl
  | succ n ih => rw [closerProg, cds_cons, cds_cons, ih]; rfl

theorem cds_obsProg (c : Nat) (l : List Nat) : cds c (obsProg l) = 0 := by
  induction l with
  | nil => rfl
  | cons a l ih =>
    match a with
    | 0 => rw [obsProg, cds_cons, ih]; rfl
    | 1 => rw [obsProg, cds_cons, ih]; rfl
    | (n + 2) => rw [obsProg, cds_cons, cds_cons, ih]; rfl
                 all_goals omega

theorem cds_opProg (c : Nat) (v : Variant) (k : Kind) (d : Nat) : cds c (opProg v k d) = 0 := by
  cases k <;> simp only [opProg] <;> (try split) <;> rfl

theorem cds_progOfKinds (c : Nat) (v : Variant) (ks : List Kind) (d : Nat) :
    cds c (progOfKinds v ks d) = 0 := by
  induction ks generalizing d with
  | nil => rfl
  | cons k ks ih => rw [progOfKinds, cds_append, cds_opProg, ih]

theorem cds_init (c : Nat) (v : Variant) (sc : Scenario) (t : Nat) : cds c ((init v sc).prog t) = 0 := by
  simp only [init]
  split
  · rfl
  · split
    · exact cds_map_srv c _
    · split
      · exact cds_closerProg c _
      · split
        · exact cds_obsProg c _
        · split
          · unfold subProg; split
            · rfl
            · exact cds_progOfKinds c v _ _
          · rfl

theorem onceCD_init (v : Variant) (sc : Scenario) : OnceCD (init v sc) := by
  constructor
  · intro c _; exact ⟨rfl, fun t => cds_init c v sc t⟩
  · intro c h; cases h
  · intro c t h; rw [cds_init] at h; omega
  · intro c; exact Nat.zero_le _

theorem onceCD_run (v : Variant) (sc : Scenario) (sched : List Nat) : OnceCD (run v (init v sc) sched) :=
  onceCD_run' v sched _ (once_init v sc) (onceCD_init v sc)

theorem cd_mem_closed (s : St) (h : OnceCD s) (t c : Nat) (hm : Instr.closeDone c ∈ s.prog t) :
    (s.cmd c).closed = 0 ∧ (s.cmd c).registered = true := by
  have h1 := cds_pos_of_mem c (s.prog t) hm
  refine ⟨(h.tok c t h1).1, ?_⟩
  cases hr : (s.cmd c).registered
  · have := (h.unreg c hr).2 t; omega
  · rfl

/-! ### (B) `closeMsgs c` and the counter `streamClosed` -/

def isCM (c : Nat) : Instr → Bool
  | .closeMsgs d => d == c
  | _ => false

def cms (c : Nat) (p : List Instr) : Nat := p.countP (isCM c)

@[simp] theorem cms_nil (c : Nat) : cms c [] = 0 := rfl

theorem cms_cons (c : Nat) (i : Instr) (p : List Instr) :
    cms c (i :: p) = cms c p + (if isCM c i then 1 else 0) := by
  unfold cms; rw [List.countP_cons]

theorem cms_append (c : Nat) (p q : List Instr) : cms c (p ++ q) = cms c p + cms c q := by
  unfold cms; rw [List.countP_append]

theorem cms_dropThrough_le (c : Nat) (f : Instr → Bool) (p : List Instr) :
    cms c (dropThrough f p) ≤ cms c p := by
  induction p with
  | nil => exact Nat.le_refl _
  | cons i p ih =>
    rw [dropThrough, cms_cons]
    split
    · exact Nat.le_add_right _ _
    · exact Nat.le_trans ih (Nat.le_add_right _ _)

theorem cms_pos_of_mem (c : Nat) (p : List Instr) (hm : Instr.closeMsgs c ∈ p) : 1 ≤ cms c p := by
  unfold cms
  exact List.countP_pos_iff.mpr ⟨_, hm, by simp [isCM]⟩

structure OnceCM (s : St) : Prop where
  unreg : ∀ c, (s.cmd c).registered = false → (s.cmd c).streamClosed = 0 ∧ ∀ t, cms c (s.prog t) = 0
  pend : ∀ c, c ∈ s.pending → (s.cmd c).streamClosed = 0 ∧ ∀ t, cms c (s.prog t) = 0
  tok : ∀ c t, 1 ≤ cms c (s.prog t) →
    (s.cmd c).streamClosed = 0 ∧ cms c (s.prog t) = 1 ∧ ∀ u, u ≠ t → cms c (s.prog u) = 0
  le : ∀ c, (s.cmd c).streamClosed ≤ 1

/-- `s'` differs from `s` only by programs that lost instructions or gained `closeMsgs`-free ones -/
structure ShrinksCM (s s' : St) : Prop where
  pending : s'.pending = s.pending
  reg : ∀ c, (s'.cmd c).registered = (s.cmd c).registered
  cnt : ∀ c, (s'.cmd c).streamClosed = (s.cmd c).streamClosed
  le : ∀ c u, cms c (s'.prog u) ≤ cms c (s.prog u)

theorem ShrinksCM.refl (s : St) : ShrinksCM s s :=
  ⟨rfl, fun _ => rfl, fun _ => rfl, fun _ _ => Nat.le_refl _⟩

theorem onceCM_of_shrinks {s s' : St} (h : OnceCM s) (sh : ShrinksCM s s') : OnceCM s' := by
  constructor
  · intro c hc
    rw [sh.reg] at hc
    obtain ⟨h2, h3⟩ := h.unreg c hc
    refine ⟨by rw [sh.cnt]; exact h2, fun t => ?_⟩
    have := sh.le c t
    rw [h3 t] at this
    exact Nat.le_zero.mp this
  · intro c hc
    rw [sh.pending] at hc
    obtain ⟨h1, h2⟩ := h.pend c hc
    refine ⟨by rw [sh.cnt]; exact h1, fun t => ?_⟩
    have := sh.le c t
    rw [h2 t] at this
    exact Nat.le_zero.mp this
  · intro c t ht
    have hle := sh.le c t
    obtain ⟨h1, h2, h3⟩ := h.tok c t (Nat.le_trans ht hle)
    refine ⟨by rw [sh.cnt]; exact h1, by omega, fun u hu => ?_⟩
    have := sh.le c u
    rw [h3 u hu] at this
    exact Nat.le_zero.mp this
  · intro c; rw [sh.cnt]; exact h.le c

theorem shrinksCM_of (s s' : St) (t : Nat)
    (hp : s'.pending = s.pending)
    (hc : ∀ c, (s'.cmd c).registered = (s.cmd c).registered ∧ (s'.cmd c).streamClosed = (s.cmd c).streamClosed)
    (hprog : ∀ u, u ≠ t → s'.prog u = s.prog u)
    (ht : ∀ c, cms c (s'.prog t) ≤ cms c (s.prog t)) : ShrinksCM s s' := by
  refine ⟨hp, fun c => (hc c).1, fun c => (hc c).2, fun c u => ?_⟩
  by_cases hu : u = t
  · rw [hu]; exact ht c
  · rw [hprog u hu]; exact Nat.le_refl _

theorem cms_handler (c : Nat) (l : Line) : cms c (handler l) = 0 := by
  cases l <;> rfl

/-- the instructions whose step may create or consume `closeMsgs`, or touch pendingCmds -/
def specialCM : Instr → Bool
  | .register _ | .closeSwap | .delByTag .. | .closeMsgs _ | .idleGo _ | .srv _ => true
  | _ => false

theorem exec_shrinksCM (v : Variant) (s : St) (t : Nat) (i : Instr) (rest : List Instr)
    (hs : s.prog t = i :: rest) (hb : specialCM i = false) : ShrinksCM s (exec v s t i rest) := by
  have hrest : ∀ c, cms c rest ≤ cms c (s.prog t) := by
    intro c; rw [hs, cms_cons]; exact Nat.le_add_right _ _
  cases i
  case register | closeSwap | delByTag | closeMsgs | idleGo | srv => simp [specialCM] at hb
  case cancelConts c r =>
    simp only [exec]
    refine shrinksCM_of s _ t ?_ (fun d => ?_) (fun u hu => ?_) (fun d => ?_)
    · rw [setProg_pending, updCmd_pending, (foldl_setCont2_eq _ _ _).2.1]
    · simp only [setProg_cmd, updCmd_cmd, (foldl_setCont2_eq _ _ _).1]
      split <;> exact ⟨rfl, rfl⟩
    · rw [setProg_prog, if_neg hu, updCmd_prog, (foldl_setCont2_eq _ _ _).2.2]
    · rw [setProg_prog, if_pos rfl]; exact hrest d
  case cancelOrphans ks =>
    simp only [exec]
    refine shrinksCM_of s _ t ?_ (fun d => ?_) (fun u hu => ?_) (fun d => ?_)
    · rw [setProg_pending, (foldl_setCont_eq _ _).2.1]
    · rw [setProg_cmd, (foldl_setCont_eq _ _).1]; exact ⟨rfl, rfl⟩
    · rw [setProg_prog, if_neg hu, (foldl_setCont_eq _ _).2.2]
    · rw [setProg_prog, if_pos rfl]; exact hrest d
  all_goals simp only [exec, flushBody]
  all_goals repeat' split
  all_goals
    first
      | exact ShrinksCM.refl s
      | exact ⟨rfl, fun _ => rfl, fun _ => rfl, fun _ _ => Nat.le_refl _⟩
      | (refine shrinksCM_of s _ t rfl
           (fun c => by
             first
               | exact ⟨rfl, rfl⟩
               | (dsimp only [St.setProg, St.updCmd, St.closeConn, St.setCont]; constructor <;> (split <;> rfl)))
           (fun u hu => by simp [setProg_prog, hu]) (fun c => ?_)
         simp only [setProg_prog, if_true]
         first
           | exact hrest c
           | (have h1 := hrest c
              have h2 := cms_dropThrough_le c isFinalFlush rest
              have h3 := cms_dropThrough_le c isOpEnd rest
              try simp only [cms_cons, isCM, cms_append, cms_handler, cms_nil, readerExit, Bool.false_eq_true,
                ↓reduceIte, Nat.add_zero]
              omega))

theorem cms_complete_le (d : Nat) (k : Kind) (c : Nat) (r : Res) :
    cms d (complete k c r) ≤ if c = d then 1 else 0 := by
  unfold complete
  cases k <;> cases r <;> simp [cms, isCM, List.countP_cons, List.countP_nil]

theorem cms_completions_le (d : Nat) (kind : Nat → Kind) (r : Res) (l : List Nat) :
    cms d (l.flatMap fun c => complete (kind c) c r) ≤ l.count d := by
  induction l with
  | nil => exact Nat.le_refl _
  | cons c l ih =>
    rw [List.flatMap_cons, cms_append, List.count_cons]
    have h1 := cms_complete_le d (kind c) c r
    by_cases h : c = d
    · rw [if_pos h] at h1
      have e : (c == d) = true := by simp [h]
      simp only [e, if_true]; omega
    · rw [if_neg h] at h1
      have e : (c == d) = false := by simp [h]
      simp only [e, Bool.false_eq_true, if_false]; omega

/-- commands `l` leave pendingCmds (what remains is `pending'`) and thread `t` receives at most one
    `closeMsgs` for each of them, in a program that otherwise has no more of them than before -/
theorem onceCM_take {s s' : St} (ho : Once s) (h : OnceCM s) (t : Nat) (l : List Nat)
    (hl : l.Nodup) (hlp : ∀ d, d ∈ l → d ∈ s.pending)
    (hp' : ∀ d, d ∈ s'.pending → d ∈ s.pending ∧ d ∉ l)
    (hreg : ∀ c, (s'.cmd c).registered = (s.cmd c).registered)
    (hcnt : ∀ c, (s'.cmd c).streamClosed = (s.cmd c).streamClosed)
    (hprog : ∀ u, u ≠ t → s'.prog u = s.prog u)
    (ht : ∀ d, ∃ x y, x ≤ cms d (s.prog t) ∧ y ≤ l.count d ∧ cms d (s'.prog t) = y + x) : OnceCM s' := by
  have hcount : ∀ d, l.count d ≤ 1 := fun d => List.nodup_iff_count.mp hl d
  constructor
  · intro d hd
    rw [hreg] at hd
    obtain ⟨h2, h3⟩ := h.unreg d hd
    have h1 := (ho.unreg d hd).1
    refine ⟨by rw [hcnt]; exact h2, fun u => ?_⟩
    by_cases hu : u = t
    · obtain ⟨x, y, hx, hy, e⟩ := ht d
      rw [hu, e]
      have : l.count d = 0 := List.count_eq_zero.mpr (fun hm => h1 (hlp d hm))
      have := h3 t
      omega
    · rw [hprog u hu]; exact h3 u
  · intro d hd
    obtain ⟨hm, hnl⟩ := hp' d hd
    obtain ⟨h1, h2⟩ := h.pend d hm
    refine ⟨by rw [hcnt]; exact h1, fun u => ?_⟩
    by_cases hu : u = t
    · obtain ⟨x, y, hx, hy, e⟩ := ht d
      rw [hu, e]
      have : l.count d = 0 := List.count_eq_zero.mpr hnl
      have := h2 t
      omega
    · rw [hprog u hu]; exact h2 u
  · intro d u hu1
    by_cases hu : u = t
    · subst hu
      obtain ⟨x, y, hx, hy, e⟩ := ht d
      by_cases hm : d ∈ l
      · obtain ⟨h1, h2⟩ := h.pend d (hlp d hm)
        have hc1 := hcount d
        have h0 := h2 u
        refine ⟨by rw [hcnt]; exact h1, by omega, fun w hw => ?_⟩
        rw [hprog w hw]; exact h2 w
      · have hc0 : l.count d = 0 := List.count_eq_zero.mpr hm
        have hold : 1 ≤ cms d (s.prog u) := by omega
        obtain ⟨h1, h2, h3⟩ := h.tok d u hold
        refine ⟨by rw [hcnt]; exact h1, by omega, fun w hw => ?_⟩
        rw [hprog w hw]; exact h3 w hw
    · rw [hprog u hu] at hu1 ⊢
      obtain ⟨h1, h2, h3⟩ := h.tok d u hu1
      refine ⟨by rw [hcnt]; exact h1, h2, fun w hw => ?_⟩
      by_cases hwt : w = t
      · subst hwt
        obtain ⟨x, y, hx, hy, e⟩ := ht d
        rw [e]
        have h0 := h3 w hw
        have : l.count d = 0 := by
          apply List.count_eq_zero.mpr
          intro hm
          have := (h.pend d (hlp d hm)).2 u
          omega
        omega
      · rw [hprog w hwt]; exact h3 w hw
  · intro c; rw [hcnt]; exact h.le c

theorem onceCM_register {v : Variant} {s : St} (h : OnceCM s) (t c : Nat) (rest : List Instr)
    (hs : s.prog t = .register c :: rest) : OnceCM (exec v s t (.register c) rest) := by
  simp only [exec]
  split
  · exact h
  · rename_i hr
    have hr' : (s.cmd c).registered = false := by
      simp only [Bool.or_eq_true, not_or, Bool.not_eq_true] at hr; exact hr.2
    obtain ⟨u2, u3⟩ := h.unreg c hr'
    have hle : ∀ d u, cms d (if u = t then rest else s.prog u) ≤ cms d (s.prog u) := by
      intro d u
      split
      · rename_i hu; rw [hu, hs, cms_cons]; exact Nat.le_add_right _ _
      · exact Nat.le_refl _
    have hcnt : ∀ d, ((((({ s with cmdTag := s.cmdTag + 1, pending := s.pending ++ [c] } : St).updCmd c fun r =>
        { r with registered := true, ltag := s.cmdTag + 1, tag := if v.initFirst then s.cmdTag + 1 else r.tag,
                 chanInit := v.initFirst || r.chanInit }).setProg t rest).cmd d).streamClosed) = (s.cmd d).streamClosed := by
      intro d
      simp only [setProg_cmd, updCmd_cmd]
      split <;> rfl
    have hreg : ∀ d, d ≠ c → ((((({ s with cmdTag := s.cmdTag + 1, pending := s.pending ++ [c] } : St).updCmd c fun r =>
        { r with registered := true, ltag := s.cmdTag + 1, tag := if v.initFirst then s.cmdTag + 1 else r.tag,
                 chanInit := v.initFirst || r.chanInit }).setProg t rest).cmd d).registered) = (s.cmd d).registered := by
      intro d hd
      simp only [setProg_cmd, updCmd_cmd, if_neg hd]
    constructor
    · intro d hd
      by_cases hdc : d = c
      · subst hdc
        simp [setProg_cmd, updCmd_cmd] at hd
      · rw [hreg d hdc] at hd
        obtain ⟨a2, a3⟩ := h.unreg d hd
        refine ⟨by rw [hcnt]; exact a2, fun u => ?_⟩
        have := hle d u
        rw [a3 u] at this
        exact Nat.le_zero.mp this
    · intro d hd
      have hd' : d ∈ s.pending ++ [c] := hd
      rw [List.mem_append, List.mem_singleton] at hd'
      rcases hd' with hm | hm
      · obtain ⟨a1, a2⟩ := h.pend d hm
        refine ⟨by rw [hcnt]; exact a1, fun u => ?_⟩
        have := hle d u
        rw [a2 u] at this
        exact Nat.le_zero.mp this
      · subst hm
        refine ⟨by rw [hcnt]; exact u2, fun u => ?_⟩
        have := hle d u
        rw [u3 u] at this
        exact Nat.le_zero.mp this
    · intro d u hu
      have hle' := hle d u
      have hu' : 1 ≤ cms d (if u = t then rest else s.prog u) := hu
      obtain ⟨a1, a2, a3⟩ := h.tok d u (Nat.le_trans hu' hle')
      refine ⟨by rw [hcnt]; exact a1, ?_, fun w hw => ?_⟩
      · show cms d (if u = t then rest else s.prog u) = 1
        omega
      · have := hle d w
        rw [a3 w hw] at this
        exact Nat.le_zero.mp this
    · intro d; rw [hcnt]; exact h.le d

/-- the consuming instruction: the crash branch changes only `crashed` -/
theorem onceCM_closeMsgs {v : Variant} {s : St} (h : OnceCM s) (t c : Nat) (rest : List Instr)
    (hs : s.prog t = .closeMsgs c :: rest) : OnceCM (exec v s t (.closeMsgs c) rest) := by
  simp only [exec]
  split
  · exact onceCM_of_shrinks h ⟨rfl, fun _ => rfl, fun _ => rfl, fun _ _ => Nat.le_refl _⟩
  · -- the close happens
    have hc1 : 1 ≤ cms c (s.prog t) := by
      rw [hs, cms_cons]; simp [isCM]
    obtain ⟨a1, a2, a3⟩ := h.tok c t hc1
    have hrest0 : cms c rest = 0 := by
      rw [hs, cms_cons] at a2; simp [isCM] at a2; exact a2
    have hreg : (s.cmd c).registered = true := by
      cases hr : (s.cmd c).registered
      · have := (h.unreg c hr).2 t; omega
      · rfl
    have hle : ∀ d u, cms d (if u = t then rest else s.prog u) ≤ cms d (s.prog u) := by
      intro d u
      split
      · rename_i hu; rw [hu, hs, cms_cons]; exact Nat.le_add_right _ _
      · exact Nat.le_refl _
    have hcnt : ∀ d, d ≠ c → (((s.updCmd c fun rc => { rc with streamClosed := rc.streamClosed + 1 }).setProg t rest).cmd d).streamClosed = (s.cmd d).streamClosed := by
      intro d hd; simp only [setProg_cmd, updCmd_cmd, if_neg hd]
    have hcntc : (((s.updCmd c fun rc => { rc with streamClosed := rc.streamClosed + 1 }).setProg t rest).cmd c).streamClosed = 1 := by
      simp only [setProg_cmd, updCmd_cmd, if_true]; rw [a1]
    have hregs : ∀ d, (((s.updCmd c fun rc => { rc with streamClosed := rc.streamClosed + 1 }).setProg t rest).cmd d).registered = (s.cmd d).registered := by
      intro d; simp only [setProg_cmd, updCmd_cmd]; split <;> rfl
    have hnoc : ∀ u, cms c (if u = t then rest else s.prog u) = 0 := by
      intro u; split
      · exact hrest0
      · rename_i hu; exact a3 u hu
    constructor
    · intro d hd
      rw [hregs] at hd
      have hdc : d ≠ c := by intro e; rw [e, hreg] at hd; cases hd
      obtain ⟨b2, b3⟩ := h.unreg d hd
      refine ⟨by rw [hcnt d hdc]; exact b2, fun u => ?_⟩
      have := hle d u
      rw [b3 u] at this
      exact Nat.le_zero.mp this
    · intro d hd
      obtain ⟨b1, b2⟩ := h.pend d hd
      have hdc : d ≠ c := by intro e; rw [e] at b2; have := b2 t; omega
      refine ⟨by rw [hcnt d hdc]; exact b1, fun u => ?_⟩
      have := hle d u
      rw [b2 u] at this
      exact Nat.le_zero.mp this
    · intro d u hu
      have hu' : 1 ≤ cms d (if u = t then rest else s.prog u) := hu
      have hdc : d ≠ c := by intro e; rw [e, hnoc u] at hu'; omega
      have hle' := hle d u
      obtain ⟨b1, b2, b3⟩ := h.tok d u (Nat.le_trans hu' hle')
      refine ⟨by rw [hcnt d hdc]; exact b1, ?_, fun w hw => ?_⟩
      · show cms d (if u = t then rest else s.prog u) = 1
        omega
      · have := hle d w
        rw [b3 w hw] at this
        exact Nat.le_zero.mp this
    · intro d
      by_cases hdc : d = c
      · rw [hdc, hcntc]; exact Nat.le_refl _
      · rw [hcnt d hdc]; exact h.le d

theorem onceCM_closeSwap {v : Variant} {s : St} (ho : Once s) (h : OnceCM s) (t : Nat) (rest : List Instr)
    (hs : s.prog t = .closeSwap :: rest) : OnceCM (exec v s t .closeSwap rest) := by
  have hrest : ∀ d, cms d rest ≤ cms d (s.prog t) := by
    intro d; rw [hs, cms_cons]; exact Nat.le_add_right _ _
  simp only [exec]
  split
  · refine onceCM_take ho h t s.pending ho.nodup (fun _ hd => hd) (fun d hd => by cases hd)
      (fun _ => rfl) (fun _ => rfl) (fun u hu => by simp [setProg_prog, hu])
      (fun d => ⟨cms d rest, _, hrest d, cms_completions_le d (fun c => (s.cmd c).kind) .err s.pending, ?_⟩)
    rw [setProg_prog, if_pos rfl, cms_append, cms_cons]
    simp [isCM]
  · refine onceCM_take ho h t s.pending ho.nodup (fun _ hd => hd) (fun d hd => by cases hd)
      (fun _ => rfl) (fun _ => rfl) (fun u hu => by simp [setProg_prog, hu])
      (fun d => ⟨cms d rest, _, hrest d, cms_completions_le d (fun c => (s.cmd c).kind) .err s.pending, ?_⟩)
    rw [setProg_prog, if_pos rfl, cms_append]

theorem onceCM_delByTag {v : Variant} {s : St} (ho : Once s) (h : OnceCM s) (t tag : Nat) (rep : Reply)
    (caps : Bool) (rest : List Instr) (hs : s.prog t = .delByTag tag rep caps :: rest) :
    OnceCM (exec v s t (.delByTag tag rep caps) rest) := by
  have hrest : ∀ d, cms d rest ≤ cms d (s.prog t) := by
    intro d; rw [hs, cms_cons]; exact Nat.le_add_right _ _
  simp only [exec]
  split
  · refine onceCM_of_shrinks h (shrinksCM_of s _ t rfl (fun _ => ⟨rfl, rfl⟩) (fun u hu => by simp [setProg_prog, hu]) (fun d => ?_))
    rw [setProg_prog, if_pos rfl]
    exact Nat.zero_le _
  · rename_i c hc
    have hm : c ∈ s.pending := firstWithTag_mem s tag s.pending c hc
    refine onceCM_take ho h t [c] (by simp) (fun d hd => by rw [List.mem_singleton] at hd; rw [hd]; exact hm)
      (fun d hd => ?_) (fun _ => rfl) (fun _ => rfl)
      (fun u hu => by simp [setProg_prog, hu])
      (fun d => ⟨cms d rest, cms d (complete (s.cmd c).kind c (resOfReply rep)), hrest d, ?_, ?_⟩)
    · have hd' : d ∈ s.pending.erase c := hd
      rw [ho.nodup.mem_erase_iff] at hd'
      exact ⟨hd'.2, by simp [hd'.1]⟩
    · rw [List.count_singleton]
      have := cms_complete_le d (s.cmd c).kind c (resOfReply rep)
      by_cases e : c = d
      · subst e; simpa using this
      · have e' : ¬ d = c := fun x => e x.symm
        simpa [e, e'] using this
    · rw [setProg_prog, if_pos rfl, cms_append, cms_append]
      have : cms d (if caps = true then [Instr.setCaps] else []) = 0 := by split <;> rfl
      rw [this, Nat.zero_add]

theorem onceCM_idleGo {v : Variant} {s : St} (h : OnceCM s) (t c : Nat) (rest : List Instr)
    (hs : s.prog t = .idleGo c :: rest) : OnceCM (exec v s t (.idleGo c) rest) := by
  simp only [exec]
  split
  · exact h
  refine onceCM_of_shrinks h ⟨rfl, fun _ => rfl, fun _ => rfl, fun d u => ?_⟩
  simp only [setProg_prog]
  split
  · exact Nat.zero_le _
  · split
    · rename_i hu; rw [hu, hs, cms_cons]; exact Nat.le_add_right _ _
    · exact Nat.le_refl _

theorem onceCM_srv {v : Variant} {s : St} (h : OnceCM s) (t : Nat) (a : SrvAct) (rest : List Instr)
    (hs : s.prog t = .srv a :: rest) : OnceCM (exec v s t (.srv a) rest) := by
  have hrest : ∀ d, cms d rest ≤ cms d (s.prog t) := by
    intro d; rw [hs, cms_cons]; exact Nat.le_add_right _ _
  simp only [exec]
  split
  · exact h
  · cases a <;> simp only [execSrv]
    case reply rep oldest =>
      split
      · exact h
      · refine onceCM_of_shrinks h (shrinksCM_of s _ t ?_ (fun d => ?_) (fun u hu => ?_) (fun d => ?_))
        · exact (deliver_frame s _).1
        · show ((deliver s _).cmd d).registered = _ ∧ _
          rw [(deliver_frame s _).2.1]; exact ⟨rfl, rfl⟩
        · rw [setProg_prog, if_neg hu]; show (deliver s _).prog u = _; rw [(deliver_frame s _).2.2]
        · rw [setProg_prog, if_pos rfl]; exact hrest d
    case cont =>
      split
      · exact h
      · refine onceCM_of_shrinks h (shrinksCM_of s _ t ?_ (fun d => ?_) (fun u hu => ?_) (fun d => ?_))
        · exact (deliver_frame s _).1
        · show ((deliver s _).cmd d).registered = _ ∧ _
          rw [(deliver_frame s _).2.1]; exact ⟨rfl, rfl⟩
        · rw [setProg_prog, if_neg hu]; show (deliver s _).prog u = _; rw [(deliver_frame s _).2.2]
        · rw [setProg_prog, if_pos rfl]; exact hrest d
    case enabled =>
      refine onceCM_of_shrinks h (shrinksCM_of s _ t ?_ (fun d => ?_) (fun u hu => ?_) (fun d => ?_))
      · rw [setProg_pending]; exact (deliver_frame s _).1
      · rw [setProg_cmd, (deliver_frame s _).2.1]; exact ⟨rfl, rfl⟩
      · rw [setProg_prog, if_neg hu, (deliver_frame s _).2.2]
      · rw [setProg_prog, if_pos rfl]; exact hrest d
    case close =>
      exact onceCM_of_shrinks h (shrinksCM_of s _ t rfl (fun _ => ⟨rfl, rfl⟩) (fun u hu => by simp [setProg_prog, hu])
        (fun d => by rw [setProg_prog, if_pos rfl]; exact hrest d))
    case rerr =>
      exact onceCM_of_shrinks h (shrinksCM_of s _ t rfl (fun _ => ⟨rfl, rfl⟩) (fun u hu => by simp [setProg_prog, hu])
        (fun d => by rw [setProg_prog, if_pos rfl]; exact hrest d))

theorem onceCM_skipCaps {s : St} (h : OnceCM s) (t : Nat) : OnceCM (skipCaps s t) := by
  unfold skipCaps
  split
  · rename_i record rest hs
    split
    · refine onceCM_of_shrinks h (shrinksCM_of s _ t ?_ (fun _ => ?_) (fun u hu => ?_) (fun d => ?_))
      · split <;> rfl
      · split <;> exact ⟨rfl, rfl⟩
      · rw [setProg_prog, if_neg hu]; split <;> rfl
      · rw [setProg_prog, if_pos rfl, hs, cms_cons, cms_cons]; omega
    · exact h
  · exact h

theorem onceCM_step (v : Variant) (s : St) (t : Nat) (ho : Once s) (h : OnceCM s) : OnceCM (step v s t) := by
  unfold step
  split
  · exact h
  · split
    · split
      · exact onceCM_skipCaps h _
      · exact h
    · split
      · exact h
      · split
        · exact h
        · rename_i i rest hs
          cases hi : specialCM i
          · exact onceCM_of_shrinks h (exec_shrinksCM v s t i rest hs hi)
          · cases i <;> simp [specialCM] at hi
            · exact onceCM_register h t _ rest hs
            · exact onceCM_idleGo h t _ rest hs
            · exact onceCM_closeSwap ho h t rest hs
            · exact onceCM_closeMsgs h t _ rest hs
            · exact onceCM_delByTag ho h t _ _ _ rest hs
            · exact onceCM_srv h t _ rest hs

theorem onceCM_run' (v : Variant) (sched : List Nat) (s : St) (ho : Once s) (h : OnceCM s) :
    OnceCM (run v s sched) := by
  induction sched generalizing s with
  | nil => exact h
  | cons t ts ih => exact ih (step v s t) (once_step v s t ho) (onceCM_step v s t ho h)

theorem cms_map_srv (c : Nat) (l : List SrvAct) : cms c (l.map Instr.srv) = 0 := by
  induction l with
  | nil => rfl
  | cons a l ih => rw [List.map_cons, cms_cons, ih]; rfl

theorem cms_closerProg (c n : Nat) : cms c (closerProg n) = 0 := by
  induction n with
  | zero => rfl
  | succ n ih => rw [closerProg, cms_cons, cms_cons, ih]; rfl

theorem cms_obsProg (c : Nat) (l : List Nat) : cms c (obsProg l) = 0 := by
  induction l with
  | nil => rfl
  | cons a l ih =>
    match a with
    | 0 => rw [obsProg, cms_cons, ih]; rfl
    | 1 => rw [obsProg, cms_cons, ih]; rfl
    | (n + 2) => rw [obsProg, cms_cons, cms_cons, ih]; rfl
                 all_goals omega

theorem cms_opProg (c : Nat) (v : Variant) (k : Kind) (d : Nat) : cms c (opProg v k d) = 0 := by
  cases k <;> simp only [opProg] <;> (try split) <;> rfl

theorem cms_progOfKinds (c : Nat) (v : Variant) (ks : List Kind) (d : Nat) :
    cms c (progOfKinds v ks d) = 0 := by
  induction ks generalizing d with
  | nil => rfl
  | cons k ks ih => rw [progOfKinds, cms_append, cms_opProg, ih]

theorem cms_init (c : Nat) (v : Variant) (sc : Scenario) (t : Nat) : cms c ((init v sc).prog t) = 0 := by
  simp only [init]
  split
  · rfl
  · split
    · exact cms_map_srv c _
    · split
      · exact cms_closerProg c _
      · split
        · exact cms_obsProg c _
        · split
          · unfold subProg; split
            · rfl
            · exact cms_progOfKinds c v _ _
          · rfl

theorem onceCM_init (v : Variant) (sc : Scenario) : OnceCM (init v sc) := by
  constructor
  · intro c _; exact ⟨rfl, fun t => cms_init c v sc t⟩
  · intro c h; cases h
  · intro c t h; rw [cms_init] at h; omega
  · intro c; exact Nat.zero_le _

theorem onceCM_run (v : Variant) (sc : Scenario) (sched : List Nat) : OnceCM (run v (init v sc) sched) :=
  onceCM_run' v sched _ (once_init v sc) (onceCM_init v sc)

theorem cm_mem_closed (s : St) (h : OnceCM s) (t c : Nat) (hm : Instr.closeMsgs c ∈ s.prog t) :
    (s.cmd c).streamClosed = 0 :=
  (h.tok c t (cms_pos_of_mem c (s.prog t) hm)).1

end GoImap.ClientConc
