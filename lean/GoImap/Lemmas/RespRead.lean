/-
  Helper lemmas for C03: how `readResponse` (Model/RespGrammar.lean) gets from the first bytes of a
  response line to the reader of that response's payload, and how `parseResponses` walks over a
  concatenation of response lines.
-/
import GoImap.Lemmas.RespWire
import GoImap.Model.RespGrammar
namespace GoImap.Resp

theorem finishLine_crlf (e : Event) (r : Str) : finishLine (some (e, 13 :: 10 :: r)) = some (e, r) := by
  simp [finishLine, decCRLF]

theorem readResponse_star (c : Nat) (r : Str) (h13 : c ≠ 13) (h10 : c ≠ 10) :
    readResponse (42 :: 32 :: c :: r) = readUntagged (c :: r) := by
  simp [readResponse, expectSP_sp c r h13 h10]

/-- a response name: a non-empty run of atom characters that does not start with a digit -/
structure IsName (typ : Str) : Prop where
  ne : typ ≠ []
  atom : ∀ x ∈ typ, isAtomChar x = true
  nodigit : ∀ c t, typ = c :: t → isDigitB c = false

theorem readUntagged_name (typ rest : Str) (h : IsName typ) (hr : StopsAt isAtomChar rest) :
    readUntagged (typ ++ rest) = finishLine (dispatchData 0 typ rest) := by
  unfold readUntagged
  rw [tryAtom_append typ rest h.ne h.atom hr]
  cases typ with
  | nil => exact absurd rfl h.ne
  | cons c t => simp [readNumbered, h.nodigit c t rfl]

theorem isAtomChar_of_digit {x : Nat} (h : isDigitB x = true) : isAtomChar x = true := by
  simp only [isDigitB, Bool.and_eq_true, decide_eq_true_eq] at h
  simp only [isAtomChar]
  have : ¬ (x = 40) := by omega
  have : ¬ (x = 41) := by omega
  simp only [Bool.and_eq_true, Bool.not_eq_true', Bool.or_eq_false_iff, decide_eq_false_iff_not, Bool.and_eq_false_iff]
  refine ⟨⟨⟨⟨⟨⟨⟨⟨⟨?_, ?_⟩, ?_⟩, ?_⟩, ?_⟩, ?_⟩, ?_⟩, ?_⟩, ?_⟩, ?_, ?_⟩ <;> omega

theorem readUntagged_num (n : Nat) (hn : n < 4294967296) (typ rest : Str) (h : IsName typ) (hr : StopsAt isAtomChar rest) :
    readUntagged (encNumber n ++ 32 :: (typ ++ rest)) = finishLine (dispatchData n typ rest) := by
  obtain ⟨h1, h2, h3⟩ := encNumber_spec n
  unfold readUntagged
  rw [tryAtom_append (encNumber n) (32 :: (typ ++ rest)) h3 (fun x hx => isAtomChar_of_digit (h2 x hx))
    (StopsAt.cons _ (by decide))]
  cases htyp : typ with
  | nil => exact absurd htyp h.ne
  | cons c t =>
    have hc : isAtomChar c = true := h.atom c (by rw [htyp]; simp)
    have h13 : c ≠ 13 := by intro e; rw [e] at hc; exact absurd hc (by decide)
    have h10 : c ≠ 10 := by intro e; rw [e] at hc; exact absurd hc (by decide)
    have hall : (encNumber n).all isDigitB = true := by rw [List.all_eq_true]; exact h2
    cases hd : encNumber n with
    | nil => exact absurd hd h3
    | cons a l =>
      have ha : isDigitB a = true := h2 a (by rw [hd]; simp)
      have hta := tryAtom_append typ rest h.ne h.atom hr
      rw [htyp] at hta
      simp only [readNumbered, ha, if_true]
      rw [← hd, hall, h1]
      simp only [List.cons_append, Bool.true_and, decide_eq_true_eq, hn, if_true, expectSP_sp c (t ++ rest) h13 h10,
        Option.bind_some]
      rw [List.cons_append] at hta
      rw [hta]
      rfl

theorem isName_of (typ : Str) (h : (typ ≠ [] ∧ typ.all isAtomChar = true ∧ (typ.head?.map isDigitB) = some false)) : IsName typ := by
  obtain ⟨a, b, c⟩ := h
  refine ⟨a, ?_, ?_⟩
  · rw [List.all_eq_true] at b; exact b
  · intro x t e; subst e; simpa using c

/-! ### a stream of responses -/

/-- `line` is a complete response that the client reads as `e`, whatever follows -/
def ReadsAs (line : Str) (e : Event) : Prop := line ≠ [] ∧ ∀ rest, readResponse (line ++ rest) = some (e, rest)

/-- every line of `lines` is read as the event at the same position of `evs` -/
inductive AllRead : List Str → List Event → Prop
  | nil : AllRead [] []
  | cons {l : Str} {e : Event} {ls : List Str} {es : List Event} : ReadsAs l e → AllRead ls es → AllRead (l :: ls) (e :: es)

theorem AllRead.ne_nil {lines : List Str} {evs : List Event} (h : AllRead lines evs) : ∀ l ∈ lines, l ≠ [] := by
  induction h with
  | nil => intro l hl; cases hl
  | cons hl _ ih =>
    intro x hx
    cases hx with
    | head => exact hl.1
    | tail _ hm => exact ih x hm

theorem parseResponses_lines : ∀ (lines : List Str) (evs : List Event) (fuel : Nat),
    AllRead lines evs → lines.length < fuel → parseResponses fuel lines.flatten = some evs := by
  intro lines
  induction lines with
  | nil =>
    intro evs fuel h hf
    cases h
    cases fuel with
    | zero => omega
    | succ f => rfl
  | cons l ls ih =>
    intro evs fuel h hf
    cases h with
    | cons hl hls =>
      rename_i e es
      cases fuel with
      | zero => omega
      | succ f =>
        obtain ⟨hne, hread⟩ := hl
        have ih' := ih es f hls (by simp at hf; omega)
        simp only [List.flatten_cons]
        cases hcat : l ++ ls.flatten with
        | nil => simp at hcat; exact absurd hcat.1 hne
        | cons c t =>
          rw [← hcat]
          have : parseResponses (f + 1) (l ++ ls.flatten) = (match readResponse (l ++ ls.flatten) with
              | none => none
              | some (e, r) => (parseResponses f r).map (e :: ·)) := by
            rw [hcat]; rfl
          rw [this, hread]
          simp only [ih', Option.map_some]

theorem length_le_flatten : ∀ (lines : List Str), (∀ l ∈ lines, l ≠ []) → lines.length ≤ lines.flatten.length := by
  intro lines
  induction lines with
  | nil => intro _; simp
  | cons l ls ih =>
    intro h
    have := ih (fun x hx => h x (by simp [hx]))
    have hl : l ≠ [] := h l (by simp)
    have : 0 < l.length := List.length_pos_iff.mpr hl
    simp only [List.flatten_cons, List.length_cons, List.length_append]
    omega

theorem parseAll_lines (lines : List Str) (evs : List Event) (h : AllRead lines evs) :
    parseAll lines.flatten = some evs := by
  unfold parseAll
  apply parseResponses_lines lines evs _ h
  have := length_le_flatten lines h.ne_nil
  omega

end GoImap.Resp

namespace GoImap.Resp

theorem AllRead.map {α : Type} (f : α → Str) (g : α → Event) : ∀ (xs : List α), (∀ x ∈ xs, ReadsAs (f x) (g x)) →
    AllRead (xs.map f) (xs.map g) := by
  intro xs
  induction xs with
  | nil => intro _; exact AllRead.nil
  | cons x t ih =>
    intro h
    exact AllRead.cons (h x (by simp)) (ih (fun y hy => h y (by simp [hy])))

theorem AllRead.append {l1 l2 : List Str} {e1 e2 : List Event} (h1 : AllRead l1 e1) (h2 : AllRead l2 e2) :
    AllRead (l1 ++ l2) (e1 ++ e2) := by
  induction h1 with
  | nil => exact h2
  | cons hl _ ih => exact AllRead.cons hl ih

theorem AllRead.single {l : Str} {e : Event} (h : ReadsAs l e) : AllRead [l] [e] := AllRead.cons h AllRead.nil

end GoImap.Resp

namespace GoImap.Resp

theorem takeWhile_all {α : Type} (p : α → Bool) : ∀ (l : List α), (∀ x ∈ l, p x = true) → l.takeWhile p = l := by
  intro l
  induction l with
  | nil => intro _; rfl
  | cons x t ih =>
    intro h
    simp only [List.takeWhile_cons, h x (by simp), if_true]
    rw [ih (fun y hy => h y (by simp [hy]))]

end GoImap.Resp
