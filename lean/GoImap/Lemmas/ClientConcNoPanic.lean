import GoImap.Lemmas.ClientConcCrash
import GoImap.Lemmas.ClientConcPair
import GoImap.Lemmas.ClientConcSend
import GoImap.Lemmas.ClientConcOnceCD
import GoImap.Lemmas.ClientConcDone
/-!
  C13: the repaired model never panics. The four instructions that can set `crashed` never meet
  the condition: a completion is sent while `closeDone` of the same command is still ahead (so the
  channel is open), `closeDone` / `closeMsgs` of a command occur once, a continuation request is
  granted (`contDone`) once and never after it was cancelled.
-/
namespace GoImap.ClientConc

/-- the invariants of all reachable states that rule the panic out -/
structure PanicCtx (s : St) : Prop where
  once : Once s
  send : SendInv s
  cd : OnceCD s
  cm : OnceCM s
  done : DoneInv s
  pair : ∀ u, AllSuf pairLoc (s.prog u) = true

theorem exec_no_crash (v : Variant) (s : St) (t : Nat) (i : Instr) (rest : List Instr)
    (hs : s.prog t = i :: rest) (h : PanicCtx s) (hc : s.crashed = false) :
    (exec v s t i rest).crashed = false := by
  cases hm : mayCrash i
  · rw [exec_crashed v s t i rest hm]; exact hc
  · cases i <;> simp [mayCrash] at hm
    case send c r b =>
      have hmem := closeDone_after_token s h.pair t _ rest c hs rfl
      have hcl := (cd_mem_closed s h.cd t c hmem).1
      simp only [exec]
      split
      · exact hc
      · split
        · rename_i h1; rw [hcl] at h1; simp at h1
        · split
          · exact hc
          · exact hc
    case closeDone c =>
      have hmem : Instr.closeDone c ∈ s.prog t := by rw [hs]; exact List.mem_cons_self
      obtain ⟨hcl, hreg⟩ := cd_mem_closed s h.cd t c hmem
      have hinit := h.send.init c hreg
      simp only [exec]
      split
      · rename_i h1; rw [hcl, hinit] at h1; simp at h1
      · exact hc
    case closeMsgs c =>
      have hmem : Instr.closeMsgs c ∈ s.prog t := by rw [hs]; exact List.mem_cons_self
      have hcl := cm_mem_closed s h.cm t c hmem
      simp only [exec]
      split
      · rename_i h1; rw [hcl] at h1; simp at h1
      · exact hc
    case contDone k =>
      have hw := contDone_head_waiting s h.done t k rest hs
      simp only [exec]
      split
      · exact hc
      · rename_i h1; exact absurd hw h1

theorem step_no_crash (v : Variant) (s : St) (t : Nat) (h : PanicCtx s) (hc : s.crashed = false) :
    (step v s t).crashed = false := by
  unfold step
  split
  · exact hc
  · split
    · split
      · rw [skipCaps_crashed]; exact hc
      · exact hc
    · split
      · exact hc
      · split
        · exact hc
        · rename_i i rest hs
          exact exec_no_crash v s t i rest hs h hc

/-- the repaired model never reaches the panic state, in any schedule -/
theorem never_crashes (v : Variant) (hv : v.initFirst = true) (sc : Scenario) :
    ∀ (n : Nat) (sched : List Nat), sched.length = n → (run v (init v sc) sched).crashed = false := by
  intro n
  induction n with
  | zero =>
    intro sched hl
    have : sched = [] := List.length_eq_zero_iff.mp hl
    subst this; rfl
  | succ n ih =>
    intro sched hl
    have hne : sched ≠ [] := by intro e; rw [e] at hl; cases hl
    -- every prefix of the schedule leads to a reachable state
    have hsplit := List.dropLast_concat_getLast hne
    have hpre := ih sched.dropLast (by rw [List.length_dropLast, hl]; rfl)
    have e : run v (init v sc) sched = step v (run v (init v sc) sched.dropLast) (sched.getLast hne) := by
      conv => lhs; rw [← hsplit]
      unfold run; rw [List.foldl_append]; rfl
    rw [e]
    refine step_no_crash v _ _ ?_ hpre
    obtain ⟨hsend, honce⟩ := sendInv_run v hv sched.dropLast (init v sc) (once_init v sc) (sendInv_init v sc)
    exact ⟨honce, hsend, onceCD_run v sc _, onceCM_run v sc _, doneInv_run v sc _,
      pair_run v _ (init v sc) (pair_init v sc)⟩

end GoImap.ClientConc
