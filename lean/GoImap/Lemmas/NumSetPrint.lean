/-
  Printing a canonical set and parsing it back (C15, item 6).
-/
import GoImap.Lemmas.NumSetDigits
import GoImap.Lemmas.NumSetSplit
import GoImap.Lemmas.NumSetOps
namespace GoImap.NumSet

theorem digits_no (n : Nat) (c : Char) (hc : ¬ IsDig c) : c ∉ digits n := by
  intro h; exact hc ((digits_spec n).2.1 c h)

theorem not_isDig_comma : ¬ IsDig ',' := fun h => h.ne_comma rfl
theorem not_isDig_colon : ¬ IsDig ':' := fun h => h.ne_colon rfl

theorem toChars_cases (r : Range) :
    (r.start = 0 ∧ r.toChars = ['*']) ∨
    (r.start ≠ 0 ∧ r.start = r.stop ∧ r.toChars = digits r.start) ∨
    (r.start ≠ 0 ∧ r.start ≠ r.stop ∧ r.stop = 0 ∧ r.toChars = digits r.start ++ [':', '*']) ∨
    (r.start ≠ 0 ∧ r.start ≠ r.stop ∧ r.stop ≠ 0 ∧
      r.toChars = digits r.start ++ ':' :: digits r.stop) := by
  unfold Range.toChars
  by_cases h1 : r.start = 0
  · left; exact ⟨h1, by rw [if_pos h1]⟩
  · by_cases h2 : r.start = r.stop
    · right; left; exact ⟨h1, h2, by rw [if_neg h1, if_pos h2]⟩
    · by_cases h3 : r.stop = 0
      · right; right; left; exact ⟨h1, h2, h3, by rw [if_neg h1, if_neg h2, if_pos h3]⟩
      · right; right; right; exact ⟨h1, h2, h3, by rw [if_neg h1, if_neg h2, if_neg h3]⟩

theorem toChars_no_comma (r : Range) : ',' ∉ r.toChars := by
  have hd := fun n => digits_no n ',' not_isDig_comma
  rcases toChars_cases r with ⟨_, e⟩ | ⟨_, _, e⟩ | ⟨_, _, _, e⟩ | ⟨_, _, _, e⟩ <;> rw [e]
  · decide
  · exact hd _
  · intro h
    rcases List.mem_append.1 h with h | h
    · exact hd _ h
    · revert h; decide
  · intro h
    rcases List.mem_append.1 h with h | h
    · exact hd _ h
    · rcases List.mem_cons.1 h with h | h
      · revert h; decide
      · exact hd _ h

theorem parseNumRange_toChars (r : Range) (hw : r.WF) : parseNumRange r.toChars = some r := by
  have hd := fun n => digits_no n ':' not_isDig_colon
  obtain ⟨a, b⟩ := r
  unfold Range.WF at hw
  simp only at hw
  rcases toChars_cases ⟨a, b⟩ with ⟨h0, e⟩ | ⟨h0, h1, e⟩ | ⟨h0, h1, h2, e⟩ | ⟨h0, h1, h2, e⟩
  · rw [e]
    simp only at h0
    have : b = 0 := hw.2.2.1 h0
    subst h0; subst this
    decide
  · rw [e]
    simp only at h0 h1 ⊢
    subst h1
    unfold parseNumRange
    rw [cutColon_not_mem _ (hd a), parseNum_digits a (by omega) hw.1]
    rfl
  · rw [e]
    simp only at h0 h1 h2 ⊢
    subst h2
    unfold parseNumRange
    rw [cutColon_append _ _ (hd a)]
    simp only [parseNum_digits a (by omega) hw.1, parseNum_star]
    simp [h0]
  · rw [e]
    simp only at h0 h1 h2 ⊢
    unfold parseNumRange
    rw [cutColon_append _ _ (hd a)]
    simp only [parseNum_digits a (by omega) hw.1, parseNum_digits b (by omega) hw.2.1]
    have : ¬ ((b < a ∧ b ≠ 0) ∨ a = 0) := by omega
    simp only [ne_eq, Bool.or_eq_true, Bool.and_eq_true, decide_eq_true_eq, this, if_false]

theorem splitOn_toChars (s : Set) (hne : s ≠ []) :
    splitOn ',' (toChars s) = s.map Range.toChars := by
  induction s with
  | nil => exact absurd rfl hne
  | cons r rest ih =>
    cases rest with
    | nil => exact splitOn_not_mem _ _ (toChars_no_comma r)
    | cons r' rest' =>
      have e : toChars (r :: r' :: rest') = r.toChars ++ ',' :: toChars (r' :: rest') := rfl
      rw [e, splitOn_append _ _ _ (toChars_no_comma r), ih (by simp)]
      rfl

theorem normRange_wf_id (r : Range) (hw : r.WF) : normRange r.start r.stop = r := by
  obtain ⟨a, b⟩ := r
  unfold Range.WF at hw
  simp only at hw ⊢
  rcases normRange_cases a b with ⟨h, e⟩ | ⟨h, e⟩ <;> rw [e]
  · have : a = 0 := by omega
    have : b = 0 := by omega
    subst_vars; rfl

/-- a static range followed by a gap does not merge with what comes after -/
theorem Range.merge_gap_fail (p r : Range) (hp : p.WF) (hr : r.WF) (h1 : p.stop ≠ 0)
    (h2 : r.start = 0 ∨ p.stop + 1 < r.start) : (p.merge r).2 = false := by
  rw [Bool.eq_false_iff]
  intro hok
  obtain ⟨a, b⟩ := p
  obtain ⟨c, d⟩ := r
  unfold Range.WF at hp hr
  simp only at hp hr h1 h2
  rw [Range.merge_eq] at hok
  simp only [ne_eq, Bool.and_eq_true, decide_eq_true_eq, gt_iff_lt, Range.mk.injEq] at hok
  split_ifs at hok <;>
    first
    | omega
    | (rw [mergeCore_snd_iff] at hok
       simp only [W] at *
       omega)

/-- appending an element that keeps the list canonical is what `insert` does -/
theorem insert_last (pre : Set) (r : Range) (h : Canon (pre ++ [r])) :
    insert pre r = pre ++ [r] := by
  have hwf := CanonFrom.wf h
  have hpre : Canon pre := ((canonFrom_append pre [r] 0).1 h).1
  have hlen : (pre ++ [r]).length = pre.length + 1 := by simp
  have hgap : ∀ j, j < pre.length → (pre.getD j zeroR).stop ≠ 0 ∧
      (r.start = 0 ∨ (pre.getD j zeroR).stop + 1 < r.start) := by
    intro j hj
    have := canon_before (pre ++ [r]) 0 h j pre.length hj (by omega)
    have e1 : (pre ++ [r]).getD j zeroR = pre.getD j zeroR := by
      simp [List.getD, List.getElem?_append_left hj]
    have e2 : (pre ++ [r]).getD pre.length zeroR = r := by simp
    rwa [e1, e2] at this
  have hidx : (search pre r.start).1 = pre.length := by
    apply search_unique pre r.start (canon_mono pre 0 hpre _) pre.length (Nat.le_refl _)
    · intro j hj
      have := hgap j hj
      rw [Range.less_iff]; omega
    · intro hlt; omega
  rw [insert_eq, hidx]
  have sh := insertIdx_shape pre [] r
  rw [List.append_nil] at sh
  cases sh with
  | plain _ _ e => exact e
  | mprev pre' p e0 hm e =>
    exfalso
    subst e0
    have hj : pre'.length < (pre' ++ [p]).length := by simp
    have := hgap pre'.length hj
    have e2 : (pre' ++ [p]).getD pre'.length zeroR = p := by simp
    rw [e2] at this
    have hf := Range.merge_gap_fail p r (hwf p (by simp)) (hwf r (by simp)) this.1 this.2
    rw [hf] at hm; cases hm
  | mcur c rest e0 _ _ _ => cases e0

theorem parseItems_map (post : Set) : ∀ pre, Canon (pre ++ post) →
    parseItems (post.map Range.toChars) pre = some (pre ++ post) := by
  induction post with
  | nil => intro pre _; simp [parseItems]
  | cons r post ih =>
    intro pre h
    have hw : r.WF := CanonFrom.wf h r (by simp)
    have h' : Canon ((pre ++ [r]) ++ post) := by
      have : pre ++ [r] ++ post = pre ++ r :: post := by simp
      rw [this]; exact h
    have hpr : Canon (pre ++ [r]) := ((canonFrom_append (pre ++ [r]) post 0).1 h').1
    simp only [List.map_cons, parseItems, parseNumRange_toChars r hw]
    rw [addRange_eq, normRange_wf_id r hw, insert_last pre r hpr, ih _ h']
    simp

theorem parseSet_toChars (s : Set) (h : Canon s) (hne : s ≠ []) :
    parseSet (toChars s) = some s := by
  unfold parseSet
  rw [splitOn_toChars s hne]
  exact parseItems_map s [] h

end GoImap.NumSet
