/- C16 helper lemmas: alphabet facts, failing base64, the segment scan of `dec`. -/
import GoImap.Lemmas.Utf7
import Mathlib.Tactic.SplitIfs
namespace GoImap.Utf7Lemmas
open GoImap.Utf7

/-- Unicode scalar values -/
def Scalar (c : Nat) : Prop := c < 55296 ∨ (57343 < c ∧ c < 1114112)

instance (c : Nat) : Decidable (Scalar c) := by unfold Scalar; infer_instance

/-! ### alphabet -/

theorem alphabet_props : ∀ c ∈ alphabet,
    c ≠ 45 ∧ c ≠ 13 ∧ c ≠ 10 ∧ c ≠ 61 ∧ c ≠ 38 ∧ printable c = true := by decide +kernel

theorem b64char_mem_fin : ∀ s : Fin 64, b64char s.val ∈ alphabet := by decide +kernel

theorem b64char_mem (s : Nat) (h : s < 64) : b64char s ∈ alphabet := b64char_mem_fin ⟨s, h⟩

theorem alphabet_length : alphabet.length = 64 := by decide

theorem b64val_eq_none_iff (c : Nat) : b64val c = none ↔ c ∉ alphabet := by
  unfold b64val
  have := List.idxOf_lt_length_iff (a := c) (l := alphabet)
  rw [alphabet_length] at this
  simp only
  split_ifs with h
  · simp [this.mp h]
  · simp only [true_iff]; exact fun hm => h (this.mpr hm)

theorem b64val_some_mem {c s : Nat} (h : b64val c = some s) : c ∈ alphabet := by
  by_cases hc : c ∈ alphabet
  · exact hc
  · rw [(b64val_eq_none_iff c).mpr hc] at h
    cases h

theorem b64val_some_lt {c s : Nat} (h : b64val c = some s) : s < 64 := by
  unfold b64val at h
  simp only at h
  split_ifs at h with h1
  cases h; exact h1

theorem b64val_nonprintable {c : Nat} (h : printable c = false) : b64val c = none := by
  rw [b64val_eq_none_iff]
  intro hm
  have := (alphabet_props c hm).2.2.2.2.2
  rw [h] at this; cases this

/-! ### failing base64 -/

theorem b64dec_bad : ∀ (l : BytesN) (c : Nat), c ∈ l → b64val c = none → b64dec l = none
  | [], c, h, _ => by simp at h
  | [_], _, _, _ => by simp [b64dec]
  | [c0, c1], c, h, hv => by
    simp only [List.mem_cons, List.not_mem_nil, or_false] at h
    rcases h with rfl | rfl
    · simp [b64dec, hv]
    · cases h0 : b64val c0 <;> simp [b64dec, hv, h0]
  | [c0, c1, c2], c, h, hv => by
    simp only [List.mem_cons, List.not_mem_nil, or_false] at h
    rcases h with rfl | rfl | rfl
    · simp [b64dec, hv]
    · cases h0 : b64val c0 <;> simp [b64dec, hv, h0]
    · cases h0 : b64val c0 <;> cases h1 : b64val c1 <;> simp [b64dec, hv, h0, h1]
  | c0 :: c1 :: c2 :: c3 :: r, c, h, hv => by
    simp only [List.mem_cons] at h
    rcases h with rfl | rfl | rfl | rfl | h
    · simp [b64dec, hv]
    · cases h0 : b64val c0 <;> simp [b64dec, hv, h0]
    · cases h0 : b64val c0 <;> cases h1 : b64val c1 <;> simp [b64dec, hv, h0, h1]
    · cases h0 : b64val c0 <;> cases h1 : b64val c1 <;> cases h2 : b64val c2 <;>
        simp [b64dec, hv, h0, h1, h2]
    · have ih := b64dec_bad r c h hv
      cases h0 : b64val c0 <;> cases h1 : b64val c1 <;> cases h2 : b64val c2 <;>
        cases h3 : b64val c3 <;> simp [b64dec, h0, h1, h2, h3, ih]

theorem decodeSeg_bad {seg : BytesN} {c : Nat} (hm : c ∈ seg) (hv : b64val c = none) :
    decodeSeg seg = none := by
  unfold decodeSeg
  split_ifs
  · rfl
  · simp [b64dec_bad seg c hm hv]

theorem decSeg_bad {seg : BytesN} {c : Nat} (a : Bool) (hm : c ∈ seg) (hv : b64val c = none) :
    decSeg a seg = none := by
  unfold decSeg
  have : seg.isEmpty = false := by cases seg <;> simp_all
  simp only [this, Bool.false_eq_true, if_false]
  split_ifs
  · rfl
  · exact decodeSeg_bad hm hv

/-! ### the segment scan -/

/-- scanning a shifted segment up to its '-' -/
theorem dec_scan (a : Bool) (tail : BytesN) : ∀ (seg acc : BytesN), (∀ c ∈ seg, c ≠ 45) →
    dec a (some acc) (seg ++ 45 :: tail) =
      (decSeg a (acc ++ seg)).bind fun out => (dec (acc ++ seg).isEmpty none tail).map (out ++ ·)
  | [], acc, _ => by
    simp only [List.nil_append, List.append_nil, dec, if_true]
    cases decSeg a acc <;> rfl
  | c :: seg, acc, h => by
    have hc : c ≠ 45 := h c (by simp)
    have ih := dec_scan a tail seg (acc ++ [c]) (fun x hx => h x (by simp [hx]))
    simp only [List.append_assoc, List.singleton_append] at ih
    simp only [List.cons_append, dec, hc, if_false]
    by_cases hcr : c = 13 ∨ c = 10
    · have hv : b64val c = none := b64val_nonprintable (by rcases hcr with rfl | rfl <;> decide)
      simp only [hcr, if_true]
      rw [decSeg_bad a (by simp) hv]; rfl
    · simp only [hcr, if_false]
      exact ih

/-- entering a segment from ASCII state -/
theorem dec_amp (a : Bool) (l : BytesN) : dec a none (38 :: l) = dec a (some []) l := by
  simp [dec, printable]

theorem dec_shift (a : Bool) (seg tail : BytesN) (h : ∀ c ∈ seg, c ≠ 45) :
    dec a none (38 :: seg ++ 45 :: tail) =
      (decSeg a seg).bind fun out => (dec seg.isEmpty none tail).map (out ++ ·) := by
  rw [List.cons_append, dec_amp, dec_scan a tail seg [] h]; rfl

/-- a shift that is never closed -/
theorem dec_unterminated (a : Bool) : ∀ (l acc : BytesN), (∀ c ∈ l, c ≠ 45) → dec a (some acc) l = none
  | [], _, _ => by simp [dec]
  | c :: l, acc, h => by
    have hc : c ≠ 45 := h c (by simp)
    have ih := dec_unterminated a l (acc ++ [c]) (fun x hx => h x (by simp [hx]))
    simp only [dec, hc, if_false]
    split_ifs
    · rfl
    · exact ih

/-- lifting: a suffix that fails from every state makes the whole input fail -/
theorem dec_prefix_none {tail : BytesN} (ht : ∀ a sg, dec a sg tail = none) :
    ∀ (pre : BytesN) (a : Bool) (sg : Option BytesN), dec a sg (pre ++ tail) = none
  | [], a, sg => ht a sg
  | c :: pre, a, none => by
    simp only [List.cons_append, dec]
    split_ifs
    · rfl
    · rw [dec_prefix_none ht pre]; rfl
    · exact dec_prefix_none ht pre _ _
  | c :: pre, a, some acc => by
    simp only [List.cons_append, dec]
    split_ifs
    · cases decSeg a acc
      · rfl
      · simp only; rw [dec_prefix_none ht pre]; rfl
    · rfl
    · exact dec_prefix_none ht pre _ _

end GoImap.Utf7Lemmas
