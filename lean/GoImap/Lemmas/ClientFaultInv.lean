/-
  C10 helper lemmas, part 2: the invariant of the (repaired) client transition system and its
  preservation by every rule.
-/
import GoImap.Model.ClientFault
import GoImap.Lemmas.ClientFaultMeasure
import Mathlib.Tactic.SplitIfs
namespace GoImap.ClientFaultLemmas
open GoImap.ClientFault

/-- a completed command is issued and its stream closed -/
def DoneOK (l : List Cmd) : Prop :=
  ∀ x ∈ l, x.result.isSome = true → x.issued = true ∧ x.closed = true

/-- after `closeWithError`: nothing is pending, no continuation request is queued -/
def AllFailed (l : List Cmd) : Prop :=
  ∀ x ∈ l, (x.issued = true → x.result.isSome = true) ∧ x.cont ≠ .waiting

def PosOK (pos : Pos) (l : List Cmd) : Prop :=
  match pos with
  | .res c => ∃ x, l[c]? = some x ∧ x.issued = true
  | .msgs c _ => ∃ x, l[c]? = some x ∧ x.issued = true
  | .cont c => ∃ x, l[c]? = some x ∧ x.issued = true ∧ x.cont ≠ .none ∧
      (x.kind = .login ∨ x.kind = .append ∨ x.kind = .idle ∨ x.kind = .auth)
  | .tls c => ∃ x, l[c]? = some x ∧ x.kind = .starttls ∧ x.result = some true
  | .items c _ => ∃ x, l[c]? = some x ∧ x.issued = true
  | .lit c _ => ∃ x, l[c]? = some x ∧ x.issued = true
  | _ => True

def NoEarly (l : List Tok) : Prop := ∀ c ok, Tok.early c ok ∉ l

structure Inv (s : St) : Prop where
  closed : s.closedLocal = true → s.inbox = [] ∧ s.tail = .err
  failed : s.failed = true → s.closedLocal = true ∧ AllFailed s.cmds
  exited : s.reader = .exited → s.failed = true ∧ s.flight = none
  pos : PosOK s.pos s.cmds
  lit : s.reader = .litWait → s.litDone = true ∨ s.flight = some true ∨ ∃ c w, s.pos = .lit c w
  tls : ∀ x ∈ s.cmds, x.kind = .starttls → x.result = some true → s.upgraded = true
  early : NoEarly s.inbox
  fixed : s.legacyLit = false
  done : DoneOK s.cmds

/-- the invariant only looks at these fields -/
theorem Inv.congr {s s' : St} (h : Inv s) (h1 : s'.cmds = s.cmds) (h2 : s'.inbox = s.inbox)
    (h3 : s'.tail = s.tail) (h4 : s'.reader = s.reader) (h5 : s'.flight = s.flight)
    (h6 : s'.litDone = s.litDone) (h7 : s'.pos = s.pos) (h8 : s'.upgraded = s.upgraded)
    (h9 : s'.closedLocal = s.closedLocal) (h10 : s'.legacyLit = s.legacyLit)
    (h11 : s'.failed = s.failed) : Inv s' := by
  constructor
  · rw [h9, h2, h3]; exact h.closed
  · rw [h11, h9, h1]; exact h.failed
  · rw [h4, h11, h5]; exact h.exited
  · rw [h7, h1]; exact h.pos
  · rw [h4, h6, h5, h7]; exact h.lit
  · rw [h1, h8]; exact h.tls
  · rw [h2]; exact h.early
  · rw [h10]; exact h.fixed
  · rw [h1]; exact h.done

/-! ### fields of `record` -/

theorem record_fields (s : St) (c : Cls) :
    (record s c).cmds = s.cmds ∧ (record s c).inbox = s.inbox ∧ (record s c).tail = s.tail ∧
    (record s c).reader = s.reader ∧ (record s c).flight = s.flight ∧ (record s c).litDone = s.litDone ∧
    (record s c).pos = .ready ∧ (record s c).upgraded = s.upgraded ∧
    (record s c).closedLocal = s.closedLocal ∧ (record s c).legacyLit = s.legacyLit ∧
    (record s c).failed = s.failed ∧ (record s c).mutex = s.mutex ∧ (record s c).closer = s.closer ∧ (record s c).prober = s.prober ∧
    (record s c).prog = s.prog.tail := by
  simp only [record]
  split <;> simp_all

/-- recording a phase result keeps the invariant (the caller is not inside a literal Read) -/
theorem inv_record {s : St} (h : Inv s) (c : Cls) (hp : ∀ d w, s.pos ≠ .lit d w) : Inv (record s c) := by
  obtain ⟨f1, f2, f3, f4, f5, f6, f7, f8, f9, f10, f11, _⟩ := record_fields s c
  constructor
  · rw [f9, f2, f3]; exact h.closed
  · rw [f11, f9, f1]; exact h.failed
  · rw [f4, f11, f5]; exact h.exited
  · rw [f7]; trivial
  · rw [f4, f6, f5, f7]
    intro hr
    rcases h.lit hr with h1 | h1 | ⟨d, w, h1⟩
    · exact Or.inl h1
    · exact Or.inr (Or.inl h1)
    · exact absurd h1 (hp d w)
  · rw [f1, f8]; exact h.tls
  · rw [f2]; exact h.early
  · rw [f10]; exact h.fixed
  · rw [f1]; exact h.done

/-! ### the command table -/

/-- what may happen to one command in a step that is not its completion by a tagged OK -/
structure Ext (x x' : Cmd) : Prop where
  kind : x'.kind = x.kind
  issued : x.issued = true → x'.issued = true
  cont : x.cont ≠ .none → x'.cont ≠ .none
  res : ∀ b, x.result = some b → x'.result = some b

theorem Ext.rfl' (x : Cmd) : Ext x x := ⟨rfl, id, id, fun _ h => h⟩

def TableExt (l l' : List Cmd) : Prop :=
  ∀ (i : Nat) (x : Cmd), l[i]? = some x → ∃ x', l'[i]? = some x' ∧ Ext x x'

theorem TableExt.refl (l : List Cmd) : TableExt l l := fun _ x h => ⟨x, h, Ext.rfl' x⟩

theorem TableExt.trans {a b c : List Cmd} (h1 : TableExt a b) (h2 : TableExt b c) : TableExt a c := by
  intro i x hx
  obtain ⟨y, hy, e1⟩ := h1 i x hx
  obtain ⟨z, hz, e2⟩ := h2 i y hy
  exact ⟨z, hz, ⟨e2.kind.trans e1.kind, fun h => e2.issued (e1.issued h), fun h => e2.cont (e1.cont h),
    fun b h => e2.res b (e1.res b h)⟩⟩

theorem TableExt.set {l : List Cmd} {c : Nat} {x x' : Cmd} (hx : l[c]? = some x) (e : Ext x x') :
    TableExt l (l.set c x') := by
  intro i y hy
  by_cases hic : c = i
  · subst hic
    rw [hx] at hy
    cases hy
    have hlt : c < l.length := by
      rcases List.getElem?_eq_some_iff.1 hx with ⟨hlt, _⟩
      exact hlt
    exact ⟨x', by simp [List.getElem?_set, hlt], e⟩
  · exact ⟨y, by rw [List.getElem?_set_ne hic]; exact hy, Ext.rfl' y⟩

theorem completeOne_ext (x : Cmd) (ok : Bool) (hp : x.result = none) : Ext x (completeOne x ok) := by
  constructor
  · rfl
  · intro h; exact h
  · intro h
    simp only [completeOne]
    split_ifs with hw
    · simp
    · exact h
  · intro b hb; rw [hp] at hb; cases hb

theorem cancelCont_ext (x : Cmd) : Ext x (cancelCont x) := by
  constructor
  · rfl
  · exact id
  · intro h
    simp only [cancelCont]
    split_ifs with hw
    · simp
    · exact h
  · intro b hb; exact hb

theorem Ext.trans {x y z : Cmd} (e1 : Ext x y) (e2 : Ext y z) : Ext x z :=
  ⟨e2.kind.trans e1.kind, fun h => e2.issued (e1.issued h), fun h => e2.cont (e1.cont h),
    fun b h => e2.res b (e1.res b h)⟩

theorem failOne_ext (x : Cmd) : Ext x (cancelCont (if pendingCmd x = true then completeOne x false else x)) := by
  split_ifs with hp
  · refine (completeOne_ext x false ?_).trans (cancelCont_ext _)
    simp only [pendingCmd, Bool.and_eq_true, Option.isNone_iff_eq_none] at hp
    exact hp.2
  · exact cancelCont_ext x

theorem failAll_ext (l : List Cmd) : TableExt l (failAll l) := by
  intro i x hx
  refine ⟨cancelCont (if pendingCmd x = true then completeOne x false else x), ?_, failOne_ext x⟩
  simp [failAll, List.getElem?_map, hx]

theorem PosOK_ext {pos : Pos} {l l' : List Cmd} (h : PosOK pos l) (e : TableExt l l') : PosOK pos l' := by
  cases pos with
  | res c =>
    obtain ⟨x, hx, hi⟩ := h
    obtain ⟨x', hx', ex⟩ := e c x hx
    exact ⟨x', hx', ex.issued hi⟩
  | msgs c w =>
    obtain ⟨x, hx, hi⟩ := h
    obtain ⟨x', hx', ex⟩ := e c x hx
    exact ⟨x', hx', ex.issued hi⟩
  | cont c =>
    obtain ⟨x, hx, hi, hc, hk⟩ := h
    obtain ⟨x', hx', ex⟩ := e c x hx
    exact ⟨x', hx', ex.issued hi, ex.cont hc, by rw [ex.kind]; exact hk⟩
  | tls c =>
    obtain ⟨x, hx, hk, hr⟩ := h
    obtain ⟨x', hx', ex⟩ := e c x hx
    exact ⟨x', hx', by rw [ex.kind]; exact hk, ex.res true hr⟩
  | ready => trivial
  | greet => trivial
  | items c w =>
    obtain ⟨x, hx, hi⟩ := h
    obtain ⟨x', hx', ex⟩ := e c x hx
    exact ⟨x', hx', ex.issued hi⟩
  | lit c w =>
    obtain ⟨x, hx, hi⟩ := h
    obtain ⟨x', hx', ex⟩ := e c x hx
    exact ⟨x', hx', ex.issued hi⟩

/-! ### `failAll` -/

theorem mem_failAll {l : List Cmd} {y : Cmd} (hy : y ∈ failAll l) :
    ∃ x ∈ l, y = cancelCont (if pendingCmd x = true then completeOne x false else x) := by
  simp only [failAll, List.mem_map] at hy
  obtain ⟨x, hx, rfl⟩ := hy
  exact ⟨x, hx, rfl⟩

theorem DoneOK_failAll {l : List Cmd} (h : DoneOK l) : DoneOK (failAll l) := by
  intro y hy hr
  obtain ⟨x, hx, rfl⟩ := mem_failAll hy
  split_ifs at hr ⊢ with hp
  · simp only [pendingCmd, Bool.and_eq_true] at hp
    exact ⟨hp.1, rfl⟩
  · exact h x hx hr

theorem failAll_allFailed (l : List Cmd) : AllFailed (failAll l) := by
  intro y hy
  obtain ⟨x, hx, rfl⟩ := mem_failAll hy
  constructor
  · intro hi
    split_ifs at hi ⊢ with hp
    · rfl
    · simp only [pendingCmd, Bool.and_eq_true, not_and, Bool.not_eq_true, Option.isNone_eq_false_iff] at hp
      exact hp hi
  · simp only [cancelCont]
    split_ifs <;> simp_all

theorem failAll_tls {l : List Cmd} {u : Bool} (h : ∀ x ∈ l, x.kind = .starttls → x.result = some true → u = true) :
    ∀ x ∈ failAll l, x.kind = .starttls → x.result = some true → u = true := by
  intro y hy hk hr
  obtain ⟨x, hx, rfl⟩ := mem_failAll hy
  split_ifs at hk hr with hp
  · simp [completeOne, cancelCont] at hr
  · exact h x hx hk hr

/-! ### closing the connection -/

theorem inv_closeConn {s : St} (h : Inv s) : Inv (closeConn s) := by
  constructor
  · intro _; exact ⟨rfl, rfl⟩
  · intro hf; exact ⟨rfl, (h.failed hf).2⟩
  · exact h.exited
  · exact h.pos
  · exact h.lit
  · exact h.tls
  · intro c ok hm; simp [closeConn] at hm
  · exact h.fixed
  · exact h.done

theorem rFail_inv {s s' : St} (h : Inv s) (hs : rFail s = some s') : Inv s' := by
  simp only [rFail] at hs
  split_ifs at hs with hc
  simp only [Option.some.injEq] at hs; subst hs
  constructor
  · intro _; exact ⟨rfl, rfl⟩
  · intro _; exact ⟨rfl, failAll_allFailed s.cmds⟩
  · intro _; exact ⟨rfl, rfl⟩
  · exact PosOK_ext h.pos (failAll_ext s.cmds)
  · intro hr; cases hr
  · exact failAll_tls h.tls
  · intro c ok hm; simp [closeConn] at hm
  · exact h.fixed
  · exact DoneOK_failAll h.done

theorem pFire_inv {s s' : St} (h : Inv s) (hs : pFire s = some s') : Inv s' := by
  simp only [pFire] at hs
  split_ifs at hs with hc
  simp only [Option.some.injEq] at hs; subst hs
  constructor
  · intro _; exact ⟨rfl, rfl⟩
  · intro _; exact ⟨rfl, failAll_allFailed s.cmds⟩
  · intro hr; exact ⟨rfl, (h.exited hr).2⟩
  · exact PosOK_ext h.pos (failAll_ext s.cmds)
  · exact h.lit
  · exact failAll_tls h.tls
  · intro c ok hm; simp [closeConn] at hm
  · exact h.fixed
  · exact DoneOK_failAll h.done

theorem kClose_inv {s s' : St} (h : Inv s) (hs : kClose s = some s') : Inv s' := by
  simp only [kClose] at hs
  split_ifs at hs with hc
  simp only [Option.some.injEq] at hs; subst hs
  exact (inv_closeConn h).congr rfl rfl rfl rfl rfl rfl rfl rfl rfl rfl rfl

theorem kRet_inv {s s' : St} (h : Inv s) (hs : kRet s = some s') : Inv s' := by
  simp only [kRet] at hs
  split_ifs at hs with hc
  simp only [Option.some.injEq] at hs; subst hs
  exact h.congr rfl rfl rfl rfl rfl rfl rfl rfl rfl rfl rfl

theorem kFinal_inv {s s' : St} (h : Inv s) (hs : kFinal s = some s') : Inv s' := by
  simp only [kFinal] at hs
  split_ifs at hs with hc
  simp only [Option.some.injEq] at hs; subst hs
  exact h.congr rfl rfl rfl rfl rfl rfl rfl rfl rfl rfl rfl

theorem rResume_inv {s s' : St} (h : Inv s) (hs : rResume s = some s') : Inv s' := by
  simp only [rResume] at hs
  split_ifs at hs with hc
  simp only [Option.some.injEq] at hs; subst hs
  constructor
  · exact h.closed
  · exact h.failed
  · intro hr; cases hr
  · exact h.pos
  · intro hr; cases hr
  · exact h.tls
  · exact h.early
  · exact h.fixed
  · exact h.done

theorem cGreet_inv {s s' : St} (h : Inv s) (hs : cGreet s = some s') : Inv s' := by
  simp only [cGreet] at hs
  split_ifs at hs with hc
  simp only [Option.some.injEq] at hs; subst hs
  simp only [Bool.and_eq_true, decide_eq_true_eq] at hc
  exact inv_record h _ (by intro d w hp; rw [hc.1] at hp; cases hp)

theorem cTls_inv {s s' : St} (h : Inv s) (hs : cTls s = some s') : Inv s' := by
  simp only [cTls] at hs
  split at hs
  · rename_i c hpos
    split_ifs at hs
    simp only [Option.some.injEq] at hs; subst hs
    exact inv_record (s := { s with mutex := false }) (h.congr rfl rfl rfl rfl rfl rfl rfl rfl rfl rfl rfl) _
      (by intro d w hp; simp only at hp; rw [hpos] at hp; cases hp)
  · simp at hs

theorem inv_setpos {s : St} (h : Inv s) (p : Pos) (hp : PosOK p s.cmds)
    (hl : (∃ d w, s.pos = .lit d w) → ∃ d w, p = .lit d w) : Inv { s with pos := p } := by
  constructor
  · exact h.closed
  · exact h.failed
  · exact h.exited
  · exact hp
  · intro hr
    rcases h.lit hr with h' | h' | h'
    · exact Or.inl h'
    · exact Or.inr (Or.inl h')
    · exact Or.inr (Or.inr (hl h'))
  · exact h.tls
  · exact h.early
  · exact h.fixed
  · exact h.done

theorem cRes_inv {s s' : St} (h : Inv s) (hs : cRes s = some s') : Inv s' := by
  simp only [cRes] at hs
  split at hs
  · rename_i c hpos
    have hnl : (∃ d w, s.pos = .lit d w) → False := by
      rintro ⟨d, w', hd⟩; rw [hpos] at hd; cases hd
    split at hs
    · rename_i x hx
      split at hs
      · rename_i ok hres
        split_ifs at hs with h1 h2
        · simp only [Option.some.injEq] at hs; subst hs
          simp only [Bool.and_eq_true, decide_eq_true_eq] at h1
          exact inv_setpos h _ ⟨x, hx, h1.1, by rw [hres, h1.2]⟩ (fun hh => (hnl hh).elim)
        · simp only [Option.some.injEq] at hs; subst hs
          exact inv_record (s := { closeConn s with mutex := false })
            ((inv_closeConn h).congr rfl rfl rfl rfl rfl rfl rfl rfl rfl rfl rfl) _
            (by intro d w hp; simp only [closeConn] at hp; rw [hpos] at hp; cases hp)
        · simp only [Option.some.injEq] at hs; subst hs
          exact inv_record (s := { s with mutex := false }) (h.congr rfl rfl rfl rfl rfl rfl rfl rfl rfl rfl rfl) _
            (by intro d w hp; simp only at hp; rw [hpos] at hp; cases hp)
      · simp at hs
    · simp at hs
  · simp at hs

theorem cMsgs_inv {s s' : St} (h : Inv s) (hs : cMsgs s = some s') : Inv s' := by
  simp only [cMsgs] at hs
  split at hs
  · rename_i c w hpos
    have hp := h.pos
    rw [hpos] at hp
    have hnl : (∃ d w, s.pos = .lit d w) → False := by
      rintro ⟨d, w', hd⟩; rw [hpos] at hd; cases hd
    split at hs
    · split_ifs at hs
      · simp only [Option.some.injEq] at hs; subst hs
        exact inv_setpos h _ hp (fun hh => (hnl hh).elim)
      · simp only [Option.some.injEq] at hs; subst hs
        exact inv_setpos h _ hp (fun hh => (hnl hh).elim)
      · simp only [Option.some.injEq] at hs; subst hs
        exact inv_record h _ (by intro d w' hd; exact hnl ⟨d, w', hd⟩)
    · simp at hs
  · simp at hs

theorem cItems_inv {s s' : St} (h : Inv s) (hs : cItems s = some s') : Inv s' := by
  simp only [cItems] at hs
  split at hs
  · rename_i c w hpos
    have hp := h.pos
    rw [hpos] at hp
    split at hs
    · rename_i hfl
      simp only [Option.some.injEq] at hs; subst hs
      constructor
      · exact h.closed
      · exact h.failed
      · intro hr
        have := (h.exited hr).2
        rw [hfl] at this; cases this
      · exact hp
      · intro _; exact Or.inr (Or.inr ⟨c, w, rfl⟩)
      · exact h.tls
      · exact h.early
      · exact h.fixed
      · exact h.done
    · simp only [Option.some.injEq] at hs; subst hs
      exact inv_setpos h _ hp (by rintro ⟨d, w', hd⟩; rw [hpos] at hd; cases hd)
    · simp at hs
  · simp at hs

theorem cLit_inv {s s' : St} (h : Inv s) (hs : cLit s = some s') : Inv s' := by
  simp only [cLit] at hs
  split at hs
  · rename_i c w hpos
    have hp := h.pos
    rw [hpos] at hp
    have key : Inv { s with litDone := true, pos := .items c w } := by
      constructor
      · exact h.closed
      · exact h.failed
      · exact h.exited
      · exact hp
      · intro _; exact Or.inl rfl
      · exact h.tls
      · exact h.early
      · exact h.fixed
      · exact h.done
    split_ifs at hs
    · simp only [Option.some.injEq] at hs; subst hs; exact key
    · split at hs
      · simp at hs
      · simp only [Option.some.injEq] at hs; subst hs; exact key
      · simp only [Option.some.injEq] at hs; subst hs
        have : (!s.legacyLit) = true := by rw [h.fixed]; rfl
        rw [this]; exact key
  · simp at hs


/-! ### replacing one command of the table -/

theorem mem_set_cases {l : List Cmd} {c : Nat} {x' y : Cmd} (hy : y ∈ l.set c x') : y = x' ∨ y ∈ l := by
  rcases List.mem_or_eq_of_mem_set hy with h | h
  · exact Or.inr h
  · exact Or.inl h

/-- the invariant after replacing command c by x'; the other listed fields may change as stated -/
theorem inv_setCmd {s s' : St} (h : Inv s) {c : Nat} {x' : Cmd}
    (hdone : x'.result.isSome = true → x'.issued = true ∧ x'.closed = true)
    (hfail : s.failed = true → (x'.issued = true → x'.result.isSome = true) ∧ x'.cont ≠ .waiting)
    (htls : x'.kind = .starttls → x'.result = some true → s'.upgraded = true)
    (hup : s.upgraded = true → s'.upgraded = true)
    (h1 : s'.cmds = s.cmds.set c x') (h2 : s'.closedLocal = true → s'.inbox = [] ∧ s'.tail = .err)
    (h2b : NoEarly s'.inbox)
    (h4 : s'.reader = s.reader) (h5 : s'.flight = s.flight) (h6 : s'.litDone = s.litDone)
    (h7 : PosOK s'.pos (s.cmds.set c x'))
    (h7b : s'.reader = .litWait → (∃ d w, s.pos = .lit d w) → ∃ d w, s'.pos = .lit d w)
    (h9 : s'.closedLocal = s.closedLocal) (h10 : s'.legacyLit = s.legacyLit)
    (h11 : s'.failed = s.failed) : Inv s' := by
  constructor
  · exact h2
  · intro hf
    rw [h11] at hf
    refine ⟨by rw [h9]; exact (h.failed hf).1, ?_⟩
    intro y hy
    rw [h1] at hy
    rcases mem_set_cases hy with rfl | hy
    · exact hfail hf
    · exact (h.failed hf).2 y hy
  · intro hr
    rw [h4] at hr
    exact ⟨by rw [h11]; exact (h.exited hr).1, by rw [h5]; exact (h.exited hr).2⟩
  · rw [h1]; exact h7
  · intro hr
    rw [h6, h5]
    rcases h.lit (by rw [← h4]; exact hr) with h' | h' | h'
    · exact Or.inl h'
    · exact Or.inr (Or.inl h')
    · exact Or.inr (Or.inr (h7b hr h'))
  · intro y hy hk hr
    rw [h1] at hy
    rcases mem_set_cases hy with rfl | hy
    · exact htls hk hr
    · exact hup (h.tls y hy hk hr)
  · exact h2b
  · rw [h10]; exact h.fixed
  · intro y hy hr
    rw [h1] at hy
    rcases mem_set_cases hy with rfl | hy
    · exact hdone hr
    · exact h.done y hy hr

theorem noEarly_tail {t : Tok} {r : List Tok} (h : NoEarly (t :: r)) : NoEarly r :=
  fun c ok hm => h c ok (List.mem_cons_of_mem _ hm)

theorem cCont_inv {s s' : St} (h : Inv s) (hs : cCont s = some s') : Inv s' := by
  simp only [cCont] at hs
  split at hs
  · rename_i c hpos
    have hnl : ∀ d w, s.pos ≠ .lit d w := by intro d w hd; rw [hpos] at hd; cases hd
    have hrec : ∀ (t : St) (cl : Cls), t.cmds = s.cmds → t.inbox = s.inbox → t.tail = s.tail →
        t.reader = s.reader → t.flight = s.flight → t.litDone = s.litDone → t.pos = s.pos →
        t.upgraded = s.upgraded → t.closedLocal = s.closedLocal → t.legacyLit = s.legacyLit →
        t.failed = s.failed → Inv (record t cl) := by
      intro t cl a1 a2 a3 a4 a5 a6 a7 a8 a9 a10 a11
      exact inv_record (h.congr a1 a2 a3 a4 a5 a6 a7 a8 a9 a10 a11) cl
        (by intro d w hd; rw [a7] at hd; exact hnl d w hd)
    split at hs
    · rename_i x hx
      have hx' : s.cmds[c]? = some x := hx
      split at hs
      · simp only [Option.some.injEq] at hs; subst hs; exact hrec _ _ rfl rfl rfl rfl rfl rfl rfl rfl rfl rfl rfl
      · simp only [Option.some.injEq] at hs; subst hs; exact hrec _ _ rfl rfl rfl rfl rfl rfl rfl rfl rfl rfl rfl
      · simp only [Option.some.injEq] at hs; subst hs; exact hrec _ _ rfl rfl rfl rfl rfl rfl rfl rfl rfl rfl rfl
      · simp only [Option.some.injEq] at hs; subst hs; exact hrec _ _ rfl rfl rfl rfl rfl rfl rfl rfl rfl rfl rfl
      · simp only [Option.some.injEq] at hs; subst hs; exact hrec _ _ rfl rfl rfl rfl rfl rfl rfl rfl rfl rfl rfl
      · simp only [Option.some.injEq] at hs; subst hs; exact hrec _ _ rfl rfl rfl rfl rfl rfl rfl rfl rfl rfl rfl
      · rename_i hk hc
        split_ifs at hs with hcl
        · simp only [Option.some.injEq] at hs; subst hs; exact hrec _ _ rfl rfl rfl rfl rfl rfl rfl rfl rfl rfl rfl
        · simp only [Option.some.injEq] at hs; subst hs
          have e : Ext x { x with cont := Cont.waiting } := ⟨rfl, id, fun _ => by simp, fun _ hb => hb⟩
          refine inv_setCmd (s' := setCmd s c _) h ?_ ?_ ?_ id rfl h.closed h.early rfl rfl rfl ?_ ?_ rfl rfl rfl
          · intro hr; exact h.done x (List.mem_of_getElem? hx') hr
          · intro hf; exact absurd (h.failed hf).1 hcl
          · intro hk' hr'; exact h.tls x (List.mem_of_getElem? hx') hk' hr'
          · simp only [setCmd]
            rw [hpos]
            exact PosOK_ext (pos := Pos.cont c) (by rw [← hpos]; exact h.pos) (TableExt.set hx' e)
          · intro _ ⟨d, w, hd⟩; exact absurd hd (hnl d w)
      · simp only [Option.some.injEq] at hs; subst hs
        have hp := h.pos
        rw [hpos] at hp
        obtain ⟨x0, hx0, hi0, _, _⟩ := hp
        exact inv_setpos h _ ⟨x0, hx0, hi0⟩ (by rintro ⟨d, w, hd⟩; exact absurd hd (hnl d w))
      · simp at hs
    · simp at hs
  · simp at hs


/-! ### issuing a command -/

theorem getElem?_set_self' {l : List Cmd} {c : Nat} {x x' : Cmd} (hx : l[c]? = some x) :
    (l.set c x')[c]? = some x' := by
  have hlt : c < l.length := (List.getElem?_eq_some_iff.1 hx).1
  simp [List.getElem?_set, hlt]

/-- the command record after `beginCommand` -/
def issued1 (x : Cmd) (wc : Bool) : Cmd :=
  { x with issued := true, cont := if wc then Cont.waiting else x.cont }

theorem issueCmd_eq (s : St) (c : Nat) (x : Cmd) (wc : Bool) :
    issueCmd s c x wc =
      if s.closedLocal = true then { s with cmds := failAll (s.cmds.set c (issued1 x wc)), failed := true }
      else { s with cmds := s.cmds.set c (issued1 x wc) } := by
  simp only [issueCmd, setCmd, issued1]

/-- issuing the so far unissued command c, then moving the caller to position p -/
theorem inv_issue {s : St} (h : Inv s) {c : Nat} {x : Cmd} (wc m : Bool) (p : Pos)
    (hx : s.cmds[c]? = some x) (hni : x.issued = false) (hready : s.pos = .ready)
    (hp : ∀ x1 : Cmd, x1.issued = true → x1.kind = x.kind → (wc = true → x1.cont ≠ .none) →
      ∀ l : List Cmd, l[c]? = some x1 → PosOK p l) :
    Inv { issueCmd s c x wc with mutex := m, pos := p } := by
  have hxm : x ∈ s.cmds := List.mem_of_getElem? hx
  have hres : x.result = none := by
    cases hr : x.result with
    | none => rfl
    | some b =>
      have := (h.done x hxm (by rw [hr]; rfl)).1
      rw [hni] at this; cases this
  have hx1c : wc = true → (issued1 x wc).cont ≠ .none := by
    intro hw; simp only [issued1, hw, if_true]; simp
  have hx1r : (issued1 x wc).result = none := hres
  have hlit : s.reader = .litWait → s.litDone = true ∨ s.flight = some true := by
    intro hr
    rcases h.lit hr with h' | h' | ⟨d, w, h'⟩
    · exact Or.inl h'
    · exact Or.inr h'
    · rw [hready] at h'; cases h'
  have htls1 : ∀ y ∈ s.cmds.set c (issued1 x wc), y.kind = .starttls → y.result = some true → s.upgraded = true := by
    intro y hy hk hr
    rcases mem_set_cases hy with rfl | hy
    · rw [hx1r] at hr; cases hr
    · exact h.tls y hy hk hr
  have hdone1 : DoneOK (s.cmds.set c (issued1 x wc)) := by
    intro y hy hr
    rcases mem_set_cases hy with rfl | hy
    · rw [hx1r] at hr; cases hr
    · exact h.done y hy hr
  rw [issueCmd_eq]
  by_cases hcl : s.closedLocal = true
  · -- the connection is closed: the write fails, closeWithError
    rw [if_pos hcl]
    have hget : (failAll (s.cmds.set c (issued1 x wc)))[c]? =
        some (cancelCont (if pendingCmd (issued1 x wc) = true then completeOne (issued1 x wc) false else issued1 x wc)) := by
      rw [failAll, List.getElem?_map, getElem?_set_self' hx]; rfl
    constructor
    · exact h.closed
    · intro _; exact ⟨hcl, failAll_allFailed _⟩
    · intro hr; exact ⟨rfl, (h.exited hr).2⟩
    · have e := failOne_ext (issued1 x wc)
      exact hp _ (e.issued rfl) (by rw [e.kind]; rfl) (fun hw => e.cont (hx1c hw)) _ hget
    · intro hr
      rcases hlit hr with h' | h'
      · exact Or.inl h'
      · exact Or.inr (Or.inl h')
    · exact failAll_tls htls1
    · exact h.early
    · exact h.fixed
    · exact DoneOK_failAll hdone1
  · rw [if_neg hcl]
    constructor
    · exact h.closed
    · intro hf; exact absurd (h.failed hf).1 hcl
    · exact h.exited
    · exact hp (issued1 x wc) rfl rfl hx1c _ (getElem?_set_self' hx)
    · intro hr
      rcases hlit hr with h' | h'
      · exact Or.inl h'
      · exact Or.inr (Or.inl h')
    · exact htls1
    · exact h.early
    · exact h.fixed
    · exact hdone1

theorem cStart_inv {s s' : St} (h : Inv s) (hs : cStart s = some s') : Inv s' := by
  simp only [cStart] at hs
  split_ifs at hs with hr
  have hready : s.pos = .ready := by simpa using hr
  have hnl : ∀ d w, s.pos ≠ .lit d w := by intro d w hd; rw [hready] at hd; cases hd
  have hnl' : (∃ d w, s.pos = .lit d w) → False := by rintro ⟨d, w, hd⟩; exact hnl d w hd
  split at hs
  · simp at hs
  · rename_i ph rest hprog
    simp only [Option.some.injEq] at hs; subst hs
    have hrec : ∀ cl, Inv (record s cl) := fun cl => inv_record h cl hnl
    have hrecm : ∀ cl, Inv (record { s with mutex := false } cl) := fun cl =>
      inv_record (s := { s with mutex := false }) (h.congr rfl rfl rfl rfl rfl rfl rfl rfl rfl rfl rfl) cl hnl
    cases ph with
    | greetWait => exact inv_setpos h _ trivial (fun hh => (hnl' hh).elim)
    | issue c =>
      simp only [startPhase]
      split
      · rename_i x hx
        split_ifs with hi
        · exact hrec _
        · have hni : x.issued = false := by simpa using hi
          have := inv_issue h false s.mutex .ready hx hni hready (fun _ _ _ _ _ _ => trivial)
          have e : ({ issueCmd s c x false with mutex := s.mutex, pos := Pos.ready } : St) = issueCmd s c x false := by
            simp only [issueCmd]; split_ifs <;> simp [setCmd, hready]
          rw [e] at this
          exact inv_record this _ (by
            intro d w hd
            have hp := (issueCmd_fields s c x false).2.2.2.2.2.2.2.1
            rw [hp, hready] at hd; cases hd)
      · exact hrec _
    | wait c =>
      simp only [startPhase]
      split
      · rename_i x hx
        split_ifs with hi
        · exact hrec _
        · simp only [Bool.or_eq_true, Bool.not_eq_eq_eq_not, Bool.not_true, Bool.and_eq_true, decide_eq_true_eq,
            not_or] at hi
          exact inv_setpos h _ ⟨x, hx, by simpa using hi.1⟩ (fun hh => (hnl' hh).elim)
      · exact hrec _
    | collect c =>
      simp only [startPhase, consume]
      split
      · rename_i x hx
        split_ifs with hi
        · exact inv_setpos h _ ⟨x, hx, hi⟩ (fun hh => (hnl' hh).elim)
        · exact hrec _
      · exact hrec _
    | close c =>
      simp only [startPhase, consume]
      split
      · rename_i x hx
        split_ifs with hi
        · exact inv_setpos h _ ⟨x, hx, hi⟩ (fun hh => (hnl' hh).elim)
        · exact hrec _
      · exact hrec _
    | loop c =>
      simp only [startPhase, consume]
      split
      · rename_i x hx
        split_ifs with hi
        · exact inv_setpos h _ ⟨x, hx, hi⟩ (fun hh => (hnl' hh).elim)
        · exact hrec _
      · exact hrec _
    | issueCont c =>
      simp only [startPhase, issueBlocking]
      split
      · rename_i x hx
        split_ifs with hi
        · simp only [Bool.and_eq_true, Bool.or_eq_true, decide_eq_true_eq, Bool.not_eq_eq_eq_not, Bool.not_true] at hi
          exact inv_issue h true true (.cont c) hx hi.2 hready
            (fun x1 h1 h2 h3 l hl => ⟨x1, hl, h1, h3 rfl, by
              rw [h2]; rcases hi.1 with hk | hk
              · exact Or.inl hk
              · exact Or.inr (Or.inl hk)⟩)
        · exact hrec _
      · exact hrec _
    | idle c =>
      simp only [startPhase, issueBlocking]
      split
      · rename_i x hx
        split_ifs with hi
        · simp only [Bool.and_eq_true, decide_eq_true_eq, Bool.not_eq_eq_eq_not, Bool.not_true] at hi
          exact inv_issue h true true (.cont c) hx hi.2 hready
            (fun x1 h1 h2 h3 l hl => ⟨x1, hl, h1, h3 rfl, by rw [h2]; exact Or.inr (Or.inr (Or.inl hi.1))⟩)
        · exact hrec _
      · exact hrec _
    | auth c =>
      simp only [startPhase, issueBlocking]
      split
      · rename_i x hx
        split_ifs with hi
        · simp only [Bool.and_eq_true, decide_eq_true_eq, Bool.not_eq_eq_eq_not, Bool.not_true] at hi
          exact inv_issue h true true (.cont c) hx hi.2 hready
            (fun x1 h1 h2 h3 l hl => ⟨x1, hl, h1, h3 rfl, by rw [h2]; exact Or.inr (Or.inr (Or.inr hi.1))⟩)
        · exact hrec _
      · exact hrec _
    | appendWrite c =>
      simp only [startPhase]
      split
      · split_ifs
        · exact hrecm _
        · exact hrec _
      · exact hrec _
    | idleDone c =>
      simp only [startPhase]
      exact hrecm _
    | starttls c =>
      simp only [startPhase]
      split
      · rename_i x hx
        split_ifs with hi
        · simp only [Bool.and_eq_true, decide_eq_true_eq, Bool.not_eq_eq_eq_not, Bool.not_true] at hi
          exact inv_issue h false true (.res c) hx hi.2 hready
            (fun x1 h1 _ _ l hl => ⟨x1, hl, h1⟩)
        · exact hrec _
      · exact hrec _


/-! ### the reader -/

theorem rTok_inv {s s' : St} (h : Inv s) (hs : rTok s = some s') : Inv s' := by
  simp only [rTok] at hs
  split_ifs at hs with hr
  have hrd : s.reader = .reading := by simpa using hr
  -- the connection is not closed while there is input
  have hncl : s.inbox ≠ [] → ¬ s.closedLocal = true := fun hne hcl => hne (h.closed hcl).1
  have hnf : s.inbox ≠ [] → ¬ s.failed = true := fun hne hf => hncl hne (h.failed hf).1
  have hnl : s.reader = .litWait → False := by intro hh; rw [hrd] at hh; cases hh
  split at hs
  · rename_i r hin
    simp only [Option.some.injEq] at hs; subst hs
    have hne : s.inbox ≠ [] := by rw [hin]; simp
    have he : NoEarly r := noEarly_tail (r := r) (by rw [← hin]; exact h.early)
    exact ⟨fun hc => absurd hc (hncl hne), h.failed, h.exited, h.pos, h.lit, h.tls,
      he, h.fixed, h.done⟩
  · rename_i r hin
    simp only [Option.some.injEq] at hs; subst hs
    have hne : s.inbox ≠ [] := by rw [hin]; simp
    have he : NoEarly r := noEarly_tail (r := r) (by rw [← hin]; exact h.early)
    exact ⟨fun hc => absurd hc (hncl hne), h.failed, h.exited, h.pos, h.lit, h.tls,
      he, h.fixed, h.done⟩
  · rename_i c r hin
    have hne : s.inbox ≠ [] := by rw [hin]; simp
    have he : NoEarly r := noEarly_tail (r := r) (by rw [← hin]; exact h.early)
    split at hs
    · rename_i x hx
      have hx' : s.cmds[c]? = some x := hx
      split_ifs at hs with hw
      simp only [Option.some.injEq] at hs; subst hs
      have e : Ext x { x with cont := Cont.granted } := ⟨rfl, id, fun _ => by simp, fun _ hb => hb⟩
      refine inv_setCmd (s' := setCmd { s with inbox := r } c _) h ?_ ?_ ?_ id rfl
        (fun hc => absurd hc (hncl hne)) (he) rfl rfl rfl ?_ ?_ rfl rfl rfl
      · intro hr'; exact h.done x (List.mem_of_getElem? hx') hr'
      · intro hf; exact absurd hf (hnf hne)
      · intro hk' hr'; exact h.tls x (List.mem_of_getElem? hx') hk' hr'
      · exact PosOK_ext h.pos (TableExt.set hx' e)
      · intro hh; exact (hnl hh).elim
    · simp at hs
  · rename_i c ok r hin
    have hne : s.inbox ≠ [] := by rw [hin]; simp
    have he : NoEarly r := noEarly_tail (r := r) (by rw [← hin]; exact h.early)
    split at hs
    · rename_i x hx
      have hx' : s.cmds[c]? = some x := hx
      split_ifs at hs with hw
      simp only [Option.some.injEq] at hs; subst hs
      simp only [pendingCmd, Bool.and_eq_true, Option.isNone_iff_eq_none] at hw
      have e : Ext x (completeOne x ok) := completeOne_ext x ok hw.2
      refine inv_setCmd (s := s) (s' := { setCmd { s with inbox := r } c (completeOne x ok) with
          upgraded := s.upgraded || (decide (x.kind = .starttls) && ok) }) h ?_ ?_ ?_ ?_ rfl
        (fun hc => absurd hc (hncl hne)) (he) rfl rfl rfl ?_ ?_ rfl rfl rfl
      · intro _; exact ⟨hw.1, rfl⟩
      · intro hf; exact absurd hf (hnf hne)
      · intro hk' hr'
        have hk'' : x.kind = .starttls := hk'
        have hok : ok = true := by simpa [completeOne] using hr'
        simp [hk'', hok]
      · intro hu; simp [hu]
      · exact PosOK_ext h.pos (TableExt.set hx' e)
      · intro hh; exact (hnl hh).elim
    · simp at hs
  · rename_i c ok r hin
    exact absurd (by rw [hin]; simp) (h.early c ok)
  · rename_i c n got r hin
    have hne : s.inbox ≠ [] := by rw [hin]; simp
    have he : NoEarly r := noEarly_tail (r := r) (by rw [← hin]; exact h.early)
    split at hs
    · split_ifs at hs with hw
      simp only [Option.some.injEq] at hs; subst hs
      refine ⟨fun hc => absurd hc (hncl hne), h.failed, ?_, h.pos, ?_, h.tls,
        he, h.fixed, h.done⟩
      · intro hh; cases hh
      · intro _; exact Or.inr (Or.inl rfl)
    · simp at hs
  · rename_i r hin
    simp only [Option.some.injEq] at hs; subst hs
    have hne : s.inbox ≠ [] := by rw [hin]; simp
    have he : NoEarly r := noEarly_tail (r := r) (by rw [← hin]; exact h.early)
    refine ⟨fun hc => absurd hc (hncl hne), h.failed, ?_, h.pos, ?_, h.tls,
      he, h.fixed, h.done⟩
    · intro hh; exact absurd hh (by rw [hrd]; simp)
    · intro hh; exact (hnl hh).elim
  · simp at hs
  · simp at hs

/-- every step preserves the invariant -/
theorem inv_step {s s' : St} (h : Inv s) (hs : Step s s') : Inv s' := by
  obtain ⟨r, hr, hs⟩ := hs
  simp only [rules, List.mem_cons, List.mem_nil_iff, or_false] at hr
  rcases hr with rfl | rfl | rfl | rfl | rfl | rfl | rfl | rfl | rfl | rfl | rfl | rfl | rfl | rfl | rfl
  · exact cStart_inv h hs
  · exact cGreet_inv h hs
  · exact cRes_inv h hs
  · exact cTls_inv h hs
  · exact cMsgs_inv h hs
  · exact cItems_inv h hs
  · exact cLit_inv h hs
  · exact cCont_inv h hs
  · exact rTok_inv h hs
  · exact rResume_inv h hs
  · exact rFail_inv h hs
  · exact kClose_inv h hs
  · exact kRet_inv h hs
  · exact pFire_inv h hs
  · exact kFinal_inv h hs

end GoImap.ClientFaultLemmas
