/-
  Helper lemmas for C03: the NAMESPACE response (imapserver/namespace.go writeNamespace against
  imapclient/namespace.go readNamespace). The line the server writes for a well-formed
  `NamespaceData` is read back by the client as the specification's canonical value (a group the
  backend left empty comes back as nil), and `deliverNamespace` hands exactly that value to the command.
-/
import GoImap.Lemmas.RespLines
import GoImap.Lemmas.RespFlags
namespace GoImap.Resp
open GoImap.RespSpec (validDelim)

/-- the bytes of one namespace descriptor: `(` prefix SP delimiter `)` -/
def ns_enc (utf8 : Bool) (x : NsDescr) : Str :=
  40 :: (encString utf8 x.prefix_ ++ [32] ++ (delimText x.delim).getD [] ++ [41])

/-- the bytes of one namespace group: `NIL` or the list of descriptors -/
def ns_group (utf8 : Bool) : Option (List NsDescr) → Str
  | none => NILb
  | some l => encList (l.map (ns_enc utf8))

/-- every descriptor of the group has a representable delimiter and a prefix a literal can carry -/
def ns_good (o : Option (List NsDescr)) : Prop :=
  ∀ l, o = some l → ∀ x ∈ l, validDelim x.delim = true ∧ x.prefix_.length < 9223372036854775808

theorem ns_optAll_map {α β : Type} (g : α → Option β) (e : α → β) :
    ∀ (l : List α), (∀ x ∈ l, g x = some (e x)) → optAll (l.map g) = some (l.map e) := by
  intro l
  induction l with
  | nil => intro _; rfl
  | cons x t ih =>
    intro h
    simp only [List.map_cons, optAll, h x (by simp), ih (fun y hy => h y (by simp [hy])), Option.map_some]

theorem ns_delimText_head (d : Int) (dl : Str) (h : delimText d = some dl) :
    ∃ c t, dl = c :: t ∧ c ≠ 13 ∧ c ≠ 10 := by
  unfold delimText at h
  split at h
  · injection h with h; subst h; exact ⟨78, [73, 76], rfl, by decide, by decide⟩
  · split at h
    · injection h with h; subst h; exact ⟨34, _, rfl, by decide, by decide⟩
    · cases h

/-- the server's text of a group, for a group whose delimiters are representable -/
theorem ns_nsListText (utf8 : Bool) (o : Option (List NsDescr)) (hg : ns_good o) :
    nsListText utf8 o = some (ns_group utf8 o) := by
  cases o with
  | none => rfl
  | some l =>
    simp only [nsListText]
    rw [ns_optAll_map _ (ns_enc utf8) l]
    · rfl
    · intro x hx
      obtain ⟨dl, hdl, _⟩ := readDelim_delimText x.delim [] (hg l rfl x hx).1 (StopsAt.nil _)
      simp [ns_enc, hdl]

theorem ns_group_head (utf8 : Bool) (o : Option (List NsDescr)) :
    ∃ c t, ns_group utf8 o = c :: t ∧ c ≠ 13 ∧ c ≠ 10 := by
  cases o with
  | none => exact ⟨78, [73, 76], rfl, by decide, by decide⟩
  | some l => exact ⟨40, _, rfl, by decide, by decide⟩

theorem ns_expectSP_group (utf8 : Bool) (o : Option (List NsDescr)) (rest : Str) :
    expectSP (32 :: (ns_group utf8 o ++ rest)) = some (ns_group utf8 o ++ rest) := by
  obtain ⟨c, t, h, h13, h10⟩ := ns_group_head utf8 o
  rw [h]
  exact expectSP_sp c (t ++ rest) h13 h10

/-- one descriptor is read back as written, whatever follows -/
theorem ns_readNsDescr (utf8 : Bool) (x : NsDescr) (r : Str) (hv : validDelim x.delim = true)
    (hl : x.prefix_.length < 9223372036854775808) :
    readNsDescr (ns_enc utf8 x ++ r) = some (x, r) := by
  obtain ⟨dl, hdl, hrd⟩ := readDelim_delimText x.delim (41 :: r) hv (StopsAt.cons _ (by decide))
  obtain ⟨c, t, hc, h13, h10⟩ := ns_delimText_head x.delim dl hdl
  have e : ns_enc utf8 x ++ r = 40 :: (encString utf8 x.prefix_ ++ 32 :: (dl ++ 41 :: r)) := by
    simp [ns_enc, hdl, List.append_assoc]
  have hds := decString_encString utf8 x.prefix_ (32 :: (dl ++ 41 :: r)) hl
  have hsp : expectSP (32 :: (dl ++ 41 :: r)) = some (dl ++ 41 :: r) := by
    rw [hc]; exact expectSP_sp c (t ++ 41 :: r) h13 h10
  rw [e]
  unfold readNsDescr
  simp [hds, hsp, hrd]

/-- one group is read back as written when an atom cannot continue into what follows -/
theorem ns_decNList_group (utf8 : Bool) (o : Option (List NsDescr)) (rest : Str) (hg : ns_good o)
    (hr : StopsAt isAtomChar rest) :
    decNList readNsDescr (ns_group utf8 o ++ rest) = some (o, rest) := by
  cases o with
  | none =>
    have hta := tryAtom_append NILb rest (by decide) (by decide) hr
    show decNList readNsDescr (NILb ++ rest) = _
    unfold decNList
    rw [hta]; simp
  | some l =>
    have hnone : tryAtom (encList (l.map (ns_enc utf8)) ++ rest) = none := by
      simp [encList, tryAtom, spanB, isAtomChar]
    have hd := decList_encList readNsDescr (ns_enc utf8) (fun x => x) l rest
      (fun x hx r _ => ns_readNsDescr utf8 x r (hg l rfl x hx).1 (hg l rfl x hx).2)
      (fun x _ => ⟨40, _, rfl, by decide, by decide, by decide⟩)
    show decNList readNsDescr (encList (l.map (ns_enc utf8)) ++ rest) = _
    unfold decNList
    rw [hnone, hd]; simp

theorem ns_nilIfEmpty {α : Type} (o : Option (List α)) : nilIfEmpty o = RespSpec.normOpt o := by
  cases o with
  | none => rfl
  | some l => cases l <;> rfl

/-- the three groups, separated by SP and followed by CR -/
theorem ns_readNamespace (utf8 : Bool) (d : NamespaceData) (rest : Str)
    (h1 : ns_good d.personal) (h2 : ns_good d.other) (h3 : ns_good d.shared) :
    readNamespace (ns_group utf8 d.personal ++ 32 :: (ns_group utf8 d.other ++ 32 :: (ns_group utf8 d.shared ++ 13 :: rest))) =
      some (RespSpec.canonNamespace d, 13 :: rest) := by
  have ha := ns_decNList_group utf8 d.personal (32 :: (ns_group utf8 d.other ++ 32 :: (ns_group utf8 d.shared ++ 13 :: rest))) h1
    (StopsAt.cons _ (by decide))
  have hb := ns_decNList_group utf8 d.other (32 :: (ns_group utf8 d.shared ++ 13 :: rest)) h2 (StopsAt.cons _ (by decide))
  have hc := ns_decNList_group utf8 d.shared (13 :: rest) h3 (StopsAt.cons _ (by decide))
  have s1 := ns_expectSP_group utf8 d.other (32 :: (ns_group utf8 d.shared ++ 13 :: rest))
  have s2 := ns_expectSP_group utf8 d.shared (13 :: rest)
  unfold readNamespace
  simp [ha, hb, hc, s1, s2, ns_nilIfEmpty, RespSpec.canonNamespace]

theorem ns_dispatch (n : Nat) (r r0 : Str) (d : NamespaceData) (r' : Str) (h1 : expectSP r = some r0)
    (h2 : readNamespace r0 = some (d, r')) :
    dispatchData n (asc "NAMESPACE") r = some (Event.namespace_ d, r') := by
  unfold dispatchData
  rw [if_neg (by decide), if_neg (by decide), if_pos (by decide), h1]
  simp [h2]

theorem ns_wf (d : NamespaceData) (hwf : RespSpec.wfNamespace d = true)
    (hlen : ∀ l, (d.personal = some l ∨ d.other = some l ∨ d.shared = some l) → ∀ x ∈ l, x.prefix_.length < 9223372036854775808) :
    ns_good d.personal ∧ ns_good d.other ∧ ns_good d.shared := by
  obtain ⟨p, o, s⟩ := d
  simp only [RespSpec.wfNamespace, Bool.and_eq_true] at hwf
  obtain ⟨⟨w1, w2⟩, w3⟩ := hwf
  refine ⟨?_, ?_, ?_⟩
  · show ns_good p
    intro l hl x hx
    subst hl
    exact ⟨by simpa using (List.all_eq_true.mp w1) x hx, hlen l (Or.inl rfl) x hx⟩
  · show ns_good o
    intro l hl x hx
    subst hl
    exact ⟨by simpa using (List.all_eq_true.mp w2) x hx, hlen l (Or.inr (Or.inl rfl)) x hx⟩
  · show ns_good s
    intro l hl x hx
    subst hl
    exact ⟨by simpa using (List.all_eq_true.mp w3) x hx, hlen l (Or.inr (Or.inr rfl)) x hx⟩

/-- the bytes `printNamespace` writes, for well-formed data -/
theorem ns_print (cfg : Cfg) (d : NamespaceData) (bytes : Str)
    (h1 : ns_good d.personal) (h2 : ns_good d.other) (h3 : ns_good d.shared)
    (hp : printNamespace cfg d = some bytes) :
    bytes = asc "* NAMESPACE " ++ ns_group cfg.quotedUTF8 d.personal ++ [32] ++ ns_group cfg.quotedUTF8 d.other ++ [32] ++
      ns_group cfg.quotedUTF8 d.shared ++ CRLFb := by
  unfold printNamespace at hp
  rw [ns_nsListText _ _ h1, ns_nsListText _ _ h2, ns_nsListText _ _ h3] at hp
  injection hp with hp
  exact hp.symm

/-- `* NAMESPACE` personal SP other SP shared CRLF (namespace.go writeNamespace) is read as the
    namespace event carrying the canonical form of the data -/
theorem namespace_line (cfg : Cfg) (d : NamespaceData) (bytes : Str)
    (hwf : RespSpec.wfNamespace d = true)
    (hlen : ∀ l, (d.personal = some l ∨ d.other = some l ∨ d.shared = some l) → ∀ x ∈ l, x.prefix_.length < 9223372036854775808)
    (hp : printNamespace cfg d = some bytes) :
    ReadsAs bytes (Event.namespace_ (RespSpec.canonNamespace d)) := by
  obtain ⟨h1, h2, h3⟩ := ns_wf d hwf hlen
  have hb := ns_print cfg d bytes h1 h2 h3 hp
  subst hb
  constructor
  · simp [asc]
  · intro rest
    have e : asc "* NAMESPACE " ++ ns_group cfg.quotedUTF8 d.personal ++ [32] ++ ns_group cfg.quotedUTF8 d.other ++ [32] ++
        ns_group cfg.quotedUTF8 d.shared ++ CRLFb ++ rest =
        42 :: 32 :: 78 :: (asc "AMESPACE" ++ 32 :: (ns_group cfg.quotedUTF8 d.personal ++ 32 :: (ns_group cfg.quotedUTF8 d.other ++
          32 :: (ns_group cfg.quotedUTF8 d.shared ++ 13 :: 10 :: rest)))) := by
      simp [asc, CRLFb, List.append_assoc]
    rw [e, readResponse_star 78 _ (by decide) (by decide)]
    have e2 : ∀ X : Str, 78 :: (asc "AMESPACE" ++ X) = asc "NAMESPACE" ++ X := fun _ => rfl
    rw [e2, readUntagged_name (asc "NAMESPACE") _ (isName_of _ (by decide)) (StopsAt.cons _ (by decide)),
      ns_dispatch 0 _ _ _ _ (ns_expectSP_group _ _ _) (ns_readNamespace cfg.quotedUTF8 d (10 :: rest) h1 h2 h3),
      finishLine_crlf]

/-- NAMESPACE: what the backend handed to the server is what `NamespaceCommand.Wait` returns, up to
    nil/empty groups (bytes of the whole command: the untagged line and the tagged completion) -/
theorem namespace_fidelity (cfg : Cfg) (d : NamespaceData) (bytes tag text : Str) (ht : IsTag tag) (hx : IsText text)
    (hwf : RespSpec.wfNamespace d = true)
    (hlen : ∀ l, (d.personal = some l ∨ d.other = some l ∨ d.shared = some l) → ∀ x ∈ l, x.prefix_.length < 9223372036854775808)
    (hp : printNamespace cfg d = some bytes) :
    (parseAll (bytes ++ (tag ++ asc " OK " ++ text ++ CRLFb))).map deliverNamespace = some (RespSpec.canonNamespace d) := by
  have hlines : AllRead [bytes, tag ++ asc " OK " ++ text ++ CRLFb]
      [Event.namespace_ (RespSpec.canonNamespace d), Event.done tag (asc "OK") Code.none] :=
    AllRead.cons (namespace_line cfg d bytes hwf hlen hp) (AllRead.single (done_line tag text ht hx))
  have hflat : bytes ++ (tag ++ asc " OK " ++ text ++ CRLFb) = [bytes, tag ++ asc " OK " ++ text ++ CRLFb].flatten := by
    simp
  rw [hflat, parseAll_lines _ _ hlines]
  rfl

/-- personal namespace "" with delimiter `/`, no other-users namespace, an empty (non-nil) shared list:
    the client reports the shared group as nil -/
example : ReadsAs (asc "* NAMESPACE ((\"\" \"/\")) NIL ()\r\n")
    (Event.namespace_ { personal := some [{ prefix_ := [], delim := 47 }], other := none, shared := none }) :=
  namespace_line Cfg.plain { personal := some [{ prefix_ := [], delim := 47 }], other := none, shared := some [] } _
    (by decide)
    (by
      intro l h x hx
      rcases h with h | h | h
      · simp only [Option.some.injEq] at h; subst h; simp at hx; subst hx; decide
      · cases h
      · simp only [Option.some.injEq] at h; subst h; cases hx)
    (by decide)

end GoImap.Resp
