/-
  Hoare-style reasoning for the client response reader (Model/ClientParse.lean): an invariant
  `Good` on the decoder/client state that every parser preserves, whatever the input; "never
  panics" is part of the triple.
-/
import GoImap.Model.ClientParse
import GoImap.Spec.NumSet
namespace GoImap.ClientParse
open GoImap

/-- a result set as the client may hand it over: canonical and without "*" -/
def StaticSet (s : NumSet.Set) : Prop := NumSetSpec.canonical s = true ∧ NumSet.dynamic s = false

/-- what must hold of the client state at every moment -/
structure GoodCS (cs : CS) : Prop where
  nz : ∀ n ∈ cs.delivered, n ≠ 0
  all : ∀ u s, cs.sAll = some (u, s) → StaticSet s
  src : ∀ s, cs.src = some s → StaticSet s
  dst : ∀ s, cs.dst = some s → StaticSet s
  dd : cs.deliveredDepth ≤ maxListDepth

def Good (d : Dec) : Prop := GoodCS d.cs ∧ d.maxDepth ≤ maxListDepth

/-- what a result must satisfy: good state on success and on failure, `Q` of the value, no panic -/
def Post {α : Type} (Q : α → Prop) : Res α → Prop
  | .ok a d' => Good d' ∧ Q a
  | .err d' => Good d'
  | .panic => False
  | .unmod => True
  | .nofuel => True

/-- `Tr p Q`: from a good state `p` never panics, leaves a good state whether it succeeds or
    fails, and a value it returns satisfies `Q`. -/
structure Tr {α : Type} (p : P α) (Q : α → Prop) : Prop where
  run : ∀ d, Good d → Post Q (p d)

abbrev Tr' {α : Type} (p : P α) : Prop := Tr p (fun _ => True)

theorem tr_pure {α} (a : α) (Q : α → Prop) (h : Q a) : Tr (pure a : P α) Q := by
  constructor; intro d hd; exact ⟨hd, h⟩

theorem tr_fail {α} (Q : α → Prop) : Tr (fail : P α) Q := by
  constructor; intro d hd; exact hd

theorem tr_unmod {α} (Q : α → Prop) : Tr (unmodelled : P α) Q := by
  constructor; intro d _; trivial

theorem tr_nofuel {α} (Q : α → Prop) : Tr (outOfFuel : P α) Q := by
  constructor; intro d _; trivial

theorem bind_eq {α β} (p : P α) (f : α → P β) (d : Dec) : (p >>= f) d = P.bind p f d := rfl

theorem tr_bind {α β} {p : P α} {f : α → P β} {Q : α → Prop} {R : β → Prop}
    (hp : Tr p Q) (hf : ∀ a, Q a → Tr (f a) R) : Tr (p >>= f) R := by
  constructor
  intro d hd
  have h1 := hp.run d hd
  rw [bind_eq]
  unfold P.bind
  cases hpd : p d with
  | ok a d' =>
    rw [hpd] at h1
    exact (hf a h1.2).run d' h1.1
  | err d' => rw [hpd] at h1; exact h1
  | panic => rw [hpd] at h1; exact h1
  | unmod => trivial
  | nofuel => trivial

theorem tr_weaken {α} {p : P α} {Q Q' : α → Prop} (hp : Tr p Q) (h : ∀ a, Q a → Q' a) : Tr p Q' := by
  constructor
  intro d hd
  have h1 := hp.run d hd
  cases hpd : p d with
  | ok a d' => rw [hpd] at h1; exact ⟨h1.1, h a h1.2⟩
  | err d' => rw [hpd] at h1; exact h1
  | panic => rw [hpd] at h1; exact h1
  | unmod => trivial
  | nofuel => trivial

theorem tr_ite {α} {c : Prop} [Decidable c] {p q : P α} {Q : α → Prop} (hp : Tr p Q) (hq : Tr q Q) :
    Tr (if c then p else q) Q := by
  split <;> assumption

/-- a parser that only touches the decoder's reading state preserves `Good` -/
theorem good_frame {d d' : Dec} (h : Good d) (hcs : d'.cs = d.cs) (hm : d'.maxDepth = d.maxDepth) : Good d' := by
  unfold Good at *
  rw [hcs, hm]; exact h

theorem tr_expect (b : Bool) : Tr' (expect b) := by
  unfold expect
  cases b
  · exact tr_fail _
  · exact tr_pure _ _ trivial

/-! ### primitives -/

theorem tr_readByte : Tr' readByte := by
  constructor
  intro d hd
  unfold readByte
  cases h : d.inp with
  | nil => exact ⟨good_frame hd rfl rfl, trivial⟩
  | cons b r => exact ⟨good_frame hd rfl rfl, trivial⟩

theorem tr_acceptByte (w : UInt8) : Tr' (acceptByte w) := by
  constructor
  intro d hd
  unfold acceptByte
  rw [bind_eq]
  unfold P.bind readByte
  cases h : d.inp with
  | nil => exact ⟨good_frame hd rfl rfl, trivial⟩
  | cons b r =>
    simp only []
    by_cases hb : (b == w) = true
    · simp only [hb, if_true]; exact ⟨good_frame hd rfl rfl, trivial⟩
    · have hb' : (b == w) = false := by simpa using hb
      simp only [hb', Bool.false_eq_true, ↓reduceIte]
      rw [bind_eq]
      unfold P.bind unreadByte
      simp only [if_true]
      exact ⟨good_frame hd rfl rfl, trivial⟩

theorem tr_peekByte : Tr' peekByte := by
  constructor
  intro d hd
  unfold peekByte
  rw [bind_eq]
  unfold P.bind readByte
  cases h : d.inp with
  | nil => exact ⟨good_frame hd rfl rfl, trivial⟩
  | cons b r =>
    simp only []
    rw [bind_eq]
    unfold P.bind unreadByte
    simp only [if_true]
    exact ⟨good_frame hd rfl rfl, trivial⟩

/-- a parser given as a state transformer that keeps the client state and the depth ghost -/
theorem tr_frame {α} (p : P α) (h : ∀ d, match p d with
    | .ok _ d' => d'.cs = d.cs ∧ d'.maxDepth = d.maxDepth
    | .err d' => d'.cs = d.cs ∧ d'.maxDepth = d.maxDepth
    | .panic => False | .unmod => True | .nofuel => True) : Tr' p := by
  constructor
  intro d hd
  have := h d
  cases hp : p d with
  | ok a d' => rw [hp] at this; exact ⟨good_frame hd this.1 this.2, trivial⟩
  | err d' => rw [hp] at this; exact good_frame hd this.1 this.2
  | panic => rw [hp] at this; exact this
  | unmod => trivial
  | nofuel => trivial

theorem tr_func (v : UInt8 → Bool) : Tr' (func v) := by
  apply tr_frame
  intro d
  unfold func
  cases h : (spanB v d.inp []) with
  | mk tk rest =>
    cases rest with
    | nil => exact ⟨rfl, rfl⟩
    | cons b r => exact ⟨rfl, rfl⟩

theorem tr_quotedRest : Tr' quotedRest := by
  apply tr_frame
  intro d
  unfold quotedRest
  cases h : quotedBody d.inp [] 0 with
  | none => exact ⟨rfl, rfl⟩
  | some x => obtain ⟨s, rest, n⟩ := x; exact ⟨rfl, rfl⟩

theorem tr_literalData (n : Nat) : Tr' (literalData n) := by
  apply tr_frame; intro d; exact ⟨rfl, rfl⟩

theorem tr_softFail {α} : Tr' (softFail : P (Option α)) := by
  apply tr_frame; intro d; exact ⟨rfl, rfl⟩

theorem tr_badLiteral : Tr' badLiteral := by
  apply tr_frame; intro d; exact ⟨rfl, rfl⟩

theorem tr_getCS : Tr' getCS := by
  apply tr_frame; intro d; exact ⟨rfl, rfl⟩

theorem tr_modifyCS (f : CS → CS) (h : ∀ cs, GoodCS cs → GoodCS (f cs)) : Tr' (modifyCS f) := by
  constructor
  intro d hd
  exact ⟨⟨h _ hd.1, hd.2⟩, trivial⟩

theorem tr_bind' {α β} {p : P α} {f : α → P β} {R : β → Prop}
    (hp : Tr' p) (hf : ∀ a, Tr (f a) R) : Tr (p >>= f) R :=
  tr_bind hp (fun a _ => hf a)

/-- entering a level below the limit keeps the depth ghost within the limit, and the new
    level is below the limit again -/
theorem tr_enter (depth : Nat) (h : depth < maxListDepth) : Tr (enter depth) (fun dp => dp < maxListDepth) := by
  constructor
  intro d hd
  unfold enter
  simp only []
  have hm : max d.maxDepth (depth + 1) ≤ maxListDepth := Nat.max_le.2 ⟨hd.2, h⟩
  by_cases c : depth + 1 ≥ maxListDepth
  · simp only [c, if_true]; exact ⟨hd.1, hm⟩
  · simp only [c, if_false]; exact ⟨⟨hd.1, hm⟩, by omega⟩

theorem tr_bind_enter {β} {depth : Nat} {f : Nat → P β} {R : β → Prop} (h : depth < maxListDepth)
    (hf : ∀ dp, dp < maxListDepth → Tr (f dp) R) : Tr (enter depth >>= f) R :=
  tr_bind (tr_enter depth h) hf

theorem tr_finally {α} {p : P α} {Q : α → Prop} (h : CS → CS) (hp : Tr p Q)
    (hh : ∀ cs, GoodCS cs → GoodCS (h cs)) : Tr (finally' p h) Q := by
  constructor
  intro d hd
  have h1 := hp.run d hd
  unfold finally'
  cases hpd : p d with
  | ok a d' => rw [hpd] at h1; exact ⟨⟨hh _ h1.1.1, h1.1.2⟩, h1.2⟩
  | err d' => rw [hpd] at h1; exact ⟨hh _ h1.1, h1.2⟩
  | panic => rw [hpd] at h1; exact h1
  | unmod => trivial
  | nofuel => trivial

/-- closes `Tr` goals of parsers built from binds, conditionals and matches out of parsers
    whose triples are among the hypotheses or the given lemmas -/
syntax "tr_auto" ("[" term,* "]")? : tactic
macro_rules
  | `(tactic| tr_auto) => `(tactic| tr_auto [])
  | `(tactic| tr_auto [$ls,*]) => `(tactic|
    repeat' (first
      | intro _
      | exact tr_pure _ _ trivial
      | exact tr_fail _
      | exact tr_unmod _
      | exact tr_nofuel _
      | assumption
      | exact tr_expect _
      | exact tr_acceptByte _
      | exact tr_peekByte
      | exact tr_func _
      | exact tr_quotedRest
      | exact tr_literalData _
      | exact tr_softFail
      | exact tr_badLiteral
      | exact tr_getCS
      | (first $[| exact $ls]*)
      | (first $[| apply $ls]*)
      | apply tr_bind_enter
      | apply tr_bind'
      | split))

theorem tr_special (w : UInt8) : Tr' (special w) := tr_acceptByte w

theorem tr_expectSpecial (w : UInt8) : Tr' (expectSpecial w) := by
  unfold expectSpecial; tr_auto [tr_special]

theorem tr_sp : Tr' sp := by
  unfold sp; tr_auto

end GoImap.ClientParse
